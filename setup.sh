#!/bin/sh
# Builds the whole framework offline from files on disk: all Lean modules (proofs + driver) and the harness.
set -e
cd "$(dirname "$0")"
export CARGO_NET_OFFLINE=true
python3 tools/extract.py
(cd lean && lake build)
python3 - <<'PY'
import sys
sys.path.insert(0, ".")
from vlib import common as C
for b in ["dev", "release", "avx2"]:
    rc, err, _ = C.harness_build(b)
    if rc != 0:
        print(err); sys.exit(1)
PY
echo "setup done"
