#!/bin/sh
# Builds the whole framework offline from files on disk: all Lean modules (proofs + driver) and the harness.
set -e
cd "$(dirname "$0")"
export CARGO_NET_OFFLINE=true
python3 tools/extract.py
(cd lean && lake build)
# the theorem modules about TRANSLATED code are not imported by the root (a source the translators cannot read must break their own
# obligations only); build them here too so that the first check does not have to - a failure is reported by the checks, not here
(cd lean && lake build Urandom.Props.C01T Urandom.Props.C02T Urandom.Props.C02S Urandom.Props.C03T Urandom.Props.C04T Urandom.Props.C04D Urandom.Props.C05T Urandom.Props.C06T Urandom.Props.C07T \
   Urandom.Props.C09T Urandom.Props.C10T Urandom.Props.C11T Urandom.Props.C12T Urandom.Props.C13T Urandom.Props.C14T Urandom.Props.C15T Urandom.Props.C16T \
   Urandom.Props.C17T Urandom.Props.C18T Urandom.Props.C01R Urandom.Props.C04R Urandom.Props.C13R Urandom.Props.C17R Urandom.Props.C19R >/dev/null 2>&1 || true)
python3 - <<'PY'
import sys
sys.path.insert(0, ".")
from vlib import common as C
for b in ["dev", "release", "avx2"]:
    rc, err, _ = C.harness_build(b)
    if rc != 0:
        print(err); sys.exit(1)
PY
echo "setup done"
