#!/usr/bin/env python3
"""Entry point of every registered check:  ./check.py Cxx [--tier quick|thorough] [--replay FILE]

Pipeline (DESIGN.md 2.1): regenerate Generated/ from /repo, build the property's Lean module and
audit its axioms, build the harness against /repo's working tree, generate requests, run them on
the implementation (harness) and on the model (driver), diff, run the property oracle, classify
against known_findings.json, write evidence/Cxx.json, exit 0/1.
"""
import argparse, importlib, json, os, sys, time

sys.path.insert(0, os.path.dirname(os.path.abspath(__file__)))
from vlib import common as C


def load_known():
    p = os.path.join(C.VERIF, "known_findings.json")
    if not os.path.exists(p):
        return []
    return json.load(open(p)).get("findings", [])


def dis_is_failing(mod, d):
    """a disagreement with the model is itself a failing input only where the model is PROVED equal to the specification the property names
    and the compared output is exactly what the property fixes (per request, if the property module says so)"""
    if hasattr(mod, "disagreement_is_failing"):
        return mod.disagreement_is_failing(d["request"], d["impl"], d["model"])
    return getattr(mod, "DISAGREEMENT_IS_FAILING_INPUT", False)


def main():
    ap = argparse.ArgumentParser()
    ap.add_argument("prop")
    ap.add_argument("--tier", default=os.environ.get("VERIF_TIER", "quick"))
    ap.add_argument("--replay")
    ap.add_argument("--skip-lean", action="store_true", help="development only: skip the proof build")
    a = ap.parse_args()
    prop, tier = a.prop, a.tier
    seed = int(os.environ.get("VERIF_SEED", "1") or "1")
    if a.replay:
        # a replay re-runs under the seed and tier of the run that found it (searches of `extra` are derived from them)
        _rp = json.load(open(a.replay))
        seed, tier = int(_rp.get("seed", seed)), _rp.get("tier", tier)
    t0 = time.time()
    mod = importlib.import_module("vlib.p_" + prop.lower())
    rng = C.SplitMix(seed).fork(prop + "/" + tier)

    problems = []      # (kind, text, replay-dict)   kind in {proof, correspondence, oracle}
    notes = []

    # 0. data translated from the source on every run
    # (every property: the Lean modules import one another, so all translated files must describe the CURRENT source before anything is built)
    sys.path.insert(0, os.path.join(C.VERIF, "tools"))
    import extract
    extract.main()
    if hasattr(mod, "regenerate"):
        mod.regenerate()

    # 1. proofs
    # a property may have several theorem modules (e.g. the theorems about code TRANSLATED from the source live in a module of their
    # own, so that a source file the translator cannot read breaks those obligations only)
    lean_modules = mod.LEAN_MODULE if isinstance(mod.LEAN_MODULE, (list, tuple)) else [mod.LEAN_MODULE]
    lean_module = " ".join(lean_modules)
    obligations = discharged = 0
    ax_details = {}
    driver_ok = True
    if not a.skip_lean:
        rc, out, err = C.lake_build(["urandom_model"])
        if rc != 0:
            # the model driver itself no longer builds (it includes data translated from the source, e.g. the ziggurat tables)
            driver_ok = False
            first_err = next((l for l in (out + err).split("\n") if l.startswith("error:")), "")
            problems.append(("correspondence", "the model driver does not build against the files translated from the current source (%s): the correspondence cannot be run" % first_err[:300],
                             {"log": (out + err)[-3000:]}))
        scanned = False
        for lm in lean_modules:
            rc, out, err = C.lake_build([lm])
            if rc != 0:
                first_err = next((l for l in (out + err).split("\n") if l.startswith("error:") and ".lean" in l), "")
                tr = ""
                for genf, what in (("Simd.lean", "SIMD"), ("Scalar.lean", "scalar"), ("ScalarFloat01.lean", "scalar"), ("ScalarUniformInt.lean", "scalar"), ("ScalarChaCha.lean", "scalar"), ("ScalarStandard.lean", "scalar"), ("ScalarDice.lean", "scalar"), ("ScalarReadMock.lean", "scalar"), ("FloatDistr.lean", "float"), ("FloatUniform.lean", "float"), ("FloatBernoulli.lean", "float"), ("FloatZiggurat.lean", "float"), ("FloatSingle.lean", "float"), ("EffectMultiple.lean", "pointer-effect"), ("EffectFill.lean", "pointer-effect"), ("EffectBlock.lean", "pointer-effect"), ("EffectBlockFill.lean", "pointer-effect"), ("EffectSystem.lean", "pointer-effect"), ("EffectShuffle.lean", "pointer-effect")):
                    gen = os.path.join(C.LEAN_DIR, "Urandom", "Generated", genf)
                    if os.path.exists(gen) and "could not translate" in open(gen).read() and genf[:-5] in (out + err):
                        tr += "; the %s translator could not read the current source: %s" % (what, open(gen).read().split("could not translate the current source:")[1].split("-/")[0].strip()[:300])
                problems.append(("proof", "lake build %s failed (%s)%s" % (lm, first_err[:300], tr), {"theorem_module": lm, "log": (out + err)[-3000:]}))
                continue
            ob, di, det, bad = C.axiom_audit(lm)
            obligations += ob
            discharged += di
            ax_details.update(det)
            for b in bad:
                problems.append(("proof", "axiom audit: " + b, {"theorem_module": lm}))
            if not scanned:
                scanned = True
                for h in C.lean_forbidden_scan():
                    problems.append(("proof", "forbidden construct: " + h, {"theorem_module": lm}))
            if tier == "thorough" and not os.environ.get("VERIF_NO_LEANCHECKER"):
                rc, out, err = C.sh(["lake", "env", "leanchecker", lm], cwd=C.LEAN_DIR, timeout=7200)
                notes.append("leanchecker %s rc=%d" % (lm, rc))
                if rc != 0:
                    problems.append(("proof", "leanchecker rejected " + lm, {"log": (out + err)[-2000:]}))
    else:
        rc, out, err = C.lake_build(["urandom_model"])
        if rc != 0:
            print(out + err)
            sys.exit(2)

    # 2. correspondence + oracle, per harness build
    evaluations = 0
    extra_distinct = 0
    distinct = set()
    samples = []
    stats = {}
    disagreements = []
    oracle_fail = []
    # debug and release profiles by default: debug_assert!, overflow checks and cfg(debug_assertions) make the profile part of the input space
    builds = mod.builds(tier) if hasattr(mod, "builds") else ["dev", "release"]
    if prop != "C02":
        # a code path outside the ChaCha back ends that exists only under a target feature: a build of its own for every property
        builds = list(builds) + [C.feature_build(f) for f in C.source_target_features(exclude="rng/chacha") if f not in ("sse2",) and "tf-" + f not in builds]
    if a.replay:
        rp = json.load(open(a.replay))
        fixed_requests = rp.get("requests") or [rp["request"]]
    for build in (builds if driver_ok else []):
        rc, err, binary = C.harness_build(build)
        if rc != 0:
            # the current source no longer compiles with the harness (a changed public signature, a removed item, or it does not compile at all):
            # the correspondence of this build cannot be run, so the property is not shown to hold on it
            print("harness build (%s) failed against %s:\n%s" % (build, C.REPO, err[-3000:]))
            first = next((l for l in err.split("\n") if l.startswith("error")), "cargo build failed")
            problems.append(("correspondence", "the correspondence of build '%s' cannot be run: the verification harness does not compile against the current source (%s)" % (build, first[:300]),
                             {"build": build, "log": err[-3000:]}))
            continue
        if a.replay:
            # findings that are not harness requests (a client program, a table entry): replayed by re-running the property's own search
            nonreq = [q for q in fixed_requests if q.startswith(("probe ", "table entry ", "chi-square ", "enum32 "))]
            if (rp.get("failing_input") or {}).get("source") == "extra":
                nonreq = list(fixed_requests)      # found by the property's own search over the implementation: that search is what is replayed
            if nonreq and hasattr(mod, "extra"):
                for item in mod.extra(binary, build, tier, rng.fork("extra" + build)):
                    if item.pop("kind") == "oracle" and item["request"] in nonreq:
                        oracle_fail.append(item)
            fixed_requests = [q for q in fixed_requests if q not in nonreq]
            requests = [q for q in fixed_requests if not q.startswith(("enum ", "stat ", "statd "))]
            statd_reqs = [q for q in fixed_requests if q.startswith("statd ")]
            if statd_reqs:
                from vlib.stat_oracle import judge_statd_lines
                for item in judge_statd_lines(binary, statd_reqs, "replayed-statistics", build):
                    if item.pop("kind") == "oracle":
                        oracle_fail.append(item)
            stat_reqs = [q for q in fixed_requests if q.startswith("stat ")]
            if stat_reqs:
                from vlib.stat_oracle import run_stat
                from vlib.oracles import kv
                specs = [(d["kind"], int(d["n"]), int(d["k"]), int(d["samples"]), int(d["seed"]), d.get("hint"), d.get("gen")) for d in map(kv, stat_reqs)]
                for item in run_stat(binary, specs, "replayed-statistics", build):
                    if item.pop("kind") == "oracle":
                        oracle_fail.append(item)
            enum_reqs = [q for q in fixed_requests if q.startswith("enum ")]
            if enum_reqs:
                from vlib.enum_oracle import run_enum
                from vlib.oracles import kv
                specs = [(d["kind"], int(d["n"]), int(d["k"]), int(d["grid"]), int(d["draws"]), d.get("hint")) for d in map(kv, enum_reqs)]
                for item in run_enum(binary, specs, "replayed-enumeration"):
                    if item.pop("kind") == "oracle":
                        oracle_fail.append(item)
        else:
            requests = mod.corpus(build) + mod.generate(rng.fork(build), tier, build)
            requests = C.with_api_paths(requests, rng.fork("paths" + build))
        if requests:
            wleft = {}
            rc1, impl, e1 = C.run_lines(binary, ["run"], requests, wleft=wleft)
            rc2, model, e2 = C.run_lines(C.driver_path(), [], mod.model_requests(requests, build) if hasattr(mod, "model_requests") else requests)
        else:
            impl, model, e1, e2, wleft = [], [], "", "", {}
        if len(impl) != len(requests):
            problems.append(("correspondence", "harness (%s) died after %d of %d requests: %s" % (build, len(impl), len(requests), e1[-300:]),
                             {"request": requests[len(impl)] if len(impl) < len(requests) else None, "build": build}))
        if len(model) != len(requests):
            print("model driver died after %d of %d requests: %s" % (len(model), len(requests), e2[-300:]))
            sys.exit(2)
        for ri, (req, im, mo) in enumerate(zip(requests, impl, model)):
            evaluations += 1
            if mo == "bad-request" or im == "bad-request":
                print("internal error: bad-request for %r (impl=%r model=%r)" % (req, im[:80], mo[:80]))
                sys.exit(2)
            cls = mod.classify(req, mo) if hasattr(mod, "classify") else "case"
            if cls:
                stats[cls] = stats.get(cls, 0) + 1
                distinct.add(req)
            if len(samples) < 6 and evaluations % max(1, len(requests) // 5) == 1:
                samples.append({"build": build, "request": req[:400], "impl": im[:300], "model": mo[:300]})
            o = mod.oracle(req, im, build) if hasattr(mod, "oracle") else None
            if not o and ri in wleft and hasattr(mod, "panic_with_words_left"):
                # the operation panicked although scripted words were still unread: the property module says whether that is a failure
                o = mod.panic_with_words_left(req, wleft[ri], build)
            if o:
                item = {"build": build, "request": req, "impl": im, "model": mo, "oracle": o}
                if isinstance(o, dict):          # an oracle over SEVERAL requests (two seeds that collide) names them all, so that the replay runs them all
                    item.update(o)
                oracle_fail.append(item)
            if (mod.canon(im) if hasattr(mod, "canon") else im) != mo:
                disagreements.append({"build": build, "request": req, "impl": im, "model": mo})
        # extra, property-specific searches (exhaustive enumerations of small draw spaces …)
        if hasattr(mod, "extra") and not a.replay:
            for item in mod.extra(binary, build, tier, rng.fork("extra" + build)):
                kind = item.pop("kind")
                if kind == "oracle":
                    item["source"] = "extra"
                    oracle_fail.append(item)
                elif kind == "count":
                    evaluations += item["n"]
                    stats[item["what"]] = stats.get(item["what"], 0) + item["n"]
                    extra_distinct += item.get("distinct", 0)
                    samples.extend(item.get("samples", [])[:3])
                elif kind == "note":
                    notes.append(item["text"])

    # 3. classification
    known = [k for k in load_known() if k["property"] == prop and k.get("status") == "known"]
    known_hit = {}
    new_oracle = []
    for f in oracle_fail:
        k = mod.match_known(f, known) if hasattr(mod, "match_known") else None
        if k:
            known_hit.setdefault(k["id"], (k, f))
        else:
            new_oracle.append(f)
    new_dis = []
    for d in disagreements:
        if any(d["request"] == f["request"] and d["build"] == f["build"] for f in oracle_fail):
            continue  # already reported through the oracle, with the failing input
        new_dis.append(d)

    violation = None
    if new_oracle:
        f = new_oracle[0]
        violation = {"kind": "oracle", "failing_input": f, "others": len(new_oracle) - 1, "note": "the implementation violates the property on this input (independent of the model)"}
    elif [d for d in new_dis if dis_is_failing(mod, d)]:
        d = min([d for d in new_dis if dis_is_failing(mod, d)], key=lambda d: len(d["request"]))
        violation = {"kind": "disagreement", "failing_input": d, "others": len(new_dis) - 1,
                     "note": "the model is proved equal to the specification the property names; the implementation differs from it on this input"}
    elif new_dis:
        d = min(new_dis, key=lambda d: len(d["request"]))
        violation = {"kind": "correspondence-broken", "no_failing_input_found": True, "correspondence_stream": mod.__name__, "first_disagreement": d, "others": len(new_dis) - 1,
                     "note": "model and implementation disagree; the property oracle found no input on which the implementation violates the property"}
    elif problems:
        k, text, rp = problems[0]
        violation = {"kind": k, "no_failing_input_found": True, "what_no_longer_checks": text, "detail": rp, "others": len(problems) - 1}

    wall = time.time() - t0
    ev = {
        "property_id": prop, "tier": tier, "seed": seed, "level": "proof",
        "coverage": {
            "obligations": obligations, "discharged": discharged,
            "checker_cmd": "cd /verif/lean && lake build %s && lake env lean .lake/audit/<module>_audit.lean  (#print axioms on every theorem; thorough: lake env leanchecker <module>)" % lean_module,
            "trusted_base": ["Lean 4.33 kernel", "axioms: propext, Classical.choice, Quot.sound only (audited this run)", "hand-written model tied to /repo by the differential correspondence below", "harness/ (Rust), vlib/ + check.py (Python)"] + list(getattr(mod, "TRUSTED", [])),
            "theorems": {k: ",".join(v) for k, v in ax_details.items()},
            "evaluations": evaluations, "distinct_nontrivial": len(distinct) + extra_distinct,
            "rule": getattr(mod, "RULE", ""),
            "samples": samples,
            "case_classes": stats,
            "builds": builds,
            "disagreements": len(disagreements), "oracle_failures": len(oracle_fail),
            "known_findings_hit": sorted(known_hit),
            "notes": notes,
        },
        "assumptions": list(getattr(mod, "ASSUMPTIONS", [])),
        "wall_s": round(wall, 2),
        "violations": 0 if violation is None else 1,
    }
    if not a.replay and not a.skip_lean and not os.environ.get("VERIF_NO_EVIDENCE"):
        os.makedirs(os.path.join(C.VERIF, "evidence"), exist_ok=True)
        json.dump(ev, open(os.path.join(C.VERIF, "evidence", prop + ".json"), "w"), indent=1)

    for kid, (k, f) in sorted(known_hit.items()):
        print("KNOWN-FINDING: property=%s %s [%s] e.g. %s -> %s" % (prop, k["what"], kid, f["request"][:160], f["impl"][:60]))
    print("%s tier=%s seed=%d: theorems %d/%d, %d cases (%d distinct non-trivial), %d disagreements, %d oracle failures, %.1fs" %
          (prop, tier, seed, discharged, obligations, evaluations, len(distinct) + extra_distinct, len(disagreements), len(oracle_fail), wall))
    if violation is None:
        sys.exit(0)
    os.makedirs(os.path.join(C.VERIF, "replays"), exist_ok=True)
    rpath = os.path.join(C.VERIF, "replays", "%s-%s-%d.json" % (prop, tier, seed))
    violation["property"] = prop
    violation["seed"], violation["tier"] = seed, tier
    violation["how_to_rerun"] = "./check.py %s --replay %s" % (prop, rpath)
    fi = violation.get("failing_input") or violation.get("first_disagreement")
    if fi:
        violation["request"] = fi["request"]
        if fi.get("requests"):
            violation["requests"] = fi["requests"]
    json.dump(violation, open(rpath, "w"), indent=1)
    tail = " no-failing-input-found" if violation.get("no_failing_input_found") else ""
    print("VIOLATION property=%s replay=%s%s" % (prop, rpath, tail))
    sys.exit(1)


if __name__ == "__main__":
    main()
