"""C17 - system entropy: full-state seeding, each word served once, failures never masked."""
from . import common as C

LEAN_MODULE = ["Urandom.Props.C17", "Urandom.Props.C17T", "Urandom.Props.C01R", "Urandom.Props.C17R"]
RULE = ("requests: System<N> for N in {0,1,2,3,4,5,7,8,31,64} and, with draw sequences that walk through whole blocks, {65,100,127,128,200,1000} under random interleavings of next_u32 / next_u64 / fill_bytes(len) / jump with panics caught per operation, against a "
        "scripted entropy source (the crate is built without `getrandom` and linked against the harness's getentropy_raw): tagged words, failure injected at every fetch index, a "
        "failing fetch scribbles over the destination first; entropy-seeded constructors X::new() with the state read back through serde. "
        "oracle: every returned word is a word of a successful fetch, returned at most once and in fetch order; never the initial zeros or scribbled content. "
        "non-trivial = at least one op; distinct = distinct request line"
        " Since round 10: newgen gen=libnew - the state of the opaque value returned by urandom::new() is read back from memory and judged like the other constructors.")
ASSUMPTIONS = ["the `getrandom` back end (default feature) cannot be made to fail and is covered by code reading only; its success path is the same code above getentropy_uninit"]

NS = [0, 1, 2, 3, 4, 5, 7, 8, 31, 64]
BIG = [65, 100, 127, 128, 200, 1000]          # blocks of more than 256 bytes: long draw sequences that walk through a whole block


def generate(r, tier, build):
    k = 1 if tier == "quick" else 30
    reqs = []
    for _ in range(2500 * k):
        N = r.choice(NS)
        nops = r.range(1, 14)
        ops = []
        for _ in range(nops):
            x = r.below(8)
            ops.append("u32" if x < 3 else "u64" if x < 6 else "jump" if x == 6 and r.chance(1, 2) else "fill:%d" % r.choice([0, 1, 3, 4, 5, 8, 17, r.below(40), r.below(40), 255, 256, 257, 300, 511, 512, 513, 1000 + r.below(60)]))
        nf = nops + 2
        script = ["ok"] * nf
        if r.chance(2, 3):
            for _ in range(r.range(1, 3)):
                script[r.below(nf)] = "fail"
        reqs.append("system n=%d script=%s ops=%s" % (N, ",".join(script), ",".join(ops)))
    for _ in range(12 * k):
        for N in BIG:
            ops = []
            left = N + r.below(N) + 3
            while left > 0:
                x = r.below(10)
                op = "u32" if x < 5 else "u64" if x < 9 else "fill:%d" % r.choice([1, 3, 4, 9, 255, 257])
                ops.append(op)
                left -= 2 if op == "u64" else 1
            script = ["ok"] * 6
            if r.chance(1, 3):
                script[r.below(4)] = "fail"
            reqs.append("system n=%d script=%s ops=%s" % (N, ",".join(script), ",".join(ops)))
    for gen in ["xoshiro", "splitmix", "wyrand", "chacha8", "chacha12", "chacha20", "libnew"]:
        reqs.append("newgen gen=%s script=" % gen)
        reqs.append("newgen gen=%s script=fail" % gen)
    return reqs


def corpus(build):
    return ["system n=2 script=ok,fail,ok ops=u32,u64,u32,u32,u64",          # D6: a failed fetch in next_u64 must not be served by a later next_u32
            "system n=3 script=ok,fail,ok ops=u64,u64,u32,u32",
            "system n=1 script= ops=u32,u64,u32", "system n=0 script= ops=u32,u64,fill:3",
            "system n=65 script= ops=" + ",".join(["u32"] * 70), "system n=100 script= ops=" + ",".join(["u64"] * 55), "system n=1000 script= ops=" + ",".join(["u64"] * 505)]


def classify(req, model):
    return req.split()[0] + ("/fail" if "fail" in req else "")


def oracle(req, impl, build):
    d = dict(t.split("=", 1) for t in req.split()[1:])
    if req.startswith("newgen"):
        if d["script"] == "fail":
            return None if impl == "panic" else "constructor did not panic although the entropy source failed"
        import re
        if "st:unreadable" in impl:
            return None          # the opaque value returned by urandom::new() does not have the size of the four state words: nothing to read back
        m = re.search(r"st:([\d,]+)", impl)
        if not m:
            return "constructor failed"
        nums = [int(x) for x in m.group(1).split(",")]
        words = []
        for v in nums:
            if d["gen"].startswith("chacha"):
                words.append(v)
            else:
                words += [v & 0xFFFFFFFF, v >> 32]
        want = {"xoshiro": 8, "libnew": 8, "splitmix": 2, "wyrand": 2}.get(d["gen"], 12)
        # every state word must be its OWN word of a successful entropy fetch (any order, any number of fetches): tagged, pairwise distinct
        if len(words) != want:
            return "the state has %d words, %d expected" % (len(words), want)
        for w in words:
            if not (1 <= (w >> 16) <= 1024 and (w & 0xFFFF) < 16384):       # not of the form ((fetch+1) << 16) | word index
                return "a state word (%#x) is not a fetched entropy word (every state bit must come from its own entropy bit): %s" % (w, words[:4])
        if len(set(words)) != len(words):
            return "the same entropy word fills two state words: %s" % words[:6]
        return None
    script = [s != "fail" for s in d["script"].split(",")] if d["script"] else []
    ops = d["ops"].split(",") if d["ops"] else []
    toks = impl.split()
    if len(toks) != len(ops):
        return None
    served = set()          # (fetch, word) pairs handed out so far
    lastj = {}              # fetch -> last word index served from it
    filled = set()          # fetches consumed by a fill
    for op, t in zip(ops, toks):
        if t in ("panic", "-"):
            continue
        if op in ("u32", "u64"):
            v = int(t)
            ws = [v] if op == "u32" else [v & 0xFFFFFFFF, v >> 32]
            for w in ws:
                k, j = (w >> 16) - 1, w & 0xFFFF
                if w == 0:
                    return "returned the initial zero buffer content"
                if w == 0xEEEEEEEE:
                    return "returned a word written by a FAILED entropy fetch"
                if k < 0 or (k < len(script) and not script[k]):
                    return "returned word %#x does not come from a successful fetch" % w
                if (k, j) in served or k in filled:
                    return "entropy word (fetch %d, word %d) served twice" % (k, j)
                served.add((k, j))
                lastj[k] = j
        else:
            b = bytes.fromhex(t[2:])
            if not b:
                continue
            # the bytes of a fill are the little-endian bytes of entropy words, each from a successful fetch and none served before
            # (one fetch today; several fetches would be as good). A trailing part of fewer than 4 bytes can only be checked for scribble.
            for i in range(0, len(b) - len(b) % 4, 4):
                w = int.from_bytes(b[i:i + 4], "little")
                k, j = (w >> 16) - 1, w & 0xFFFF
                if w == 0 or w == 0xEEEEEEEE or k < 0 or (k < len(script) and not script[k]):
                    return "fill_bytes returned bytes that are not entropy words of a successful fetch (word %#x at byte %d: zero / scribbled / failed fetch)" % (w, i)
                if (k, j) in served:
                    return "fill_bytes returned entropy word (fetch %d, word %d) that was served before" % (k, j)
                served.add((k, j))
            r = len(b) % 4
            tail = b[len(b) - r:]
            if r >= 2 and all(x == 0xEE for x in tail):
                return "fill_bytes returned scribbled bytes"
            if r == 3 and tail[2] != 0:
                # three bytes of a tagged word identify it (fetch numbers stay below 255 here): part of that entropy word has been handed out
                j, k = tail[0] | (tail[1] << 8), tail[2] - 1
                if (k, j) in served:
                    return "fill_bytes returned 3 bytes of entropy word (fetch %d, word %d) that was served before" % (k, j)
                if k < len(script) and not script[k]:
                    return "fill_bytes returned bytes of a failed fetch"
                served.add((k, j))
    return None
