"""Exact preimage counting on the IMPLEMENTATION for word spaces too large to enumerate (2^32, 2^64).

For an unbiased range sampler the words mapped to one value form one contiguous interval (Lemire /
the C04 theorem); the oracle finds, by binary search with real calls, the first and the last word
that the implementation maps to each probed value, validates contiguity by random probes (all words
inside map to the value, all words between two intervals are rejected), and then compares the
interval lengths: "the accepted words map onto the values in exactly equal numbers".
If the contiguity validation fails the count is *inconclusive* (no claim is made).
"""
from . import common as C


import subprocess

_PROC = {}


def _proc(binary):
    pr = _PROC.get(binary)
    if pr is None or pr.poll() is not None:
        pr = subprocess.Popen([binary, "interactive"], stdin=subprocess.PIPE, stdout=subprocess.PIPE, text=True, bufsize=1)
        _PROC[binary] = pr
    return pr


class Prober:
    def __init__(self, binary, mk_request, parse):
        self.binary, self.mk, self.parse = binary, mk_request, parse
        self.cache = {}
        self.calls = 0

    def many(self, words):
        todo = [w for w in dict.fromkeys(words) if w not in self.cache]
        # in batches of at most 16 KiB of request text: writing everything before reading anything deadlocks on the pipes once requests and
        # answers together exceed their buffers (request lines that carry a whole slice are several KiB each)
        while todo:
            batch, size = [], 0
            while todo and (not batch or size + len(self.mk(todo[0])) < 16384) and len(batch) < 64:
                size += len(self.mk(todo[0])) + 1
                batch.append(todo.pop(0))
            pr = _proc(self.binary)
            for w in batch:
                pr.stdin.write(self.mk(w) + "\n")
            pr.stdin.flush()
            self.calls += len(batch)
            for w in batch:
                line = pr.stdout.readline().rstrip("\n")
                self.cache[w] = self.parse("panic" if line.startswith("panic wleft=") else line)
        return [self.cache[w] for w in words]

    def one(self, w):
        return self.many([w])[0]


def boundary(p, lo, hi, pred):
    """smallest w in (lo, hi] with pred(h(w)), given not pred at lo and pred at hi (monotone in between)"""
    while hi - lo > 1:
        mid = (lo + hi) // 2
        if pred(p.one(mid)):
            hi = mid
        else:
            lo = mid
    return hi


def interval_of(p, c, seed_word, below_word, above_word, B):
    """first and last word mapped to value c.  seed_word maps to c; below_word < seed maps to something else
    (or is -1), above_word > seed maps to something else (or is B)."""
    is_c = lambda v: v == c
    first = 0 if below_word < 0 and is_c(p.one(0)) else boundary(p, max(below_word, -1) if below_word >= 0 else -1 if False else below_word, seed_word, is_c) if below_word >= 0 else boundary_from_zero(p, seed_word, is_c)
    last = B - 1 if above_word >= B and is_c(p.one(B - 1)) else boundary(p, seed_word, above_word if above_word < B else B - 1, lambda v: not is_c(v)) - 1 if above_word < B else last_to_top(p, seed_word, is_c, B)
    return first, last


def boundary_from_zero(p, seed_word, is_c):
    if is_c(p.one(0)):
        return 0
    return boundary(p, 0, seed_word, is_c)


def last_to_top(p, seed_word, is_c, B):
    if is_c(p.one(B - 1)):
        return B - 1
    return boundary(p, seed_word, B - 1, lambda v: not is_c(v)) - 1


def count_values(p, r, L, values, rng, label):
    """values: offsets (0..r-1) to probe.  Returns (None, info) if consistent, (message, info) on a violation, ("inconclusive", info) otherwise."""
    B = 1 << L
    mid = lambda c: ((2 * c + 1) * B) // (2 * r)          # a word in the middle of value c's interval for any sane implementation
    vals = sorted(set(values))
    seeds = {c: mid(c) for c in vals}
    got = p.many([seeds[c] for c in vals])
    for c, g in zip(vals, got):
        if g != c:
            # the expected place does not hold the value.  If the map word -> value is monotone (validated on random pairs) a binary search
            # either finds a word for the value or proves that the map jumps over it: then the value is unreachable.
            probes = sorted(rng.below(B) for _ in range(24))
            pv = [v for v in p.many(probes) if isinstance(v, int) and v >= 0]
            if len(pv) < 12 or any(a > b for a, b in zip(pv, pv[1:])):
                return "inconclusive", "middle word of value %d maps to %r and the map is not monotone" % (c, g)
            def num(v):
                return v if isinstance(v, int) and v >= 0 else None
            # the outermost accepted words (words at the very ends may be rejected by the sampler)
            lo = next((x for x in range(0, 2048) if num(p.one(x)) is not None), None)
            hi = next((x for x in range(B - 1, B - 2049, -1) if num(p.one(x)) is not None), None)
            if lo is None or hi is None:
                return "inconclusive", "middle word of value %d maps to %r" % (c, g)
            flo, fhi = p.one(lo), p.one(hi)
            if flo == c:
                seeds[c] = lo
                continue
            if fhi == c:
                seeds[c] = hi
                continue
            if not (flo < c < fhi):
                return ("%s: value offset %d is never produced: the map from words to values is monotone (validated on %d random words) and runs from %d to %d" % (label, c, len(pv), flo, fhi)), {c: (lo, hi, 0)}
            while hi - lo > 1:
                m = (lo + hi) // 2
                fm = num(p.one(m))
                if fm is None:
                    # a rejected word: look at its neighbours
                    fm = num(p.one(m + 1)) if m + 1 < hi else None
                    if fm is None:
                        return "inconclusive", "rejected words inside the search for value %d" % c
                if fm == c:
                    lo = hi = m
                    break
                if fm < c:
                    lo = m
                else:
                    hi = m
            if lo == hi:
                seeds[c] = lo
                continue
            return ("%s: value offset %d is never produced: the map from words to values is monotone (validated on %d random words), word %d gives %s and word %d gives %s" % (label, c, len(pv), lo, p.one(lo), hi, p.one(hi))), {c: (lo, hi, 0)}
    info = {}
    for c in vals:
        below = min(mid(c - 1), seeds[c] - 1) if c > 0 else -1
        above = max(mid(c + 1), seeds[c] + 1) if c + 1 < r else B
        # ranges wider than half the word space: an interval is one or two words, the "middle" of a neighbour may be the seed itself
        step = max(1, B // r)
        for _ in range(4):
            if below >= 0 and p.one(below) == c:
                below -= step
            if above < B and p.one(above) == c:
                above += step
        below, above = max(below, -1), min(above, B)
        first = boundary_from_zero(p, seeds[c], lambda v: v == c) if below < 0 else boundary(p, below, seeds[c], lambda v: v == c)
        last = last_to_top(p, seeds[c], lambda v: v == c, B) if above >= B else boundary(p, seeds[c], above, lambda v: v != c) - 1
        info[c] = (first, last, last - first + 1)
    # contiguity validation
    probes, expect = [], []
    for c, (first, last, n) in info.items():
        for _ in range(12):
            probes.append(first + rng.below(n)); expect.append(c)
    got = p.many(probes)
    if any(g != e for g, e in zip(got, expect)):
        return "inconclusive", "preimages are not contiguous"
    counts = {c: n for c, (_, _, n) in info.items()}
    if len(set(counts.values())) > 1:
        lo_c = min(counts, key=counts.get); hi_c = max(counts, key=counts.get)
        return ("%s: accepted words are NOT mapped onto the values in equal numbers: value offset %d has %d words (first %d, last %d), value offset %d has %d words (first %d, last %d)"
                % (label, hi_c, counts[hi_c], info[hi_c][0], info[hi_c][1], lo_c, counts[lo_c], info[lo_c][0], info[lo_c][1])), info
    want = B // r
    c0 = next(iter(counts.values()))
    if c0 not in (want, want + (1 if B % r == 0 else 0)) and c0 != want:
        # equal counts but fewer than floor(B/r): still unbiased among the probed values (more rejection) - not a violation of the property
        pass
    return None, info


def steps(p, lo, hi, max_steps=200, seeds=()):
    """All maximal constant runs of the (assumed monotone / piecewise constant) function w -> p.one(w) on [lo, hi], found by
    recursive bisection with real calls: returns [(first, last, value)] in increasing order, or None if more than
    max_steps runs would be needed (the function is not a small step function). `seeds`: further points probed at the start
    (a run that begins and ends inside a stretch whose end points agree is only found if a seed falls into it)."""
    pts = sorted(set([lo, hi] + [w for w in seeds if lo < w < hi]))
    vals = p.many(pts) if hasattr(p, "many") else [p.one(w) for w in pts]
    vlo = vals[0]
    out = []
    stack = [(pts[i], vals[i], pts[i + 1], vals[i + 1]) for i in range(len(pts) - 1)]
    bounds = []          # (w, value at w-1, value at w): positions where the value changes
    while stack:
        a, va, b, vb = stack.pop()
        if va == vb:
            continue     # treated as constant in between (validated afterwards by random probes)
        if b - a == 1:
            bounds.append((b, va, vb))
            if len(bounds) > max_steps:
                return None
            continue
        m = (a + b) // 2
        vm = p.one(m)
        stack.append((m, vm, b, vb))
        stack.append((a, va, m, vm))
    bounds.sort()
    first = lo
    val = vlo
    for w, va, vb in bounds:
        out.append((first, w - 1, val))
        first, val = w, vb
    out.append((first, hi, val))
    return out


def validate_steps(p, runs, rng, per=8):
    """random probes inside every run must give the run's value; returns the first counterexample (w, got, expected) or None"""
    probes, expect = [], []
    for first, last, val in runs:
        for _ in range(per):
            probes.append(first + rng.below(last - first + 1)); expect.append(val)
    for w, g, e in zip(probes, p.many(probes), expect):
        if g != e:
            return (w, g, e)
    return None


def threshold_words(r, L):
    """the words at which a multiply-shift sampler over L-bit words DECIDES between accepting and rejecting: low half of word * r equal to
    0, 1, zone - 2 .. zone + 1, r - 1, r (zone = 2^L mod r), solved for the word with the modular inverse of the odd part of r.  Guided by the
    published algorithm, used only to choose WHICH values get counted / which first words to continue from - the verdict stays the count."""
    B = 1 << L
    zone = B % r
    k = (r & -r).bit_length() - 1
    m, M = r >> k, 1 << (L - k)
    inv = pow(m, -1, M) if M > 1 else 0
    out = []
    for t in (0, zone - 1, zone, zone - 2, zone + 1, 1, r - 1, r):
        if t < 0 or t >= B or t % (1 << k):
            continue
        w0 = ((t >> k) * inv) % M
        for j in sorted({0, (1 << k) - 1}):
            w = w0 + j * M
            if w < B and w not in out:
                out.append(w)
    return out



def outside_outcomes(p2, r, L, rng):
    """a draw after a rejected first word must land on the SAME r outcomes the first stage is uniform over: any other outcome takes word pairs
    away from them.  Returns (word, outcome) or None."""
    B = 1 << L
    ws = [0, 1, B - 1, B // 2, B // 3, (2 * B) // 3] + [((2 * c + 1) * B) // (2 * r) for c in range(min(r, 16))] + [rng.below(B) for _ in range(40)]
    for w, v in zip(ws, p2.many(ws)):
        if isinstance(v, int) and not (0 <= v < r):
            return w, v
    return None

def second_stage_counts(binary, build, rng, label, r, L, mk, mk2, parse, max_first=2):
    """the draw AFTER a rejected first word must again map the accepted words onto the values in exactly equal numbers.  First words are
    taken from the decision boundary of the published sampler and used when the implementation rejects them (needs a second word)."""
    calls = 0
    p1 = Prober(binary, mk, parse)
    firsts = [w for w in threshold_words(r, L) if p1.one(w) is None][:max_first]
    calls += p1.calls
    for w1 in firsts:
        p2 = Prober(binary, (lambda W, w1=w1: mk2(w1, W)), parse)
        if p2.one(((1 << L) // 2) | 12345) is None:
            continue                                    # the request does not get further with a second word either (not a rejection)
        vals = sorted({0, 1, r - 1, r // 2} | {(w * r) >> L for w in threshold_words(r, L)} | {rng.below(r) for _ in range(12)}) if r > 8 else list(range(r))
        lab2 = "%s after the rejected first word %d" % (label, w1)
        bad = outside_outcomes(p2, r, L, rng)
        if bad:
            calls += p2.calls
            yield {"kind": "oracle", "build": build, "request": mk2(w1, bad[0]), "impl": "outcome %d" % bad[1], "model": "",
                   "oracle": "%s: the word %d gives outcome offset %d, outside the %d outcomes the first draw is uniform over - the draw after a rejection is not uniform over the same outcomes" % (lab2, bad[0], bad[1], r)}
            continue
        msg2, info2 = count_values(p2, r, L, [v for v in vals if 0 <= v < r], rng, lab2)
        calls += p2.calls
        if msg2 == "inconclusive":
            yield {"kind": "note", "text": "preimage count inconclusive for %s: %s" % (lab2, info2)}
        elif msg2:
            yield {"kind": "oracle", "build": build, "request": mk2(w1, info2[min(info2)][0]), "impl": str({k: v for k, v in info2.items()})[:600], "model": "",
                   "oracle": msg2 + " - the draw after a rejection is not exactly uniform"}
    yield {"kind": "count", "what": "second-stage-preimage-probes", "n": calls}


def first_draw_counts(binary, build, rng, specs, what):
    """exact preimage counts of the FIRST draw of an index-like operation, by interval search on the implementation:
    specs = [(label, number of outcomes r, word bits L, mk(word) -> request, parse(result) -> outcome index or None [, mk2(word1, word2) -> request])].
    With mk2 and few outcomes the draw AFTER a rejection is counted too: when the first stage is exactly uniform and only one or two first
    words are rejected, the second words behind each of them must again be mapped onto the outcomes in equal numbers (otherwise the totals
    over word pairs differ)."""
    total = 0
    for spec in specs:
        label, r, L, mk, parse = spec[:5]
        mk2 = spec[5] if len(spec) > 5 else None
        p = Prober(binary, mk, parse)
        # exact rejection sampling gives EVERY value the same number of words: 40 values are counted (a defect that shortchanges a tenth of the
        # values of a mid-sized range is then seen with probability 0.98)
        vals = sorted({0, 1, r - 1, r // 2} | {(w * r) >> L for w in threshold_words(r, L)} | {rng.below(r) for _ in range(36)}) if r > 8 else list(range(r))
        msg, info = count_values(p, r, L, [v for v in vals if 0 <= v < r], rng, label)
        total += p.calls
        if mk2 and r > 8 and not msg:
            yield from second_stage_counts(binary, build, rng, label, r, L, mk, mk2, parse, max_first=1)
        if msg == "inconclusive":
            yield {"kind": "note", "text": "preimage count inconclusive for %s: %s" % (label, info)}
        elif msg:
            yield {"kind": "oracle", "build": build, "request": mk(info[min(info)][0]), "impl": str({k: v for k, v in info.items()})[:600], "model": "", "oracle": msg}
        elif mk2 and r <= 8 and len(info) == r:
            B = 1 << L
            rej, prev = [], -1
            for f, l in sorted((v[0], v[1]) for v in info.values()):
                if f - prev - 1 > 0:
                    rej.append((prev + 1, f - 1))
                prev = l
            if prev < B - 1:
                rej.append((prev + 1, B - 1))
            nrej = sum(b - a + 1 for a, b in rej)
            if 0 < nrej <= 2:
                for a, b in rej:
                    for w1 in range(a, b + 1):
                        p2 = Prober(binary, (lambda W, w1=w1: mk2(w1, W)), parse)
                        lab2 = "%s after the rejected first word %d" % (label, w1)
                        bad = outside_outcomes(p2, r, L, rng)
                        if bad:
                            total += p2.calls
                            yield {"kind": "oracle", "build": build, "request": mk2(w1, bad[0]), "impl": "outcome %d" % bad[1], "model": "",
                                   "oracle": "%s: the word %d gives outcome offset %d, outside the %d outcomes the first draw is uniform over - the draw after a rejection is not uniform over the same outcomes" % (lab2, bad[0], bad[1], r)}
                            continue
                        msg2, info2 = count_values(p2, r, L, list(range(r)), rng, lab2)
                        total += p2.calls
                        if msg2 == "inconclusive":
                            yield {"kind": "note", "text": "preimage count inconclusive for %s: %s" % (lab2, info2)}
                        elif msg2:
                            yield {"kind": "oracle", "build": build, "request": mk2(w1, info2[min(info2)][0]), "impl": str({k: v for k, v in info2.items()})[:600], "model": "",
                                   "oracle": msg2 + " - the first stage is exactly uniform and rejects only %d word(s), so the numbers of word PAIRS behind the outcomes differ" % nrej}
    yield {"kind": "count", "what": what, "n": total}
