"""Independent check of the ziggurat tables in the CURRENT source (C16, table clause): every tabulated ordinate must equal the density
at the tabulated abscissa (to the precision of the 18-digit literals), computed with Python's correctly rounded `decimal` exponential.
Used as the failing-input search when a table theorem no longer checks: it names the entry."""
import os, sys
from decimal import Decimal, getcontext
from . import common as C


def load():
    sys.path.insert(0, os.path.join(C.VERIF, "tools"))
    import extract_zig, re
    src = open(os.path.join(C.REPO, "src/distr/ziggurat_tables.rs")).read()
    src = re.sub(r"//[^\n]*", "", src)
    tabs = {}
    for m in re.finditer(r"pub\s+static\s+(ZIG_\w+)\s*:\s*\[\s*f64\s*;\s*(\d+)\s*\]\s*=\s*\[([^\]]*)\]\s*;", src):
        tabs[m.group(1)] = [extract_zig.parse_literal(t.strip()) for t in m.group(3).split(",") if t.strip()]
    return tabs


def check_tables():
    """yields (table, index, literal, density, abs error) for entries that are not the density at their abscissa"""
    getcontext().prec = 60
    tabs = load()
    dec = lambda nk: Decimal(nk[0]) / (Decimal(10) ** nk[1])
    # the tables were generated in double precision: on the pinned tree the largest relative deviation is 4.4e-16 (normal) and
    # 2.2e-15 (exponential, entry 0); anything beyond 1e-13 relative is not "the density at the tabulated abscissa"
    tol = Decimal("1e-13")
    out = []
    n_checked = 0
    for xs, fs, pdf, name in (("ZIG_NORM_X", "ZIG_NORM_F", lambda x: (-(x * x) / 2).exp(), "exp(-x^2/2)"), ("ZIG_EXP_X", "ZIG_EXP_F", lambda x: (-x).exp(), "exp(-x)")):
        X, F = tabs.get(xs, []), tabs.get(fs, [])
        for i in range(min(len(X), len(F))):
            x, f = dec(X[i]), dec(F[i])
            d = pdf(x)
            n_checked += 1
            if abs(d - f) > tol * d:
                out.append((fs, i, str(f), str(d)[:22], "%.3e" % float(abs(d - f)), name))
    return out, n_checked
