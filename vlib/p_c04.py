"""C04 - uniform integer ranges: always inside the range and exactly unbiased."""
from . import common as C, gen_int as G, oracles as O

LEAN_MODULE = ["Urandom.Props.C04", "Urandom.Props.C04T", "Urandom.Props.C04D", "Urandom.Props.C04R"]
RULE = ("requests: 10 integer types x {try, sampler, new, from, Random::range} x range classes (full type, one wide, sign crossing, empty/reversed, "
        "touching the type's ends, ~half the type, power of two, random) x words placed AT the theoretical acceptance thresholds (v0-1, v0, v0+q-1, v0+q, "
        "a rejected word followed by an accepted one) computed from the Lemire interval theorem; Random::index and Dice likewise. "
        "non-trivial = the range is non-empty and at least one word is scripted, or the range is empty (error path); distinct = distinct request line"
        " Since round 9: the sampler paths via=serde / via=serdesampler (object restored from its serialised form before sampling), also in the exact preimage counts.")
ASSUMPTIONS = ["64-bit target: isize/usize use the 64-bit instantiation; the 32-bit instantiations are modelled, not run",
               "uniformity is proved for the model (Lemire interval theorem); on the implementation it is observed through agreement with the model on threshold words"]


def generate(r, tier, build):
    k = 1 if tier == "quick" else 25
    return G.uint_requests(r, 3000 * k) + G.index_requests(r, 400 * k) + G.dice_requests(r, 300 * k)


def corpus(build):
    return [
        "uint ty=i8 lo=-128 hi=127 incl=1 via=try n=2 words=0,18446744073709551615",
        "uint ty=u8 lo=0 hi=0 incl=0 via=range n=1 words=1",
        "uint ty=i64 lo=-9223372036854775808 hi=9223372036854775807 incl=0 via=new n=1 words=18446744073709551615,0",
        "uint ty=usize lo=0 hi=18446744073709551615 incl=1 via=from n=1 words=12345",
        "dice kind=new sides=0 n=1 words=1",
        "index len=0 n=1 words=77",
    ]


def classify(req, model):
    d = O.kv(req)
    if d["_kind"] == "uint":
        if model.startswith("err") or model == "panic":
            return "uint/error-or-panic"
        return "uint/" + d["ty"] + "/" + d["via"]
    return d["_kind"]


def oracle(req, impl, build):
    k = req.split()[0]
    return {"uint": O.uint_oracle, "index": O.index_oracle, "dice": O.dice_oracle}[k](req, impl)


def extra(binary, build, tier, rng):
    """exact preimage counting on the implementation by interval search (see preimage_oracle.py)"""
    from .preimage_oracle import Prober, count_values
    from .oracles import parse_ok
    specs = [("u8", 0, 2, 32), ("i8", -1, 1, 32), ("u16", 10, 16, 32), ("u8", 0, 254, 32), ("i16", -300, 2700, 32),
             ("u64", 0, 2, 64), ("i32", -1, 1, 64), ("u32", 5, 9, 64), ("usize", 0, 6, 64), ("i64", -5, 5, 64), ("u64", 0, (1 << 63), 64), ("u64", 7, 1000006, 64),
             # mid-sized ranges (between 2^16 and 2^40, not powers of two): where a "cheaper" threshold computation goes wrong
             ("i32", -500000, 499999, 64), ("u32", 10, 1000012, 64), ("usize", 0, 249999, 64), ("u64", 1000, 5000000000 - 1, 64), ("u16", 1, 40000, 32), ("i64", -(1 << 35), (1 << 35) + 12344, 64),
             # ranges wider than half the word (every value has exactly ONE accepted word; 2^64 mod r = 2^64 - r)
             ("u64", 0, (1 << 64) - 2, 64), ("i64", -(1 << 63), (1 << 63) - 2, 64), ("u64", 5, 5 + (1 << 63) + 12344, 64), ("usize", 0, 3 * (1 << 62), 64), ("i64", -(1 << 62) - 77, (1 << 62) + 12345678, 64)]
    if tier == "thorough":
        specs += [("u16", 0, r - 1, 32) for r in (3, 5, 7, 9, 11, 255, 1001, 65535)] + [("u64", 0, r - 1, 64) for r in (3, 5, 7, 9, 11, 13, 641, 2 ** 32 + 1, 2 ** 40 + 3)]
    from .preimage_oracle import first_draw_counts
    ps = []
    for ty, lo, hi, L in specs:
        r = hi - lo + 1
        def mk(w, ty=ty, lo=lo, hi=hi):
            return "uint ty=%s lo=%d hi=%d incl=1 via=try n=1 words=%d" % (ty, lo, hi, w)
        def mk2(w1, w2, ty=ty, lo=lo, hi=hi):
            return "uint ty=%s lo=%d hi=%d incl=1 via=try n=1 words=%d,%d" % (ty, lo, hi, w1, w2)
        def parse(res, lo=lo):
            f = parse_ok(res)
            return None if f is None else int(f[0]) - lo
        ps.append(("Uniform<%s>(%d..=%d)" % (ty, lo, hi), r, L, mk, parse, mk2))
    # the same counts for a sampler that went through its serialised form (what the object caches must survive the round trip)
    for ty, lo, hi, L in [("u8", 0, 5, 32), ("u16", 10, 16, 32), ("u64", 0, 2, 64), ("usize", 0, 6, 64), ("i32", -500000, 499999, 64), ("i64", -5, 5, 64)][:(3 if tier == "quick" and build != "dev" else 6)]:
        r = hi - lo + 1
        via = "serde" if (lo + hi) % 2 == 0 else "serdesampler"
        def mks(w, ty=ty, lo=lo, hi=hi, via=via):
            return "uint ty=%s lo=%d hi=%d incl=1 via=%s n=1 words=%d" % (ty, lo, hi, via, w)
        def mks2(w1, w2, ty=ty, lo=lo, hi=hi, via=via):
            return "uint ty=%s lo=%d hi=%d incl=1 via=%s n=1 words=%d,%d" % (ty, lo, hi, via, w1, w2)
        def parse(res, lo=lo):
            f = parse_ok(res)
            return None if f is None else int(f[0]) - lo
        ps.append(("Uniform<%s>(%d..=%d) restored from its serialised form" % (ty, lo, hi), r, L, mks, parse, mks2))
    yield from first_draw_counts(binary, build, rng, ps, "preimage-interval-probes")
