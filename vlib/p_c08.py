"""C08 - jump/split yield non-overlapping streams: fixed stride, full period."""
from . import common as C
from .p_c01 import history
from . import gen_chacha as G
from .oracles import kv

LEAN_MODULE = ["Urandom.Props.C08", "Urandom.Props.C01R"]
DISAGREEMENT_IS_FAILING_INPUT = True   # the model's jump is proved to be 2^128 (2^40) steps: impl != model ==> impl jump != fixed stride
RULE = ("requests: word generators on unit states (each of the 256 single-bit Xoshiro states), edge and random seeds/states, with histories rich in jump and split ops "
        "interleaved with draws and fills; every output, every child draw and the final state are compared with the model, whose jump is proved equal to 2^128 / 2^40 single steps. "
        "chacha: jump/split-rich histories on ChaCha8/12/20 from stream ids at the 32- and 64-bit carry boundaries (low word 0xffffffff, 2^64-1, ...), every output and the serde-visible "
        "key/counter/stream/index compared with the model (jump proved = stream id + 1 mod 2^64); independent oracle: final stream id = initial + #jumps + #splits (mod 2^64), key unchanged. "
        "extra: split/clone twins - what the split-off generator draws first equals what a never-split twin with the same history draws (word draws and byte fills, every ChaCha buffer offset). "
        "non-trivial = history contains a jump or split; distinct = distinct request line"
        " Since round 9: keystream attribution of jump / split histories with byte fills of 1..7 bytes before the jump (extra).")
TRUSTED = ["kernel evaluation (decide +kernel) of the GF(2) certificates: x^(2^128) mod P = JUMP, P(T)=0 on the 256 unit states, x^(2^256-1)=1 and one inverse certificate per prime factor; Pratt certificates via Mathlib lucas_primality"]
ASSUMPTIONS = ["that after a ChaCha jump nothing of the old stream is served (buffer invalidated) is decided by the keystream-attribution oracle shared with C03 (extra: jump / split at unaligned read offsets)"]


def disagreement_is_failing(req, impl, model):
    """word generators: every output and the final state are fixed by the property (jump = that many single steps). ChaCha: the property
    fixes the stream id (own oracle); buffer position and serialised form are not its business."""
    strip = lambda t: " ".join(x for x in t.split() if not x.startswith(("st:", "idx:")))
    return req.startswith("word ") and strip(impl) != strip(model)


def generate(r, tier, build):
    reqs = []
    n = 600 if tier == "quick" else 20000
    units = list(range(256)) if tier == "thorough" else [r.below(256) for _ in range(40)]
    for u in units:
        st = [0, 0, 0, 0]
        st[u // 64] = 1 << (u % 64)
        reqs.append("word gen=xoshiro state=%s via=serde ops=jump,u64,split,u64,jump" % ",".join(map(str, st)))
    for _ in range(n):
        gen = r.choice(["xoshiro", "xoshiro", "splitmix", "wyrand"])
        ops = history(r, 25, ["u64", "u32", "f64", "fill", "jump", "split", "jump", "split"])
        if not any(o in ("jump", "split") for o in ops):
            ops.append(r.choice(["jump", "split"]))
        ops.append("u64")
        if gen == "xoshiro" and r.chance(1, 2):
            st = [r.edge64() for _ in range(4)]
            reqs.append("word gen=xoshiro state=%s via=serde ops=%s" % (",".join(map(str, st)), ",".join(ops)))
        else:
            reqs.append("word gen=%s seed=%d via=from_seed ops=%s" % (gen, r.edge64(), ",".join(ops)))
    # SplitMix64 / Wyrand: seeds computed backwards so that a jump STARTS FROM or LANDS ON a structured state (0, 1, all ones, zero halves, ...)
    from .gen_int import weyl_seed_for
    for _ in range(400 if tier == "quick" else 12000):
        gen = r.choice(["wyrand", "splitmix"])
        draws, jumps = r.choice([0, 0, 1, 2]), r.choice([0, 1, 1, 1, 2, 3])
        seed, _ = weyl_seed_for(r, gen, draws, jumps)
        ops = ["u64"] * draws + [r.choice(["jump", "split"]) for _ in range(jumps)] + [r.choice(["jump", "split"]), "u64", r.choice(["jump", "split", "u64"]), "u64"]
        reqs.append("word gen=%s seed=%d via=from_seed ops=%s" % (gen, seed, ",".join(ops)))
    # ChaCha: jump = stream id + 1 (64-bit), split = clone + jump
    m = 150 if tier == "quick" else 5000
    for _ in range(m):
        kk, c, N = G.key(r), G.counter(r), G.rounds(r)
        s = r.choice([0, (1 << 32) - 1, (1 << 32) - 2, (1 << 64) - 1, (1 << 64) - 2, ((r.bits(32)) << 32) | 0xFFFFFFFF, ((r.bits(32)) << 32) | 0xFFFFFFFE, r.u64()])
        ops = []
        for _ in range(1 + r.below(14)):
            k = r.below(10)
            ops.append("jump" if k < 3 else "split" if k < 6 else r.choice(["u32", "u64", "f64", "fill:%d" % G.fill_len(r), "clone"]))
        if not any(o in ("jump", "split") for o in ops):
            ops.insert(r.below(len(ops) + 1), r.choice(["jump", "split"]))
        ops.append("u64")
        reqs.append("chacha n=%d key=%s ctr=%d str=%d ops=%s" % (N, ",".join(map(str, kk)), c, s, ",".join(ops)))
    return reqs


def oracle(req, impl, build):
    """ChaCha: the stream id the generator ends on is the initial one plus the number of jumps and splits (mod 2^64); the key is untouched.
    Read from the serde-visible state; independent of the model."""
    if not req.startswith("chacha "):
        return None
    d = kv(req)
    ops = d["ops"].split(",")
    st = [t for t in impl.split() if t.startswith("st:")]
    if not st:
        return None
    w = [int(x) for x in st[-1][3:].split(",")]
    want = (int(d["str"]) + sum(1 for o in ops if o in ("jump", "split"))) % (1 << 64)
    got = w[10] | (w[11] << 32)
    if got != want:
        return "after %d jump/split ops from stream id %d the generator is on stream id %d, not %d" % (sum(1 for o in ops if o in ("jump", "split")), int(d["str"]), got, want)
    if w[:8] != [int(x) for x in d["key"].split(",")]:
        return "jump/split changed the key"
    return None


def corpus(build):
    from .gen_int import literal_sweep
    return literal_sweep("jump,u64,split,u64,u64,jump,u64") + ["word gen=xoshiro state=0,0,0,0 via=serde ops=jump,u64,split,u64",
            "word gen=splitmix seed=0 via=from_seed ops=jump,jump,u64,split,u64",
            "word gen=wyrand seed=18446744073709551615 via=from_seed ops=split,split,split,u64",
            "chacha n=8 key=0,0,0,0,0,0,0,0 ctr=1 str=4294967295 ops=u64,jump,u64,split,u64",
            "chacha n=20 key=1,2,3,4,5,6,7,8 ctr=0 str=18446744073709551615 ops=split,u64,jump,u32"]


def classify(req, model):
    return "chacha" if req.startswith("chacha ") else req.split()[1]


def extra(binary, build, tier, rng):
    """`split returns the generator as it was`: what the split-off generator draws first must be exactly what a twin of the original (same
    construction, same history, never split) draws at that point - for word draws and byte fills, at every ChaCha buffer offset."""
    n = 160 if tier == "quick" else 4000
    cases = []
    for N in (8, 20):
        for off in (0, 1, 3, 4, 8, 248, 249, 250, 251, 252, 253, 254, 255, 256, 257, 509, 510, 511, 512):
            for child, direct in (("splitf:64", "fill:64"), ("split32", "u32"), ("split", "u64"), ("clonef:5", "fill:5"), ("splitf:300", "fill:300"), ("clonef:259", "fill:259")):
                head = "chacha n=%d key=9,8,7,6,5,4,3,2 ctr=3 str=%d ops=" % (N, (1 << 32) - 1)
                cases.append((head + "fill:%d,%s" % (off, child), head + "fill:%d,%s" % (off, direct), 1))
    for _ in range(n):
        if rng.chance(1, 2):
            kk, c, st, N = G.key(rng), G.counter(rng), G.stream(rng), G.rounds(rng)
            head = "chacha n=%d key=%s ctr=%d str=%d ops=" % (N, ",".join(map(str, kk)), c, st)
            pre = [rng.choice(["u32", "u64", "fill:%d" % G.fill_len(rng), "jump", "f64"]) for _ in range(rng.below(5))]
        else:
            head = "word gen=%s seed=%d via=from_seed ops=" % (rng.choice(["xoshiro", "splitmix", "wyrand"]), rng.edge64())
            pre = [rng.choice(["u32", "u64", "fill:%d" % rng.below(20), "jump", "f64"]) for _ in range(rng.below(5))]
        if head.startswith("chacha"):
            child, direct = rng.choice([("splitf:%d" % k, "fill:%d" % k) for k in (1, 3, 8, 64, 300)] + [("split32", "u32"), ("split", "u64")])
        else:
            child, direct = ("split", "u64")
        cases.append((head + ",".join(pre + [child]), head + ",".join(pre + [direct]), len(pre)))
    rc, res, err = C.run_lines(binary, ["run"], [q for c in cases for q in c[:2]])
    for k, (qa, qb, npre) in enumerate(cases):
        ta, tb = res[2 * k].split(), res[2 * k + 1].split()
        if len(ta) <= npre or len(tb) <= npre:
            continue
        a, b = ta[npre], tb[npre]
        # child token: s:<u64|u32> / sb:<hex> / cb:<hex>; direct token: <number> / b:<hex>
        av = a.split(":", 1)[1] if ":" in a else a
        bv = b.split(":", 1)[1] if ":" in b else b
        if av != bv:
            yield {"kind": "oracle", "build": build, "request": qa, "requests": [qa, qb], "impl": res[2 * k][:300], "model": res[2 * k + 1][:300],
                   "oracle": "the generator returned by split (clone) is not the generator as it was: its first draw is %s, a twin of the original with the same history draws %s" % (av[:40], bv[:40])}
    yield {"kind": "count", "what": "split-vs-twin-runs", "n": len(cases), "distinct": len(cases)}
    # after a jump / split the parent must serve the NEW stream from its start and nothing of the old one - also when the jump happens at a read
    # offset that is not word-aligned (1..3 bytes of the old block left): every output is attributed to the keystream of the stream it must come from
    from .ks_oracle import run_oracle
    reqs = []
    for k in range(40 if tier == "quick" else 1200):
        kk, c, st, N = G.key(rng), G.counter(rng), G.stream(rng), G.rounds(rng)
        ops = [rng.choice(["u32", "u64", "fill:%d" % rng.choice([1, 2, 3, 5, 7, 61, 250, 253, 254, 255, 257])]) for _ in range(1 + rng.below(3))]
        for _ in range(1 + rng.below(3)):
            ops += [rng.choice(["jump", "split", "jump", "splitf:%d" % rng.choice([1, 3, 8])]), rng.choice(["fill:%d" % rng.choice([1, 3, 4, 9, 220]), "u32", "u64", "fill:2"]), rng.choice(["u32", "fill:%d" % rng.choice([1, 2, 3, 6, 53])])]
        reqs.append("chacha n=%d key=%s ctr=%d str=%d ops=%s" % (N, ",".join(map(str, kk)), c, st, ",".join(ops)))
    rc, impls, err = C.run_lines(binary, ["run"], reqs)
    yield from run_oracle(binary, reqs, impls)
