"""C08 - jump/split yield non-overlapping streams: fixed stride, full period."""
from . import common as C
from .p_c01 import history

LEAN_MODULE = "Urandom.Props.C08"
DISAGREEMENT_IS_FAILING_INPUT = True   # the model's jump is proved to be 2^128 (2^40) steps: impl != model ==> impl jump != fixed stride
RULE = ("requests: word generators on unit states (each of the 256 single-bit Xoshiro states), edge and random seeds/states, with histories rich in jump and split ops "
        "interleaved with draws and fills; every output, every child draw and the final state are compared with the model, whose jump is proved equal to 2^128 / 2^40 single steps. "
        "non-trivial = history contains a jump or split; distinct = distinct request line")
TRUSTED = ["kernel evaluation (decide +kernel) of the GF(2) certificates: x^(2^128) mod P = JUMP, P(T)=0 on the 256 unit states, x^(2^256-1)=1 and one inverse certificate per prime factor; Pratt certificates via Mathlib lucas_primality"]
ASSUMPTIONS = ["ChaCha jump/split is covered by C03 (stream id + 1, buffer invalidated)"]


def generate(r, tier, build):
    reqs = []
    n = 600 if tier == "quick" else 20000
    units = list(range(256)) if tier == "thorough" else [r.below(256) for _ in range(40)]
    for u in units:
        st = [0, 0, 0, 0]
        st[u // 64] = 1 << (u % 64)
        reqs.append("word gen=xoshiro state=%s via=serde ops=jump,u64,split,u64,jump" % ",".join(map(str, st)))
    for _ in range(n):
        gen = r.choice(["xoshiro", "xoshiro", "splitmix", "wyrand"])
        ops = history(r, 25, ["u64", "u32", "f64", "fill", "jump", "split", "jump", "split"])
        if not any(o in ("jump", "split") for o in ops):
            ops.append(r.choice(["jump", "split"]))
        ops.append("u64")
        if gen == "xoshiro" and r.chance(1, 2):
            st = [r.edge64() for _ in range(4)]
            reqs.append("word gen=xoshiro state=%s via=serde ops=%s" % (",".join(map(str, st)), ",".join(ops)))
        else:
            reqs.append("word gen=%s seed=%d via=from_seed ops=%s" % (gen, r.edge64(), ",".join(ops)))
    return reqs


def corpus(build):
    return ["word gen=xoshiro state=0,0,0,0 via=serde ops=jump,u64,split,u64",
            "word gen=splitmix seed=0 via=from_seed ops=jump,jump,u64,split,u64",
            "word gen=wyrand seed=18446744073709551615 via=from_seed ops=split,split,split,u64"]


def classify(req, model):
    return req.split()[1]
