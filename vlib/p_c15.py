"""C15 - Exp / Normal / LogNormal: total parameter validation, always-valid samples."""
from . import common as C, gen_float as G, float_oracles as FO

LEAN_MODULE = ["Urandom.Props.C15", "Urandom.Props.C15T", "Urandom.Props.C16T"]
RULE = ("requests: Exp / Normal / LogNormal through try_new, try_from_mean_cv, new, from_mean_cv (panic iff error) for f32 and f64 parameters of every class (+-0, subnormal, huge, "
        "+-inf, NaN, negative, random), samples under scripted words that drive rectangle, wedge and tail paths (all-zero and all-one words included), from_zscore on arbitrary z; "
        "StandardNormal / Exp1 directly. oracle: documented domain <-> accept/err kind, no panic on try_ paths, no NaN sample for accepted non-NaN parameters, sign of Exp/LogNormal "
        "samples, +inf for a zero rate, |z| < 17, 0 < x < 54; extra: Normal/LogNormal sample == from_zscore(StandardNormal sample on the same words), bitwise. "
        "non-trivial = all; distinct = distinct request line")
TRUSTED = ["libm (ln, exp) enters the theorems only through explicit hypotheses; in the correspondence the model calls the same platform libm as Rust"]
ASSUMPTIONS = ["the software IEEE-754 model (add/sub/mul/div/fma/sqrt/compare/convert) is validated against the hardware on every run (fp stream), not proved"]


def generate(r, tier, build):
    k = 1 if tier == "quick" else 25
    return G.dist_requests(r, 3000 * k) + G.zig_requests(r, 300 * k) + G.fp_requests(r, 3000 * k)


def corpus(build):
    return ["expd w=64 lambda=9223372036854775808 via=try n=1 words=1,1,1,1",                       # D3: Exp(-0.0)
            "lnorm w=64 ctor=cv a=13830554455654793216 b=0 via=try n=1 words=1,1,1,1",             # D4: mean -1, cv 0
            "lnorm w=64 ctor=cv a=9221120237041090560 b=0 via=try n=1 words=1,1,1,1",              # D4: mean NaN, cv 0
            "norm w=64 ctor=cv a=9218868437227405312 b=0 via=try n=1 words=1,1,1,1",               # D5: mean inf, cv 0
            "norm w=64 ctor=cv a=6103021453049119613 b=6103021453049119613 via=try n=1 words=1,1,1,1"]   # D5: 1e200 * 1e200


def classify(req, model):
    return req.split()[0] + "/" + ("err" if "err:" in model or model == "panic" else "ok")


def oracle(req, impl, build):
    k = req.split()[0]
    if k == "expd":
        return FO.expd_oracle(req, impl)
    if k in ("norm", "lnorm"):
        return FO.norm_oracle(req, impl, k == "lnorm")
    if k == "zig":
        return FO.zig_oracle(req, impl)
    return None


def extra(binary, build, tier, rng):
    """Normal / LogNormal samples are exactly the z-score transform of the standard-normal sample drawn from the same stream"""
    n = 300 if tier == "quick" else 6000
    triples = []
    for _ in range(n):
        w = rng.choice([32, 64])
        fb = G.f64b if w == 64 else G.f32b
        a = fb(rng.choice([0.0, 1.0, -3.5, 100.0, 1e-3, rng.bits(20) / 64.0 - 1000]))
        b = fb(rng.choice([0.0, 1.0, 0.25, 7.0, 1e-4, rng.bits(20) / 4096.0, -1.0, -0.25, -rng.bits(20) / 4096.0, -0.0]))
        words = ",".join(map(str, G.zig_stream(rng, "norm", 1)))
        kind = rng.choice(["norm", "lnorm"])
        triples.append((kind, w, a, b, words))
    reqs = []
    for kind, w, a, b, words in triples:
        reqs.append("zig kind=norm w=%d n=1 words=%s" % (w, words))
        reqs.append("%s w=%d ctor=new a=%d b=%d via=try n=1 words=%s" % (kind, w, a, b, words))
    rc, res, err = C.run_lines(binary, ["run"], reqs)
    zreqs, idx = [], []
    for t, (zq, sq) in enumerate(zip(res[0::2], res[1::2])):
        zs = FO.samples(zq)
        if not zs or zs[0] == "nan":
            continue
        kind, w, a, b, words = triples[t]
        zreqs.append("%s w=%d ctor=new a=%d b=%d via=try n=1 z=%d words=" % (kind, w, a, b, zs[0]))
        idx.append(t)
    rc, zres, err = C.run_lines(binary, ["run"], zreqs)
    bad = 0
    for t, zr in zip(idx, zres):
        sample_tok = [x for x in res[2 * t + 1].split() if x.startswith("ok:")]
        z_tok = [x for x in zr.split() if x.startswith("z:")]
        if not sample_tok or not z_tok:
            continue
        if sample_tok[0].split(":")[1] != z_tok[0][2:]:
            kind, w, a, b, words = triples[t]
            yield {"kind": "oracle", "build": build, "request": reqs[2 * t + 1], "impl": res[2 * t + 1], "model": zr,
                   "oracle": "%s sample differs from from_zscore(z) of the standard-normal sample drawn from the same words" % kind}
    # the same clause against the platform's arithmetic instead of the crate's own from_zscore: the sample must be mean + sd*z
    # (fused or not - the property does not fix the rounding of the intermediate product) and, for LogNormal, its exponential
    isnan = lambda w, x: (x & 0x7FFFFFFFFFFFFFFF) > 0x7FF0000000000000 if w == 64 else (x & 0x7FFFFFFF) > 0x7F800000
    q1, who = [], []
    for t in idx:
        kind, w, a, b, words = triples[t]
        z = FO.samples(res[2 * t])[0]
        q1 += ["fp op=fma w=%d a=%d b=%s c=%d" % (w, b, z, a), "fp op=mul w=%d a=%d b=%s" % (w, b, z)]
        who.append(t)
    rc, r1, err = C.run_lines(binary, ["run"], q1)
    q2 = ["fp op=add w=%d a=%s b=%d" % (triples[t][1], r1[2 * i + 1], triples[t][2]) for i, t in enumerate(who)]
    rc, r2, err = C.run_lines(binary, ["run"], q2)
    cand = {t: [r1[2 * i], r2[i]] for i, t in enumerate(who)}
    q3 = [q for t in who if triples[t][0] == "lnorm" for q in ("fp op=exp w=%d a=%s" % (triples[t][1], cand[t][0]), "fp op=exp w=%d a=%s" % (triples[t][1], cand[t][1]))]
    rc, r3, err = C.run_lines(binary, ["run"], q3) if q3 else (0, [], "")
    j = 0
    for t in who:
        kind, w, a, b, words = triples[t]
        if kind == "lnorm":
            cand[t] = [r3[j], r3[j + 1]]
            j += 2
        sample_tok = [x for x in res[2 * t + 1].split() if x.startswith("ok:")]
        if not sample_tok:
            continue
        got = sample_tok[0].split(":")[1]
        try:
            g, cs = int(got), [int(c) for c in cand[t]]
        except ValueError:
            continue
        if g in cs or (isnan(w, g) and any(isnan(w, c) for c in cs)):
            continue
        yield {"kind": "oracle", "build": build, "request": reqs[2 * t + 1], "impl": res[2 * t + 1], "model": "mean + sd*z%s = %s (fused) / %s (unfused), z = %s" % (", exponentiated," if kind == "lnorm" else "", cand[t][0], cand[t][1], FO.samples(res[2 * t])[0]),
               "oracle": "%s sample is not the z-score transform mean + sd*z%s of the standard-normal sample drawn from the same words (platform arithmetic, fused or unfused)" % ("LogNormal" if kind == "lnorm" else "Normal", " exponentiated" if kind == "lnorm" else "")}
    yield {"kind": "count", "what": "zscore-transform-triples", "n": len(idx)}
    # SENSITIVE z-scores: where evaluating mean + sd*z through a wider type and rounding afterwards differs from evaluating it in the sample's
    # type (about one f32 z in 2^30; found by a native search, harness `zfind`, on all cores). For each, a first word is crafted that makes
    # StandardNormal return exactly that z (rectangle of layer 1), and the sample must be from_zscore(z) and mean + sd*z as above.
    if build == "release":
        from concurrent.futures import ThreadPoolExecutor
        import struct
        iters = 1_500_000_000 if tier == "quick" else 12_000_000_000
        params = [(1.0e6, 2.74), (70.5, 0.12), (-12345.678, 0.333), (3.0e4, 1.7)]
        freq = ["zfind a=%d b=%d iters=%d seed=%d max=4" % (G.f64b(params[j % 4][0]), G.f64b(params[j % 4][1]), iters, rng.u64()) for j in range(16)]
        with ThreadPoolExecutor(max_workers=16) as ex:
            fouts = list(ex.map(lambda q: C.run_lines(binary, ["run"], [q], timeout=7200)[1][0], freq))
        X = G.tables()["ZIG_NORM_X"]
        f32 = lambda x: struct.unpack("<f", struct.pack("<f", x))[0]
        cands = []
        for j, o in enumerate(fouts):
            for zb in [int(x) for x in o[2:].split(",") if x]:
                z = struct.unpack("<f", struct.pack("<I", zb))[0]
                if not (abs(z) < X[2] * 0.999):
                    continue
                m0 = int((z / X[1] + 1.0) * (1 << 51))
                word = None
                for dm in range(0, 4096):
                    for mm in (m0 + dm, m0 - dm):
                        if 0 <= mm < (1 << 52):
                            u = (1.0 + mm / float(1 << 52)) * 2.0 - 3.0
                            if f32(u * X[1]) == z:
                                word = G.zig_bits(1, mm, 0)
                                break
                    if word is not None:
                        break
                if word is not None:
                    cands.append((params[j % 4], zb, word))
        # which evaluation of mean + sd*z the implementation uses on ORDINARY z-scores (fused or unfused in f32; they differ on a fair share
        # of all z): a deterministic transform is one arithmetic expression, so whatever it is there it must be on the sensitive z-scores too
        oparams = [(0.3, 1.7), (1.5, 0.9), (-0.7, 2.2), (0.011, 0.37)]       # mean and sd*z of comparable size: the product's rounding shows
        oz = [(oparams[i % 4], struct.unpack("<I", struct.pack("<f", (rng.below(8000001) - 4000000) / 1.0e6 + rng.below(1000) * 1e-9))[0]) for i in range(240)]
        oreq = []
        for (a, b), zb in oz:
            oreq += ["norm w=32 ctor=new a=%d b=%d via=try n=1 z=%d words=" % (G.f32b(a), G.f32b(b), zb),
                     "fp op=fma w=32 a=%d b=%d c=%d" % (G.f32b(b), zb, G.f32b(a)), "fp op=mul w=32 a=%d b=%d" % (G.f32b(b), zb)]
        rc, ores, err = C.run_lines(binary, ["run"], oreq)
        rc, oadd, err = C.run_lines(binary, ["run"], ["fp op=add w=32 a=%s b=%d" % (ores[3 * i + 2], G.f32b(oz[i][0][0])) for i in range(len(oz))])
        nf = nu = 0
        for i in range(len(oz)):
            zt = [x for x in ores[3 * i].split() if x.startswith("z:")]
            if zt and ores[3 * i + 1] != oadd[i]:
                nf += zt[0][2:] == ores[3 * i + 1]
                nu += zt[0][2:] == oadd[i]
        style = "fused" if nf >= 12 and nu == 0 else "unfused" if nu >= 12 and nf == 0 else None
        sreq = []
        for (a, b), zb, word in cands:
            sreq += ["zig kind=norm w=32 n=1 words=%d" % word,
                     "norm w=32 ctor=new a=%d b=%d via=try n=1 words=%d" % (G.f32b(a), G.f32b(b), word),
                     "norm w=32 ctor=new a=%d b=%d via=try n=1 z=%d words=" % (G.f32b(a), G.f32b(b), zb),
                     "fp op=fma w=32 a=%d b=%d c=%d" % (G.f32b(b), zb, G.f32b(a)), "fp op=mul w=32 a=%d b=%d" % (G.f32b(b), zb)]
        rc, sres, err = C.run_lines(binary, ["run"], sreq) if sreq else (0, [], "")
        areq = ["fp op=add w=32 a=%s b=%d" % (sres[5 * i + 4], G.f32b(cands[i][0][0])) for i in range(len(cands))]
        rc, ares, err = C.run_lines(binary, ["run"], areq) if areq else (0, [], "")
        for i, ((a, b), zb, word) in enumerate(cands):
            zs = FO.samples(sres[5 * i])
            if not zs or int(zs[0]) != zb:
                continue                                   # the crafted word does not give this z on this implementation: not judged
            st = [x for x in sres[5 * i + 1].split() if x.startswith("ok:")]
            zt = [x for x in sres[5 * i + 2].split() if x.startswith("z:")]
            if not st or not zt:
                continue
            got = st[0].split(":")[1]
            if got != zt[0][2:]:
                yield {"kind": "oracle", "build": build, "request": sreq[5 * i + 1], "impl": sres[5 * i + 1], "model": sres[5 * i + 2],
                       "oracle": "Normal<f32> sample differs from from_zscore(z) of the standard-normal sample drawn from the same word (z bits %d, a z-score on which evaluation through f64 rounds differently)" % zb}
            elif style and got != (sres[5 * i + 3] if style == "fused" else ares[i]):
                yield {"kind": "oracle", "build": build, "request": sreq[5 * i + 1], "impl": sres[5 * i + 1], "model": "fused %s unfused %s" % (sres[5 * i + 3], ares[i]),
                       "oracle": "Normal<f32>: on %d ordinary z-scores where the two differ the transform is the %s evaluation of mean + sd*z in f32 and never the other one, but for z bits %d (a z-score on which an evaluation through f64 rounds twice) the sample is not the %s value: the transform is not mean + sd*z in the sample's arithmetic" % (nf + nu, style, zb, style)}
            elif got not in (sres[5 * i + 3], ares[i]):
                yield {"kind": "oracle", "build": build, "request": sreq[5 * i + 1], "impl": sres[5 * i + 1], "model": "fused %s unfused %s" % (sres[5 * i + 3], ares[i]),
                       "oracle": "Normal<f32> sample is not mean + sd*z (fused or unfused, platform arithmetic in f32) for z bits %d" % zb}
        yield {"kind": "count", "what": "sensitive-zscores-tested", "n": len(cands)}
        yield {"kind": "count", "what": "ordinary-zscores-fused-%d-unfused-%d" % (nf, nu), "n": len(oz)}
        yield {"kind": "count", "what": "sensitive-zscore-search-iterations", "n": iters * 16}
