"""C16 - normal and exponential samplers really have the normal / exponential law (partial: see Props/C16.lean)."""
from . import common as C, gen_float as G, float_oracles as FO

LEAN_MODULE = ["Urandom.Props.C16", "Urandom.Props.C16T"]
RULE = ("the four ziggurat tables and the two R constants are re-translated from src/distr/ziggurat_tables.rs on every run (exact decimal rationals) and the table theorems are "
        "re-proved on them; requests: StandardNormal / Exp1 (f32, f64) and Exp / Normal / LogNormal on scripted words covering all 256 layers x {rectangle, threshold edge +-3 "
        "mantissa steps, wedge, |u| near 1} x both signs x Float01 words {smallest, largest, all leading-zero classes, random} incl. the tails; sample bits and words consumed are "
        "compared with the model (which uses the translated tables and the platform libm). extra: chi-square goodness of fit under real generators on 10^8 (thorough 1.5x10^9) samples per standard sampler and 4x10^7 (3x10^8) per f32 / transformed distribution, 64 equal-probability cells plus "
        "halving tail cells down to 2500 expected samples (violation search with error probability <= 1e-12; not a proof of the law). "
        "non-trivial = all; distinct = distinct request line")
TRUSTED = ["libm (ln, exp): the model calls the same platform libm as the Rust code",
           "the distributional law itself (uniform points under the curve have the target law; Marsaglia's tail method) is NOT proved: partial"]
ASSUMPTIONS = ["the software IEEE-754 model is validated against the hardware on every run, not proved"]


def regenerate():
    import os, sys
    sys.path.insert(0, os.path.join(C.VERIF, "tools"))
    import extract
    extract.main()


def builds(tier):
    return ["dev"] if tier == "quick" else ["dev", "release"]


def generate(r, tier, build):
    k = 1 if tier == "quick" else 25
    return G.zig_requests(r, 1200 * k) + G.dist_requests(r, 600 * k)


def corpus(build):
    return ["zig kind=norm w=64 n=1 words=0,0,0,0,0,0,0,0,0,0,0,0,0", "zig kind=exp w=64 n=1 words=18446744073709551360,0,0",
            "zig kind=norm w=64 n=1 words=18446744073709551360,0,0,18446744073709551615,18446744073709551615,1"]


def classify(req, model):
    return req.split()[0] + "/" + req.split()[1]


def oracle(req, impl, build):
    if req.startswith("zig"):
        return FO.zig_oracle(req, impl)
    return None


def wedge_boundary(binary, build, tier):
    """the acceptance region of the wedge IS the region under the density: for every layer and 16 abscissae across its wedge a candidate
    (x, y) is scripted with y a hair above the density (must be rejected: the next, rectangle word gives the sample) and a hair below (must be
    accepted: x is the sample).  x and y are computed here from the published ZIGNOR candidate construction and the tables of the current
    source, in double precision; the margins (3e-10 and 1e-7 relative, against 1e-15 of arithmetic error) leave no doubt on which side of
    exp(-x^2/2) / exp(-x) the candidate lies.  A shortcut that accepts by anything else than the density (a chord, a cheaper bound) differs
    from it somewhere along some wedge."""
    import math, struct
    from . import gen_float as G
    from .float_oracles import samples as fsamples
    T = G.tables()
    f64 = lambda b: struct.unpack("<d", struct.pack("<Q", b))[0]
    reqs, meta = [], []
    for kind in ("norm", "exp"):
        X, F = T["ZIG_NORM_X" if kind == "norm" else "ZIG_EXP_X"], T["ZIG_NORM_F" if kind == "norm" else "ZIG_EXP_F"]
        pdf = (lambda x: math.exp(-x * x / 2)) if kind == "norm" else (lambda x: math.exp(-x))
        for i in range(1, 256):
            for t in range(16):
                ax = X[i + 1] + (X[i] - X[i + 1]) * (0.02 + 0.96 * t / 15.0)
                sign = -1 if (kind == "norm" and (i + t) % 2) else 1
                # the first word: layer i, mantissa so that u * X[i] = x
                if kind == "norm":
                    mant = int((sign * ax / X[i] + 3.0 - 2.0) / 2.0 * (1 << 52))
                    w1 = G.zig_bits(i, mant, 0)
                    u = f64((w1 >> 12) | (1024 << 52)) - 3.0
                else:
                    mant = int((ax / X[i]) * (1 << 52))
                    w1 = G.zig_bits(i, mant, 0)
                    u = f64((w1 >> 12) | (1023 << 52)) - (1.0 - 2.0 ** -53)
                x = u * X[i]
                tx = abs(x)
                if not (X[i + 1] <= tx < X[i]):
                    continue
                d = pdf(x)
                for rel in (3e-10, -3e-10, 1e-7, -1e-7):
                    ustar = (d * (1 + rel) - F[i + 1]) / (F[i] - F[i + 1])
                    if not (2.0 ** -60 < ustar < 1.0):
                        continue
                    clz = int(math.floor(-math.log2(ustar)))
                    clz = clz if 2.0 ** (-1 - clz) <= ustar < 2.0 ** -clz else clz + (1 if ustar < 2.0 ** (-1 - clz) else -1)
                    m = int((ustar * 2.0 ** (1 + clz) - 1.0) * (1 << 52))
                    if not (0 <= m < (1 << 52) and 0 <= clz < 60):
                        continue
                    A, B = 1 << (63 - clz), m << 12
                    uu = 2.0 ** (-1 - clz) * (1 + m / float(1 << 52))
                    y = F[i + 1] + (F[i] - F[i + 1]) * uu
                    if abs(y / d - 1 - rel) > 1e-12 + abs(rel) * 1e-3:
                        continue
                    # a rectangle word of layer 200 with a recognisable abscissa ends the request when the candidate is rejected
                    w2 = G.zig_bits(200, (3 << 50) + 12345 if kind == "norm" else (1 << 50) + 12345, 0)
                    reqs.append("zig kind=%s w=64 n=1 words=%d,%d,%d,%d,0,0" % (kind, w1, A, B, w2))
                    meta.append((kind, i, x, y, d, rel, struct.unpack("<Q", struct.pack("<d", x))[0]))
    rc, res, err = C.run_lines(binary, ["run"], reqs)
    for q, o, (kind, i, x, y, d, rel, xb) in zip(reqs, res, meta):
        f = [t for t in o.split() if t.startswith("ok:")]
        if not f:
            continue
        bits, used = f[0].split(":")[1], f[0].split(":")[2]
        accepted = bits == str(xb) and used == "3"
        if accepted and rel > 0:
            yield {"kind": "oracle", "build": build, "request": q, "impl": o, "model": "candidate x = %r, y = %r, density(x) = %r" % (x, y, d),
                   "oracle": "%s, layer %d: the candidate (x = %r, y = density(x) * (1 + %g)) lies ABOVE the density and was returned as the sample: the accepted region is not the region under the density" % ("StandardNormal" if kind == "norm" else "Exp1", i, x, rel)}
        elif not accepted and rel < 0 and bits != str(xb):
            yield {"kind": "oracle", "build": build, "request": q, "impl": o, "model": "candidate x = %r, y = %r, density(x) = %r" % (x, y, d),
                   "oracle": "%s, layer %d: the candidate (x = %r, y = density(x) * (1 - %g)) lies BELOW the density and was rejected: the accepted region is not the region under the density" % ("StandardNormal" if kind == "norm" else "Exp1", i, x, -rel)}
    yield {"kind": "count", "what": "wedge-acceptance-boundary-candidates", "n": len(reqs)}


def extra(binary, build, tier, rng):
    """goodness of fit under real generators (violation search; the law itself is not proved): 64 equal-probability cells plus tail cells of
    halving probability down to an expected count of 2500 (so the wedges, the base strip and the tails beyond R each get their own cells);
    alarm only beyond a chi-square bound of error probability 1e-12"""
    from .stat_oracle import run_statd
    # the table clause, independently of Lean: ordinate = density at the abscissa, for all 2 x 257 entries of the current source
    from .zig_table_oracle import check_tables
    bad, n_checked = check_tables()
    for tab, i, lit, dens, err, pdf in bad[:3]:
        yield {"kind": "oracle", "build": build, "request": "table entry %s[%d] of src/distr/ziggurat_tables.rs" % (tab, i), "impl": lit, "model": dens,
               "oracle": "%s[%d] = %s is not the density %s = %s at the tabulated abscissa (absolute difference %s)" % (tab, i, lit, pdf, dens, err)}
    yield {"kind": "count", "what": "table-entries-checked", "n": n_checked}
    yield from wedge_boundary(binary, build, tier)
    N = 100_000_000 if tier == "quick" else 1_500_000_000
    M = 40_000_000 if tier == "quick" else 300_000_000
    gens = ["xoshiro", "splitmix", "wyrand", "chacha8"]
    specs = [("norm", 64, 0.0, 0.0, N, rng.u64(), rng.choice(gens)), ("exp", 64, 0.0, 0.0, N, rng.u64(), rng.choice(gens)),
             ("norm", 32, 0.0, 0.0, M, rng.u64(), rng.choice(gens)), ("exp", 32, 0.0, 0.0, M, rng.u64(), rng.choice(gens)),
             ("expl", 64, 2.5, 0.0, M, rng.u64(), rng.choice(gens)), ("expl", 32, 0.125, 0.0, M, rng.u64(), rng.choice(gens)),
             ("normal", 64, -3.0, 0.5, M, rng.u64(), rng.choice(gens)), ("normal", 32, 10.0, 4.0, M, rng.u64(), rng.choice(gens)),
             ("lognormal", 64, 0.25, 0.75, M, rng.u64(), rng.choice(gens)), ("lognormal", 32, -1.0, 0.5, M, rng.u64(), rng.choice(gens))]
    yield from run_statd(binary, specs, "gof-samples", build)
    # the law inside the tails (what the tail samplers produce): 12 equal-probability cells per side beyond |z| = 3.5 / x = 7, on 16 cores
    from .stat_oracle import tail_request, judge_statd_lines
    T = 1_600_000_000 if tier == "quick" else 16_000_000_000
    treqs = [tail_request("norm", 64, T, rng.u64(), rng.choice(gens)), tail_request("exp", 64, T, rng.u64(), rng.choice(gens)),
             tail_request("norm", 32, T // 4, rng.u64(), rng.choice(gens)), tail_request("exp", 32, T // 4, rng.u64(), rng.choice(gens))]
    yield from judge_statd_lines(binary, treqs, "tail-gof-samples", build)
