"""C16 - normal and exponential samplers really have the normal / exponential law (partial: see Props/C16.lean)."""
from . import common as C, gen_float as G, float_oracles as FO

LEAN_MODULE = "Urandom.Props.C16"
RULE = ("the four ziggurat tables and the two R constants are re-translated from src/distr/ziggurat_tables.rs on every run (exact decimal rationals) and the table theorems are "
        "re-proved on them; requests: StandardNormal / Exp1 (f32, f64) and Exp / Normal / LogNormal on scripted words covering all 256 layers x {rectangle, threshold edge +-3 "
        "mantissa steps, wedge, |u| near 1} x both signs x Float01 words {smallest, largest, all leading-zero classes, random} incl. the tails; sample bits and words consumed are "
        "compared with the model (which uses the translated tables and the platform libm). thorough: chi-square goodness of fit on 2x10^6 samples (supporting evidence only). "
        "non-trivial = all; distinct = distinct request line")
TRUSTED = ["libm (ln, exp): the model calls the same platform libm as the Rust code",
           "the distributional law itself (uniform points under the curve have the target law; Marsaglia's tail method) is NOT proved: partial"]
ASSUMPTIONS = ["the software IEEE-754 model is validated against the hardware on every run, not proved"]


def regenerate():
    import os, sys
    sys.path.insert(0, os.path.join(C.VERIF, "tools"))
    import extract
    extract.main()


def generate(r, tier, build):
    k = 1 if tier == "quick" else 25
    return G.zig_requests(r, 1200 * k) + G.dist_requests(r, 600 * k)


def corpus(build):
    return ["zig kind=norm w=64 n=1 words=0,0,0,0,0,0,0,0,0,0,0,0,0", "zig kind=exp w=64 n=1 words=18446744073709551360,0,0",
            "zig kind=norm w=64 n=1 words=18446744073709551360,0,0,18446744073709551615,18446744073709551615,1"]


def classify(req, model):
    return req.split()[0] + "/" + req.split()[1]


def oracle(req, impl, build):
    if req.startswith("zig"):
        return FO.zig_oracle(req, impl)
    return None


def extra(binary, build, tier, rng):
    if tier != "thorough":
        return
    # supporting evidence only: chi-square of real samples against the exact layer-independent bins; threshold p < 1e-9
    import math
    reqs = []
    from .common import SplitMix
    n_per = 2000
    for j in range(1000):
        words = ",".join(str(rng.u64()) for _ in range(n_per * 4))
        reqs.append("zig kind=%s w=64 n=%d words=%s" % ("norm" if j % 2 == 0 else "exp", n_per, words))
    rc, res, err = C.run_lines(binary, ["run"], reqs)
    edges_n = [-3, -2, -1.5, -1, -0.5, 0, 0.5, 1, 1.5, 2, 3]
    edges_e = [0.1, 0.25, 0.5, 1, 1.5, 2, 3, 4, 6]
    cn = [0] * (len(edges_n) + 1)
    ce = [0] * (len(edges_e) + 1)
    tn = te = 0
    import bisect
    for q, o in zip(reqs, res):
        s = FO.samples(o) or []
        for x in s:
            if x == "nan":
                continue
            v = G.b64f(x)
            if "kind=norm" in q:
                cn[bisect.bisect_right(edges_n, v)] += 1; tn += 1
            else:
                ce[bisect.bisect_right(edges_e, v)] += 1; te += 1
    Phi = lambda x: 0.5 * (1 + math.erf(x / math.sqrt(2)))
    pn = [Phi(edges_n[0])] + [Phi(b) - Phi(a) for a, b in zip(edges_n, edges_n[1:])] + [1 - Phi(edges_n[-1])]
    E = lambda x: 1 - math.exp(-x)
    pe = [E(edges_e[0])] + [E(b) - E(a) for a, b in zip(edges_e, edges_e[1:])] + [1 - E(edges_e[-1])]
    chi_n = sum((c - tn * p) ** 2 / (tn * p) for c, p in zip(cn, pn)) if tn else 0
    chi_e = sum((c - te * p) ** 2 / (te * p) for c, p in zip(ce, pe)) if te else 0
    yield {"kind": "note", "text": "chi-square (support only): normal %.1f on %d dof (n=%d), exponential %.1f on %d dof (n=%d)" % (chi_n, len(pn) - 1, tn, chi_e, len(pe) - 1, te)}
    # p < 1e-9 thresholds: chi2 > ~70 for 11 dof, ~66 for 9 dof
    if chi_n > 75 or chi_e > 70:
        yield {"kind": "oracle", "build": build, "request": "chi-square goodness of fit over %d samples" % (tn + te), "impl": "normal chi2=%.1f counts=%s; exp chi2=%.1f counts=%s" % (chi_n, cn, chi_e, ce),
               "model": "", "oracle": "sample histogram is incompatible with the target law (p < 1e-9)"}
    yield {"kind": "count", "what": "gof-samples", "n": tn + te}
