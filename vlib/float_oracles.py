"""Oracles for the floating-point properties (predicates on returned bit patterns)."""
from .oracles import kv, parse_ok
from .gen_float import b64f, b32f

def cls(w, b):
    """('nan'|'inf'|'fin', sign, value)"""
    if w == 64:
        e, m, s = (b >> 52) & 0x7FF, b & ((1 << 52) - 1), b >> 63
        if e == 0x7FF:
            return ("nan" if m else "inf", s, None)
        return ("fin", s, b64f(b))
    e, m, s = (b >> 23) & 0xFF, b & ((1 << 23) - 1), b >> 31
    if e == 0xFF:
        return ("nan" if m else "inf", s, None)
    return ("fin", s, b32f(b))


def fval(w, b):
    k, s, v = cls(w, b)
    if k == "nan":
        return float("nan")
    if k == "inf":
        return -float("inf") if s else float("inf")
    return v


def samples(tok):
    """'ok:a,b:c' -> list of bit patterns or 'nan'"""
    f = parse_ok(tok)
    if f is None:
        return None
    return [x if x == "nan" else int(x) for x in f[0].split(",") if x != ""]


def expd_oracle(req, impl):
    d = kv(req)
    w = int(d["w"])
    lam = fval(w, int(d["lambda"]))
    ok = lam >= 0.0          # IEEE: false for NaN, true for -0.0
    if d["via"] == "try":
        if impl.startswith("err:"):
            return None if not ok and impl == "err:LambdaTooSmall" else "Exp::try_new rejected a rate >= 0 (or wrong error kind): " + impl
        if impl == "panic":
            return "Exp::try_new panicked" if not ok else None     # words may have run out
        if not ok:
            return "Exp::try_new accepted a rate that is not >= 0"
    else:
        if not ok:
            return None if impl == "panic" else "Exp::new did not panic on an invalid rate"
    s = samples(impl)
    if s is None:
        return None
    for x in s:
        if x == "nan":
            return "Exp sample is NaN"
        k, sign, v = cls(w, x)
        if sign:
            return "Exp sample is negative (%s)" % ("-inf" if k == "inf" else v)
        if lam == 0.0 and not (k == "inf" and sign == 0):
            return "Exp with a zero rate must give +infinity, got %s" % v
    return None


def norm_oracle(req, impl, logn):
    d = kv(req)
    w = int(d["w"])
    a, b = fval(w, int(d["a"])), fval(w, int(d["b"]))
    ctor, via = d["ctor"], d["via"]
    import math
    fin = lambda x: not (math.isnan(x) or math.isinf(x))
    # documented domain
    if not logn:
        if ctor == "new":
            want = None if fin(b) else "BadVariance"
        else:
            want = None if (fin(b) and b >= 0.0) else "BadVariance"
            # the derived standard deviation must be usable as well (documented meaning of BadVariance);
            # only decidable here from the result, see below
    else:
        if ctor == "new":
            want = None if fin(b) else "BadVariance"
        else:
            if b == 0.0:
                want = None if a >= 0.0 else "MeanTooSmall"
            elif not (a > 0.0):
                want = "MeanTooSmall"
            elif not (b >= 0.0):
                want = "BadVariance"
            else:
                want = None   # may still be BadVariance if the derived sigma is not finite
    if impl == "NO-PANIC":
        return "the panicking constructor did not panic although try_ returned an error"
    got_err = impl[4:] if impl.startswith("err:") else None
    if via == "try" and impl == "panic":
        return "a try_ constructor panicked"
    if want is not None:
        if via == "try":
            if got_err is None:
                return "%s::try_%s accepted parameters outside the documented domain (expected %s)" % ("LogNormal" if logn else "Normal", "from_mean_cv" if ctor == "cv" else "new", want)
            if got_err != want:
                return "wrong error kind %s (documented: %s)" % (got_err, want)
        elif impl != "panic":
            return "the panicking constructor accepted parameters outside the documented domain"
        return None
    if got_err is not None:
        if got_err == "BadVariance" and ctor == "cv":
            return None   # derived sigma not finite: decided by the model correspondence
        return "parameters inside the documented domain were rejected with " + got_err
    # accepted: samples
    toks = impl.split()
    res = [t for t in toks if t.startswith("ok:") or t.startswith("z:")]
    nan_params = math.isnan(a) or math.isnan(b)
    for t in res:
        vals = samples(t) if t.startswith("ok:") else [t[2:] if t[2:] == "nan" else int(t[2:])]
        if t.startswith("z:"):
            continue   # from_zscore of an arbitrary z (may be NaN/inf by itself)
        for x in vals or []:
            if x == "nan":
                if not nan_params:
                    return "%s sample is NaN for accepted non-NaN parameters" % ("LogNormal" if logn else "Normal")
                continue
            if logn and cls(w, x)[1]:
                return "LogNormal sample is negative"
    return None


def zig_oracle(req, impl):
    d = kv(req)
    w = int(d["w"])
    s = samples(impl)
    if s is None:
        return None
    for x in s:
        if x == "nan":
            return "standard sample is NaN"
        k, sign, v = cls(w, x)
        if k != "fin":
            return "standard sample is infinite"
        if d["kind"] == "norm" and not abs(v) < 17:
            return "|z| >= 17: %r" % v
        if d["kind"] == "exp" and not (0 < v < 54):
            return "unit exponential sample outside (0, 54): %r" % v
    return None
