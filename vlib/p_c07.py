"""C07 - multiple() draws a uniformly random k-subset of the collection."""
from . import common as C, gen_int as G, oracles as O

LEAN_MODULE = "Urandom.Props.C07"
RULE = ("requests: multiple on n in 0..30 items, k in 0..35 slots (k<n, k=n, k>n, k=0), scripted words realising chosen replacement indices; "
        "non-trivial = n > k > 0 (at least one draw); distinct = distinct request line")
ASSUMPTIONS = []


def generate(r, tier, build):
    k = 1 if tier == "quick" else 20
    return G.multi_requests(r, 2000 * k)


def corpus(build):
    return ["multi items= buf= words=", "multi items=1,2,3 buf= words=", "multi items= buf=9,9 words="]


def classify(req, model):
    d = O.kv(req)
    n, k = len(O.ints(d["items"])), len(O.ints(d["buf"]))
    return "draws" if n > k > 0 else None


def oracle(req, impl, build):
    return O.multi_oracle(req, impl)


def extra(binary, build, tier, rng):
    from .enum_oracle import run_enum
    top = 5 if tier == "quick" else 6
    specs = [("multi", n, k, 60, n - k) for n in range(1, top + 1) for k in range(1, n) if n - k <= 3]
    return run_enum(binary, specs, "enumerated-draw-tuples")
