"""C07 - multiple() draws a uniformly random k-subset of the collection."""
from . import common as C, gen_int as G, oracles as O

LEAN_MODULE = ["Urandom.Props.C07", "Urandom.Props.C07T"]
RULE = ("requests: multiple on n in 0..30 items, k in 0..35 slots (k<n, k=n, k>n, k=0), the collection behind iterators with exact, inexact, lower-bound and missing size hints (slice, Vec, Filter, Chain, custom), scripted words realising chosen replacement indices; "
        "non-trivial = n > k > 0 (at least one draw); distinct = distinct request line")
ASSUMPTIONS = []


def generate(r, tier, build):
    k = 1 if tier == "quick" else 20
    return G.multi_requests(r, 2000 * k)


def corpus(build):
    return ["multi items= buf= words=", "multi items=1,2,3 buf= words=", "multi items= buf=9,9 words="]


def classify(req, model):
    d = O.kv(req)
    n, k = len(O.ints(d["items"])), len(O.ints(d["buf"]))
    return "draws" if n > k > 0 else None


def oracle(req, impl, build):
    return O.multi_oracle(req, impl)


def huge(binary, build):
    """a collection of more than 2^32 items (release build; 4 s): under exact uniformity the chance that two or more of the kept items come from
    the last 8 positions is below 1e-16 - a 32-bit item counter or index makes exactly that happen"""
    n, k = (1 << 32) + 4, 4
    q = "bigmulti n=%d k=%d seed=77 gen=wyrand" % (n, k)
    o = C.run_parallel(binary, [q])[0]
    f = o.split(":")
    if f[0] != "ok" or len(f) < 3:
        yield {"kind": "oracle", "build": build, "request": q, "impl": o, "model": "", "oracle": "multiple() over 2^32 + 4 items failed: " + o}
    else:
        items = [int(x) for x in f[2].split(",") if x]
        late = [x for x in items if x >= n - 8]
        if int(f[1]) != k or len(set(items)) != k or any(x >= n for x in items):
            yield {"kind": "oracle", "build": build, "request": q, "impl": o, "model": "", "oracle": "multiple() over 2^32 + 4 items into 4 slots: wrong count, a duplicate or an item that is not in the collection"}
        elif len(late) >= 2:
            yield {"kind": "oracle", "build": build, "request": q, "impl": o, "model": "", "oracle": "multiple() over 2^32 + 4 items into 4 slots kept %d items from the last 8 positions (%s): under exact uniformity that has probability below 1e-16" % (len(late), late)}
    yield {"kind": "count", "what": "huge-collection-items", "n": n}


def extra(binary, build, tier, rng):
    if build == "release":
        yield from huge(binary, build)
    if build != "dev" and tier == "quick":
        return          # the exhaustive / statistical searches run once per quick check (dev profile)
    from .enum_oracle import run_enum
    top = 5 if tier == "quick" else 6
    specs = [("multi", n, k, 60, n - k) for n in range(1, top + 1) for k in range(1, n) if n - k <= 3]
    # the same collections behind iterators with inexact / missing / lower-bound size hints (Filter, Chain, custom)
    specs += [("multi", n, k, 60, n - k, h) for h in ("filter", "none", "lower", "upper", "chain") for n in range(2, top) for k in range(1, n) if n - k <= 2]
    yield from run_enum(binary, specs, "enumerated-draw-tuples")
    from .stat_oracle import run_stat, samples_for
    specs = []
    for h in (None, "filter", "none", "lower", "chain"):
        for (n, k) in ((3, 1), (4, 2), (6, 3), (7, 2)) if tier == "quick" else ((2, 1), (3, 1), (3, 2), (4, 2), (5, 2), (6, 3), (7, 2), (8, 4), (9, 1), (10, 3)):
            specs.append(("multi", n, k, samples_for("multi", n, k, tier), rng.u64(), h, rng.choice(["xoshiro", "splitmix", "wyrand", "chacha8"])))
    yield from run_stat(binary, specs, "frequency-test-samples", build)
    # exact preimage counts of the replacement draw (and of the draw after a rejected word), by interval search over all 2^64 words:
    # n items into k = n-1 slots - the last item replaces slot j or none, j uniform in 0..n-1
    from .preimage_oracle import first_draw_counts
    from .oracles import parse_ok
    ps = []
    for n in (3, 5, 6):
        items = ",".join(map(str, range(n)))
        buf = ",".join(["77"] * (n - 1))
        def which(res, n=n):
            f = parse_ok(res)
            if f is None or len(f) < 2:
                return None
            got = f[1].split(",")
            j = [i for i, x in enumerate(got) if x == str(n - 1)]
            return j[0] if j else n - 1
        ps.append(("multiple(%d items, %d slots): slot taken by the last item" % (n, n - 1), n, 64,
                   (lambda w, items=items, buf=buf: "multi items=%s buf=%s words=%d" % (items, buf, w)), which,
                   (lambda w1, w2, items=items, buf=buf: "multi items=%s buf=%s words=%d,%d" % (items, buf, w1, w2))))
    yield from first_draw_counts(binary, build, rng, ps, "preimage-interval-probes")
    # the DROP region of the last replacement draw (n items, k <= n-2 slots): exact uniformity of the draw needs the words that keep the
    # buffer unchanged to number exactly (n-k) times the words behind one slot; the words of that region that are redrawn are looked for
    # at the boundaries of the n equal stretches of the word space (where a multiply-shift sampler rejects)
    from .preimage_oracle import Prober, count_values
    B = 1 << 64
    probes = 0
    for n, k in ((6, 4), (7, 3), (10, 4), (12, 5)):
        items = ",".join(map(str, range(n)))
        buf = ",".join(["77"] * k)
        prefix = ",".join([str(B - 1)] * (n - 1 - k))          # the earlier replacement draws: the top word, which drops the item
        def mk(w, items=items, buf=buf, prefix=prefix):
            return "multi items=%s buf=%s words=%s%d" % (items, buf, prefix + "," if prefix else "", w)
        def which(res, n=n, k=k):
            f = parse_ok(res)
            if f is None or len(f) < 2:
                return None
            got = f[1].split(",")
            j = [i for i, x in enumerate(got) if x == str(n - 1)]
            return j[0] if j else k
        pr = Prober(binary, mk, which)
        msg, info = count_values(pr, n, 64, list(range(k)), rng, "multiple(%d items, %d slots)" % (n, k))
        if msg == "inconclusive":
            yield {"kind": "note", "text": "multiple(%d, %d): drop-region count inconclusive (%s)" % (n, k, info)}
            continue
        if msg:
            yield {"kind": "oracle", "build": build, "request": mk(info[min(info)][0]), "impl": str(info)[:500], "model": "", "oracle": msg}
            continue
        q = info[0][2]
        d0 = info[k - 1][1] + 1
        need = (B - d0) - (n - k) * q
        cand = sorted({w for j in range(k, n + 1) for t in range(-3, 4) for w in ((j * B) // n + t, -((-j * B) // n) + t) if d0 <= w < B})
        vals = pr.many(cand)
        found = [w for w, v in zip(cand, vals) if v is None]
        rnd = [d0 + rng.below(B - d0) for _ in range(200)]
        if any(v is None for v in pr.many(rnd)):
            yield {"kind": "note", "text": "multiple(%d, %d): words are redrawn elsewhere than at the stretch boundaries - drop-region count not judged" % (n, k)}
        elif len(found) != need:
            acc = [w for w, v in zip(cand, vals) if v is not None]
            wit = next((w for w in acc if w not in (B - 1,) and any(abs(w - (j * B) // n) <= 1 for j in range(k, n))), acc[0] if acc else d0)
            yield {"kind": "oracle", "build": build, "request": mk(wit), "impl": "slot counts %d each; the region that leaves the buffer unchanged starts at word %d; redrawn words found in it: %s" % (q, d0, found[:8]), "model": "",
                   "oracle": "multiple(%d items, %d slots), last replacement draw: each slot is taken by %d words, so exact uniformity needs %d x %d = %d words that leave the buffer unchanged; the region holds %d words, "
                             "so %d of them must be redrawn - %d are" % (n, k, q, n - k, q, (n - k) * q, B - d0, need, len(found))}
        probes += pr.calls
    yield {"kind": "count", "what": "drop-region-probes", "n": probes}
