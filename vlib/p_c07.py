"""C07 - multiple() draws a uniformly random k-subset of the collection."""
from . import common as C, gen_int as G, oracles as O

LEAN_MODULE = "Urandom.Props.C07"
RULE = ("requests: multiple on n in 0..30 items, k in 0..35 slots (k<n, k=n, k>n, k=0), the collection behind iterators with exact, inexact, lower-bound and missing size hints (slice, Vec, Filter, Chain, custom), scripted words realising chosen replacement indices; "
        "non-trivial = n > k > 0 (at least one draw); distinct = distinct request line")
ASSUMPTIONS = []


def generate(r, tier, build):
    k = 1 if tier == "quick" else 20
    return G.multi_requests(r, 2000 * k)


def corpus(build):
    return ["multi items= buf= words=", "multi items=1,2,3 buf= words=", "multi items= buf=9,9 words="]


def classify(req, model):
    d = O.kv(req)
    n, k = len(O.ints(d["items"])), len(O.ints(d["buf"]))
    return "draws" if n > k > 0 else None


def oracle(req, impl, build):
    return O.multi_oracle(req, impl)


def extra(binary, build, tier, rng):
    if build != "dev" and tier == "quick":
        return          # the exhaustive / statistical searches run once per quick check (dev profile)
    from .enum_oracle import run_enum
    top = 5 if tier == "quick" else 6
    specs = [("multi", n, k, 60, n - k) for n in range(1, top + 1) for k in range(1, n) if n - k <= 3]
    # the same collections behind iterators with inexact / missing / lower-bound size hints (Filter, Chain, custom)
    specs += [("multi", n, k, 60, n - k, h) for h in ("filter", "none", "lower", "upper", "chain") for n in range(2, top) for k in range(1, n) if n - k <= 2]
    yield from run_enum(binary, specs, "enumerated-draw-tuples")
    from .stat_oracle import run_stat, samples_for
    specs = []
    for h in (None, "filter", "none", "lower", "chain"):
        for (n, k) in ((3, 1), (4, 2), (6, 3), (7, 2)) if tier == "quick" else ((2, 1), (3, 1), (3, 2), (4, 2), (5, 2), (6, 3), (7, 2), (8, 4), (9, 1), (10, 3)):
            specs.append(("multi", n, k, samples_for("multi", n, k, tier), rng.u64(), h, rng.choice(["xoshiro", "splitmix", "wyrand", "chacha8"])))
    yield from run_stat(binary, specs, "frequency-test-samples", build)
    # exact preimage counts of the replacement draw (and of the draw after a rejected word), by interval search over all 2^64 words:
    # n items into k = n-1 slots - the last item replaces slot j or none, j uniform in 0..n-1
    from .preimage_oracle import first_draw_counts
    from .oracles import parse_ok
    ps = []
    for n in (3, 5, 6):
        items = ",".join(map(str, range(n)))
        buf = ",".join(["77"] * (n - 1))
        def which(res, n=n):
            f = parse_ok(res)
            if f is None or len(f) < 2:
                return None
            got = f[1].split(",")
            j = [i for i, x in enumerate(got) if x == str(n - 1)]
            return j[0] if j else n - 1
        ps.append(("multiple(%d items, %d slots): slot taken by the last item" % (n, n - 1), n, 64,
                   (lambda w, items=items, buf=buf: "multi items=%s buf=%s words=%d" % (items, buf, w)), which,
                   (lambda w1, w2, items=items, buf=buf: "multi items=%s buf=%s words=%d,%d" % (items, buf, w1, w2))))
    yield from first_draw_counts(binary, build, rng, ps, "preimage-interval-probes")
