"""development helper: validates the software IEEE model against hardware (not a registered check)"""
from . import gen_float as G
LEAN_MODULE = "Urandom.Model.IEEE"
def generate(r, tier, build):
    return G.fp_requests(r, 20000) + G.ufloat_requests(r, 3000, "debug") + G.zig_requests(r, 2000) + G.dist_requests(r, 3000)
def corpus(build): return []
def classify(req, model): return req.split()[0]
