"""Request generators for the floating-point streams."""
import os, re, struct
from . import common as C
from .gen_int import clz_word

M64 = C.M64


def f64b(x):
    return struct.unpack("<Q", struct.pack("<d", x))[0]


def b64f(b):
    return struct.unpack("<d", struct.pack("<Q", b & M64))[0]


def f32b(x):
    try:
        return struct.unpack("<I", struct.pack("<f", x))[0]
    except OverflowError:
        return 0x7F800000 if x > 0 else 0xFF800000


def b32f(b):
    return struct.unpack("<f", struct.pack("<I", b & 0xFFFFFFFF))[0]


SPECIAL64 = [0, 1 << 63, 1, (1 << 63) | 1, 0x000FFFFFFFFFFFFF, 0x0010000000000000, 0x3FF0000000000000, 0xBFF0000000000000, 0x3FEFFFFFFFFFFFFF,
             0x3FF0000000000001, 0x4000000000000000, 0x7FEFFFFFFFFFFFFF, 0xFFEFFFFFFFFFFFFF, 0x7FF0000000000000, 0xFFF0000000000000, 0x7FF8000000000000,
             0x7FF0000000000001, 0xFFF8000000000000, 0x3FE0000000000000, 0x4008000000000000, 0x4340000000000000, 0x3CA0000000000000, 0x3CB0000000000000]
SPECIAL32 = [0, 1 << 31, 1, (1 << 31) | 1, 0x007FFFFF, 0x00800000, 0x3F800000, 0xBF800000, 0x3F7FFFFF, 0x3F800001, 0x40000000, 0x7F7FFFFF, 0xFF7FFFFF,
             0x7F800000, 0xFF800000, 0x7FC00000, 0x7F800001, 0xFFC00000, 0x3F000000, 0x40400000, 0x4B000000, 0x33800000, 0x34000000]


def raw_float_literals():
    """the float literals of the current non-test source, as values"""
    import re, os
    from . import harvest
    vals = set()
    for root, _, files in os.walk(os.path.join(C.REPO, "src")):
        for f in files:
            if f.endswith(".rs") and f != "ziggurat_tables.rs":
                src = harvest.strip_comments(open(os.path.join(root, f), errors="replace").read())
                for m in re.finditer(r"(?<![\w.])([0-9][0-9_]*\.[0-9][0-9_]*(?:[eE][+-]?[0-9]+)?|[0-9][0-9_]*[eE][+-]?[0-9]+|[0-9][0-9_]*\.(?![\w.]))(?:_?f(?:32|64))?", src):
                    try:
                        vals.add(float(m.group(1).replace("_", "")))
                    except ValueError:
                        pass
    return sorted(vals)


def harvested_floats(w):
    """float literals of the current source (and their negatives, neighbours) as bit patterns of width w"""
    import struct, re, os
    from . import harvest
    key = "_f%d" % w
    if not hasattr(harvested_floats, key):
        vals = set()
        for root, _, files in os.walk(os.path.join(C.REPO, "src")):
            for f in files:
                if f.endswith(".rs") and f != "ziggurat_tables.rs":
                    src = harvest.strip_comments(open(os.path.join(root, f), errors="replace").read())
                    for m in re.finditer(r"(?<![\w.])([0-9][0-9_]*\.[0-9][0-9_]*(?:[eE][+-]?[0-9]+)?|[0-9][0-9_]*[eE][+-]?[0-9]+|[0-9][0-9_]*\.(?![\w.]))(?:_?f(?:32|64))?", src):
                        try:
                            vals.add(float(m.group(1).replace("_", "")))
                        except ValueError:
                            pass
        out = set()
        for x in vals:
            for y in (x, -x, 1 / x if x else 0.0, x * x, x / 2, 2 * x):
                try:
                    b = f64b(y) if w == 64 else f32b(y)
                except (OverflowError, struct.error):
                    continue
                for d in (-1, 0, 1):
                    out.add((b + d) & ((1 << w) - 1))
        setattr(harvested_floats, key, sorted(out))
    return getattr(harvested_floats, key)


def any_f(r, w):
    """a bit pattern of every class, edge biased"""
    k = r.below(13)
    if k == 12:
        hv = harvested_floats(w)
        if hv:
            return hv[r.below(len(hv))]
        k = 11
    if w == 64:
        if k < 3:
            return r.choice(SPECIAL64)
        if k < 6:   # moderate exponents
            return (r.below(2) << 63) | ((1023 - 40 + r.below(80)) << 52) | r.choice([0, 1, (1 << 52) - 1, r.bits(52), r.bits(52) & ~((1 << r.below(52)) - 1)])
        if k < 7:   # subnormal / tiny
            return (r.below(2) << 63) | (r.below(3) << 52) | r.bits(52)
        if k < 8:   # huge
            return (r.below(2) << 63) | ((2043 + r.below(4)) << 52) | r.bits(52)
        return r.bits(64)
    else:
        if k < 3:
            return r.choice(SPECIAL32)
        if k < 6:
            return (r.below(2) << 31) | ((127 - 30 + r.below(60)) << 23) | r.choice([0, 1, (1 << 23) - 1, r.bits(23), r.bits(23) & ~((1 << r.below(23)) - 1)])
        if k < 7:
            return (r.below(2) << 31) | (r.below(3) << 23) | r.bits(23)
        if k < 8:
            return (r.below(2) << 31) | ((251 + r.below(4)) << 23) | r.bits(23)
        return r.bits(32)


def finite_f(r, w):
    while True:
        b = any_f(r, w)
        e = (b >> (52 if w == 64 else 23)) & (0x7FF if w == 64 else 0xFF)
        if e != (0x7FF if w == 64 else 0xFF):
            return b


def fp_requests(r, n):
    reqs = []
    for _ in range(n):
        w = r.choice([32, 64])
        op = r.choice(["add", "sub", "mul", "div", "fma", "sqrt", "lt", "le", "eq", "add", "mul", "div", "fma"])
        a, b, c = any_f(r, w), any_f(r, w), any_f(r, w)
        k = r.below(10)
        if k == 0:
            b = a
        elif k == 1:
            b = a ^ (1 << (w - 1))
        elif k == 2 and op in ("add", "sub", "fma"):   # near cancellation / ties
            b = (a + r.choice([1, -1, 2])) & ((1 << w) - 1)
        if op == "fma" and r.chance(1, 3):
            # product close to -c: exercises the single rounding
            if w == 64:
                c = f64b(-(b64f(a) * b64f(b))) if b64f(a) * b64f(b) == b64f(a) * b64f(b) else c
            else:
                c = f32b(-(b32f(a) * b32f(b))) if abs(b32f(a) * b32f(b)) < 3e38 else c
        reqs.append("fp op=%s w=%d a=%d b=%d c=%d" % (op, w, a, b, c))
    for _ in range(n // 10):
        reqs.append("fp op=cvt w=64 a=%d" % (r.choice([any_f(r, 64), f64b(b32f(finite_f(r, 32))) + r.choice([0, 1, -1, 1 << 28, (1 << 28) + 1, (1 << 28) - 1])]) & M64))
        reqs.append("fp op=ofnat w=%d a=%d" % (r.choice([32, 64]), r.choice([0, 1, 2, 3, (1 << 53) + 1, (1 << 24) + 1, r.edge64()])))
    return reqs


def unit_word(r, w):
    """a word whose next_f32/f64 is a chosen unit float: extremes and random"""
    k = r.below(6)
    if k == 0:
        return 0
    if k == 1:
        return M64
    if k == 2:
        return r.choice([1 << 12, (1 << 12) - 1, 1 << 9, (1 << 9) - 1, 1 << 63, (1 << 63) - 1, M64 - (1 << 12), M64 - (1 << 9)])
    return r.u64()


def ufloat_requests(r, n, profile):
    reqs = []
    for _ in range(n):
        w = r.choice([32, 64])
        k = r.below(12)
        fb, bf = (f64b, b64f) if w == 64 else (f32b, b32f)
        if k == 0:
            lo = hi = finite_f(r, w)
        elif k == 1:   # nearly equal bounds
            lo = finite_f(r, w) & ~(1 << (w - 1))
            hi = lo + r.range(1, 4)
        elif k == 2:   # far from zero relative to their distance (D2 territory)
            base = r.choice([100.0, 1e6, 1e15, -1e9, 3.0, 1e-3, 12345.678])
            lo, hi = fb(base), fb(base + r.choice([1.0, 0.5, 1e-3, 3.0, base * 1e-7 + 1e-9]))
        elif k == 3:   # hugely different magnitudes
            lo, hi = fb(r.choice([0.1, 1e-300 if w == 64 else 1e-30, 0.0, -0.0, 1.0])), fb(r.choice([1e16, 1e300 if w == 64 else 1e30, 1e8]))
        elif k == 4:   # reversed
            a, b = finite_f(r, w), finite_f(r, w)
            lo, hi = (a, b) if bf(a) >= bf(b) else (b, a)
        elif k == 5:   # overflowing difference (finite bounds)
            lo, hi = fb(-1e308 if w == 64 else -3e38), fb(0.5e308 if w == 64 else 1.5e38)
        elif k == 6:   # subnormal / tiny bounds
            lo, hi = r.below(1 << 20), r.below(1 << 20) + r.below(1 << 21)
        elif k == 7:   # non-finite inputs
            lo, hi = any_f(r, w), r.choice(SPECIAL64[-10:-4] if w == 64 else SPECIAL32[-10:-4])
        else:
            lo, hi = finite_f(r, w), finite_f(r, w)
        cnt = r.range(1, 3)
        words = [unit_word(r, w) for _ in range(cnt)]
        reqs.append("ufloat w=%d lo=%d hi=%d via=%s profile=%s n=%d words=%s" % (w, lo, hi, r.choice(["try", "try", "incl", "new", "range"]), profile, cnt, ",".join(map(str, words))))
    return reqs


# ---- ziggurat -----------------------------------------------------------------------------

_TABLES = None


def tables():
    global _TABLES
    if _TABLES is None:
        src = open(os.path.join(C.REPO, "src/distr/ziggurat_tables.rs")).read()
        src = re.sub(r"//[^\n]*", "", src)
        t = {}
        for m in re.finditer(r"pub\s+static\s+(ZIG_\w+)\s*:\s*\[\s*f64\s*;\s*\d+\s*\]\s*=\s*\[([^\]]*)\]", src):
            t[m.group(1)] = [float(x) for x in m.group(2).split(",") if x.strip()]
        _TABLES = t
    return _TABLES


def zig_bits(i, mant, junk):
    return ((mant & ((1 << 52) - 1)) << 12) | ((junk & 0xF) << 8) | (i & 0xFF)


def zig_word(r, kind, i=None, region=None):
    """a first word for layer i aiming at a region: 'rect', 'edge' (around the rectangle threshold), 'wedge', 'max'"""
    t = tables()
    X = t["ZIG_NORM_X"] if kind == "norm" else t["ZIG_EXP_X"]
    if i is None:
        i = r.below(256)
    region = region or r.choice(["rect", "edge", "edge", "wedge", "max", "zero"])
    ratio = X[i + 1] / X[i] if len(X) > i + 1 and X[i] else 0.5
    if region == "rect":
        au = ratio * r.below(1000) / 1001.0
    elif region == "edge":
        au = ratio
    elif region == "wedge":
        au = ratio + (1 - ratio) * (1 + r.below(998)) / 1000.0
    elif region == "max":
        au = 1.0
    else:
        au = 0.0
    if kind == "norm":
        sign = r.choice([1, -1])
        u = sign * au
        m = int((u + 1.0) * (1 << 51))
    else:
        m = int(au * (1 << 52))
    if region == "edge":
        m += r.range(-3, 3)
    m = max(0, min((1 << 52) - 1, m))
    return zig_bits(i, m, r.below(16))


def f01_words(r):
    k = r.below(6)
    if k == 0:
        return [0, 0]                      # smallest Float01: ln is about -45
    if k == 1:
        return [M64, M64]                  # largest Float01
    if k == 2:
        return [clz_word(r, r.below(66)), r.edge64()]
    return [r.u64(), r.u64()]


def zig_stream(r, kind, samples):
    words = []
    for _ in range(samples):
        for attempt in range(r.range(1, 3)):
            words.append(zig_word(r, kind))
            words += f01_words(r)
            if r.chance(1, 4):
                words += f01_words(r) + f01_words(r)
        words.append(zig_word(r, kind, region="rect"))
    if r.chance(1, 25):
        words = words[: r.below(len(words) + 1)]
    return words


def zig_requests(r, n):
    reqs = []
    for kind in ("norm", "exp"):
        for i in range(256):   # every layer, every region
            for region in ("rect", "edge", "wedge", "max"):
                ws = [zig_word(r, kind, i, region)] + f01_words(r) + f01_words(r) + f01_words(r) + [zig_word(r, kind, region="rect")] + f01_words(r)
                reqs.append("zig kind=%s w=64 n=1 words=%s" % (kind, ",".join(map(str, ws))))
    for _ in range(n):
        kind = r.choice(["norm", "exp"])
        cnt = r.range(1, 3)
        reqs.append("zig kind=%s w=%d n=%d words=%s" % (kind, r.choice([32, 64]), cnt, ",".join(map(str, zig_stream(r, kind, cnt)))))
    # the tails, driven hard
    for _ in range(n // 4):
        kind = r.choice(["norm", "exp"])
        ws = [zig_word(r, kind, 0, r.choice(["wedge", "max", "edge"]))]
        for _ in range(r.range(1, 6)):
            ws += f01_words(r)
        ws += [zig_word(r, kind, region="rect")]
        reqs.append("zig kind=%s w=%d n=1 words=%s" % (kind, r.choice([32, 64]), ",".join(map(str, ws))))
    return reqs


def param(r, w):
    return any_f(r, w)


def dist_requests(r, n):
    reqs = []
    for _ in range(n):
        w = r.choice([32, 64])
        fb = f64b if w == 64 else f32b
        kind = r.choice(["expd", "norm", "norm", "lnorm", "lnorm"])
        via = r.choice(["try", "try", "try", "new"])
        cnt = r.range(1, 2)
        words = ",".join(map(str, zig_stream(r, "exp" if kind == "expd" else "norm", cnt)))
        if kind == "expd":
            lam = r.choice([param(r, w), fb(r.choice([0.0, -0.0, 1.0, 2.5, 1e-300, 1e300, -1.0]))])
            reqs.append("expd w=%d lambda=%d via=%s n=%d words=%s" % (w, lam, via, cnt, words))
            continue
        ctor = r.choice(["new", "cv"])
        a = r.choice([param(r, w), fb(r.choice([0.0, -0.0, 1.0, -1.0, 10.0, 1e200 if w == 64 else 1e20, 1e-200 if w == 64 else 1e-20, float("inf"), -float("inf")]))])
        b = r.choice([param(r, w), fb(r.choice([0.0, -0.0, 1.0, 0.5, 2.0, 1e200 if w == 64 else 1e20, 1e-5, float("inf"), -1.0]))])
        z = ""
        if r.chance(1, 4):
            z = " z=%d" % param(r, w)
        reqs.append("%s w=%d ctor=%s a=%d b=%d via=%s n=%d%s words=%s" % (kind, w, ctor, a, b, via, cnt, z, words))
    return reqs
