"""Request generators for the integer / sequence / standard-distribution streams.

Boundary-directed cases come from the theorems: for a range of size r over an L-bit word
(B = 2^L) value m is produced exactly by the words in [v0(m), v0(m) + B//r), where
v0(m) = ceil((m*B + B % r) / r); the words in [ceil(m*B/r), v0(m)) are rejected.
"""
from . import common as C

TYPES = {  # name: (value bits, word bits, signed)
    "i8": (8, 32, True), "u8": (8, 32, False), "i16": (16, 32, True), "u16": (16, 32, False),
    "i32": (32, 64, True), "u32": (32, 64, False), "i64": (64, 64, True), "u64": (64, 64, False),
    "isize": (64, 64, True), "usize": (64, 64, False),
}


def tmin(b, s):
    return -(1 << (b - 1)) if s else 0


def tmax(b, s):
    return (1 << (b - 1)) - 1 if s else (1 << b) - 1


def v0(m, r, B):
    return -(-(m * B + B % r) // r)


def word_for(r, L, m, kind, rng):
    """A word value (< 2^L) realising: kind 'lo'/'hi' = first/last accepted word for m,
    'below' = v0-1, 'above' = v0+q, 'rej' = a rejected word for m (if any), 'rand' = random accepted."""
    B = 1 << L
    q = B // r
    a = v0(m, r, B)
    if kind == "lo":
        return a
    if kind == "hi":
        return a + q - 1
    if kind == "below":
        return (a - 1) % B
    if kind == "above":
        return (a + q) % B
    if kind == "rej":
        first = -(-(m * B) // r)
        return first if first < a else a
    return a + rng.below(q)


def pad_word(v, L, rng):
    """The Mock truncates a word for 32-bit draws: fill the unused high half with noise."""
    if L == 32:
        return (rng.bits(32) << 32) | v
    return v


def accepted_word(r, L, rng):
    """some word that is accepted for range r (r = 0: any)"""
    if r == 0:
        return rng.bits(L)
    return word_for(r, L, rng.below(r), "rand", rng)


def random_range(rng, b, s):
    lo_t, hi_t = tmin(b, s), tmax(b, s)
    k = rng.below(12)
    if k == 0:  # full type
        return lo_t, hi_t, 1
    if k == 1:  # one value wide
        v = rng.range(lo_t, hi_t - 1)
        return (v, v, 1) if rng.chance(1, 2) else (v, v + 1, 0)
    if k == 2 and s:  # crossing the sign boundary
        return -rng.range(1, min(-lo_t, 1000)), rng.range(0, min(hi_t, 1000)), rng.below(2)
    if k == 3:  # empty / reversed
        j = rng.below(4)
        if j == 0:   # the wrap-around corners: an exclusive range ending at the type's minimum, an inclusive one starting above its maximum's predecessor
            return rng.choice([lo_t, lo_t + 1, 0, hi_t, rng.range(lo_t, hi_t)]), lo_t, 0
        if j == 1:   # equal bounds, exclusive: empty
            v = rng.choice([lo_t, hi_t, 0, rng.range(lo_t, hi_t)])
            return v, v, 0
        if j == 2:   # reversed by one
            v = rng.range(lo_t + 1, hi_t)
            return v, v - 1, rng.below(2)
        v = rng.range(lo_t, hi_t)
        w = rng.range(lo_t, hi_t)
        lo, hi = max(v, w), min(v, w)
        return lo, hi, rng.below(2)
    if k == 4:  # touching the type's ends
        return lo_t, rng.range(lo_t, hi_t), rng.below(2)
    if k == 5:
        return rng.range(lo_t, hi_t), hi_t, rng.below(2)
    if k == 6:  # small ranges
        lo = rng.range(lo_t, hi_t - 40)
        return lo, lo + rng.range(1, 40), rng.below(2)
    if k == 7:  # ranges around half of the type (worst rejection rate)
        span = (1 << (b - 1)) + rng.range(-2, 2)
        lo = rng.range(lo_t, hi_t - span)
        return lo, lo + span, rng.below(2)
    if k == 8:  # power-of-two sized
        span = 1 << rng.below(b)
        lo = rng.range(lo_t, hi_t - span)
        return lo, lo + span, 0
    a = rng.range(lo_t, hi_t)
    c = rng.range(lo_t, hi_t)
    return min(a, c), max(a, c), rng.below(2)


def uint_requests(rng, n):
    reqs = []
    names = list(TYPES)
    for _ in range(n):
        ty = rng.choice(names)
        b, L, s = TYPES[ty]
        lo, hi, incl = random_range(rng, b, s)
        via = rng.choice(["try", "try", "sampler", "utrait", "new", "from", "range", "serde", "serdesampler"])
        empty = lo > hi if incl else lo >= hi
        r = 0 if empty else ((hi - lo + (1 if incl else 0)) % (1 << b))
        nsamp = rng.range(1, 3)
        words = []
        for _ in range(nsamp):
            if r == 0:
                words.append(pad_word(rng.edge64() % (1 << L), L, rng))
                continue
            m = rng.choice([0, r - 1, rng.below(r), rng.below(r)])
            kinds = rng.choice([["lo"], ["hi"], ["below", "lo"], ["above", "rand"], ["rej", "rand"], ["rej", "rej", "hi"], ["rand"]])
            for k in kinds:
                words.append(pad_word(word_for(r, L, m, k, rng), L, rng))
        # a couple of spare accepted words so that a rejected boundary word does not always end in a panic
        for _ in range(rng.below(3)):
            words.append(pad_word(accepted_word(r, L, rng), L, rng))
        if rng.chance(1, 30):
            words = words[: rng.below(len(words) + 1)]
        reqs.append("uint ty=%s lo=%d hi=%d incl=%d via=%s n=%d words=%s" % (ty, lo, hi, incl, via, nsamp, ",".join(map(str, words))))
    return reqs


def index_words(rng, lens):
    """words that make successive `index(len)` calls return chosen values (with some rejections mixed in)"""
    words, ks = [], []
    for ln in lens:
        if ln == 0:
            w = rng.edge64()
            words.append(w)
            ks.append(w)
            continue
        k = rng.choice([0, ln - 1, rng.below(ln), rng.below(ln)])
        if rng.chance(1, 6):
            words.append(word_for(ln, 64, k, "rej", rng))
        words.append(word_for(ln, 64, k, rng.choice(["lo", "hi", "rand"]), rng))
        ks.append(k)
    return words, ks


def index_requests(rng, n):
    reqs = []
    for _ in range(n):
        ln = rng.choice([0, 1, 2, 3, 7, rng.below(100), rng.below(1 << 20), rng.edge64(), (1 << 63) + rng.below(5), C.M64])
        cnt = rng.range(1, 3)
        words, _ = index_words(rng, [ln] * cnt)
        if rng.chance(1, 6):
            words = [rng.edge64() for _ in range(cnt + 1)]
        reqs.append("index len=%d n=%d words=%s" % (ln, cnt, ",".join(map(str, words))))
    return reqs


def dice_requests(rng, n):
    reqs = []
    for _ in range(n):
        kind = rng.choice(["D4", "D6", "D8", "D10", "D20", "new", "new"])
        sides = rng.choice([0, 1, 2, 6, 100, 255, rng.below(256)])
        r = {"D4": 4, "D6": 6, "D8": 8, "D10": 10, "D20": 20}.get(kind, sides)
        cnt = rng.range(1, 4)
        words = []
        for _ in range(cnt):
            if r == 0:
                words.append(rng.edge64())
            else:
                m = rng.choice([0, r - 1, rng.below(r)])
                for k in rng.choice([["lo"], ["hi"], ["rej", "rand"], ["below", "above", "rand"]]):
                    words.append(pad_word(word_for(r, 32, m, k, rng), 32, rng))
        reqs.append("dice kind=%s sides=%d n=%d words=%s" % (kind, sides, cnt, ",".join(map(str, words))))
    return reqs


def items(rng, n, distinct=True):
    if distinct:
        base = rng.below(1000)
        return [base + i for i in range(n)]
    return [rng.below(4) for _ in range(n)]


def seq_len(rng):
    k = rng.below(10)
    if k < 4:
        return rng.below(5)
    if k < 9:
        return rng.below(25)
    return rng.below(300)


def shuf_requests(rng, n):
    reqs = []
    for _ in range(n):
        ln = seq_len(rng)
        its = items(rng, ln, rng.chance(5, 6))
        words, _ = index_words(rng, list(range(ln, 1, -1)))
        if rng.chance(1, 12):
            words = words[: rng.below(len(words) + 1)]
        else:
            words += [rng.u64() for _ in range(rng.below(3))]
        reqs.append("shuf items=%s words=%s" % (",".join(map(str, its)), ",".join(map(str, words))))
    return reqs


def pshuf_requests(rng, n):
    reqs = []
    for _ in range(n):
        ln = seq_len(rng)
        its = items(rng, ln, rng.chance(5, 6))
        m = rng.choice([0, 1, ln - 1 if ln else 0, ln, ln + 1, rng.below(ln + 3), C.M64])
        steps = min(m, ln - 1) if ln > 1 else 0
        words = []
        for i in range(steps):
            r = ln - i
            k = rng.choice([0, r - 1, rng.below(r)])
            if rng.chance(1, 6):
                words.append(word_for(r, 64, k, "rej", rng))
            words.append(word_for(r, 64, k, rng.choice(["lo", "hi", "rand"]), rng))
        if rng.chance(1, 12):
            words = words[: rng.below(len(words) + 1)]
        else:
            words += [rng.u64() for _ in range(rng.below(3))]
        reqs.append("pshuf items=%s m=%d words=%s" % (",".join(map(str, its)), m, ",".join(map(str, words))))
    return reqs


def choose_requests(rng, n):
    reqs = []
    for _ in range(n):
        ln = rng.choice([0, 0, 1, 2, rng.below(40)])
        its = items(rng, ln)
        words, _ = index_words(rng, [ln])
        words += [rng.u64() for _ in range(rng.below(2))]
        if rng.chance(1, 15):
            words = []
        reqs.append("choose items=%s via=%s words=%s" % (",".join(map(str, its)), rng.choice(["choose", "choose_mut"]), ",".join(map(str, words))))
    return reqs


def multi_requests(rng, n, fixed_bug_bound=None):
    reqs = []
    for _ in range(n):
        nn = rng.choice([0, 1, 2, 3, rng.below(31)])
        k = rng.choice([0, 1, 2, nn, nn + 1, rng.below(36)])
        its = items(rng, nn)
        buf = [5000 + j for j in range(k)]
        lens = [i + 1 for i in range(k, nn)]
        words = []
        for ln in lens:
            kk = rng.choice([0, ln - 1, rng.below(ln), k - 1 if 0 < k <= ln else 0, k if k < ln else 0])
            if rng.chance(1, 8):
                words.append(word_for(ln, 64, kk, "rej", rng))
            words.append(word_for(ln, 64, kk, rng.choice(["lo", "hi", "rand"]), rng))
        words += [rng.u64() for _ in range(rng.below(2))]
        if rng.chance(1, 15):
            words = words[: rng.below(len(words) + 1)]
        # what the callee can learn from size_hint must not matter: the same collection behind differently hinted iterators
        hint = rng.choice(["", "", " hint=filter", " hint=none", " hint=lower", " hint=upper", " hint=exact", " hint=vec", " hint=chain"])
        reqs.append("multi items=%s buf=%s%s words=%s" % (",".join(map(str, its)), ",".join(map(str, buf)), hint, ",".join(map(str, words))))
    return reqs


STD_TYPES = ["bool", "coin", "i8", "u8", "i16", "u16", "i32", "u32", "i64", "u64", "i128", "u128", "isize", "usize", "wi16", "wu64",
             "f32", "f64", "char", "char", "nz8", "nz16", "nz32", "nz64", "nz128", "nzsize",
             "t0", "t1", "t2", "t3", "t5", "t12", "a0u8", "a1u8", "a5u16", "a7i64", "a3u128", "a4bool", "a2t", "fill5u16", "sample_i32"]


def std_word(rng, ty):
    k = rng.below(8)
    if ty.startswith("nz") and k < 3:
        # values that truncate to zero for the narrow types
        return rng.choice([0, 1 << 8, 1 << 16, 1 << 32, 0xFFFFFF00, 0xFFFF0000, (rng.bits(32) << 32)])
    if ty == "char" or ty == "t5":
        r = 0x110000 - 0x800
        if k < 5:
            cp = rng.choice([0x800, 0x801, 0xDFFF, 0xE000, 0xE001, 0xD7FF + 0x800, 0xD800 + 0x800 - 1, 0x10FFFF, 0x10FFFE, 0x800 + rng.below(r)])
            m = cp - 0x800
            return word_for(r, 64, m, rng.choice(["lo", "hi", "rand", "rej"]), rng)
    return rng.edge64()


def std_requests(rng, n, profile="debug"):
    reqs = []
    for _ in range(n):
        ty = rng.choice(STD_TYPES)
        cnt = rng.range(1, 3)
        words = [std_word(rng, ty) for _ in range(rng.range(0, 30) if ty[0] in "ta" or ty.startswith("fill") else rng.range(1, 8))]
        reqs.append("std ty=%s n=%d profile=%s words=%s" % (ty, cnt, profile, ",".join(map(str, words))))
    return reqs


def alnum_requests(rng, n):
    reqs = []
    # all 64 six-bit indices, exhaustively, with both extremes of the unused 26 low bits
    for idx in range(64):
        for low in (0, (1 << 26) - 1):
            w = (rng.bits(32) << 32) | (idx << 26) | low
            reqs.append("alnum n=1 words=%d,%d" % (w, (rng.below(62) << 26)))
    for _ in range(n):
        cnt = rng.range(1, 5)
        words = [(rng.bits(32) << 32) | (rng.below(64) << 26) | rng.bits(26) for _ in range(cnt + rng.below(4))]
        reqs.append("alnum n=%d words=%s" % (cnt, ",".join(map(str, words))))
    return reqs


def clz_word(rng, k):
    """a 64-bit word with exactly k leading zeros"""
    if k >= 64:
        return 0
    top = 1 << (63 - k)
    return top | rng.choice([0, top - 1, rng.bits(63 - k) if k < 63 else 0])


def f01_requests(rng, n):
    reqs = []
    for k in range(65):       # every leading-zero class, both widths
        for w in (32, 64):
            m = rng.choice([0, C.M64, rng.u64()])
            reqs.append("f01 w=%d n=1 words=%d,%d" % (w, clz_word(rng, k), m))
    for _ in range(n):
        w = rng.choice([32, 64])
        cnt = rng.range(1, 3)
        words = []
        for _ in range(cnt):
            words += [clz_word(rng, rng.below(66)), rng.edge64()]
        if rng.chance(1, 20):
            words = words[:-1]
        via = "float01" if (w == 64 and rng.chance(1, 3)) else "sample"
        reqs.append("f01 w=%d via=%s n=%d words=%s" % (w, via, cnt, ",".join(map(str, words))))
    return reqs


def f01_bits64(w1, w2):
    clz = 64 if w1 == 0 else 63 - (w1.bit_length() - 1)
    return ((1022 - clz) << 52) | (w2 >> 12)


def bern_p(rng, words):
    """p values of every class, including exactly the Float01 value the words give and its neighbours"""
    k = rng.below(14)
    special = [0, 1 << 63, 1, (1 << 63) | 1, 0x000FFFFFFFFFFFFF, 0x0010000000000000, 0x3FEFFFFFFFFFFFFF, 0x3FF0000000000000,
               0x3FF0000000000001, 0x4000000000000000, 0x7FF0000000000000, 0xFFF0000000000000, 0x7FF8000000000000, 0xFFF8000000000000,
               0x7FF0000000000001, 0x3FE0000000000000, 0xBFE0000000000000, 0xBFF0000000000000, 0x3BF0000000000000, 0x3BE0000000000000, 0x3BDFFFFFFFFFFFFF]
    if k < 4:
        return rng.choice(special)
    if k < 9 and len(words) >= 2:
        f = f01_bits64(words[0], words[1])
        return (f + rng.choice([-1, 0, 0, 1])) & C.M64
    if k < 11:
        return (rng.range(958, 1023) << 52) | rng.bits(52)
    return rng.edge64()


def bern_requests(rng, n):
    reqs = []
    for _ in range(n):
        cnt = rng.range(1, 2)
        words = []
        for _ in range(cnt):
            words += [clz_word(rng, rng.choice([0, 0, 1, 2, rng.below(66)])), rng.edge64()]
        p = bern_p(rng, words)
        reqs.append("bern p=%d via=%s n=%d words=%s" % (p, rng.choice(["chance", "sample"]), cnt, ",".join(map(str, words))))
    return reqs


def single_requests(rng, n):
    """Random::single with exact, inexact and missing size hints; the reservoir path draws a Float01 (two words) per item"""
    from .gen_int import clz_word
    reqs = []
    for _ in range(n):
        ln = rng.choice([0, 0, 1, 2, 3, rng.below(12), rng.below(41)])
        its = items(rng, ln)
        hint = rng.choice(["slice", "vec", "exact", "lower", "upper", "filter", "none", "none"])
        exact = hint in ("slice", "vec", "exact") or (hint in ("upper", "filter") and ln == 0)
        if exact:
            words, _ = index_words(rng, [ln])
        else:
            words = []
            for i in range(ln):
                # Float01 vs 1/(i+1): make the comparison go both ways, incl. the exact threshold
                k = rng.below(5)
                if k == 0:
                    words += [C.M64, C.M64]                      # just below 1: only item 0 takes it
                elif k == 1:
                    words += [0, 0]                              # tiny: always taken
                else:
                    words += [clz_word(rng, rng.below(8)), rng.edge64()]
        words += [rng.u64() for _ in range(rng.below(2))]
        if rng.chance(1, 15):
            words = words[: rng.below(len(words) + 1)]
        reqs.append("single hint=%s items=%s words=%s" % (hint, ",".join(map(str, its)), ",".join(map(str, words))))
    return reqs


# ---------------------------------------------------------------------------------------------------------------------
# structured internal states of the 64-bit Weyl generators (SplitMix64, Wyrand): the state after `draws` steps and `jumps` jumps is a
# chosen word with zero / all-ones 32-bit halves, single bits, or one of the source's own constants xor such a word - the operand
# classes of the multiplications and carry chains in the output functions.  The seed is obtained by running the Weyl sequence backwards.
WEYL = {"splitmix": 0x9e3779b97f4a7c15, "wyrand": 0x2d358dccaa6c78a5}
WY_P1 = 0x8bb84b93962eacc9


def structured_word(rng, gen):
    x = rng.bits(32)
    k = rng.below(64)
    base = rng.choice([0, 1, C.M64, x << 32, x, (x << 32) | 0xFFFFFFFF, 0xFFFFFFFF00000000 | x, 1 << k, C.M64 ^ (1 << k), 1 << 63, (1 << 63) - 1,
                       0xFFFFFFFF, 0xFFFFFFFF00000000, 0x100000000, 0x80000000, rng.bits(16), rng.bits(16) << 48])
    if gen == "wyrand" and rng.chance(1, 2):
        base ^= WY_P1        # makes the first multiplication operand (state ^ P1) the structured word
    return base & C.M64


def weyl_seed_for(rng, gen, draws, jumps):
    """(seed, target): after `draws` single steps and `jumps` jumps from `seed` the state is `target`"""
    inc = WEYL[gen]
    t = structured_word(rng, gen)
    return (t - draws * inc - jumps * (inc << 40)) & C.M64, t


def literal_sweep(ops_word, ops_chacha=None, empty_too=False):
    """deterministic requests that put every raw literal L of the current source (vlib/harvest.py), L-1 and L+1 into every role of the
    word-generator streams: as the seed of each generator, as the Weyl state at the first draw and at / after a jump, as each word of an
    injected Xoshiro256 state, and (optionally) as a ChaCha seed.  A guard keyed on a literal is then exercised for sure."""
    from . import harvest
    reqs = []
    for L0 in harvest.literals(C.REPO):
        for L in ((L0 - 1) & C.M64, L0, (L0 + 1) & C.M64):
            for gen in ("xoshiro", "splitmix", "wyrand"):
                reqs.append("word gen=%s seed=%d via=from_seed ops=%s" % (gen, L, ops_word))
                if empty_too:
                    reqs.append("word gen=%s seed=%d via=from_seed ops=" % (gen, L))
            for gen, inc in WEYL.items():
                for back in (inc, inc << 40, inc + (inc << 40), 2 * inc):
                    reqs.append("word gen=%s seed=%d via=from_seed ops=%s" % (gen, (L - back) & C.M64, ops_word))
            for pos in range(4):
                st = [0, 0, 0, 0]
                st[pos] = L
                reqs.append("word gen=xoshiro state=%s via=serde ops=%s" % (",".join(map(str, st)), ops_word))
            reqs.append("word gen=xoshiro state=%d,%d,%d,%d via=serde ops=%s" % (L, L, L, L, ops_word))
            if ops_chacha is not None:
                reqs.append("chacha n=12 seed=%d ops=%s" % (L, ops_chacha))
    return reqs


_STRUCTURED = {}


def structured_xoshiro_seeds(tier="quick"):
    """seeds whose DOCUMENTED Xoshiro256 expansion has two structured state words at once (sparse / dense / leading or trailing zeros), found by
    the harness's own inversion of the published SplitMix64 (`seedfind`; deterministic): the inputs on which a seeding routine with a "quality"
    guard over two state words differs from the published expansion; plus the seeds with the lightest and the heaviest whole 256-bit state
    (one word of weight <= 5 or >= 59 enumerated exhaustively in each position: reaches beyond 8 sigma of the weight distribution)"""
    if tier not in _STRUCTURED:
        rc, err, binary = C.harness_build("release")
        if rc != 0:
            return []
        iters = 50_000_000 if tier == "quick" else 1_000_000_000
        rc, out, err = C.run_lines(binary, ["run"], ["seedfind iters=%d seed=20260926 max=%d" % (iters, 3 if tier == "quick" else 8)])
        _STRUCTURED[tier] = [int(x) for x in out[0].split()[0][6:].split(",") if x] if out and out[0].startswith("seeds:") else []
    return _STRUCTURED[tier]
