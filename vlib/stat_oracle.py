"""Statistical violation search on the IMPLEMENTATION under a real generator (harness `stat`): outcome frequencies of
single / choose / multiple / shuffle / partial_shuffle / index must be compatible with the uniform distribution over the
outcomes the property names.  Model-free and sound for any implementation up to the stated error probability: an alarm is
raised only when Pearson's statistic exceeds the Laurent-Massart bound  df + 2*sqrt(df*x) + 2*x  with x = ln(10^12)
(P[chi2_df >= bound] <= 10^-12); expected cell counts are kept >= 1000 so the chi-square approximation is adequate.
This is a search for a failing input (here: a seed and a sample count that replay exactly), never a proof."""
from math import log, sqrt
from . import common as C
from .enum_oracle import expected_outcomes

X = log(1e12)


def bound(df):
    return df + 2 * sqrt(df * X) + 2 * X


def req_of(spec):
    kind, n, k, samples, seed, hint, gen = spec
    # a ChaCha generator is misaligned first in three runs out of four (1 or 3 bytes, or a word, taken from its buffer): the draws of the samplers
    # then straddle the word and block boundaries of the buffer
    pre = ["", "fill:1", "fill:3", "u32"][seed % 4] if gen == "chacha8" else ""
    return "stat kind=%s n=%d k=%d samples=%d seed=%d" % (kind, n, k, samples, seed) + (" hint=%s" % hint if hint else "") + (" gen=%s" % gen if gen else "") + (" pre=%s" % pre if pre else "")


def judge(kind, n, k, out):
    counts = {a: int(b) for a, b in (p.split("=") for p in out.split(";"))}
    want = expected_outcomes(kind, n, k)
    total = sum(counts.values())
    if len(counts) > want:
        return "%d distinct outcomes, only %d are possible for a correct result" % (len(counts), want)
    e = total / want
    chi = sum((c - e) ** 2 / e for c in counts.values()) + (want - len(counts)) * e
    if want > 1 and chi > bound(want - 1):
        lo, hi = min(counts, key=counts.get), max(counts, key=counts.get)
        return ("outcome frequencies over %d samples are incompatible with the uniform distribution over the %d possible outcomes: chi2 = %.1f > %.1f (error probability <= 1e-12); "
                "%d outcomes never occurred; least frequent %s: %d, most frequent %s: %d, expected %.0f each" % (total, want, chi, bound(want - 1), want - len(counts), lo, counts[lo], hi, counts[hi], e))
    return None


def run_stat(binary, specs, what, build="dev"):
    """specs: (kind, n, k, samples, seed, hint, gen)"""
    reqs = [req_of(s) for s in specs]
    rc, res, err = C.run_lines(binary, ["run"], reqs, timeout=3600)
    total = 0
    for spec, req, out in zip(specs, reqs, res):
        kind, n, k, samples = spec[:4]
        total += samples
        if out in ("panic", "bad-request") or "=" not in out:
            yield {"kind": "oracle", "build": build, "request": req, "impl": out, "model": "", "oracle": "statistics request failed: " + out}
            continue
        msg = judge(kind, n, k, out)
        if msg:
            yield {"kind": "oracle", "build": build, "request": req, "impl": out[:600], "model": "", "oracle": msg}
    yield {"kind": "count", "what": what, "n": total, "distinct": len(reqs)}


def samples_for(kind, n, k, tier):
    want = expected_outcomes(kind, n, k)
    per = 2000 if tier == "quick" else 20000
    return max(20000, want * per)


# ---------------------------------------------------------------------------------------------------------------------
# goodness of fit of the continuous distributions (C16): harness `statd`, real generators, fine bins incl. far tails
import math, struct
from statistics import NormalDist


def f2b(x):
    return struct.unpack("<Q", struct.pack("<d", x))[0]


def b2f(b):
    return struct.unpack("<d", struct.pack("<Q", b))[0]


def cdf(dist, a, b):
    """(lower-tail, upper-tail) probability functions of the target law - the specification the property names"""
    Phi = lambda z: 0.5 * math.erfc(-z / math.sqrt(2))
    Phc = lambda z: 0.5 * math.erfc(z / math.sqrt(2))
    if dist == "norm":
        return Phi, Phc
    if dist == "exp":
        return (lambda x: -math.expm1(-x) if x > 0 else 0.0), (lambda x: math.exp(-x) if x > 0 else 1.0)
    if dist == "expl":
        return (lambda x: -math.expm1(-a * x) if x > 0 else 0.0), (lambda x: math.exp(-a * x) if x > 0 else 1.0)
    if dist == "normal":
        return (lambda x: Phi((x - a) / b)), (lambda x: Phc((x - a) / b))
    if dist == "lognormal":
        return (lambda x: Phi((math.log(x) - a) / b) if x > 0 else 0.0), (lambda x: Phc((math.log(x) - a) / b) if x > 0 else 1.0)
    raise ValueError(dist)


def std_edges(kind, samples, bulk=64, floor=2500):
    """edges in the standard variable (z for the normal family, x for the exponential family): `bulk` equal-probability bins, then
    tail bins of halving probability as long as the expected count stays >= floor"""
    if kind == "exp":
        e = [-math.log1p(-i / bulk) for i in range(1, bulk)]
        p = 1.0 / bulk
        while p / 2 * samples >= floor:
            p /= 2
            e.append(-math.log(p))
        return e
    nd = NormalDist()
    e = [nd.inv_cdf(i / bulk) for i in range(1, bulk)]
    p = 1.0 / bulk
    tails = []
    while p / 2 * samples >= floor:
        p /= 2
        tails.append(-nd.inv_cdf(p))
    return sorted([-t for t in tails] + e + tails)


def statd_request(dist, w, a, b, samples, seed, gen):
    kind = "exp" if dist in ("exp", "expl") else "norm"
    z = std_edges(kind, samples)
    if dist == "expl":
        e = [x / a for x in z]
    elif dist == "normal":
        e = [a + b * x for x in z]
    elif dist == "lognormal":
        e = [math.exp(a + b * x) for x in z]
    else:
        e = z
    if w == 32:
        # f32 samples are binned after exact widening; edges that are not f32 values are fine (the law is continuous)
        pass
    e = sorted(set(e))
    pre = ["", "fill:1", "fill:3", "u32"][seed % 4] if gen == "chacha8" else ""
    return "statd dist=%s w=%d a=%d b=%d samples=%d seed=%d gen=%s%s edges=%s" % (dist, w, f2b(a), f2b(b), samples, seed, gen, " pre=%s" % pre if pre else "", ",".join(str(f2b(x)) for x in e))


def judge_d(req, out):
    from .oracles import kv
    d = kv(req)
    dist, a, b = d["dist"], b2f(int(d["a"])), b2f(int(d["b"]))
    edges = [b2f(int(x)) for x in d["edges"].split(",")]
    counts = [int(x) for x in out.split(",")]
    nan = counts.pop()
    total = sum(counts) + nan
    if nan:
        return "%d of %d samples are NaN" % (nan, total)
    lo, up = cdf(dist, a, b)
    # probabilities of the bins; the lower half through the lower tail function, the upper half through the upper tail (accuracy in both tails)
    probs = []
    for i in range(len(edges) + 1):
        left = edges[i - 1] if i > 0 else None
        right = edges[i] if i < len(edges) else None
        if left is None:
            p = lo(right)
        elif right is None:
            p = up(left)
        elif lo(right) <= 0.5:
            p = lo(right) - lo(left)
        else:
            p = up(left) - up(right)
        probs.append(p)
    cells = [(c, total * p, i) for i, (c, p) in enumerate(zip(counts, probs)) if total * p >= 1000]
    rest_c = sum(c for c, p in zip(counts, probs) if total * p < 1000)
    rest_e = sum(total * p for p in probs if total * p < 1000)
    chi = sum((c - e) ** 2 / e for c, e, _ in cells) + ((rest_c - rest_e) ** 2 / rest_e if rest_e >= 1000 else 0)
    df = len(cells) - 1 + (1 if rest_e >= 1000 else 0)
    if chi > bound(df):
        c, e, i = max(cells, key=lambda t: (t[0] - t[1]) ** 2 / t[1])
        left = edges[i - 1] if i > 0 else float("-inf")
        right = edges[i] if i < len(edges) else float("inf")
        return ("the histogram of %d samples is incompatible with the target law: chi2 = %.1f > %.1f on %d cells (error probability <= 1e-12); worst cell [%.6g, %.6g): %d samples, %.1f expected"
                % (total, chi, bound(df), df + 1, left, right, c, e))
    return None


def run_statd(binary, specs, what, build="dev"):
    """specs: (dist, w, a, b, samples, seed, gen)"""
    reqs = [statd_request(*s) for s in specs]
    yield from judge_statd_lines(binary, reqs, what, build)


def judge_statd_lines(binary, reqs, what, build="dev"):
    """a request with ` parts=k` is run as k independent harness processes in parallel (samples/k each, seeds seed..seed+k-1) and judged on the summed histogram"""
    import re
    from concurrent.futures import ThreadPoolExecutor
    jobs = []      # (index of the request, harness line)
    for i, q in enumerate(reqs):
        m = re.search(r" parts=(\d+)", q)
        if not m:
            jobs.append((i, q))
            continue
        k = int(m.group(1))
        base = q.replace(m.group(0), "")
        n = int(base.split("samples=")[1].split()[0])
        sd = int(base.split("seed=")[1].split()[0])
        for j in range(k):
            jobs.append((i, base.replace("samples=%d" % n, "samples=%d" % (n // k)).replace("seed=%d" % sd, "seed=%d" % ((sd + j) & ((1 << 64) - 1)))))
    single = [j for j in jobs if " parts=" not in reqs[j[0]]]
    multi = [j for j in jobs if " parts=" in reqs[j[0]]]
    outs = {}
    if single:
        rc, res, err = C.run_lines(binary, ["run"], [q for _, q in single], timeout=7200)
        for (i, _), o in zip(single, res):
            outs[i] = o
    if multi:
        with ThreadPoolExecutor(max_workers=16) as ex:
            res = list(ex.map(lambda q: C.run_lines(binary, ["run"], [q], timeout=7200)[1][0], [q for _, q in multi]))
        for (i, _), o in zip(multi, res):
            if o in ("panic", "bad-request") or "," not in o:
                outs[i] = o
            elif i not in outs:
                outs[i] = o
            elif "," in outs[i]:
                outs[i] = ",".join(str(int(a) + int(b)) for a, b in zip(outs[i].split(","), o.split(",")))
    total = 0
    for i, req in enumerate(reqs):
        out = outs.get(i, "panic")
        n = int(req.split("samples=")[1].split()[0])
        m = re.search(r" parts=(\d+)", req)
        if m:
            n = (n // int(m.group(1))) * int(m.group(1))
        total += n
        if out in ("panic", "bad-request") or "," not in out:
            yield {"kind": "oracle", "build": build, "request": req, "impl": out, "model": "", "oracle": "statistics request failed: " + out}
            continue
        msg = judge_d(req, out)
        if msg:
            yield {"kind": "oracle", "build": build, "request": req, "impl": out[:800], "model": "", "oracle": msg}
    yield {"kind": "count", "what": what, "n": total, "distinct": len(reqs)}


def tail_request(kind, w, samples, seed, gen, parts=16, cells=12):
    """the law INSIDE the tails: all the bulk in one cell, the region beyond T (3.5 for the normal, 7 for the exponential: it contains the
    whole region the ziggurat hands to its tail sampler) cut into `cells` cells of equal probability per side"""
    if kind == "norm":
        nd = NormalDist()
        T = 3.5
        pt = 1 - nd.cdf(T)
        up = [-nd.inv_cdf(pt * (1 - j / cells)) for j in range(cells)]        # T = up[0] < up[1] < ...
        e = sorted([-x for x in up] + up)
    else:
        T = 7.0
        pt = math.exp(-T)
        e = [-math.log(pt * (1 - j / cells)) for j in range(cells)]
    return "statd dist=%s w=%d a=0 b=0 samples=%d seed=%d gen=%s parts=%d edges=%s" % (kind, w, samples, seed, gen, parts, ",".join(str(f2b(x)) for x in e))
