"""Statistical violation search on the IMPLEMENTATION under a real generator (harness `stat`): outcome frequencies of
single / choose / multiple / shuffle / partial_shuffle / index must be compatible with the uniform distribution over the
outcomes the property names.  Model-free and sound for any implementation up to the stated error probability: an alarm is
raised only when Pearson's statistic exceeds the Laurent-Massart bound  df + 2*sqrt(df*x) + 2*x  with x = ln(10^12)
(P[chi2_df >= bound] <= 10^-12); expected cell counts are kept >= 1000 so the chi-square approximation is adequate.
This is a search for a failing input (here: a seed and a sample count that replay exactly), never a proof."""
from math import log, sqrt
from . import common as C
from .enum_oracle import expected_outcomes

X = log(1e12)


def bound(df):
    return df + 2 * sqrt(df * X) + 2 * X


def req_of(spec):
    kind, n, k, samples, seed, hint, gen = spec
    return "stat kind=%s n=%d k=%d samples=%d seed=%d" % (kind, n, k, samples, seed) + (" hint=%s" % hint if hint else "") + (" gen=%s" % gen if gen else "")


def judge(kind, n, k, out):
    counts = {a: int(b) for a, b in (p.split("=") for p in out.split(";"))}
    want = expected_outcomes(kind, n, k)
    total = sum(counts.values())
    if len(counts) > want:
        return "%d distinct outcomes, only %d are possible for a correct result" % (len(counts), want)
    e = total / want
    chi = sum((c - e) ** 2 / e for c in counts.values()) + (want - len(counts)) * e
    if want > 1 and chi > bound(want - 1):
        lo, hi = min(counts, key=counts.get), max(counts, key=counts.get)
        return ("outcome frequencies over %d samples are incompatible with the uniform distribution over the %d possible outcomes: chi2 = %.1f > %.1f (error probability <= 1e-12); "
                "%d outcomes never occurred; least frequent %s: %d, most frequent %s: %d, expected %.0f each" % (total, want, chi, bound(want - 1), want - len(counts), lo, counts[lo], hi, counts[hi], e))
    return None


def run_stat(binary, specs, what, build="dev"):
    """specs: (kind, n, k, samples, seed, hint, gen)"""
    reqs = [req_of(s) for s in specs]
    rc, res, err = C.run_lines(binary, ["run"], reqs, timeout=3600)
    total = 0
    for spec, req, out in zip(specs, reqs, res):
        kind, n, k, samples = spec[:4]
        total += samples
        if out in ("panic", "bad-request") or "=" not in out:
            yield {"kind": "oracle", "build": build, "request": req, "impl": out, "model": "", "oracle": "statistics request failed: " + out}
            continue
        msg = judge(kind, n, k, out)
        if msg:
            yield {"kind": "oracle", "build": build, "request": req, "impl": out[:600], "model": "", "oracle": msg}
    yield {"kind": "count", "what": what, "n": total, "distinct": len(reqs)}


def samples_for(kind, n, k, tier):
    want = expected_outcomes(kind, n, k)
    per = 2000 if tier == "quick" else 20000
    return max(20000, want * per)
