"""Exact outcome counting over complete small draw spaces, on the implementation (harness `enum`)."""
from math import comb, factorial
from . import common as C


def expected_outcomes(kind, n, k):
    if kind == "shuf":
        return factorial(n)
    if kind == "pshuf":
        m = min(k, n)
        # ordered choices of the first m elements; with m clamped to len-1 the last position is forced
        return factorial(n) // factorial(n - m) if m < n else factorial(n)
    if kind == "multi":
        return comb(n, min(k, n))
    if kind in ("choose", "single", "index"):
        return n
    if kind in ("shufpos", "pshufpos"):
        return 4
    raise ValueError(kind)


def run_enum(binary, specs, what):
    """specs: list of (kind, n, k, grid, draws).  Yields check.py `extra` items."""
    reqs = ["enum kind=%s n=%d k=%d grid=%d draws=%d" % s[:5] + (" hint=%s" % s[5] if len(s) > 5 and s[5] else "") for s in specs]
    rc, res, err = C.run_lines(binary, ["run"], reqs, timeout=3600)
    total = 0
    for spec, req, out in zip(specs, reqs, res):
        kind, n, k, grid, draws = spec[:5]
        total += grid ** draws
        if out in ("panic", "bad-request"):
            yield {"kind": "oracle", "build": "dev", "request": req, "impl": out, "model": "", "oracle": "enumeration request failed: " + out}
            continue
        counts = dict(p.split("=") for p in out.split(";"))
        counts = {a: int(b) for a, b in counts.items()}
        if "panic" in counts:
            # the implementation wanted more draws than the property's algorithm needs: inconclusive here
            yield {"kind": "note", "text": "%s: %d panics (more draws requested than scripted) - enumeration inconclusive" % (req, counts["panic"])}
            continue
        want = expected_outcomes(kind, n, k)
        vals = sorted(set(counts.values()))
        if len(counts) != want or len(vals) != 1:
            # The grid is only a faithful image of uniformly distributed draws for samplers of the multiply-shift family (harness/enumr.rs).
            # Before the non-uniform counts are reported as a failing input they are confirmed by a model-free frequency test under a real
            # generator on the same operation; if that test finds nothing, the grid does not fit this implementation: inconclusive.
            from .stat_oracle import judge
            hint = spec[5] if len(spec) > 5 else None
            samples = max(200000, 20000 * want)
            sreq = "stat kind=%s n=%d k=%d samples=%d seed=%d" % (kind, n, k, samples, 0x9E3779B97F4A7C15 ^ (n * 1000003 + k)) + (" hint=%s" % hint if hint else "")
            rc2, sres, err2 = C.run_lines(binary, ["run"], [sreq], timeout=3600)
            confirmed = bool(sres) and "=" in sres[0] and judge(kind, n, k, sres[0]) is not None
            if not confirmed:
                yield {"kind": "note", "text": "%s: counts over the draw grid are not uniform (%s) but a frequency test on %d samples under a real generator finds no deviation: "
                                               "the grid does not represent uniform draws for this implementation - enumeration inconclusive" % (req, vals[:4], samples)}
                continue
            yield {"kind": "oracle", "build": "dev", "request": req, "impl": out[:600], "model": "",
                   "oracle": "outcome counts over the complete draw space (grid %d^%d, exact when every index range divides %d) are not uniform: %d distinct outcomes (expected %d), counts %s; confirmed by a frequency test under a real generator (%s)"
                             % (grid, draws, grid, len(counts), want, vals[:6], sreq)}
    yield {"kind": "count", "what": what, "n": total}
