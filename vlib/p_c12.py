"""C12 - uniform float ranges never return a value outside [low, high)  (false on the code as it is: known finding D2)."""
import math
from . import common as C, gen_float as G, float_oracles as FO
from .oracles import kv

LEAN_MODULE = ["Urandom.Props.C12", "Urandom.Props.C12T"]
RULE = ("requests: Uniform<f32|f64> through try_new, try_new_inclusive, new, Random::range for finite bounds of all magnitudes (subnormal, huge, nearly equal, far from zero relative "
        "to their distance, reversed, equal, overflowing difference) and non-finite inputs, x unit floats from words {0, !0, boundary mantissas, random}; debug and release builds "
        "(the NonFinite check exists only under debug_assertions). oracle: the property's bounds predicate on every sample, classified by the known-finding predicates D2 / D2b. "
        "non-trivial = finite bounds; distinct = distinct request line"
        " Since rounds 9/10 (extra): ranges on which the formula is exact sampled under every seeded generator after a fill that puts a block generator at each buffer offset (urange), and under injected Xoshiro256 states whose s0 + s3 is at / next to the all-ones and all-zero fields.")
ASSUMPTIONS = ["the software IEEE-754 model is validated against the hardware on every run (fp stream), not proved"]


def builds(tier):
    return ["dev", "release"]


def generate(r, tier, build):
    k = 1 if tier == "quick" else 25
    prof = "release" if build == "release" else "debug"
    return G.ufloat_requests(r, 4000 * k, prof) + G.fp_requests(r, 1500 * k)


def corpus(build):
    prof = "release" if build == "release" else "debug"
    return ["ufloat w=64 lo=4636737291354636288 hi=4636807660098813952 via=try profile=%s n=1 words=18446744073709551615" % prof,   # D2: Uniform(100,101), word !0 -> 101.0
            "ufloat w=64 lo=4591870180066957722 hi=4845873199050653696 via=try profile=%s n=1 words=0" % prof,                       # D2: Uniform(0.1,1e16), word 0 -> 0.0 < low
            "ufloat w=32 lo=1120403456 hi=1120534528 via=new profile=%s n=1 words=18446744073709551615" % prof]


def classify(req, model):
    if not req.startswith("ufloat"):
        return None
    d = kv(req)
    w = int(d["w"])
    lo, hi = FO.fval(w, int(d["lo"])), FO.fval(w, int(d["hi"]))
    if math.isnan(lo) or math.isnan(hi) or math.isinf(lo) or math.isinf(hi):
        return None
    return "ufloat/" + ("equal" if lo == hi else "reversed" if lo > hi else "ordered")


def exact_in_range(w, lo, hi, word):
    """exact-arithmetic value of the formula u*scale + base with scale = hi-lo, base = lo-scale, u in [1,2) from the word"""
    from fractions import Fraction
    if w == 64:
        u = Fraction((1 << 52) + (word >> 12), 1 << 52)
    else:
        u = Fraction((1 << 23) + ((word & 0xFFFFFFFF) >> 9), 1 << 23)
    L, H = Fraction(lo), Fraction(hi)
    v = u * (H - L) + (L - (H - L))
    return v


def oracle(req, impl, build):
    """the bounds predicate of the property; returns a message tagged with the class used by the known-finding predicates"""
    if not req.startswith("ufloat"):
        return None
    d = kv(req)
    w = int(d["w"])
    lo, hi = FO.fval(w, int(d["lo"])), FO.fval(w, int(d["hi"]))
    if any(math.isnan(x) or math.isinf(x) for x in (lo, hi)):
        return None
    diff_finite = not math.isinf(hi - lo) if w == 64 else abs(hi - lo) <= 3.4028234663852886e38
    s = FO.samples(impl)
    if s is None or not diff_finite:
        if s is not None and any(x == "nan" for x in s):
            return None   # outside the property's hypothesis (the difference is not finite)
        return None
    words = [int(x) for x in d["words"].split(",")] if d["words"] else []
    for x, word in zip(s, words):
        if x == "nan":
            return "NAN sample for finite bounds with a finite difference"
        v = FO.fval(w, x)
        if lo < hi:
            bad = "HIGH" if v >= hi else "LOW" if v < lo else None
        elif lo > hi:
            bad = "HIGH" if v <= hi else "LOW" if v > lo else None     # reversed: (hi, lo]
        else:
            bad = None if v == lo else "EQUAL"
        if bad:
            beyond = (v > hi or v < lo) if lo < hi else (v < hi or v > lo) if lo > hi else True
            return "%s: sample %r outside the range [%r, %r) for word %d%s" % (bad, v, lo, hi, word, " [release-only]" if build == "release" else "")
    return None


def match_known(f, known):
    """D2: pure rounding excursion of the current formula (sample == high, or below low although the exact-arithmetic value is inside);
    D2b: release builds skip the NonFinite check (base or scale overflowed)."""
    msg = f["oracle"]
    d = kv(f["request"])
    w = int(d["w"])
    lo, hi = FO.fval(w, int(d["lo"])), FO.fval(w, int(d["hi"]))
    same_as_model = f["impl"] == f["model"]
    if not same_as_model:
        return None       # the code is no longer the modelled formula: a new violation
    words = [int(x) for x in d["words"].split(",")] if d["words"] else []
    s = FO.samples(f["impl"]) or []
    import math
    base_overflow = math.isinf((lo - (hi - lo))) or (w == 32 and abs(lo - (hi - lo)) > 3.4028234663852886e38)
    MAXF = 1.7976931348623157e308 if w == 64 else 3.4028234663852886e38
    scale_big = abs(hi - lo) > MAXF / 2 and abs(hi - lo) <= MAXF
    for k in known:
        if k["id"] == "D2b" and f["build"] == "release" and base_overflow:
            return k
        if k["id"] == "D2c" and not base_overflow and scale_big:
            if all(x == "nan" or FO.cls(w, x)[0] == "inf" or True for x in s) and any(x == "nan" or FO.cls(w, x)[0] == "inf" for x in s):
                return k
        if k["id"] == "D2" and not base_overflow:
            from fractions import Fraction
            import math as _m
            L, H = Fraction(lo), Fraction(hi)
            mb = 52 if w == 64 else 23
            emin = -1074 if w == 64 else -149
            def ulp(x):
                x = abs(x)
                if x == 0:
                    return Fraction(2) ** emin
                e = _m.frexp(float(x))[1] - 1 if x < Fraction(2) ** 1023 * 2 else 1023
                return Fraction(2) ** max(e - mb, emin)
            big = max(abs(L), abs(H), 2 * abs(H - L), abs(L - (H - L)))
            tol = 3 * ulp(big)
            ok = True
            hit = False
            for x, word in zip(s, words):
                if x == "nan" or FO.cls(w, x)[0] != "fin":
                    ok = False
                    break
                v = Fraction(FO.fval(w, x))
                ex = exact_in_range(w, lo, hi, word)
                inside = (L <= ex < H) if lo < hi else (H < ex <= L)
                out = (v >= H or v < L) if lo < hi else (v <= H or v > L)
                if out:
                    hit = True
                    dist = min(abs(v - L), abs(v - H))
                    # a rounding excursion of the current formula: the exact value is inside, the sample misses the range by a few ulps of the largest intermediate
                    if not inside or dist > tol:
                        ok = False
            if ok and hit and lo != hi:
                return k
    return None


def extra(binary, build, tier, rng):
    """the bounds under REAL generators: the main stream scripts the words (`Mock`), so the unit float always comes from the trait's default
    conversion.  Here ranges on which the formula is exact (scale and base powers of two / small integers: no rounding, hence none of the known
    findings) are sampled from every seeded generator after a byte fill that puts a block generator at each of its 256 buffer offsets; a sample
    outside [low, high) or a NaN is a failing input."""
    import struct
    def b64(x):
        return struct.unpack("<Q", struct.pack("<d", x))[0]
    def b32(x):
        return struct.unpack("<I", struct.pack("<f", x))[0]
    ranges = [(64, 0.0, 1.0), (64, -1.0, 1.0), (64, 1.0, 2.0), (32, 0.0, 1.0), (32, -2.0, 2.0), (64, 4.0, 0.0), (32, 1.0, -1.0)]
    offs = list(range(240, 257)) + [0, 1, 3, 4, 7, 8] if tier == "quick" else list(range(0, 260))
    reqs, meta = [], []
    for gen in ("chacha8", "chacha12", "chacha20", "xoshiro", "splitmix", "wyrand"):
        for off in (offs if gen.startswith("chacha") else [0, 3]):
            w, lo, hi = ranges[(off + len(gen)) % len(ranges)] if tier == "quick" else rng.choice(ranges)
            for w, lo, hi in ([(w, lo, hi)] if tier == "quick" else ranges[:4]):
                bl, bh = (b64(lo), b64(hi)) if w == 64 else (b32(lo), b32(hi))
                pre = ["fill:%d" % off] if off else []
                if rng.chance(1, 3):
                    pre.append("u32")
                reqs.append("urange gen=%s seed=%d w=%d lo=%d hi=%d n=%d pre=%s" % (gen, rng.edge64(), w, bl, bh, 70 if gen.startswith("chacha") else 400, ",".join(pre)))
                meta.append((w, lo, hi))
    # Xoshiro256 has float paths of its own (the high bits of the `+` scrambler): states in which s0 + s3 is the word with all / almost all high
    # bits set - the unit float just below 2 - and the smallest ones
    for k in range(24 if tier == "quick" else 400):
        word = [(1 << 64) - 1, ((1 << 64) - 1) ^ ((1 << 11) - 1), ((1 << 64) - 1) ^ ((1 << 40) - 1), (1 << 64) - (1 << 11), 0, 1 << 11, ((1 << 53) - 1) << 11, rng.u64() | (((1 << 24) - 1) << 40)][k % 8]
        s0 = rng.u64()
        st = [s0, rng.u64(), rng.u64(), (word - s0) % (1 << 64)]
        w, lo, hi = ranges[k % len(ranges)]
        bl, bh = (b64(lo), b64(hi)) if w == 64 else (b32(lo), b32(hi))
        reqs.append("urange gen=xoshiro state=%s w=%d lo=%d hi=%d n=2 pre=" % (",".join(map(str, st)), w, bl, bh))
        meta.append((w, lo, hi))
    rc, res, err = C.run_lines(binary, ["run"], reqs)
    for q, o, (w, lo, hi) in zip(reqs, res, meta):
        if not o.startswith("ok:"):
            yield {"kind": "oracle", "build": build, "request": q, "impl": o[:200], "model": "", "oracle": "sampling a range the constructor must accept failed: " + o[:60]}
            continue
        a, b = min(lo, hi), max(lo, hi)
        for i, t in enumerate(o[3:].split(",")):
            v = struct.unpack("<d", struct.pack("<Q", int(t)))[0] if w == 64 else struct.unpack("<f", struct.pack("<I", int(t)))[0]
            inside = (lo <= v < hi) if lo < hi else (hi < v <= lo)
            if not inside:          # NaN fails both comparisons
                yield {"kind": "oracle", "build": build, "request": q, "impl": o[:300], "model": "",
                       "oracle": "sample %d is %r (bits %s): outside the range %s of Uniform<f%d>(%r, %r) drawn from a real generator (the formula is exact on this range: no rounding is involved)" % (
                           i, v, t, "[low, high)" if lo < hi else "(high, low]", w, lo, hi)}
                break
    yield {"kind": "count", "what": "real-generator-range-requests", "n": len(reqs)}
