"""Request generators for the ChaCha / block-generator streams."""
from . import common as C

COUNTERS = [0, 1, 2, 3, 4, (1 << 32) - 5, (1 << 32) - 4, (1 << 32) - 3, (1 << 32) - 2, (1 << 32) - 1, 1 << 32, (1 << 32) + 1,
            (1 << 64) - 8, (1 << 64) - 5, (1 << 64) - 4, (1 << 64) - 3, (1 << 64) - 2, (1 << 64) - 1]


def key(r):
    k = r.below(6)
    if k == 0:
        return [0] * 8
    if k == 1:
        return [0xFFFFFFFF] * 8
    if k == 2:
        kk = [0] * 8
        kk[r.below(8)] = 1 << r.below(32)
        return kk
    return [r.bits(32) for _ in range(8)]


def counter(r):
    return r.choice(COUNTERS) if r.chance(1, 2) else r.edge64()


def stream(r):
    return r.choice([0, 1, (1 << 32) - 1, 1 << 32, (1 << 64) - 1, r.u64()])


def rounds(r):
    return r.choice([8, 12, 20])


def fill_len(r):
    k = r.below(12)
    if k < 4:
        return r.choice([0, 1, 3, 4, 7, 8])
    if k < 7:
        return r.range(248, 264)
    if k < 9:
        return r.range(511, 513)
    if k < 10:
        return r.range(1000, 4200)
    return r.below(300)


def history(r, maxlen=40, jumps=True):
    n = r.below(maxlen + 1)
    out = []
    for _ in range(n):
        k = r.below(14)
        if k < 3:
            out.append("u32")
        elif k < 6:
            out.append("u64")
        elif k < 7:
            out.append(r.choice(["f32", "f64"]))
        elif k < 11:
            out.append("fill:%d" % fill_len(r))
        elif jumps and k < 12:
            out.append("jump")
        elif jumps and k < 13:
            out.append(r.choice(["split", "split", "split32", "splitf:%d" % r.choice([1, 3, 4, 7, 8, 9, r.below(40)])]))
        else:
            out.append(r.choice(["clone", "clone", "clone32", "clonef:%d" % r.choice([1, 3, 4, 7, 8, 9, r.below(40)])]))
    return out


def batch_requests(r, n):
    """C02: raw batches and the one after, at boundary counters, through fill_bytes(256), 64 x next_u32 and mixes"""
    reqs = []
    for _ in range(n):
        kk, c, s, N = key(r), counter(r), stream(r), rounds(r)
        shape = r.below(4)
        if shape == 0:
            ops = ["fill:256", "fill:256"]
        elif shape == 1:
            ops = ["u32"] * 128
        elif shape == 2:
            ops = ["u64"] * 32 + ["fill:256"] + ["u32"] * 64
        else:
            ops = ["fill:512", "u64", "fill:248", "u64"]
        reqs.append("chacha n=%d key=%s ctr=%d str=%d ops=%s" % (N, ",".join(map(str, kk)), c, s, ",".join(ops)))
    return reqs


def slp_requests(r, n):
    return ["slpblock n=%d key=%s ctr=%d str=%d" % (rounds(r), ",".join(map(str, key(r))), counter(r), stream(r)) for _ in range(n)]


def seed_requests(r, n):
    reqs = []
    for _ in range(n):
        reqs.append("chacha n=%d seed=%d ops=%s" % (rounds(r), r.edge64(), ",".join(history(r, 12))))
    return reqs


def history_requests(r, n, jumps=True):
    reqs = []
    for _ in range(n):
        kk, c, s, N = key(r), counter(r), stream(r), rounds(r)
        reqs.append("chacha n=%d key=%s ctr=%d str=%d ops=%s" % (N, ",".join(map(str, kk)), c, s, ",".join(history(r, 40, jumps))))
    return reqs


def dist_histories(r, count, mk_op):
    """ChaCha histories in which a distribution entry point (`mk_op(r)` -> op) is called at every kind of buffer position: after byte fills that
    leave the read offset at 1..7 mod 8 and close to the end of the 256-byte block, between word draws of both widths, after jumps"""
    out = []
    for _ in range(count):
        kk, c, st, N = key(r), counter(r), stream(r), rounds(r)
        ops = []
        if r.chance(3, 4):
            ops.append("fill:%d" % r.choice([1, 2, 3, 4, 5, 7, 9, 12, 236, 240, 241, 244, 245, 247, 248, 249, 250, 251, 252, 253, 254, 255, r.below(256)]))
        for _ in range(1 + r.below(40)):
            k = r.below(10)
            ops.append(mk_op(r) if k < 6 else "u32" if k < 8 else r.choice(["u64", "f64", "fill:%d" % r.choice([1, 3, 6]), "jump"]))
        out.append("chacha n=%d key=%s ctr=%d str=%d ops=%s" % (N, ",".join(map(str, kk)), c, st, ",".join(ops)))
    return out
