"""C19 - serialised generator state resumes the identical stream from any point."""
import struct
from . import common as C, gen_chacha as G
from .p_c01 import history as word_history

LEAN_MODULE = ["Urandom.Props.C19", "Urandom.Props.C03T", "Urandom.Props.C19R"]
RULE = ("requests: for SplitMix64, Xoshiro256, Wyrand and ChaCha8/12/20: a random history before the save point (odd buffer offsets, after jumps and large fills, freshly seeded, "
        "injected buffer positions incl. all-zero buffers and out-of-range indices), serialise, restore, the same random continuation on original and restored, re-serialise both; "
        "JSON text, all outputs and both final texts are compared with the model; oracle: restored outputs == original outputs and identical final texts. "
        "extra: every serialisable distribution with finite parameters round-trips to identical text and bit-identical samples. non-trivial = all; distinct = distinct request line"
        " Since round 10: a save / restore / continue history of a seeded generator that panics is a failing input.")
ASSUMPTIONS = ["serde's derive semantics and serde_json (with float_roundtrip) are trusted; the theorem is about the attribute logic (skip/default rules)"]


def generate(r, tier, build):
    k = 1 if tier == "quick" else 20
    reqs = []
    for _ in range(500 * k):
        gen = r.choice(["xoshiro", "splitmix", "wyrand"])
        before = ",".join(word_history(r, 20))
        after = ",".join(word_history(r, 20))
        if gen == "xoshiro" and r.chance(1, 3):
            st = ",".join(str(r.edge64()) for _ in range(4))
            reqs.append("serde gen=xoshiro state=%s before=%s after=%s" % (st, before, after))
        else:
            reqs.append("serde gen=%s seed=%d before=%s after=%s" % (gen, r.edge64(), before, after))
    for _ in range(600 * k):
        kk, c, s, N = G.key(r), G.counter(r), G.stream(r), G.rounds(r)
        before = ",".join(G.history(r, 20))
        after = ",".join(G.history(r, 20))
        extra = ""
        k2 = r.below(4)
        if k2 == 0:   # injected position with a random buffer
            extra = " idx=%d buf=%s" % (r.choice([0, 1, 7, 100, 252, 255, 256, 1000, 4294967295, r.below(257)]), r.bits(2048).to_bytes(256, "little").hex())
        elif k2 == 1:  # all-zero buffer with an in-range index: `random` is omitted, `index` is not
            extra = " idx=%d buf=%s" % (r.below(256), "00" * 256)
        reqs.append("serde gen=chacha n=%d key=%s ctr=%d str=%d%s before=%s after=%s" % (N, ",".join(map(str, kk)), c, s, extra, before, after))
    return reqs


def special_states():
    """states at the corners of the representation, saved fresh and after a history: the all-zero Xoshiro256 state (reachable through
    from_rng over an all-zero source), unit and all-ones words, the literals of the current source; 0 / all ones for the 64-bit generators"""
    from . import harvest
    reqs = []
    words = [0, 1, C.M64, 1 << 63] + harvest.literals(C.REPO)[:24]
    sts = [[0, 0, 0, 0], [C.M64] * 4] + [[w if i == p else 0 for i in range(4)] for w in words[1:] for p in range(4)]
    for st in sts:
        for before, after in (("", "u64,u32,fill:13,jump,f64"), ("u64,fill:5,jump", "u32,u64,fill:9")):
            reqs.append("serde gen=xoshiro state=%s before=%s after=%s" % (",".join(map(str, st)), before, after))
    for gen in ("splitmix", "wyrand", "xoshiro"):
        for w in words:
            reqs.append("serde gen=%s seed=%d before= after=u64,u32,fill:3" % (gen, w))
            reqs.append("serde gen=%s seed=%d before=u64,jump after=u64,fill:11" % (gen, w))
    return reqs


def offset_sweep():
    """save points at every buffer offset around the end of the block (and the first bytes of the next), continued with byte-granular
    and word reads: the serialised index has a representational corner there (omitted when out of range)"""
    out = []
    for N in (8, 12, 20):
        for off in list(range(244, 262)) + [1, 2, 3, 4, 5, 511, 512, 513]:
            for after in ("fill:1,fill:2,u32", "u32,fill:3", "fill:5,u64", "u64,fill:1"):
                out.append("serde gen=chacha n=%d seed=%d before=fill:%d after=%s" % (N, 7 + off, off, after))
    return out


def corpus(build):
    z = "0,0,0,0,0,0,0,0"
    return special_states() + offset_sweep() + ["serde gen=chacha n=12 seed=42 before= after=u32",
            "serde gen=chacha n=20 key=%s ctr=0 str=0 before=fill:256 after=u32" % z,     # index still out of range after a direct fill
            "serde gen=chacha n=8 key=%s ctr=0 str=0 before=fill:255,fill:1 after=u64" % z,  # index == 256 exactly
            "serde gen=xoshiro seed=0 before= after=u64"]


def classify(req, model):
    return req.split()[1] + ("/injected" if " idx=" in req else "")


def oracle(req, impl, build):
    parts = impl.split(" | ")
    if len(parts) != 6:
        if impl == "panic" and req.startswith("serde gen=") and "gen=mock" not in req:
            # saving, restoring and continuing a seeded generator involves nothing that may panic (no scripted source can run dry)
            return "a save / restore / continue history of a seeded generator panicked (the restored generator, or the original, cannot continue)"
        return None if impl == "panic" else "malformed result"
    j1, o1, o2, o3, j2, j3 = parts
    if o2 != o3:
        return "restored generator diverges from the original under the same continuation"
    if j2 != j3:
        return "original and restored generator serialise differently after the same continuation"
    return None


def f64b(x):
    return struct.unpack("<Q", struct.pack("<d", x))[0]


def f32b(x):
    return struct.unpack("<I", struct.pack("<f", x))[0]


def extra(binary, build, tier, rng):
    n = 4000 if tier == "quick" else 60000
    reqs = []
    for _ in range(n):
        kind = rng.choice(["i8", "u8", "i16", "u16", "i32", "u32", "i64", "u64", "isize", "usize", "uf32", "uf64", "bern", "exp32", "exp64",
                           "norm32", "norm64", "lnorm32", "lnorm64", "dice", "std", "alnum", "float01", "exp1", "stdnorm"])
        words = ",".join(str(rng.edge64()) for _ in range(24))
        if kind in ("i8", "u8", "i16", "u16", "i32", "u32", "i64", "u64", "isize", "usize"):
            from .gen_int import TYPES, random_range
            b, L, s = TYPES[kind]
            lo, hi, _ = random_range(rng, b, s)
            if rng.chance(1, 2):
                # the stored (base, range) pair at its representational corners: spans of exactly half the type (the sign bit of a signed
                # `range` field), one less / one more, the whole type, one value
                tlo, thi = (-(1 << (b - 1)), (1 << (b - 1)) - 1) if s else (0, (1 << b) - 1)
                cnt = rng.choice([1 << (b - 1), (1 << (b - 1)) - 1, (1 << (b - 1)) + 1, 1 << b, (1 << b) - 1, 1, 2])
                lo = rng.choice([tlo, 0, -1 if s else 1, thi - cnt + 1, rng.range(tlo, thi - cnt + 1)])
                lo = max(tlo, min(lo, thi - cnt + 1))
                hi = lo + cnt - 1
            reqs.append("serdist kind=%s lo=%d hi=%d n=2 words=%s" % (kind, lo, hi, words))
            continue
        def fin(w):
            # finite parameters of every magnitude (the property is about finite parameters)
            k = rng.below(4)
            if k == 0:
                # the representational corners of the type: largest finite values (their reciprocals are subnormal), smallest normal and
                # subnormal values, the top and the bottom binades
                mant, ebits = (52, 11) if w == 64 else (23, 8)
                emax = (1 << ebits) - 2
                e = rng.choice([emax, emax, emax - 1, emax - 2, 0, 0, 1, 2])
                m = rng.choice([0, 1, (1 << mant) - 1, rng.bits(mant), 1 << (mant - 1)])
                if e == 0 and m == 0:
                    m = 1
                return (rng.below(2) << (w - 1)) | (e << mant) | m
            if k == 1:
                from . import gen_float as GF
                return GF.finite_f(rng, w)
            m = rng.choice([0.0, 1.0, -1.0, 0.1, 1e-300 if w == 64 else 1e-30, 1e300 if w == 64 else 1e30, 3.5, 1e-5, 123456.789, rng.bits(30) / 1024.0 - 100])
            return f64b(m) if w == 64 else f32b(m)
        w = 32 if kind.endswith("32") else 64
        a, b2 = fin(w), fin(w)
        if kind in ("exp32", "exp64", "bern"):
            a = fin(w) & ~(1 << (w - 1))
        reqs.append("serdist kind=%s a=%d b=%d n=2 words=%s" % (kind, a, b2, words))
    rc, res, err = C.run_lines(binary, ["run"], reqs)
    skipped = 0
    for q, o in zip(reqs, res):
        if ":null" in o and "deserialize failed" in o:
            # a finite parameter whose *stored* field is infinite (Exp(0): 1/0 = inf): JSON has no
            # representation for non-finite floats (serde_json writes null) - a property of the format
            skipped += 1
            continue
        if not o.startswith("ok"):
            yield {"kind": "oracle", "build": build, "request": q, "impl": o, "model": "", "oracle": "distribution object does not round-trip: " + o[:200]}
    if skipped:
        yield {"kind": "note", "text": "%d distribution objects with a non-finite stored field (e.g. Exp(0)) skipped: not representable in JSON" % skipped}
    yield {"kind": "count", "what": "distribution-roundtrips", "n": len(reqs)}
