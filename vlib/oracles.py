"""Property oracles on observed implementation behaviour (independent of the Lean model)."""
from . import common as C
from .gen_int import TYPES, tmin, tmax


def kv(req):
    toks = req.split()
    d = {"_kind": toks[0]}
    for t in toks[1:]:
        k, _, v = t.partition("=")
        d[k] = v
    return d


def ints(s):
    return [int(x) for x in s.split(",")] if s else []


def parse_ok(impl):
    """'ok:a:b' -> (fields...) ; None for panic/err"""
    if not impl.startswith("ok:"):
        return None
    return impl.split(":")[1:]


def uint_oracle(req, impl):
    """C04: every sample inside the range; error/panic exactly when the range is empty."""
    d = kv(req)
    b, L, s = TYPES[d["ty"]]
    lo, hi, incl = int(d["lo"]), int(d["hi"]), d["incl"] == "1"
    empty = lo > hi if incl else lo >= hi
    via = d["via"]
    if empty:
        want = "err:EmptyRange" if via in ("try", "sampler", "utrait", "serde", "serdesampler") else "panic"
        if impl != want:
            return "empty range %s must give %s, got %s" % ("inclusive" if incl else "exclusive", want, impl[:40])
        return None
    if impl.startswith("err:"):
        return "non-empty range rejected with " + impl
    f = parse_ok(impl)
    if f is None:
        return None  # ran out of scripted words (model agreement decides whether that is right)
    for v in ints(f[0]):
        if v < lo or (v > hi if incl else v >= hi):
            return "sample %d outside [%d, %d%s" % (v, lo, hi, "]" if incl else ")")
    return None


def index_oracle(req, impl):
    d = kv(req)
    ln = int(d["len"])
    f = parse_ok(impl)
    if f is None or ln == 0:
        return None
    for v in ints(f[0]):
        if v >= ln:
            return "index(%d) returned %d" % (ln, v)
    return None


def dice_oracle(req, impl):
    d = kv(req)
    n = {"D4": 4, "D6": 6, "D8": 8, "D10": 10, "D20": 20}.get(d["kind"], int(d["sides"]))
    if d["kind"] == "new" and n == 0:
        return None if impl == "panic" else "Dice::new(0) must panic, got " + impl[:40]
    f = parse_ok(impl)
    if f is None:
        return None
    for v in ints(f[0]):
        if v < 1 or v > n:
            return "%d-sided die rolled %d" % (n, v)
    return None


def perm_oracle(req, impl):
    """C05: the result is a rearrangement of the input (multiset equality, same length)."""
    d = kv(req)
    f = parse_ok(impl)
    if f is None:
        return None
    if sorted(ints(f[0])) != sorted(ints(d["items"])):
        return "result is not a permutation of the input"
    return None


def choose_oracle(req, impl):
    d = kv(req)
    its = ints(d["items"])
    f = parse_ok(impl)
    if f is None:
        return None
    if f[0] == "none":
        return None if not its else "None returned for a non-empty collection"
    if not its:
        return "Some returned for an empty collection"
    if int(f[0]) not in its:
        return "returned %s which is not an element" % f[0]
    return None


def multi_oracle(req, impl):
    """C07 shape: count = min(k, n); filled slots hold items from distinct positions; the rest untouched."""
    d = kv(req)
    its, buf0 = ints(d["items"]), ints(d["buf"])
    f = parse_ok(impl)
    if f is None:
        return None
    cnt, buf = int(f[0]), ints(f[1])
    if cnt != min(len(its), len(buf0)):
        return "returned %d, expected min(k,n) = %d" % (cnt, min(len(its), len(buf0)))
    if len(buf) != len(buf0):
        return "buffer length changed"
    if buf[cnt:] != buf0[cnt:]:
        return "slots beyond the returned count were touched"
    filled = buf[:cnt]
    if any(x not in its for x in filled):
        return "a filled slot holds something that is not an item"
    if len(set(filled)) != len(filled):   # generator uses distinct items
        return "two slots hold the same item"
    return None


def is_scalar(c):
    return c < 0xD800 or 0xE000 <= c < 0x110000


def std_oracle(req, impl):
    d = kv(req)
    f = parse_ok(impl)
    if f is None:
        return None
    ty = d["ty"]
    vals = [x for grp in f[0].split(";") for x in grp.split(",") if x != ""]
    if ty == "char":
        for v in vals:
            if not is_scalar(int(v)):
                return "char sample %s is not a Unicode scalar value" % v
    if ty.startswith("nz"):
        for v in vals:
            if int(v) == 0:
                return "NonZero sample is zero"
    if ty in ("bool", "coin", "a4bool"):
        for v in vals:
            if v not in ("0", "1"):
                return "bool sample " + v
    return None


ALNUM = "0123456789ABCDEFGHIJKLMNOPQRSTUVWXYZabcdefghijklmnopqrstuvwxyz"


def alnum_oracle(req, impl):
    f = parse_ok(impl)
    if f is None:
        return None
    for ch in f[0]:
        if ch not in ALNUM:
            return "Alnum produced %r" % ch
    return None


def f01_oracle(req, impl):
    """C11: strictly inside (0,1): positive, exponent field below the bias, above zero."""
    d = kv(req)
    f = parse_ok(impl)
    if f is None:
        return None
    w = int(d["w"])
    mb, bias = (52, 1023) if w == 64 else (23, 127)
    for v in ints(f[0]):
        if v >> (w - 1):
            return "Float01 sample is negative"
        ex = v >> mb
        if ex >= bias:
            return "Float01 sample >= 1 (bits %#x)" % v
        if v == 0:
            return "Float01 sample is zero"
    return None


def f64_class(bits):
    ex = (bits >> 52) & 0x7FF
    man = bits & ((1 << 52) - 1)
    if ex == 0x7FF and man:
        return "nan"
    return "num"


def f64_value(bits):
    import struct
    return struct.unpack("<d", struct.pack("<Q", bits))[0]


def bern_oracle(req, impl):
    """C14: p >= 1 -> true, p <= 0 or NaN -> false."""
    d = kv(req)
    f = parse_ok(impl)
    if f is None:
        return None
    p = int(d["p"])
    outs = ints(f[0])
    if f64_class(p) == "nan":
        if any(outs):
            return "chance(NaN) returned true"
        return None
    pv = f64_value(p)
    if pv >= 1.0 and not all(outs):
        return "chance(p >= 1) returned false"
    if pv <= 0.0 and any(outs):
        return "chance(p <= 0) returned true"
    return None

def idx_history_oracle(req, impl):
    """`idx:n` ops inside a ChaCha history: every index below its length"""
    ops, toks = req.split("ops=")[1].split(","), impl.split()
    for i, (op, t) in enumerate(zip(ops, toks)):
        if op.startswith("idx:") and t.isdigit() and int(t) >= int(op[4:]):
            return "op %d: index(%s) on ChaCha returned %s" % (i, op[4:], t)
    return None
