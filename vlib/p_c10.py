"""C10 - byte fills write exactly the requested bytes, as the little-endian word stream."""
from . import common as C

LEAN_MODULE = ["Urandom.Props.C10", "Urandom.Props.C10T", "Urandom.Props.C03T", "Urandom.Props.C01R"]
RULE = ("requests: every generator (Xoshiro256, SplitMix64, Wyrand, ChaCha8/12/20, Mock, System<N> over the scripted entropy source) x destination lengths 0..600 (+4 KiB, + 25 fills of 64 KiB .. 128 KiB at all alignment classes) x start offsets 0..15 inside a larger arena "
        "x element types u8/u16/u32/u64/u128/[u8;3]/[u32;5] x fill_bytes / fill_bytes_uninit / random_bytes / io::Read::read / read_exact, after a random prefix of draws; "
        "each case runs twice on canary backgrounds 0x00 and 0xFF: bytes, canaries, full initialisation, reported length and the next draw are compared with the model. "
        "non-trivial = length > 0; distinct = distinct request line"
        " Since rounds 9/10: zero-sized element types (z0, unit, rbunit); big typed fills with element sizes 3 and 20 (4200..100000 bytes) in the LE word-stream oracle.")
ASSUMPTIONS = ["writes are observed through a canary-framed arena (64 bytes each side) and two backgrounds; thorough runs repeat a subset under Miri (supporting evidence only)"]

ELEMS = {"u8": (1, 1), "u16": (2, 2), "u32": (4, 4), "u64": (8, 8), "u128": (16, 16), "a3u8": (3, 1), "a5u32": (20, 4), "z0": (0, 1), "unit": (0, 1)}
RB = ["rb0", "rbunit", "rb1", "rb2", "rb3", "rb4", "rb4u32", "rb4f32", "rb4u16x2", "rb8", "rb8a", "rb8f64", "rb13", "rb16", "rb20", "rb32", "rb300"]
RBLEN = {"rb0": 0, "rbunit": 0, "rb1": 1, "rb2": 2, "rb3": 3, "rb4": 4, "rb4u32": 4, "rb4f32": 4, "rb4u16x2": 4, "rb8": 8, "rb8a": 8, "rb8f64": 8, "rb13": 13, "rb16": 16, "rb20": 20, "rb32": 32, "rb300": 300}
GENS = ["xoshiro", "splitmix", "wyrand", "chacha8", "chacha12", "chacha20", "mock", "system"]


def length(r):
    k = r.below(12)
    if k < 5:
        return r.below(20)
    if k < 8:
        return r.range(240, 270)
    if k < 9:
        return r.range(505, 520)
    if k < 10:
        return r.choice([1024, 4096, 4099])
    return r.below(600)


def generate(r, tier, build):
    k = 1 if tier == "quick" else 25
    reqs = []
    for _ in range(2500 * k):
        gen = r.choice(GENS)
        api = r.choice(["fill_bytes", "fill_bytes", "fill_bytes_uninit", "random_bytes", "read", "read_exact"])
        pre = [] if gen == "mock" else [r.choice(["u32", "u64", "fill:3", "fill:250", "fill:9", "jump"]) for _ in range(r.below(4))]
        src = "words=%s" % ",".join(str(r.edge64()) for _ in range(r.choice([0, 1, 2, 3, 5, 80, 600]))) if gen == "mock" else "n=%d" % r.choice([2, 4, 31, 31, 64]) if gen == "system" else "seed=%d" % r.edge64()
        if api == "random_bytes":
            reqs.append("fillb gen=%s %s api=random_bytes elem=%s pre=%s" % (gen, src, r.choice(RB), ",".join(pre)))
            continue
        elem = "u8" if api in ("read", "read_exact") else r.choice(list(ELEMS))
        esize, align = ELEMS[elem]
        nbytes = length(r)
        count = (nbytes // esize if esize else r.choice([1, 3, 17])) if elem != "u8" else nbytes
        off = r.below(16) // align * align
        reqs.append("fillb gen=%s %s api=%s elem=%s off=%d count=%d pre=%s" % (gen, src, api, elem, off, count, ",".join(pre)))
    return reqs


def big_fills():
    """fills of 64 KiB and more at every alignment class: a bulk path that is switched on by the LENGTH and aligns the destination by hand"""
    out = []
    shapes = [("fill_bytes", "u8", 3, 65536), ("fill_bytes", "u8", 5, 100003), ("fill_bytes_uninit", "u8", 1, 65535), ("fill_bytes", "u8", 0, 65537), ("fill_bytes", "u8", 8, 70001),
              ("fill_bytes", "u16", 2, 40000), ("read", "u8", 5, 66000), ("read_exact", "u8", 7, 65543), ("fill_bytes", "u32", 4, 20001), ("fill_bytes", "u8", 15, 131077),
              # element sizes that divide neither 4096 nor 65536: a typed wrapper that splits big requests "on element boundaries" ends its chunks inside a word
              ("fill_bytes", "a3u8", 1, 1400), ("fill_bytes_uninit", "a5u32", 4, 210), ("fill_bytes", "a3u8", 0, 30000), ("fill_bytes", "a5u32", 8, 5000), ("fill_bytes_uninit", "a3u8", 2, 21846)]
    for gi, gen in enumerate(("xoshiro", "splitmix", "wyrand", "chacha12")):
        for si, (api, elem, off, count) in enumerate(shapes):
            if (gi + si) % 2 == 0 or gen == "xoshiro":
                out.append("fillb gen=%s seed=%d api=%s elem=%s off=%d count=%d pre=%s" % (gen, 1000 + 17 * si + gi, api, elem, off, count, "u32" if si % 3 == 0 else ""))
    return out


def corpus(build):
    return ["fillb gen=xoshiro seed=0 api=fill_bytes elem=u8 off=0 count=0 pre=",
            "fillb gen=chacha20 seed=0 api=fill_bytes elem=u8 off=1 count=256 pre=u32",
            "fillb gen=chacha8 seed=0 api=read_exact elem=u8 off=15 count=513 pre=fill:250",
            "fillb gen=mock words=1,2 api=fill_bytes elem=u8 off=0 count=17 pre=",
            "fillb gen=system n=31 api=fill_bytes elem=u8 off=3 count=257 pre=u32", "fillb gen=system n=4 api=read elem=u8 off=0 count=700 pre=",
            "fillb gen=system n=31 api=fill_bytes_uninit elem=u64 off=8 count=33 pre=u64,fill:3"]


def classify(req, model):
    if "count=0" in req or "elem=rb0" in req or "elem=rbunit" in req or "elem=z0" in req or "elem=unit" in req:
        return None
    return req.split()[1] + "/" + [t for t in req.split() if t.startswith("api=")][0]


def oracle(req, impl, build):
    if impl == "panic":
        return None
    toks = dict(t.split(":", 1) for t in impl.split())
    if toks.get("canary") != "ok":
        return "a byte outside the destination was overwritten"
    if toks.get("init") != "ok":
        return "a destination byte was left unwritten (differs between the two canary backgrounds)"
    d = dict(t.split("=", 1) for t in req.split()[1:])
    if d["api"] != "random_bytes":
        want = int(d["count"]) * ELEMS[d["elem"]][0]
        if toks.get("ret") not in (str(want), "-"):
            return "reported length %s, requested %d" % (toks.get("ret"), want)
        if len(toks["b"]) != 2 * want:
            return "wrong number of bytes"
    return None


def extra(binary, build, tier, rng):
    """model-independent oracle for the word-based generators: a fill of n bytes is exactly the first n bytes of the
    little-endian serialisation of the successive next_u64 outputs from the same state, at every start offset"""
    n = 400 if tier == "quick" else 8000
    cases = []
    for _ in range(n):
        gen = rng.choice(["xoshiro", "splitmix", "wyrand"])
        seed = rng.edge64()
        pre = [rng.choice(["u32", "u64", "fill:3", "fill:8", "jump"]) for _ in range(rng.below(3))]
        nbytes = length(rng)
        off = rng.below(16)
        api = rng.choice(["fill_bytes", "read", "read_exact", "fill_bytes_uninit", "random_bytes"])
        if api == "random_bytes":
            shape = rng.choice(RB)
            nbytes, off = RBLEN[shape], shape
        cases.append((gen, seed, pre, nbytes, off, api))
    # fills of 64 KiB and more at every alignment class (implementation only: the list-based model driver is too slow for them)
    big = []
    for q in big_fills():
        d = dict(t.split("=", 1) for t in q.split()[1:])
        if d["gen"] in ("xoshiro", "splitmix", "wyrand"):
            big.append((d["gen"], int(d["seed"]), [x for x in d["pre"].split(",") if x], int(d["count"]) * ELEMS[d["elem"]][0], int(d["off"]), d["api"], q))
    if build == "dev" or tier != "quick":
        cases += [b[:6] for b in big]
    reqs = []
    for gen, seed, pre, nbytes, off, api in cases:
        if api == "random_bytes":
            reqs.append("fillb gen=%s seed=%d api=random_bytes elem=%s pre=%s" % (gen, seed, off, ",".join(pre)))
        elif any(b[:2] == (gen, seed) and b[3] == nbytes and b[4] == off and b[5] == api for b in big):
            reqs.append(next(b[6] for b in big if b[:2] == (gen, seed) and b[3] == nbytes and b[4] == off and b[5] == api))
        else:
            reqs.append("fillb gen=%s seed=%d api=%s elem=u8 off=%d count=%d pre=%s" % (gen, seed, api, off, nbytes, ",".join(pre)))
        reqs.append("word gen=%s seed=%d via=from_seed ops=%s" % (gen, seed, ",".join(pre + ["u64"] * ((nbytes + 7) // 8 + 1))))
    rc, res, err = C.run_lines(binary, ["run"], reqs)
    for k, (gen, seed, pre, nbytes, off, api) in enumerate(cases):
        fr, wr = res[2 * k], res[2 * k + 1]
        if fr == "panic" or wr == "panic":
            continue
        o = oracle(reqs[2 * k], fr, build) if nbytes >= 65535 else None      # the big fills do not pass through the main stream: canaries / initialisation / length here
        if o:
            yield {"kind": "oracle", "build": build, "request": reqs[2 * k], "impl": fr[:300], "model": "", "oracle": o}
            continue
        ft = dict(t.split(":", 1) for t in fr.split())
        words = [int(t) for t in wr.split()[len(pre):] if t.isdigit()]
        want = b"".join(w.to_bytes(8, "little") for w in words)
        got = bytes.fromhex(ft["b"])
        if got != want[:nbytes]:
            i = next(j for j in range(nbytes) if got[j:j + 1] != want[j:j + 1])
            yield {"kind": "oracle", "build": build, "request": reqs[2 * k], "impl": fr[:300], "model": wr[:300],
                   "oracle": "the %d-byte fill is not the little-endian serialisation of the successive next_u64 outputs from the same state (first difference at byte %d; start offset / shape %s)" % (nbytes, i, off)}
        elif ft.get("next") != str(words[(nbytes + 7) // 8]):
            # the property fixes the bytes, not how far the generator has advanced afterwards: reported, not judged
            yield {"kind": "note", "text": "%s: after the %d-byte fill the generator is not exactly ceil(n/8) words further" % (reqs[2 * k], nbytes)}
    if build == "dev" or tier != "quick":
        cq = [q for q in big_fills() if "gen=chacha" in q]
        rc, cres, err = C.run_lines(binary, ["run"], cq)
        for q, fr in zip(cq, cres):
            o = oracle(q, fr, build) if fr != "panic" else "a fill of 64 KiB or more panicked"
            if o:
                yield {"kind": "oracle", "build": build, "request": q, "impl": fr[:300], "model": "", "oracle": o}
    if build == "release":
        # destinations of 2^32 bytes and more (ChaCha through fill_bytes and through io::Read, a word generator): every byte written, full length reported
        reqs = ["bigfill gen=chacha8 seed=11 pre32=1 len=%d api=read" % ((1 << 32) + 16), "bigfill gen=chacha8 seed=12 pre32=1 len=%d api=fill_bytes" % (1 << 32),
                "bigfill gen=chacha20 seed=13 pre32=0 len=%d api=fill_bytes" % ((1 << 32) + 300), "bigfill gen=wyrand seed=14 pre32=1 len=%d api=read" % ((1 << 32) + 5)]
        for q, o in zip(reqs, C.run_parallel(binary, reqs)):
            f = dict(t.split(":", 1) for t in o.split()) if o.startswith("le:") else {}
            want = q.split("len=")[1].split()[0]
            if not f:
                yield {"kind": "oracle", "build": build, "request": q, "impl": o, "model": "", "oracle": "a fill of 2^32 bytes or more failed: " + o}
            elif f["zero_windows"] != "0":
                yield {"kind": "oracle", "build": build, "request": q, "impl": o, "model": "", "oracle": "%s of %s probed 4 KiB windows of a %s-byte destination were left unwritten (still zero)" % (f["zero_windows"], f["of"], want)}
            elif "api=read" in q and f["ret"] != want:
                yield {"kind": "oracle", "build": build, "request": q, "impl": o, "model": "", "oracle": "io::Read::read reported %s for a %s-byte destination" % (f["ret"], want)}
            elif f["le"] not in ("ok", "-"):
                yield {"kind": "oracle", "build": build, "request": q, "impl": o, "model": "", "oracle": "byte %s of a %s-byte fill is not the little-endian word stream" % (f["le"], want)}
        yield {"kind": "count", "what": "huge-fill-requests", "n": len(reqs)}
    yield {"kind": "count", "what": "le-word-stream-checks", "n": len(cases)}


def big_fill_le_oracle(binary, build, label=""):
    """fills of 64 KiB and more at every alignment class, word-based generators: the bytes must be the little-endian serialisation of the
    successive next_u64 outputs from the same state (implementation only; shared with C01, whose streams these are)"""
    big = []
    for q in big_fills():
        d = dict(t.split("=", 1) for t in q.split()[1:])
        if d["gen"] in ("xoshiro", "splitmix", "wyrand"):
            pre = [x for x in d["pre"].split(",") if x]
            nbytes = int(d["count"]) * ELEMS[d["elem"]][0]
            big.append((q, d["gen"], int(d["seed"]), pre, nbytes))
    reqs = []
    for q, gen, seed, pre, nbytes in big:
        reqs += [q, "word gen=%s seed=%d via=from_seed ops=%s" % (gen, seed, ",".join(pre + ["u64"] * ((nbytes + 7) // 8 + 1)))]
    rc, res, err = C.run_lines(binary, ["run"], reqs)
    for k, (q, gen, seed, pre, nbytes) in enumerate(big):
        fr, wr = res[2 * k], res[2 * k + 1]
        if fr == "panic" or wr == "panic":
            yield {"kind": "oracle", "build": build, "request": q, "impl": fr[:100], "model": "", "oracle": "a fill of %d bytes panicked" % nbytes}
            continue
        ft = dict(t.split(":", 1) for t in fr.split())
        words = [int(t) for t in wr.split()[len(pre):] if t.isdigit()]
        want = b"".join(w.to_bytes(8, "little") for w in words)
        got = bytes.fromhex(ft["b"])
        if got != want[:nbytes]:
            i = next(j for j in range(nbytes) if got[j:j + 1] != want[j:j + 1])
            yield {"kind": "oracle", "build": build, "request": q, "impl": fr[:300], "model": wr[:300],
                   "oracle": "%sthe %d-byte fill is not the little-endian serialisation of the successive next_u64 outputs from the same state (first difference at byte %d)" % (label, nbytes, i)}
    yield {"kind": "count", "what": "big-fill-le-checks", "n": len(big)}
