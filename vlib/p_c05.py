"""C05 - shuffle / partial_shuffle are exact uniform permutations of the slice."""
from . import common as C, gen_int as G, oracles as O

LEAN_MODULE = "Urandom.Props.C05"
RULE = ("requests: shuffle / partial_shuffle(n) on slices of length 0..24 (and a few hundred), n in {0,1,len-1,len,len+1,usize::MAX,random}, "
        "scripted words realising chosen index values at both ends of their acceptance interval with interspersed rejected words; "
        "non-trivial = slice length >= 2; distinct = distinct request line. extra: complete enumeration of the index-tuple space for n <= 6 on the implementation")
ASSUMPTIONS = ["elements are integers; the algorithms never inspect elements (generic over T)"]


def generate(r, tier, build):
    k = 1 if tier == "quick" else 20
    return G.shuf_requests(r, 1200 * k) + G.pshuf_requests(r, 1200 * k)


def corpus(build):
    return ["shuf items= words=", "shuf items=7 words=", "pshuf items=1,2,3 m=18446744073709551615 words=0,0,0,0,0,0",
            "pshuf items=1,2 m=0 words="]


def classify(req, model):
    d = O.kv(req)
    n = len(O.ints(d["items"]))
    if n < 2:
        return None
    return d["_kind"] + ("/panic" if model == "panic" else "")


def oracle(req, impl, build):
    return O.perm_oracle(req, impl)


def extra(binary, build, tier, rng):
    from .enum_oracle import run_enum
    specs = [("shuf", n, 0, 60, n - 1) for n in (2, 3, 4)] + [("pshuf", n, k, 60, min(k, n - 1)) for n in (2, 3, 4) for k in range(0, n + 2)]
    if tier == "thorough":
        specs += [("shuf", 5, 0, 60, 4), ("pshuf", 5, 3, 60, 3), ("pshuf", 5, 9, 60, 4)]
    return run_enum(binary, specs, "enumerated-draw-tuples")
