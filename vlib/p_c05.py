"""C05 - shuffle / partial_shuffle are exact uniform permutations of the slice."""
from . import common as C, gen_int as G, oracles as O

LEAN_MODULE = ["Urandom.Props.C05", "Urandom.Props.C05T", "Urandom.Props.C04R"]
RULE = ("requests: shuffle / partial_shuffle(n) on slices of length 0..24 (and a few hundred), n in {0,1,len-1,len,len+1,usize::MAX,random}, "
        "scripted words realising chosen index values at both ends of their acceptance interval with interspersed rejected words; "
        "non-trivial = slice length >= 2; distinct = distinct request line. extra: complete enumeration of the index-tuple space for n <= 6 on the implementation"
        " Since rounds 8-10: exact first-draw counts through shuffle and second-draw counts of partial_shuffle(.., 2) incl. the words behind a rejected one (the outcome mapping is learnt from the middle words; no assumption on which element a draw moves); index(n) as op idx:n inside ChaCha histories at every kind of buffer position (model: the distribution model on the block model's own draws).")
ASSUMPTIONS = ["elements are integers; the algorithms never inspect elements (generic over T)"]


def generate(r, tier, build):
    k = 1 if tier == "quick" else 20
    from . import gen_chacha as GC
    # index() - the draw behind shuffle / choose / single / multiple - on a REAL block generator at every kind of buffer position
    return (G.shuf_requests(r, 1200 * k) + G.pshuf_requests(r, 1200 * k) + big_slices(r, (3 if build == "release" else 1) if tier == "quick" else 40)) + GC.dist_histories(r, (120 if tier == "quick" else 3000), lambda r: "idx:%d" % r.choice([1, 2, 3, 5, 6, 7, 10, 11, 100, 255, 256, 1000003, (1 << 32) + 1, (1 << 63) + 5, r.range(1, 1 << 40)]))


def big_slices(r, count):
    """partial_shuffle on slices of about 2^32 elements (the index no longer fits 32 bits): words realising the last, the first and middle positions"""
    from .gen_int import word_for
    reqs = []
    for j in range(count):
        n = [(1 << 32) + 1, 1 << 32, (1 << 32) + 16, (1 << 32) - 1, (1 << 32) + (1 << 31), (1 << 33) - 5][j % 6] if j < 6 else r.choice([(1 << 32) - 1, 1 << 32, (1 << 32) + 1, (1 << 32) + 16, (1 << 32) + (1 << 31), (1 << 33) - 5])
        m = r.choice([1, 1, 2, 3])
        words = []
        for i in range(m):
            ln = n - i
            kk = r.choice([ln - 1, 0, ln // 2, (1 << 32) % ln, r.below(ln)])
            words.append(word_for(ln, 64, kk, r.choice(["lo", "hi", "rand"]), r))
        reqs.append("bigshuf n=%d m=%d words=%s" % (n, m, ",".join(map(str, words + [r.u64()]))))
    return reqs


def corpus(build):
    return ["shuf items= words=", "shuf items=7 words=", "pshuf items=1,2,3 m=18446744073709551615 words=0,0,0,0,0,0",
            "pshuf items=1,2 m=0 words="]


def classify_big(req):
    return "bigshuf"


def classify(req, model):
    if req.startswith("chacha"):
        return "chacha"
    if req.startswith("bigshuf"):
        return "bigshuf"
    d = O.kv(req)
    n = len(O.ints(d["items"]))
    if n < 2:
        return None
    return d["_kind"] + ("/panic" if model == "panic" else "")


def oracle(req, impl, build):
    if req.startswith("chacha"):
        return O.idx_history_oracle(req, impl)
    if req.startswith("bigshuf"):
        # the marks must still be inside the slice, at pairwise different places; the word chosen to realise the LAST position must really
        # reach beyond 2^32 (a 32-bit index cannot)
        d = O.kv(req)
        f = O.parse_ok(impl)
        if f is None:
            return None          # a panic is judged by panic_with_words_left: the scripted words may simply have run out (a sampler that rejects more)
        pos = O.ints(f[0])
        n = int(d["n"])
        if any(p >= n for p in pos):
            return "an element left the slice (position %d of %d)" % (max(pos), n)
        if len(set(pos)) != len(pos):
            return "two marked elements ended up in the same place"
        return None
    return O.perm_oracle(req, impl)


def panic_with_words_left(req, left, build):
    if req.startswith("bigshuf"):
        return "partial_shuffle panicked on a slice of %s elements with %d scripted words still unread (not the word source running dry)" % (O.kv(req)["n"], left)
    return None


def extra(binary, build, tier, rng):
    if build != "dev" and tier == "quick":
        return          # the exhaustive / statistical searches run once per quick check (dev profile); the release profile gets the request stream
    from .enum_oracle import run_enum
    specs = [("shuf", n, 0, 60, n - 1) for n in (2, 3, 4)] + [("pshuf", n, k, 60, min(k, n - 1)) for n in (2, 3, 4) for k in range(0, n + 2)]
    if tier == "thorough":
        specs += [("shuf", 5, 0, 60, 4), ("pshuf", 5, 3, 60, 3), ("pshuf", 5, 9, 60, 4)]
    yield from run_enum(binary, specs, "enumerated-draw-tuples")
    # exact preimage counts of the first draw (which element goes to the front), by interval search over all 2^64 words
    from .preimage_oracle import first_draw_counts
    def front(res):
        f = O.parse_ok(res)
        return None if f is None else int(f[0].split(",")[0])
    ps = []
    for n in ((3, 5, 6, 7) if tier == "quick" else (2, 3, 5, 6, 7, 9, 11, 15, 17, 51, 60)):
        items = ",".join(map(str, range(n)))
        ps.append(("partial_shuffle(%d elements, 1): element at the front" % n, n, 64, (lambda w, items=items: "pshuf items=%s m=1 words=%d" % (items, w)), front, (lambda w1, w2, items=items: "pshuf items=%s m=1 words=%d,%d" % (items, w1, w2))))
    # shuffle draws through `Random::index` (not `range`): the outcome of the FIRST draw, whatever it decides.  The later draws get a word that every
    # length accepts (t * len mod 2^64 is len or 2^63 + len, never below the rejection zone 2^64 mod len < len), so the whole result is a step
    # function of the first word with one step per value of the first draw; which result belongs to which value is LEARNT from the middle words of
    # the n intervals (no assumption on which element the first draw moves, or where to); exact uniformity = the n steps are equally long.
    from .preimage_oracle import Prober
    T = (1 << 63) + 1
    for n in ((9, 11, 19, 23, 27, 9 + rng.below(60), 9 + rng.below(60)) if tier == "quick" else tuple(range(9, 70)) + (100,)):      # (the request line grows with n: every probe carries the n items and the n - 2 tail words)
        items = ",".join(map(str, range(n)))
        tail = ",".join([str(T)] * (n - 2))      # exactly the n - 2 further draws: a rejected first word makes the script run dry (no outcome)
        mk = (lambda w, items=items, tail=tail: "shuf items=%s words=%d,%s" % (items, w, tail))
        whole = lambda res: (lambda f: None if f is None else f[0])(O.parse_ok(res))
        mids = Prober(binary, mk, whole).many([((2 * c + 1) << 64) // (2 * n) for c in range(n)])
        if None in mids or len(set(mids)) != n:
            yield {"kind": "note", "text": "shuffle(%d): the results for the middle words of the %d intervals are not %d different orders - first-draw count skipped (another sampler / draw order)" % (n, n, n)}
            continue
        rank = {m: c for c, m in enumerate(mids)}
        ps.append(("shuffle(%d elements): outcome of the first draw" % n, n, 64, mk, (lambda res, rank=rank, whole=whole: rank.get(whole(res)))))
    # the SECOND step of partial_shuffle draws from a range with a non-zero base (`range(1..len)`): which element is placed second, counted over all
    # words - and over the words behind a rejected one (a retry path of its own must add the base as well).  The first word (1) is accepted by
    # every length and leaves the slice as it is.
    for n in ((4, 6, 12) if tier == "quick" else (3, 4, 6, 7, 8, 12, 20, 37, 100)):
        items = ",".join(map(str, range(n)))
        mk = (lambda w, items=items: "pshuf items=%s m=2 words=1,%d" % (items, w))
        mk2 = (lambda w1, w2, items=items: "pshuf items=%s m=2 words=1,%d,%d" % (items, w1, w2))
        whole = lambda res: (lambda f: None if f is None else f[0])(O.parse_ok(res))
        mids = Prober(binary, mk, whole).many([((2 * c + 1) << 64) // (2 * (n - 1)) for c in range(n - 1)])
        if None in mids or len(set(mids)) != n - 1:
            yield {"kind": "note", "text": "partial_shuffle(%d, 2): the results for the middle words of the %d intervals of the second draw are not %d different results - count skipped" % (n, n - 1, n - 1)}
            continue
        rank = {m: c for c, m in enumerate(mids)}
        # a result that the first stage never produces is reported as outcome -1 (a retry must land on the same results)
        ps.append(("partial_shuffle(%d elements, 2): outcome of the second draw" % n, n - 1, 64, mk, (lambda res, rank=rank, whole=whole: None if whole(res) is None else rank.get(whole(res), -1)), mk2))
    # mid-sized slices (the element that reaches the front of a slice of n zero bytes with one mark): request bigshuf
    def frontbig(res):
        f = O.parse_ok(res)
        return None if f is None else int(f[0].split(",")[0])
    for n in ((100000, 1000003) if tier == "quick" else (65792, 100000, 250000, 1000003, 16777259)):
        ps.append(("partial_shuffle(%d elements, 1): where the first element goes" % n, n, 64, (lambda w, n=n: "bigshuf n=%d m=1 words=%d" % (n, w)), frontbig))
    yield from first_draw_counts(binary, build, rng, ps, "preimage-interval-probes")
    # frequency test under real generators (model-free; alarm only beyond a 1e-12 chi-square bound)
    from .stat_oracle import run_stat, samples_for
    specs = []
    for (kind, n, k) in [("shuf", 2, 0), ("shuf", 3, 0), ("shuf", 4, 0), ("shuf", 5, 0), ("pshuf", 4, 2), ("pshuf", 6, 2), ("pshuf", 5, 4), ("pshuf", 5, 5), ("pshuf", 4, 9), ("pshuf", 7, 1)] + ([("shuf", 6, 0), ("pshuf", 8, 3), ("pshuf", 6, 5)] if tier == "thorough" else []):
        specs.append((kind, n, k, samples_for(kind, n, k, tier), rng.u64(), None, rng.choice(["xoshiro", "splitmix", "wyrand", "chacha8"])))
    # slices around the 8-, 16-bit (thorough: 20-bit) index boundaries: the quarter in which a tracked element ends up must be uniform
    sizes = [65535, 65536, 65537] if tier == "quick" else [255, 256, 257, 65535, 65536, 65537, 65538, 70001, 131072, 1 << 20]
    for n in sizes:
        for (kind, k) in (("shufpos", 0), ("shufpos", n - 1), ("pshufpos", 0), ("pshufpos", 2)):
            specs.append((kind, n, k, 4000 if n <= 1 << 17 else 1000 * 4, rng.u64(), None, rng.choice(["xoshiro", "splitmix", "wyrand"])))
    yield from run_stat(binary, specs, "frequency-test-samples", build)
