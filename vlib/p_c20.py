"""C20 - only real CSPRNGs carry the secure marker; ChaCha cannot be seeded from a PRNG."""
import glob, os, subprocess, tempfile, shutil
from concurrent.futures import ThreadPoolExecutor
from . import common as C

LEAN_MODULE = "Urandom.Props.C20"
RULE = ("the impl table (every `impl SecureRng for`, the bound of ChaCha::from_rng, the return types of new/seeded/csprng) is re-extracted from the source on every run and the "
        "finite theorems are re-decided on it; probes: small client programs compiled (rustc --emit=metadata) against the freshly built crate - assert_secure::<G>() and "
        "ChaCha12::from_rng(&mut Random<G>) for every public generator incl. a user-defined Rng (blanket-impl detector), csprng/new/seeded passed to a function requiring the marker; "
        "compositions of public types (Read<Random<G>>, Read<&mut Random<G>>, &mut G, Box<G>, Random<G>, Read over std readers) must be rejected; every impl header in the current source whose target is "
        "not a ChaCha/System generator is instantiated; every associated fn of a ChaCha type that takes a generator (inherent or through a trait impl) is called with unmarked generators and must be rejected; "
        "impl headers whose target is not a ChaCha/System generator are instantiated (lifetimes, consts, candidate types) into client programs that must be rejected; "
        "accept/reject must equal what the property states. non-trivial = every probe; distinct = distinct probe source"
        " Since round 9: probes for round counts nobody vetted (ChaCha<0>, <1>, <7>, <19>: the type exists, the marker must not).")
TRUSTED = ["rustc's trait checking (the guarantee itself is enforced by the compiler)", "tools/extract.py (regex translation of impl headers; cross-checked by the probes)"]
ASSUMPTIONS = ["the probes cover the generators exported from urandom::rng at the pinned commit plus one user-defined Rng; a newly added generator type would need a new probe"]

GENS = {
    "ChaCha8": ("urandom::rng::ChaCha8", True), "ChaCha12": ("urandom::rng::ChaCha12", True), "ChaCha20": ("urandom::rng::ChaCha20", True),
    "ChaCha<20>": ("urandom::rng::ChaCha<20>", True),
    # round counts nobody vetted (0 rounds = the key in the clear): the type exists, the marker must not
    "ChaCha<0>": ("urandom::rng::ChaCha<0>", False), "ChaCha<1>": ("urandom::rng::ChaCha<1>", False), "ChaCha<7>": ("urandom::rng::ChaCha<7>", False), "ChaCha<19>": ("urandom::rng::ChaCha<19>", False),
    "System<31>": ("urandom::rng::System<31>", True), "System<1>": ("urandom::rng::System<1>", True),
    "Xoshiro256": ("urandom::rng::Xoshiro256", False), "SplitMix64": ("urandom::rng::SplitMix64", False), "Wyrand": ("urandom::rng::Wyrand", False),
    "Mock": ("urandom::rng::Mock<std::iter::Repeat<u64>>", False), "Read": ("urandom::rng::Read<&'static [u8]>", False),
    "dyn Rng": ("dyn urandom::Rng", False), "UserRng": ("UserRng", False),
}
PRELUDE = """#![allow(dead_code, unused)]
use urandom::rng::SecureRng;
pub struct UserRng;
impl urandom::Rng for UserRng {
    fn next_u32(&mut self) -> u32 { 4 }
    fn next_u64(&mut self) -> u64 { 4 }
    fn fill_bytes(&mut self, _buf: &mut [std::mem::MaybeUninit<u8>]) {}
    fn jump(&mut self) {}
}
fn assert_secure<T: SecureRng + ?Sized>() {}
fn need_secure<T: SecureRng>(_: &urandom::Random<T>) {}
"""


def probes():
    ps = []
    for name, (ty, ok) in GENS.items():
        ps.append(("marker:" + name, PRELUDE + "pub fn probe() { assert_secure::<%s>(); }\n" % ty, ok))
        if name != "dyn Rng":
            ps.append(("from_rng:" + name, PRELUDE + "pub fn probe(r: &mut urandom::Random<%s>) { let _ = urandom::rng::ChaCha12::from_rng(r); }\n" % ty, ok))
    ps.append(("csprng-is-secure", PRELUDE + "pub fn probe() { need_secure(&urandom::csprng()); }\n", True))
    ps.append(("new-not-secure", PRELUDE + "pub fn probe() { need_secure(&urandom::new()); }\n", False))
    ps.append(("seeded-not-secure", PRELUDE + "pub fn probe() { need_secure(&urandom::seeded(1)); }\n", False))
    ps.append(("chacha-from-csprng", PRELUDE + "pub fn probe() { let mut r = urandom::csprng(); let _ = urandom::rng::ChaCha20::from_rng(&mut r); }\n", True))
    ps.append(("chacha-from-new", PRELUDE + "pub fn probe() { let mut r = urandom::new(); let _ = urandom::rng::ChaCha20::from_rng(&mut r); }\n", False))
    ps.append(("sanity-compiles", PRELUDE + "pub fn probe() { let _ = urandom::new().next_u32(); }\n", True))
    return ps


ALLOWED_TARGET = __import__("re").compile(r"^(ChaCha<\s*(8|12|20|\w+)\s*>|ChaCha(8|12|20)|System<\s*\w+\s*>)$")
PRELUDE2 = PRELUDE + "use urandom::*;\nuse urandom::rng::*;\n"
TYPE_CANDIDATES = ["urandom::rng::Xoshiro256", "UserRng", "urandom::rng::SplitMix64", "urandom::rng::Wyrand", "urandom::rng::Mock<std::iter::Repeat<u64>>",
                   "&'static [u8]", "std::io::Empty", "urandom::rng::ChaCha12", "dyn urandom::Rng"]
# compositions of public types that must never carry the marker (found independently of the source translator, e.g. macro-generated impls)
WRAPPED = ["urandom::rng::Read<urandom::Random<{B}>>", "urandom::rng::Read<&'static mut urandom::Random<{B}>>", "&'static mut {B}", "Box<{B}>", "urandom::Random<{B}>"]
WRAP_BASES = ["urandom::rng::Xoshiro256", "urandom::rng::SplitMix64", "urandom::rng::Wyrand", "UserRng"]
FIXED_REJECT = ["urandom::rng::Read<std::io::Empty>", "urandom::rng::Read<std::io::Cursor<Vec<u8>>>", "urandom::rng::Read<std::fs::File>",
                "urandom::rng::Read<urandom::Random<urandom::rng::ChaCha12>>", "urandom::rng::Mock<std::vec::IntoIter<u64>>"]


def split_top(s):
    out, depth, cur = [], 0, ""
    for ch in s:
        if ch in "<([":
            depth += 1
        elif ch in ">)]":
            depth -= 1
        if ch == "," and depth == 0:
            out.append(cur.strip()); cur = ""
        else:
            cur += ch
    if cur.strip():
        out.append(cur.strip())
    return out


def instantiate(gen, target):
    """concrete instances of an impl header's target: lifetimes -> 'static, const parameters -> small values, type parameters -> every candidate type"""
    import itertools, re
    params = split_top(gen.strip()[1:-1]) if gen.strip().startswith("<") else []
    choices = []
    for prm in params:
        name = prm.split(":")[0].split("=")[0].strip()
        if name.startswith("'"):
            choices.append([(name, "'static")])
        elif name.startswith("const "):
            choices.append([(name.split()[1], v) for v in ("1", "8")])
        else:
            choices.append([(name, c) for c in TYPE_CANDIDATES])
    out = []
    for combo in itertools.islice(itertools.product(*choices), 200):
        t = target
        for name, val in combo:
            t = re.sub(r"(?<![\w'])%s(?!\w)" % re.escape(name), val, t)
        out.append(t)
    return out or [target]


def synthesized_probes():
    """client programs derived from the impl table of the CURRENT source: every `impl SecureRng for T` whose target is not a ChaCha / System
    generator is instantiated; a program that compiles with it is a client the property says must be rejected"""
    import sys
    sys.path.insert(0, os.path.join(C.VERIF, "tools"))
    import extract
    ps = []
    for rel, gen, target, where in extract.secure_impls():
        if ALLOWED_TARGET.match(target):
            continue
        for k, t in enumerate(instantiate(gen, target)):
            ps.append(("unexpected-impl:%s:%s#%d" % (rel, target, k), PRELUDE2 + "pub fn probe() { assert_secure::<%s>(); }\n" % t, False))
            ps.append(("unexpected-impl-seeds-chacha:%s:%s#%d" % (rel, target, k), PRELUDE2 + "pub fn probe(r: &mut urandom::Random<%s>) { let _ = urandom::rng::ChaCha12::from_rng(r); }\n" % t, False))
    # every associated fn of a ChaCha type that takes another generator must demand the marker: call each with unmarked generators
    for rel, header, fname, gen, args, where in extract.chacha_seeders():
        m = __import__("re").search(r"impl\s*(?:<[^>]*>)?\s*([\w:]+)(?:<[^>]*>)?\s+for\s+ChaCha", header)
        callee = "<urandom::rng::ChaCha12 as %s>::%s" % (m.group(1), fname) if m else "urandom::rng::ChaCha12::%s" % fname
        for k, src in enumerate(["urandom::seeded(1)", "urandom::new()", "urandom::rng::SplitMix64::from_seed(1)", "urandom::rng::Wyrand::from_seed(1)", "urandom::Random::<UserRng>::from(UserRng)"]):
            ps.append(("chacha-seeder:%s:%s:%s#%d" % (rel, header[:40], fname, k), PRELUDE2 + "pub fn probe() { let mut g = %s; let _ = %s(&mut g); }\n" % (src, callee), False))
    for w in WRAPPED:
        for b in WRAP_BASES:
            t = w.replace("{B}", b)
            ps.append(("composed:" + t, PRELUDE + "pub fn probe() { assert_secure::<%s>(); }\n" % t, False))
    for t in FIXED_REJECT:
        ps.append(("composed:" + t, PRELUDE + "pub fn probe() { assert_secure::<%s>(); }\n" % t, False))
    return ps


def regenerate():
    import sys
    sys.path.insert(0, os.path.join(C.VERIF, "tools"))
    import extract
    extract.main()


def builds(tier):
    return ["dev"] if tier == "quick" else ["dev", "release"]


def generate(r, tier, build):
    return []


def corpus(build):
    return []


def extra(binary, build, tier, rng):
    deps = os.path.join(os.path.dirname(binary), "deps")
    rlibs = sorted(glob.glob(os.path.join(deps, "liburandom-*.rlib")), key=os.path.getmtime)
    if not rlibs:
        yield {"kind": "oracle", "build": build, "request": "probe setup", "impl": "no liburandom rlib", "model": "", "oracle": "cannot find the built crate"}
        return
    rlib = rlibs[-1]
    tmp = tempfile.mkdtemp(prefix="c20probes-", dir=os.path.join(C.HARNESS_DIR, os.path.basename(os.path.dirname(os.path.dirname(binary)))))
    ps = probes() + synthesized_probes()

    def run(p):
        name, src, want = p
        path = os.path.join(tmp, "p%d_" % abs(hash(name)) + "".join(ch if ch.isalnum() else "_" for ch in name)[:60] + ".rs")
        open(path, "w").write(src)
        cmd = ["rustc", "--edition", "2021", "--crate-type", "lib", "--emit=metadata", "-L", "dependency=" + deps, "--extern", "urandom=" + rlib,
               "--cfg", C.GUARD, "-o", path + ".rmeta", path]
        pr = subprocess.run(cmd, stdout=subprocess.PIPE, stderr=subprocess.PIPE, text=True)
        return name, src, want, pr.returncode == 0, pr.stderr

    with ThreadPoolExecutor(max_workers=8) as ex:
        results = list(ex.map(run, ps))
    shutil.rmtree(tmp, ignore_errors=True)
    sane = [r for r in results if r[0] == "sanity-compiles"][0]
    if not sane[3]:
        yield {"kind": "oracle", "build": build, "request": "probe sanity-compiles", "impl": sane[4][-400:], "model": "", "oracle": "probe infrastructure broken: a trivially valid client does not compile"}
        return
    for name, src, want, got, err in results:
        if not want and not got and "E0277" not in err and not name.startswith(("unexpected-impl", "chacha-seeder")):
            # a probe that is rejected for another reason than the missing marker proves nothing
            yield {"kind": "note", "text": "probe %s is rejected for a reason other than the marker bound (vacuous): %s" % (name, err.strip().split("\n")[0][:160])}
        if want != got:
            what = "compiles but must be rejected (a generator without the marker is accepted as secure)" if got else "is rejected but must compile"
            if not got and "E0277" not in err:
                what += " (unexpected error: %s)" % err.strip().split("\n")[0][:160]
            yield {"kind": "oracle", "build": build, "request": "probe " + name, "impl": src[src.index("pub fn probe"):].strip(), "model": "accept" if want else "reject (E0277)",
                   "oracle": "client program `%s` %s" % (name, what)}
    yield {"kind": "count", "what": "rustc-probes", "n": len(results), "distinct": len({r[1] for r in results}),
           "samples": [{"probe": r[0], "source": r[1][r[1].index("pub fn probe"):].strip(), "expected": "accept" if r[2] else "reject", "compiled": r[3]} for r in results[:3]]}


def classify(req, model):
    return "probe"
