"""C20 - only real CSPRNGs carry the secure marker; ChaCha cannot be seeded from a PRNG."""
import glob, os, subprocess, tempfile, shutil
from concurrent.futures import ThreadPoolExecutor
from . import common as C

LEAN_MODULE = "Urandom.Props.C20"
RULE = ("the impl table (every `impl SecureRng for`, the bound of ChaCha::from_rng, the return types of new/seeded/csprng) is re-extracted from the source on every run and the "
        "finite theorems are re-decided on it; probes: small client programs compiled (rustc --emit=metadata) against the freshly built crate - assert_secure::<G>() and "
        "ChaCha12::from_rng(&mut Random<G>) for every public generator incl. a user-defined Rng (blanket-impl detector), csprng/new/seeded passed to a function requiring the marker; "
        "accept/reject must equal what the property states. non-trivial = every probe; distinct = distinct probe source")
TRUSTED = ["rustc's trait checking (the guarantee itself is enforced by the compiler)", "tools/extract.py (regex translation of impl headers; cross-checked by the probes)"]
ASSUMPTIONS = ["the probes cover the generators exported from urandom::rng at the pinned commit plus one user-defined Rng; a newly added generator type would need a new probe"]

GENS = {
    "ChaCha8": ("urandom::rng::ChaCha8", True), "ChaCha12": ("urandom::rng::ChaCha12", True), "ChaCha20": ("urandom::rng::ChaCha20", True),
    "ChaCha<20>": ("urandom::rng::ChaCha<20>", True),
    "System<31>": ("urandom::rng::System<31>", True), "System<1>": ("urandom::rng::System<1>", True),
    "Xoshiro256": ("urandom::rng::Xoshiro256", False), "SplitMix64": ("urandom::rng::SplitMix64", False), "Wyrand": ("urandom::rng::Wyrand", False),
    "Mock": ("urandom::rng::Mock<std::iter::Repeat<u64>>", False), "Read": ("urandom::rng::Read<&'static [u8]>", False),
    "dyn Rng": ("dyn urandom::Rng", False), "UserRng": ("UserRng", False),
}
PRELUDE = """#![allow(dead_code, unused)]
use urandom::rng::SecureRng;
pub struct UserRng;
impl urandom::Rng for UserRng {
    fn next_u32(&mut self) -> u32 { 4 }
    fn next_u64(&mut self) -> u64 { 4 }
    fn fill_bytes(&mut self, _buf: &mut [std::mem::MaybeUninit<u8>]) {}
    fn jump(&mut self) {}
}
fn assert_secure<T: SecureRng + ?Sized>() {}
fn need_secure<T: SecureRng>(_: &urandom::Random<T>) {}
"""


def probes():
    ps = []
    for name, (ty, ok) in GENS.items():
        ps.append(("marker:" + name, PRELUDE + "pub fn probe() { assert_secure::<%s>(); }\n" % ty, ok))
        if name != "dyn Rng":
            ps.append(("from_rng:" + name, PRELUDE + "pub fn probe(r: &mut urandom::Random<%s>) { let _ = urandom::rng::ChaCha12::from_rng(r); }\n" % ty, ok))
    ps.append(("csprng-is-secure", PRELUDE + "pub fn probe() { need_secure(&urandom::csprng()); }\n", True))
    ps.append(("new-not-secure", PRELUDE + "pub fn probe() { need_secure(&urandom::new()); }\n", False))
    ps.append(("seeded-not-secure", PRELUDE + "pub fn probe() { need_secure(&urandom::seeded(1)); }\n", False))
    ps.append(("chacha-from-csprng", PRELUDE + "pub fn probe() { let mut r = urandom::csprng(); let _ = urandom::rng::ChaCha20::from_rng(&mut r); }\n", True))
    ps.append(("chacha-from-new", PRELUDE + "pub fn probe() { let mut r = urandom::new(); let _ = urandom::rng::ChaCha20::from_rng(&mut r); }\n", False))
    ps.append(("sanity-compiles", PRELUDE + "pub fn probe() { let _ = urandom::new().next_u32(); }\n", True))
    return ps


def regenerate():
    import sys
    sys.path.insert(0, os.path.join(C.VERIF, "tools"))
    import extract
    extract.main()


def generate(r, tier, build):
    return []


def corpus(build):
    return []


def extra(binary, build, tier, rng):
    deps = os.path.join(os.path.dirname(binary), "deps")
    rlibs = sorted(glob.glob(os.path.join(deps, "liburandom-*.rlib")), key=os.path.getmtime)
    if not rlibs:
        yield {"kind": "oracle", "build": build, "request": "probe setup", "impl": "no liburandom rlib", "model": "", "oracle": "cannot find the built crate"}
        return
    rlib = rlibs[-1]
    tmp = tempfile.mkdtemp(prefix="c20probes-", dir=os.path.join(C.HARNESS_DIR, os.path.basename(os.path.dirname(os.path.dirname(binary)))))
    ps = probes()

    def run(p):
        name, src, want = p
        path = os.path.join(tmp, name.replace(":", "_").replace("<", "_").replace(">", "_").replace(" ", "_") + ".rs")
        open(path, "w").write(src)
        cmd = ["rustc", "--edition", "2021", "--crate-type", "lib", "--emit=metadata", "-L", "dependency=" + deps, "--extern", "urandom=" + rlib,
               "--cfg", C.GUARD, "-o", path + ".rmeta", path]
        pr = subprocess.run(cmd, stdout=subprocess.PIPE, stderr=subprocess.PIPE, text=True)
        return name, src, want, pr.returncode == 0, pr.stderr

    with ThreadPoolExecutor(max_workers=8) as ex:
        results = list(ex.map(run, ps))
    shutil.rmtree(tmp, ignore_errors=True)
    sane = [r for r in results if r[0] == "sanity-compiles"][0]
    if not sane[3]:
        yield {"kind": "oracle", "build": build, "request": "probe sanity-compiles", "impl": sane[4][-400:], "model": "", "oracle": "probe infrastructure broken: a trivially valid client does not compile"}
        return
    for name, src, want, got, err in results:
        if want != got:
            what = "compiles but must be rejected (a generator without the marker is accepted as secure)" if got else "is rejected but must compile"
            if not got and "E0277" not in err:
                what += " (unexpected error: %s)" % err.strip().split("\n")[0][:160]
            yield {"kind": "oracle", "build": build, "request": "probe " + name, "impl": src[len(PRELUDE):].strip(), "model": "accept" if want else "reject (E0277)",
                   "oracle": "client program `%s` %s" % (name, what)}
    yield {"kind": "count", "what": "rustc-probes", "n": len(results), "distinct": len({r[1] for r in results}),
           "samples": [{"probe": r[0], "source": r[1][len(PRELUDE):].strip(), "expected": "accept" if r[2] else "reject", "compiled": r[3]} for r in results[:3]]}


def classify(req, model):
    return "probe"
