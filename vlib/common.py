"""Shared plumbing for the urandom verification checks (see DESIGN.md section 2)."""
import fcntl, hashlib, json, os, re, subprocess, sys, time

VERIF = os.path.dirname(os.path.dirname(os.path.abspath(__file__)))
REPO = os.environ.get("VERIF_REPO", "/repo")
LEAN_DIR = os.path.join(VERIF, "lean")
HARNESS_DIR = os.path.join(VERIF, "harness")
GUARD = "casualx_urandom_verif"
ALLOWED_AXIOMS = {"propext", "Classical.choice", "Quot.sound"}
M64 = (1 << 64) - 1


class SplitMix:
    """The one PRNG every random choice of a run derives from (seeded by VERIF_SEED)."""

    def __init__(self, seed):
        self.s = seed & M64

    def u64(self):
        self.s = (self.s + 0x9E3779B97F4A7C15) & M64
        z = self.s
        z = ((z ^ (z >> 30)) * 0xBF58476D1CE4E5B9) & M64
        z = ((z ^ (z >> 27)) * 0x94D049BB133111EB) & M64
        return z ^ (z >> 31)

    def below(self, n):
        return self.u64() % n if n > 0 else 0

    def range(self, lo, hi):  # inclusive
        return lo + self.below(hi - lo + 1)

    def choice(self, xs):
        return xs[self.below(len(xs))]

    def chance(self, num, den):
        return self.below(den) < num

    def bits(self, n):
        v = 0
        for _ in range((n + 63) // 64):
            v = (v << 64) | self.u64()
        return v & ((1 << n) - 1)

    def edge64(self):
        """A 64-bit word biased towards structure: 0, !0, single bits, low/high runs, random."""
        k = self.below(10)
        if k == 0:
            return self.choice([0, 1, M64, M64 - 1, 1 << 63, (1 << 63) - 1, 1 << 32, (1 << 32) - 1, 0xFFFFFFFF00000000])
        if k == 1:
            return 1 << self.below(64)
        if k == 2:
            return (1 << self.below(65)) - 1 & M64
        if k == 3:
            return (M64 << self.below(64)) & M64
        if k == 4:
            return self.u64() >> self.below(64)
        if k == 5:
            # a literal of the current source, or a simple derivative of one (vlib/harvest.py)
            from . import harvest
            w = harvest.words(REPO)
            if w:
                return w[self.below(len(w))]
        return self.u64()

    def fork(self, tag):
        h = hashlib.sha256(("%d/%s" % (self.s, tag)).encode()).digest()
        return SplitMix(int.from_bytes(h[:8], "little"))


class Lock:
    """Serialises builds when several checks are started concurrently."""

    def __init__(self, name):
        self.path = os.path.join(VERIF, ".lock-" + name)

    def __enter__(self):
        self.f = open(self.path, "w")
        fcntl.flock(self.f, fcntl.LOCK_EX)

    def __exit__(self, *a):
        fcntl.flock(self.f, fcntl.LOCK_UN)
        self.f.close()


def sh(cmd, cwd=None, env=None, stdin=None, timeout=None):
    e = dict(os.environ)
    if env:
        e.update(env)
    p = subprocess.run(cmd, cwd=cwd, env=e, input=stdin, stdout=subprocess.PIPE, stderr=subprocess.PIPE, text=True, timeout=timeout)
    return p.returncode, p.stdout, p.stderr


# --------------------------------------------------------------------------------------
# Lean side

FORBIDDEN = re.compile(r"\b(sorry|admit|native_decide|bv_decide|implemented_by|unsafe)\b|^\s*axiom\s|maxHeartbeats\s+0\b")


def strip_lean_comments(src):
    out, i, depth, n = [], 0, 0, len(src)
    while i < n:
        if src.startswith("/-", i):
            depth += 1
            i += 2
        elif depth and src.startswith("-/", i):
            depth -= 1
            i += 2
        elif depth:
            if src[i] == "\n":
                out.append("\n")
            i += 1
        elif src.startswith("--", i):
            while i < n and src[i] != "\n":
                i += 1
        else:
            out.append(src[i])
            i += 1
    return "".join(out)


def lean_forbidden_scan():
    """grep the whole Lean tree (comments stripped) for sorry/axiom/native_decide/…"""
    hits = []
    for root, _, files in os.walk(os.path.join(LEAN_DIR, "Urandom")):
        for f in files:
            if f.endswith(".lean"):
                p = os.path.join(root, f)
                code = strip_lean_comments(open(p).read())
                for ln, line in enumerate(code.split("\n"), 1):
                    if FORBIDDEN.search(line):
                        hits.append("%s:%d: %s" % (os.path.relpath(p, VERIF), ln, line.strip()[:120]))
    return hits


def theorem_names(module):
    """Names of the property theorems declared in a Props module (namespace-qualified)."""
    path = os.path.join(LEAN_DIR, module.replace(".", "/") + ".lean")
    code = strip_lean_comments(open(path).read())
    ns, names = [], []
    for line in code.split("\n"):
        m = re.match(r"\s*namespace\s+(\S+)", line)
        if m:
            ns.append(m.group(1))
            continue
        m = re.match(r"\s*end\s+(\S+)", line)
        if m and ns and ns[-1] == m.group(1):
            ns.pop()
            continue
        m = re.match(r"\s*(?:protected\s+|private\s+)?theorem\s+(\S+)", line)
        if m:
            names.append(".".join(ns + [m.group(1)]))
    return names


def lake_build(targets, timeout=3600):
    with Lock("lake"):
        return sh(["lake", "build"] + targets, cwd=LEAN_DIR, timeout=timeout)


def axiom_audit(module):
    """`#print axioms` on every theorem of the module.  Returns (obligations, discharged, details, bad)."""
    names = theorem_names(module)
    src = "import %s\n" % module + "".join("#print axioms %s\n" % n for n in names)
    audit_dir = os.path.join(LEAN_DIR, ".lake", "audit")
    os.makedirs(audit_dir, exist_ok=True)
    path = os.path.join(audit_dir, module.split(".")[-1] + "_audit.lean")
    open(path, "w").write(src)
    rc, out, err = sh(["lake", "env", "lean", path], cwd=LEAN_DIR, timeout=1800)
    text = out + err
    details, bad = {}, []
    # output: "'Name' depends on axioms: [a, b]" or "'Name' does not depend on any axioms"
    for m in re.finditer(r"'([^']+)' depends on axioms: \[([^\]]*)\]", text):
        axs = {a.strip() for a in m.group(2).replace("\n", " ").split(",") if a.strip()}
        details[m.group(1)] = sorted(axs)
    for m in re.finditer(r"'([^']+)' does not depend on any axioms", text):
        details[m.group(1)] = []
    discharged = 0
    for n in names:
        if n not in details:
            bad.append("%s: no #print axioms output (declaration missing?)" % n)
        elif not set(details[n]) <= ALLOWED_AXIOMS:
            bad.append("%s: axioms %s" % (n, details[n]))
        else:
            discharged += 1
    if rc != 0:
        bad.append("audit file failed to elaborate: " + text[-400:])
    return len(names), discharged, details, bad


# --------------------------------------------------------------------------------------
# Rust side

BUILDS = {
    # name: (cargo args, extra rustflags, target dir)
    "dev": ([], "", "target"),
    "release": (["--release"], "", "target"),
    "avx2": ([], "-C target-feature=+avx2", "target-avx2"),
    "avx2-release": (["--release"], "-C target-feature=+avx2", "target-avx2"),
    "gr": (["--features", "gr"], "", "target-gr"),
}


def source_target_features(subdir=None, exclude=None):
    """the `target_feature = "..."` names the current source is conditional on (a code path that exists only under a target feature is part of
    the input space: it gets a harness build of its own, `tf-<feature>`)"""
    feats = set()
    root0 = os.path.join(REPO, "src")
    for root, _, files in os.walk(root0):
        rel = os.path.relpath(root, root0)
        for f in files:
            relf = os.path.normpath(os.path.join(rel, f))
            if subdir is not None and not relf.startswith(subdir):
                continue
            if exclude is not None and relf.startswith(exclude):
                continue
            if f.endswith(".rs"):
                feats |= set(re.findall(r'target_feature\s*=\s*"([A-Za-z0-9_.]+)"', open(os.path.join(root, f), errors="replace").read()))
    return sorted(feats)


def feature_build(feat):
    name = "tf-" + feat
    BUILDS[name] = ([], "-C target-feature=+%s" % feat, "target-tf-" + re.sub(r"[^A-Za-z0-9]", "_", feat))
    return name


def harness_build(build="dev"):
    if build not in BUILDS and build.startswith("tf-"):
        feature_build(build[3:])
    args, flags, tdir = BUILDS[build]
    env = {"RUSTFLAGS": ("--cfg %s %s" % (GUARD, flags)).strip(), "CARGO_NET_OFFLINE": "true", "CARGO_TARGET_DIR": os.path.join(HARNESS_DIR, tdir)}
    # the lock file must match the repository's; keep ours in sync (path dep resolution is offline)
    with Lock("cargo-" + tdir):
        rc, out, err = sh(["cargo", "build", "--offline", "--quiet"] + args, cwd=HARNESS_DIR, env=env, timeout=3600)
    prof = "release" if "--release" in args else "debug"
    return rc, err, os.path.join(HARNESS_DIR, tdir, prof, "uharness")


def run_lines(binary, args, lines, timeout=3600, wleft=None):
    """answers of a line-protocol binary. The harness marks a panic that happened with scripted words still unread (`panic wleft=<n>`:
    not the mock running dry); the mark is removed here and, if a dict is passed as `wleft`, recorded there under the line's index."""
    rc, out, err = sh([binary] + args, stdin="\n".join(lines) + "\n", timeout=timeout)
    res = out.split("\n")
    if res and res[-1] == "":
        res.pop()
    for i, r in enumerate(res):
        if r.startswith("panic wleft="):
            if wleft is not None:
                wleft[i] = int(r[12:])
            res[i] = "panic"
    return rc, res, err


PATHS = ["samples", "trait", "ref", "dyn", "dynsamples"]
PATH_KINDS = ("uint ", "dice ", "alnum ", "f01 ", "ufloat ", "expd ", "norm ", "lnorm ", "zig ")


def with_api_paths(reqs, rng, share=3):
    """the API path a sample is drawn along is part of the input space: one request in `share` names another path than Random::sample
    (the samples() iterator, the trait method, the reference blanket impl, the generator behind Random<dyn Rng>). The model is path-blind."""
    out = []
    for q in reqs:
        if q.startswith(PATH_KINDS) and " path=" not in q and " via=chance" not in q and " via=float01" not in q and " via=sampler" not in q and " via=range" not in q and rng.chance(1, share):
            head, _, tail = q.partition(" ")
            q = "%s path=%s %s" % (head, rng.choice(PATHS), tail)
        elif q.startswith("std ") and " path=" not in q and rng.chance(1, share):
            head, _, tail = q.partition(" ")
            q = "%s path=%s %s" % (head, rng.choice(["stdsample", "stdtrait", "stdfill"]), tail)
        out.append(q)
    return out


def driver_path():
    return os.path.join(LEAN_DIR, ".lake", "build", "bin", "urandom_model")


def run_parallel(binary, reqs, workers=16, timeout=7200):
    """one harness process per request line, concurrently (for the few requests that take seconds each)"""
    from concurrent.futures import ThreadPoolExecutor
    with ThreadPoolExecutor(max_workers=workers) as ex:
        return list(ex.map(lambda q: (run_lines(binary, ["run"], [q], timeout=timeout)[1] or ["panic"])[0], reqs))
