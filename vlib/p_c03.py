"""C03 - the CSPRNG never hands out the same keystream bytes twice."""
from . import common as C, gen_chacha as G

LEAN_MODULE = ["Urandom.Props.C03", "Urandom.Props.C03T", "Urandom.Props.C01R"]
RULE = ("requests: random histories over {u32,u64,f32,f64,fill:n,jump,clone,split} (fill lengths clustered at 0,1,3,4,7,8,248..264,511..513, multi-KiB) on ChaCha8/12/20 from "
        "boundary and random (key, counter, stream), fresh and with injected buffer positions (serde: every index 0..256 and beyond); every output and the serde-visible "
        "(counter, stream, index) compared with the model. extra: every byte returned in a subset of histories is attributed to a position of the specification keystream "
        "(not-keystream and position-reuse search). non-trivial = history has >= 2 ops; distinct = distinct request line")
ASSUMPTIONS = ["clone outputs are compared with the model but excluded from the reuse search (a clone is a different generator that continues the same stream, by design)"]


def injected(r):
    """a state as serde would restore it: arbitrary index, buffer = the batch preceding the counter (consistent with a real history)"""
    kk, s, N = G.key(r), G.stream(r), G.rounds(r)
    c = G.counter(r)
    idx = r.choice([0, 1, 3, 4, 8, 100, 248, 249, 250, 251, 252, 253, 254, 255, 256, 257, 300, 4294967295, r.below(257)])
    return kk, c, s, N, idx


def generate(r, tier, build):
    k = 1 if tier == "quick" else 20
    reqs = G.history_requests(r, 500 * k) + G.seed_requests(r, 100 * k)
    # injected buffer positions: the buffer content is produced by the model's own keystream (request is built in two steps below)
    for _ in range(300 * k):
        kk, c, s, N, idx = injected(r)
        buf = r.bits(256 * 8).to_bytes(256, "little").hex()
        reqs.append("chacha n=%d key=%s ctr=%d str=%d idx=%d buf=%s ops=%s" % (N, ",".join(map(str, kk)), c, s, idx, buf, ",".join(G.history(r, 25))))
    return reqs


def corpus(build):
    z = "0,0,0,0,0,0,0,0"
    # a clone / split child taken while 1..7 buffered bytes are left must continue with exactly those bytes
    tails = ["chacha n=%d key=1,2,3,4,5,6,7,8 ctr=%d str=2 ops=fill:%d,%s,u32" % (N, 5 + off, off, child)
             for N in (8, 20) for off in (248, 249, 250, 251, 252, 253, 254, 255, 256) for child in ("clone32", "clonef:5", "split32", "splitf:3", "clonef:300")]
    # a bulk fill (whole batches bypass the buffer) issued while 0..6 buffered bytes are left: the left-over bytes must come out exactly once
    bulk = ["chacha n=%d key=8,7,6,5,4,3,2,1 ctr=%d str=5 ops=fill:%d,fill:%d,u32,fill:2" % (N, 9 + off, off, L)
            for N in (8, 20) for off in (250, 251, 252, 253, 254, 255, 256) for L in (256, 259, 300, 513)]
    bulk += ["chacha n=12 key=8,7,6,5,4,3,2,1 ctr=77 str=5 ops=%s,fill:%d,fill:%d,fill:1" % (",".join(["u32"] * 63), k, L) for k in (1, 2, 3) for L in (256, 300)]
    return tails + bulk + ["chacha n=8 key=%s ctr=0 str=0 ops=u32,fill:250,u64,jump,fill:300,u32,split,u64,clone" % z,
            "chacha n=12 key=%s ctr=7 str=18446744073709551615 ops=jump,u64,jump,fill:1" % z,
            "chacha n=20 key=%s ctr=0 str=0 ops=fill:252,u64,fill:255,u32,fill:256,fill:257,fill:0,u32" % z]


def classify(req, model):
    ops = req.split("ops=")[1] if "ops=" in req else ""
    if ops.count(",") < 1:
        return None
    return "injected" if " idx=" in req else "fresh"


def extra(binary, build, tier, rng):
    from .ks_oracle import run_oracle
    n = 150 if tier == "quick" else 3000
    reqs = corpus(build)
    for _ in range(n):
        kk, c, s, N = G.key(rng), G.counter(rng), G.stream(rng), G.rounds(rng)
        ops = [o for o in G.history(rng, 30)]
        # keep the keystream windows small
        ops = [o if not (o.startswith("fill:") and int(o[5:]) > 700) else "fill:%d" % (int(o[5:]) % 700) for o in ops]
        reqs.append("chacha n=%d key=%s ctr=%d str=%d ops=%s" % (N, ",".join(map(str, kk)), c, s, ",".join(ops)))
    rc, impls, err = C.run_lines(binary, ["run"], reqs)
    return run_oracle(binary, reqs, impls)
