"""C14 - chance(p) / Bernoulli(p): certain at the extremes, monotone, probability p."""
from . import common as C, gen_int as G, oracles as O

LEAN_MODULE = "Urandom.Props.C14"
RULE = ("requests: Bernoulli::new(p).sample and Random::chance(p) for p in every class (+-0, subnormal, 1-ulp, 1, >1, +-inf, NaN payloads, negative, random, and p equal to / "
        "one ulp either side of the Float01 value the scripted words produce) x word pairs over all leading-zero classes; monotonicity checked on pairs p<q over the same words. "
        "extra: the probability clause exactly on the implementation - the measure of the set of word pairs giving true, by nested interval search with real calls, against p (tolerance p*2^-52 + 2^-64). "
        "non-trivial = all; distinct = distinct request line")
ASSUMPTIONS = []


def generate(r, tier, build):
    k = 1 if tier == "quick" else 30
    return G.bern_requests(r, 4000 * k)


def corpus(build):
    return ["bern p=4607182418800017408 via=chance n=1 words=0,0", "bern p=0 via=chance n=1 words=18446744073709551615,18446744073709551615",
            "bern p=9221120237041090560 via=sample n=1 words=1,1"]


def classify(req, model):
    return "bern"


def oracle(req, impl, build):
    return O.bern_oracle(req, impl)


def extra(binary, build, tier, rng):
    """the probability clause, exactly, on the implementation: for a fixed p the outcome is a monotone function of the two words, so the set
    of (first word, second word) pairs giving `true` is found by nested interval search with real calls and its measure is compared with p:
    |P(true) - p| <= p*2^-52 + 2^-64."""
    from fractions import Fraction
    from .preimage_oracle import Prober, steps
    from .oracles import parse_ok
    import struct
    B = 1 << 64
    def bits(x):
        return struct.unpack("<Q", struct.pack("<d", x))[0]
    ps = [bits(1 / 3), bits(1.5 * 2.0 ** -53), bits(1e-18), bits(1 - 2.0 ** -53)] if tier == "quick" else \
        [bits(x) for x in (0.5, 1 / 3, 0.1, 0.9, 1e-3, 2.0 ** -20, 1e-10, 2.0 ** -52, 2.0 ** -53, 1.5 * 2.0 ** -53, 1e-16, 1e-18, 2.0 ** -63, 1.5 * 2.0 ** -64,
                               2.0 ** -64, 1 - 2.0 ** -53, 0.999, 2.2e-16, 2.3e-16, 1e-15)] + [bits(rng.bits(53) / float(1 << 53) * 2.0 ** -rng.below(60)) for _ in range(8)]
    calls = 0
    for i, pb in enumerate(ps):
        via = ("chance", "sample")[i % 2] if (tier == "quick" and i not in (1, 2)) else None
        for v in ([via] if via else ["chance", "sample"]):
            pval = Fraction(struct.unpack("<d", struct.pack("<Q", pb))[0])
            mk2 = lambda w1, w2: "bern p=%d via=%s n=1 words=%d,%d" % (pb, v, w1, w2)
            cache = {}
            def g(w1):
                """number of second words giving true (assumed a prefix [0, T) of the second word: validated below)"""
                if w1 in cache:
                    return cache[w1]
                p2 = Prober(binary, lambda w2: mk2(w1, w2), lambda res: (parse_ok(res) or ["?"])[0])
                if p2.one(0) != "1":
                    t = 0
                elif p2.one(B - 1) == "1":
                    t = B
                else:
                    lo, hi = 0, B - 1          # true at lo, false at hi
                    while hi - lo > 1:
                        mid = (lo + hi) // 2
                        if p2.one(mid) == "1":
                            lo = mid
                        else:
                            hi = mid
                    t = hi
                cache[w1] = (t, p2.calls)
                return cache[w1]
            class G:
                calls = 0
                def one(self, w1):
                    t, c = g(w1)
                    return t
            gp = G()
            runs = steps(gp, 0, B - 1, max_steps=80)
            calls += sum(c for (_, c) in cache.values())
            if runs is None:
                yield {"kind": "note", "text": "chance(p=%#x): the number of true second words is not a small step function of the first word - measure inconclusive" % pb}
                continue
            # validation: monotone structure holds at random points
            ok = True
            pv = Prober(binary, lambda pair: mk2(pair[0], pair[1]), lambda res: (parse_ok(res) or ["?"])[0])
            for first, last, t in runs:
                for _ in range(64):        # a periodic (non-monotone) dependence on the first word must not slip through: 64 threshold probes per run
                    w1 = first + rng.below(last - first + 1)
                    # at the threshold itself: the last true and the first false second word, and a random one
                    w2 = rng.below(B)
                    checks = [(w2, "1" if w2 < t else "0")]
                    if t > 0:
                        checks.append((t - 1, "1"))
                    if t < B:
                        checks.append((t, "0"))
                    for x, want in checks:
                        if pv.one((w1, x)) != want:
                            ok = False
            calls += pv.calls
            if not ok:
                yield {"kind": "note", "text": "chance(p=%#x): outcome is not monotone in the words - measure inconclusive" % pb}
                continue
            measure = Fraction(sum((last - first + 1) * t for first, last, t in runs), B * B)
            tol = pval * Fraction(1, 1 << 52) + Fraction(1, 1 << 64)
            if abs(measure - pval) > tol:
                wit = next(((first, t) for first, last, t in runs if t not in (0, B)), (runs[0][0], runs[0][2]))
                yield {"kind": "oracle", "build": build, "request": mk2(wit[0], max(0, wit[1] - 1)), "impl": "runs (first word from, to, true second words): %s" % str(runs[:6]), "model": "",
                       "oracle": "P(%s(p) = true) over uniformly distributed word pairs is %.6e for p = %.6e: off by %.3e, allowed %.3e (p*2^-52 + 2^-64)" % (
                           "chance" if v == "chance" else "Bernoulli::sample", float(measure), float(pval), float(abs(measure - pval)), float(tol))}
    yield {"kind": "count", "what": "measure-search-probes", "n": calls}
