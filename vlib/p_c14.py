"""C14 - chance(p) / Bernoulli(p): certain at the extremes, monotone, probability p."""
from . import common as C, gen_int as G, oracles as O

LEAN_MODULE = ["Urandom.Props.C14", "Urandom.Props.C14T", "Urandom.Props.C13R"]
RULE = ("requests: Bernoulli::new(p).sample and Random::chance(p) for p in every class (+-0, subnormal, 1-ulp, 1, >1, +-inf, NaN payloads, negative, random, and p equal to / "
        "one ulp either side of the Float01 value the scripted words produce) x word pairs over all leading-zero classes; monotonicity checked on pairs p<q over the same words. "
        "extra: the probability clause exactly on the implementation - the measure of the set of word pairs giving true, by nested interval search with real calls, against p (tolerance p*2^-52 + 2^-64). "
        "non-trivial = all; distinct = distinct request line"
        " Since round 10: chance(p) as op inside ChaCha histories at every kind of buffer position (extremes judged for every generator stream; the rest by correspondence with the distribution model run on the block model's own draws).")
ASSUMPTIONS = []


def chance_op(r):
    import struct
    b = lambda x: struct.unpack("<Q", struct.pack("<d", x))[0]
    return "chance:%d" % r.choice([b(1.0), b(0.0), b(-0.0), 0x7FF8000000000000, b(2.5), b(-1.0), b(float("inf")), b(0.5), b(1 / 3), b(1 - 2.0 ** -53), b(2.0 ** -30), b(0.999), r.u64() >> 2])


def generate(r, tier, build):
    k = 1 if tier == "quick" else 30
    from . import gen_chacha as GC
    # the same entry point on a REAL block generator at every kind of buffer position (the scripted stream above always goes through `Mock`)
    return G.bern_requests(r, 4000 * k) + GC.dist_histories(r, 250 * k, chance_op)


def corpus(build):
    return ["bern p=4607182418800017408 via=chance n=1 words=0,0", "bern p=0 via=chance n=1 words=18446744073709551615,18446744073709551615",
            "bern p=9221120237041090560 via=sample n=1 words=1,1"]


def classify(req, model):
    return "chacha" if req.startswith("chacha") else "bern"


def oracle(req, impl, build):
    if req.startswith("chacha"):
        # the extremes hold for every generator stream: p >= 1 true; p <= 0 and NaN false
        import struct
        ops, toks = req.split("ops=")[1].split(","), impl.split()
        for i, (op, t) in enumerate(zip(ops, toks)):
            if op.startswith("chance:") and t in ("0", "1"):
                p = struct.unpack("<d", struct.pack("<Q", int(op[7:])))[0]
                if p >= 1 and t != "1":
                    return "op %d: chance(%r) on ChaCha returned false" % (i, p)
                if (p <= 0 or p != p) and t != "0":
                    return "op %d: chance(%r) on ChaCha returned true" % (i, p)
        return None
    return O.bern_oracle(req, impl)


def extra(binary, build, tier, rng):
    """the probability clause, exactly, on the implementation: for a fixed p the outcome is a monotone function of the two words, so the set
    of (first word, second word) pairs giving `true` is found by nested interval search with real calls and its measure is compared with p:
    |P(true) - p| <= p*2^-52 + 2^-64."""
    from fractions import Fraction
    from .preimage_oracle import Prober, steps
    from .oracles import parse_ok
    import struct
    B = 1 << 64
    def bits(x):
        return struct.unpack("<Q", struct.pack("<d", x))[0]
    # quick: odd and even mantissas, the bottom of a binade (0.5, 2^-k), the middle (1.5*2^-53), the top (1 - 2^-53), a tiny p
    ps = [bits(1 / 3), bits(1.5 * 2.0 ** -53), bits(1e-18), bits(1 - 2.0 ** -53), bits(0.5), bits(2.0 ** -(2 + rng.below(40))),
          bits((1 + 2 * rng.bits(50) / float(1 << 52)) * 2.0 ** -(1 + rng.below(30)))] if tier == "quick" else \
        [bits(x) for x in (0.5, 1 / 3, 0.1, 0.9, 1e-3, 2.0 ** -20, 1e-10, 2.0 ** -52, 2.0 ** -53, 1.5 * 2.0 ** -53, 1e-16, 1e-18, 2.0 ** -63, 1.5 * 2.0 ** -64,
                               2.0 ** -64, 1 - 2.0 ** -53, 0.999, 2.2e-16, 2.3e-16, 1e-15)] + [bits(rng.bits(53) / float(1 << 53) * 2.0 ** -rng.below(60)) for _ in range(8)]
    # + every float literal of the current source that is a probability (a threshold somebody adds to the sampler is one of them) and a p just
    # below a power of two (where a decision keyed on the exponent of p, or on a decimal approximation of a power of two, goes wrong)
    from . import gen_float as GF
    k = 2 + rng.below(50)
    ps += [bits(x) for x in GF.raw_float_literals() if 0.0 < x < 1.0 and bits(x) not in ps][:10 if tier == "quick" else 40]
    ps += [bits(2.0 ** -k * (1 - 2.0 ** -20)), bits(2.0 ** -32 * (1 - 2.0 ** -21)), bits(2.0 ** -k) - 1]
    calls = 0
    for i, pb in enumerate(ps):
        via = ("chance", "sample")[i % 2] if (tier == "quick" and i not in (1, 2)) else None
        for v in ([via] if via else ["chance", "sample"]):
            pval = Fraction(struct.unpack("<d", struct.pack("<Q", pb))[0])
            mk2 = lambda w1, w2: "bern p=%d via=%s n=1 words=%d,%d" % (pb, v, w1, w2)
            cache = {}
            SEEDS2 = sorted(set([(1 << k) for k in range(64)] + [B - (1 << k) for k in range(64)] + [(B // 64) * i for i in range(1, 64)]))
            def g(w1):
                """the set of second words giving true, as runs of a step function of the second word (seeded with structured points, so that
                a set that is not a prefix [0, T) - e.g. one that wraps around at the top - is found too; validated below)"""
                if w1 in cache:
                    return cache[w1]
                p2 = Prober(binary, lambda w2: mk2(w1, w2), lambda res: (parse_ok(res) or ["?"])[0])
                runs2 = steps(p2, 0, B - 1, max_steps=12, seeds=SEEDS2)
                if runs2 is None:
                    cache[w1] = (-1, None, p2.calls)
                else:
                    cache[w1] = (sum(rl - rf + 1 for rf, rl, rv in runs2 if rv == "1"), runs2, p2.calls)
                return cache[w1]
            class G:
                calls = 0
                def one(self, w1):
                    return g(w1)[0]
            gp = G()
            runs = steps(gp, 0, B - 1, max_steps=80)
            calls += sum(c for (_, _, c) in cache.values())
            if runs is None or any(t < 0 for _, _, t in runs):
                yield {"kind": "note", "text": "chance(p=%#x): the set of true second words is not a small step function of the words - measure inconclusive" % pb}
                continue
            # validation: the structure found at the first word of each run holds at random points of the run
            ok = True
            pv = Prober(binary, lambda pair: mk2(pair[0], pair[1]), lambda res: (parse_ok(res) or ["?"])[0])
            for first, last, t in runs:
                rep = cache[first][1]
                def want_at(x):
                    return next(rv for rf, rl, rv in rep if rf <= x <= rl)
                for _ in range(64):        # a periodic (non-monotone) dependence on the first word must not slip through: 64 probe groups per run
                    w1 = first + rng.below(last - first + 1)
                    xs = [rng.below(B)]
                    for rf, rl, _rv in rep[:4] + rep[-2:]:      # both sides of every boundary of the representative
                        xs += [rf, rl]
                    for x in xs:
                        if pv.one((w1, x)) != want_at(x):
                            ok = False
            calls += pv.calls
            if not ok:
                yield {"kind": "note", "text": "chance(p=%#x): the set of true word pairs is not the step structure found - measure inconclusive" % pb}
                continue
            measure = Fraction(sum((last - first + 1) * t for first, last, t in runs), B * B)
            tol = pval * Fraction(1, 1 << 52) + Fraction(1, 1 << 64)
            if abs(measure - pval) > tol:
                wf = next((first for first, last, t in runs if t not in (0, B)), runs[0][0])
                w2s = [rl for rf, rl, rv in cache[wf][1] if rv == "1"]
                yield {"kind": "oracle", "build": build, "request": mk2(wf, w2s[-1] if w2s else 0), "impl": "runs (first word from, to, true second words): %s" % str(runs[:6]), "model": "",
                       "oracle": "P(%s(p) = true) over uniformly distributed word pairs is %.6e for p = %.6e: off by %.3e, allowed %.3e (p*2^-52 + 2^-64)" % (
                           "chance" if v == "chance" else "Bernoulli::sample", float(measure), float(pval), float(abs(measure - pval)), float(tol))}
    yield {"kind": "count", "what": "measure-search-probes", "n": calls}
