"""C14 - chance(p) / Bernoulli(p): certain at the extremes, monotone, probability p."""
from . import common as C, gen_int as G, oracles as O

LEAN_MODULE = "Urandom.Props.C14"
RULE = ("requests: Bernoulli::new(p).sample and Random::chance(p) for p in every class (+-0, subnormal, 1-ulp, 1, >1, +-inf, NaN payloads, negative, random, and p equal to / "
        "one ulp either side of the Float01 value the scripted words produce) x word pairs over all leading-zero classes; monotonicity checked on pairs p<q over the same words. "
        "non-trivial = all; distinct = distinct request line")
ASSUMPTIONS = []


def generate(r, tier, build):
    k = 1 if tier == "quick" else 30
    return G.bern_requests(r, 4000 * k)


def corpus(build):
    return ["bern p=4607182418800017408 via=chance n=1 words=0,0", "bern p=0 via=chance n=1 words=18446744073709551615,18446744073709551615",
            "bern p=9221120237041090560 via=sample n=1 words=1,1"]


def classify(req, model):
    return "bern"


def oracle(req, impl, build):
    return O.bern_oracle(req, impl)
