"""C06 - index / choose / single pick an existing element, uniformly, None iff empty."""
from . import common as C, gen_int as G, oracles as O

LEAN_MODULE = ["Urandom.Props.C06", "Urandom.Props.C05T", "Urandom.Props.C06T", "Urandom.Props.C04R"]
RULE = ("requests: index(len) for len in {0,1,2,..,2^63+k,usize::MAX}, choose/choose_mut on slices of 0..40 elements, single on collections of 0..40 items with exact (slice, Vec, custom), inexact (lower/upper bound, Filter) and missing size hints (the reservoir path with Float01 words at and around the 1/i thresholds); "
        "extra: exact outcome counts over complete one-draw grids (shortcut paths) and a frequency test under real generators (all hint kinds incl. the reservoir path; alarm only beyond a 1e-12 chi-square bound); "
        "words at the ends of the acceptance interval of the chosen position; non-trivial = collection non-empty or the None path; distinct = distinct request line"
        " Since round 10: index(n) as op idx:n inside ChaCha histories at every kind of buffer position.")
ASSUMPTIONS = []


def generate(r, tier, build):
    k = 1 if tier == "quick" else 20
    from . import gen_chacha as GC
    # index() - the draw behind shuffle / choose / single / multiple - on a REAL block generator at every kind of buffer position
    return (G.index_requests(r, 800 * k) + G.choose_requests(r, 1200 * k) + G.single_requests(r, 1500 * k)) + GC.dist_histories(r, (120 if tier == "quick" else 3000), lambda r: "idx:%d" % r.choice([1, 2, 3, 5, 6, 7, 10, 11, 100, 255, 256, 1000003, (1 << 32) + 1, (1 << 63) + 5, r.range(1, 1 << 40)]))


def corpus(build):
    return ["choose items= via=choose words=5", "choose items= via=choose_mut words=0", "index len=1 n=1 words=18446744073709551615"]


def classify(req, model):
    return req.split()[0]


def oracle(req, impl, build):
    k = req.split()[0]
    if k == "chacha":
        return O.idx_history_oracle(req, impl)
    return {"index": O.index_oracle, "choose": O.choose_oracle, "single": O.choose_oracle}[k](req, impl)


def huge(binary, build):
    """single() over an iterator of more than 2^32 items without a usable size hint (the reservoir path; release build, two generators in parallel,
    8 s): both picks among the last 16 items has probability 1.4e-17 under exact uniformity - a 32-bit item counter makes exactly that happen"""
    n = (1 << 32) + 8
    reqs = ["bigsingle n=%d seed=5 gen=wyrand" % n, "bigsingle n=%d seed=6 gen=splitmix" % n]
    outs = C.run_parallel(binary, reqs)
    picks = []
    for q, o in zip(reqs, outs):
        if not o.startswith("ok:") or o == "ok:none":
            yield {"kind": "oracle", "build": build, "request": q, "impl": o, "model": "", "oracle": "single() over 2^32 + 8 items returned nothing / failed: " + o}
        else:
            picks.append(int(o[3:]))
    if len(picks) == 2 and all(p >= n - 16 for p in picks):
        yield {"kind": "oracle", "build": build, "request": reqs[0], "requests": reqs, "impl": str(picks), "model": "", "oracle": "single() over 2^32 + 8 items picked one of the last 16 items under two different generators (%s): probability 1.4e-17 under exact uniformity" % picks}
    elif any(p >= n for p in picks):
        yield {"kind": "oracle", "build": build, "request": reqs[0], "impl": str(picks), "model": "", "oracle": "single() returned an item that is not in the collection"}
    yield {"kind": "count", "what": "huge-collection-items", "n": 2 * n}


def extra(binary, build, tier, rng):
    if build == "release":
        yield from huge(binary, build)
    if build != "dev" and tier == "quick":
        return          # the exhaustive / statistical searches run once per quick check (dev profile)
    from .enum_oracle import run_enum
    specs = [(kind, n, 0, 60, 1) for kind in ("choose", "single", "index") for n in (1, 2, 3, 4, 5, 6, 10, 12, 15, 20, 30, 60)]
    yield from run_enum(binary, specs, "enumerated-draws")
    # exact-size hints other than the slice iterator take the same shortcut: same exact counts
    specs = [("single", n, 0, 60, 1, h) for h in ("vec", "exact") for n in (1, 2, 3, 5, 6, 12, 60)]
    yield from run_enum(binary, specs, "enumerated-draws")
    # the reservoir path (inexact, lower-bound, missing hints; Filter, Chain) and the shortcut under real generators: frequency test
    from .stat_oracle import run_stat, samples_for
    specs = []
    for h in ("none", "lower", "upper", "filter", "chain", "exact", None):
        for n in ((2, 3, 4, 5, 7) if tier == "quick" else (1, 2, 3, 4, 5, 6, 7, 8, 11, 16, 25)):
            specs.append(("single", n, 0, samples_for("single", n, 0, tier), rng.u64(), h, rng.choice(["xoshiro", "splitmix", "wyrand", "chacha8"])))
    for n in (2, 3, 7):
        specs.append(("choose", n, 0, samples_for("choose", n, 0, tier), rng.u64(), None, None))
        specs.append(("index", n, 0, samples_for("index", n, 0, tier), rng.u64(), None, None))
    yield from run_stat(binary, specs, "frequency-test-samples", build)
    # exact preimage counts of the one draw behind index / choose / single(exact-size), by interval search over all 2^64 words
    from .preimage_oracle import first_draw_counts
    from .oracles import parse_ok
    def pick(res):
        f = parse_ok(res)
        return None if f is None or f[0] == "none" else int(f[0])
    ps = []
    for ln in ((2, 3, 5, 6, 7, 10, 65792, 100000, 250000, 1000003, (1 << 32) + 1, (1 << 36) + 12345, 3 << 62) if tier == "quick" else (2, 3, 5, 6, 7, 9, 10, 11, 13, 60, 641, 65537, 65792, 100000, 250000, 1000000, 1000003, 16777259, (1 << 32) - 1, (1 << 32) + 1, (1 << 36) + 12345, (1 << 40) + 3, 3 << 62, (1 << 63) + 1)):
        ps.append(("index(%d)" % ln, ln, 64, (lambda w, ln=ln: "index len=%d n=1 words=%d" % (ln, w)), pick, (lambda w1, w2, ln=ln: "index len=%d n=1 words=%d,%d" % (ln, w1, w2))))
    for n in (3, 5, 7):
        items = ",".join(map(str, range(n)))
        ps.append(("choose(slice of %d)" % n, n, 64, (lambda w, items=items: "choose items=%s via=choose words=%d" % (items, w)), pick, (lambda w1, w2, items=items: "choose items=%s via=choose words=%d,%d" % (items, w1, w2))))
        ps.append(("single(exact-size iterator of %d)" % n, n, 64, (lambda w, items=items: "single items=%s hint=exact words=%d" % (items, w)), pick))
    yield from first_draw_counts(binary, build, rng, ps, "preimage-interval-probes")
