"""C18 - Read / Mock generators pass source data through once, in order, and fail loudly."""
from . import common as C

LEAN_MODULE = ["Urandom.Props.C18", "Urandom.Props.C18T"]
DISAGREEMENT_IS_FAILING_INPUT = False
RULE = ("requests: Read over an adversarial scripted reader (1-byte reads, random chunk sizes, Interrupted before any chunk, an I/O error of every kind - Other, WouldBlock, TimedOut, UnexpectedEof, BrokenPipe, InvalidData, OutOfMemory, Unsupported - or end of data at every offset; a quarter of the readers bring their own read_exact from which Interrupted escapes after partial progress, `rx=naive`) under "
        "random interleavings of next_u32 / next_u64 / fill_bytes(len) / jump with panics caught per operation; Mock over word lists incl. exhaustion and jump. "
        "Every output (value, bytes, panic) compared with the model; oracle: successful outputs are exactly the next bytes of the data in order, little-endian. "
        "non-trivial = at least one op; distinct = distinct request line"
        " Since round 10 (extra): typed fills of 4200..100000 bytes from Mock (element sizes 3 and 20) against the little-endian serialisation of the provided words.")
ASSUMPTIONS = ["std::io::Read::read_exact is modelled by its documented loop", "for a reader with its own read_exact (rx=naive) an escaping Interrupted is modelled as an error of the call (the generator panics); the oracle accepts a panic or exactly the next source bytes"]


def ops(r, n):
    out = []
    for _ in range(n):
        k = r.below(6)
        out.append("u32" if k < 2 else "u64" if k < 4 else "jump" if k == 4 and r.chance(1, 3) else "fill:%d" % r.choice([0, 1, 2, 3, 5, 8, 9, 16, 31, r.below(70)]))
    return out


def script(r, n):
    out = []
    for _ in range(n):
        k = r.below(10)
        if k < 5:
            out.append("c:%d" % r.choice([1, 1, 2, 3, 4, 7, 8, 100, r.below(20)]))
        elif k < 9:
            out.append("i")
        else:
            out.append(r.choice(["e", "e", "e:wouldblock", "e:timedout", "e:eof", "e:brokenpipe", "e:invaliddata", "e:oom", "e:unsupported"]))
    return out


def generate(r, tier, build):
    k = 1 if tier == "quick" else 30
    reqs = []
    for _ in range(2500 * k):
        data = r.bits(8 * r.below(80)).to_bytes(80, "little")[: r.below(80)]
        sc = script(r, r.below(30)) if r.chance(4, 5) else []
        if r.chance(1, 2):
            sc = [x for x in sc if not x.startswith("e")]
        # a quarter of the readers bring their own read_exact, from which Interrupted escapes after partial progress
        reqs.append("read data=%s script=%s ops=%s%s" % (data.hex(), ",".join(sc), ",".join(ops(r, r.range(1, 12))), " rx=naive" if r.chance(1, 4) else ""))
    for _ in range(800 * k):
        words = [r.edge64() for _ in range(r.below(12))]
        reqs.append("mock words=%s ops=%s" % (",".join(map(str, words)), ",".join(ops(r, r.range(1, 10)))))
    return reqs


def corpus(build):
    return ["read data=0102030405060708090a0b0c script=c:1,i,c:2,e,c:100 ops=u32,u32,fill:2,u64",
            "read data= script= ops=fill:0,u32", "read data=0102030405060708090a0b0c script=c:1,i,c:2,c:100 ops=u32,u32,u32 rx=naive",
            "read data=0102030405060708090a0b0c0d0e0f10 script=c:3,i,i,c:1,i ops=u64,u32,fill:3 rx=naive", "mock words= ops=fill:0,u64", "mock words=1 ops=jump,u32"]


def classify(req, model):
    return req.split()[0]


def canon(impl):
    """the harness appends how many I/O errors the scripted reader reported (for the oracle); the model has no such token"""
    toks = impl.split(" ")
    return " ".join(t for t in toks if not t.startswith("errs="))


def oracle(req, impl, build):
    errs = [t for t in impl.split() if t.startswith("errs=")]
    impl = canon(impl)
    if errs:
        k = int(errs[0][5:])
        if impl.split().count("panic") < k:
            return "the reader reported %d I/O error(s) but only %d operation(s) panicked: a failure of the reader was swallowed" % (k, impl.split().count("panic"))
    return oracle_bytes(req, impl, build)


def oracle_bytes(req, impl, build):
    """successful outputs of `read` must be consecutive, in-order pieces of the data, little-endian, with no gap unless a
    failed (panicking) call in between consumed bytes; `mock` words in order"""
    d = dict(t.split("=", 1) for t in req.split()[1:])
    opl = d["ops"].split(",") if d["ops"] else []
    toks = impl.split()
    if len(toks) != len(opl):
        return None if impl == "panic" else "wrong number of results"
    if req.startswith("read"):
        data = bytes.fromhex(d["data"])
        # the set of source offsets the reader can be at: one offset while everything succeeds; after a failed (panicking) call,
        # which may have consumed any number of bytes, every later offset is possible
        possible = {0}
        for op, t in zip(opl, toks):
            if t == "panic":
                possible = set(range(min(possible), len(data) + 1))
                continue
            if t == "-":
                continue
            if op == "u32":
                b = int(t).to_bytes(4, "little")
            elif op == "u64":
                b = int(t).to_bytes(8, "little")
            else:
                b = bytes.fromhex(t[2:])
            nxt = {q + len(b) for q in possible if data[q:q + len(b)] == b}
            if not nxt:
                lo = min(possible)
                if data.find(b, lo) < 0:
                    return "op %s returned bytes that are not the next bytes of the source (fabricated or reordered data)" % op
                return ("op %s returned source bytes %d.. although the reader stood at offset %s and no operation failed since the last output: "
                        "bytes were skipped (every byte is to be used exactly once, in order)" % (op, data.find(b, lo), sorted(possible)[:3]))
            possible = nxt
    else:
        words = [int(x) for x in d["words"].split(",")] if d["words"] else []
        i = 0
        for op, t in zip(opl, toks):
            if t == "panic":
                if op.startswith("fill"):
                    i = len(words)
                continue
            if op == "u64":
                if i >= len(words) or int(t) != words[i]:
                    return "Mock::next_u64 did not return the next word"
                i += 1
            elif op == "u32":
                if i >= len(words) or int(t) != words[i] & 0xFFFFFFFF:
                    return "Mock::next_u32 did not return the low half of the next word"
                i += 1
            elif op.startswith("fill:"):
                n = int(op[5:])
                need = (n + 7) // 8
                want = b"".join(w.to_bytes(8, "little") for w in words[i:i + need])[:n]
                if bytes.fromhex(t[2:]) != want:
                    return "Mock::fill_bytes is not the little-endian word stream"
                i += need
    return None


def extra(binary, build, tier, rng):
    """Mock behind the TYPED fill entry points on big destinations: `Random::fill_bytes` over element sizes that divide neither 4096 nor 65536
    (a wrapper that splits big requests on element boundaries ends its chunks inside a word) - the bytes must be the little-endian serialisation
    of the provided words, each word used once and in order"""
    if build != "dev" and tier == "quick":
        return
    shapes = [("a3u8", 3, 30000, "fill_bytes"), ("a5u32", 20, 5000, "fill_bytes_uninit"), ("a3u8", 3, 1400, "fill_bytes"), ("u8", 1, 70001, "read_exact")]
    reqs, wordsl = [], []
    for elem, esize, count, api in shapes:
        n = esize * count
        words = [rng.u64() for _ in range((n + 7) // 8 + 1)]
        reqs.append("fillb gen=mock words=%s api=%s elem=%s off=%d count=%d pre=" % (",".join(map(str, words)), api, elem, 0 if elem == "a5u32" else 1, count))
        wordsl.append((words, n))
    rc, res, err = C.run_lines(binary, ["run"], reqs)
    for q, o, (words, n) in zip(reqs, res, wordsl):
        short = q[:60] + " .. " + q[q.index(" api="):]
        if not o.startswith("b:"):
            yield {"kind": "oracle", "build": build, "request": q, "impl": o[:100], "model": "", "oracle": "a %d-byte typed fill from Mock with enough words failed: %s (%s)" % (n, o[:40], short)}
            continue
        t = dict(x.split(":", 1) for x in o.split())
        want = b"".join(w.to_bytes(8, "little") for w in words)[:n]
        got = bytes.fromhex(t["b"])
        if got != want:
            i = next(j for j in range(n) if got[j:j + 1] != want[j:j + 1])
            yield {"kind": "oracle", "build": build, "request": q, "impl": o[:200], "model": "",
                   "oracle": "byte %d of a %d-byte typed fill from Mock is 0x%02x, the provided words say 0x%02x: the words are not used once and in order (%s)" % (i, n, got[i] if i < len(got) else -1, want[i], short)}
        elif t.get("next") != str(words[(n + 7) // 8]):
            yield {"kind": "oracle", "build": build, "request": q, "impl": o[:100] + " .. next:" + t.get("next", "?"), "model": "",
                   "oracle": "after a %d-byte typed fill Mock's next word is %s, not provided word number %d (%d): a word was skipped or used twice (%s)" % (n, t.get("next"), (n + 7) // 8, words[(n + 7) // 8], short)}
    yield {"kind": "count", "what": "big-typed-mock-fills", "n": len(reqs)}
