"""C11 - unit floats: next_f32/f64 in [1,2) on an exact grid, Float01 strictly in (0,1)."""
from . import common as C, gen_int as G, oracles as O

LEAN_MODULE = "Urandom.Props.C11"
RULE = ("requests: Float01 (f32, f64, Random::float01) for all 65 leading-zero classes of the first word x mantissa words {0, !0, random}; "
        "next_f32/next_f64 of every generator through the word/std streams; non-trivial = all; distinct = distinct request line")
ASSUMPTIONS = []


def generate(r, tier, build):
    k = 1 if tier == "quick" else 30
    reqs = G.f01_requests(r, 1500 * k)
    for _ in range(300 * k):
        ty = r.choice(["f32", "f64"])
        reqs.append("std ty=%s n=2 profile=debug words=%d,%d" % (ty, r.edge64(), r.edge64()))
    for _ in range(200 * k):
        gen = r.choice(["xoshiro", "splitmix", "wyrand"])
        reqs.append("word gen=%s seed=%d via=from_seed ops=%s" % (gen, r.edge64(), ",".join(r.choice(["f32", "f64"]) for _ in range(r.range(1, 6)))))
    return reqs


def corpus(build):
    return ["f01 w=64 n=2 words=0,0,18446744073709551615,18446744073709551615", "f01 w=32 n=2 words=0,0,18446744073709551615,18446744073709551615"]


def classify(req, model):
    return req.split()[0]


def oracle(req, impl, build):
    if req.startswith("f01"):
        return O.f01_oracle(req, impl)
    if req.startswith("std"):
        d = O.kv(req)
        f = O.parse_ok(impl)
        if f:
            for v in [int(x) for g in f[0].split(";") for x in g.split(",")]:
                if d["ty"] == "f32" and not (0x3F800000 <= v < 0x40000000):
                    return "next_f32 outside [1,2)"
                if d["ty"] == "f64" and not (0x3FF0000000000000 <= v < 0x4000000000000000):
                    return "next_f64 outside [1,2)"
    if req.startswith("word"):
        for tok in impl.split():
            if tok.startswith("f:"):
                v = int(tok[2:])
                if not (0x3F800000 <= v < 0x40000000 or 0x3FF0000000000000 <= v < 0x4000000000000000):
                    return "unit float outside [1,2)"
    return None
