"""C11 - unit floats: next_f32/f64 in [1,2) on an exact grid, Float01 strictly in (0,1)."""
from . import common as C, gen_int as G, oracles as O

LEAN_MODULE = ["Urandom.Props.C11", "Urandom.Props.C11T", "Urandom.Props.C13R", "Urandom.Props.C01R"]
RULE = ("requests: Float01 (f32, f64, Random::float01) for all 65 leading-zero classes of the first word x mantissa words {0, !0, random}; "
        "next_f32/next_f64 of every generator through the word/std streams; "
        "extra (implementation only, exact counting by interval search with real calls): the number of first words Float01 maps into each binade [2^-(k+1), 2^-k) must be exactly 2^(63-k) "
        "for every k < 64 (all words covered: the step function first word -> binade is resolved completely), the mantissa field must take probed values for exactly 2^12 (f64: 64-bit second word) / 2^9 (f32: 32-bit second word) words each, "
        "twin runs (ChaCha at every buffer offset, SplitMix64, Wyrand): the float equals the top bits of the raw word the generator returns at the same point of the same history; "
        "and next_f64 / next_f32 through the standard distribution must hit probed values of [1,2) by equally many words; non-trivial = all; distinct = distinct request line"
        " Since rounds 9/10: the [1,2) oracle on ChaCha histories; float01() / unit floats as ops inside ChaCha histories at every kind of buffer position (f01 must lie strictly inside (0,1)).")
ASSUMPTIONS = []


def generate(r, tier, build):
    k = 1 if tier == "quick" else 30
    reqs = G.f01_requests(r, 1500 * k)
    for _ in range(300 * k):
        ty = r.choice(["f32", "f64"])
        reqs.append("std ty=%s n=2 profile=debug words=%d,%d" % (ty, r.edge64(), r.edge64()))
    for _ in range(200 * k):
        gen = r.choice(["xoshiro", "splitmix", "wyrand"])
        reqs.append("word gen=%s seed=%d via=from_seed ops=%s" % (gen, r.edge64(), ",".join(r.choice(["f32", "f64"]) for _ in range(r.range(1, 6)))))
    # ChaCha's unit floats at every buffer offset (correspondence with the block-generator model)
    from . import gen_chacha as GC
    for _ in range(150 * k):
        kk, c, st, N = GC.key(r), GC.counter(r), GC.stream(r), GC.rounds(r)
        ops = ["fill:%d" % r.choice([252, 248, 250, 253, 255, 256, r.below(260)])] + [r.choice(["f32", "f64", "f64", "u32", "u64"]) for _ in range(r.range(1, 5))]
        reqs.append("chacha n=%d key=%s ctr=%d str=%d ops=%s" % (N, ",".join(map(str, kk)), c, st, ",".join(ops)))
    # Float01 (`Random::float01`) and the unit floats drawn from a real block generator at every kind of buffer position
    reqs += GC.dist_histories(r, 120 * k, lambda r: r.choice(["f01", "f01", "f64", "f32"]))
    # Xoshiro256 with injected states whose raw word (xoshiro256+: s0 + s3) has a chosen mantissa field: all zero (exactly 1.0), all ones, single bits, random
    for _ in range(300 * k):
        op = r.choice(["f32", "f64"])
        mb, sh = (23, 41) if op == "f32" else (52, 12)
        man = r.choice([0, 0, (1 << mb) - 1, 1, 1 << (mb - 1), r.below(1 << mb)])
        word = (man << sh) | r.choice([0, (1 << sh) - 1, r.below(1 << sh)])
        s0 = r.choice([0, 1, r.u64()])
        s3 = (word - s0) % (1 << 64)
        reqs.append("word gen=xoshiro state=%d,%d,%d,%d via=serde ops=%s,%s" % (s0, r.choice([0, r.u64()]), r.choice([0, r.u64()]), s3, op, r.choice(["u64", "f32", "f64", "u32"])))
    return reqs


def corpus(build):
    return ["f01 w=64 n=2 words=0,0,18446744073709551615,18446744073709551615", "f01 w=32 n=2 words=0,0,18446744073709551615,18446744073709551615"]


def classify(req, model):
    return req.split()[0]


def oracle(req, impl, build):
    if req.startswith("f01"):
        return O.f01_oracle(req, impl)
    if req.startswith("std"):
        d = O.kv(req)
        f = O.parse_ok(impl)
        if f:
            for v in [int(x) for g in f[0].split(";") for x in g.split(",")]:
                if d["ty"] == "f32" and not (0x3F800000 <= v < 0x40000000):
                    return "next_f32 outside [1,2)"
                if d["ty"] == "f64" and not (0x3FF0000000000000 <= v < 0x4000000000000000):
                    return "next_f64 outside [1,2)"
    # (which bits of the raw word become the mantissa is not fixed by this property - C01 fixes it for the published generators; the
    #  weights are judged by the preimage counts and the twin runs in `extra`)
    if req.startswith("word") or req.startswith("chacha"):
        ops = req.split("ops=")[1].split()[0].split(",") if "ops=" in req else []
        toks = impl.split()
        for i, tok in enumerate(toks):
            if tok.startswith("z:") and not (0 < int(tok[2:]) < 0x3FF0000000000000):
                return "op %d (float01 on a real generator) returned bits 0x%x: not strictly inside (0, 1)" % (i, int(tok[2:]))
        for i, tok in enumerate(toks):
            if tok.startswith("f:"):
                v = int(tok[2:])
                op = ops[i] if i < len(ops) and len(toks) >= len(ops) else None
                ok32, ok64 = 0x3F800000 <= v < 0x40000000, 0x3FF0000000000000 <= v < 0x4000000000000000
                if (op == "f32" and not ok32) or (op == "f64" and not ok64) or not (ok32 or ok64):
                    return "op %d (%s) returned bits 0x%x: a unit float outside [1,2) (NaN, negative or another binade)" % (i, op or "float draw", v)
    return None


def extra(binary, build, tier, rng):
    """Float01: exact binade and mantissa preimage counts on the implementation; next_f32/f64 value preimage counts."""
    from .preimage_oracle import Prober, steps, validate_steps, count_values
    from .oracles import parse_ok
    B = 1 << 64
    calls = 0
    for w, via in ((64, "sample"), (64, "float01"), (32, "sample")):
        mb, bias = (52, 1023) if w == 64 else (23, 127)
        L2 = 64 if w == 64 else 32                     # width of the second draw (next_f32 consumes a 32-bit word)
        def fields(res, mb=mb, bias=bias):
            f = parse_ok(res)
            if f is None:
                return None
            v = int(f[0])
            return (bias - 1 - (v >> mb), v & ((1 << mb) - 1))     # (k: the value lies in [2^-(k+1), 2^-k), mantissa field)
        # which of the two words decides the binade, which the mantissa?  (today: first word -> binade, second -> mantissa; a rewrite may
        # do it the other way round: the property only fixes the weights).  Found by varying one word at a time.
        base = (0x0123456789ABCDEF, 0x0FEDCBA987654321 & ((1 << L2) - 1))
        pr = Prober(binary, lambda pair: "f01 w=%d via=%s n=1 words=%d,%d" % (w, via, pair[0], pair[1]), fields)
        # (shallow binades only: whether the mantissa is independent of the binade word in the DEEP binades is what the counts below examine)
        v1 = {pr.one((x, base[1])) for x in (1 << 59, 1 << 60, 1 << 61, 1 << 62, B - 1, base[0])}
        v2 = {pr.one((base[0], x)) for x in (1, 1 << 10, 1 << 20, (1 << L2) - 1, 1 << (L2 - 2), base[1])}
        calls += pr.calls
        if None in v1 or None in v2:
            yield {"kind": "note", "text": "Float01 w=%d via=%s: two words do not suffice for a sample - weight counts inconclusive" % (w, via)}
            continue
        bin_by_1, man_by_1 = len({a for a, _ in v1}) > 1, len({b for _, b in v1}) > 1
        bin_by_2, man_by_2 = len({a for a, _ in v2}) > 1, len({b for _, b in v2}) > 1
        if bin_by_1 and not bin_by_2 and man_by_2 and not man_by_1:
            order = (0, 1)
        elif bin_by_2 and not bin_by_1 and man_by_1 and not man_by_2:
            order = (1, 0)
        else:
            yield {"kind": "note", "text": "Float01 w=%d via=%s: binade and mantissa are not each decided by one word - weight counts inconclusive" % (w, via)}
            continue
        bw, mw = order                                  # index of the word deciding the binade / the mantissa
        # how many bits of each scripted 64-bit word are consumed (a 32-bit draw takes the low half): does the upper half matter?
        def wide(pos):
            outs = set()
            for hi_bits in (0, 1 << 40, 1 << 63, 0xFFFFFFFF00000000):
                ws = [0x1234, 0x5678]
                ws[pos] = (ws[pos] & 0xFFFFFFFF) | hi_bits
                outs.add(pr.one((ws[0], ws[1])))
            return 64 if len(outs) > 1 else 32
        Lb, Lm = wide(bw), wide(mw)
        def pair(bword, mword, bw=bw):
            return (bword, mword) if bw == 0 else (mword, bword)
        for m2 in (0, (1 << Lm) - 1, rng.bits(Lm)):
            mk = lambda x, m2=m2: "f01 w=%d via=%s n=1 words=%d,%d" % ((w, via) + pair(x, m2))
            p = Prober(binary, mk, lambda res: (fields(res) or (None,))[0])
            runs = steps(p, 0, (1 << Lb) - 1)
            calls += p.calls
            if runs is None:
                yield {"kind": "note", "text": "Float01 w=%d via=%s: the binade is not a small step function of the word that decides it - binade count inconclusive" % (w, via)}
                continue
            bad = validate_steps(p, runs, rng)
            if bad:
                yield {"kind": "note", "text": "Float01 w=%d: binade runs not contiguous at word %d - binade count inconclusive" % (w, bad[0])}
                continue
            cnt = {}
            for first, last, k in runs:
                cnt[k] = cnt.get(k, 0) + last - first + 1
            if Lb < 64:
                yield {"kind": "note", "text": "Float01 w=%d via=%s: the binade is decided by a %d-bit word: binades k >= %d cannot have weight 2^-(k+1) - judged below" % (w, via, Lb, Lb)}
            for k in range(min(64, Lb)):
                if cnt.get(k, 0) != 1 << (Lb - 1 - k):
                    wit = next((first for first, last, kk in runs if kk == k), 0)
                    extra_words = [(first, last) for first, last, kk in runs if kk == k]
                    yield {"kind": "oracle", "build": build, "request": mk(wit), "impl": "binade %d <- deciding words %s" % (k, extra_words[:4]), "model": "",
                           "oracle": "Float01 (w=%d via=%s): binade [2^-%d, 2^-%d) receives %d of the 2^%d words that decide the binade, not 2^%d = %d" % (w, via, k + 1, k, cnt.get(k, 0), Lb, Lb - 1 - k, 1 << (Lb - 1 - k))}
                    break
        # mantissa: a fixed binade word, the mantissa field as a function of the other word
        # (deep binades too: a sampler that shifts the significand instead of replacing the exponent loses mantissa bits only there)
        for w1 in [0, 1 << (Lb - 1), rng.bits(Lb)] + [((1 << (Lb - 1 - lz)) | rng.bits(Lb - 1 - lz)) if lz < Lb - 1 else 1 for lz in (8, 24, 32, 40, 41, 45, 52, 60, 63) if lz < Lb]:
            mk = lambda x, w1=w1: "f01 w=%d via=%s n=1 words=%d,%d" % ((w, via) + pair(w1, x))
            p = Prober(binary, mk, lambda res: (fields(res) or (None, None))[1])
            r = 1 << mb
            vals = [0, 1, 2, r // 2 - 1, r // 2, r - 2, r - 1] + [rng.below(r) for _ in range(4)]
            msg, info = count_values(p, r, Lm, vals, rng, "Float01 mantissa (w=%d)" % w)
            calls += p.calls
            if msg == "inconclusive":
                yield {"kind": "note", "text": "Float01 w=%d mantissa preimage count inconclusive: %s" % (w, info)}
            elif msg:
                yield {"kind": "oracle", "build": build, "request": mk(info[min(info)][0]), "impl": str(info)[:400], "model": "", "oracle": msg}
            elif any(n != (1 << Lm) // r for (_, _, n) in info.values()):
                c = next(c for c, (_, _, n) in info.items() if n != (1 << Lm) // r)
                yield {"kind": "oracle", "build": build, "request": mk(info[c][0]), "impl": str(info[c]), "model": "",
                       "oracle": "Float01 (w=%d): mantissa value %d is produced by %d words, not 2^%d (not a full-width mantissa)" % (w, c, info[c][2], Lm - mb)}
    # twin runs: the unit float a generator returns must be the top bits of the raw word it would have returned at the same point of the
    # same history - for ChaCha at every buffer offset (the prefix contains byte fills), for SplitMix64 and Wyrand (Xoshiro256 derives
    # its floats from xoshiro256+, not from next_u64: covered by the injected-state requests)
    from . import gen_chacha as GC
    twins = []
    for _ in range(150 if tier == "quick" else 5000):
        op, raw = rng.choice([("f64", "u64"), ("f32", "u32")])
        if rng.chance(2, 3):
            kk, c, s, N = GC.key(rng), GC.counter(rng), GC.stream(rng), GC.rounds(rng)
            pre = ["fill:%d" % rng.choice([252, 251, 253, 248, 249, 250, 254, 255, 256, 4, 3, 1, 0, rng.below(260)])] if rng.chance(3, 4) else []
            pre += [rng.choice(["u32", "u64", "f32", "f64", "fill:%d" % rng.below(9)]) for _ in range(rng.below(4))]
            head = "chacha n=%d key=%s ctr=%d str=%d ops=" % (N, ",".join(map(str, kk)), c, s)
        else:
            pre = [rng.choice(["u32", "u64", "f32", "f64", "fill:%d" % rng.below(20), "jump"]) for _ in range(rng.below(4))]
            head = "word gen=%s seed=%d via=from_seed ops=" % (rng.choice(["splitmix", "wyrand"]), rng.edge64())
        twins.append((head + ",".join(pre + [op]), head + ",".join(pre + [raw]), op, len(pre)))
    # every word-aligned and unaligned offset near the end of the 256-byte buffer, both widths, all round counts
    for N in (8, 12, 20):
        for off in (240, 244, 247, 248, 249, 250, 251, 252, 253, 254, 255, 256):
            for op, raw in (("f64", "u64"), ("f32", "u32")):
                head = "chacha n=%d key=1,2,3,4,5,6,7,8 ctr=7 str=1 ops=" % N
                twins.append((head + "fill:%d,%s" % (off, op), head + "fill:%d,%s" % (off, raw), op, 1))
    rc, res, err = C.run_lines(binary, ["run"], [q for t in twins for q in t[:2]])
    # what the same raw word gives through the generic path (a scripted source behind the standard distribution): the reference mapping of
    # THIS implementation, whatever bits it uses
    raws = []
    for k, (qf, qr, op, npre) in enumerate(twins):
        tf, tr = res[2 * k].split(), res[2 * k + 1].split()
        ok = len(tf) > npre and len(tr) > npre and tf[npre].startswith("f:") and tr[npre].isdigit()
        raws.append((int(tf[npre][2:]), int(tr[npre])) if ok else None)
    gen_reqs = ["std ty=%s n=1 profile=%s words=%d" % (t[2], "release" if build == "release" else "debug", r[1]) for t, r in zip(twins, raws) if r]
    rc, gres, err = C.run_lines(binary, ["run"], gen_reqs)
    git = iter(gres)
    suspects = []
    for k, ((qf, qr, op, npre), r) in enumerate(zip(twins, raws)):
        if not r:
            continue
        f = parse_ok(next(git))
        if f is None:
            continue
        got, word, want = r[0], r[1], int(f[0])
        if got != want:
            suspects.append((qf, qr, op, npre, got, word, want, res[2 * k], res[2 * k + 1]))
    # a float that differs from the generic mapping of the same raw word is only a failing input if the values really are not equally
    # weighted: confirmed on 64 variants of the history (other keys / seeds): some mantissa bit never varies
    import re
    for qf, qr, op, npre, got, word, want, rf, rr in suspects[:3]:
        var = []
        for i in range(64):
            if qf.startswith("chacha"):
                var.append(re.sub(r"key=[\d,]+", "key=%s" % ",".join(str(rng.bits(32)) for _ in range(8)), qf))
            else:
                var.append(re.sub(r"seed=\d+", "seed=%d" % rng.u64(), qf))
        rc, vres, err = C.run_lines(binary, ["run"], var)
        mans = [int(t.split()[npre][2:]) & ((1 << (52 if op == "f64" else 23)) - 1) for t in vres if len(t.split()) > npre and t.split()[npre].startswith("f:")]
        stuck = [b for b in range(52 if op == "f64" else 23) if len({(m >> b) & 1 for m in mans}) == 1] if len(mans) >= 48 else []
        if stuck:
            yield {"kind": "oracle", "build": build, "request": qf, "requests": [qf, qr], "impl": rf[:200], "model": rr[:200],
                   "oracle": "next_%s returned bits %#x where the generator's raw word at this point is %#x (the generic path maps that word to %#x), and over %d variants of this history mantissa bit(s) %s never change: the values of [1,2) are not hit by equally many words" % (op, got, word, want, len(mans), stuck[:6])}
        else:
            yield {"kind": "note", "text": "%s: next_%s differs from the generic mapping of the same raw word, no stuck mantissa bit over 64 variants - not judged" % (qf[:120], op)}
    yield {"kind": "count", "what": "float-vs-raw-word-twins", "n": len(twins), "distinct": len(twins)}
    # next_f64 / next_f32 (standard distribution over a scripted word source): probed values of [1,2) are hit by equally many words
    prof = "release" if build == "release" else "debug"
    for ty, mb, one in (("f64", 52, 0x3FF0000000000000), ("f32", 23, 0x3F800000)):
        mk = lambda x, ty=ty: "std ty=%s n=1 profile=%s words=%d" % (ty, prof, x)
        def parse(res, one=one):
            f = parse_ok(res)
            return None if f is None else int(f[0]) - one
        p = Prober(binary, mk, parse)
        r = 1 << mb
        vals = [0, 1, r // 2, r - 2, r - 1] + [rng.below(r) for _ in range(4)]
        msg, info = count_values(p, r, 64 if ty == "f64" else 32, vals, rng, "next_%s" % ty)
        calls += p.calls
        if msg == "inconclusive":
            yield {"kind": "note", "text": "next_%s preimage count inconclusive: %s" % (ty, info)}
        elif msg:
            yield {"kind": "oracle", "build": build, "request": mk(info[min(info)][0]), "impl": str(info)[:400], "model": "", "oracle": msg}
    yield {"kind": "count", "what": "float-preimage-probes", "n": calls}
