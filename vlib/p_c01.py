"""C01 - seeded word generators equal the published algorithms, for every seed and history."""
from . import common as C

LEAN_MODULE = ["Urandom.Props.C01", "Urandom.Props.C01T", "Urandom.Props.C10T", "Urandom.Props.C01R", "Urandom.Props.C17R"]


def disagreement_is_failing(req, impl, model):
    """Model.run = Spec.run is proved: an OUTPUT that differs from the model differs from the published algorithm. The state read back
    through serde (`st:` token) is representation, not output: a difference there alone is only a broken correspondence."""
    strip = lambda t: " ".join(x for x in t.split() if not x.startswith(("st:", "idx:")))
    return strip(impl) != strip(model)

RULE = ("requests: generator x (seed | injected 256-bit state) x constructor path (from_seed, urandom::seeded, from_rng via Mock, serde) x "
        "random op history over {u32,u64,f32,f64,fill:n,jump,clone,split} (length 0..60, fill lengths clustered at 0..17 and larger); "
        "SplitMix64 / Wyrand additionally from seeds computed backwards so that the state at a draw is a structured word (zero / all-ones 32-bit halves, single bits, the source's constants xor such words); "
        "every output and the final state are compared with the Lean model. non-trivial = history contains at least one op; distinct = distinct request line"
        " Since rounds 9/10: typed fills inside histories (zfill:k over zero-sized elements, zrb = random_bytes::<()>, tfill:k over u32 elements); the LE word-stream oracle also on typed fills of 4200..100000 bytes with element sizes 3 and 20.")
TRUSTED = ["the scalar cores (mix64 / next / jump of SplitMix64; rapid_mum / rapid_mix / wyrand / jump of Wyrand; advance / next_plusplus / next_plus / jump of "
           "Xoshiro256; rng_f32 / rng_f64) are TRANSLATED from the current source on every run (tools/extract_scalar.py -> Generated/Scalar.lean) and the model is proved "
           "equal to the translation (Props/C01T.lean); trusted there: the translator's reading of the Rust subset those functions use (wrapping arithmetic, shifts, "
           "rotates, casts between unsigned widths, &mut parameters as extra results, counted loops as folds). The Rng impl methods and from_seed of the three generators are translated as well; rng_fill_bytes, fill_bytes / clone / split and "
           "urandom::seeded's forwarding are hand-modelled and tied by the correspondence",
           "Spec/Published.lean is a transcription of Vigna's splitmix64.c / xoshiro256plusplus.c / xoshiro256plus.c and wyhash's wyrand (anchored by published known-answer vectors)"]
ASSUMPTIONS = ["64-bit little-endian target only"]

OPS = ["u32", "u64", "f32", "f64", "fill", "jump", "clone", "split"]


def fill_len(r):
    k = r.below(10)
    if k < 5:
        return r.below(18)
    if k < 8:
        return r.below(70)
    if k < 9:
        return r.range(120, 136)
    return r.below(1100)


def history(r, maxlen=60, ops=OPS, weights=None):
    n = r.below(maxlen + 1)
    out = []
    for _ in range(n):
        op = r.choice(ops)
        if op in ("jump", "clone", "split") and r.chance(1, 2):
            op = r.choice(["u32", "u64", "f32", "f64", "fill"])
        if op == "fill":
            op = "fill:%d" % fill_len(r)
            if r.chance(1, 12):
                # the typed entry points inside a history: zero-sized elements / `random_bytes::<()>()` (no bytes: no draw either), u32 elements
                op = r.choice(["zfill:%d" % r.choice([0, 1, 3, 5]), "zrb", "tfill:%d" % r.below(7)])
        out.append(op)
    return out


def seed_value(r):
    return r.edge64()


def generate(r, tier, build):
    n = 1500 if tier == "quick" else 40000
    reqs = []
    # SplitMix64 / Wyrand driven into structured internal states (zero / all-ones halves, single bits, the source's constants): the operand
    # classes of the 64x64 multiplications and their carry chains
    from .gen_int import weyl_seed_for
    for i in range(600 if tier == "quick" else 20000):
        gen = r.choice(["wyrand", "wyrand", "splitmix"])
        draws, jumps = r.choice([1, 1, 2, 3, 5]), r.choice([0, 0, 0, 1, 2])
        seed, _ = weyl_seed_for(r, gen, draws, jumps)
        pre = ["u64"] * (draws - 1) + ["jump"] * jumps
        for _ in range(3):
            r_i = r.below(len(pre) + 1)
        ops = pre[:]
        # the draw that lands on the structured state, then a few more of every kind
        ops += [r.choice(["u64", "u64", "fill:8", "fill:16", "u32", "f64", "f32", "fill:%d" % r.range(1, 24)])] + [r.choice(["u64", "u32", "f64", "fill:9"]) for _ in range(r.below(3))]
        reqs.append("word gen=%s seed=%d via=from_seed ops=%s" % (gen, seed, ",".join(ops)))
    for i in range(n):
        gen = r.choice(["xoshiro", "xoshiro", "splitmix", "wyrand"])
        ops = ",".join(history(r))
        if gen == "xoshiro":
            k = r.below(6)
            if k == 0:
                st = [r.edge64() for _ in range(4)]
                if r.chance(1, 8):
                    st = [0, 0, 0, 0]
                if r.chance(1, 8):
                    st = [0, 0, 0, 0]
                    st[r.below(4)] = 1 << r.below(64)
                via = r.choice(["serde", "from_rng"])
                reqs.append("word gen=xoshiro state=%s via=%s ops=%s" % (",".join(map(str, st)), via, ops))
            else:
                via = r.choice(["from_seed", "seeded"])
                reqs.append("word gen=xoshiro seed=%d via=%s ops=%s" % (seed_value(r), via, ops))
        else:
            via = r.choice(["from_seed", "from_seed", "from_rng", "serde"])
            reqs.append("word gen=%s seed=%d via=%s ops=%s" % (gen, seed_value(r), via, ops))
    return reqs


def corpus(build):
    from .gen_int import literal_sweep
    from . import harvest
    # every harvested word (literals of the source and their simple derivatives and combinations) as a seed, and - for the Weyl generators - as
    # the internal state at the first and at the second draw (seed = word - k * increment): a guard keyed on a constant anywhere near the
    # input of the mixing function is reached
    sweep = []
    for w in harvest.words(C.REPO):
        sweep.append("word gen=xoshiro seed=%d via=from_seed ops=u64,f32" % w)
        for gen, inc in (("splitmix", 0x9e3779b97f4a7c15), ("wyrand", 0x2d358dccaa6c78a5)):
            sweep.append("word gen=%s seed=%d via=from_seed ops=u64,u32" % (gen, w))
            sweep.append("word gen=%s seed=%d via=from_seed ops=u64,u64" % (gen, (w - inc) & C.M64))
    from .gen_int import structured_xoshiro_seeds
    for sd in structured_xoshiro_seeds():
        sweep.append("word gen=xoshiro seed=%d via=from_seed ops=u64,u32" % sd)
        sweep.append("word gen=xoshiro seed=%d via=seeded ops=u64,f64" % sd)
    return sweep + literal_sweep("u64,u32,f64,fill:9,jump,u64,f32,fill:3") + [
        # published known-answer anchors and the crate's doc-test values
        "word gen=xoshiro state=1,2,3,4 via=serde ops=u64,u64,u64,u64",
        "word gen=splitmix seed=1234567 via=from_seed ops=u64,u64,u64,u64,u64",
        "word gen=xoshiro seed=42 via=seeded ops=u32",
        "word gen=splitmix seed=42 via=from_seed ops=u32",
        "word gen=wyrand seed=42 via=from_seed ops=u32",
        "word gen=xoshiro seed=0 via=from_seed ops=zfill:3,u64,zrb,u32,tfill:3,u64,zfill:0,f64", "word gen=wyrand seed=5 via=from_seed ops=u64,zfill:5,u64,zrb,u64",
        "word gen=splitmix seed=5 via=from_seed ops=zrb,u64,tfill:1,u64",
        "word gen=xoshiro seed=0 via=from_seed ops=fill:0,fill:1,fill:2,fill:3,fill:4,fill:5,fill:6,fill:7,fill:8,fill:9,fill:15,fill:16,fill:17",
        "word gen=wyrand seed=18446744073709551615 via=from_seed ops=jump,u64,split,u64,clone",
    ]


def classify(req, model):
    ops = req.split("ops=")[1]
    if not ops:
        return None
    kinds = sorted({o.split(":")[0] for o in ops.split(",")})
    return req.split()[1] + "/" + ("jumpy" if {"jump", "split"} & set(kinds) else "plain")


def oracle(req, impl, build):
    return None


def extra(binary, build, tier, rng):
    """the streams of the word generators under LARGE byte fills (64 KiB and more, every alignment class): the little-endian word stream of the
    same generator - the list-based model driver is too slow for fills of this size, so this part is judged on the implementation alone"""
    if build == "release":
        # one fill of more than 2^32 bytes per generator (a 32-bit length, mask or counter on the way is only visible there): the little-endian
        # word stream of a clone, no untouched window, and the generator continues with the word after the last one used
        L = (1 << 32) + 13
        reqs = ["bigfill gen=%s seed=%d pre32=1 len=%d api=fill_bytes" % (g, 40 + i, L) for i, g in enumerate(("xoshiro", "splitmix", "wyrand"))]
        for q, o in zip(reqs, C.run_parallel(binary, reqs)):
            f = dict(t.split(":", 1) for t in o.split()) if o.startswith("le:") else {}
            if not f:
                yield {"kind": "oracle", "build": build, "request": q, "impl": o, "model": "", "oracle": "a fill of 2^32 + 13 bytes failed: " + o}
            elif f["le"] != "ok":
                yield {"kind": "oracle", "build": build, "request": q, "impl": o, "model": "", "oracle": "seeded stream under a fill of 2^32 + 13 bytes: byte %s is not the little-endian serialisation of the successive next_u64 outputs (%s of %s probed 4 KiB windows were not written at all)" % (f["le"], f["zero_windows"], f["of"])}
            elif f["cont"] != "ok":
                yield {"kind": "oracle", "build": build, "request": q, "impl": o, "model": "", "oracle": "after a fill of 2^32 + 13 bytes the generator does not continue with the word after the last one used"}
        yield {"kind": "count", "what": "huge-fill-bytes", "n": 3 * L}
    if build != "dev" and tier == "quick":
        return
    from . import p_c10
    yield from p_c10.big_fill_le_oracle(binary, build, "seeded stream under a large fill: ")
