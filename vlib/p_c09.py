"""C09 - every 64-bit seed gives a valid, distinct generator."""
from . import common as C

LEAN_MODULE = "Urandom.Props.C09"
RULE = ("requests: from_seed / urandom::seeded for seeds {0,1,!0,2^k,2^k-1, low-entropy patterns, random} on Xoshiro256, SplitMix64, Wyrand, ChaCha8/12/20: the state read back "
        "through serde and the first outputs are compared with the model; oracle: state not all-zero, and pairwise distinct states for the distinct seeds of the run. "
        "non-trivial = all; distinct = distinct request line")
ASSUMPTIONS = ["stream distinctness beyond the initial state is proved only where the output map is a bijection (SplitMix64); see Props/C09.lean"]


def seeds(r, n):
    base = [0, 1, 2, C.M64, C.M64 - 1, 1 << 63, (1 << 63) - 1, 0x5555555555555555, 0xAAAAAAAAAAAAAAAA, 0x0123456789ABCDEF,
            0x61c8864680b583eb, 0xc3910c8d016b07d6, 0x9e3779b97f4a7c15, (-0x9e3779b97f4a7c15) & C.M64, (-2 * 0x9e3779b97f4a7c15) & C.M64]
    base += [1 << k for k in range(0, 64, 3)] + [(1 << k) - 1 for k in range(2, 64, 5)]
    return base + [r.u64() for _ in range(n)] + [r.edge64() for _ in range(n)]


def generate(r, tier, build):
    k = 1 if tier == "quick" else 20
    reqs = []
    for s in seeds(r, 150 * k):
        reqs.append("word gen=xoshiro seed=%d via=%s ops=u64,u32" % (s, r.choice(["from_seed", "seeded"])))
        reqs.append("word gen=xoshiro seed=%d via=from_seed ops=" % s)
        reqs.append("word gen=splitmix seed=%d via=from_seed ops=u64" % s)
        reqs.append("word gen=wyrand seed=%d via=from_seed ops=u64" % s)
        reqs.append("chacha n=%d seed=%d ops=u32" % (r.choice([8, 12, 20]), s))
    return reqs


def corpus(build):
    return []


def classify(req, model):
    return req.split()[1] if req.startswith("word") else "chacha"


_seen = {}


def oracle(req, impl, build):
    import re
    m = re.search(r"st:([\d,]+)", impl)
    if not m:
        return None
    st = m.group(1)
    kind = classify(req, impl)
    seed = re.search(r"seed=(\d+)", req).group(1)
    if kind == "xoshiro" and all(x == "0" for x in st.split(",")):
        return "seed %s gives the all-zero Xoshiro256 state" % seed
    # distinct seeds -> distinct initial states.  The state printed is after the ops; compare the model-independent
    # initial state where available: for ChaCha the key words are unchanged by draws.
    if kind == "chacha":
        key = (build, kind, ",".join(st.split(",")[:8]))
        other = _seen.setdefault(key, seed)
        if other != seed:
            return "seeds %s and %s give the same ChaCha key" % (other, seed)
    if kind == "xoshiro" and req.endswith("ops="):
        key = (build, kind, st)
        other = _seen.setdefault(key, seed)
        if other != seed:
            return "seeds %s and %s give the same Xoshiro256 state" % (other, seed)
    return None
