"""C09 - every 64-bit seed gives a valid, distinct generator."""
from . import common as C

LEAN_MODULE = ["Urandom.Props.C09", "Urandom.Props.C09T", "Urandom.Props.C17R"]
RULE = ("requests: from_seed / urandom::seeded for seeds {0,1,!0,2^k,2^k-1, low-entropy patterns, random} on Xoshiro256, SplitMix64, Wyrand, ChaCha8/12/20: the state read back "
        "through serde and the first outputs are compared with the model; oracle: state not all-zero, and pairwise distinct states for the distinct seeds of the run; extra: specification-guided collision search (the seed that the documented "
        "expansion maps to the state observed for s is computed by inverting the expansion; if it is not s the implementation is asked for its state too). "
        "non-trivial = all; distinct = distinct request line"
        " Since round 10: the first output of a fresh ChaCha through byte fills of several lengths, a float and after a jump, compared across seeds (never all zero).")
ASSUMPTIONS = ["stream distinctness beyond the initial state is proved only where the output map is a bijection (SplitMix64); see Props/C09.lean"]


def seeds(r, n):
    base = [0, 1, 2, 3, 4, 5, 7, 8, 15, 16, C.M64, C.M64 - 1, 1 << 63, (1 << 63) - 1, 0x5555555555555555, 0xAAAAAAAAAAAAAAAA, 0x0123456789ABCDEF,
            0x61c8864680b583eb, 0xc3910c8d016b07d6, 0x9e3779b97f4a7c15, (-0x9e3779b97f4a7c15) & C.M64, (-2 * 0x9e3779b97f4a7c15) & C.M64]
    base += [1 << k for k in range(0, 64, 3)] + [(1 << k) - 1 for k in range(2, 64, 5)]
    return base + [r.u64() for _ in range(n)] + [r.edge64() for _ in range(n)]


def generate(r, tier, build):
    k = 1 if tier == "quick" else 20
    reqs = []
    for s in seeds(r, 150 * k):
        reqs.append("word gen=xoshiro seed=%d via=%s ops=u64,u32" % (s, r.choice(["from_seed", "seeded"])))
        reqs.append("word gen=xoshiro seed=%d via=from_seed ops=" % s)
        reqs.append("word gen=xoshiro seed=%d via=seeded ops=u64,u64,u32" % s)
        reqs.append("word gen=splitmix seed=%d via=from_seed ops=u64" % s)
        reqs.append("word gen=wyrand seed=%d via=from_seed ops=u64" % s)
        reqs.append("word gen=splitmix seed=%d via=from_seed ops=" % s)
        reqs.append("word gen=wyrand seed=%d via=from_seed ops=" % s)
        reqs.append("chacha n=%d seed=%d ops=u32" % (r.choice([8, 12, 20]), s))
        if len(reqs) % 3 == 0:
            # the FIRST request of a fresh generator may also be a byte fill (of any length) or a float: distinct seeds must still differ
            reqs.append("chacha n=%d seed=%d ops=%s" % (r.choice([8, 12, 20]), s, r.choice(["fill:32", "fill:32", "fill:20", "fill:300", "f64,fill:32", "jump,fill:32"])))
    return reqs


def corpus(build):
    from .gen_int import literal_sweep
    from . import harvest
    out = literal_sweep("u64,u32", "u32", empty_too=True) + []
    # every literal of the current source AND its simple derivatives (negation, complement, +-1, shifted / swapped halves, pairwise xor / sum /
    # difference) as a seed of every generator type: a seed expansion that collides at structured points (a hash with a zero, a guard on a
    # constant) collides on seeds of this kind
    for w in harvest.words(C.REPO):
        for n in (8, 12, 20):
            out.append("chacha n=%d seed=%d ops=u32" % (n, w))
        for g in ("xoshiro", "splitmix", "wyrand"):
            out.append("word gen=%s seed=%d via=from_seed ops=" % (g, w))
        out.append("word gen=xoshiro seed=%d via=seeded ops=u64,u64,u32" % w)
    # seeds whose documented expansion has two structured state words (spec-guided search in the harness): where a "state quality" guard bites
    from .gen_int import structured_xoshiro_seeds
    for sd in structured_xoshiro_seeds():
        out.append("word gen=xoshiro seed=%d via=from_seed ops=" % sd)
        out.append("word gen=xoshiro seed=%d via=seeded ops=u64,u64,u32" % sd)
    return out


def classify(req, model):
    return req.split()[1] if req.startswith("word") else "chacha"


_seen = {}
_req_of = {}          # (key) -> the request that first produced it, for two-request replays


def oracle(req, impl, build):
    import re
    m = re.search(r"st:([\d,]+)", impl)
    if not m:
        return None
    st = m.group(1)
    kind = "chacha" if req.startswith("chacha") else re.search(r"gen=(\w+)", req).group(1)
    ms = re.search(r"seed=(\d+)", req)
    if not ms:
        return None
    seed = ms.group(1)
    if kind == "xoshiro" and all(x == "0" for x in st.split(",")):
        return "seed %s gives the all-zero Xoshiro256 state" % seed
    # distinct seeds -> distinct initial states.  The state printed is after the ops; compare the model-independent
    # initial state where available: for ChaCha the key words are unchanged by draws.
    if kind == "chacha" and re.search(r"ops=(fill:\d+|f64,fill:32|jump,fill:32)$", req):
        rounds = re.search(r" n=(\d+)", req).group(1)
        ops = req.split("ops=")[1]
        first = " ".join(t for t in impl.split() if not t.startswith(("st:", "idx:")))
        bs = [t[2:] for t in impl.split() if t.startswith("b:")]
        if bs and len(bs[-1]) >= 40 and set(bs[-1]) <= {"0"}:
            return "ChaCha%s seeded with %s: a fresh generator's first byte fill (%s) is all zero - the seed never reaches the output" % (rounds, seed, ops)
        key = (build, "chacha-first-output", rounds, ops, first)
        other = _seen.setdefault(key, seed)
        _req_of.setdefault(key, req)
        if other != seed:
            return {"oracle": "ChaCha%s seeds %s and %s produce the same first output through `%s` (%s ...)" % (rounds, other, seed, ops, first[:50]), "requests": [_req_of[key], req]}
    if kind == "chacha":
        rounds = re.search(r" n=(\d+)", req).group(1)
        key = (build, kind, rounds, ",".join(st.split(",")[:8]))
        other = _seen.setdefault(key, seed)
        _req_of.setdefault(key, req)
        if other != seed:
            return {"oracle": "seeds %s and %s give the same ChaCha%s key" % (other, seed, rounds), "requests": [_req_of[key], req]}
    if kind == "xoshiro" and "via=seeded" in req and req.endswith("ops=u64,u64,u32"):
        # urandom::seeded returns an opaque generator: its state cannot be read, its stream can. Two seeds with the same first 160 bits of
        # output have the same stream (the generator is deterministic in its state; a chance collision has probability 2^-160)
        outs = " ".join(t for t in impl.split() if not t.startswith("st:"))
        key = (build, "seeded-stream", outs)
        other = _seen.setdefault(key, seed)
        _req_of.setdefault(key, req)
        if other != seed:
            return {"oracle": "urandom::seeded(%s) and urandom::seeded(%s) produce the same stream (%s ...)" % (other, seed, outs[:60]), "requests": [_req_of[key], req]}
    if kind in ("xoshiro", "splitmix", "wyrand") and req.endswith("ops="):
        key = (build, kind, st)
        other = _seen.setdefault(key, seed)
        _req_of.setdefault(key, req)
        if other != seed:
            return {"oracle": "seeds %s and %s give the same %s state" % (other, seed, kind), "requests": [_req_of[key], req]}
    return None


M1INV, M2INV, GAMMA = 0x96de1b173f119089, 0x319642b2d24d8ec3, 0x9e3779b97f4a7c15


def unmix64(y):
    """inverse of SplitMix64's output mix (independent Python re-implementation; cross-checked against the implementation below)"""
    inv = lambda k, v: v ^ (v >> k) ^ (v >> (2 * k))
    z = inv(31, y)
    z = (z * M2INV) & C.M64
    z = inv(27, z)
    z = (z * M1INV) & C.M64
    return inv(30, z)


def extra(binary, build, tier, rng):
    """collision search guided by the specification: the seed that SHOULD give the state the implementation produced for s is computed by inverting
    the documented expansion; if it differs from s, and the implementation gives it the same state, two seeds collide."""
    import re
    n = 40 if tier == "quick" else 2000
    from .gen_int import structured_xoshiro_seeds
    ss = seeds(rng, n) + structured_xoshiro_seeds(tier)
    plan = [("xoshiro", "word gen=xoshiro seed=%d via=from_seed ops="), ("xoshiro-seeded", "word gen=xoshiro seed=%d via=seeded ops="), ("splitmix", "word gen=splitmix seed=%d via=from_seed ops="),
            ("wyrand", "word gen=wyrand seed=%d via=from_seed ops="), ("chacha", "chacha n=12 seed=%d ops=")]
    probes = 0
    for kind, fmt in plan:
        reqs = [fmt % s for s in ss]
        rc, res, err = C.run_lines(binary, ["run"], reqs)
        probes += len(reqs)
        cand = []
        for s, q, o in zip(ss, reqs, res):
            m = re.search(r"st:([\d,]+)", o)
            if not m:
                continue
            st = [int(x) for x in m.group(1).split(",")]
            if kind.startswith("xoshiro"):
                s2 = (unmix64(st[0]) - GAMMA) & C.M64
            elif kind == "chacha":
                s2 = st[0] | (st[1] << 32)
            else:
                s2 = st[0]
            if s2 != s:
                cand.append((s, s2, q, m.group(1)))
        if cand:
            reqs2 = [fmt % s2 for (_, s2, _, _) in cand]
            rc, res2, err = C.run_lines(binary, ["run"], reqs2)
            probes += len(reqs2)
            for (s, s2, q, st), q2, o2 in zip(cand, reqs2, res2):
                m = re.search(r"st:([\d,]+)", o2)
                if m and m.group(1) == st:
                    yield {"kind": "oracle", "build": build, "request": q2, "requests": [q, q2], "impl": "st:" + st, "model": "",
                           "oracle": "seeds %d and %d give the same %s initial state" % (s, s2, kind)}
    yield {"kind": "count", "what": "collision-probes", "n": probes, "distinct": probes}
