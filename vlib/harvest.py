"""Dictionary of 'magic' words harvested from the CURRENT source of /repo (every run): every integer literal of src/**/*.rs (hex, octal,
binary, decimal; `_` separators and type suffixes removed) and every float literal (as f64 and f32 bit patterns), plus simple derived
words (+-1, complement, negation, halves swapped/shifted, << 40 (the Weyl jump), xor/sum/difference of pairs of the larger constants).
The request generators mix these into seeds, states, generator words and parameters (common.SplitMix.edge64): a guard or special case
keyed on a literal that somebody adds to the source puts that literal into the inputs the checks try."""
import os, re, struct
from functools import lru_cache

M64 = (1 << 64) - 1


def strip_comments(src):
    src = re.sub(r"/\*.*?\*/", "", src, flags=re.S)
    src = re.sub(r"//[^\n]*", "", src)
    # unit tests (known-answer vectors) are not code paths: in this crate they sit at the end of a file
    src = re.sub(r"#\[cfg\(test\)\]\s*mod\s+\w+\s*;", "", src)
    # remove every item that follows a #[test] / #[cfg(test)] attribute (brace matching)
    while True:
        m = re.search(r"#\[(?:cfg\(test\)|test)\]", src)
        if not m:
            return src
        i = src.find("{", m.end())
        semi = src.find(";", m.end())
        if i < 0 or (0 <= semi < i):
            src = src[:m.start()] + src[(semi + 1 if semi >= 0 else m.end()):]
            continue
        depth, j = 0, i
        while j < len(src):
            if src[j] == "{":
                depth += 1
            elif src[j] == "}":
                depth -= 1
                if depth == 0:
                    break
            j += 1
        src = src[:m.start()] + src[j + 1:]


@lru_cache(maxsize=1)
def literals(repo="/repo"):
    """the raw 64-bit literals >= 2^16 of the current source (no derivatives; ziggurat tables excluded), sorted: the values an equality
    guard or special case in the source can be keyed on.  Swept deterministically through the roles a property cares about."""
    ints = set()
    for root, _, files in os.walk(os.path.join(repo, "src")):
        for f in files:
            if not f.endswith(".rs") or f in ("ziggurat_tables.rs", "tests.rs"):
                continue
            src = strip_comments(open(os.path.join(root, f), errors="replace").read())
            for m in re.finditer(r"(?<![\w.])(0x[0-9a-fA-F_]+|0o[0-7_]+|0b[01_]+|[0-9][0-9_]*)(?:_?[iu](?:8|16|32|64|128|size))?(?![\w.])", src):
                t = m.group(1).replace("_", "")
                try:
                    v = int(t, 0) if t[:2] in ("0x", "0o", "0b") else int(t)
                except ValueError:
                    continue
                for part in ((v & M64, (v >> 64) & M64) if v > M64 else (v,)):
                    if part >= 1 << 16:
                        ints.add(part)
    return sorted(ints)


@lru_cache(maxsize=1)
def words(repo="/repo"):
    ints, floats = set(), set()
    for root, _, files in os.walk(os.path.join(repo, "src")):
        for f in files:
            if not f.endswith(".rs") or f in ("ziggurat_tables.rs", "tests.rs"):
                continue
            src = strip_comments(open(os.path.join(root, f), errors="replace").read())
            for m in re.finditer(r"(?<![\w.])(0x[0-9a-fA-F_]+|0o[0-7_]+|0b[01_]+|[0-9][0-9_]*)(?:_?[iu](?:8|16|32|64|128|size))?(?![\w.])", src):
                t = m.group(1).replace("_", "")
                try:
                    ints.add(int(t, 0) if t[:2] in ("0x", "0o", "0b") else int(t))
                except ValueError:
                    pass
            for m in re.finditer(r"(?<![\w.])([0-9][0-9_]*\.[0-9][0-9_]*(?:[eE][+-]?[0-9]+)?|[0-9][0-9_]*[eE][+-]?[0-9]+)(?:_?f(?:32|64))?", src):
                try:
                    floats.add(float(m.group(1).replace("_", "")))
                except ValueError:
                    pass
    base = set()
    for v in ints:
        if v > M64:
            base.add(v & M64); base.add((v >> 64) & M64)
        else:
            base.add(v)
    for x in floats:
        for y in (x, -x):
            base.add(struct.unpack("<Q", struct.pack("<d", y))[0])
            try:
                base.add(struct.unpack("<I", struct.pack("<f", y))[0])
            except OverflowError:
                pass
    big = sorted(v for v in base if v >= 1 << 16)
    out = set()
    for v in base:
        for d in (v, v + 1, v - 1, ~v, -v, v << 32, v >> 32, v << 40, -(v << 40), ((v << 32) | (v >> 32))):
            out.add(d & M64)
    for a in big[:40]:
        for b in big[:40]:
            if a < b:
                out.add(a ^ b); out.add((a + b) & M64); out.add((a - b) & M64); out.add((b - a) & M64)
    # a guard on a SMALL constant deep inside a computation (`if z == 0x1234` after `z = x + GAMMA`) is reached from the inputs by a
    # combination with one of the big constants: the small literals above 64 (few: bit-field widths, exponent biases, the surrogate
    # bounds) are combined with every big one
    mid = sorted(v for v in base if 64 < v < (1 << 16))
    for a in mid[:24]:
        for b in big[:40]:
            out.add(a ^ b); out.add((a + b) & M64); out.add((a - b) & M64); out.add((b - a) & M64)
    return sorted(out)
