"""C02 - ChaCha generators emit the genuine ChaCha keystream on every backend."""
from . import common as C, gen_chacha as G

LEAN_MODULE = ["Urandom.Props.C02", "Urandom.Props.C02T", "Urandom.Props.C02S"]


def disagreement_is_failing(req, impl, model):
    """A raw batch (portable back end through the hook) is exactly what the property fixes: the row-wise model is proved equal to Bernstein's
    block function, so impl != model there means impl block != specification block.  For the buffered generator (the only way to reach the
    SSE2 / AVX2 back ends) the property fixes that every byte is keystream of consecutive counters, not how the buffer hands it out or how the
    state is serialised: judged by the keystream attribution in `extra`."""
    return req.startswith("slpblock")

RULE = ("requests: (key, counter, stream, rounds) with keys {0, !0, single bit, random}, counters at 0..4, 2^32-5..2^32+1, 2^64-8..2^64-1 and random, "
        "stream ids {0,1,2^32-1,2^32,2^64-1,random}, rounds 8/12/20; two successive batches read through fill_bytes(256), 128 x next_u32 and mixed shapes; "
        "the portable back end through the verif hook (one raw batch + counter afterwards); from_seed for edge seeds. Builds: SSE2 (default), AVX2 (-C target-feature=+avx2) and one build per further target feature the current source is conditional on; "
        "thorough: also release. extra: every returned byte attributed to the specification keystream (model-free). non-trivial = all; distinct = distinct request line")
TRUSTED = ["the three block functions (slp.rs, sse2.rs, avx2.rs) are TRANSLATED from the current source text on every run (tools/extract_simd.py -> Generated/Simd.lean) into programs of a "
           "register machine over vectors of 32-bit lanes, and proved equal to the row-wise model / Bernstein's block function for every state and round count "
           "(slp/sse2/avx2_translated_is_model, translated_backends_are_keystream). Trusted there: the translator's parsing of the Rust subset the three files use "
           "(macro_rules! with expression parameters, let / destructuring, one counted loop, pointer casts) and the hand-written meaning of the eleven instructions, "
           "i.e. of the intrinsics _mm[256]_{add,slli,srli,shuffle}_epi32, _mm[256]_{xor,or}_si128/256, _mm256_setr_m128i, _mm256_permute2x128_si256, loadu/storeu "
           "(Intel's pseudo-code on lists of lanes); both are also exercised by the correspondence on the SSE2 and AVX2 harness builds and the hook for the portable one",
           "the dispatch between the back ends (cfg target_feature) and the buffered generator around `block` are hand-modelled (Model/Block.lean) and tied by the correspondence"]
ASSUMPTIONS = ["x86_64 with SSE2/AVX2 available on the sandbox CPU"]


def regenerate():
    import os, sys
    sys.path.insert(0, os.path.join(C.VERIF, "tools"))
    import extract
    extract.main()


def builds(tier):
    # one build per target feature the ChaCha code is conditional on (sse2 = the default build, avx2 = the AVX2 build; anything else the
    # current source names - ssse3, sse4.1, avx ... - gets a build of its own: `keystream identical on every back end it can be compiled with`)
    extra = [C.feature_build(f) for f in C.source_target_features() if f not in ("sse2", "avx2")]
    return ["dev", "avx2"] + extra + (["release", "avx2-release"] if tier == "thorough" else [])


def generate(r, tier, build):
    k = 1 if tier == "quick" else 15
    return G.batch_requests(r, 250 * k) + G.slp_requests(r, 150 * k) + G.seed_requests(r, 100 * k)


def corpus(build):
    z = "0,0,0,0,0,0,0,0"
    return ["chacha n=20 key=%s ctr=0 str=0 ops=fill:64" % z,                       # classic all-zero vector 76b8e0ad...
            "chacha n=12 seed=42 ops=u32",                                          # doc-test value 631540493
            "chacha n=20 key=%s ctr=18446744073709551614 str=0 ops=fill:256,fill:256" % z,   # counter wrap inside and after a batch (D7)
            "slpblock n=20 key=%s ctr=18446744073709551613 str=5" % z,
            "chacha n=8 key=%s ctr=4294967294 str=0 ops=fill:256,u32" % z]          # carry out of the low 32 bits


def classify(req, model):
    return req.split()[0] + "/" + req.split()[1]


def extra(binary, build, tier, rng):
    """every byte the buffered generator returns on this back end is located in the SPECIFICATION keystream (Bernstein's block function,
    computed by the driver's `specblock`) of its stream around its counter - batches at the 2^32 / 2^64 counter boundaries included"""
    from .ks_oracle import run_oracle
    reqs = [q for q in corpus(build) if q.startswith("chacha")] + G.batch_requests(rng, 120 if tier == "quick" else 2500) + G.seed_requests(rng, 40 if tier == "quick" else 800)
    rc, impls, err = C.run_lines(binary, ["run"], reqs)
    for item in run_oracle(binary, reqs, impls):
        if item.get("kind") == "oracle":
            item["build"] = build
        yield item
