"""C03 oracle: attribute every byte a ChaCha generator returned to a keystream position of the
*specification* block function (driver `specblock`), and check that every output is keystream and
that no position is issued twice.  Independent of the buffered-generator model.

Attribution rule (DESIGN.md 4, C03): search forward from the cursor first; an output that cannot be
found in the window at all is "not keystream" (only claimed for outputs of >= 4 bytes); an output
found at a place overlapping already issued positions by >= 4 bytes is "position reuse".
"""
import re
from . import common as C
from .oracles import kv

M64 = (1 << 64) - 1


def parse_req(req):
    d = kv(req)
    if "seed" in d:
        seed = int(d["seed"])
        lo, hi = seed & 0xFFFFFFFF, seed >> 32
        key, ctr, st = [lo, hi] * 4, 1, 0
    else:
        key, ctr, st = [int(x) for x in d["key"].split(",")], int(d["ctr"]), int(d["str"])
    ops = d["ops"].split(",") if d.get("ops") else []
    return int(d["n"]), key, ctr, st, ops


def total_bytes(ops):
    t = 0
    for o in ops:
        if o in ("u32", "f32"):
            t += 8          # may skip up to 3 bytes before a refill
        elif o in ("u64", "f64"):
            t += 16
        elif o.startswith("fill:"):
            t += int(o[5:])
        elif o.startswith(("clonef:", "splitf:")):
            t += int(o.split(":")[1]) + 16
        elif o in ("clone32", "split32", "clone", "split"):
            t += 16
    return t


class Window:
    """keystream of one stream over blocks [base, base+nblocks) (mod 2^64), fetched through the driver"""

    def __init__(self, data):
        self.data = data

    def find(self, matcher, L, start, end):
        for p in range(max(0, start), min(end, len(self.data) - L + 1)):
            if matcher(self.data, p):
                return p
        return None


def exact(b):
    L = len(b)
    return lambda data, p: data[p:p + L] == b


def f32_matcher(bits):
    m = bits & 0x7FFFFF
    return lambda data, p: (int.from_bytes(data[p:p + 4], "little") >> 9) == m


def f64_matcher(bits):
    m = bits & ((1 << 52) - 1)
    return lambda data, p: (int.from_bytes(data[p:p + 8], "little") >> 12) == m


def common_prefix(data, p, b, off):
    n = 0
    m = min(len(b) - off, len(data) - p)
    while n < m and data[p + n] == b[off + n]:
        n += 1
    return n


def best_run(data, b, off, cursor, issued_end):
    """longest run of b[off:] found in the window; candidates: the cursor, then every place where the
    first min(4, remaining) bytes match.  Returns (pos, length)."""
    rem = len(b) - off
    k = min(4, rem)
    cands = []
    if cursor is not None and cursor < len(data):
        cands.append(cursor)
    head = b[off:off + k]
    p = data.find(head)
    while p != -1 and len(cands) < 64:
        cands.append(p)
        p = data.find(head, p + 1)
    best = (None, 0)
    for p in cands:
        n = common_prefix(data, p, b, off)
        better = n > best[1] or (n == best[1] and n > 0 and best[0] is not None and p == cursor)
        if better:
            best = (p, n)
    return best


def fresh_short(data, seg, iv):
    """a run of 3 bytes between attributed runs cannot be placed reliably, but it can be REFUTED: a correct generator took it from positions it
    had not returned before - contiguous ones, or (straddling the end of the buffered batch and the start of the next) a first part and a
    second part - so the window must hold the 3 bytes, or at least one 2-byte part of them, at positions not yet issued (a chance match
    elsewhere only helps the implementation; shorter runs are not judged).  False = no such occurrence."""
    if len(seg) != 3:
        return True
    def unissued(part):
        p = data.find(part)
        while p != -1:
            if overlap(iv, p, p + len(part)) <= 0:
                return True
            p = data.find(part, p + 1)
        return False
    return unissued(seg) or unissued(seg[:2]) or unissued(seg[1:])


def overlap(iv, a, e):
    return max((min(e, y) - max(a, x) for (x, y) in iv), default=0)


def check_history(req, impl, windows, base_pad):
    """windows: {stream: Window}; position 0 of a window is block (ctr - base_pad).  Returns None or a message."""
    N, key, ctr, st, ops = parse_req(req)
    toks = impl.split()
    if impl == "panic" or len(toks) < len(ops):
        return None
    s = st
    cursor = base_pad * 64          # a fresh generator starts at block ctr
    issued = {}                     # stream -> list of (start, end)
    where = "(stream %%d, window from block %d)" % ((ctr - base_pad) & M64)
    for op, tok in zip(ops, toks):
        child = None
        if op.startswith(("clone", "split")):
            # the child (a clone / the generator as it was) continues the OLD stream from the current position: what it returns
            # must be keystream of that stream (never zero / default buffer content); reuse is not judged for it (by design it
            # repeats what the original returns later, or in the case of split what nobody else returns)
            kind = op.split(":")[0]
            if kind in ("clone", "split"):
                parts = tok.split(":")[1:]
                child = [("u64", p) for p in parts]
            elif kind in ("clone32", "split32"):
                child = [("u32", p) for p in tok.split(":")[1:]]
            else:
                child = [("fill", tok.split(":", 1)[1])]
            w = windows[s]
            cur = cursor
            for cop, ctok in child:
                b = int(ctok).to_bytes(8 if cop == "u64" else 4, "little") if cop != "fill" else bytes.fromhex(ctok)
                off = 0
                while off < len(b):
                    pos, n = best_run(w.data, b, off, cur, 0)
                    rem = len(b) - off
                    if n < min(4, rem):
                        if rem >= 4 and cop == "fill":
                            # 1..3 bytes of an old buffer tail may precede the fresh run
                            hit = False
                            for dd in (1, 2, 3):
                                if rem - dd >= 4 and best_run(w.data, b, off + dd, None, 0)[1] >= 4:
                                    off += dd; cur = None; hit = True
                                    break
                            if hit:
                                continue
                        if rem >= 4:
                            return ("the %s child of op %s returned bytes that are not keystream of the stream it continues (longest match %d of %d bytes) " % (cop, op, n, rem)) + where % s
                        break
                    cur = pos + n
                    off += n
            if kind.startswith("split"):
                s = (s + 1) & M64
                cursor = None
            continue
        if op == "jump":
            s = (s + 1) & M64
            cursor = None
            continue
        w = windows[s]
        iv = issued.setdefault(s, [])
        if op in ("f32", "f64"):
            m, L = (f32_matcher(int(tok[2:])), 4) if op == "f32" else (f64_matcher(int(tok[2:])), 8)
            pos = w.find(m, L, cursor, cursor + 16) if cursor is not None else None
            if pos is None:
                pos = w.find(m, L, 0, len(w.data))
            if pos is None:
                return ("op %s returned a value whose mantissa bits are not in the generator's keystream " % op) + where % s
            if overlap(iv, pos, pos + L) >= 4:
                return ("op %s re-issued keystream positions at byte offset %d " % (op, pos)) + where % s
            iv.append((pos, pos + L))
            cursor = pos + L
            continue
        if op == "u32":
            b = int(tok).to_bytes(4, "little")
        elif op == "u64":
            b = int(tok).to_bytes(8, "little")
        else:
            b = bytes.fromhex(tok[2:])
        off = 0
        while off < len(b):
            pos, n = best_run(w.data, b, off, cursor, 0)
            rem = len(b) - off
            if op in ("u32", "u64") and n < rem:
                return ("op %s returned bytes that are not (contiguous) keystream: longest match %d of %d bytes " % (op, n, rem)) + where % s
            if n < min(4, rem) and rem >= 4:
                # a buffer tail of 1..3 bytes cannot be attributed: skip it if a real run follows
                skipped = False
                for d in (1, 2, 3):
                    if rem - d < 4:
                        skipped = True
                        off = len(b)
                        break
                    p2, n2 = best_run(w.data, b, off + d, None, 0)
                    if n2 >= 4:
                        if not fresh_short(w.data, b[off:off + d], iv):
                            return ("op %s: bytes %d..%d of its output occur in the keystream only at positions that were already returned (or nowhere): not fresh keystream " % (op, off, off + d)) + where % s
                        off += d
                        cursor = None
                        skipped = True
                        break
                if skipped:
                    continue
            if n < min(4, rem):
                if rem >= 4:
                    return ("op %s: bytes %d.. of its output are not in the generator's keystream (longest match %d bytes) " % (op, off, n)) + where % s
                if rem == 3 and not fresh_short(w.data, b[off:], iv):
                    return ("op %s: the last %d bytes of its output occur in the keystream only at positions that were already returned (or nowhere): not fresh keystream " % (op, rem)) + where % s
                cursor = None      # a run of 1..3 bytes cannot be attributed reliably
                break
            if n >= 4 and overlap(iv, pos, pos + n) >= 4:
                return ("op %s re-issued keystream positions: byte offset %d (+%d) overlaps %d bytes already returned " % (op, pos, n, overlap(iv, pos, pos + n))) + where % s
            if n == 3 and n == rem and op not in ("u32", "u64") and not fresh_short(w.data, b[off:off + n], iv):
                return ("op %s: the last %d bytes of its output occur in the keystream only at positions that were already returned: not fresh keystream " % (op, n)) + where % s
            if n >= 4:
                iv.append((pos, pos + n))
            cursor = pos + n
            off += n
    return None


def run_oracle(binary, reqs, impls):
    """Yields check.py `extra` items for the given history requests and their implementation results."""
    base_pad = 4
    spec_reqs, index = [], []
    for qi, req in enumerate(reqs):
        N, key, ctr, st, ops = parse_req(req)
        J0 = sum(1 for o in ops if o == "jump" or o.startswith("split"))
        nb = total_bytes(ops) // 64 + 12 + base_pad + 8 * J0   # a jump discards up to one batch
        J = sum(1 for o in ops if o == "jump" or o.startswith("split"))
        for j in range(J + 1):
            for b in range(nb):
                spec_reqs.append("specblock n=%d key=%s ctr=%d str=%d" % (N, ",".join(map(str, key)), (ctr - base_pad + b) & M64, (st + j) & M64))
                index.append((qi, (st + j) & M64))
    rc, out, err = C.run_lines(C.driver_path(), [], spec_reqs, timeout=3600)
    data = {}
    for (qi, s), h in zip(index, out):
        data.setdefault((qi, s), bytearray()).extend(bytes.fromhex(h))
    n = 0
    for qi, (req, impl) in enumerate(zip(reqs, impls)):
        windows = {s: Window(bytes(v)) for (q, s), v in data.items() if q == qi}
        msg = check_history(req, impl, windows, base_pad)
        n += 1
        if msg:
            yield {"kind": "oracle", "build": "dev", "request": req, "impl": impl[:2000], "model": "", "oracle": msg}
    yield {"kind": "count", "what": "keystream-attributed-histories", "n": n}
