"""C13 - standard-distribution values are exactly equiprobable and always valid."""
from . import common as C, gen_int as G, oracles as O

LEAN_MODULE = ["Urandom.Props.C13", "Urandom.Props.C13T", "Urandom.Props.C13R"]
RULE = ("requests: every implemented target type of StandardUniform (bool, 8..128-bit ints, isize/usize, Wrapping, f32/f64, char, NonZero*, tuples up to 12, arrays, Random::fill) "
        "x structured words (0, !0, single bits, words truncating to zero for NonZero, words hitting the char thresholds 0x800/0xDFFF/0xE000/0x10FFFF at both ends of their "
        "acceptance interval and rejected words); Alnum on all 64 six-bit indices exhaustively; extra (implementation only): exact preimage interval search for boundary "
        "scalar values of char, preimage counts over complete small word grids for the NonZero / 128-bit types, and Alnum run on ALL 2^32 first words (x 2 second words): "
        "equal counts for the 62 characters decided by the first word, undecided first words leave the decision to the next word; builds: debug and release (char uses from_u32_unchecked in release). "
        "non-trivial = at least one word scripted; distinct = distinct request line"
        " Since round 10 (extra): Random::next::<T>() ops of both word widths inside ChaCha histories, judged by the keystream attribution (consecutive samples must each be fresh keystream).")
ASSUMPTIONS = ["64-bit target"]


def builds(tier):
    return ["dev", "release"]


def generate(r, tier, build):
    k = 1 if tier == "quick" else 25
    prof = "release" if build == "release" else "debug"
    return G.std_requests(r, 2500 * k, prof) + G.alnum_requests(r, 300 * k)


def corpus(build):
    prof = "release" if build == "release" else "debug"
    return ["std ty=char n=1 profile=%s words=0" % prof, "std ty=char n=1 profile=%s words=18446744073709551615" % prof,
            "std ty=nz8 n=1 profile=%s words=256,512,3" % prof, "std ty=nz128 n=1 profile=%s words=0,0,0,1" % prof]


def classify(req, model):
    d = O.kv(req)
    if not d.get("words"):
        return None
    return d["_kind"] + "/" + d.get("ty", "")


def oracle(req, impl, build):
    return O.std_oracle(req, impl) if req.startswith("std") else O.alnum_oracle(req, impl)


def panic_with_words_left(req, left, build):
    """drawing a standard value never panics by itself (the only panic the harness can cause is the scripted words running out)"""
    return "the draw panicked with %d scripted words still unread (not the word source running dry): no valid value was returned" % left


def extra(binary, build, tier, rng):
    """every Unicode scalar value is reachable and equally weighted: exact preimage counting of boundary scalars by interval search"""

    # consecutive draws: samples of different word widths taken one after the other from a block generator must each be FRESH keystream (a
    # 64-bit sample after an odd number of 32-bit ones straddles the word grid of the buffer).  `Random::next::<T>()` ops inside ChaCha histories,
    # judged by the keystream attribution shared with C03.
    if build == "dev" or tier != "quick":
        from .ks_oracle import run_oracle
        from . import gen_chacha as GC
        plain = {"n32": "u32", "ni32": "u32", "n64": "u64", "ni64": "u64", "nsz": "u64"}
        hreqs = []
        for _ in range(40 if tier == "quick" else 1500):
            kk, c, st, N = GC.key(rng), GC.counter(rng), GC.stream(rng), GC.rounds(rng)
            ops = [rng.choice(["n32", "n64", "ni32", "ni64", "nsz", "n32", "n64", "fill:%d" % rng.choice([1, 2, 3, 5, 6, 7, 250])]) for _ in range(3 + rng.below(70))]
            hreqs.append("chacha n=%d key=%s ctr=%d str=%d ops=%s" % (N, ",".join(map(str, kk)), c, st, ",".join(ops)))
        rc, himpls, err = C.run_lines(binary, ["run"], hreqs)
        preqs = [q.split("ops=")[0] + "ops=" + ",".join(plain.get(o, o) for o in q.split("ops=")[1].split(",")) for q in hreqs]
        for item in run_oracle(binary, preqs, himpls):
            if item.get("kind") == "oracle":
                k = preqs.index(item["request"])
                item["request"] = hreqs[k]
                item["oracle"] = "Random::next::<T>() samples drawn one after the other from ChaCha: " + item["oracle"]
            yield item
    from .preimage_oracle import Prober, count_values
    from .oracles import parse_ok
    prof = "release" if build == "release" else "debug"
    def idx(cp):      # position of a scalar value among all scalar values
        return cp if cp < 0xD800 else cp - 0x800
    def parse(res):
        f = parse_ok(res)
        if f is None:
            return None
        cp = int(f[0])
        return idx(cp) if (cp < 0xD800 or 0xE000 <= cp < 0x110000) else -1
    r = 0x110000 - 0x800
    scalars = [0, 1, 0x41, 0xD7FF, 0xE000, 0xE001, 0xFFFF, 0x10000, 0x10FFFE, 0x10FFFF]
    calls = 0
    # every public way to a StandardUniform char: next(), sample(&StandardUniform), the trait method, Random::fill
    for path in ("", " path=stdsample", " path=stdtrait", " path=stdfill"):
        def mk(w, path=path):
            return "std%s ty=char n=1 profile=%s words=%d" % (path, prof, w)
        p = Prober(binary, mk, parse)
        msg, info = count_values(p, r, 64, [idx(c) for c in scalars], rng.fork("char" + path), "StandardUniform<char>" + path)
        if msg == "inconclusive":
            yield {"kind": "note", "text": "StandardUniform<char>%s: preimage counting inconclusive for this implementation (%s)" % (path, info)}
        elif msg:
            yield {"kind": "oracle", "build": build, "request": mk(info[min(info)][0]), "impl": str(info)[:600], "model": "", "oracle": msg}
        calls += p.calls
        if not msg:
            from .preimage_oracle import second_stage_counts
            def mk2(w1, w2, path=path):
                return "std%s ty=char n=1 profile=%s words=%d,%d" % (path, prof, w1, w2)
            yield from second_stage_counts(binary, build, rng.fork("char2" + path), "StandardUniform<char>" + path, r, 64, mk, mk2, parse, max_first=1)
    yield {"kind": "count", "what": "char-preimage-probes", "n": calls}
    yield from grid_counts(binary, build, prof)
    yield from alnum_exact(binary, build)


def alnum_exact(binary, build):
    """Alnum, exactly: ALL 2^32 first words are run on the implementation (with two different second words); the first words that decide
    the character alone must give each of the 62 characters equally often, and a first word that does not decide alone must leave the
    decision entirely to the following word (then the weights are equal by recursion)."""
    import subprocess
    from concurrent.futures import ThreadPoolExecutor
    from .oracles import parse_ok
    ALNUM = set(map(ord, "0123456789ABCDEFGHIJKLMNOPQRSTUVWXYZabcdefghijklmnopqrstuvwxyz"))
    parts = 16
    step = (1 << 32) // parts
    total = 0
    for second in (5, 0xF4000000):
        rc, alone, err = C.run_lines(binary, ["run"], ["alnum n=1 words=%d" % second])
        fa = parse_ok(alone[0])
        reqs = ["enum32 kind=alnum lo=%d hi=%d second=%d" % (i * step, (i + 1) * step, second) for i in range(parts)]
        with ThreadPoolExecutor(max_workers=parts) as ex:
            outs = list(ex.map(lambda q: C.run_lines(binary, ["run"], [q])[1][0], reqs))
        total += 1 << 32
        decided, undecided = {}, {}
        for o in outs:
            for ent in o.split(";"):
                if not ent:
                    continue
                key, n = ent.split("=")
                ch, used = map(int, key.split(":"))
                (decided if used == 1 else undecided).setdefault((ch, used), 0)
                (decided if used == 1 else undecided)[(ch, used)] += int(n)
        req0 = "enum32 kind=alnum lo=0 hi=4294967296 second=%d" % second
        bad_chars = [ch for (ch, _) in list(decided) + list(undecided) if ch not in ALNUM]
        if bad_chars:
            yield {"kind": "oracle", "build": build, "request": req0, "impl": str(sorted(decided.items()))[:300], "model": "", "oracle": "Alnum produced a character outside [0-9A-Za-z]: code %d" % bad_chars[0]}
            continue
        cnt = {ch: n for (ch, _), n in decided.items()}
        if len(cnt) != 62 or len(set(cnt.values())) != 1:
            lo_c, hi_c = min(cnt, key=cnt.get), max(cnt, key=cnt.get)
            yield {"kind": "oracle", "build": build, "request": req0, "impl": str(sorted(cnt.items()))[:400], "model": "",
                   "oracle": "Alnum: over ALL 2^32 first words, %d characters are decided by the first word alone and their preimage counts are not equal: %r has %d, %r has %d"
                             % (len(cnt), chr(hi_c), cnt[hi_c], chr(lo_c), cnt[lo_c])}
            continue
        if fa and len(fa[0]) == 1:
            want = ord(fa[0])
            odd = [(k, n) for k, n in undecided.items() if k != (want, 2)]
            if odd:
                # equal counts of the decided words only imply equal weights if an undecided first word restarts the draw; otherwise not judged
                yield {"kind": "note", "text": "Alnum: undecided first words do not simply leave the decision to the next word (%s): the equal-weight argument does not apply - not judged" % (odd[:3],)}
    yield {"kind": "count", "what": "alnum-first-words-enumerated", "n": total}


def grid_counts(binary, build, prof):
    """equally many preimages, counted over complete small product grids of words (implementation only): the values of a
    type that can be written with the grid's words must each be produced by the same number of word sequences."""
    import itertools
    from .oracles import parse_ok
    M = {"8": 8, "16": 16, "32": 32, "64": 64, "128": 128, "size": 64}
    total = 0
    for ty, bits, nz in [("nz8", 8, True), ("nz16", 16, True), ("nz32", 32, True), ("nz64", 64, True), ("nzsize", 64, True), ("nz128", 128, True),
                         ("u128", 128, False), ("i128", 128, False), ("u64", 64, False), ("i8", 8, False)]:
        wbits = min(bits, 64)
        S = [0, 1, 2, (1 << wbits) - 1]          # words that are values of the (half-)type themselves
        per = 2 if bits == 128 else 1            # words per attempt
        L = 2 * per                              # room for one rejected attempt
        seqs = list(itertools.product(S, repeat=L))
        reqs = ["std ty=%s n=1 profile=%s words=%s" % (ty, prof, ",".join(map(str, q))) for q in seqs]
        rc, res, err = C.run_lines(binary, ["run"], reqs)
        total += len(reqs)
        counts = {}
        for q, o in zip(seqs, res):
            f = parse_ok(o)
            if f is None:
                continue                          # ran out of words (a rejected attempt followed by another): not counted
            counts[f[0]] = counts.get(f[0], 0) + 1
        want_values = len(S) ** per - (1 if nz else 0)
        vals = sorted(set(counts.values()))
        if len(counts) != want_values or len(vals) != 1:
            missing = ""
            if bits == 128 and len(counts) < want_values:
                allv = {str((a | (b << 64)) if ty != "i128" else ((a | (b << 64)) - (1 << 128) if (b >> 63) else (a | (b << 64)))) for a in S for b in S} - ({"0"} if nz else set())
                missing = "; never produced: %s" % sorted(allv - set(counts))[:3]
            yield {"kind": "oracle", "build": build, "request": reqs[1], "requests": reqs[:64], "impl": str(sorted(counts.items())[:8]), "model": "",
                   "oracle": "%s: over the complete grid of %d word sequences from %s, %d distinct values occur (the grid can express %d) with preimage counts %s - not equally many preimages%s"
                             % (ty, len(seqs), S, len(counts), want_values, vals[:5], missing)}
    yield {"kind": "count", "what": "grid-preimage-counts", "n": total}
