"""C13 - standard-distribution values are exactly equiprobable and always valid."""
from . import common as C, gen_int as G, oracles as O

LEAN_MODULE = "Urandom.Props.C13"
RULE = ("requests: every implemented target type of StandardUniform (bool, 8..128-bit ints, isize/usize, Wrapping, f32/f64, char, NonZero*, tuples up to 12, arrays, Random::fill) "
        "x structured words (0, !0, single bits, words truncating to zero for NonZero, words hitting the char thresholds 0x800/0xDFFF/0xE000/0x10FFFF at both ends of their "
        "acceptance interval and rejected words); Alnum on all 64 six-bit indices exhaustively; builds: debug and release (char uses from_u32_unchecked in release). "
        "non-trivial = at least one word scripted; distinct = distinct request line")
ASSUMPTIONS = ["64-bit target"]


def builds(tier):
    return ["dev", "release"]


def generate(r, tier, build):
    k = 1 if tier == "quick" else 25
    prof = "release" if build == "release" else "debug"
    return G.std_requests(r, 2500 * k, prof) + G.alnum_requests(r, 300 * k)


def corpus(build):
    prof = "release" if build == "release" else "debug"
    return ["std ty=char n=1 profile=%s words=0" % prof, "std ty=char n=1 profile=%s words=18446744073709551615" % prof,
            "std ty=nz8 n=1 profile=%s words=256,512,3" % prof, "std ty=nz128 n=1 profile=%s words=0,0,0,1" % prof]


def classify(req, model):
    d = O.kv(req)
    if not d.get("words"):
        return None
    return d["_kind"] + "/" + d.get("ty", "")


def oracle(req, impl, build):
    return O.std_oracle(req, impl) if req.startswith("std") else O.alnum_oracle(req, impl)


def extra(binary, build, tier, rng):
    """every Unicode scalar value is reachable and equally weighted: exact preimage counting of boundary scalars by interval search"""
    from .preimage_oracle import Prober, count_values
    from .oracles import parse_ok
    prof = "release" if build == "release" else "debug"
    def idx(cp):      # position of a scalar value among all scalar values
        return cp if cp < 0xD800 else cp - 0x800
    def mk(w):
        return "std ty=char n=1 profile=%s words=%d" % (prof, w)
    def parse(res):
        f = parse_ok(res)
        if f is None:
            return None
        cp = int(f[0])
        return idx(cp) if (cp < 0xD800 or 0xE000 <= cp < 0x110000) else -1
    r = 0x110000 - 0x800
    p = Prober(binary, mk, parse)
    scalars = [0, 1, 0x41, 0xD7FF, 0xE000, 0xE001, 0xFFFF, 0x10000, 0x10FFFE, 0x10FFFF]
    msg, info = count_values(p, r, 64, [idx(c) for c in scalars], rng, "StandardUniform<char>")
    if msg == "inconclusive":
        yield {"kind": "oracle", "build": build, "request": mk(((2 * (r - 1) + 1) << 64) // (2 * r)), "impl": str(info)[:300], "model": "",
               "oracle": "a Unicode scalar value is not reachable where an unbiased sampler over all %d scalar values must produce it: %s" % (r, info)}
    elif msg:
        yield {"kind": "oracle", "build": build, "request": mk(info[min(info)][0]), "impl": str(info)[:600], "model": "", "oracle": msg}
    yield {"kind": "count", "what": "char-preimage-probes", "n": p.calls}
    yield from grid_counts(binary, build, prof)


def grid_counts(binary, build, prof):
    """equally many preimages, counted over complete small product grids of words (implementation only): the values of a
    type that can be written with the grid's words must each be produced by the same number of word sequences."""
    import itertools
    from .oracles import parse_ok
    M = {"8": 8, "16": 16, "32": 32, "64": 64, "128": 128, "size": 64}
    total = 0
    for ty, bits, nz in [("nz8", 8, True), ("nz16", 16, True), ("nz32", 32, True), ("nz64", 64, True), ("nzsize", 64, True), ("nz128", 128, True),
                         ("u128", 128, False), ("i128", 128, False), ("u64", 64, False), ("i8", 8, False)]:
        wbits = min(bits, 64)
        S = [0, 1, 2, (1 << wbits) - 1]          # words that are values of the (half-)type themselves
        per = 2 if bits == 128 else 1            # words per attempt
        L = 2 * per                              # room for one rejected attempt
        seqs = list(itertools.product(S, repeat=L))
        reqs = ["std ty=%s n=1 profile=%s words=%s" % (ty, prof, ",".join(map(str, q))) for q in seqs]
        rc, res, err = C.run_lines(binary, ["run"], reqs)
        total += len(reqs)
        counts = {}
        for q, o in zip(seqs, res):
            f = parse_ok(o)
            if f is None:
                continue                          # ran out of words (a rejected attempt followed by another): not counted
            counts[f[0]] = counts.get(f[0], 0) + 1
        want_values = len(S) ** per - (1 if nz else 0)
        vals = sorted(set(counts.values()))
        if len(counts) != want_values or len(vals) != 1:
            missing = ""
            if bits == 128 and len(counts) < want_values:
                allv = {str((a | (b << 64)) if ty != "i128" else ((a | (b << 64)) - (1 << 128) if (b >> 63) else (a | (b << 64)))) for a in S for b in S} - ({"0"} if nz else set())
                missing = "; never produced: %s" % sorted(allv - set(counts))[:3]
            yield {"kind": "oracle", "build": build, "request": reqs[1], "requests": reqs[:64], "impl": str(sorted(counts.items())[:8]), "model": "",
                   "oracle": "%s: over the complete grid of %d word sequences from %s, %d distinct values occur (the grid can express %d) with preimage counts %s - not equally many preimages%s"
                             % (ty, len(seqs), S, len(counts), want_values, vals[:5], missing)}
    yield {"kind": "count", "what": "grid-preimage-counts", "n": total}
