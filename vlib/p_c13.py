"""C13 - standard-distribution values are exactly equiprobable and always valid."""
from . import common as C, gen_int as G, oracles as O

LEAN_MODULE = "Urandom.Props.C13"
RULE = ("requests: every implemented target type of StandardUniform (bool, 8..128-bit ints, isize/usize, Wrapping, f32/f64, char, NonZero*, tuples up to 12, arrays, Random::fill) "
        "x structured words (0, !0, single bits, words truncating to zero for NonZero, words hitting the char thresholds 0x800/0xDFFF/0xE000/0x10FFFF at both ends of their "
        "acceptance interval and rejected words); Alnum on all 64 six-bit indices exhaustively; builds: debug and release (char uses from_u32_unchecked in release). "
        "non-trivial = at least one word scripted; distinct = distinct request line")
ASSUMPTIONS = ["64-bit target"]


def builds(tier):
    return ["dev", "release"]


def generate(r, tier, build):
    k = 1 if tier == "quick" else 25
    prof = "release" if build == "release" else "debug"
    return G.std_requests(r, 2500 * k, prof) + G.alnum_requests(r, 300 * k)


def corpus(build):
    prof = "release" if build == "release" else "debug"
    return ["std ty=char n=1 profile=%s words=0" % prof, "std ty=char n=1 profile=%s words=18446744073709551615" % prof,
            "std ty=nz8 n=1 profile=%s words=256,512,3" % prof, "std ty=nz128 n=1 profile=%s words=0,0,0,1" % prof]


def classify(req, model):
    d = O.kv(req)
    if not d.get("words"):
        return None
    return d["_kind"] + "/" + d.get("ty", "")


def oracle(req, impl, build):
    return O.std_oracle(req, impl) if req.startswith("std") else O.alnum_oracle(req, impl)
