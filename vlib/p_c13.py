"""C13 - standard-distribution values are exactly equiprobable and always valid."""
from . import common as C, gen_int as G, oracles as O

LEAN_MODULE = "Urandom.Props.C13"
RULE = ("requests: every implemented target type of StandardUniform (bool, 8..128-bit ints, isize/usize, Wrapping, f32/f64, char, NonZero*, tuples up to 12, arrays, Random::fill) "
        "x structured words (0, !0, single bits, words truncating to zero for NonZero, words hitting the char thresholds 0x800/0xDFFF/0xE000/0x10FFFF at both ends of their "
        "acceptance interval and rejected words); Alnum on all 64 six-bit indices exhaustively; builds: debug and release (char uses from_u32_unchecked in release). "
        "non-trivial = at least one word scripted; distinct = distinct request line")
ASSUMPTIONS = ["64-bit target"]


def builds(tier):
    return ["dev", "release"]


def generate(r, tier, build):
    k = 1 if tier == "quick" else 25
    prof = "release" if build == "release" else "debug"
    return G.std_requests(r, 2500 * k, prof) + G.alnum_requests(r, 300 * k)


def corpus(build):
    prof = "release" if build == "release" else "debug"
    return ["std ty=char n=1 profile=%s words=0" % prof, "std ty=char n=1 profile=%s words=18446744073709551615" % prof,
            "std ty=nz8 n=1 profile=%s words=256,512,3" % prof, "std ty=nz128 n=1 profile=%s words=0,0,0,1" % prof]


def classify(req, model):
    d = O.kv(req)
    if not d.get("words"):
        return None
    return d["_kind"] + "/" + d.get("ty", "")


def oracle(req, impl, build):
    return O.std_oracle(req, impl) if req.startswith("std") else O.alnum_oracle(req, impl)


def extra(binary, build, tier, rng):
    """every Unicode scalar value is reachable and equally weighted: exact preimage counting of boundary scalars by interval search"""
    from .preimage_oracle import Prober, count_values
    from .oracles import parse_ok
    prof = "release" if build == "release" else "debug"
    def idx(cp):      # position of a scalar value among all scalar values
        return cp if cp < 0xD800 else cp - 0x800
    def mk(w):
        return "std ty=char n=1 profile=%s words=%d" % (prof, w)
    def parse(res):
        f = parse_ok(res)
        if f is None:
            return None
        cp = int(f[0])
        return idx(cp) if (cp < 0xD800 or 0xE000 <= cp < 0x110000) else -1
    r = 0x110000 - 0x800
    p = Prober(binary, mk, parse)
    scalars = [0, 1, 0x41, 0xD7FF, 0xE000, 0xE001, 0xFFFF, 0x10000, 0x10FFFE, 0x10FFFF]
    msg, info = count_values(p, r, 64, [idx(c) for c in scalars], rng, "StandardUniform<char>")
    if msg == "inconclusive":
        yield {"kind": "oracle", "build": build, "request": mk(((2 * (r - 1) + 1) << 64) // (2 * r)), "impl": str(info)[:300], "model": "",
               "oracle": "a Unicode scalar value is not reachable where an unbiased sampler over all %d scalar values must produce it: %s" % (r, info)}
    elif msg:
        yield {"kind": "oracle", "build": build, "request": mk(info[min(info)][0]), "impl": str(info)[:600], "model": "", "oracle": msg}
    yield {"kind": "count", "what": "char-preimage-probes", "n": p.calls}
