import Urandom.Driver.Word
import Urandom.Driver.Distr
import Urandom.Driver.Block
import Urandom.Driver.Serde
import Urandom.Driver.Fill
import Urandom.Driver.ReadMock
import Urandom.Driver.System
import Urandom.Driver.Float
open Urandom.Driver

def answer (line : String) : String :=
  match line.trimAscii.toString.splitOn " " with
  | [] => "bad-request"
  | kind :: rest =>
    let kv := parseKV rest
    let r := match kind with
      | "word" => wordRequest kv
      | "uint" => uintRequest kv
      | "index" => indexRequest kv
      | "dice" => diceRequest kv
      | "shuf" => shufRequest kv
      | "pshuf" => pshufRequest kv
      | "choose" => chooseRequest kv
      | "multi" => multiRequest kv
      | "alnum" => alnumRequest kv
      | "bigshuf" => bigshufRequest kv
      | "f01" => f01Request kv
      | "bern" => bernRequest kv
      | "std" => stdRequest kv
      | "chacha" => chachaRequest kv
      | "serde" => serdeRequest kv
      | "fillb" => fillbRequest kv
      | "read" => readRequest kv
      | "mock" => mockRequest kv
      | "system" => systemRequest kv
      | "newgen" => newgenRequest kv
      | "fp" => fpRequest kv
      | "ufloat" => ufloatRequest kv
      | "expd" => expdRequest kv
      | "norm" => normRequest false kv
      | "lnorm" => normRequest true kv
      | "zig" => zigRequest kv
      | "single" => singleRequest kv
      | "slpblock" => slpblockRequest kv
      | "specblock" => specblockRequest kv
      | _ => none
    r.getD "bad-request"

partial def loop (h : IO.FS.Stream) (out : IO.FS.Stream) : IO Unit := do
  let line ← h.getLine
  if line.isEmpty then return ()
  out.putStrLn (answer line)
  loop h out

def main : IO Unit := do
  let out ← IO.getStdout
  loop (← IO.getStdin) out
  out.flush
