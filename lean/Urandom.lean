import Urandom.Model.Word
