-- root of the library: every property module (and through them the models and lemmas)
import Urandom.Props.C01
import Urandom.Props.C04
import Urandom.Props.C05
import Urandom.Props.C06
import Urandom.Props.C07
import Urandom.Props.C11
import Urandom.Props.C13
import Urandom.Props.C02
import Urandom.Props.C03
import Urandom.Props.C08
import Urandom.Props.C09
import Urandom.Props.C10
import Urandom.Props.C17
import Urandom.Props.C18
import Urandom.Props.C19
import Urandom.Props.C20
