import Urandom.Model.System
import Urandom.Driver.Parse
/- Driver for the `system` (System<N> under op histories with scripted entropy) and `newgen` streams. -/
namespace Urandom.Driver
open Urandom Urandom.SystemGen

def parseSop? (s : String) : Option SystemGen.Op :=
  match s.splitOn ":" with
  | ["u32"] => some .u32
  | ["u64"] => some .u64
  | ["jump"] => some .jump
  | ["fill", n] => n.toNat?.map .fill
  | _ => none

def showSout : SystemGen.Out Nat → String
  | .words l => toString (l.foldr (fun w acc => w + 2 ^ 32 * acc) 0)
  | .fetched k n => "b:" ++ hexBytes ((List.range n).map fun i => BitVec.ofNat 8 (tagByte k i))
  | .unit => "-"
  | .panic => "panic"

def parseScript (kv : KV) : List Bool := (kv.strs "script").map (· != "fail")

def systemRequest (kv : KV) : Option String := do
  let N ← kv.nat? "n"
  let ops ← (kv.strs "ops").mapM parseSop?
  pure (joinWith " " ((SystemGen.run natLabels N (St.new natLabels N (parseScript kv)) ops).map showSout))

/-- `X::new()`: the model is `SystemGen.newState`; the state is printed as the harness reads it back through serde -/
def newgenRequest (kv : KV) : Option String := do
  let gen ← kv.get? "gen"
  let words ← (match gen with
    | "xoshiro" | "libnew" => some 8 | "splitmix" | "wyrand" => some 2
    | "chacha8" | "chacha12" | "chacha20" => some 12 | _ => none)
  match SystemGen.newState natLabels words (parseScript kv) with
  | none => pure "panic"
  | some ws =>
    let w (j : Nat) : Nat := ws.getD j 0
    let w64 (j : Nat) : Nat := w (2 * j) + 2 ^ 32 * w (2 * j + 1)
    match gen with
    | "xoshiro" | "libnew" => pure ("st:" ++ joinWith "," ((List.range 4).map (toString ∘ w64)))
    | "splitmix" | "wyrand" => pure ("st:" ++ toString (w64 0))
    | _ => pure ("st:" ++ joinWith "," ((List.range 12).map (toString ∘ w)) ++ " idx:oob")

end Urandom.Driver
