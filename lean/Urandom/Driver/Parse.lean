/-
Line-protocol helpers for the model driver (import-free).
A request is `kind key=value key=value …`; values are decimal naturals, comma lists, or
op lists.  Anything unparsable yields `none` and the driver answers `bad-request` – it never
substitutes a default.
-/
namespace Urandom.Driver

abbrev KV := List (String × String)

def parseKV (toks : List String) : KV :=
  toks.filterMap fun t =>
    match t.splitOn "=" with
    | [k, v] => some (k, v)
    | _ => none

def KV.get? (kv : KV) (k : String) : Option String := (kv.find? (·.1 == k)).map (·.2)

def KV.nat? (kv : KV) (k : String) : Option Nat := (kv.get? k).bind String.toNat?

def parseInt? (s : String) : Option Int :=
  if s.startsWith "-" then (s.drop 1).toNat?.map (fun n => - (n : Int)) else s.toNat?.map Int.ofNat

def KV.int? (kv : KV) (k : String) : Option Int := (kv.get? k).bind parseInt?

def parseNatList? (s : String) : Option (List Nat) :=
  if s.isEmpty then some [] else (s.splitOn ",").mapM String.toNat?

def KV.nats? (kv : KV) (k : String) : Option (List Nat) := (kv.get? k).bind parseNatList?

def KV.strs (kv : KV) (k : String) : List String :=
  match kv.get? k with
  | none => []
  | some s => if s.isEmpty then [] else s.splitOn ","

def hexDigit (n : Nat) : Char :=
  if n < 10 then Char.ofNat (48 + n) else Char.ofNat (87 + n)

def hexByte (b : BitVec 8) : String :=
  String.ofList [hexDigit (b.toNat / 16), hexDigit (b.toNat % 16)]

def hexBytes (l : List (BitVec 8)) : String := String.join (l.map hexByte)

def hexVal? (c : Char) : Option Nat :=
  if '0' ≤ c ∧ c ≤ '9' then some (c.toNat - 48)
  else if 'a' ≤ c ∧ c ≤ 'f' then some (c.toNat - 87)
  else none

def parseHexAux : List Char → Option (List (BitVec 8))
  | [] => some []
  | [_] => none
  | a :: b :: rest => do
      let x ← hexVal? a
      let y ← hexVal? b
      let r ← parseHexAux rest
      pure (BitVec.ofNat 8 (x * 16 + y) :: r)

def parseHex? (s : String) : Option (List (BitVec 8)) := parseHexAux s.toList

def joinWith (sep : String) (l : List String) : String := sep.intercalate l

end Urandom.Driver
