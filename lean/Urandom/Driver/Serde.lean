import Urandom.Driver.Word
import Urandom.Driver.Block
/- Driver for the `serde` stream: serialise at a point of a history, restore, continue both. -/
namespace Urandom.Driver
open Urandom Urandom.ChaCha Urandom.Block

def jsonWords (l : List Nat) : String := "[" ++ joinWith "," (l.map toString) ++ "]"

def chachaJson (s : CS) : String :=
  let j := Block.ser s
  let st := [j.state.k0, j.state.k1, j.state.k2, j.state.k3, j.state.k4, j.state.k5, j.state.k6, j.state.k7,
    j.state.c0, j.state.c1, j.state.s0, j.state.s1].map (·.toNat)
  let idx := match j.index with
    | none => ""
    | some i => ",\"index\":" ++ toString i
  let rnd := match j.random with
    | none => ""
    | some bytes =>
      let words := (List.range 64).map fun w => leNat ((List.range 4).map fun b => bytes.getD (4 * w + b) 0#8)
      let rows := (List.range 4).map fun r => jsonWords ((List.range 16).map fun c => words.getD (16 * r + c) 0)
      ",\"random\":[" ++ joinWith "," rows ++ "]"
  "{\"state\":" ++ jsonWords st ++ idx ++ rnd ++ "}"

def wordOps? (ops : List String) : Option (List Op) := ops.mapM parseOp?

def serdeWord {σ : Type} (g : WordGen σ) (json : σ → String) (s0 : σ) (before after : List Op) : String :=
  let (o1, s1) := g.run s0 before
  let j1 := json s1
  -- the word generators serialise their whole state: the restored generator is the state itself
  let (o2, s2) := g.run s1 after
  joinWith " | " [j1, showOuts o1, showOuts o2, showOuts o2, json s2, json s2]

def serdeRequest (kv : KV) : Option String := do
  let gen ← kv.get? "gen"
  let before := kv.strs "before"
  let after := kv.strs "after"
  match gen with
  | "xoshiro" =>
      let s0 ← (match kv.nat? "seed", kv.nats? "state" with
        | some seed, none => some (Xoshiro.fromSeed (BitVec.ofNat 64 seed))
        | none, some [a, b, c, d] =>
            some (⟨BitVec.ofNat 64 a, BitVec.ofNat 64 b, BitVec.ofNat 64 c, BitVec.ofNat 64 d⟩ : Xoshiro.S)
        | _, _ => none)
      let b ← wordOps? before
      let a ← wordOps? after
      pure (serdeWord Xoshiro.gen (fun s => "{\"state\":" ++ jsonWords ([s.s0, s.s1, s.s2, s.s3].map (·.toNat)) ++ "}") s0 b a)
  | "splitmix" =>
      let seed ← kv.nat? "seed"
      let b ← wordOps? before
      let a ← wordOps? after
      pure (serdeWord SplitMix.gen (fun s => "{\"state\":" ++ toString s.toNat ++ "}") (BitVec.ofNat 64 seed) b a)
  | "wyrand" =>
      let seed ← kv.nat? "seed"
      let b ← wordOps? before
      let a ← wordOps? after
      pure (serdeWord Wyrand.gen (fun s => "{\"state\":" ++ toString s.toNat ++ "}") (BitVec.ofNat 64 seed) b a)
  | "chacha" =>
      let N ← kv.nat? "n"
      let st ← (match kv.nat? "seed" with
        | some seed => some (fromSeed (BitVec.ofNat 64 seed))
        | none => do
            let key ← kv.nats? "key"
            let ctr ← kv.nat? "ctr"
            let str ← kv.nat? "str"
            stateOfNats? key ctr str)
      let idx := (kv.nat? "idx").getD (2 ^ 32 - 1)
      let buf ← (match kv.get? "buf" with
        | none => some #[]
        | some h => (parseHex? h).map List.toArray)
      let s0 : CS := ⟨st, idx, fun i => buf.getD i 0#8⟩
      let (o1, s1) ← chachaOps N s0 before
      let j1 := chachaJson s1
      let restored : CS := Block.de (Block.ser s1)
      let (o2, s2) ← chachaOps N s1 after
      let (o3, s3) ← chachaOps N restored after
      pure (joinWith " | " [j1, joinWith " " o1, joinWith " " o2, joinWith " " o3, chachaJson s2, chachaJson s3])
  | _ => none

end Urandom.Driver
