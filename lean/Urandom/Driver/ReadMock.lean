import Urandom.Model.ReadMock
import Urandom.Driver.Distr
/- Driver for the `read` and `mock` streams. -/
namespace Urandom.Driver
open Urandom Urandom.ReadGen

def parseEv? (s : String) : Option Ev :=
  match s.splitOn ":" with
  | ["c", k] => k.toNat?.map .chunk
  | ["i"] => some .intr
  | ["e"] => some .err
  -- every `io::ErrorKind` other than `Interrupted` is a failure of the reader
  | ["e", _] => some .err
  | _ => none

def parseRop? (s : String) : Option ReadGen.Op :=
  match s.splitOn ":" with
  | ["u32"] => some .u32
  | ["u64"] => some .u64
  | ["jump"] => some .jump
  | ["fill", n] => n.toNat?.map .fill
  | _ => none

def showRout : ReadGen.Out → String
  | .val v => toString v
  | .bytes l => "b:" ++ hexBytes l
  | .unit => "-"
  | .panic => "panic"

def readRequest (kv : KV) : Option String := do
  let data ← (kv.get? "data").bind parseHex?
  let script ← (kv.strs "script").mapM parseEv?
  let ops ← (kv.strs "ops").mapM parseRop?
  -- `rx=naive`: the reader brings its own `read_exact` (`let n = self.read(buf)?;` in a loop), so `Interrupted` escapes from it like any
  -- other error - also after part of the buffer was delivered - and the generator panics: an interrupt then acts as an error event
  let script := if kv.get? "rx" == some "naive" then script.map (fun e => if e == .intr then .err else e) else script
  pure (joinWith " " ((ReadGen.run ⟨data, script⟩ ops).map showRout))

def mockRequest (kv : KV) : Option String := do
  let ws ← parseWords? kv
  let ops ← (kv.strs "ops").mapM parseRop?
  pure (joinWith " " ((MockGen.run ws ops).map showRout))

end Urandom.Driver
