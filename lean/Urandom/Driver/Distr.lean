import Urandom.Model.Seq
import Urandom.Model.Standard
import Urandom.Driver.Parse
/- Driver for the integer / sequence / standard-distribution streams. -/
namespace Urandom.Driver
open Urandom

def parseWords? (kv : KV) : Option Words := (kv.nats? "words").map (·.map (BitVec.ofNat 64))

def intTy? : String → Option IntTy
  | "i8" => some .i8 | "u8" => some .u8 | "i16" => some .i16 | "u16" => some .u16
  | "i32" => some .i32 | "u32" => some .u32 | "i64" => some .i64 | "u64" => some .u64
  | "isize" => some .isize | "usize" => some .usize
  | _ => none

/-- run a draw `n` times, collecting results -/
def repeatDraw {α : Type} (d : Draw α) : Nat → Draw (List α)
  | 0, ws => some ([], ws)
  | n+1, ws =>
    match d ws with
    | none => none
    | some (v, ws') =>
      match repeatDraw d n ws' with
      | none => none
      | some (vs, ws'') => some (v :: vs, ws'')

def showResult {α : Type} (total : Nat) (sh : α → String) : Option (α × Words) → String
  | none => "panic"
  | some (v, ws) => "ok:" ++ sh v ++ ":" ++ toString (total - ws.length)

def commaNats (l : List Nat) : String := joinWith "," (l.map toString)
def commaInts (l : List Int) : String := joinWith "," (l.map toString)

def uintRequest (kv : KV) : Option String := do
  let t ← (kv.get? "ty").bind intTy?
  let lo ← kv.int? "lo"
  let hi ← kv.int? "hi"
  let incl ← kv.nat? "incl"
  let n ← kv.nat? "n"
  let via ← kv.get? "via"
  let ws ← parseWords? kv
  match UniformInt.tryNew t (t.ofInt lo) (t.ofInt hi) (incl != 0) with
  | .error _ =>
    if via == "try" || via == "sampler" || via == "utrait" || via == "serde" || via == "serdesampler" then pure "err:EmptyRange" else pure "panic"
  | .ok d =>
    pure (showResult ws.length (fun vs => commaInts (vs.map t.toInt)) (repeatDraw (UniformInt.sample t d) n ws))

def indexRequest (kv : KV) : Option String := do
  let len ← kv.nat? "len"
  let n ← kv.nat? "n"
  let ws ← parseWords? kv
  pure (showResult ws.length commaNats (repeatDraw (index len) n ws))

def diceRequest (kv : KV) : Option String := do
  let kind ← kv.get? "kind"
  let sides ← kv.nat? "sides"
  let n ← kv.nat? "n"
  let ws ← parseWords? kv
  let d? : Option UniformInt := match kind with
    | "D4" => some (Dice.const 4) | "D6" => some (Dice.const 6) | "D8" => some (Dice.const 8)
    | "D10" => some (Dice.const 10) | "D20" => some (Dice.const 20)
    | _ => match Dice.new (sides % 256) with
      | .ok d => some d
      | .error _ => none
  match d? with
  | none => pure "panic"
  | some d => pure (showResult ws.length commaNats (repeatDraw (Dice.sample d) n ws))

def shufRequest (kv : KV) : Option String := do
  let items ← kv.nats? "items"
  let ws ← parseWords? kv
  pure (showResult ws.length (fun a => commaNats a.toList) (Seq.shuffle items.toArray ws))

def pshufRequest (kv : KV) : Option String := do
  let items ← kv.nats? "items"
  let m ← kv.nat? "m"
  let ws ← parseWords? kv
  pure (showResult ws.length (fun a => commaNats a.toList) (Seq.partialShuffle items.toArray m ws))

def showOptNat : Option Nat → String
  | none => "none"
  | some v => toString v

def chooseRequest (kv : KV) : Option String := do
  let items ← kv.nats? "items"
  let ws ← parseWords? kv
  pure (showResult ws.length showOptNat (Seq.choose items.toArray ws))

def multiRequest (kv : KV) : Option String := do
  let items ← kv.nats? "items"
  let buf ← kv.nats? "buf"
  let ws ← parseWords? kv
  pure (showResult ws.length (fun (r : Array Nat × Nat) => toString r.2 ++ ":" ++ commaNats r.1.toList)
    (Seq.multiple items buf.toArray ws))

/-- `bigshuf`: `partial_shuffle(slice, m)` on a slice of `n` elements of which only the first `m` are marked: a sparse simulation of
the same loop (`k = range(i..n); swap(i, k)`), positions of the marks afterwards -/
def bigshufRequest (kv : KV) : Option String := do
  let n ← kv.nat? "n"
  let m ← kv.nat? "m"
  let ws ← parseWords? kv
  let cnt := if n > 1 then min m (n - 1) else 0
  -- sparse slice: association list position -> mark (0 = unmarked)
  let get (l : List (Nat × Nat)) (p : Nat) : Nat := ((l.find? (·.1 == p)).map (·.2)).getD 0
  let set (l : List (Nat × Nat)) (p v : Nat) : List (Nat × Nat) := (p, v) :: l.filter (·.1 != p)
  let rec go : Nat → Nat → List (Nat × Nat) → Words → Option (List (Nat × Nat) × Words)
    | 0, _, l, ws => some (l, ws)
    | c+1, i, l, ws =>
      match Seq.rangeUsize i n ws with
      | none => none
      | some (k, ws') =>
        let a := get l i
        let b := get l k
        go c (i+1) (set (set l i b) k a) ws'
  let init := (List.range m).map fun i => (i, i + 1)
  match go cnt 0 init ws with
  | none => pure "panic"
  | some (l, ws') =>
    let pos := (List.range m).map fun j => ((l.find? (·.2 == j + 1)).map (·.1)).getD 0
    pure ("ok:" ++ commaNats pos ++ ":" ++ toString (ws.length - ws'.length))

def alnumRequest (kv : KV) : Option String := do
  let n ← kv.nat? "n"
  let ws ← parseWords? kv
  pure (showResult ws.length String.ofList (repeatDraw Alnum.sample n ws))

def f01Request (kv : KV) : Option String := do
  let n ← kv.nat? "n"
  let w ← kv.nat? "w"
  let ws ← parseWords? kv
  let d ← (if w == 64 then some Float01.sample64 else if w == 32 then some Float01.sample32 else none)
  pure (showResult ws.length commaNats (repeatDraw d n ws))

def bernRequest (kv : KV) : Option String := do
  let n ← kv.nat? "n"
  let p ← kv.nat? "p"
  let ws ← parseWords? kv
  pure (showResult ws.length (fun bs => commaNats (bs.map fun b => if b then 1 else 0)) (repeatDraw (bernoulli p) n ws))

open Standard in
def stdShape? : String → Option (List Prim × (List Nat → String))
  | ty =>
    let u (b : Nat) := Prim.int b false
    let i (b : Nat) := Prim.int b true
    let sInt (b : Nat) (v : Nat) : String := toString ((IntTy.mk b 64 true).toInt v)
    let plain (l : List Prim) : Option (List Prim × (List Nat → String)) :=
      some (l, fun vs => joinWith "," ((l.zip vs).map fun (p, v) =>
        match p with
        | .int b true => sInt b v
        | _ => toString v))
    match ty with
    | "bool" | "coin" => plain [.bool]
    | "i8" => plain [i 8] | "u8" => plain [u 8] | "i16" => plain [i 16] | "u16" => plain [u 16]
    | "i32" | "sample_i32" => plain [i 32] | "u32" => plain [u 32] | "i64" | "isize" => plain [i 64]
    | "u64" | "usize" => plain [u 64] | "i128" => plain [i 128] | "u128" => plain [u 128]
    | "wi16" => plain [i 16] | "wu64" => plain [u 64]
    | "f32" => plain [.f32] | "f64" => plain [.f64] | "char" => plain [.char]
    | "nz8" => plain [.nz 8] | "nz16" => plain [.nz 16] | "nz32" => plain [.nz 32]
    | "nz64" | "nzsize" => plain [.nz 64] | "nz128" => plain [.nz 128]
    | "t0" => plain []
    | "t1" => plain [u 8]
    | "t2" => plain [u 8, i 64]
    | "t3" => plain [.bool, u 16, u 128]
    | "t5" => plain [i 8, u 64, .char, i 32, .bool]
    | "t12" => plain [u 8, u 16, u 32, u 64, i 8, i 16, i 32, i 64, u 8, u 64, u 16, u 32]
    | "a0u8" => plain []
    | "a1u8" => plain [u 8]
    | "a5u16" | "fill5u16" => plain (List.replicate 5 (u 16))
    | "a7i64" => plain (List.replicate 7 (i 64))
    | "a3u128" => plain (List.replicate 3 (u 128))
    | "a4bool" => plain (List.replicate 4 .bool)
    | "a2t" => plain [u 8, u 64, u 8, u 64]
    | _ => none

def stdRequest (kv : KV) : Option String := do
  let ty ← kv.get? "ty"
  let n ← kv.nat? "n"
  let checked := (kv.get? "profile") != some "release"
  let ws ← parseWords? kv
  let (shape, sh) ← stdShape? ty
  pure (showResult ws.length (fun vss => joinWith ";" (vss.map sh)) (repeatDraw (Standard.seqSample checked shape) n ws))

end Urandom.Driver
