import Urandom.Model.Word
import Urandom.Driver.Parse
/- Driver for the `word` stream: seeded / state-injected word generators under op histories. -/
namespace Urandom.Driver
open Urandom

def parseOp? (s : String) : Option Op :=
  match s.splitOn ":" with
  | ["u32"] => some .u32
  | ["u64"] => some .u64
  | ["f32"] => some .f32
  | ["f64"] => some .f64
  | ["jump"] => some .jump
  | ["clone"] => some .clone
  | ["split"] => some .split
  | ["fill", n] => n.toNat?.map .fill
  -- fills through the typed entry points: over k zero-sized elements / `random_bytes::<()>()` (no bytes, no draw), over k `u32` elements (4k bytes)
  | ["zfill", n] => n.toNat?.map fun _ => .fill 0
  | ["zrb"] => some (.fill 0)
  | ["tfill", n] => n.toNat?.map fun k => .fill (4 * k)
  | _ => none

def parseOps? (kv : KV) : Option (List Op) := (kv.strs "ops").mapM parseOp?

def showOut : Out → String
  | .w32 v => toString v.toNat
  | .w64 v => toString v.toNat
  | .f32 b => "f:" ++ toString b.toNat
  | .f64 b => "f:" ++ toString b.toNat
  | .bytes l => "b:" ++ hexBytes l
  | .unit => "-"
  | .cloned a b => "c:" ++ toString a.toNat ++ ":" ++ toString b.toNat
  | .child a => "s:" ++ toString a.toNat

def showOuts (os : List Out) : String := joinWith " " (os.map showOut)

def wordRequest (kv : KV) : Option String := do
  let ops ← parseOps? kv
  let gen ← kv.get? "gen"
  match gen with
  | "xoshiro" =>
      let s0 ← (match kv.nat? "seed", kv.nats? "state" with
        | some seed, none => some (Xoshiro.fromSeed (BitVec.ofNat 64 seed))
        | none, some [a, b, c, d] =>
            some (⟨BitVec.ofNat 64 a, BitVec.ofNat 64 b, BitVec.ofNat 64 c, BitVec.ofNat 64 d⟩ : Xoshiro.S)
        | _, _ => none)
      let (os, s) := Xoshiro.gen.run s0 ops
      pure (joinWith " " (os.map showOut ++ ["st:" ++ joinWith "," ([s.s0, s.s1, s.s2, s.s3].map (toString ·.toNat))]))
  | "splitmix" =>
      let seed ← kv.nat? "seed"
      let (os, s) := SplitMix.gen.run (SplitMix.fromSeed (BitVec.ofNat 64 seed)) ops
      pure (joinWith " " (os.map showOut ++ ["st:" ++ toString s.toNat]))
  | "wyrand" =>
      let seed ← kv.nat? "seed"
      let (os, s) := Wyrand.gen.run (Wyrand.fromSeed (BitVec.ofNat 64 seed)) ops
      pure (joinWith " " (os.map showOut ++ ["st:" ++ toString s.toNat]))
  | _ => none

end Urandom.Driver
