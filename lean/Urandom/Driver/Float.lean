import Urandom.Model.ZigData
import Urandom.Model.Reservoir
import Urandom.Driver.Distr
/- Driver for the floating-point streams: `fp`, `ufloat`, `expd`, `norm`, `lnorm`, `zig`. -/
namespace Urandom.Driver
open Urandom Urandom.IEEE Urandom.FD

def canon64 (b : Nat) : Nat := if isNaN b64 b then qnan b64 else b
def canon32 (b : Nat) : Nat := if isNaN b32 b then qnan b32 else b

/-- the platform's libm (`Float.log` / `Float.exp` call the C library, as Rust's `f64::ln/exp` do) -/
def nativeLibm : Libm where
  ln64 b := canon64 (Float.ofBits b.toUInt64).log.toBits.toNat
  exp64 b := canon64 (Float.ofBits b.toUInt64).exp.toBits.toNat
  ln32 b := canon32 (Float32.ofBits b.toUInt32).log.toBits.toNat
  exp32 b := canon32 (Float32.ofBits b.toUInt32).exp.toBits.toNat

def fmt? (w : Nat) : Option Fmt := if w == 64 then some b64 else if w == 32 then some b32 else none

def showF (f : Fmt) (b : Nat) : String := if isNaN f b then "nan" else toString b
def showFs (f : Fmt) (l : List Nat) : String := joinWith "," (l.map (showF f))

def fpRequest (kv : KV) : Option String := do
  let f ← (kv.nat? "w").bind fmt?
  let op ← kv.get? "op"
  let a ← kv.nat? "a"
  let b := (kv.nat? "b").getD 0
  let cc := (kv.nat? "c").getD 0
  let bool (x : Bool) : String := if x then "1" else "0"
  match op with
  | "add" => pure (showF f (add f a b))
  | "sub" => pure (showF f (sub f a b))
  | "mul" => pure (showF f (mul f a b))
  | "div" => pure (showF f (div f a b))
  | "fma" => pure (showF f (fma f a b cc))
  | "sqrt" => pure (showF f (sqrt f a))
  | "lt" => pure (bool (lt f a b))
  | "le" => pure (bool (le f a b))
  | "eq" => pure (bool (eq f a b))
  | "finite" => pure (bool (isFinite f a))
  | "cvt" => pure (showF b32 (convert b64 b32 a))
  | "ofnat" => pure (showF f (ofNat f a))
  | _ => none

def ufloatRequest (kv : KV) : Option String := do
  let f ← (kv.nat? "w").bind fmt?
  let lo ← kv.nat? "lo"
  let hi ← kv.nat? "hi"
  let n ← kv.nat? "n"
  let via ← kv.get? "via"
  let checked := (kv.get? "profile") != some "release"
  let ws ← parseWords? kv
  match UniformFloat.tryNew f checked lo hi with
  | .error _ => if via == "try" || via == "incl" then pure "err:NonFinite" else pure "panic"
  | .ok d => pure (showResult ws.length (showFs f) (repeatDraw (d.sample f) n ws))

def expdRequest (kv : KV) : Option String := do
  let f ← (kv.nat? "w").bind fmt?
  let lam ← kv.nat? "lambda"
  let n ← kv.nat? "n"
  let via ← kv.get? "via"
  let ws ← parseWords? kv
  match Exp.tryNew f lam with
  | .error _ => if via == "try" then pure "err:LambdaTooSmall" else pure "panic"
  | .ok li => pure (showResult ws.length (showFs f) (repeatDraw (Exp.sample nativeLibm tables f li) n ws))

def showNErr : NormalError → String
  | .MeanTooSmall => "err:MeanTooSmall"
  | .BadVariance => "err:BadVariance"

def normRequest (logn : Bool) (kv : KV) : Option String := do
  let f ← (kv.nat? "w").bind fmt?
  let a ← kv.nat? "a"
  let b ← kv.nat? "b"
  let n ← kv.nat? "n"
  let ctor ← kv.get? "ctor"
  let via ← kv.get? "via"
  let ws ← parseWords? kv
  let d := match logn, ctor with
    | false, "cv" => Normal.tryFromMeanCv f a b
    | false, _ => Normal.tryNew f a b
    | true, "cv" => LogNormal.tryFromMeanCv nativeLibm f a b
    | true, _ => LogNormal.tryNew f a b
  match d with
  | .error e => if via == "try" then pure (showNErr e) else pure "panic"
  | .ok d =>
    -- LogNormal's parameters are only visible through serde, and JSON cannot represent non-finite floats
    let params := if logn && !(isFinite f d.mean && isFinite f d.stdDev) then "p:?"
      else "p:" ++ showF f d.mean ++ "," ++ showF f d.stdDev
    match kv.nat? "z" with
    | some z =>
      -- `from_zscore(z)` directly
      let v := if logn then LogNormal.fromZscore nativeLibm f d z else d.fromZscore f z
      pure (params ++ " z:" ++ showF f v)
    | none =>
      let smp := if logn then LogNormal.sample nativeLibm tables f d else Normal.sample nativeLibm tables f d
      pure (params ++ " " ++ showResult ws.length (showFs f) (repeatDraw smp n ws))

def zigRequest (kv : KV) : Option String := do
  let f ← (kv.nat? "w").bind fmt?
  let kind ← kv.get? "kind"
  let n ← kv.nat? "n"
  let ws ← parseWords? kv
  let base ← (match kind with
    | "norm" => some (stdNormal nativeLibm tables)
    | "exp" => some (exp1 nativeLibm tables)
    | _ => none)
  let smp : Draw Nat := fun ws => (base ws).map fun (x, ws') => (narrow f x, ws')
  pure (showResult ws.length (showFs f) (repeatDraw smp n ws))

def singleRequest (kv : KV) : Option String := do
  let items ← kv.nats? "items"
  let ws ← parseWords? kv
  let n := items.length
  let hint := (kv.get? "hint").getD "none"
  let (lo, hi) : Nat × Option Nat := match hint with
    | "slice" | "vec" | "exact" => (n, some n)
    | "lower" => (n / 2, some (n + 3))
    | "upper" | "filter" => (0, some n)
    | _ => (0, none)
  pure (showResult ws.length showOptNat (Reservoir.singleHinted lo hi items ws))

end Urandom.Driver
