import Urandom.Model.Block
import Urandom.Model.Word
import Urandom.Model.Standard
import Urandom.Driver.Parse
/- Driver for the `chacha` (buffered generator under op histories) and `slpblock` (one raw batch) streams. -/
namespace Urandom.Driver
open Urandom Urandom.ChaCha Urandom.Block

def leNat (l : List (BitVec 8)) : Nat := l.foldr (fun b acc => b.toNat + 256 * acc) 0

def stateOfNats? (key : List Nat) (ctr str : Nat) : Option State :=
  match key.map (BitVec.ofNat 32) with
  | [k0, k1, k2, k3, k4, k5, k6, k7] => some (State.new k0 k1 k2 k3 k4 k5 k6 k7 (BitVec.ofNat 64 ctr) (BitVec.ofNat 64 str))
  | _ => none

def showState (s : State) : String :=
  joinWith "," ([s.k0, s.k1, s.k2, s.k3, s.k4, s.k5, s.k6, s.k7, s.c0, s.c1, s.s0, s.s1].map (toString ·.toNat))

abbrev CS := BS State (BitVec 8)

/-- the next `k` 64-bit draws of the block generator, as scripted words for the distribution models -/
def drawWords (N : Nat) : Nat → CS → List (BitVec 64) × CS
  | 0, s => ([], s)
  | k + 1, s =>
    let (b, s') := nextN (chachaCore N) 8 s
    let (ws, s'') := drawWords N k s'
    (BitVec.ofNat 64 (leNat b) :: ws, s'')

/-- a distribution of the scripted-word model run on the generator's own 64-bit draws: the result and the generator after exactly the words it consumed -/
def onDraws {α : Type} (N : Nat) (s : CS) (d : Draw α) : Option (α × CS) :=
  let (ws, _) := drawWords N 48 s
  match d ws with
  | none => none
  | some (a, rest) => some (a, (drawWords N (ws.length - rest.length) s).2)

/-- one op of the `chacha` stream on the byte instance -/
def chachaOp (N : Nat) (s : CS) (op : String) : Option (String × CS) :=
  let C := chachaCore N
  match op.splitOn ":" with
  | ["u32"] => let (b, s') := nextN C 4 s; some (toString (leNat b), s')
  | ["u64"] => let (b, s') := nextN C 8 s; some (toString (leNat b), s')
  -- `Random::next::<T>()` for the word-sized integer types (StandardUniform: a cast of one `next_u32` / `next_u64`, Props/C13T)
  | ["n32"] => let (b, s') := nextN C 4 s; some (toString (leNat b), s')
  | ["ni32"] => let (b, s') := nextN C 4 s; some (toString (leNat b), s')
  | ["n64"] => let (b, s') := nextN C 8 s; some (toString (leNat b), s')
  | ["ni64"] => let (b, s') := nextN C 8 s; some (toString (leNat b), s')
  | ["nsz"] => let (b, s') := nextN C 8 s; some (toString (leNat b), s')
  | ["f32"] => let (b, s') := nextN C 4 s; some ("f:" ++ toString (rngF32 (BitVec.ofNat 32 (leNat b))).toNat, s')
  | ["f64"] => let (b, s') := nextN C 8 s; some ("f:" ++ toString (rngF64 (BitVec.ofNat 64 (leNat b))).toNat, s')
  -- distribution entry points drawing 64-bit words: `chance(p)` (p as f64 bits), `float01()`, `index(n)`
  | ["chance", p] => p.toNat?.bind fun p => (onDraws N s (bernoulli p)).map fun (b, s') => (if b then "1" else "0", s')
  | ["f01"] => (onDraws N s Float01.sample64).map fun (x, s') => ("z:" ++ toString x, s')
  | ["idx", n] => n.toNat?.bind fun n => (onDraws N s (index n)).map fun (k, s') => (toString k, s')
  | ["jump"] => some ("-", Block.jump C s)
  | ["clone"] =>
      let (a, c) := nextN C 8 s
      let (b, _) := nextN C 8 c
      some ("c:" ++ toString (leNat a) ++ ":" ++ toString (leNat b), s)
  | ["split"] =>
      let (child, parent) := Block.split C s
      let (a, _) := nextN C 8 child
      some ("s:" ++ toString (leNat a), parent)
  | ["clone32"] =>
      let (a, c) := nextN C 4 s
      let (b, _) := nextN C 4 c
      some ("c:" ++ toString (leNat a) ++ ":" ++ toString (leNat b), s)
  | ["split32"] =>
      let (child, parent) := Block.split C s
      let (a, _) := nextN C 4 child
      some ("s:" ++ toString (leNat a), parent)
  | ["clonef", n] => n.toNat?.map fun n => let (b, _) := Block.fill C n s; ("cb:" ++ hexBytes b, s)
  | ["splitf", n] => n.toNat?.map fun n =>
      let (child, parent) := Block.split C s
      let (b, _) := Block.fill C n child
      ("sb:" ++ hexBytes b, parent)
  | ["fill", n] => n.toNat?.map fun n => let (b, s') := Block.fill C n s; ("b:" ++ hexBytes b, s')
  | ["zfill", n] => n.toNat?.map fun _ => let (b, s') := Block.fill C 0 s; ("b:" ++ hexBytes b, s')
  | ["zrb"] => let (b, s') := Block.fill C 0 s; some ("b:" ++ hexBytes b, s')
  | ["tfill", n] => n.toNat?.map fun k => let (b, s') := Block.fill C (4 * k) s; ("b:" ++ hexBytes b, s')
  | _ => none

def chachaOps (N : Nat) : CS → List String → Option (List String × CS)
  | s, [] => some ([], s)
  | s, op :: ops => do
      let (o, s') ← chachaOp N s op
      let (os, s'') ← chachaOps N s' ops
      pure (o :: os, s'')

def chachaRequest (kv : KV) : Option String := do
  let N ← kv.nat? "n"
  let st ← (match kv.nat? "seed" with
    | some seed => some (fromSeed (BitVec.ofNat 64 seed))
    | none => do
        let key ← kv.nats? "key"
        let ctr ← kv.nat? "ctr"
        let str ← kv.nat? "str"
        stateOfNats? key ctr str)
  let idx := (kv.nat? "idx").getD (2 ^ 32 - 1)
  let buf ← (match kv.get? "buf" with
    | none => some #[]
    | some h => (parseHex? h).map List.toArray)
  let s0 : CS := ⟨st, idx, fun i => buf.getD i 0#8⟩
  let (outs, s) ← chachaOps N s0 (kv.strs "ops")
  pure (joinWith " " (outs ++ ["st:" ++ showState s.core, "idx:" ++ (if s.index < 256 then toString s.index else "oob")]))

/-- one raw batch: 64 words and the counter afterwards -/
def slpblockRequest (kv : KV) : Option String := do
  let N ← kv.nat? "n"
  let key ← kv.nats? "key"
  let ctr ← kv.nat? "ctr"
  let str ← kv.nat? "str"
  let st ← stateOfNats? key ctr str
  let (b, s') := block N st
  let ws := b.1.words ++ b.2.1.words ++ b.2.2.1.words ++ b.2.2.2.words
  pure (joinWith "," (ws.map (toString ·.toNat)) ++ " ctr:" ++ toString s'.getCounter.toNat)

/-- the *specification* block function (Bernstein), for the keystream oracle -/
def specblockRequest (kv : KV) : Option String := do
  let N ← kv.nat? "n"
  let key ← kv.nats? "key"
  let ctr ← kv.nat? "ctr"
  let str ← kv.nat? "str"
  let st ← stateOfNats? key 0 0
  let b := specBlock N st (BitVec.ofNat 64 ctr) (BitVec.ofNat 64 str)
  pure (hexBytes (b.words.flatMap wordBytes))

end Urandom.Driver
