import Urandom.Driver.Word
import Urandom.Driver.Block
import Urandom.Driver.Distr
import Urandom.Driver.System
/- Driver for the `fillb` stream: byte fills of every generator through the typed APIs. -/
namespace Urandom.Driver
open Urandom Urandom.ChaCha Urandom.Block

/-- the `Mock` as a word generator over its remaining words (`none` state = it panicked) -/
def mockFill (ws : Words) (len : Nat) : Option (List Byte × Words) :=
  let need := (len + 7) / 8
  if ws.length < need then none
  else
    let g : WordGen Words := ⟨fun s => (0, s), fun s => (s.headD 0, s.tail), fun s => (0, s), fun s => (0, s), id⟩
    some (fillBytes g ws len)

def elemSize? : String → Option Nat
  | "u8" => some 1 | "u16" => some 2 | "u32" => some 4 | "u64" => some 8 | "u128" => some 16
  | "a3u8" => some 3 | "a5u32" => some 20
  | "z0" => some 0 | "unit" => some 0 | "rbunit" => some 0
  | "rb0" => some 0 | "rb1" => some 1 | "rb3" => some 3 | "rb8" => some 8 | "rb13" => some 13
  | "rb2" => some 2 | "rb4" => some 4 | "rb4u32" => some 4 | "rb4f32" => some 4 | "rb4u16x2" => some 4
  | "rb8a" => some 8 | "rb8f64" => some 8 | "rb16" => some 16
  | "rb20" => some 20 | "rb32" => some 32 | "rb300" => some 300
  | _ => none

def fillbRequest (kv : KV) : Option String := do
  let gen ← kv.get? "gen"
  let api ← kv.get? "api"
  let esize ← (kv.get? "elem").bind elemSize?
  let count := if api == "random_bytes" then 1 else (kv.nat? "count").getD 0
  let len := esize * count
  let pre := kv.strs "pre"
  let fmt (b : List Byte) (next : String) : String :=
    "b:" ++ hexBytes b ++ " canary:ok init:ok ret:" ++ toString len ++ " next:" ++ next
  let seed := (kv.nat? "seed").getD 0
  let wordCase {σ : Type} (g : WordGen σ) (s0 : σ) : Option String := do
    let ops ← pre.mapM parseOp?
    let (_, s1) := g.run s0 ops
    let (b, s2) := fillBytes g s1 len
    pure (fmt b (toString (g.u64 s2).1.toNat))
  let chachaCase (N : Nat) : Option String := do
    let s0 : CS := Block.new (fromSeed (BitVec.ofNat 64 seed)) 0#8
    let (_, s1) ← chachaOps N s0 pre
    let (b, s2) := Block.fill (chachaCore N) len s1
    pure (fmt b (toString (leNat (nextN (chachaCore N) 8 s2).1)))
  -- System<N> over the scripted entropy source with every fetch succeeding: pre ops, the fill, one more u64
  let systemCase : Option String := do
    let N := (kv.nat? "n").getD 31
    let ops ← pre.mapM parseSop?
    let outs := SystemGen.run SystemGen.natLabels N (SystemGen.St.new SystemGen.natLabels N []) (ops ++ [.fill len, .u64])
    let b ← outs[ops.length]?
    let nx ← outs[ops.length + 1]?
    match b with
    | .fetched k n => pure ("b:" ++ hexBytes ((List.range n).map fun i => BitVec.ofNat 8 (SystemGen.tagByte k i)) ++ " canary:ok init:ok ret:" ++ toString len ++ " next:" ++ showSout nx)
    | _ => pure "panic"
  match gen with
  | "system" => systemCase
  | "xoshiro" => wordCase Xoshiro.gen (Xoshiro.fromSeed (BitVec.ofNat 64 seed))
  | "splitmix" => wordCase SplitMix.gen (BitVec.ofNat 64 seed)
  | "wyrand" => wordCase Wyrand.gen (BitVec.ofNat 64 seed)
  | "chacha8" => chachaCase 8
  | "chacha12" => chachaCase 12
  | "chacha20" => chachaCase 20
  | "mock" =>
      let ws ← parseWords? kv
      if !pre.isEmpty then none else
      match mockFill ws len with
      | none => pure "panic"
      | some (b, ws') => pure (fmt b (match ws' with | [] => "panic" | w :: _ => toString w.toNat))
  | _ => none

end Urandom.Driver
