import Urandom.Generated.FloatZiggurat
/-!
# C16 / C15 for one trip round the loop of `ziggurat()` as translated from the source

`tools/extract_float.py` translates `into_float_with_exponent` and the body of the loop of `ziggurat()` (src/distr/ziggurat.rs) into a
decision over the drawn word: `ret x` (the rectangle: the candidate is returned), `tail u` (layer 0: `zero_case(rand, u)`), `wedge x accept`
(a `float01()` draw is needed; `accept f01` returns the candidate, otherwise the loop goes round again).  Layer index, the unit value `u`
(symmetric: `[2,4) - 3`, one-sided: `[1,2) - (1 - EPSILON/2)`), the candidate `x = u * x_tab[i]`, the rectangle test against `x_tab[i+1]`,
the wedge test `f_tab[i+1] + (f_tab[i] - f_tab[i+1]) * float01() < pdf(x)` are the code's.  The model's `ziggurat` - the function the
validity theorems of C15 and, through `ZigguratLaw`, the idealised law of C16 are stated about - is proved to be exactly this decision, for
every word, table, density and tail sampler.  An acceptance test by anything else than the density (a chord, another layer's bound), another
layer index, another candidate is a proof break.
-/
namespace Urandom.C16
open Urandom Urandom.IEEE Urandom.FD Urandom.Generated

theorem into_float_translated (w : BitVec 64) :
    FloatD.into_float w 0#64 = intoFloat w 0 ∧ FloatD.into_float w 1#64 = intoFloat w 1 := by
  unfold FloatD.into_float intoFloat
  have h12 : (12#64).toNat = 12 := rfl
  have h52 : (52#64).toNat = 52 := rfl
  have c0 : ((1023#64 + 0#64) <<< 52).toNat = (1023 + 0) <<< 52 := by decide
  have c1 : ((1023#64 + 1#64) <<< 52).toNat = (1023 + 1) <<< 52 := by decide
  constructor <;> simp only [h12, h52, BitVec.toNat_or, BitVec.toNat_ushiftRight, c0, c1]

/-- `1.0 - f64::EPSILON / 2.0`, evaluated in the IEEE model, is the constant the model uses -/
theorem one_minus_half_eps : sub b64 (c b64 1) (div b64 4372995238176751616 (c b64 2)) = oneMinusHalfEps := by decide +kernel

theorem zig_iter_translated (sym : Bool) (xTab fTab : Array Nat) (pdf : Nat → Nat) (zeroCase : Nat → Draw Nat) (w : BitVec 64) (ws : Words) :
    ziggurat sym xTab fTab pdf zeroCase (w :: ws) =
      (match FloatD.zig_iter sym xTab fTab pdf w with
       | .ret x => some (x, ws)
       | .tail u => zeroCase u ws
       | .wedge x acc =>
         match ws with
         | w₁ :: w₂ :: rest => if acc (Float01.bits64 w₁ w₂) then some (x, rest) else ziggurat sym xTab fTab pdf zeroCase rest
         | _ => none) := by
  have hi : (w &&& 255#64).toNat = w.toNat % 256 := by
    rw [BitVec.toNat_and]
    exact Nat.and_two_pow_sub_one_eq_mod w.toNat 8
  have hlt : w.toNat % 256 < 256 := Nat.mod_lt _ (by decide)
  have hi1 : ((w &&& 255#64) + 1#64).toNat = w.toNat % 256 + 1 := by
    rw [BitVec.toNat_add, hi]; simp; omega
  have hz : ((w &&& 255#64) == 0#64) = decide (w.toNat % 256 = 0) := by
    rw [← hi]
    generalize (w &&& 255#64) = x
    by_cases h : x = 0#64
    · subst h; simp
    · have hne : x.toNat ≠ 0 := fun h0 => h (BitVec.eq_of_toNat_eq (by simpa using h0))
      simp [h, hne]
  obtain ⟨f0, f1⟩ := into_float_translated w
  rw [ziggurat]
  unfold zigHead wedgeAccept FloatD.zig_iter
  simp only [hi, hi1, hz, f0, f1, one_minus_half_eps]
  cases sym <;> simp only [Bool.false_eq_true, if_false, if_true] <;>
    (split
     · rfl
     · split
       · simp_all
       · simp_all
         rcases ws with _ | ⟨w1, _ | ⟨w2, rest⟩⟩ <;> rfl)

end Urandom.C16
