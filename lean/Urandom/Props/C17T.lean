import Urandom.Model.System
import Urandom.Generated.EffectSystem
/-!
# C17 for `System<N>::next_u32` / `next_u64` as translated from the source

`tools/extract_effect.py` translates the CURRENT text of the two word methods of `impl Rng for System<N>` (src/rng/system.rs) into functions
of the `index` field (a `u32`) and `N` that return the log of what happens in program order - assignments to `self.index`, the fetch
`getentropy(&mut self.random)`, the reads `self.random[i]` - and the indices of the words that make up the result (low word first).  Run on
a state of the hand-written model (`Model/System.lean`, the model every C17 theorem is about) with the model's scripted entropy source - a
failing fetch panics, an out-of-bounds read panics - the log gives exactly the model's `nextU32` / `nextU64`: output and state, for EVERY
value of the index field, every block size `2 <= N < 2^31` and every script.  In particular the ORDER of "invalidate the index" and "fetch"
is part of the statement: with the fetch first (defect D6, repaired) a failed fetch would leave a servable index, and the theorem fails.
-/
namespace Urandom.C17
open Urandom Urandom.SystemGen Urandom.Generated

variable {α : Type} (L : Labels α)

/-- run an event log on a model state; `false` = panicked (the state is as the panic left it) -/
def runSys (N : Nat) : St α → List SysEv → Bool × St α
  | s, [] => (true, s)
  | s, .setIndex v :: evs => runSys N { s with index := v.toNat } evs
  | s, .fetch :: evs => if (fetchBlock L N s).1 then runSys N (fetchBlock L N s).2 evs else (false, (fetchBlock L N s).2)
  | s, .load i :: evs => if i.toNat < s.buf.length then runSys N s evs else (false, s)

/-- the words at the given indices of a block -/
def wordsOf (buf : List α) (idxs : List (BitVec 64)) : List α := idxs.flatMap (fun i => (buf.drop i.toNat).take 1)

/-- the outcome of a call: the model's `Out` -/
def outOf (r : Bool × St α) (idxs : List (BitVec 64)) : SystemGen.Out α × St α :=
  if r.1 then (.words (wordsOf r.2.buf idxs), r.2) else (.panic, r.2)

theorem fetchBlock_length (N : Nat) (s : St α) : (fetchBlock L N s).2.buf.length = N := by
  unfold fetchBlock; simp only; split <;> simp

theorem next_u32_translated (N : Nat) (s : St α) (hN : 1 ≤ N) (hN' : N < 2 ^ 31) (hi : s.index < 2 ^ 32) (hb : s.buf.length = N) :
    outOf (runSys L N s (Effect.system.next_u32 (BitVec.ofNat 32 s.index) (BitVec.ofNat 64 N)).1)
      (Effect.system.next_u32 (BitVec.ofNat 32 s.index) (BitVec.ofNat 64 N)).2 = nextU32 L N s := by
  have hx : ((BitVec.ofNat 32 s.index).setWidth 64).toNat = s.index := by
    simp only [BitVec.toNat_setWidth, BitVec.toNat_ofNat]; omega
  have hNN : (BitVec.ofNat 64 N).toNat = N := by simp only [BitVec.toNat_ofNat]; omega
  unfold Effect.system.next_u32 nextU32
  generalize (BitVec.ofNat 32 s.index).setWidth 64 = x at hx
  by_cases hc : s.index ≥ N
  · have hb' : x ≥ BitVec.ofNat 64 N := by rw [ge_iff_le, BitVec.le_def, hNN, hx]; exact hc
    have hN0 : ¬ (N = 0) := by omega
    simp only [hb', hc, if_true, hN0, if_false, List.nil_append, List.cons_append, runSys]
    have hl := fetchBlock_length L N { s with index := (4294967295#32).toNat }
    have h42 : (4294967295#32).toNat = 2 ^ 32 - 1 := by decide
    rw [h42] at hl ⊢
    cases hok : (fetchBlock L N { s with index := 2 ^ 32 - 1 }).1
    · simp [outOf, hok]
    · have h0 : (0#64).toNat < (fetchBlock L N { s with index := 2 ^ 32 - 1 }).2.buf.length := by rw [hl]; simp; omega
      simp only [hok, if_true, h0, runSys, outOf, wordsOf]
      simp
  · have hb' : ¬ x ≥ BitVec.ofNat 64 N := by rw [ge_iff_le, BitVec.le_def, hNN, hx]; exact hc
    have hlt : x.toNat < s.buf.length := by rw [hx, hb]; omega
    have hset : ((x + 1#64).setWidth 32).toNat = s.index + 1 := by
      simp only [BitVec.toNat_setWidth, BitVec.toNat_add, BitVec.toNat_ofNat, hx]; omega
    simp only [hb', hc, if_false, List.nil_append, List.cons_append, runSys, hlt, if_true, outOf, wordsOf, hset]
    simp [hx]

theorem take_two (l : List α) (i : Nat) (h : i + 1 < l.length) :
    (l.drop i).take 1 ++ (l.drop (i + 1)).take 1 = (l.drop i).take 2 := by
  have e : l.drop (i + 1) = (l.drop i).drop 1 := by rw [List.drop_drop]
  rw [e]
  cases l.drop i with
  | nil => simp
  | cons a t => cases t <;> simp

theorem next_u64_translated (N : Nat) (s : St α) (hN : 2 ≤ N) (hN' : N < 2 ^ 31) (hi : s.index < 2 ^ 32) (hb : s.buf.length = N) :
    outOf (runSys L N s (Effect.system.next_u64 (BitVec.ofNat 32 s.index) (BitVec.ofNat 64 N)).1)
      (Effect.system.next_u64 (BitVec.ofNat 32 s.index) (BitVec.ofNat 64 N)).2 = nextU64 L N s := by
  have hx : ((BitVec.ofNat 32 s.index).setWidth 64).toNat = s.index := by
    simp only [BitVec.toNat_setWidth, BitVec.toNat_ofNat]; omega
  have hNN : (BitVec.ofNat 64 N).toNat = N := by simp only [BitVec.toNat_ofNat]; omega
  have hN1 : (BitVec.ofNat 64 N - 1#64).toNat = N - 1 := by
    rw [BitVec.toNat_sub_of_le (by rw [BitVec.le_def, hNN]; simp; omega), hNN]; rfl
  unfold Effect.system.next_u64 nextU64
  generalize (BitVec.ofNat 32 s.index).setWidth 64 = x at hx
  have hN0 : ¬ (N = 0) := by omega
  have hN2 : ¬ (N < 2) := by omega
  by_cases hc : s.index ≥ N - 1
  · have hb' : x ≥ BitVec.ofNat 64 N - 1#64 := by rw [ge_iff_le, BitVec.le_def, hN1, hx]; exact hc
    simp only [hb', hc, if_true, hN0, hN2, if_false, List.nil_append, List.cons_append, runSys]
    have hl := fetchBlock_length L N { s with index := (4294967295#32).toNat }
    have h42 : (4294967295#32).toNat = 2 ^ 32 - 1 := by decide
    rw [h42] at hl ⊢
    cases hok : (fetchBlock L N { s with index := 2 ^ 32 - 1 }).1
    · simp [outOf]
    · have h0 : (0#64 + 0#64).toNat < (fetchBlock L N { s with index := 2 ^ 32 - 1 }).2.buf.length := by rw [hl]; simp; omega
      have h1 : (0#64 + 1#64).toNat < (fetchBlock L N { s with index := 2 ^ 32 - 1 }).2.buf.length := by rw [hl]; simp; omega
      simp only [if_true, h0, h1, outOf, wordsOf]
      have := take_two (fetchBlock L N { s with index := 2 ^ 32 - 1 }).2.buf 0 (by rw [hl]; omega)
      simp at this ⊢
      exact this
  · have hb' : ¬ x ≥ BitVec.ofNat 64 N - 1#64 := by rw [ge_iff_le, BitVec.le_def, hN1, hx]; exact hc
    have ha0 : (x + 0#64).toNat = s.index := by simp [hx]
    have ha1 : (x + 1#64).toNat = s.index + 1 := by
      simp only [BitVec.toNat_add, BitVec.toNat_ofNat, hx]; omega
    have hlt0 : (x + 0#64).toNat < s.buf.length := by rw [ha0, hb]; omega
    have hlt1 : (x + 1#64).toNat < s.buf.length := by rw [ha1, hb]; omega
    have hset : ((x + 2#64).setWidth 32).toNat = s.index + 2 := by
      simp only [BitVec.toNat_setWidth, BitVec.toNat_add, BitVec.toNat_ofNat, hx]; omega
    simp only [hb', hc, if_false, hN0, List.nil_append, List.cons_append, runSys, hlt0, hlt1, if_true, outOf, wordsOf, hset]
    have := take_two s.buf s.index (by rw [hb]; omega)
    simp [hx, ha1, this]

/-- the hypotheses are satisfiable: a fresh `System<4>` with a script -/
example : (2 : Nat) ≤ 4 ∧ (St.new natLabels 4 [true, false]).index < 2 ^ 32 ∧ (St.new natLabels 4 [true, false]).buf.length = 4 := by decide

end Urandom.C17
