import Mathlib.Algebra.Order.Field.Basic
import Mathlib.Tactic.Linarith
import Mathlib.Tactic.Ring
import Urandom.Model.FloatDistr
import Urandom.Lemmas.IEEEExact
/-
C12 - Uniform float ranges never return a value outside [low, high).

**The full statement is false on the code as it is** (known findings D2, D2b, D2c): the sampling
formula `u·scale + base` is rounded twice.  What is proved: (1) the formula is right in exact
arithmetic; (3) the negation of the property's first sentence on concrete witnesses, by kernel
evaluation of the IEEE model (the implementation returns the same bits - `ufloat` correspondence
stream).  The full statement stays visible as `UniformFloatInRange`.
Model: `Urandom.FD.UniformFloat` (`src/distr/uniform/float.rs`).
-/
namespace Urandom.C12
open Urandom Urandom.IEEE Urandom.FD

/-- the property as stated (for `f64`, `low < high`): every sample lies in `[low, high)` and is not NaN -/
def UniformFloatInRange : Prop :=
  ∀ (low high : Nat) (d : UniformFloat) (w : BitVec 64),
    isFinite b64 low = true → isFinite b64 high = true → lt b64 low high = true → isFinite b64 (sub b64 high low) = true →
    UniformFloat.tryNew b64 true low high = .ok d →
    le b64 low (d.sampleU b64 (rngF64 w).toNat) = true ∧ lt b64 (d.sampleU b64 (rngF64 w).toNat) high = true

/-! ### (1) the formula is right in exact arithmetic -/

section exact
variable {K : Type} [Field K] [LinearOrder K] [IsStrictOrderedRing K]

/-- `scale = high - low`, `base = low - scale`, sample `u·scale + base` for a unit float `u ∈ [1, 2)`:
in exact arithmetic the sample lies in `[low, high)` -/
theorem exact_in_range (l h u : K) (hlh : l < h) (hu1 : 1 ≤ u) (hu2 : u < 2) :
    l ≤ u * (h - l) + (l - (h - l)) ∧ u * (h - l) + (l - (h - l)) < h := by
  have hd : 0 < h - l := by linarith
  constructor <;> nlinarith

/-- reversed bounds: the sample lies in `(high, low]` -/
theorem exact_reversed (l h u : K) (hlh : h < l) (hu1 : 1 ≤ u) (hu2 : u < 2) :
    h < u * (h - l) + (l - (h - l)) ∧ u * (h - l) + (l - (h - l)) ≤ l := by
  have hd : h - l < 0 := by linarith
  constructor <;> nlinarith

omit [LinearOrder K] [IsStrictOrderedRing K] in
/-- equal bounds: exactly that value -/
theorem exact_equal (l u : K) : u * (l - l) + (l - (l - l)) = l := by ring

end exact

/-! ### (3) the negation, on the code as it is (kernel evaluation of the IEEE model) -/

/-- **D2, upper bound reached**: `Uniform::new(100.0, 101.0)` with the all-ones word returns `101.0`
(`0x4059000000000000 = 100.0`, `0x4059400000000000 = 101.0`) -/
theorem d2_upper_bound_reached :
    ∃ d, UniformFloat.tryNew b64 true 0x4059000000000000 0x4059400000000000 = .ok d ∧
      d.sampleU b64 (rngF64 0xFFFFFFFFFFFFFFFF#64).toNat = 0x4059400000000000 := by
  refine ⟨⟨0x4058C00000000000, 0x3FF0000000000000⟩, by decide +kernel, by decide +kernel⟩

/-- **D2, lower bound undercut**: `Uniform::new(0.1, 1e16)` with the zero word returns `+0.0 < 0.1`
(`0x3FB999999999999A = 0.1`, `0x4341C37937E08000 = 1e16`) -/
theorem d2_lower_bound_undercut :
    ∃ d, UniformFloat.tryNew b64 true 0x3FB999999999999A 0x4341C37937E08000 = .ok d ∧
      d.sampleU b64 (rngF64 0#64).toNat = 0 ∧ lt b64 0 0x3FB999999999999A = true := by
  refine ⟨⟨_, _⟩, rfl, by decide +kernel, by decide +kernel⟩

/-- hence the property is false of the model (and of the implementation, which returns the same bits) -/
theorem not_uniformFloatInRange : ¬ UniformFloatInRange := by
  intro h
  have := h 0x4059000000000000 0x4059400000000000 ⟨0x4058C00000000000, 0x3FF0000000000000⟩ 0xFFFFFFFFFFFFFFFF#64
    (by decide +kernel) (by decide +kernel) (by decide +kernel) (by decide +kernel) (by decide +kernel)
  have e : (⟨0x4058C00000000000, 0x3FF0000000000000⟩ : UniformFloat).sampleU b64 (rngF64 0xFFFFFFFFFFFFFFFF#64).toNat = 0x4059400000000000 := by
    decide +kernel
  rw [e] at this
  exact absurd this.2 (by decide +kernel)

/-- **D2b**: without the `debug_assertions` check (release builds) finite bounds whose
`low - (high - low)` overflows are accepted with `base = -inf` (`-1e308`, `0.5e308`) -/
theorem d2b_release_accepts_overflowing_base :
    UniformFloat.tryNew b64 true 0xFFE1CCF385EBC8A0 0x7FD1CCF385EBC8A0 = .error .NonFinite ∧
    ∃ d, UniformFloat.tryNew b64 false 0xFFE1CCF385EBC8A0 0x7FD1CCF385EBC8A0 = .ok d ∧ d.base = 0xFFF0000000000000 := by
  refine ⟨by decide +kernel, ⟨_, _⟩, rfl, by decide +kernel⟩

/-- `try_new(x, x)` succeeds and the sample for word `w` is `x` itself -/
def equalOk (x : Nat) (w : BitVec 64) : Bool :=
  match UniformFloat.tryNew b64 true x x with
  | .ok d => d.sampleU b64 (rngF64 w).toNat == x
  | .error _ => false

def equalWitnesses : Bool :=
  [0x4059000000000000, 0x0000000000000001, 0x7FEFFFFFFFFFFFFF, 0xC008000000000000].all fun x =>
    [0#64, 0xFFFFFFFFFFFFFFFF#64, 0x123456789ABCDEF0#64].all fun w => equalOk x w

/-- with equal finite bounds the sample is that value (checked on witnesses of each class by kernel
evaluation: a normal, a subnormal, a huge and a negative value; tests, labelled as such) -/
theorem equal_bounds_witnesses : equalWitnesses = true := by decide +kernel

/-! ### equal bounds, every input (clause 2 of the property) -/

theorem round_zero (f : Fmt) (s : Bool) (e : ℤ) (st : Bool) : round f (.fin s 0 e) st = .fin s 0 f.emin := by
  simp [round]

/-- **with equal finite bounds every sample is exactly that value**, for every finite bound `x`
(normal, subnormal, zero of either sign, either width) and every unit float `u`: `try_new(x, x)`
succeeds, `scale = +0`, `base = x`, and `u·scale + base` decodes to `x` (to `+0` for `x = -0`: equal
as IEEE values, `-0.0 == 0.0`). Two roundings, both exact. -/
theorem equal_bounds_all (f : Fmt) (hf : f.WF) (checked : Bool) (x u : ℕ) (s : Bool) (m : ℕ) (e : ℤ)
    (hx : decode f x = .fin s m e) (n : ℕ) (g : ℤ) (hu : decode f u = .fin false n g) :
    ∃ d, UniformFloat.tryNew f checked x x = .ok d ∧
      decode f (d.sampleU f u) = (if m = 0 then .fin false 0 f.emin else .fin s m e) := by
  have hc : Canon f (.fin s m e) := hx ▸ decode_canon f x
  have hle : f.emin ≤ e := canon_emin_le f s m e hc
  -- scale = x - x = +0
  have hscale : decode f (sub f x x) = .fin false 0 f.emin := by
    unfold sub
    rw [decode_encode f hf, hx]
    simp only [Val.neg, Val.addE]
    rw [addFin_self_neg, round_zero]
  -- base = x - (+0) = x
  have hbase : decode f (sub f x (sub f x x)) = .fin s m e := by
    unfold sub at hscale ⊢
    rw [decode_encode f hf, hscale, hx]
    simp only [Val.neg, Val.addE, Bool.not_false]
    rw [addFin_zero_right s m e true f.emin hle]
    by_cases hm : m = 0
    · subst hm
      rcases hc with ⟨_, he⟩ | ⟨h, _⟩
      · simp [round_zero, he]
      · exact absurd h (by have : 0 < 2 ^ f.mb := Nat.pos_of_ne_zero (by positivity); omega)
    · rw [if_neg hm, round_shift_back f s m e _ hc]
  refine ⟨⟨sub f x (sub f x x), sub f x x⟩, ?_, ?_⟩
  · unfold UniformFloat.tryNew
    have h1 : isFinite f (sub f x (sub f x x)) = true := by unfold isFinite; rw [hbase]; rfl
    have h2 : isFinite f (sub f x x) = true := by unfold isFinite; rw [hscale]; rfl
    simp [h1, h2]
  · unfold UniformFloat.sampleU add mul
    simp only []
    rw [decode_encode f hf, decode_encode f hf, hu, hscale, hbase]
    simp only [Val.mulE, Nat.mul_zero, round_zero, Val.addE]
    rw [addFin_zero_left _ f.emin s m e hle]
    by_cases hm : m = 0
    · simp [hm, round_zero]
    · rw [if_neg hm, if_neg hm, round_shift_back f s m e _ hc]

/-- in IEEE terms: the sample compares equal to the bound -/
theorem equal_bounds_eq (f : Fmt) (hf : f.WF) (checked : Bool) (x u : ℕ) (s : Bool) (m : ℕ) (e : ℤ)
    (hx : decode f x = .fin s m e) (n : ℕ) (g : ℤ) (hu : decode f u = .fin false n g) :
    ∃ d, UniformFloat.tryNew f checked x x = .ok d ∧ IEEE.eq f (d.sampleU f u) x = true := by
  obtain ⟨d, h1, h2⟩ := equal_bounds_all f hf checked x u s m e hx n g hu
  refine ⟨d, h1, ?_⟩
  unfold IEEE.eq
  rw [h2, hx]
  by_cases hm : m = 0
  · subst hm; simp [Val.eq, Val.finEq]
  · rw [if_neg hm]; simp [Val.eq, Val.finEq]

/-- non-vacuity: 100.0 decodes to a finite value and a unit float to a positive finite one -/
example : decode b64 0x4059000000000000 = .fin false 0x19000000000000 (-46) ∧
    decode b64 (rngF64 0x123456789ABCDEF0#64).toNat = .fin false 0x1123456789ABCD (-52) := by decide +kernel

end Urandom.C12
