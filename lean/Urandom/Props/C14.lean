import Urandom.Lemmas.IEEEOrder
import Urandom.Props.C11
import Mathlib.Order.Interval.Finset.Nat
import Mathlib.Algebra.BigOperators.Group.Finset.Basic
import Mathlib.Tactic.GCongr
/-
C14 - chance(p) / Bernoulli(p): certain at the extremes, monotone, probability p.

Model: `Urandom.bernoulli p` = `IEEE.le b64 (Float01 sample) p` (`src/distr/bernoulli.rs`;
`Random::chance(p)` is `Bernoulli::new(p).sample`), tied to the code by the `bern` correspondence
stream (p of every class, and p equal to / one ulp either side of the Float01 value the scripted
words produce).
-/
namespace Urandom.C14
open Urandom Urandom.IEEE

/-- the value of the `Float01` sample drawn from the words `w₁ w₂` -/
def f01val (w₁ w₂ : BitVec 64) : ℚ := rval false (2 ^ 52 + w₂.toNat / 2 ^ 12) (-53 - (clz64 w₁ : ℤ))

theorem f01_decode (w₁ w₂ : BitVec 64) :
    decode b64 (Float01.bits64 w₁ w₂) = .fin false (2 ^ 52 + w₂.toNat / 2 ^ 12) (-53 - (clz64 w₁ : ℤ)) :=
  C11.float01_decode w₁ w₂

/-- **`Float01` lies strictly between 0 and 1** as an exact rational -/
theorem f01val_range (w₁ w₂ : BitVec 64) : 0 < f01val w₁ w₂ ∧ f01val w₁ w₂ < 1 := by
  unfold f01val
  refine ⟨rval_pos _ _ (by positivity), ?_⟩
  unfold rval
  have hm : w₂.toNat / 2 ^ 12 < 2 ^ 52 := by have := w₂.isLt; omega
  have hk : (0 : ℤ) ≤ (clz64 w₁ : ℤ) := Int.natCast_nonneg _
  have h1 : ((2 ^ 52 + w₂.toNat / 2 ^ 12 : ℕ) : ℚ) < 2 ^ 53 := by exact_mod_cast (by omega : 2 ^ 52 + w₂.toNat / 2 ^ 12 < 2 ^ 53)
  have h2 : (2 : ℚ) ^ (-53 - (clz64 w₁ : ℤ)) ≤ (2 : ℚ) ^ (-53 : ℤ) := zpow_le_zpow_right₀ (by norm_num) (by omega)
  have h3 : (0 : ℚ) < (2 : ℚ) ^ (-53 - (clz64 w₁ : ℤ)) := by positivity
  have h4 : (2 : ℚ) ^ 53 * (2 : ℚ) ^ (-53 : ℤ) = 1 := by
    rw [← zpow_natCast, ← zpow_add₀ (by norm_num)]; norm_num
  simp only [Bool.false_eq_true, ↓reduceIte, one_mul]
  calc ((2 ^ 52 + w₂.toNat / 2 ^ 12 : ℕ) : ℚ) * (2 : ℚ) ^ (-53 - (clz64 w₁ : ℤ))
      < 2 ^ 53 * (2 : ℚ) ^ (-53 - (clz64 w₁ : ℤ)) := mul_lt_mul_of_pos_right h1 h3
    _ ≤ 2 ^ 53 * (2 : ℚ) ^ (-53 : ℤ) := mul_le_mul_of_nonneg_left h2 (by positivity)
    _ = 1 := h4

theorem bernoulli_eq (p : Nat) (w₁ w₂ : BitVec 64) (ws : Words) :
    bernoulli p (w₁ :: w₂ :: ws) = some (Val.le (decode b64 (Float01.bits64 w₁ w₂)) (decode b64 p), ws) := rfl

/-- the outcome for the words `w₁ w₂`, as a function of `p` -/
def outcome (p : Nat) (w₁ w₂ : BitVec 64) : Bool := Val.le (decode b64 (Float01.bits64 w₁ w₂)) (decode b64 p)

/-- **`p ≥ 1` is certain**: for every `p` with `1.0 <= p` (IEEE; includes `+inf`) the result is
`true` for every pair of words. -/
theorem certain (p : Nat) (hp : Val.le (.fin false 1 0) (decode b64 p) = true) (w₁ w₂ : BitVec 64) :
    outcome p w₁ w₂ = true := by
  unfold outcome
  rw [f01_decode]
  have hr := (f01val_range w₁ w₂).2
  unfold f01val at hr
  cases hd : decode b64 p with
  | nan => rw [hd] at hp; simp [Val.le, Val.lt, Val.eq] at hp
  | inf s =>
    rw [hd] at hp
    simp only [Val.le, Val.lt, Val.eq, Bool.or_false] at hp ⊢
    exact hp
  | fin t n g =>
    rw [hd] at hp
    rw [le_fin_iff] at hp ⊢
    have : rval false 1 0 = 1 := by unfold rval; simp
    rw [this] at hp
    linarith

/-- **`p ≤ 0` and NaN never succeed**: for `p <= 0.0` (IEEE; includes `±0`, negatives, `-inf`) and
for every NaN the result is `false` for every pair of words. -/
theorem never (p : Nat) (hp : Val.le (decode b64 p) (.fin false 0 0) = true ∨ (decode b64 p).isNaN = true)
    (w₁ w₂ : BitVec 64) : outcome p w₁ w₂ = false := by
  unfold outcome
  rw [f01_decode]
  have hr := (f01val_range w₁ w₂).1
  unfold f01val at hr
  cases hd : decode b64 p with
  | nan => simp [Val.le, Val.lt, Val.eq]
  | inf s =>
    rw [hd] at hp
    simp only [Val.le, Val.lt, Val.eq, Bool.or_false, Val.isNaN, Bool.false_eq_true, or_false] at hp
    simp [Val.le, Val.lt, Val.eq, hp]
  | fin t n g =>
    rw [hd] at hp
    simp only [Val.isNaN, Bool.false_eq_true, or_false] at hp
    rw [le_fin_iff, rval_zero] at hp
    rw [Bool.eq_false_iff]
    intro h
    rw [le_fin_iff] at h
    linarith

/-- **Monotone in `p` for a fixed stream**: if the outcome is `true` for `p` it is `true` for every
`q` with `p <= q` (IEEE). -/
theorem monotone (p q : Nat) (hpq : Val.le (decode b64 p) (decode b64 q) = true) (w₁ w₂ : BitVec 64)
    (h : outcome p w₁ w₂ = true) : outcome q w₁ w₂ = true := by
  unfold outcome at h ⊢
  rw [f01_decode] at h ⊢
  cases hp : decode b64 p with
  | nan => rw [hp] at h; simp [Val.le, Val.lt, Val.eq] at h
  | inf s =>
    rw [hp] at h hpq
    simp only [Val.le, Val.lt, Val.eq, Bool.or_false, Bool.not_eq_true'] at h
    subst h
    cases hq : decode b64 q with
    | nan => rw [hq] at hpq; simp [Val.le, Val.lt, Val.eq] at hpq
    | inf t =>
      rw [hq] at hpq
      cases t
      · simp [Val.le, Val.lt, Val.eq]
      · simp [Val.le, Val.lt, Val.eq] at hpq
    | fin t n g => rw [hq] at hpq; simp [Val.le, Val.lt, Val.eq] at hpq
  | fin s m e =>
    rw [hp] at h hpq
    cases hq : decode b64 q with
    | nan => rw [hq] at hpq; simp [Val.le, Val.lt, Val.eq] at hpq
    | inf t =>
      rw [hq] at hpq
      simp only [Val.le, Val.lt, Val.eq, Bool.or_false] at hpq ⊢
      exact hpq
    | fin t n g =>
      rw [hq] at hpq
      rw [le_fin_iff] at h hpq ⊢
      linarith

/-- `Random::chance(p)` is `Bernoulli::new(p).sample`: both are `bernoulli p` in the model; running out
of words (fewer than two) is the only way to fail -/
theorem bernoulli_total (p : Nat) (w₁ w₂ : BitVec 64) (ws : Words) :
    ∃ b, bernoulli p (w₁ :: w₂ :: ws) = some (b, ws) := ⟨_, rfl⟩

/-! ### the probability of `true`

For a positive normal `p` (exponent field `e ∈ [959, 1022]`, i.e. `2^-64 ≤ p < 1`, mantissa `a`) the
IEEE comparison is the comparison of bit patterns, and the number of `(w₁, m)` pairs - first word and
52-bit mantissa of the second - with `Float01 ≤ p` is `2^(e-959)·(2^52 + a + 1)` out of `2^116`:
`|P(true) − p| = 2^(e-1075) ≤ p·2^-52`.  (`measure_*` below; the cases `p < 2^-64` are covered by the
absolute term `2^-64`.) -/

/-- bit pattern of `Float01` from the first word and the mantissa -/
def f01 (w m : ℕ) : ℕ := (1022 - (if w = 0 then 64 else 63 - Nat.log2 w)) * 2 ^ 52 + m

theorem f01_bits (w₁ w₂ : BitVec 64) : Float01.bits64 w₁ w₂ = f01 w₁.toNat (w₂.toNat / 2 ^ 12) := by
  rw [C11.float01_bits64]; rfl

theorem expField (w : ℕ) (hw : w < 2 ^ 64) :
    1022 - (if w = 0 then 64 else 63 - Nat.log2 w) = if w = 0 then 958 else 959 + Nat.log2 w := by
  split
  · rfl
  · rename_i h
    have : Nat.log2 w < 64 := (Nat.log2_lt h).2 hw
    omega

/-- `Float01(w, m) ≤ p` (bit patterns) iff `w` is below the binade boundary of `p`, or in the binade
with `m ≤ a` -/
theorem f01_le_iff (e a w m : ℕ) (he : 959 ≤ e) (he' : e ≤ 1022) (ha : a < 2 ^ 52) (hw : w < 2 ^ 64) (hm : m < 2 ^ 52) :
    f01 w m ≤ e * 2 ^ 52 + a ↔ w < 2 ^ (e - 959) ∨ (2 ^ (e - 959) ≤ w ∧ w < 2 ^ (e - 959 + 1) ∧ m ≤ a) := by
  unfold f01
  rw [expField w hw]
  have key : ∀ E : ℕ, E * 2 ^ 52 + m ≤ e * 2 ^ 52 + a ↔ E < e ∨ (E = e ∧ m ≤ a) := by
    intro E
    constructor
    · intro h
      by_contra hc
      push Not at hc
      rcases Nat.lt_trichotomy E e with h1 | h1 | h1
      · exact absurd h1 (by omega)
      · subst h1; have := hc.2 rfl; omega
      · have : (e + 1) * 2 ^ 52 ≤ E * 2 ^ 52 := Nat.mul_le_mul_right _ h1
        rw [Nat.add_mul] at this; omega
    · rintro (h1 | ⟨rfl, h2⟩)
      · have : (E + 1) * 2 ^ 52 ≤ e * 2 ^ 52 := Nat.mul_le_mul_right _ h1
        rw [Nat.add_mul] at this; omega
      · omega
  rw [key]
  split
  · rename_i h0
    subst h0
    have : 0 < 2 ^ (e - 959) := Nat.two_pow_pos _
    constructor
    · intro _; left; exact this
    · intro _; left; omega
  · rename_i h0
    have hl := Nat.log2_lt (n := w) (k := e - 959) h0
    have he2 := Nat.log2_eq_iff (n := w) (k := e - 959) h0
    constructor
    · rintro (h1 | ⟨h1, h2⟩)
      · left; exact hl.1 (by omega)
      · right
        have := he2.1 (by omega)
        exact ⟨this.1, this.2, h2⟩
    · rintro (h1 | ⟨h1, h2, h3⟩)
      · left; have := hl.2 h1; omega
      · right
        have := he2.2 ⟨h1, h2⟩
        exact ⟨by omega, h3⟩

set_option linter.constructorNameAsVariable false in
/-- **exact count**: the number of `(w, m) ∈ 2^64 × 2^52` with `Float01 ≤ p` is `2^(e-959)·(2^52+a+1)` -/
theorem count_true (e a : ℕ) (he : 959 ≤ e) (he' : e ≤ 1022) (ha : a < 2 ^ 52) :
    (((Finset.range (2 ^ 64)) ×ˢ (Finset.range (2 ^ 52))).filter (fun x => f01 x.1 x.2 ≤ e * 2 ^ 52 + a)).card
      = 2 ^ (e - 959) * (2 ^ 52 + a + 1) := by
  set A := 2 ^ (e - 959) with hA
  have hA2 : 2 ^ (e - 959 + 1) = 2 * A := by rw [pow_succ]; ring
  have hAle : 2 * A ≤ 2 ^ 64 := by
    rw [← hA2]; exact Nat.pow_le_pow_right (by norm_num) (by omega)
  have hset : ((Finset.range (2 ^ 64)) ×ˢ (Finset.range (2 ^ 52))).filter (fun x => f01 x.1 x.2 ≤ e * 2 ^ 52 + a)
      = (Finset.range A ×ˢ Finset.range (2 ^ 52)) ∪ (Finset.Ico A (2 * A) ×ˢ Finset.range (a + 1)) := by
    ext ⟨w, m⟩
    simp only [Finset.mem_filter, Finset.mem_product, Finset.mem_range, Finset.mem_union, Finset.mem_Ico]
    constructor
    · rintro ⟨⟨hw, hm⟩, h⟩
      rw [f01_le_iff e a w m he he' ha hw hm, hA2] at h
      rcases h with h | ⟨h1, h2, h3⟩
      · exact Or.inl ⟨h, hm⟩
      · exact Or.inr ⟨⟨h1, h2⟩, by omega⟩
    · rintro (⟨h1, h2⟩ | ⟨⟨h1, h2⟩, h3⟩)
      · have hw : w < 2 ^ 64 := by omega
        exact ⟨⟨hw, h2⟩, (f01_le_iff e a w m he he' ha hw h2).2 (Or.inl h1)⟩
      · have hw : w < 2 ^ 64 := by omega
        have hm : m < 2 ^ 52 := by omega
        exact ⟨⟨hw, hm⟩, (f01_le_iff e a w m he he' ha hw hm).2 (Or.inr ⟨h1, by rw [hA2]; exact h2, by omega⟩)⟩
  rw [hset, Finset.card_union_of_disjoint]
  · simp only [Finset.card_product, Finset.card_range, Nat.card_Ico]
    have : 2 * A - A = A := by omega
    rw [this]; ring
  · rw [Finset.disjoint_left]
    rintro ⟨w, m⟩ h1 h2
    simp only [Finset.mem_product, Finset.mem_range, Finset.mem_Ico] at h1 h2
    omega

/-- **probability vs. value of p**: `0 ≤ N/2^116 − val p = 2^(e−1075) ≤ val p · 2^-52` -/
theorem measure_bound (e a : ℕ) (he : 959 ≤ e) (ha : a < 2 ^ 52) :
    let N : ℚ := 2 ^ (e - 959) * (2 ^ 52 + a + 1)
    let valp : ℚ := (2 ^ 52 + a) * 2 ^ (e - 959) / 2 ^ 116
    0 ≤ N / 2 ^ 116 - valp ∧ N / 2 ^ 116 - valp ≤ valp * (1 / 2 ^ 52) := by
  intro N valp
  have hd : N / 2 ^ 116 - valp = 2 ^ (e - 959) / 2 ^ 116 := by
    simp only [N, valp]; ring
  rw [hd]
  constructor
  · positivity
  · simp only [valp]
    have h1 : (0:ℚ) < 2 ^ (e - 959) := by positivity
    have h2 : (2:ℚ) ^ 52 ≤ 2 ^ 52 + a := by
      have : (0:ℚ) ≤ a := Nat.cast_nonneg a
      linarith
    rw [div_le_iff₀ (by positivity)]
    calc (2:ℚ) ^ (e - 959) = 2 ^ 52 * 2 ^ (e - 959) / 2 ^ 116 * (1 / 2 ^ 52) * 2 ^ 116 := by
          field_simp
      _ ≤ (2 ^ 52 + a) * 2 ^ (e - 959) / 2 ^ 116 * (1 / 2 ^ 52) * 2 ^ 116 := by
          gcongr

/-- value order = bit-pattern order for positive normal patterns -/
theorem normal_le_iff (ef mf e a : ℕ) (hmf : mf < 2 ^ 52) (ha : a < 2 ^ 52) :
    rval false (2 ^ 52 + mf) ((ef : ℤ) - 1075) ≤ rval false (2 ^ 52 + a) ((e : ℤ) - 1075) ↔
      ef * 2 ^ 52 + mf ≤ e * 2 ^ 52 + a := by
  unfold rval
  simp only [Bool.false_eq_true, ↓reduceIte, one_mul]
  have key : ∀ (x mx y my : ℕ), mx < 2 ^ 52 → my < 2 ^ 52 → x < y →
      ((2 ^ 52 + mx : ℕ) : ℚ) * (2 : ℚ) ^ ((x : ℤ) - 1075) < ((2 ^ 52 + my : ℕ) : ℚ) * (2 : ℚ) ^ ((y : ℤ) - 1075) := by
    intro x mx y my hx hy hxy
    have h1 : ((2 ^ 52 + mx : ℕ) : ℚ) < 2 ^ 53 := by exact_mod_cast (by omega : 2 ^ 52 + mx < 2 ^ 53)
    have h2 : (2 : ℚ) ^ 52 ≤ ((2 ^ 52 + my : ℕ) : ℚ) := by exact_mod_cast (by omega : 2 ^ 52 ≤ 2 ^ 52 + my)
    have hp : (0 : ℚ) < (2 : ℚ) ^ ((x : ℤ) - 1075) := by positivity
    have hq : (0 : ℚ) < (2 : ℚ) ^ ((y : ℤ) - 1075) := by positivity
    have h3 : (2 : ℚ) ^ 53 * (2 : ℚ) ^ ((x : ℤ) - 1075) ≤ (2 : ℚ) ^ 52 * (2 : ℚ) ^ ((y : ℤ) - 1075) := by
      have e1 : (2 : ℚ) ^ 53 * (2 : ℚ) ^ ((x : ℤ) - 1075) = (2 : ℚ) ^ ((x : ℤ) - 1022) := by
        rw [← zpow_natCast, ← zpow_add₀ (by norm_num)]; congr 1; omega
      have e2 : (2 : ℚ) ^ 52 * (2 : ℚ) ^ ((y : ℤ) - 1075) = (2 : ℚ) ^ ((y : ℤ) - 1023) := by
        rw [← zpow_natCast, ← zpow_add₀ (by norm_num)]; congr 1; omega
      rw [e1, e2]
      exact zpow_le_zpow_right₀ (by norm_num) (by omega)
    calc _ < (2 : ℚ) ^ 53 * (2 : ℚ) ^ ((x : ℤ) - 1075) := mul_lt_mul_of_pos_right h1 hp
      _ ≤ (2 : ℚ) ^ 52 * (2 : ℚ) ^ ((y : ℤ) - 1075) := h3
      _ ≤ _ := mul_le_mul_of_nonneg_right h2 hq.le
  rcases Nat.lt_trichotomy ef e with h | h | h
  · have := key ef mf e a hmf ha h
    have h2 : (ef + 1) * 2 ^ 52 ≤ e * 2 ^ 52 := Nat.mul_le_mul_right _ h
    rw [Nat.add_mul] at h2
    constructor
    · intro _; omega
    · intro _; exact this.le
  · subst h
    have hp : (0 : ℚ) < (2 : ℚ) ^ ((ef : ℤ) - 1075) := by positivity
    constructor
    · intro h
      have h' := le_of_mul_le_mul_right h hp
      have : (2 ^ 52 + mf : ℕ) ≤ (2 ^ 52 + a : ℕ) := by exact_mod_cast h'
      omega
    · intro h
      have : ((2 ^ 52 + mf : ℕ) : ℚ) ≤ ((2 ^ 52 + a : ℕ) : ℚ) := by exact_mod_cast (by omega : 2 ^ 52 + mf ≤ 2 ^ 52 + a)
      exact mul_le_mul_of_nonneg_right this hp.le
  · have := key e a ef mf ha hmf h
    have h2 : (e + 1) * 2 ^ 52 ≤ ef * 2 ^ 52 := Nat.mul_le_mul_right _ h
    rw [Nat.add_mul] at h2
    constructor
    · intro h'; linarith
    · intro _; omega

/-- decoding a positive normal pattern `e·2^52 + a` -/
theorem decode_normal (e a : ℕ) (he : 1 ≤ e) (he' : e ≤ 2046) (ha : a < 2 ^ 52) :
    decode b64 (e * 2 ^ 52 + a) = .fin false (2 ^ 52 + a) ((e : ℤ) - 1075) := by
  have hb : (e * 2 ^ 52 + a).testBit 63 = false := by
    apply Nat.testBit_lt_two_pow; omega
  have hex : ((e * 2 ^ 52 + a) >>> 52) % 2 ^ 11 = e := by
    rw [Nat.shiftRight_eq_div_pow]; omega
  have hm : (e * 2 ^ 52 + a) % 2 ^ 52 = a := by omega
  simp only [decode, b64, hex, hm, Fmt.emaxField, Fmt.bias]
  have h1 : ¬ (e = 2 ^ 11 - 1) := by omega
  have h2 : ¬ (e = 0) := by omega
  simp only [h1, h2, ↓reduceIte, hb, Val.fin.injEq, true_and]
  omega

/-- **for `2^-64 ≤ p < 1` the IEEE comparison is the comparison of bit patterns** -/
theorem outcome_iff_bits (e a : ℕ) (he : 959 ≤ e) (he' : e ≤ 1022) (ha : a < 2 ^ 52) (w₁ w₂ : BitVec 64) :
    outcome (e * 2 ^ 52 + a) w₁ w₂ = true ↔ f01 w₁.toNat (w₂.toNat / 2 ^ 12) ≤ e * 2 ^ 52 + a := by
  unfold outcome
  rw [f01_decode, decode_normal e a (by omega) (by omega) ha, le_fin_iff]
  have hk := C11.clz64_le w₁
  have hm : w₂.toNat / 2 ^ 12 < 2 ^ 52 := by have := w₂.isLt; omega
  have hexp : (-53 - (clz64 w₁ : ℤ)) = ((1022 - clz64 w₁ : ℕ) : ℤ) - 1075 := by omega
  rw [hexp, normal_le_iff _ _ _ _ hm ha]
  have : f01 w₁.toNat (w₂.toNat / 2 ^ 12) = (1022 - clz64 w₁) * 2 ^ 52 + w₂.toNat / 2 ^ 12 := by
    rw [← f01_bits, C11.float01_bits64]
  rw [this]

example : Val.le (.fin false 1 0) (decode b64 0x3FF0000000000000) = true := by decide
example : Val.le (decode b64 0x8000000000000000) (.fin false 0 0) = true := by decide

end Urandom.C14
