import Urandom.Lemmas.Index
/-
C06 - index / choose / single pick an existing element, uniformly, None iff empty.

Model: `Urandom.index`, `Urandom.Seq.choose`, `Urandom.Seq.singleExact` (exact-size path of
`Random::single`) and `Urandom.Reservoir.single` (unknown-size path; see `Props/C06R.lean`),
tied to the code by the `index` / `choose` / `single` correspondence streams.
-/
namespace Urandom.C06
open Urandom Urandom.Seq UniformInt

/-- **`index(len) < len`** for every `len ≥ 1` and every word sequence (any generator). -/
theorem index_lt_len (len : Nat) (h0 : 0 < len) (hl : len < 2 ^ 64) (ws ws' : Words) (k : Nat)
    (h : index len ws = some (k, ws')) : k < len :=
  index_lt len h0 hl ws ws' k h

/-- `index(0)` is the raw word (documented: "an arbitrary value is returned directly from the Rng") -/
theorem index_zero (w : BitVec 64) (ws : Words) : index 0 (w :: ws) = some (w.toNat, ws) := by
  have : wordValue IntTy.usize w % IntTy.usize.M = w.toNat := by
    have h1 : wordValue IntTy.usize w = w.toNat := Nat.mod_eq_of_lt w.isLt
    rw [h1]; exact Nat.mod_eq_of_lt w.isLt
  rw [index, sample_full _ _ rfl, this]

/-- **Exactly uniform**: for `len ≥ 1` every position `m < len` is returned for exactly the
`⌊2^64 / len⌋` consecutive words starting at `lemireStart (2^64) len m`. -/
theorem index_uniform (len : Nat) (h0 : 0 < len) (hl : len < 2 ^ 64) (m : Nat) (hm : m < len) :
    ∀ v, v < 2 ^ 64 →
      (iteration IntTy.usize ⟨0, len⟩ len v = .inl m ↔
        (lemireStart (2 ^ 64) len m ≤ v ∧ v < lemireStart (2 ^ 64) len m + 2 ^ 64 / len)) := by
  intro v hv
  have := C04.sample_uniform IntTy.usize usize_valid ⟨0, len⟩ h0 hl (C04.M_pos _) len (Or.inl rfl) m hm v hv
  have e : wadd IntTy.usize.M 0 m = m := by
    unfold wadd; rw [Nat.zero_add]; exact Nat.mod_eq_of_lt (Nat.lt_trans hm hl)
  rw [e] at this
  exact this

/-- **`choose` / `choose_mut`**: `None` exactly for the empty slice, otherwise an element that is
in the slice (at the position `index` returned). -/
theorem choose_spec (a : Array Nat) (hs : a.size < 2 ^ 64) (ws ws' : Words) (r : Option Nat)
    (h : choose a ws = some (r, ws')) :
    (r = none ↔ a.size = 0) ∧ (∀ x, r = some x → x ∈ a) := by
  unfold choose at h
  split at h
  · simp at h
  · rename_i k ws1 hk
    injection h with h; injection h with h1 h2
    subst h1
    by_cases h0 : a.size = 0
    · have : a[k]? = none := by
        apply Array.getElem?_eq_none; omega
      simp [this, h0]
    · have hk' := index_lt a.size (by omega) hs ws ws1 k hk
      have : a[k]? = some a[k] := Array.getElem?_eq_getElem hk'
      rw [this]
      refine ⟨by simp [h0], fun x hx => ?_⟩
      injection hx with hx; subst hx
      exact Array.getElem_mem hk'

/-- **`single`, exact size hint**: with a truthful hint, `None` exactly for the empty collection,
otherwise the item at the position `index(len)` returned. -/
theorem singleExact_spec (items : List Nat) (hs : items.length < 2 ^ 64) (ws ws' : Words) (r : Option Nat)
    (h : singleExact items.length items ws = some (r, ws')) :
    (r = none ↔ items = []) ∧ (∀ x, r = some x → x ∈ items) := by
  unfold singleExact at h
  split at h
  · simp at h
  · rename_i k ws1 hk
    injection h with h; injection h with h1 h2
    subst h1
    by_cases h0 : items.length = 0
    · have hnil : items = [] := List.eq_nil_of_length_eq_zero h0
      subst hnil
      simp
    · have hk' := index_lt items.length (by omega) hs ws ws1 k hk
      have hmin : min items.length k = k := by omega
      rw [hmin]
      have : items[k]? = some items[k] := List.getElem?_eq_getElem hk'
      rw [this]
      refine ⟨by simp; intro e; simp [e] at h0, fun x hx => ?_⟩
      injection hx with hx; subst hx
      exact List.getElem_mem hk'

example : choose #[7, 8, 9] [0xFFFFFFFFFFFFFFFF#64] = some (some 9, []) := by decide

end Urandom.C06
