import Urandom.Lemmas.Index
import Urandom.Props.C14
import Urandom.Model.Reservoir
import Mathlib.Algebra.BigOperators.Intervals
import Mathlib.Tactic.FieldSimp
import Mathlib.Tactic.Linarith
import Mathlib.Tactic.Positivity
import Mathlib.Algebra.Order.Ring.Abs
import Mathlib.Algebra.Order.Field.Basic
/-
C06 - index / choose / single pick an existing element, uniformly, None iff empty.

Model: `Urandom.index`, `Urandom.Seq.choose`, `Urandom.Seq.singleExact` (exact-size path of
`Random::single`) and `Urandom.Reservoir.single` (unknown-size path; see `Props/C06R.lean`),
tied to the code by the `index` / `choose` / `single` correspondence streams.
-/
namespace Urandom.C06
open Urandom Urandom.Seq UniformInt

/-- **`index(len) < len`** for every `len ≥ 1` and every word sequence (any generator). -/
theorem index_lt_len (len : Nat) (h0 : 0 < len) (hl : len < 2 ^ 64) (ws ws' : Words) (k : Nat)
    (h : index len ws = some (k, ws')) : k < len :=
  index_lt len h0 hl ws ws' k h

/-- `index(0)` is the raw word (documented: "an arbitrary value is returned directly from the Rng") -/
theorem index_zero (w : BitVec 64) (ws : Words) : index 0 (w :: ws) = some (w.toNat, ws) := by
  have : wordValue IntTy.usize w % IntTy.usize.M = w.toNat := by
    have h1 : wordValue IntTy.usize w = w.toNat := Nat.mod_eq_of_lt w.isLt
    rw [h1]; exact Nat.mod_eq_of_lt w.isLt
  rw [index, sample_full _ _ rfl, this]

/-- **Exactly uniform**: for `len ≥ 1` every position `m < len` is returned for exactly the
`⌊2^64 / len⌋` consecutive words starting at `lemireStart (2^64) len m`. -/
theorem index_uniform (len : Nat) (h0 : 0 < len) (hl : len < 2 ^ 64) (m : Nat) (hm : m < len) :
    ∀ v, v < 2 ^ 64 →
      (iteration IntTy.usize ⟨0, len⟩ len v = .inl m ↔
        (lemireStart (2 ^ 64) len m ≤ v ∧ v < lemireStart (2 ^ 64) len m + 2 ^ 64 / len)) := by
  intro v hv
  have := C04.sample_uniform IntTy.usize usize_valid ⟨0, len⟩ h0 hl (C04.M_pos _) len (Or.inl rfl) m hm v hv
  have e : wadd IntTy.usize.M 0 m = m := by
    unfold wadd; rw [Nat.zero_add]; exact Nat.mod_eq_of_lt (Nat.lt_trans hm hl)
  rw [e] at this
  exact this

/-- **`choose` / `choose_mut`**: `None` exactly for the empty slice, otherwise an element that is
in the slice (at the position `index` returned). -/
theorem choose_spec (a : Array Nat) (hs : a.size < 2 ^ 64) (ws ws' : Words) (r : Option Nat)
    (h : choose a ws = some (r, ws')) :
    (r = none ↔ a.size = 0) ∧ (∀ x, r = some x → x ∈ a) := by
  unfold choose at h
  split at h
  · simp at h
  · rename_i k ws1 hk
    injection h with h; injection h with h1 h2
    subst h1
    by_cases h0 : a.size = 0
    · have : a[k]? = none := by
        apply Array.getElem?_eq_none; omega
      simp [this, h0]
    · have hk' := index_lt a.size (by omega) hs ws ws1 k hk
      have : a[k]? = some a[k] := Array.getElem?_eq_getElem hk'
      rw [this]
      refine ⟨by simp [h0], fun x hx => ?_⟩
      injection hx with hx; subst hx
      exact Array.getElem_mem hk'

/-- **`single`, exact size hint**: with a truthful hint, `None` exactly for the empty collection,
otherwise the item at the position `index(len)` returned. -/
theorem singleExact_spec (items : List Nat) (hs : items.length < 2 ^ 64) (ws ws' : Words) (r : Option Nat)
    (h : singleExact items.length items ws = some (r, ws')) :
    (r = none ↔ items = []) ∧ (∀ x, r = some x → x ∈ items) := by
  unfold singleExact at h
  split at h
  · simp at h
  · rename_i k ws1 hk
    injection h with h; injection h with h1 h2
    subst h1
    by_cases h0 : items.length = 0
    · have hnil : items = [] := List.eq_nil_of_length_eq_zero h0
      subst hnil
      simp
    · have hk' := index_lt items.length (by omega) hs ws ws1 k hk
      have hmin : min items.length k = k := by omega
      rw [hmin]
      have : items[k]? = some items[k] := List.getElem?_eq_getElem hk'
      rw [this]
      refine ⟨by simp; intro e; simp [e] at h0, fun x hx => ?_⟩
      injection hx with hx; subst hx
      exact List.getElem_mem hk'

/-! ### `single` when the size is unknown: reservoir sampling -/

open Urandom.Reservoir in
/-- the result is the previous candidate or one of the remaining items -/
theorem loop_mem : ∀ (items : List Nat) (denom : Nat) (result : Option Nat) (ws ws' : Words) (r : Option Nat),
    Reservoir.loop items denom result ws = some (r, ws') → r = result ∨ ∃ x ∈ items, r = some x := by
  intro items
  induction items with
  | nil => intro denom result ws ws' r h; simp [Reservoir.loop] at h; exact Or.inl h.1.symm
  | cons item rest ih =>
    intro denom result ws ws' r h
    simp only [Reservoir.loop] at h
    split at h
    · simp at h
    · rename_i take ws1 _
      rcases ih _ _ _ _ _ h with e | ⟨x, hx, e⟩
      · cases take
        · left; simpa using e
        · right; exact ⟨item, List.mem_cons_self, by simpa using e⟩
      · right; exact ⟨x, List.mem_cons_of_mem _ hx, e⟩

/-- once a candidate is held the result is never `None` again -/
theorem loop_some : ∀ (items : List Nat) (denom : Nat) (x : Nat) (ws ws' : Words) (r : Option Nat),
    Reservoir.loop items denom (some x) ws = some (r, ws') → r.isSome = true := by
  intro items
  induction items with
  | nil => intro denom x ws ws' r h; simp [Reservoir.loop] at h; rw [← h.1]; rfl
  | cons item rest ih =>
    intro denom x ws ws' r h
    simp only [Reservoir.loop] at h
    split at h
    · simp at h
    · rename_i take ws1 _
      cases take <;> exact ih _ _ _ _ _ h

/-- the first item is always taken: `chance(1.0 / 1.0)` is certain (C14) -/
theorem first_item_taken (w₁ w₂ : BitVec 64) (ws : Words) :
    bernoulli (IEEE.div IEEE.b64 Reservoir.one Reservoir.one) (w₁ :: w₂ :: ws) = some (true, ws) := by
  have e : IEEE.div IEEE.b64 Reservoir.one Reservoir.one = Reservoir.one := by decide +kernel
  rw [e, C14.bernoulli_eq]
  have := C14.certain Reservoir.one (by decide +kernel) w₁ w₂
  unfold C14.outcome at this
  rw [this]

/-- **`single` on an iterator of unknown size returns `None` exactly for the empty collection and
otherwise an element that really is in it** (whenever the word source does not run dry) -/
theorem single_reservoir_spec (items : List Nat) (ws ws' : Words) (r : Option Nat)
    (h : Reservoir.single items ws = some (r, ws')) :
    (r = none ↔ items = []) ∧ (∀ x, r = some x → x ∈ items) := by
  unfold Reservoir.single at h
  constructor
  · cases items with
    | nil => simp [Reservoir.loop] at h; simp [h.1.symm]
    | cons item rest =>
      simp only [Reservoir.loop] at h
      match ws, h with
      | [], h => simp [bernoulli, Float01.sample64] at h
      | [_], h => simp [bernoulli, Float01.sample64] at h
      | w₁ :: w₂ :: ws1, h =>
        rw [first_item_taken] at h
        simp only [↓reduceIte] at h
        have := loop_some rest _ item ws1 ws' r h
        constructor
        · intro e; rw [e] at this; simp at this
        · intro e; simp at e
  · intro x hx
    rcases loop_mem items _ none ws ws' r h with e | ⟨y, hy, e⟩
    · rw [hx] at e; simp at e
    · rw [hx] at e; injection e with e; rw [e]; exact hy

/-- **Exact-arithmetic uniformity of the reservoir**: if item `i` (0-based) replaces the candidate
with probability exactly `1/(i+1)`, every item `j < n` is the final result with probability exactly
`1/n`: `1/(j+1) · ∏_{i=j+1}^{n-1} (1 − 1/(i+1)) = 1/n`. -/
theorem reservoir_exact (n j : ℕ) (hj : j < n) :
    (1 / ((j : ℚ) + 1)) * ∏ i ∈ Finset.Ico (j + 1) n, (1 - 1 / ((i : ℚ) + 1)) = 1 / (n : ℚ) := by
  induction n with
  | zero => omega
  | succ n ih =>
    by_cases hjn : j = n
    · subst hjn
      simp
    · have hlt : j < n := by omega
      rw [Finset.prod_Ico_succ_top (by omega), ← mul_assoc, ih hlt]
      have hn : (n : ℚ) ≠ 0 := by exact_mod_cast (by omega : n ≠ 0)
      have hn1 : (n : ℚ) + 1 ≠ 0 := by positivity
      push_cast
      field_simp
      ring

/-- **Error propagation through the reservoir**: if item `i ≥ 1` replaces the candidate with a
probability `q i` that is within a relative `ε` of `1/(i+1)` (and item `0` is taken with probability
in the same band - in the code it is certain: `chance(1.0)`), then item `j` is the final result with
probability within the factor band `[(1-ε)^(n-j), (1+ε)^(n-j)]` of `1/n`. -/
theorem reservoir_perturbed (q : ℕ → ℚ) (ε : ℚ) (hε0 : 0 ≤ ε) (hε1 : ε ≤ 1)
    (hq : ∀ i, |q i - 1 / ((i : ℚ) + 1)| ≤ ε / ((i : ℚ) + 1)) (j : ℕ) :
    ∀ n, j < n →
      (1 - ε) ^ (n - j) / (n : ℚ) ≤ q j * ∏ i ∈ Finset.Ico (j + 1) n, (1 - q i) ∧
      q j * ∏ i ∈ Finset.Ico (j + 1) n, (1 - q i) ≤ (1 + ε) ^ (n - j) / (n : ℚ) := by
  intro n hj
  induction n with
  | zero => omega
  | succ n ih =>
    by_cases hjn : j = n
    · subst hjn
      have h := abs_sub_le_iff.1 (hq j)
      have hj1 : (0 : ℚ) < (j : ℚ) + 1 := by positivity
      simp only [Finset.Ico_self, Finset.prod_empty, mul_one, Nat.add_sub_cancel_left, pow_one]
      push_cast
      constructor
      · rw [div_le_iff₀ hj1]
        have : q j * ((j : ℚ) + 1) - 1 ≥ -ε := by
          have h2 := h.2
          have : 1 / ((j : ℚ) + 1) - q j ≤ ε / ((j : ℚ) + 1) := h2
          rw [div_sub' (hj1.ne'), div_le_div_iff_of_pos_right hj1] at this
          linarith
        linarith
      · rw [le_div_iff₀ hj1]
        have h1 := h.1
        rw [sub_le_iff_le_add, ← add_div, le_div_iff₀ hj1] at h1
        linarith
    · have hlt : j < n := by omega
      obtain ⟨ihlo, ihhi⟩ := ih hlt
      rw [Finset.prod_Ico_succ_top (by omega), ← mul_assoc]
      have hn : (0 : ℚ) < (n : ℚ) := by exact_mod_cast (by omega : 0 < n)
      have hn1 : (0 : ℚ) < (n : ℚ) + 1 := by positivity
      -- the new factor `1 - q n` lies in the band around `n/(n+1)`
      have h := abs_sub_le_iff.1 (hq n)
      have hflo : (1 - ε) * ((n : ℚ) / ((n : ℚ) + 1)) ≤ 1 - q n := by
        have h1 := h.1
        have e : (1 - ε) * ((n : ℚ) / ((n : ℚ) + 1)) = 1 - 1 / ((n : ℚ) + 1) - ε * (n : ℚ) / ((n : ℚ) + 1) := by
          field_simp; ring
        have e2 : ε / ((n : ℚ) + 1) ≤ ε * (n : ℚ) / ((n : ℚ) + 1) := by
          apply div_le_div_of_nonneg_right _ hn1.le
          have : (1 : ℚ) ≤ n := by exact_mod_cast (by omega : 1 ≤ n)
          nlinarith
        rw [e]; linarith
      have hfhi : 1 - q n ≤ (1 + ε) * ((n : ℚ) / ((n : ℚ) + 1)) := by
        have h2 := h.2
        have e : (1 + ε) * ((n : ℚ) / ((n : ℚ) + 1)) = 1 - 1 / ((n : ℚ) + 1) + ε * (n : ℚ) / ((n : ℚ) + 1) := by
          field_simp; ring
        have e2 : ε / ((n : ℚ) + 1) ≤ ε * (n : ℚ) / ((n : ℚ) + 1) := by
          apply div_le_div_of_nonneg_right _ hn1.le
          have : (1 : ℚ) ≤ n := by exact_mod_cast (by omega : 1 ≤ n)
          nlinarith
        rw [e]; linarith
      have hf0 : 0 ≤ (1 - ε) * ((n : ℚ) / ((n : ℚ) + 1)) := mul_nonneg (by linarith) (by positivity)
      have hP0 : 0 ≤ (1 - ε) ^ (n - j) / (n : ℚ) := by
        apply div_nonneg (pow_nonneg (by linarith) _) hn.le
      have hsub : n + 1 - j = (n - j) + 1 := by omega
      rw [hsub, pow_succ, pow_succ]
      push_cast
      constructor
      · calc (1 - ε) ^ (n - j) * (1 - ε) / ((n : ℚ) + 1)
            = ((1 - ε) ^ (n - j) / (n : ℚ)) * ((1 - ε) * ((n : ℚ) / ((n : ℚ) + 1))) := by field_simp
          _ ≤ (q j * ∏ i ∈ Finset.Ico (j + 1) n, (1 - q i)) * (1 - q n) :=
              mul_le_mul ihlo hflo hf0 (le_trans hP0 ihlo)
      · calc (q j * ∏ i ∈ Finset.Ico (j + 1) n, (1 - q i)) * (1 - q n)
            ≤ ((1 + ε) ^ (n - j) / (n : ℚ)) * ((1 + ε) * ((n : ℚ) / ((n : ℚ) + 1))) :=
              mul_le_mul ihhi hfhi (le_trans hf0 hflo) (le_trans (le_trans hP0 ihlo) ihhi)
          _ = (1 + ε) ^ (n - j) * (1 + ε) / ((n : ℚ) + 1) := by field_simp

/-- the band as an absolute bound: with `m = n - j ≤ n` factors and `2·m·ε ≤ 1`,
`|P − 1/n| ≤ 2·m·ε/n ≤ 2ε` -/
theorem band_abs (ε : ℚ) (hε0 : 0 ≤ ε) (m : ℕ) (hm : 2 * (m : ℚ) * ε ≤ 1) :
    1 - (m : ℚ) * ε ≤ (1 - ε) ^ m ∧ (1 + ε) ^ m ≤ 1 + 2 * (m : ℚ) * ε := by
  constructor
  · rcases Nat.eq_zero_or_pos m with h | h
    · subst h; simp
    · have hm1 : (1 : ℚ) ≤ m := by exact_mod_cast h
      have hε1 : ε ≤ 1 := by nlinarith
      have hb := one_add_mul_le_pow (R := ℚ) (a := -ε) (by linarith) m
      have e1 : 1 + (m : ℚ) * -ε = 1 - (m : ℚ) * ε := by ring
      have e2 : (1 : ℚ) + -ε = 1 - ε := by ring
      rw [e1, e2] at hb
      exact hb
  · induction m with
    | zero => simp
    | succ k ih =>
      have hk : 2 * (k : ℚ) * ε ≤ 1 := by push_cast at hm; nlinarith
      have ih' := ih hk
      have hk0 : (0 : ℚ) ≤ k := by positivity
      rw [pow_succ]
      push_cast at hm ⊢
      have h1 : (1 + ε) ^ k * (1 + ε) ≤ (1 + 2 * (k : ℚ) * ε) * (1 + ε) :=
        mul_le_mul_of_nonneg_right ih' (by linarith)
      nlinarith [mul_nonneg hk0 (mul_nonneg hε0 hε0)]

/-- **the floating-point reservoir is uniform to within `2ε`**: under the hypothesis of
`reservoir_perturbed` and `2·n·ε ≤ 1`, `|P(item j) − 1/n| ≤ 2ε`.  With `ε = 2^-51` (C14: `chance(p)` has
probability `p` to within `p·2^-52` for `p ≥ 2^-64`, and `p = fl(1/denom)` is within `2^-53` relative of
`1/denom`, so each step is within `2^-51` relative for collections up to `2^11` items; beyond that the
absolute `2^-64` term of C14 enters and `ε` grows to `denom·2^-64`) this is the property's `2^-50`.
That each step's probability *is* such a `q i` is C14's counting theorem applied to the word pair of
that step; the product form is the independence of disjoint word pairs under the uniform measure on
word sequences, which is the definition of the measure here (not a separate theorem). -/
theorem reservoir_fp_bound (q : ℕ → ℚ) (ε : ℚ) (hε0 : 0 ≤ ε) (hε1 : ε ≤ 1)
    (hq : ∀ i, |q i - 1 / ((i : ℚ) + 1)| ≤ ε / ((i : ℚ) + 1)) (n j : ℕ) (hj : j < n) (hn : 2 * (n : ℚ) * ε ≤ 1) :
    |q j * ∏ i ∈ Finset.Ico (j + 1) n, (1 - q i) - 1 / (n : ℚ)| ≤ 2 * ε := by
  obtain ⟨hlo, hhi⟩ := reservoir_perturbed q ε hε0 hε1 hq j n hj
  have hnpos : (0 : ℚ) < n := by exact_mod_cast (by omega : 0 < n)
  have hmle : ((n - j : ℕ) : ℚ) ≤ n := by exact_mod_cast Nat.sub_le n j
  have hm : 2 * ((n - j : ℕ) : ℚ) * ε ≤ 1 := by nlinarith
  obtain ⟨b1, b2⟩ := band_abs ε hε0 (n - j) hm
  have hm0 : (0 : ℚ) ≤ ((n - j : ℕ) : ℚ) := by positivity
  rw [abs_sub_le_iff]
  constructor
  · have : (1 + ε) ^ (n - j) / (n : ℚ) ≤ (1 + 2 * ((n - j : ℕ) : ℚ) * ε) / n := div_le_div_of_nonneg_right b2 hnpos.le
    have e : (1 + 2 * ((n - j : ℕ) : ℚ) * ε) / n = 1 / n + 2 * ε * (((n - j : ℕ) : ℚ) / n) := by field_simp
    have : ((n - j : ℕ) : ℚ) / n ≤ 1 := (div_le_one hnpos).2 hmle
    nlinarith
  · have : (1 - ((n - j : ℕ) : ℚ) * ε) / n ≤ (1 - ε) ^ (n - j) / (n : ℚ) := div_le_div_of_nonneg_right b1 hnpos.le
    have e : (1 - ((n - j : ℕ) : ℚ) * ε) / n = 1 / n - ε * (((n - j : ℕ) : ℚ) / n) := by field_simp
    have : ((n - j : ℕ) : ℚ) / n ≤ 1 := (div_le_one hnpos).2 hmle
    nlinarith

/-- non-vacuity: the exact probabilities satisfy the hypothesis with `ε = 0` -/
example : ∀ i : ℕ, |(fun i : ℕ => 1 / ((i : ℚ) + 1)) i - 1 / ((i : ℚ) + 1)| ≤ (0 : ℚ) / ((i : ℚ) + 1) := by
  intro i; simp

example : choose #[7, 8, 9] [0xFFFFFFFFFFFFFFFF#64] = some (some 9, []) := by decide

end Urandom.C06
