import Urandom.Model.Standard
import Urandom.Generated.ScalarStandard
/-!
# C13 for the `impl_standard_dist!` invocations as translated from the source

`tools/extract_scalar.py` reads every invocation `impl_standard_dist! { <ty>, rand => <expression> }` of src/distr/standard.rs (bool, the
twelve plain integer types of the 64-bit target, f32, f64) and translates the expression into a function of the draws it makes, in
evaluation order, together with the list of the draw methods.  The model's `primSample` - what `Props/C13.lean` proves bijective / in range -
is proved here to be exactly these functions of exactly these draws, for every word: which method is drawn (a 32-bit or a 64-bit draw, how
many), which bits are kept by the cast, the sign test for `bool`, low word first for the 128-bit types.
`Alnum` (src/distr/alnum.rs): the table and one trip round its loop.
`char`: the gap constant, the bounds of the uniform draw, the gap removal, and (checked by the translator) the two conversions.
(The `NonZero*` loops, tuples and arrays stay tied by the correspondence and the preimage counts.)
-/
namespace Urandom.C13
open Urandom Urandom.Standard Urandom.Generated

theorem bool_translated (c : Bool) (w : BitVec 64) (ws : Words) :
    Scalar.standard.std_bool_draws = ["next_u32"] ∧
    primSample c .bool (w :: ws) = some ((if Scalar.standard.std_bool (w.setWidth 32) then 1 else 0), ws) := by
  refine ⟨rfl, ?_⟩
  have hlt := (w.setWidth 32).isLt
  have h : Scalar.standard.std_bool (w.setWidth 32) = decide ((w.setWidth 32).toNat ≥ 2 ^ 31) := by
    unfold Scalar.standard.std_bool BitVec.slt
    rw [BitVec.toInt_eq_toNat_cond]
    simp only [BitVec.toInt_zero]
    by_cases h31 : (w.setWidth 32).toNat ≥ 2 ^ 31
    · have : ¬ (2 * (w.setWidth 32).toNat < 2 ^ 32) := by omega
      simp only [this, if_false, h31, decide_true, decide_eq_true_eq]; omega
    · have : 2 * (w.setWidth 32).toNat < 2 ^ 32 := by omega
      simp only [this, if_true, h31, decide_false, decide_eq_false_iff_not]; omega
  simp only [primSample, Mock.u32, h]
  by_cases h31 : (w.setWidth 32).toNat ≥ 2 ^ 31 <;> simp [h31]

/-- the integer types of at most 32 bits: ONE `next_u32`, truncated -/
theorem int_le32_translated (c sg : Bool) (w : BitVec 64) (ws : Words) :
    Scalar.standard.std_i8_draws = ["next_u32"] ∧ Scalar.standard.std_u8_draws = ["next_u32"] ∧
    Scalar.standard.std_i16_draws = ["next_u32"] ∧ Scalar.standard.std_u16_draws = ["next_u32"] ∧
    Scalar.standard.std_i32_draws = ["next_u32"] ∧ Scalar.standard.std_u32_draws = ["next_u32"] ∧
    primSample c (.int 8 sg) (w :: ws) = some ((Scalar.standard.std_i8 (w.setWidth 32)).toNat, ws) ∧
    primSample c (.int 8 sg) (w :: ws) = some ((Scalar.standard.std_u8 (w.setWidth 32)).toNat, ws) ∧
    primSample c (.int 16 sg) (w :: ws) = some ((Scalar.standard.std_i16 (w.setWidth 32)).toNat, ws) ∧
    primSample c (.int 16 sg) (w :: ws) = some ((Scalar.standard.std_u16 (w.setWidth 32)).toNat, ws) ∧
    primSample c (.int 32 sg) (w :: ws) = some ((Scalar.standard.std_i32 (w.setWidth 32)).toNat, ws) ∧
    primSample c (.int 32 sg) (w :: ws) = some ((Scalar.standard.std_u32 (w.setWidth 32)).toNat, ws) := by
  have hlt := (w.setWidth 32).isLt
  refine ⟨rfl, rfl, rfl, rfl, rfl, rfl, ?_, ?_, ?_, ?_, ?_, ?_⟩ <;>
    simp [primSample, intSample, Mock.u32, Scalar.standard.std_i8, Scalar.standard.std_u8, Scalar.standard.std_i16,
      Scalar.standard.std_u16, Scalar.standard.std_i32, Scalar.standard.std_u32, BitVec.toNat_setWidth] <;> omega

/-- the 64-bit types: ONE `next_u64`, as it is -/
theorem int_64_translated (c sg : Bool) (w : BitVec 64) (ws : Words) :
    Scalar.standard.std_i64_draws = ["next_u64"] ∧ Scalar.standard.std_u64_draws = ["next_u64"] ∧
    Scalar.standard.std_isize_draws = ["next_u64"] ∧ Scalar.standard.std_usize_draws = ["next_u64"] ∧
    primSample c (.int 64 sg) (w :: ws) = some ((Scalar.standard.std_i64 w).toNat, ws) ∧
    primSample c (.int 64 sg) (w :: ws) = some ((Scalar.standard.std_u64 w).toNat, ws) ∧
    primSample c (.int 64 sg) (w :: ws) = some ((Scalar.standard.std_isize w).toNat, ws) ∧
    primSample c (.int 64 sg) (w :: ws) = some ((Scalar.standard.std_usize w).toNat, ws) := by
  have hlt := w.isLt
  refine ⟨rfl, rfl, rfl, rfl, ?_, ?_, ?_, ?_⟩ <;>
    simp [primSample, intSample, Mock.u64, Scalar.standard.std_i64, Scalar.standard.std_u64, Scalar.standard.std_isize,
      Scalar.standard.std_usize] <;> omega

/-- the 128-bit types: TWO `next_u64`, the first is the LOW half -/
theorem int_128_translated (c sg : Bool) (lo hi : BitVec 64) (ws : Words) :
    Scalar.standard.std_i128_draws = ["next_u64", "next_u64"] ∧ Scalar.standard.std_u128_draws = ["next_u64", "next_u64"] ∧
    primSample c (.int 128 sg) (lo :: hi :: ws) = some ((Scalar.standard.std_i128 lo hi).toNat, ws) ∧
    primSample c (.int 128 sg) (lo :: hi :: ws) = some ((Scalar.standard.std_u128 lo hi).toNat, ws) := by
  have h1 := lo.isLt
  have h2 := hi.isLt
  have e : ((lo.setWidth 128) ||| ((hi.setWidth 128) <<< 64)).toNat = lo.toNat ||| (hi.toNat <<< 64) := by
    rw [BitVec.toNat_or, BitVec.toNat_shiftLeft, BitVec.toNat_setWidth, BitVec.toNat_setWidth]
    have a : lo.toNat % 2 ^ 128 = lo.toNat := Nat.mod_eq_of_lt (by omega)
    have b : hi.toNat % 2 ^ 128 = hi.toNat := Nat.mod_eq_of_lt (by omega)
    have d : (hi.toNat <<< 64) % 2 ^ 128 = hi.toNat <<< 64 := by
      apply Nat.mod_eq_of_lt
      rw [Nat.shiftLeft_eq]
      have : hi.toNat * 2 ^ 64 < 2 ^ 64 * 2 ^ 64 := Nat.mul_lt_mul_of_pos_right h2 (by decide)
      omega
    rw [a, b, d]
  refine ⟨rfl, rfl, ?_, ?_⟩ <;>
    simp [primSample, intSample, Scalar.standard.std_i128, Scalar.standard.std_u128, e]

/-- `f32` / `f64`: ONE `next_f32` / `next_f64` (the generator's own float draw), as it is -/
theorem float_translated (c : Bool) (w : BitVec 64) (ws : Words) :
    Scalar.standard.std_f32_draws = ["next_f32"] ∧ Scalar.standard.std_f64_draws = ["next_f64"] ∧
    primSample c .f32 (w :: ws) = some ((Scalar.standard.std_f32 (rngF32 (w.setWidth 32))).toNat, ws) ∧
    primSample c .f64 (w :: ws) = some ((Scalar.standard.std_f64 (rngF64 w)).toNat, ws) := by
  refine ⟨rfl, rfl, ?_, ?_⟩ <;>
    simp [primSample, Mock.f32, Mock.f64, Scalar.standard.std_f32, Scalar.standard.std_f64]

/-- the table of `Alnum` as translated (the bytes of the literal) is the model's table -/
theorem alnum_table_translated : Alnum.table = Scalar.alnum.alnum_table.map Char.ofNat := by decide

/-- **one trip round `Alnum`'s loop as translated is the model's**: ONE `next_u32`, its top six bits index the table, an index of 62 or 63
goes round again (the translated index is never out of bounds) -/
theorem alnum_translated (w : BitVec 64) (ws : Words) :
    Scalar.alnum.alnum_draws = ["next_u32"] ∧
    Alnum.sample (w :: ws) =
      (match Scalar.alnum.alnum_iter (w.setWidth 32) with
       | some (some c) => some (Char.ofNat c, ws)
       | some none => none
       | none => Alnum.sample ws) := by
  refine ⟨rfl, ?_⟩
  have hl : Scalar.alnum.alnum_table.length = 62 := by decide
  have hl' : Alnum.table.length = 62 := by decide
  have hx := (w.setWidth 32).isLt
  have hv : (((w.setWidth 32) >>> (32 - 6)).setWidth 64).toNat = (w.setWidth 32).toNat >>> 26 := by
    simp only [BitVec.toNat_setWidth, BitVec.toNat_ushiftRight]
    have : (w.setWidth 32).toNat >>> 26 < 2 ^ 64 := by
      rw [Nat.shiftRight_eq_div_pow]; omega
    simp only [Nat.reduceSub] at *
    omega
  rw [Alnum.sample]
  unfold Scalar.alnum.alnum_iter
  simp only [BitVec.lt_def, hv, hl, hl']
  have h62 : (BitVec.ofNat 64 62).toNat = 62 := by decide
  simp only [h62]
  by_cases h : (w.setWidth 32).toNat >>> 26 < 62
  · simp only [h, dite_true, if_true]
    have hb : (w.setWidth 32).toNat >>> 26 < Scalar.alnum.alnum_table.length := by rw [hl]; exact h
    rw [List.getElem?_eq_getElem hb]
    simp only [alnum_table_translated, List.getElem_map]
  · simp only [h, dite_false, if_false]

/-- **the `char` sampler as translated**: `GAP_SIZE = 0xE000 - 0xD800`, the draw is `Uniform::new(GAP_SIZE, 0x11_0000)` (exclusive, on u32) -
the model's `tryNew IntTy.u32 GAP_SIZE 0x110000 false` -, and for every value of that range the gap removal is the model's `charOf`
(the subtraction cannot wrap there) -/
theorem char_translated :
    Scalar.standard.char_gap.toNat = GAP_SIZE ∧
    Scalar.standard.char_bounds = (BitVec.ofNat 32 GAP_SIZE, BitVec.ofNat 32 0x110000) ∧
    ∀ n : BitVec 32, GAP_SIZE ≤ n.toNat → (Scalar.standard.char_of n).toNat = charOf n.toNat := by
  refine ⟨by decide, by decide, ?_⟩
  intro n hn
  have hg : Scalar.standard.char_gap = 2048#32 := by decide
  have hG : GAP_SIZE = 2048 := by decide
  unfold Scalar.standard.char_of charOf
  rw [hg, hG] at *
  by_cases h : n < 57344#32
  · have h' : n.toNat < 0xE000 := by rw [BitVec.lt_def] at h; exact h
    have hle : 2048#32 ≤ n := by rw [BitVec.le_def]; exact hn
    simp only [h, if_true, h', BitVec.toNat_sub_of_le hle]
    rfl
  · have h' : ¬ n.toNat < 0xE000 := by rw [BitVec.lt_def] at h; exact h
    simp only [h, if_false, h']

end Urandom.C13
