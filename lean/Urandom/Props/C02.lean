import Urandom.Model.ChaCha
import Urandom.Lemmas.ChaChaBase
/-
C02 - ChaCha generators emit the genuine ChaCha keystream on every backend.

Model: `Urandom.ChaCha.block` is the row-wise algorithm coded in `chacha/sse2.rs`, `chacha/slp.rs`
(and, two blocks per register, `chacha/avx2.rs`); tied to the three back ends by the `chacha` and
`slpblock` correspondence streams (SSE2 build, AVX2 build, the portable back end through the hook).
Specification: `specBlock`, Bernstein's block function (column rounds, diagonal rounds,
feed-forward) with the 64-bit counter in words 12-13 and the 64-bit stream id in words 14-15.
-/
namespace Urandom.C02
open Urandom.ChaCha

/-! ### data movement: row-wise double round = column round then diagonal round
(proofs in `Lemmas/ChaChaBase.lean`) -/

/-- for **any** quarter round: quarter round on rows, rotate rows 1/2/3, quarter round, rotate back
(written `rotate_matrix!(a, d, c, b)` in the code) is the column round followed by the diagonal round -/
theorem rowDouble_eq_spec {W : Type} (qr : W → W → W → W → W × W × W × W) (s : St W) :
    (let r := toRows s; rowDouble qr r.1 r.2.1 r.2.2.1 r.2.2.2) = toRows (specDouble qr s) := ChaChaBase.rowDouble_eq_spec qr s

theorem ofRows_toRows {W : Type} (s : St W) : ofRows (toRows s) = s := ChaChaBase.ofRows_toRows s

theorem iter_rowDouble {W : Type} (qr : W → W → W → W → W × W × W × W) (k : Nat) (s : St W) :
    iterN (fun (r : Row W × Row W × Row W × Row W) => rowDouble qr r.1 r.2.1 r.2.2.1 r.2.2.2) k (toRows s)
      = toRows (iterN (specDouble qr) k s) := ChaChaBase.iter_rowDouble qr k s

/-- **every block the back ends compute is Bernstein's block function** of its initial matrix,
for every round count -/
theorem rowBlock_eq_spec (N : Nat) (w : St W32) : rowBlock N w = specBlockOf N w := ChaChaBase.rowBlock_eq_spec N w

/-! ### the 64-bit counter and stream id as two 32-bit words -/

theorem lo32_join64 (lo hi : W32) : lo32 (join64 lo hi) = lo := ChaChaBase.lo32_join64 lo hi
theorem hi32_join64 (lo hi : W32) : hi32 (join64 lo hi) = hi := ChaChaBase.hi32_join64 lo hi
theorem join64_split (x : BitVec 64) : join64 (lo32 x) (hi32 x) = x := ChaChaBase.join64_split x
theorem allOnes32 (i : Nat) (hi : i < 32) : (4294967295#32)[i] = true := ChaChaBase.allOnes32 i hi

/-- `get_counter(set_counter(c)) = c` for every 64-bit value - in particular the carry out of the
low 32-bit word into the high word is right -/
theorem getCounter_setCounter (s : State) (c : BitVec 64) : (s.setCounter c).getCounter = c := ChaChaBase.getCounter_setCounter s c
theorem setStream_getStream (s : State) : s.setStream s.getStream = s := ChaChaBase.setStream_getStream s
theorem getStream_setCounter (s : State) (c : BitVec 64) : (s.setCounter c).getStream = s.getStream := rfl

/-! ### the property -/

/-- **The four blocks of a batch are the keystream blocks at counters `c, c+1, c+2, c+3`
(mod 2^64) of the generator's key and stream id**, for every key, counter, stream id and round count. -/
theorem batch_is_keystream (N : Nat) (s : State) :
    (block N s).1.1 = specBlock N s s.getCounter s.getStream ∧
    (block N s).1.2.1 = specBlock N s (s.getCounter + 1) s.getStream ∧
    (block N s).1.2.2.1 = specBlock N s (s.getCounter + 2) s.getStream ∧
    (block N s).1.2.2.2 = specBlock N s (s.getCounter + 3) s.getStream := by
  have h0 : s.getState = ((s.setCounter s.getCounter).setStream s.getStream).getState := by
    cases s; simp [State.getState, State.setCounter, State.setStream, State.getCounter, State.getStream, lo32_join64, hi32_join64]
  have hk : ∀ k, (s.addCounter k).getState = ((s.setCounter (s.getCounter + k)).setStream s.getStream).getState := by
    intro k
    cases s; simp [State.addCounter, State.getState, State.setCounter, State.setStream, State.getStream, lo32_join64, hi32_join64]
  simp only [block, rowBlock_eq_spec, specBlock]
  exact ⟨by rw [← h0], by rw [← hk], by rw [← hk], by rw [← hk]⟩

/-- **a batch advances the counter by exactly 4 modulo 2^64** and changes nothing else -/
theorem batch_advances (N : Nat) (s : State) :
    (block N s).2.getCounter = s.getCounter + 4 ∧ (block N s).2.getStream = s.getStream ∧
    (block N s).2 = s.setCounter (s.getCounter + 4) := by
  simp [block, getCounter_setCounter, getStream_setCounter]

/-- **successive batches are consecutive**: the next batch starts at counter `c + 4` -/
theorem next_batch_is_keystream (N : Nat) (s : State) :
    (block N (block N s).2).1.1 = specBlock N s (s.getCounter + 4) s.getStream := by
  have h := (batch_is_keystream N (block N s).2).1
  rw [h]
  obtain ⟨h1, h2, h3⟩ := batch_advances N s
  rw [h1, h2]
  -- the key material is unchanged
  simp only [specBlock, h3]
  cases s; rfl

/-- **`from_seed` uses the documented layout**: key = the two seed halves repeated, counter 1,
stream 0 - a function of the seed only -/
theorem fromSeed_layout (seed : BitVec 64) :
    fromSeed seed = State.new (lo32 seed) (hi32 seed) (lo32 seed) (hi32 seed) (lo32 seed) (hi32 seed) (lo32 seed) (hi32 seed) 1#64 0#64 := by
  have : lo32 (seed &&& 0xffffffff#64) = lo32 seed := by
    unfold lo32
    ext i hi
    simp
    intro _
    exact allOnes32 i hi
  simp only [fromSeed, this]

theorem fromSeed_counter_stream (seed : BitVec 64) :
    (fromSeed seed).getCounter = 1#64 ∧ (fromSeed seed).getStream = 0#64 := by
  rw [fromSeed_layout]
  constructor <;> simp [State.new, State.getCounter, State.getStream, join64_split]

/-! ### Anchors (tests, labelled as such): published vectors -/

/-- RFC 7539 §2.3.2 (key 00..1f, block counter 1, nonce 00:00:00:09:00:00:00:4a:00:00:00:00;
the IETF layout's nonce words are words 13-15 here) -/
theorem kat_rfc7539 :
    specBlockOf 20 ⟨0x61707865#32, 0x3320646e#32, 0x79622d32#32, 0x6b206574#32,
      0x03020100#32, 0x07060504#32, 0x0b0a0908#32, 0x0f0e0d0c#32, 0x13121110#32, 0x17161514#32, 0x1b1a1918#32, 0x1f1e1d1c#32,
      0x00000001#32, 0x09000000#32, 0x4a000000#32, 0x00000000#32⟩ =
    ⟨0xe4e7f110#32, 0x15593bd1#32, 0x1fdd0f50#32, 0xc47120a3#32, 0xc7f4d1c7#32, 0x0368c033#32, 0x9aaa2204#32, 0x4e6cd4c3#32,
     0x466482d2#32, 0x09aa9f07#32, 0x05d7c214#32, 0xa2028bd9#32, 0xd19c12b5#32, 0xb94e16de#32, 0xe883d0cb#32, 0x4e3c50a2#32⟩ := by
  decide +kernel

/-- the all-zero key/counter/nonce ChaCha20 vector (`76b8e0ad a0f13d90 …`), through the model's batch -/
theorem kat_zero_key :
    ((block 20 (State.new 0 0 0 0 0 0 0 0 0#64 0#64)).1.1.words.take 4) =
      [0xade0b876#32, 0x903df1a0#32, 0xe56a5d40#32, 0x28bd8653#32] := by
  decide +kernel

end Urandom.C02
