import Urandom.Generated.FloatUniform
/-!
# C12 for `UniformFloat` as translated from the source

`tools/extract_float.py` translates the CURRENT text of `try_new` and `sample` of `UniformFloat<f32>` and `UniformFloat<f64>`
(src/distr/uniform/float.rs) into definitions over the vocabulary of the IEEE model: `scale = high - low`, `base = low - scale`, the non-finite
check that exists under `debug_assertions` only (the parameter `checked`), the stored fields, and the value `sample` makes of its ONE unit-float
draw (`next_f32` resp. `next_f64`) - two roundings, `u * scale + base`.  `try_new_inclusive` must forward to `try_new`.  The model's
`UniformFloat.tryNew` / `sampleU` - which `Props/C12.lean` is about (including the known findings D2: the property is false of both) - are
proved EQUAL to the translations, so the findings and the theorems are about what the code computes.
-/
namespace Urandom.C12
open Urandom Urandom.IEEE Urandom.FD Urandom.Generated

theorem ufloat_try_new_translated :
    @FloatD.ufloat_try_new_f32 = @UniformFloat.tryNew ∧ @FloatD.ufloat_try_new_f64 = @UniformFloat.tryNew := by
  constructor <;> (funext f checked low high; rfl)

theorem ufloat_sample_translated :
    @FloatD.ufloat_sample_f32 = @UniformFloat.sampleU ∧ @FloatD.ufloat_sample_f64 = @UniformFloat.sampleU ∧
    FloatD.ufloat_sample_f32_draws = ["next_f32"] ∧ FloatD.ufloat_sample_f64_draws = ["next_f64"] := by
  refine ⟨?_, ?_, rfl, rfl⟩ <;> (funext f d u; rfl)

end Urandom.C12
