import Urandom.Lemmas.ScalarProof
/-
C01 (second module) - the scalar cores of the word generators AS TRANSLATED FROM THE SOURCE.

`Urandom.Generated.Scalar` is regenerated on every run by `tools/extract_scalar.py` from the private helper functions of
`src/rng/{splitmix64,wyrand,xoshiro256}.rs` and the float conversions of `src/rng/util.rs` (constants, shift and rotate amounts,
operators, statement order, the two loops of `jump`).  The hand-written model (`Urandom.Model.Word`) - which `Props/C01.lean`
proves equal to the published algorithms and which the other properties build on - is proved equal to those definitions here.
The glue around them (the `Rng` impls, `from_seed`, `rng_fill_bytes`) stays tied by the `word` correspondence.
-/
namespace Urandom.C01
open Urandom Urandom.Generated

/-- SplitMix64: `mix64`, `next` (state and output), `jump` -/
theorem splitmix_mix64_translated : Scalar.splitmix.mix64 = SplitMix.mix64 := by funext z; rfl
theorem splitmix_next_translated (x : BitVec 64) : Scalar.splitmix.next x = SplitMix.next x := rfl
theorem splitmix_jump_translated (x : BitVec 64) : Scalar.splitmix.jump x = SplitMix.jump x := rfl

/-- Wyrand: the 64 x 64 -> 128 bit multiply (`rapid_mum`), the mix, one step, `jump` -/
theorem wyrand_mum_translated (a b : BitVec 64) : Scalar.wyrand.rapid_mum a b = Wyrand.rapidMum a b := rfl
theorem wyrand_mix_translated (a b : BitVec 64) : Scalar.wyrand.rapid_mix a b = Wyrand.rapidMix a b := rfl
theorem wyrand_next_translated (s : BitVec 64) : Scalar.wyrand.wyrand s = Wyrand.next s := rfl
theorem wyrand_jump_translated (s : BitVec 64) : Scalar.wyrand.jump s = Wyrand.jump s := rfl

/-- Xoshiro256: the state transition and the two output scramblers (`++` for `next_u64`, `+` for the 32-bit and float draws) -/
theorem xoshiro_advance_translated (s : Xoshiro.S) : Scalar.xoshiro.advance s.s0 s.s1 s.s2 s.s3 =
    ((Xoshiro.advance s).s0, (Xoshiro.advance s).s1, (Xoshiro.advance s).s2, (Xoshiro.advance s).s3) := rfl

theorem xoshiro_next_plusplus_translated (s : Xoshiro.S) : Scalar.xoshiro.next_plusplus s.s0 s.s1 s.s2 s.s3 =
    ((Xoshiro.nextPlusPlus s).1, (Xoshiro.nextPlusPlus s).2.s0, (Xoshiro.nextPlusPlus s).2.s1,
     (Xoshiro.nextPlusPlus s).2.s2, (Xoshiro.nextPlusPlus s).2.s3) := rfl

theorem xoshiro_next_plus_translated (s : Xoshiro.S) : Scalar.xoshiro.next_plus s.s0 s.s1 s.s2 s.s3 =
    ((Xoshiro.nextPlus s).1, (Xoshiro.nextPlus s).2.s0, (Xoshiro.nextPlus s).2.s1,
     (Xoshiro.nextPlus s).2.s2, (Xoshiro.nextPlus s).2.s3) := rfl

/-- **`jump`** (the 256-bit jump polynomial applied bit by bit: `for i in 0..4 { for b in 0..64 { if JUMP[i] & (1 << b) != 0 { acc ^= s }; advance(s) } }`),
for every state -/
theorem xoshiro_jump_translated (s : Xoshiro.S) : Scalar.xoshiro.jump s.s0 s.s1 s.s2 s.s3 =
    ((Xoshiro.jump s).s0, (Xoshiro.jump s).s1, (Xoshiro.jump s).s2, (Xoshiro.jump s).s3) :=
  ScalarProof.xjump_tr s

/-- the unit-float conversions `rng_f32` / `rng_f64` (bit patterns) -/
theorem rng_f32_translated (w : BitVec 32) : Scalar.util.rng_f32 w = rngF32 w := rfl
theorem rng_f64_translated (w : BitVec 64) : Scalar.util.rng_f64 w = rngF64 w := rfl

/-! ### the `Rng` impl methods and `from_seed`, as translated

`m_<method>` is the body of `impl Rng for <Generator>`'s method as a function of the one field `state` (result, new state); `from_seed` is the
inherent constructor, with `SplitMix64::from_seed(seed)` / `master.next_u64()` inside `Xoshiro256::from_seed` resolved to SplitMix64's own
translated constructor and method.  The model's `WordGen` instances and `fromSeed` functions are these translations. -/

theorem splitmix_methods_translated (s : BitVec 64) :
    Scalar.splitmix.m_next_u32 s = SplitMix.gen.u32 s ∧ Scalar.splitmix.m_next_u64 s = SplitMix.gen.u64 s ∧
    Scalar.splitmix.m_jump s = SplitMix.gen.jump s ∧ Scalar.splitmix.from_seed s = SplitMix.fromSeed s := ⟨rfl, rfl, rfl, rfl⟩

theorem wyrand_methods_translated (s : BitVec 64) :
    Scalar.wyrand.m_next_u32 s = Wyrand.gen.u32 s ∧ Scalar.wyrand.m_next_u64 s = Wyrand.gen.u64 s ∧
    Scalar.wyrand.m_jump s = Wyrand.gen.jump s ∧ Scalar.wyrand.from_seed s = Wyrand.fromSeed s := ⟨rfl, rfl, rfl, rfl⟩

/-- the four state words of a model state as the translation passes them -/
def words4 (s : Xoshiro.S) : BitVec 64 × BitVec 64 × BitVec 64 × BitVec 64 := (s.s0, s.s1, s.s2, s.s3)

/-- Xoshiro256: `next_u32` and the float draws take the HIGH bits of the xoshiro256+ output, `next_u64` is xoshiro256++ -/
theorem xoshiro_methods_translated (s : Xoshiro.S) :
    Scalar.xoshiro.m_next_u32 s.s0 s.s1 s.s2 s.s3 = ((Xoshiro.gen.u32 s).1, words4 (Xoshiro.gen.u32 s).2) ∧
    Scalar.xoshiro.m_next_u64 s.s0 s.s1 s.s2 s.s3 = ((Xoshiro.gen.u64 s).1, words4 (Xoshiro.gen.u64 s).2) ∧
    Scalar.xoshiro.m_next_f32 s.s0 s.s1 s.s2 s.s3 = ((Xoshiro.gen.f32 s).1, words4 (Xoshiro.gen.f32 s).2) ∧
    Scalar.xoshiro.m_next_f64 s.s0 s.s1 s.s2 s.s3 = ((Xoshiro.gen.f64 s).1, words4 (Xoshiro.gen.f64 s).2) := ⟨rfl, rfl, rfl, rfl⟩

/-- **`Xoshiro256::from_seed` (= `urandom::seeded`)**: the state is four successive outputs of a SplitMix64 seeded with the seed - nothing else
(no re-draw, no special seed), for every one of the 2^64 seeds -/
theorem xoshiro_from_seed_translated (seed : BitVec 64) :
    Scalar.xoshiro.from_seed seed = words4 (Xoshiro.fromSeed seed) := rfl

end Urandom.C01
