import Urandom.Model.Seq
import Urandom.Lemmas.Index
import Urandom.Generated.GlueRandomDistr
import Urandom.Generated.GlueDistr
/-!
# `Uniform<T>`, `Random::range`, `Random::choose` as translated from the source (C04, C05, C06)

`tools/extract_glue.py` translates the CURRENT text of `Uniform<T>` - the transparent wrapper around `T::Sampler` (src/distr/uniform.rs): its two
`From` impls, the four constructors, the two `UniformSampler` methods, `sample` - and of `Random::range` / `choose` / `choose_mut`
(src/random.rs).  Proved here, for every lawful monad, sampler and generator: the wrapper adds nothing - `a..b` goes to the sampler's
EXCLUSIVE constructor with (start, end) in this order, `a..=b` to the INCLUSIVE one, `new*` unwrap (an empty range panics), `sample` is the
sampler's; `range` is `Uniform::from(interval)` then ONE sample; `choose` is ONE `index(len)` then `get` (so an empty slice gives `None` only
through `get`).  Instantiated with the model's integer sampler, `range` over `usize` is the model's `rangeUsize` - the function the partial
shuffle (C05) draws through.
-/
namespace Urandom.C04R
open Urandom Urandom.Glue Urandom.Generated.Glue

section generic
variable {m : Type → Type} [Monad m] [LawfulMonad m] [Panics m] {σ T S ε : Type} (R : Rng m σ) (Sm : Sampler m σ T S ε)

theorem uniform_from_range (r : Range T) :
    Uniform.from_range R Sm r = (unwrap (Sm.try_new r.start r.end_) >>= fun s => pure ⟨s⟩) := by simp [Uniform.from_range]

theorem uniform_from_range_inclusive (lo hi : T) :
    Uniform.from_range_inclusive R Sm ⟨(lo, hi)⟩ = (unwrap (Sm.try_new_inclusive lo hi) >>= fun s => pure ⟨s⟩) := by
  simp [Uniform.from_range_inclusive]

theorem uniform_constructors (lo hi : T) :
    Uniform.new R Sm lo hi = (unwrap (Sm.try_new lo hi) >>= fun s => pure ⟨s⟩) ∧
    Uniform.new_inclusive R Sm lo hi = (unwrap (Sm.try_new_inclusive lo hi) >>= fun s => pure ⟨s⟩) ∧
    Uniform.try_new R Sm lo hi = pure (mapOk Uniform.mk (Sm.try_new lo hi)) ∧
    Uniform.try_new_inclusive R Sm lo hi = pure (mapOk Uniform.mk (Sm.try_new_inclusive lo hi)) ∧
    Uniform.sampler_try_new R Sm lo hi = pure (mapOk Uniform.mk (Sm.try_new lo hi)) ∧
    Uniform.sampler_try_new_inclusive R Sm lo hi = pure (mapOk Uniform.mk (Sm.try_new_inclusive lo hi)) := by
  refine ⟨?_, ?_, ?_, ?_, ?_, ?_⟩ <;>
    simp [Uniform.new, Uniform.new_inclusive, Uniform.try_new, Uniform.try_new_inclusive, Uniform.sampler_try_new, Uniform.sampler_try_new_inclusive]

theorem uniform_sample (u : Glue.Uniform S) : Uniform.sample R Sm u = (Sm.dist u.sampler).sample R := by simp [Uniform.sample]

/-- **`Random::range`**: build the distribution from the interval, then exactly one sample of it -/
theorem random_range {I : Type} (from_ : I → m (Dist m σ T)) (i : I) : Random.range R from_ i = (from_ i >>= fun d => d.sample R) := by
  simp [Random.range]

/-- **`choose` / `choose_mut`**: exactly one `index(slice.len())`, then `slice.get(index)` -/
theorem random_choose (idx : BitVec 64 → m (BitVec 64)) (s : Slice T) :
    Random.choose R idx s = (idx s.len >>= fun i => pure (s.get i)) ∧ Random.choose_mut R idx s = (idx s.len >>= fun i => pure (s.get i)) := by
  constructor <;> simp [Random.choose, Random.choose_mut, Slice.get_mut]

end generic

/-! ### instantiated with the model's integer sampler over the scripted generator -/

abbrev DrawM := StateT Words Option

/-- any generator record over the scripted words (the samplers of the model draw from the words directly) -/
def mockR : Rng DrawM Words :=
  ⟨Mock.u32, Mock.u64, Mock.f32, Mock.f64, fun _ _ => none, fun _ => none, fun ws => some (ws, ws)⟩

/-- `UniformInt<usize>` of the model as a sampler: exclusive / inclusive `tryNew`, `sample` -/
def usizeSampler : Sampler DrawM Words Nat UniformInt UniformError :=
  ⟨fun lo hi => UniformInt.tryNew IntTy.usize lo hi false, fun lo hi => UniformInt.tryNew IntTy.usize lo hi true,
   fun d => ⟨fun _ => UniformInt.sample IntTy.usize d⟩⟩

/-- `Uniform::<usize>::from(lo..hi)` as a distribution, from the translated `From` impl and the translated `sample` -/
def uniformFromRange (r : Range Nat) : DrawM (Dist DrawM Words Nat) :=
  Uniform.from_range mockR usizeSampler r >>= fun u => pure ⟨fun R => Uniform.sample R usizeSampler u⟩

/-- **`self.range(lo..hi)` over `usize` as translated is the model's `rangeUsize`** (exclusive bounds, an empty range panics, one sample) -/
theorem range_usize_is_model (lo hi : Nat) : Random.range mockR uniformFromRange ⟨lo, hi⟩ = Seq.rangeUsize lo hi := by
  funext ws
  simp only [Random.range, uniformFromRange, Uniform.from_range, Uniform.sample, Seq.rangeUsize, usizeSampler]
  cases h : UniformInt.tryNew IntTy.usize lo hi false with
  | error e => simp [unwrap, bind, StateT.bind, Panics.panic]
  | ok d =>
    simp only [unwrap, bind, StateT.bind, pure, StateT.pure, Option.bind]

example : Random.range mockR uniformFromRange ⟨3, 3⟩ [1#64, 2#64] = none := by
  rw [range_usize_is_model]; rfl

/-! ### `choose` on the model -/

/-- an array of the model as a slice: `len()` and `get(i)` -/
def sliceOf (a : Array Nat) : Slice Nat := ⟨BitVec.ofNat 64 a.size, fun i => a[i.toNat]?⟩

/-- the model's `index` (`Random::index`, Props/C05T) on `usize` values -/
def indexBV (L : BitVec 64) : DrawM (BitVec 64) := fun ws => (index L.toNat ws).map fun r => (BitVec.ofNat 64 r.1, r.2)

/-- **`Random::choose` / `choose_mut` as translated are the model's `Seq.choose`** - the function C06's None-iff-empty, membership and 1/n
theorems are about - for every slice of fewer than 2^64 elements and every word sequence -/
theorem choose_is_model (a : Array Nat) (hs : a.size < 2 ^ 64) (ws : Words) :
    Random.choose mockR indexBV (sliceOf a) ws = Seq.choose a ws ∧ Random.choose_mut mockR indexBV (sliceOf a) ws = Seq.choose a ws := by
  have hL : (BitVec.ofNat 64 a.size).toNat = a.size := by simp [BitVec.toNat_ofNat, Nat.mod_eq_of_lt hs]
  have key : (indexBV (sliceOf a).len >>= fun i => (pure ((sliceOf a).get i) : DrawM (Option Nat))) ws = Seq.choose a ws := by
    simp only [bind, StateT.bind, indexBV, sliceOf, hL, Seq.choose, pure, StateT.pure]
    cases h : index a.size ws with
    | none => rfl
    | some r =>
      obtain ⟨k, ws'⟩ := r
      simp only [Option.map, Option.bind]
      by_cases h0 : a.size = 0
      · have e1 : a[(BitVec.ofNat 64 k).toNat]? = none := Array.getElem?_eq_none (by omega)
        have e2 : a[k]? = none := Array.getElem?_eq_none (by omega)
        rw [e1, e2]
      · have hk := index_lt a.size (by omega) hs ws ws' k h
        have : (BitVec.ofNat 64 k).toNat = k := by simp [BitVec.toNat_ofNat]; omega
        rw [this]
  have hc := random_choose mockR indexBV (sliceOf a)
  exact ⟨by rw [hc.1]; exact key, by rw [hc.2]; exact key⟩

end Urandom.C04R
