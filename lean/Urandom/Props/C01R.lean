import Urandom.Model.Word
import Urandom.Model.Block
import Urandom.Model.System
import Urandom.Model.Draw
import Urandom.Generated.GlueRandom
import Urandom.Generated.GlueRng
import Urandom.Generated.Scalar
import Urandom.Props.C10T
/-!
# The forwarding layer as translated from the source (C01, C08, C10; also a theorem module of C03, C11, C17)

`tools/extract_glue.py` translates, on every run, the CURRENT text of the methods that only hand a call on: `Random<R>`'s wrappers
(src/random.rs), the default `next_f32` / `next_f64` of the `Rng` trait (src/rng.rs), the typed byte wrappers of src/rng/util.rs, the `Rng`
impl of `ChaCha<N>` (forwards to `BlockRngImpl`), the clone / `rng_fill_bytes` / write-back `fill_bytes` of the three word generators,
`BlockRngImpl::jump`, `System::fill_bytes` / `jump` - into `do` blocks over an arbitrary monad (`Urandom/Generated/Glue*.lean`).

This file proves (1) for EVERY lawful monad and every generator record that each wrapper is exactly the call it is meant to forward - no
extra draw, no other method, no other argument, no other order; (2) instantiated with the model's word generators, that `split`, the byte
fills and the float defaults are the model's `WordGen.step` - the function the published-algorithm theorems of C01 and the stride /
disjointness theorems of C08 are about; (3) that `BlockRngImpl::jump` / `System::jump` are the model's.
-/
namespace Urandom.C01R
open Urandom Urandom.Glue Urandom.Generated Urandom.Generated.Glue

section generic
variable {m : Type → Type} [Monad m] [LawfulMonad m] {σ : Type} (R : Rng m σ)

/-- **`Random<R>`'s word / float / jump methods are the generator's own**, nothing else happens -/
theorem random_forwards :
    Random.next_u32 R = R.next_u32 ∧ Random.next_u64 R = R.next_u64 ∧ Random.next_f32 R = R.next_f32 ∧ Random.next_f64 R = R.next_f64 ∧
    Random.jump R = R.jump := by
  refine ⟨?_, ?_, ?_, ?_, ?_⟩ <;> simp [Random.next_u32, Random.next_u64, Random.next_f32, Random.next_f64, Random.jump]

/-- **`split`**: a snapshot of the generator, THEN one jump of the original; the snapshot is returned -/
theorem random_split : Random.split R = (R.clone >>= fun cur => R.jump >>= fun _ => pure cur) := by
  simp [Random.split]

/-- **the typed byte fills** (`fill_bytes`, `fill_bytes_uninit`) are ONE `Rng::fill_bytes` call over exactly `size_of_val(buf)` bytes -/
theorem random_fill_bytes (buf : Pod) :
    Random.fill_bytes R util.fill_bytes buf = (R.fill_bytes buf.size_of_val >>= fun _ => pure buf) ∧
    Random.fill_bytes_uninit R util.fill_bytes_uninit buf = (R.fill_bytes buf.size_of_val >>= fun _ => pure buf) := by
  constructor <;> simp [Random.fill_bytes, Random.fill_bytes_uninit, util.fill_bytes, util.fill_bytes_uninit, from_raw_parts_mut]

/-- **`random_bytes::<T>()`** is one `Rng::fill_bytes` call over exactly `size_of::<T>()` bytes, whatever the size - no word-sized shortcut -/
theorem random_random_bytes (sizeT : BitVec 64) :
    Random.random_bytes R (fun R => util.random_bytes R sizeT util.fill_bytes_uninit) = (R.fill_bytes sizeT >>= fun _ => pure (uninit sizeT)) := by
  simp [Random.random_bytes, util.random_bytes, util.fill_bytes_uninit, from_raw_parts_mut, from_mut, uninit, Pod.assume_init]

/-- `util::getrandom::<T>()`: one entropy request over the whole value -/
theorem util_getrandom (sizeT : BitVec 64) (ge : Pod → m Unit) :
    util.getrandom sizeT ge = (ge (uninit sizeT) >>= fun _ => pure (uninit sizeT)) := by
  simp [util.getrandom, from_mut, uninit, Pod.assume_init]

/-- **the trait's default float methods**: one `next_u32` / `next_u64` of the SAME generator, through `rng_f32` / `rng_f64` -/
theorem rng_default_floats (f32 : BitVec 32 → BitVec 32) (f64 : BitVec 64 → BitVec 64) :
    RngDefault.next_f32 R f32 = (f32 <$> R.next_u32) ∧ RngDefault.next_f64 R f64 = (f64 <$> R.next_u64) := by
  constructor <;> simp [RngDefault.next_f32, RngDefault.next_f64]

/-- **`io::Read for Random<R>`**: `read` and `read_exact` fill the whole buffer by one `fill_bytes` call; `read` reports its full length -/
theorem random_io_read (fb : Slice (BitVec 8) → m (Slice (BitVec 8))) (buf : Slice (BitVec 8)) :
    Random.io_read R fb buf = (fb buf >>= fun _ => pure (.ok buf.len)) ∧
    Random.io_read_exact R fb buf = (fb buf >>= fun _ => pure (.ok ())) := by
  constructor <;> simp [Random.io_read, Random.io_read_exact]

/-- **`ChaCha<N>`'s `Rng` impl is its block generator's** -/
theorem chacha_forwards (L : BitVec 64) :
    ChaCha.next_u32 R = R.next_u32 ∧ ChaCha.next_u64 R = R.next_u64 ∧ ChaCha.fill_bytes R L = R.fill_bytes L ∧ ChaCha.jump R = R.jump := by
  refine ⟨?_, ?_, ?_, ?_⟩ <;> simp [ChaCha.next_u32, ChaCha.next_u64, ChaCha.fill_bytes, ChaCha.jump]

/-- `System::fill_bytes` is one entropy request of the destination's length -/
theorem system_fill_bytes (ge : BitVec 64 → m Unit) (L : BitVec 64) : System.fill_bytes ge L = ge L := by
  simp [System.fill_bytes]

end generic

/-- which generators define their own float methods: only Xoshiro256 (high bits of the `+` scrambler); all others take the trait defaults -/
theorem float_overrides :
    (rngImpls.filter (fun i => i.2.2.contains "next_f32" || i.2.2.contains "next_f64")).map (fun i => i.2.1) = ["Xoshiro256"] ∧
    rngImpls.all (fun i => ["fill_bytes", "jump", "next_u32", "next_u64"].all i.2.2.contains) = true := by decide

/-! ### instantiated with the model's word generators -/
section wordgen
variable {σ : Type} (g : WordGen σ)

/-- state of the instantiation: the generator and the log of stores into the destination of a byte fill -/
abbrev WS (σ : Type) := σ × List PtrWrite

/-- the model's word generator as a generator record over `StateM`: `fill_bytes` is the TRANSLATED `rng_fill_bytes` (the stores are logged) -/
def ofWordGen : Rng (StateM (WS σ)) σ where
  next_u32 := fun s => ((g.u32 s.1).1, ((g.u32 s.1).2, s.2))
  next_u64 := fun s => ((g.u64 s.1).1, ((g.u64 s.1).2, s.2))
  next_f32 := fun s => ((g.f32 s.1).1, ((g.f32 s.1).2, s.2))
  next_f64 := fun s => ((g.f64 s.1).1, ((g.f64 s.1).2, s.2))
  fill_bytes := fun L s => ((), ((Effect.rng_fill_bytes g.u64 s.1 L).2.1, s.2 ++ (Effect.rng_fill_bytes g.u64 s.1 L).1))
  jump := fun s => ((), (g.jump s.1, s.2))
  clone := fun s => (s.1, s)

/-- `util::rng_fill_bytes(&mut rng, buf)` on a local copy `rng` (the translated function; its stores are logged) and `*self = rng` -/
def fillOn : σ → BitVec 64 → StateM (WS σ) σ :=
  fun rng L s => ((Effect.rng_fill_bytes g.u64 rng L).2.1, (s.1, s.2 ++ (Effect.rng_fill_bytes g.u64 rng L).1))
def assign (_g : WordGen σ) : σ → StateM (WS σ) Unit := fun rng s => ((), (rng, s.2))

/-- **`split` on a word generator is the model's**: the child is the state as it was, the parent is one jump further -/
theorem split_is_model (s : σ) (log : List PtrWrite) :
    Random.split (ofWordGen g) (s, log) = (s, (g.jump s, log)) ∧
    g.step s .split = (.child (g.u64 (Random.split (ofWordGen g) (s, log)).1).1, (Random.split (ofWordGen g) (s, log)).2.1) := ⟨rfl, rfl⟩

/-- **the word generators' `fill_bytes` (clone, `rng_fill_bytes` on the clone, write back) is the model's fill** for every length below 2^64:
the stores are `rngFillWrites`' and the generator continues from `rngFillWrites`' state - also for the EMPTY destination (no draw) -/
theorem wordgen_fill_bytes_is_model (s : σ) (L : BitVec 64) :
    ∀ F ∈ [Xoshiro256.fill_bytes, Wyrand.fill_bytes, SplitMix64.fill_bytes],
      ((F (ofWordGen g) (fillOn g) (assign g) L (s, [])).2.1 = (rngFillWrites g s 0 L.toNat).2 ∧
       (F (ofWordGen g) (fillOn g) (assign g) L (s, [])).2.2.map C10.toWrite = (rngFillWrites g s 0 L.toNat).1) := by
  have h := C10.rng_fill_bytes_translated g s L
  intro F hF
  simp only [List.mem_cons, List.not_mem_nil, or_false] at hF
  rcases hF with rfl | rfl | rfl <;>
  · refine ⟨h.2.2.2, ?_⟩
    show List.map C10.toWrite ([] ++ (Effect.rng_fill_bytes g.u64 s L).1) = _
    rw [List.nil_append]
    exact h.2.2.1

/-- the word generator as `Random<G>` sees it: its `fill_bytes` is the TRANSLATED clone / `rng_fill_bytes` / write-back wrapper -/
def ofWordGenW : Rng (StateM (WS σ)) σ :=
  { ofWordGen g with fill_bytes := fun L => Xoshiro256.fill_bytes (ofWordGen g) (fillOn g) (assign g) L }

/-- **end to end, from the public API to the stores**: `Random::fill_bytes(buf)` on a word generator - `Random`'s wrapper, `util::fill_bytes`'s
cast to bytes, the generator's clone / fill / write-back, `rng_fill_bytes`' pointer loop, all as translated from the source - returns the
destination, stores exactly the model's `rngFillWrites` over `size_of_val(buf)` bytes and leaves the generator in the model's state -/
theorem api_fill_bytes_is_model (s : σ) (buf : Pod) :
    (Random.fill_bytes (ofWordGenW g) util.fill_bytes buf (s, [])).1 = buf ∧
    (Random.fill_bytes (ofWordGenW g) util.fill_bytes buf (s, [])).2.1 = (rngFillWrites g s 0 buf.size_of_val.toNat).2 ∧
    (Random.fill_bytes (ofWordGenW g) util.fill_bytes buf (s, [])).2.2.map C10.toWrite = (rngFillWrites g s 0 buf.size_of_val.toNat).1 := by
  have h := wordgen_fill_bytes_is_model g s buf.size_of_val Xoshiro256.fill_bytes (by simp)
  exact ⟨rfl, h.1, h.2⟩

theorem wordgen_fill_empty (s : σ) : (rngFillWrites g s 0 0) = ([], s) := by
  unfold rngFillWrites; simp

/-- the float defaults over a word generator whose `f32` / `f64` are the defaults (SplitMix64, Wyrand: `rngF32 (u32)`, `rngF64 (u64)`) -/
theorem default_floats_splitmix (s : BitVec 64) (log : List PtrWrite) :
    RngDefault.next_f32 (ofWordGen SplitMix.gen) Scalar.util.rng_f32 (s, log) = ((SplitMix.gen.f32 s).1, ((SplitMix.gen.f32 s).2, log)) ∧
    RngDefault.next_f64 (ofWordGen SplitMix.gen) Scalar.util.rng_f64 (s, log) = ((SplitMix.gen.f64 s).1, ((SplitMix.gen.f64 s).2, log)) ∧
    RngDefault.next_f32 (ofWordGen Wyrand.gen) Scalar.util.rng_f32 (s, log) = ((Wyrand.gen.f32 s).1, ((Wyrand.gen.f32 s).2, log)) ∧
    RngDefault.next_f64 (ofWordGen Wyrand.gen) Scalar.util.rng_f64 (s, log) = ((Wyrand.gen.f64 s).1, ((Wyrand.gen.f64 s).2, log)) := ⟨rfl, rfl, rfl, rfl⟩

end wordgen

/-! ### the scripted generator of the distribution models (`Mock`): the float defaults are `Mock.f32` / `Mock.f64` -/

/-- the `Mock` generator of `Model/Draw.lean` as a generator record over `StateT Words Option` (= `Draw`) -/
def ofMock : Rng (StateT Words Option) Words where
  next_u32 := Mock.u32
  next_u64 := Mock.u64
  next_f32 := Mock.f32
  next_f64 := Mock.f64
  fill_bytes := fun _ _ => none
  jump := fun _ => none
  clone := fun ws => some (ws, ws)

theorem mock_default_floats :
    RngDefault.next_f32 ofMock Scalar.util.rng_f32 = Mock.f32 ∧ RngDefault.next_f64 ofMock Scalar.util.rng_f64 = Mock.f64 := by
  constructor <;> funext ws <;> cases ws <;> rfl

/-! ### `jump` of the block generator and of `System` -/
section block
variable {κ β : Type} (C : Block.Core κ β)

/-- **`BlockRngImpl::jump` as translated is the model's**: the core jumps, THEN the index becomes `!0` (the buffer is discarded) -/
theorem block_jump_is_model (s : Block.BS κ β) :
    (BlockRngImpl.jump (m := StateM (Block.BS κ β)) (σ := Unit)
        ⟨fun s => (0, s), fun s => (0, s), fun s => (0, s), fun s => (0, s), fun _ s => ((), s), fun s => ((), { s with core := C.jmp s.core }), fun s => ((), s)⟩
        (fun v s => ((), { s with index := v.toNat })) s).2
      = Block.jump C s := rfl

/-- **`System::jump`**: the index becomes `!0`, so the next draw fetches fresh entropy -/
theorem system_jump_is_model {α : Type} (L : SystemGen.Labels α) (N : Nat) (s : SystemGen.St α) :
    (System.jump (m := StateM (SystemGen.St α)) (fun v s => ((), { s with index := v.toNat })) s).2 = (SystemGen.step L N s .jump).2 := rfl

end block

end Urandom.C01R
