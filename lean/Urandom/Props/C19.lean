import Urandom.Lemmas.BlockSim
/-
C19 - Serialised generator state resumes the identical stream from any point.

Model of the serde attributes on `BlockRngImpl` (`src/rng/block.rs`): `index` is omitted when
`>= 256` and restored as `!0`; `random` is omitted when it equals the default (all zero) and restored
as the default; the ChaCha core is serialised as its 12 words.  The word generators serialise their
whole state.  Tied to the code by the `serde` correspondence stream (JSON text, continuation
outputs of original and restored generator, re-serialised text).
-/
namespace Urandom.C19
open Urandom Urandom.Block

variable {κ : Type}

theorem bufList_getD (buf : Nat → BitVec 8) (i : Nat) (hi : i < 256) : (bufList buf).getD i 0#8 = buf i := by
  simp [bufList, take, List.getD_eq_getElem?_getD, hi]

/-- the restored generator: same core, the same index (or both out of bounds), the same 256 buffer bytes -/
theorem de_ser (s : BS κ (BitVec 8)) :
    (de (ser s)).core = s.core ∧
    ((de (ser s)).index = s.index ∨ (256 ≤ (de (ser s)).index ∧ 256 ≤ s.index)) ∧
    ∀ i, i < 256 → (de (ser s)).buf i = s.buf i := by
  refine ⟨rfl, ?_, ?_⟩
  · simp only [de, ser]
    by_cases h : s.index ≥ 256
    · right; simp [h]
    · left; simp [h]
  · intro i hi
    simp only [de, ser]
    by_cases h : bufList s.buf = List.replicate 256 0#8
    · simp only [h, ↓reduceIte, Option.getD_none]
      rw [← h]; exact bufList_getD _ i hi
    · simp only [h, ↓reduceIte, Option.getD_some]
      exact bufList_getD _ i hi

/-- observational equivalence: equal cores, equal unread buffer bytes, equal index or both out of bounds -/
structure ObsEq (s t : BS κ (BitVec 8)) : Prop where
  core : s.core = t.core
  index : s.index = t.index ∨ (256 ≤ s.index ∧ 256 ≤ t.index)
  buf : ∀ i, i < 256 → s.buf i = t.buf i

theorem take_congr (b b' : Nat → BitVec 8) (start n : Nat) (hb : start + n ≤ 256) (h : ∀ i, i < 256 → b i = b' i) :
    take b start n = take b' start n := by
  unfold take
  apply List.map_congr_left
  intro i hi
  simp only [List.mem_range] at hi
  exact h _ (by omega)

variable (C : Core κ (BitVec 8))

theorem refill_obs {s t : BS κ (BitVec 8)} (h : ObsEq s t) : refill C s = refill C t := by
  simp [refill, h.core]

theorem nextN_obs {s t : BS κ (BitVec 8)} (h : ObsEq s t) (n : Nat) (hn0 : 0 < n) (hn : n ≤ 256) :
    (nextN C n s).1 = (nextN C n t).1 ∧ ObsEq (nextN C n s).2 (nextN C n t).2 := by
  unfold nextN
  rcases h.index with hi | ⟨h1, h2⟩
  · by_cases hc : s.index > 256 - n
    · have hc' : t.index > 256 - n := by omega
      simp only [hc, hc', ↓reduceIte, refill_obs C h]
      exact ⟨trivial, ⟨rfl, Or.inl rfl, fun _ _ => rfl⟩⟩
    · have hc' : ¬ t.index > 256 - n := by omega
      simp only [hc, hc', ↓reduceIte]
      refine ⟨?_, ⟨h.core, Or.inl (by simp [hi]), h.buf⟩⟩
      rw [hi]; exact take_congr _ _ _ _ (by omega) h.buf
  · have hc : s.index > 256 - n := by omega
    have hc' : t.index > 256 - n := by omega
    simp only [hc, hc', ↓reduceIte, refill_obs C h]
    exact ⟨trivial, ⟨rfl, Or.inl rfl, fun _ _ => rfl⟩⟩

theorem fillRem_obs {s t : BS κ (BitVec 8)} (h : ObsEq s t) (len : Nat) (hl : len < 256) :
    (fillRem C len s).1 = (fillRem C len t).1 ∧ ObsEq (fillRem C len s).2 (fillRem C len t).2 := by
  unfold fillRem
  have hmin : min s.index 256 = min t.index 256 := by
    rcases h.index with hi | ⟨h1, h2⟩
    · rw [hi]
    · omega
  simp only [hmin]
  by_cases hle : len ≤ 256 - min t.index 256
  · simp only [hle, ↓reduceIte]
    refine ⟨take_congr _ _ _ _ (by omega) h.buf, ⟨h.core, ?_, h.buf⟩⟩
    rcases h.index with hi | ⟨h1, h2⟩
    · left; simp [hi]
    · right; simp; omega
  · simp only [hle, ↓reduceIte, refill_obs C h]
    exact ⟨by rw [take_congr _ _ _ _ (by omega) h.buf], ⟨rfl, Or.inl rfl, fun _ _ => rfl⟩⟩

theorem fill_obs {s t : BS κ (BitVec 8)} (h : ObsEq s t) (len : Nat) :
    (fill C len s).1 = (fill C len t).1 ∧ ObsEq (fill C len s).2 (fill C len t).2 := by
  unfold fill
  simp only [h.core]
  have h1 : ObsEq ({ s with core := (direct C (len / 256) t.core).2 } : BS κ (BitVec 8))
      { t with core := (direct C (len / 256) t.core).2 } := ⟨rfl, h.index, h.buf⟩
  by_cases hz : len % 256 = 0
  · simp only [hz, ↓reduceIte]; exact ⟨trivial, h1⟩
  · simp only [hz, ↓reduceIte]
    obtain ⟨e, r⟩ := fillRem_obs C h1 (len % 256) (Nat.mod_lt _ (by omega))
    exact ⟨by rw [e], r⟩

theorem stepOp_obs {s t : BS κ (BitVec 8)} (h : ObsEq s t) (op : Op) :
    (stepOp C s op).1 = (stepOp C t op).1 ∧ ObsEq (stepOp C s op).2 (stepOp C t op).2 := by
  cases op with
  | u32 => exact nextN_obs C h 4 (by omega) (by omega)
  | u64 => exact nextN_obs C h 8 (by omega) (by omega)
  | f32 => exact nextN_obs C h 4 (by omega) (by omega)
  | f64 => exact nextN_obs C h 8 (by omega) (by omega)
  | fill n => exact fill_obs C h n
  | jump => exact ⟨rfl, ⟨by simp [stepOp, jump, h.core], Or.inl rfl, h.buf⟩⟩

/-- **`ObsEq` is a bisimulation**: observationally equal generators produce identical output under
every further operation history (the buffer is never read while the index is out of bounds). -/
theorem run_obs (ops : List Op) : ∀ {s t : BS κ (BitVec 8)}, ObsEq s t →
    (run C s ops).1 = (run C t ops).1 ∧ ObsEq (run C s ops).2 (run C t ops).2 := by
  induction ops with
  | nil => intro s t h; exact ⟨rfl, h⟩
  | cons op ops ih =>
    intro s t h
    obtain ⟨e1, r1⟩ := stepOp_obs C h op
    obtain ⟨e2, r2⟩ := ih r1
    simp only [run]
    exact ⟨by rw [e1, e2], r2⟩

/-- **Round trip.** Serialising a block generator at any point - freshly seeded, mid-block, at an
odd buffer offset, after jumps - and deserialising it yields a generator whose entire future output
under any further operations is identical to the original's. -/
theorem roundtrip_same_future (s : BS κ (BitVec 8)) (ops : List Op) :
    (run C (de (ser s)) ops).1 = (run C s ops).1 := by
  obtain ⟨h1, h2, h3⟩ := de_ser s
  exact (run_obs C ops ⟨h1, h2, h3⟩).1

/-- after the same continuation, original and restored generator are still observationally equal,
so they also serialise identically from then on -/
theorem roundtrip_obs_after (s : BS κ (BitVec 8)) (ops : List Op) :
    ObsEq (run C (de (ser s)) ops).2 (run C s ops).2 := by
  obtain ⟨h1, h2, h3⟩ := de_ser s
  exact (run_obs C ops ⟨h1, h2, h3⟩).2

theorem bufList_congr (b b' : Nat → BitVec 8) (h : ∀ i, i < 256 → b i = b' i) : bufList b = bufList b' :=
  take_congr b b' 0 256 (by omega) h

/-- observationally equal generators serialise to the same value -/
theorem ser_congr {s t : BS κ (BitVec 8)} (h : ObsEq s t) : ser s = ser t := by
  have hb := bufList_congr s.buf t.buf h.buf
  simp only [ser, h.core, hb]
  congr 1
  rcases h.index with hi | ⟨h1, h2⟩
  · rw [hi]
  · simp [h1, h2]

/-- **It serialises to the same text again**: `ser (de (ser s)) = ser s`, and the same holds after
any common continuation. -/
theorem ser_idempotent (s : BS κ (BitVec 8)) : ser (de (ser s)) = ser s := by
  obtain ⟨h1, h2, h3⟩ := de_ser s
  exact ser_congr ⟨h1, h2, h3⟩

theorem ser_after (s : BS κ (BitVec 8)) (ops : List Op) :
    ser (run C (de (ser s)) ops).2 = ser (run C s ops).2 :=
  ser_congr (roundtrip_obs_after C s ops)

example : (ser (Block.new (0 : Nat) 0#8 : BS Nat (BitVec 8))).index = none := by
  show (if 2 ^ 32 - 1 ≥ 256 then none else some (2 ^ 32 - 1)) = none
  decide

end Urandom.C19
