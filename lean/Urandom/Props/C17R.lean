import Urandom.Generated.GlueCtor
import Urandom.Generated.GlueRandom
import Urandom.Generated.GlueEntropy
/-!
# Constructors as translated from the source (C17, C09, C01)

`tools/extract_glue.py` translates the CURRENT text of `urandom::new` / `seeded` / `csprng` (src/lib.rs) and of `new()` / `from_rng()` of
SplitMix64, Wyrand, Xoshiro256 and ChaCha<N>.  Proved for every lawful monad: `new()` takes its WHOLE state from ONE `util::getrandom` - which
(with the translated `util::getrandom`) is ONE entropy request over exactly `size_of` the state - and stores it unchanged; `from_rng` takes
the whole state from the parent (`next_u64` for the 64-bit generators, ONE `random_bytes` over the whole state otherwise), nothing is mixed
in or dropped; `urandom::seeded` IS `Xoshiro256::from_seed`, `urandom::new` IS `Xoshiro256::new`, `urandom::csprng` IS `ChaCha12::new`.
-/
namespace Urandom.C17R
open Urandom.Glue Urandom.Generated.Glue

theorem lib_entry_points {G : Type} (xnew cnew : G) (fromSeed : BitVec 64 → G) (seed : BitVec 64) :
    lib.new xnew = xnew ∧ lib.seeded fromSeed seed = fromSeed seed ∧ lib.csprng cnew = cnew := ⟨rfl, rfl, rfl⟩

variable {m : Type → Type} [Monad m] [LawfulMonad m] {σ St B G : Type}

/-- `new()`: the state is the value of one `getrandom`, unchanged -/
theorem new_is_one_getrandom (ge : m St) (mk : St → G) (bnew : St → B) (mkc : B → G) :
    SplitMix64.new ge mk = (mk <$> ge) ∧ Wyrand.new ge mk = (mk <$> ge) ∧ Xoshiro256.new ge mk = (mk <$> ge) ∧
    ChaCha.new ge bnew mkc = ((fun s => mkc (bnew s)) <$> ge) := by
  refine ⟨?_, ?_, ?_, ?_⟩ <;> simp [SplitMix64.new, Wyrand.new, Xoshiro256.new, ChaCha.new]

/-- **with the translated `util::getrandom`: one entropy request over exactly the `size` bytes of the state**, all of it becomes the state -/
theorem new_is_one_entropy_request (size : BitVec 64) (entropy : Pod → m Unit) (mk : Pod → G) :
    Xoshiro256.new (util.getrandom size entropy) mk = (entropy (uninit size) >>= fun _ => pure (mk (uninit size))) ∧
    SplitMix64.new (util.getrandom size entropy) mk = (entropy (uninit size) >>= fun _ => pure (mk (uninit size))) ∧
    Wyrand.new (util.getrandom size entropy) mk = (entropy (uninit size) >>= fun _ => pure (mk (uninit size))) := by
  refine ⟨?_, ?_, ?_⟩ <;> simp [Xoshiro256.new, SplitMix64.new, Wyrand.new, util.getrandom, from_mut, uninit, Pod.assume_init]

/-- `from_rng`: the 64-bit generators take ONE `next_u64` of the parent as their state; Xoshiro256 and ChaCha take ONE `random_bytes` over
their whole state -/
theorem from_rng_takes_whole_state (R : Rng m σ) (mk64 : BitVec 64 → G) (rb : m St) (mk : St → G) (bnew : St → B) (mkc : B → G) :
    SplitMix64.from_rng R mk64 = (mk64 <$> R.next_u64) ∧ Wyrand.from_rng R mk64 = (mk64 <$> R.next_u64) ∧
    Xoshiro256.from_rng rb mk = (mk <$> rb) ∧ ChaCha.from_rng rb bnew mkc = ((fun s => mkc (bnew s)) <$> rb) := by
  refine ⟨?_, ?_, ?_, ?_⟩ <;> simp [SplitMix64.from_rng, Wyrand.from_rng, Xoshiro256.from_rng, ChaCha.from_rng]

/-- with the translated `Random::random_bytes` / `util::random_bytes`: `Xoshiro256::from_rng` is ONE `fill_bytes` of the parent over exactly
the `size` bytes of the state -/
theorem xoshiro_from_rng_one_fill (R : Rng m σ) (size : BitVec 64) (mk : Pod → G) :
    Xoshiro256.from_rng (Random.random_bytes R (fun R => util.random_bytes R size util.fill_bytes_uninit)) mk =
      (R.fill_bytes size >>= fun _ => pure (mk (uninit size))) := by
  simp [Xoshiro256.from_rng, Random.random_bytes, util.random_bytes, util.fill_bytes_uninit, from_raw_parts_mut, from_mut, uninit, Pod.assume_init]

/-! ### the entropy layer (src/rng/entropy.rs), both back ends -/

variable [Panics m]

/-- **the extern `getentropy_raw` back end**: a non-empty destination is ONE request over the whole destination; `false` panics before
anything is handed out; an empty destination makes no request -/
theorem raw_backend (raw : Pod → BitVec 64 → m Bool) (buf : Pod) :
    entropy.raw_getentropy_uninit raw buf =
      (if buf.len > 0 then (raw buf buf.size_of_val >>= fun ok => if ok = false then (Panics.panic : m Unit) >>= fun _ => pure buf else pure buf)
       else pure buf) := by
  unfold entropy.raw_getentropy_uninit
  by_cases h : buf.len > 0
  · simp only [h, if_true]
    congr 1; funext ok
    cases ok <;> simp
  · simp only [h, if_false]

/-- **the `getrandom` back end**: ONE request over exactly `size_of_val(buf)` bytes; an error panics, success returns the destination -/
theorem getrandom_backend (gr : BitVec 64 → m (Except Unit Unit)) (buf : Pod) :
    entropy.getrandom_getentropy_uninit gr buf = (gr buf.size_of_val >>= fun r => match r with | .ok _ => pure buf | .error _ => Panics.panic) := by
  unfold entropy.getrandom_getentropy_uninit from_raw_parts_mut
  rfl

/-- `getentropy` (initialised destination) is `getentropy_uninit` on the same destination, in both back ends -/
theorem getentropy_forwards (gu : Pod → m Pod) (buf : Pod) :
    entropy.raw_getentropy gu buf = gu buf ∧ entropy.getrandom_getentropy gu buf = gu buf := by
  constructor <;> simp [entropy.raw_getentropy, entropy.getrandom_getentropy]

end Urandom.C17R
