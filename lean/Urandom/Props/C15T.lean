import Urandom.Generated.FloatDistr
/-!
# C15 for the parameter logic of Exp / Normal / LogNormal as translated from the source

`tools/extract_float.py` translates the CURRENT text of the macro bodies `impl_exp!`, `impl_normal!`, `impl_log_normal!` (src/distr/exp.rs,
src/distr/normal.rs; invoked for f32 and f64 with the same text) once, generic in the float format, into definitions over the vocabulary of
the IEEE model: the constructors `try_new` / `try_from_mean_cv` (which parameters are accepted, which error is returned, what is stored),
`from_zscore`, and what `Exp::sample` makes of the unit-exponential draw.  The model's functions - which `Props/C15.lean` proves to accept
exactly the documented parameter domain and to produce valid samples - are proved EQUAL to the translations here, for every format, every
libm and every bit pattern.  This is the code in which four of the genuine defects of the pinned tree sat (D3, D4, D5, D7): a relaxed or
reordered validation, another stored value, an unfused or widened transform is a proof break.
-/
namespace Urandom.C15
open Urandom Urandom.IEEE Urandom.FD Urandom.Generated

theorem exp_try_new_translated : @FloatD.exp_try_new = @Exp.tryNew := by
  funext f lambda; rfl

theorem exp_sample_value_translated (f : Fmt) (lambdaInv x : Nat) : FloatD.exp_sample_value f lambdaInv x = mul f x lambdaInv := rfl

theorem normal_try_new_translated : @FloatD.normal_try_new = @Normal.tryNew := by
  funext f mean sd; rfl

theorem normal_try_from_mean_cv_translated : @FloatD.normal_try_from_mean_cv = @Normal.tryFromMeanCv := by
  funext f mean cv; rfl

theorem normal_from_zscore_translated : @FloatD.normal_from_zscore = @Normal.fromZscore := by
  funext f d z; rfl

theorem lognormal_try_new_translated : @FloatD.lognormal_try_new = @LogNormal.tryNew := by
  funext f mu sigma
  unfold FloatD.lognormal_try_new LogNormal.tryNew
  rw [normal_try_new_translated]
  cases Normal.tryNew f mu sigma <;> rfl

theorem lognormal_try_from_mean_cv_translated : @FloatD.lognormal_try_from_mean_cv = @LogNormal.tryFromMeanCv := by
  funext m f mean cv
  unfold FloatD.lognormal_try_from_mean_cv LogNormal.tryFromMeanCv
  rw [normal_try_new_translated]
  split
  · split
    · rfl
    · simp only
      cases Normal.tryNew f (m.ln f mean) (c f 0) <;> rfl
  · split
    · rfl
    · split
      · rfl
      · simp only
        cases Normal.tryNew f _ _ <;> rfl

theorem lognormal_from_zscore_translated : @FloatD.lognormal_from_zscore = @LogNormal.fromZscore := by
  funext m f d z
  unfold FloatD.lognormal_from_zscore LogNormal.fromZscore
  rw [normal_from_zscore_translated]

/-! ### the samplers `StandardNormal` / `Exp1`: densities, tail samplers, the call of `ziggurat::ziggurat`

(`impl Distribution<f32>` of both must be `let x: f64 = self.sample(rand); x as f32` - checked by the translator.) -/

/-- which call of the ziggurat each sampler makes: symmetric with the normal tables, one-sided with the exponential tables -/
theorem sampler_calls_translated :
    FloatD.std_normal_call = (true, "ZIG_NORM_X", "ZIG_NORM_F") ∧ FloatD.exp1_call = (false, "ZIG_EXP_X", "ZIG_EXP_F") := ⟨rfl, rfl⟩

theorem pdfs_translated (m : Libm) : FloatD.std_normal_pdf m = normPdf m ∧ FloatD.exp1_pdf m = expPdf m :=
  ⟨by funext x; rfl, by funext x; rfl⟩

/-- `Exp1`'s tail: ONE `float01()` draw, `R - ln(f)` -/
theorem exp_tail_translated (m : Libm) (R u : Nat) (ws : Words) :
    FloatD.exp1_tail_draws = 1 ∧
    expTail m R ws = (Float01.sample64 ws).map (fun (f, ws') => (FloatD.exp1_tail m R u f, ws')) := by
  refine ⟨rfl, ?_⟩
  unfold expTail
  cases Float01.sample64 ws with
  | none => rfl
  | some r => rfl

/-- `StandardNormal`'s tail (Marsaglia): the loop runs while the translated condition holds, every round draws TWO `float01()` (x first) and
computes the translated step; it starts from the translated initial values -/
theorem norm_tail_loop_translated (m : Libm) (R x y : Nat) (w₁ w₂ w₃ w₄ : BitVec 64) (rest : Words) :
    FloatD.std_normal_tail_draws = 2 ∧
    normTailLoop m R x y (w₁ :: w₂ :: w₃ :: w₄ :: rest) =
      (if FloatD.std_normal_tail_cond x y then
        normTailLoop m R (FloatD.std_normal_tail_step m R x y (Float01.bits64 w₁ w₂) (Float01.bits64 w₃ w₄)).1
          (FloatD.std_normal_tail_step m R x y (Float01.bits64 w₁ w₂) (Float01.bits64 w₃ w₄)).2 rest
       else some ((x, y), w₁ :: w₂ :: w₃ :: w₄ :: rest)) := by
  refine ⟨rfl, ?_⟩
  rw [normTailLoop]
  rfl

theorem norm_tail_translated (m : Libm) (R u : Nat) (ws : Words) :
    normTail m R u ws =
      (match normTailLoop m R FloatD.std_normal_tail_init.1 FloatD.std_normal_tail_init.2 ws with
       | none => none
       | some ((x, y), ws') => some (FloatD.std_normal_tail_result R u x y, ws')) := rfl

end Urandom.C15
