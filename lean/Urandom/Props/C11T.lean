import Urandom.Model.Standard
import Urandom.Generated.ScalarFloat01
/-
C11 (second module) - the bit packing of `Float01` AS TRANSLATED FROM THE SOURCE (`replace_exponent_f32` / `replace_exponent_f64` of
`src/distr/float01.rs`, regenerated into `Urandom.Generated.Scalar.float01` on every run): the model's arithmetic formula
`exp * 2^52 + mantissa mod 2^52` IS what the translated bit operations compute (mask, shift, or), for every value and every exponent
the sampler can pass.  The draws around it (`next_u64().leading_zeros()`, `next_f64()`) stay tied by the correspondence.
-/
namespace Urandom.C11
open Urandom Urandom.Generated

/-- `replace_exponent_f64(value, exp)`: keeps the 52 mantissa bits of `value` and puts `exp` (below 2^11) into the exponent field -/
theorem replace_exponent_f64_translated (v : BitVec 64) (e : BitVec 32) (he : e.toNat < 2 ^ 11) :
    (Scalar.float01.replace_exponent_f64 v e).toNat = e.toNat * 2 ^ 52 + v.toNat % 2 ^ 52 := by
  unfold Scalar.float01.replace_exponent_f64
  simp only [BitVec.toNat_or, BitVec.toNat_and, BitVec.toNat_shiftLeft, BitVec.toNat_setWidth]
  have hm : ((1#64 <<< (53 - 1)) - 1#64).toNat = 2 ^ 52 - 1 := by decide
  rw [hm, Nat.and_two_pow_sub_one_eq_mod]
  have h1 : e.toNat % 2 ^ 64 = e.toNat := Nat.mod_eq_of_lt (by omega)
  have h2 : (e.toNat <<< (53 - 1)) % 2 ^ 64 = e.toNat <<< 52 := by
    rw [Nat.shiftLeft_eq]
    apply Nat.mod_eq_of_lt
    have : e.toNat * 2 ^ 52 < 2 ^ 11 * 2 ^ 52 := Nat.mul_lt_mul_of_pos_right he (by decide)
    omega
  rw [h1, h2]
  have hlt : v.toNat % 2 ^ 52 < 2 ^ 52 := Nat.mod_lt _ (by decide)
  rw [← Nat.shiftLeft_add_eq_or_of_lt hlt, Nat.shiftLeft_eq]

/-- `replace_exponent_f32(value, exp)`: 23 mantissa bits, `exp` below 2^8 -/
theorem replace_exponent_f32_translated (v : BitVec 32) (e : BitVec 32) (he : e.toNat < 2 ^ 8) :
    (Scalar.float01.replace_exponent_f32 v e).toNat = e.toNat * 2 ^ 23 + v.toNat % 2 ^ 23 := by
  unfold Scalar.float01.replace_exponent_f32
  simp only [BitVec.toNat_or, BitVec.toNat_and, BitVec.toNat_shiftLeft]
  have hm : ((1#32 <<< (24 - 1)) - 1#32).toNat = 2 ^ 23 - 1 := by decide
  rw [hm, Nat.and_two_pow_sub_one_eq_mod]
  have h2 : (e.toNat <<< (24 - 1)) % 2 ^ 32 = e.toNat <<< 23 := by
    rw [Nat.shiftLeft_eq]
    apply Nat.mod_eq_of_lt
    have : e.toNat * 2 ^ 23 < 2 ^ 8 * 2 ^ 23 := Nat.mul_lt_mul_of_pos_right he (by decide)
    omega
  rw [h2]
  have hlt : v.toNat % 2 ^ 23 < 2 ^ 23 := Nat.mod_lt _ (by decide)
  rw [← Nat.shiftLeft_add_eq_or_of_lt hlt, Nat.shiftLeft_eq]

/-- **the model's `Float01` (f64) is the translated packing** applied to the model's `next_f64` bits and the exponent `1022 - leading_zeros` -/
theorem float01_bits64_is_translated (w1 w2 : BitVec 64) :
    Float01.bits64 w1 w2 = (Scalar.float01.replace_exponent_f64 (rngF64 w2) (BitVec.ofNat 32 (1022 - clz64 w1))).toNat := by
  have hc : 1022 - clz64 w1 < 2 ^ 11 := by omega
  have he : (BitVec.ofNat 32 (1022 - clz64 w1)).toNat = 1022 - clz64 w1 := by
    rw [BitVec.toNat_ofNat]; exact Nat.mod_eq_of_lt (by omega)
  rw [replace_exponent_f64_translated _ _ (by rw [he]; exact hc), he]
  rfl

/-- the same for f32: mantissa from `next_f32` (the low 32 bits of the mock word), exponent `126 - leading_zeros` of a 64-bit draw -/
theorem float01_bits32_is_translated (w1 w2 : BitVec 64) :
    Float01.bits32 w1 w2 = (Scalar.float01.replace_exponent_f32 (rngF32 (w2.setWidth 32)) (BitVec.ofNat 32 (126 - clz64 w1))).toNat := by
  have hc : 126 - clz64 w1 < 2 ^ 8 := by omega
  have he : (BitVec.ofNat 32 (126 - clz64 w1)).toNat = 126 - clz64 w1 := by
    rw [BitVec.toNat_ofNat]; exact Nat.mod_eq_of_lt (by omega)
  rw [replace_exponent_f32_translated _ _ (by rw [he]; exact hc), he]
  rfl

/-- `u64::leading_zeros` as the translated `sample` receives it: the model's count, as a `u32` -/
def lz64 (w : BitVec 64) : BitVec 32 := BitVec.ofNat 32 (clz64 w)

theorem clz64_le (w : BitVec 64) : clz64 w ≤ 64 := by
  unfold clz64; split <;> omega

/-- **`Float01::sample` (f64) as translated is the model's `Float01`**: the FIRST draw is a `next_u64` whose leading zeros give the exponent
`1022 - lz`, the SECOND a `next_f64` whose mantissa is kept - draw order, constants and the packing are the code's -/
theorem float01_sample64_translated (w1 w2 : BitVec 64) :
    Scalar.float01.sample_f64_draws = ["next_u64", "next_f64"] ∧
    Float01.bits64 w1 w2 = (Scalar.float01.sample_f64 lz64 w1 (rngF64 w2)).toNat := by
  refine ⟨rfl, ?_⟩
  rw [float01_bits64_is_translated]
  have h := clz64_le w1
  have e : (1022#32 - lz64 w1) = BitVec.ofNat 32 (1022 - clz64 w1) := by
    apply BitVec.eq_of_toNat_eq
    unfold lz64
    rw [BitVec.toNat_sub_of_le (by rw [BitVec.le_def]; simp only [BitVec.toNat_ofNat]; omega)]
    simp only [BitVec.toNat_ofNat]; omega
  unfold Scalar.float01.sample_f64
  simp only [e]

/-- the same for f32: a `next_u64` for the exponent `126 - lz`, then a `next_f32` for the mantissa -/
theorem float01_sample32_translated (w1 w2 : BitVec 64) :
    Scalar.float01.sample_f32_draws = ["next_u64", "next_f32"] ∧
    Float01.bits32 w1 w2 = (Scalar.float01.sample_f32 lz64 w1 (rngF32 (w2.setWidth 32))).toNat := by
  refine ⟨rfl, ?_⟩
  rw [float01_bits32_is_translated]
  have h := clz64_le w1
  have e : (126#32 - lz64 w1) = BitVec.ofNat 32 (126 - clz64 w1) := by
    apply BitVec.eq_of_toNat_eq
    unfold lz64
    rw [BitVec.toNat_sub_of_le (by rw [BitVec.le_def]; simp only [BitVec.toNat_ofNat]; omega)]
    simp only [BitVec.toNat_ofNat]; omega
  unfold Scalar.float01.sample_f32
  simp only [e]

end Urandom.C11
