import Urandom.Model.Reservoir
import Urandom.Generated.FloatSingle
/-!
# C06 for `Random::single` as translated from the source

`tools/extract_float.py` checks the frame of `Random::single` (src/random.rs) - the exact-size shortcut `if upper == Some(len) { let index =
usize::min(len, self.index(len)); return iter.nth(index); }`, then `let mut result = None; let mut denom = 1.0; iter.for_each(|item| { .. });
result` - and translates the closure, one item of the reservoir: `self.chance(1.0 / denom)` is a draw from an abstract generator, the two
outcomes are `result = Some(item)` and `drop(item)`, the counter is `denom += 1.0`, all in f64.  The model's reservoir loop (`Reservoir.loop`,
the function C06's None-iff-empty, membership and 1/n theorems are about) is proved to be the fold of this step with the model's `chance`,
whenever the model does not run out of words.
-/
namespace Urandom.C06
open Urandom Urandom.IEEE Urandom.FD Urandom.Reservoir Urandom.Generated

/-- the model's `chance(p)` (`Bernoulli::new(p).sample`) as a total generator function over the mock words -/
def chanceT (ws : Words) (p : Nat) : Bool × Words :=
  match bernoulli p ws with
  | some (b, ws') => (b, ws')
  | none => (false, ws)

theorem one_translated : FloatD.single_denom0 = Reservoir.one ∧ c b64 1 = Reservoir.one := by decide +kernel

theorem single_loop_translated : ∀ (items : List Nat) (denom : Nat) (result r' : Option Nat) (ws ws' : Words),
    Reservoir.loop items denom result ws = some (r', ws') →
    ∃ d', items.foldl (FloatD.single_item chanceT) (denom, result, ws) = (d', r', ws') := by
  intro items
  induction items with
  | nil =>
    intro denom result r' ws ws' h
    simp only [Reservoir.loop, Option.some.injEq, Prod.mk.injEq] at h
    obtain ⟨rfl, rfl⟩ := h
    exact ⟨denom, rfl⟩
  | cons item rest ih =>
    intro denom result r' ws ws' h
    simp only [Reservoir.loop] at h
    cases hb : bernoulli (div b64 Reservoir.one denom) ws with
    | none => rw [hb] at h; cases h
    | some bw =>
      obtain ⟨b, ws1⟩ := bw
      rw [hb] at h
      simp only at h
      obtain ⟨d', hd⟩ := ih _ _ _ _ _ h
      refine ⟨d', ?_⟩
      rw [List.foldl_cons]
      have hstep : FloatD.single_item chanceT (denom, result, ws) item =
          (add b64 denom Reservoir.one, (if b then some item else result), ws1) := by
        unfold FloatD.single_item chanceT
        simp only [one_translated.2, hb]
      rw [hstep]
      exact hd

/-- **`Random::single`'s reservoir as translated is the model's**, for every collection on which the model does not run out of words -/
theorem single_translated (items : List Nat) (r' : Option Nat) (ws ws' : Words) (h : Reservoir.single items ws = some (r', ws')) :
    ∃ d', items.foldl (FloatD.single_item chanceT) (FloatD.single_denom0, none, ws) = (d', r', ws') := by
  rw [one_translated.1]
  exact single_loop_translated items _ _ _ _ _ h

end Urandom.C06
