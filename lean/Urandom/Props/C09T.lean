import Urandom.Props.C09
import Urandom.Props.C01T
import Urandom.Props.C02S
/-!
# C09 for the constructors as translated from the source

`Props/C09.lean` proves that the model's `fromSeed` functions are injective and that different seeds give different streams.  Here the same is
stated of the definitions `tools/extract_scalar.py` translates from the CURRENT source text of `from_seed` in `src/rng/{splitmix64,wyrand,
xoshiro256,chacha}.rs`: a constructor that re-draws, rejects, masks or special-cases a seed - for however few of the 2^64 seeds - no longer
satisfies these statements (or no longer translates), and the check reports C09 even when no such seed is found by the search.
-/
namespace Urandom.C09
open Urandom Urandom.Generated

theorem splitmix_from_seed_translated_injective : Function.Injective Scalar.splitmix.from_seed := fun _ _ h => h
theorem wyrand_from_seed_translated_injective : Function.Injective Scalar.wyrand.from_seed := fun _ _ h => h

/-- **`Xoshiro256::from_seed` (= `urandom::seeded`) as translated is injective and never yields the all-zero state** -/
theorem xoshiro_from_seed_translated_injective : Function.Injective Scalar.xoshiro.from_seed := by
  intro a b h
  rw [C01.xoshiro_from_seed_translated, C01.xoshiro_from_seed_translated] at h
  apply xoshiro_fromSeed_injective
  simp only [C01.words4, Prod.mk.injEq] at h
  cases ha : Xoshiro.fromSeed a; cases hb : Xoshiro.fromSeed b
  rw [ha, hb] at h
  simp only at h
  simp [h.1, h.2.1, h.2.2.1, h.2.2.2]

theorem xoshiro_from_seed_translated_ne_zero (seed : BitVec 64) : Scalar.xoshiro.from_seed seed ≠ (0#64, 0#64, 0#64, 0#64) := by
  rw [C01.xoshiro_from_seed_translated]
  intro h
  apply xoshiro_fromSeed_ne_zero seed
  simp only [C01.words4, Prod.mk.injEq] at h
  cases hs : Xoshiro.fromSeed seed
  rw [hs] at h
  simp only at h
  simp [Xoshiro.zeroS, h.1, h.2.1, h.2.2.1, h.2.2.2]

/-- **`ChaCha::from_seed` as translated is injective** (every variant shares it) -/
theorem chacha_from_seed_translated_injective : Function.Injective Scalar.chacha.from_seed := by
  intro a b h
  rw [C02.chacha_from_seed_translated, C02.chacha_from_seed_translated] at h
  apply chacha_fromSeed_injective
  simp only [C02.words12, Prod.mk.injEq] at h
  cases ha : ChaCha.fromSeed a; cases hb : ChaCha.fromSeed b
  rw [ha, hb] at h
  simp only at h
  simp [h.1, h.2.1, h.2.2.1, h.2.2.2.1, h.2.2.2.2.1, h.2.2.2.2.2.1, h.2.2.2.2.2.2.1, h.2.2.2.2.2.2.2.1, h.2.2.2.2.2.2.2.2.1,
    h.2.2.2.2.2.2.2.2.2.1, h.2.2.2.2.2.2.2.2.2.2.1, h.2.2.2.2.2.2.2.2.2.2.2]

end Urandom.C09
