import Urandom.Model.Standard
import Urandom.Lemmas.Lemire
/-
C11 - Unit floats: next_f32/f64 in [1,2) on an exact grid, Float01 strictly in (0,1).

Pure bit-level statements about `rngF32`, `rngF64` (`src/rng/util.rs`) and `Float01`
(`src/distr/float01.rs`); the IEEE reading of the bit patterns is `IEEE.decode`.
-/
namespace Urandom.C11
open Urandom

/-! ### `next_f32` / `next_f64`: `[1, 2)`, every grid value from equally many words -/

theorem rngF32_toNat (w : BitVec 32) : (rngF32 w).toNat = 0x3F800000 + w.toNat / 2 ^ 9 := by
  unfold rngF32
  have h : (w >>> 9).toNat = w.toNat / 2 ^ 9 := by simp [BitVec.toNat_ushiftRight, Nat.shiftRight_eq_div_pow]
  have hlt : w.toNat / 2 ^ 9 < 2 ^ 23 := by have := w.isLt; omega
  rw [BitVec.toNat_or, h]
  have e : (127#32 <<< 23).toNat = 2 ^ 23 * 127 := by decide
  rw [e, ← Nat.two_pow_add_eq_or_of_lt (i := 23) (b := w.toNat / 2 ^ 9) hlt 127]

theorem rngF64_toNat (w : BitVec 64) : (rngF64 w).toNat = 0x3FF0000000000000 + w.toNat / 2 ^ 12 := by
  unfold rngF64
  have h : (w >>> 12).toNat = w.toNat / 2 ^ 12 := by simp [BitVec.toNat_ushiftRight, Nat.shiftRight_eq_div_pow]
  have hlt : w.toNat / 2 ^ 12 < 2 ^ 52 := by have := w.isLt; omega
  rw [BitVec.toNat_or, h]
  have e : (1023#64 <<< 52).toNat = 2 ^ 52 * 1023 := by decide
  rw [e, ← Nat.two_pow_add_eq_or_of_lt (i := 52) (b := w.toNat / 2 ^ 12) hlt 1023]

/-- **`next_f32 ∈ [1, 2)`**: sign 0, exponent field 127, for every word. -/
theorem rngF32_range (w : BitVec 32) : 0x3F800000 ≤ (rngF32 w).toNat ∧ (rngF32 w).toNat < 0x40000000 := by
  rw [rngF32_toNat]; have := w.isLt; omega

/-- **`next_f64 ∈ [1, 2)`** -/
theorem rngF64_range (w : BitVec 64) :
    0x3FF0000000000000 ≤ (rngF64 w).toNat ∧ (rngF64 w).toNat < 0x4000000000000000 := by
  rw [rngF64_toNat]; have := w.isLt; omega

/-- the IEEE value of `next_f32`: `(2^23 + m)·2^-23` with `m` the top 23 bits of the word -/
theorem rngF32_decode (w : BitVec 32) :
    IEEE.decode IEEE.b32 (rngF32 w).toNat = .fin false (2 ^ 23 + w.toNat / 2 ^ 9) (-23) := by
  rw [rngF32_toNat]
  have hlt : w.toNat / 2 ^ 9 < 2 ^ 23 := by have := w.isLt; omega
  generalize w.toNat / 2 ^ 9 = m at hlt
  have hb : (0x3F800000 + m).testBit 31 = false := by
    apply Nat.testBit_lt_two_pow; omega
  have hex : ((0x3F800000 + m) >>> 23) % 2 ^ 8 = 127 := by
    rw [Nat.shiftRight_eq_div_pow]; omega
  have hm : (0x3F800000 + m) % 2 ^ 23 = m := by omega
  simp only [IEEE.decode, IEEE.b32, hex, hm, IEEE.Fmt.emaxField, IEEE.Fmt.bias]
  simp [hb]

/-- the IEEE value of `next_f64`: `(2^52 + m)·2^-52` -/
theorem rngF64_decode (w : BitVec 64) :
    IEEE.decode IEEE.b64 (rngF64 w).toNat = .fin false (2 ^ 52 + w.toNat / 2 ^ 12) (-52) := by
  rw [rngF64_toNat]
  have hlt : w.toNat / 2 ^ 12 < 2 ^ 52 := by have := w.isLt; omega
  generalize w.toNat / 2 ^ 12 = m at hlt
  have hb : (0x3FF0000000000000 + m).testBit 63 = false := by
    apply Nat.testBit_lt_two_pow; omega
  have hex : ((0x3FF0000000000000 + m) >>> 52) % 2 ^ 11 = 1023 := by
    rw [Nat.shiftRight_eq_div_pow]; omega
  have hm : (0x3FF0000000000000 + m) % 2 ^ 52 = m := by omega
  simp only [IEEE.decode, IEEE.b64, hex, hm, IEEE.Fmt.emaxField, IEEE.Fmt.bias]
  simp [hb]

/-- **Exact grid, f32**: each of the `2^23` values `1 + m·2^-23` is hit by exactly the `2^9`
words `[m·2^9, (m+1)·2^9)`. -/
theorem rngF32_preimage (m : Nat) (w : BitVec 32) :
    (rngF32 w).toNat = 0x3F800000 + m ↔ m * 2 ^ 9 ≤ w.toNat ∧ w.toNat < (m + 1) * 2 ^ 9 := by
  rw [rngF32_toNat, ← shr_preimage, Nat.shiftRight_eq_div_pow]; omega

/-- **Exact grid, f64**: each of the `2^52` values is hit by exactly `2^12` words. -/
theorem rngF64_preimage (m : Nat) (w : BitVec 64) :
    (rngF64 w).toNat = 0x3FF0000000000000 + m ↔ m * 2 ^ 12 ≤ w.toNat ∧ w.toNat < (m + 1) * 2 ^ 12 := by
  rw [rngF64_toNat, ← shr_preimage, Nat.shiftRight_eq_div_pow]; omega

/-! ### every generator's `next_f32` / `next_f64` is one of these two functions of one of its words -/

theorem xoshiro_floats (s : Xoshiro.S) :
    (Xoshiro.gen.f32 s).1 = rngF32 (((Xoshiro.nextPlus s).1 >>> 32).setWidth 32) ∧
    (Xoshiro.gen.f64 s).1 = rngF64 (Xoshiro.nextPlus s).1 ∧
    (Xoshiro.gen.f32 s).2 = Xoshiro.advance s ∧ (Xoshiro.gen.f64 s).2 = Xoshiro.advance s := ⟨rfl, rfl, rfl, rfl⟩

theorem splitmix_floats (s : BitVec 64) :
    (SplitMix.gen.f32 s).1 = rngF32 (((SplitMix.gen.u64 s).1 >>> 32).setWidth 32) ∧
    (SplitMix.gen.f64 s).1 = rngF64 (SplitMix.gen.u64 s).1 := ⟨rfl, rfl⟩

theorem wyrand_floats (s : BitVec 64) :
    (Wyrand.gen.f32 s).1 = rngF32 (((Wyrand.gen.u64 s).1 >>> 32).setWidth 32) ∧
    (Wyrand.gen.f64 s).1 = rngF64 (Wyrand.gen.u64 s).1 := ⟨rfl, rfl⟩

theorem mock_floats (w : BitVec 64) (ws : Words) :
    Mock.f32 (w :: ws) = some (rngF32 (w.setWidth 32), ws) ∧ Mock.f64 (w :: ws) = some (rngF64 w, ws) := ⟨rfl, rfl⟩

/-! ### Float01: strictly inside (0, 1), exact binade probabilities, full-width mantissa -/

theorem clz64_le (w : BitVec 64) : clz64 w ≤ 64 := by unfold clz64; split <;> omega

/-- the leading-zero class `k < 64` is the interval `[2^(63-k), 2^(64-k))` - exactly `2^(63-k)`
words, i.e. probability `2^-(k+1)`; the class `k = 64` is `{0}` -/
theorem clz64_eq_iff (w : BitVec 64) (k : Nat) (hk : k < 64) :
    clz64 w = k ↔ 2 ^ (63 - k) ≤ w.toNat ∧ w.toNat < 2 ^ (64 - k) := by
  unfold clz64
  by_cases h0 : w.toNat = 0
  · simp only [h0, ↓reduceIte]
    have : 0 < 2 ^ (63 - k) := Nat.two_pow_pos _
    omega
  · simp only [h0, ↓reduceIte]
    have hl : w.toNat.log2 < 64 := (Nat.log2_lt h0).2 w.isLt
    have he := Nat.log2_eq_iff (n := w.toNat) (k := 63 - k) h0
    have e2 : 63 - k + 1 = 64 - k := by omega
    rw [e2] at he
    rw [← he]; omega

theorem clz64_eq_64_iff (w : BitVec 64) : clz64 w = 64 ↔ w.toNat = 0 := by
  unfold clz64
  by_cases h0 : w.toNat = 0
  · simp [h0]
  · simp only [h0, ↓reduceIte, iff_false]
    omega

/-- the mantissa of `Float01` is the full top 52 bits of the second draw -/
theorem float01_mantissa (w₂ : BitVec 64) : (rngF64 w₂).toNat % 2 ^ 52 = w₂.toNat / 2 ^ 12 := by
  rw [rngF64_toNat]; have := w₂.isLt; omega

theorem float01_mantissa32 (w₂ : BitVec 64) :
    (rngF32 (w₂.setWidth 32)).toNat % 2 ^ 23 = (w₂.toNat % 2 ^ 32) / 2 ^ 9 := by
  rw [rngF32_toNat]
  have : (w₂.setWidth 32).toNat = w₂.toNat % 2 ^ 32 := by simp
  rw [this]; omega

/-- **closed form**: exponent field `1022 - k`, `k` the number of leading zeros of the first word -/
theorem float01_bits64 (w₁ w₂ : BitVec 64) :
    Float01.bits64 w₁ w₂ = (1022 - clz64 w₁) * 2 ^ 52 + w₂.toNat / 2 ^ 12 := by
  simp only [Float01.bits64, float01_mantissa]

theorem float01_bits32 (w₁ w₂ : BitVec 64) :
    Float01.bits32 w₁ w₂ = (126 - clz64 w₁) * 2 ^ 23 + (w₂.toNat % 2 ^ 32) / 2 ^ 9 := by
  simp only [Float01.bits32, float01_mantissa32]

/-- **`Float01 ∈ (0, 1)` strictly, for every pair of words** (including all-zero and all-one
words): the bit pattern lies between `2^-65` (exponent field 958) and the predecessor of `1.0`. -/
theorem float01_range64 (w₁ w₂ : BitVec 64) :
    958 * 2 ^ 52 ≤ Float01.bits64 w₁ w₂ ∧ Float01.bits64 w₁ w₂ < 1023 * 2 ^ 52 := by
  rw [float01_bits64]
  have := clz64_le w₁
  have := w₂.isLt
  constructor <;> omega

theorem float01_range32 (w₁ w₂ : BitVec 64) :
    62 * 2 ^ 23 ≤ Float01.bits32 w₁ w₂ ∧ Float01.bits32 w₁ w₂ < 127 * 2 ^ 23 := by
  rw [float01_bits32]
  have := clz64_le w₁
  constructor <;> omega

/-- the IEEE value: `(2^52 + m) · 2^(-53-k)`, i.e. in the binade `[2^-(k+1), 2^-k)` -/
theorem float01_decode (w₁ w₂ : BitVec 64) :
    IEEE.decode IEEE.b64 (Float01.bits64 w₁ w₂) =
      .fin false (2 ^ 52 + w₂.toNat / 2 ^ 12) (-53 - (clz64 w₁ : Int)) := by
  rw [float01_bits64]
  have hk := clz64_le w₁
  have hlt : w₂.toNat / 2 ^ 12 < 2 ^ 52 := by have := w₂.isLt; omega
  generalize w₂.toNat / 2 ^ 12 = m at hlt
  generalize clz64 w₁ = k at hk
  have hb : ((1022 - k) * 2 ^ 52 + m).testBit 63 = false := by
    apply Nat.testBit_lt_two_pow; omega
  have hex : (((1022 - k) * 2 ^ 52 + m) >>> 52) % 2 ^ 11 = 1022 - k := by
    rw [Nat.shiftRight_eq_div_pow]; omega
  have hm : ((1022 - k) * 2 ^ 52 + m) % 2 ^ 52 = m := by omega
  simp only [IEEE.decode, IEEE.b64, hex, hm, IEEE.Fmt.emaxField, IEEE.Fmt.bias]
  have h1 : ¬ (1022 - k = 2 ^ 11 - 1) := by omega
  have h2 : ¬ (1022 - k = 0) := by omega
  simp only [h1, h2, ↓reduceIte, hb, IEEE.Val.fin.injEq, true_and]
  omega

example : Float01.bits64 0#64 0#64 = 958 * 2 ^ 52 ∧ Float01.bits64 (-1#64) (-1#64) = 1023 * 2 ^ 52 - 1 := by decide

end Urandom.C11
