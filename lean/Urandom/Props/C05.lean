import Urandom.Lemmas.FisherYates
import Urandom.Lemmas.Index
import Mathlib.Order.Interval.Finset.Nat
/-
C05 - shuffle / partial_shuffle are exact uniform permutations of the slice.

Model: `Urandom.Seq.shuffle`, `Urandom.Seq.partialShuffle` (tied to `Random::shuffle`,
`Random::partial_shuffle` by the `shuf` / `pshuf` correspondence streams).  The word-driven loops
are first related to "explicit draws" loops (`fy`, `pfy`) whose arguments are the successive
`index` / `range` results; the counting statements are about those.  Each index value is in turn
produced by equally many words (C04, `sample_uniform`), so equally many draw outcomes means
equally many word outcomes.
-/
namespace Urandom.C05
open Urandom Urandom.Seq Urandom.FY

theorem swap?_some {a a' : Array Nat} {i j : Nat} (h : swap? a i j = some a') :
    a' = a.swapIfInBounds i j ∧ i < a.size ∧ j < a.size := by
  unfold swap? at h
  split at h
  · rename_i hb; injection h with h; exact ⟨h.symm, hb.1, hb.2⟩
  · simp at h

/-! ### shuffle -/

/-- The word-driven loop of `shuffle` is the explicit-draws Fisher-Yates loop `fy` run on the
index values it obtained, and those are valid draws (`k < i` at the step with `i` elements left). -/
theorem shuffleLoop_eq_fy : ∀ (len : Nat) (a : Array Nat) (ws ws' : Words) (a' : Array Nat),
    shuffleLoop len a ws = some (a', ws') →
    ∃ ks, a' = fy a len ks ∧ (len < IntTy.usize.M → Draws len ks) := by
  intro len
  induction len using Nat.strongRecOn with
  | _ len ih =>
    intro a ws ws' a' h
    match len with
    | 0 => simp [shuffleLoop] at h; exact ⟨[], by simp [fy, h.1], fun _ => by simp [Draws]⟩
    | 1 => simp [shuffleLoop] at h; exact ⟨[], by simp [fy, h.1], fun _ => by simp [Draws]⟩
    | len+2 =>
      simp only [shuffleLoop] at h
      split at h
      · simp at h
      · rename_i k ws1 hk
        split at h
        · simp at h
        · rename_i a1 ha1
          obtain ⟨rfl, _, _⟩ := swap?_some ha1
          obtain ⟨ks, e, hd⟩ := ih (len+1) (by omega) _ ws1 ws' a' h
          refine ⟨k :: ks, by simp [fy, e], fun hl => ?_⟩
          exact ⟨index_lt (len+2) (by omega) hl ws ws1 k hk, hd (by omega)⟩

/-- **Nothing is lost, duplicated or invented**: the shuffled slice is a permutation of the
original (same length), for every slice and every word sequence. -/
theorem shuffle_perm (a a' : Array Nat) (ws ws' : Words) (h : shuffle a ws = some (a', ws')) :
    a'.Perm a ∧ a'.size = a.size := by
  obtain ⟨ks, rfl, _⟩ := shuffleLoop_eq_fy a.size a ws ws' a' h
  exact ⟨fy_perm a _ ks, fy_size a _ ks⟩

/-- **Exact uniformity of `shuffle`**: on a duplicate-free slice, every one of the `n!` orders
arises from exactly one tuple of index draws `(kₙ, …, k₂)`, `kᵢ < i`. -/
theorem shuffle_bijective (a : Array Nat) (hnd : a.toList.Nodup) (σ : List Nat) (hσ : σ.Perm a.toList) :
    ∃! ks, Draws a.size ks ∧ (fy a a.size ks).toList = σ :=
  fy_bijective a hnd σ hσ

/-- the number of draw tuples is `n!` -/
theorem shuffle_draw_count (n : Nat) : (drawSet n).card = n.factorial ∧ ∀ ks, ks ∈ drawSet n ↔ Draws n ks :=
  ⟨card_drawSet n, mem_drawSet n⟩

/-- what a real run does is among those draw tuples -/
theorem shuffle_uses_valid_draws (a a' : Array Nat) (ws ws' : Words) (hs : a.size < IntTy.usize.M)
    (h : shuffle a ws = some (a', ws')) : ∃ ks, Draws a.size ks ∧ a' = fy a a.size ks := by
  obtain ⟨ks, e, hd⟩ := shuffleLoop_eq_fy a.size a ws ws' a' h
  exact ⟨ks, hd hs, e⟩

/-! ### partial_shuffle -/

/-- explicit-draws form of the loop of `partial_shuffle`: at step `i` swap positions `i` and `k` -/
def pfy (a : Array Nat) : Nat → List Nat → Array Nat
  | _, [] => a
  | i, k :: ks => pfy (a.swapIfInBounds i k) (i+1) ks

/-- valid draws: the `j`-th draw lies in `[i+j, len)` -/
def PDraws (len : Nat) : Nat → List Nat → Prop
  | _, [] => True
  | i, k :: ks => i ≤ k ∧ k < len ∧ PDraws len (i+1) ks

theorem pfy_size (a : Array Nat) : ∀ ks i, (pfy a i ks).size = a.size := by
  intro ks
  induction ks generalizing a with
  | nil => intro i; rfl
  | cons k ks ih => intro i; simp [pfy, ih]

theorem pfy_perm (a : Array Nat) : ∀ ks i, (pfy a i ks).Perm a := by
  intro ks
  induction ks generalizing a with
  | nil => intro i; exact .rfl
  | cons k ks ih =>
    intro i
    simp only [pfy]
    refine (ih _ _).trans ?_
    rw [Array.swapIfInBounds_def]
    split
    · split
      · exact Array.swap_perm _ _
      · exact .rfl
    · exact .rfl

/-- positions before `i` are never touched again -/
theorem pfy_frozen (len : Nat) : ∀ (ks : List Nat) (a : Array Nat) (i p : Nat) (hp : p < a.size), p < i →
    PDraws len i ks → (pfy a i ks)[p]'(by rw [pfy_size]; exact hp) = a[p] := by
  intro ks
  induction ks with
  | nil => intro a i p hp _ _; rfl
  | cons k ks ih =>
    intro a i p hp hpi hd
    obtain ⟨hik, _, hd'⟩ := hd
    simp only [pfy]
    rw [ih _ (i+1) p (by simpa using hp) (by omega) hd']
    rw [Array.getElem_swapIfInBounds]
    split <;> (try split) <;> (try omega) <;> rfl

theorem pshufLoop_eq_pfy : ∀ (cnt i : Nat) (a : Array Nat) (ws ws' : Words) (a' : Array Nat),
    pshufLoop cnt i a ws = some (a', ws') →
    ∃ ks, ks.length = cnt ∧ a' = pfy a i ks ∧ (a.size < IntTy.usize.M → PDraws a.size i ks) := by
  intro cnt
  induction cnt with
  | zero =>
    intro i a ws ws' a' h
    simp [pshufLoop] at h
    exact ⟨[], rfl, by simp [pfy, h.1], fun _ => trivial⟩
  | succ cnt ih =>
    intro i a ws ws' a' h
    simp only [pshufLoop] at h
    split at h
    · simp at h
    · rename_i k ws1 hk
      split at h
      · simp at h
      · rename_i a1 ha1
        obtain ⟨rfl, _, _⟩ := swap?_some ha1
        obtain ⟨ks, hl, e, hd⟩ := ih (i+1) _ ws1 ws' a' h
        refine ⟨k :: ks, by simp [hl], by simp [pfy, e], fun hs => ?_⟩
        have := rangeUsize_mem i a.size hs ws ws1 k hk
        exact ⟨this.1, this.2, by simpa using hd (by simpa using hs)⟩

/-- **partial_shuffle only rearranges**: a permutation of the original, same length, for every
`n` (including `n ≥ len`), every slice and every word sequence. -/
theorem partialShuffle_perm (a a' : Array Nat) (n : Nat) (ws ws' : Words)
    (h : partialShuffle a n ws = some (a', ws')) : a'.Perm a ∧ a'.size = a.size := by
  unfold partialShuffle at h
  split at h
  · obtain ⟨ks, _, rfl, _⟩ := pshufLoop_eq_pfy _ 0 a ws ws' a' h
    exact ⟨pfy_perm a ks 0, pfy_size a ks 0⟩
  · injection h with h; injection h with h1 h2; subst h1; exact ⟨.rfl, rfl⟩

/-- `n` is clamped to `len - 1`; slices of length ≤ 1 and `n = 0` are left alone without a draw -/
theorem partialShuffle_noop (a : Array Nat) (n : Nat) (ws : Words) (h : a.size ≤ 1 ∨ n = 0) :
    partialShuffle a n ws = some (a, ws) := by
  unfold partialShuffle
  rcases h with h | h
  · simp [show ¬ a.size > 1 by omega]
  · subst h; split <;> simp [pshufLoop]

theorem swap_at {a : Array Nat} (i k : Nat) (hi : i < a.size) (hk : k < a.size) :
    (a.swapIfInBounds i k)[i]'(by simpa using hi) = a[k] := by
  rw [Array.getElem_swapIfInBounds]
  simp [hi, hk]

/-- **Exact uniformity of `partial_shuffle`**: on a duplicate-free slice the first `|ks|`
positions of the result determine the draws - distinct draw tuples give distinct ordered choices. -/
theorem pfy_injective : ∀ (ks ks' : List Nat) (a : Array Nat) (i : Nat), Inj a → ks.length = ks'.length →
    i + ks.length ≤ a.size → PDraws a.size i ks → PDraws a.size i ks' →
    (∀ p (hp : p < a.size), i ≤ p → p < i + ks.length →
      (pfy a i ks)[p]'(by rw [pfy_size]; exact hp) = (pfy a i ks')[p]'(by rw [pfy_size]; exact hp)) →
    ks = ks' := by
  intro ks
  induction ks with
  | nil => intro ks' a i _ hl _ _ _ _; cases ks' with
    | nil => rfl
    | cons _ _ => simp at hl
  | cons k ks ih =>
    intro ks' a i hinj hl hsz hd hd' heq
    cases ks' with
    | nil => simp at hl
    | cons k' ks' =>
      obtain ⟨hik, hk, hdr⟩ := hd
      obtain ⟨hik', hk', hdr'⟩ := hd'
      simp only [List.length_cons] at hl hsz
      have hi : i < a.size := by omega
      have e := heq i hi (Nat.le_refl _) (by simp)
      simp only [pfy] at e
      rw [pfy_frozen a.size ks _ (i+1) i (by simpa using hi) (by omega) (by simpa using hdr),
        pfy_frozen a.size ks' _ (i+1) i (by simpa using hi) (by omega) (by simpa using hdr'),
        swap_at i k hi hk, swap_at i k' hi hk'] at e
      have hkk : k = k' := hinj _ _ _ _ e
      subst hkk
      congr 1
      refine ih ks' (a.swapIfInBounds i k) (i+1) (inj_swap hinj _ _) (by omega) (by simp; omega)
        (by simpa using hdr) (by simpa using hdr') ?_
      intro p hp h1 h2
      have := heq p (by simpa using hp) (by omega) (by simp; omega)
      simpa [pfy] using this

/-- the set of valid draw tuples of `partial_shuffle` with `n` steps on `len` elements -/
def pdrawSet (len : Nat) : Nat → Nat → Finset (List Nat)
  | 0, _ => {[]}
  | n+1, i => (Finset.Ico i len).biUnion (fun k => (pdrawSet len n (i+1)).image (fun ks => k :: ks))

theorem mem_pdrawSet (len : Nat) : ∀ n i ks, ks ∈ pdrawSet len n i ↔ (ks.length = n ∧ PDraws len i ks) := by
  intro n
  induction n with
  | zero =>
    intro i ks
    simp only [pdrawSet, Finset.mem_singleton]
    constructor
    · rintro rfl; exact ⟨rfl, trivial⟩
    · rintro ⟨h, _⟩; exact List.eq_nil_of_length_eq_zero h
  | succ n ih =>
    intro i ks
    simp only [pdrawSet, Finset.mem_biUnion, Finset.mem_Ico, Finset.mem_image]
    constructor
    · rintro ⟨k, ⟨h1, h2⟩, ks', hks', rfl⟩
      obtain ⟨hl, hd⟩ := (ih (i+1) ks').1 hks'
      exact ⟨by simp [hl], h1, h2, hd⟩
    · cases ks with
      | nil => rintro ⟨h, _⟩; simp at h
      | cons k ks' =>
        rintro ⟨hl, h1, h2, hd⟩
        exact ⟨k, ⟨h1, h2⟩, ks', (ih (i+1) ks').2 ⟨by simpa using hl, hd⟩, rfl⟩

/-- there are `(len-i)(len-i-1)…(len-i-n+1)` draw tuples: as many as ordered choices of `n` out of
`len - i` elements (`Nat.descFactorial`) -/
theorem card_pdrawSet (len : Nat) : ∀ n i, i + n ≤ len → (pdrawSet len n i).card = (len - i).descFactorial n := by
  intro n
  induction n with
  | zero => intro i _; simp [pdrawSet]
  | succ n ih =>
    intro i hle
    simp only [pdrawSet]
    rw [Finset.card_biUnion]
    · have : ∀ k ∈ Finset.Ico i len, ((pdrawSet len n (i+1)).image (fun ks => k :: ks)).card = (len - (i+1)).descFactorial n := by
        intro k _
        rw [Finset.card_image_of_injective _ (List.cons_injective), ih (i+1) (by omega)]
      rw [Finset.sum_congr rfl this, Finset.sum_const, Nat.card_Ico, smul_eq_mul]
      have e : len - i = (len - (i+1)) + 1 := by omega
      rw [e, Nat.succ_descFactorial_succ]
    · intro x _ y _ hxy
      rw [Function.onFun, Finset.disjoint_left]
      intro l hl hl'
      simp only [Finset.mem_image] at hl hl'
      obtain ⟨_, _, rfl⟩ := hl
      obtain ⟨_, _, h⟩ := hl'
      exact hxy (List.cons_eq_cons.1 h).1.symm

/-! ### Non-vacuity -/
example : Draws 3 [2, 0] ∧ fy #[10, 11, 12] 3 [2, 0] = #[11, 10, 12] := by simp [Draws, fy, Array.swapIfInBounds]
example : PDraws 3 0 [2, 1] ∧ pfy #[10, 11, 12] 0 [2, 1] = #[12, 11, 10] := by simp [PDraws, pfy, Array.swapIfInBounds]

end Urandom.C05
