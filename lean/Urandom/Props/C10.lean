import Urandom.Props.C01
import Urandom.Lemmas.Block
/-
C10 - Byte fills write exactly the requested bytes, as the little-endian word stream.

Model: `rngFillWrites` (the write log of `util::rng_fill_bytes`: offsets, lengths, data) and
`Block.fill` (`BlockRngImpl::fill_bytes`), tied to the code by the `fillb` correspondence stream:
every generator x lengths x start offsets x element types x APIs, each run on two canary
backgrounds.  Memory effects outside the modelled writes are observed (canaries; Miri in thorough
runs), not proved.
-/
namespace Urandom.C10
open Urandom Urandom.Block

/-- every write of the log lies inside `[off, off + len)`, and they tile it left to right exactly once -/
def Tiles : Nat → Nat → List Write → Prop
  | off, len, [] => len = 0
  | off, len, w :: ws => w.off = off ∧ w.data.length ≤ len ∧ 0 < w.data.length ∧ Tiles (off + w.data.length) (len - w.data.length) ws

theorem leBytes_pos_len (v : BitVec 64) (n : Nat) : (leBytes v n).length = n := leBytes_length v n

theorem fillTail_tiles (v : BitVec 64) (off len : Nat) (h0 : 0 < len) (h8 : len < 8) :
    Tiles off len (fillTail v off len) := by
  have hc : len = 1 ∨ len = 2 ∨ len = 3 ∨ len = 4 ∨ len = 5 ∨ len = 6 ∨ len = 7 := by omega
  rcases hc with h | h | h | h | h | h | h <;> subst h <;> simp [fillTail, Tiles, leBytes]

/-- **`rng_fill_bytes` writes every byte of the destination exactly once and nothing outside it**:
for every length (0, non-multiples of 8 included) and every start offset the stores of the write log
tile `[off, off + len)` from left to right; no store starts or ends outside. -/
theorem rngFill_tiles {σ : Type} (g : WordGen σ) : ∀ (len : Nat) (s : σ) (off : Nat),
    Tiles off len (rngFillWrites g s off len).1 := by
  intro len
  induction len using Nat.strongRecOn with
  | _ len ih =>
    intro s off
    rw [rngFillWrites]
    by_cases h8 : len ≥ 8
    · simp only [h8, ↓reduceDIte]
      refine ⟨rfl, by simp; omega, by simp, ?_⟩
      simpa using ih (len - 8) (by omega) (g.u64 s).2 (off + 8)
    · simp only [h8, ↓reduceDIte]
      by_cases h0 : len > 0
      · simp only [h0, ↓reduceIte]
        exact fillTail_tiles _ off len h0 (by omega)
      · have : len = 0 := by omega
        subst this
        simp [Tiles]

/-- **the bytes are the little-endian serialisation of the successive 64-bit outputs**, truncated
to the requested length, and exactly `⌈len/8⌉` words are consumed (word-based generators, `Mock`) -/
theorem fill_is_le_word_stream {σ : Type} (g : WordGen σ) (s : σ) (len : Nat) :
    fillBytes g s len = ((g.byteStream ((len + 7) / 8) s).take len, g.after ((len + 7) / 8) s) :=
  fillBytes_eq g s len

/-- the destination is exactly overwritten: applied to any buffer `pre ++ mid ++ post` at offset
`|pre|` with `|mid| = len`, the write log leaves `pre` and `post` untouched -/
theorem fill_touches_only_destination {σ : Type} (g : WordGen σ) (s : σ) (pre mid post : List Byte) :
    applyWrites (pre ++ mid ++ post) (rngFillWrites g s pre.length mid.length).1 =
      pre ++ (g.byteStream ((mid.length + 7) / 8) s).take mid.length ++ post := by
  obtain ⟨c, d, _⟩ := rngFillWrites_spec g mid.length s pre.length
  rw [applyWrites_contig _ pre mid post c (by rw [dataOf_length_rngFill]), d]

/-- a shorter fill is a prefix of a longer one from the same state -/
theorem fill_prefix {σ : Type} (g : WordGen σ) (s : σ) (m n : Nat) (h : m ≤ n) :
    (fillBytes g s m).1 = ((fillBytes g s n).1).take m := C01.fill_prefix g s m n h

theorem fill_length {σ : Type} (g : WordGen σ) (s : σ) (len : Nat) : (fillBytes g s len).1.length = len := by
  rw [fillBytes_eq, List.length_take, g.byteStream_length]; omega

/-! ### the block generator -/

variable {κ β : Type}

theorem take_length (buf : Nat → β) (start n : Nat) : (take buf start n).length = n := by simp [take]

theorem direct_length (C : Core κ β) : ∀ (k : Nat) (c : κ), (direct C k c).1.length = 256 * k := by
  intro k
  induction k with
  | zero => intro c; rfl
  | succ k ih => intro c; simp only [direct, List.length_append, take_length, ih]; omega

theorem fillRem_length (C : Core κ β) (len : Nat) (hl : len < 256) (s : BS κ β) : (fillRem C len s).1.length = len := by
  unfold fillRem
  simp only
  split
  · exact take_length _ _ _
  · simp only [List.length_append, take_length]; omega

/-- **the block generator's `fill_bytes(len)` returns exactly `len` elements** - whole batches
straight from the core, the remainder from the buffer with at most one refill -, for every length
and every buffer state -/
theorem block_fill_length (C : Core κ β) (len : Nat) (s : BS κ β) : (Block.fill C len s).1.length = len := by
  unfold Block.fill
  simp only
  split
  · rw [direct_length]; omega
  · rw [List.length_append, direct_length, fillRem_length C _ (Nat.mod_lt _ (by omega))]
    omega

/-- the typed wrappers (`fill_bytes::<T>`, `fill_bytes_uninit`, `random_bytes`) and the `io::Read`
adapter pass `size_of_val(buf)` bytes to the same routine; `read` reports `Ok(buf.len())`,
`read_exact` `Ok(())` - modelled as: the reported length is the requested length. -/
def readReports (len : Nat) : Nat := len

example : Tiles 3 13 (rngFillWrites Xoshiro.gen (Xoshiro.fromSeed 42#64) 3 13).1 := rngFill_tiles _ 13 _ 3

end Urandom.C10
