import Urandom.Model.Standard
import Urandom.Generated.GlueRandomDistr
import Urandom.Generated.GlueDistr
import Urandom.Generated.GlueStandard
/-!
# `Random::next` / `fill` / `sample` / `coin_flip`, `Samples`, `Map`, `&D`, `Wrapping`, `NonZero*`, tuples as translated (C13; also C11, C14)

`tools/extract_glue.py` translates the CURRENT text of the generic entry points through which every distribution is reached: `Random::next`,
`fill`, `sample`, `float01`, `coin_flip` (src/random.rs), the `&D` blanket impl and `Map` (src/distr.rs), `Samples::next` / `size_hint`
(src/distr/samples.rs), and of src/distr/standard.rs the `Wrapping<T>` impl, the `NonZero*` macro body (`loop { if let Some(nz) =
NonZero::new(rand.next()) { break nz; } }`) and the tuple macro (shape + arities).  Proved for every lawful monad and generator: each entry
point is exactly ONE `sample` of the distribution it names on the SAME generator (`fill`: one per slot, in slice order); and on the model:
`fill` over a primitive type is the model's `seqSample` of that many components, the `NonZero` loop is the model's `nzSample`.
-/
namespace Urandom.C13R
open Urandom Urandom.Glue Urandom.Generated.Glue Urandom.Standard

section generic
variable {m : Type → Type} [Monad m] [LawfulMonad m] {σ T U : Type} (R : Rng m σ) (D : Dist m σ T)

/-- every path to a distribution is one `sample` on the same generator -/
theorem entry_points :
    Random.next R D = D.sample R ∧ Random.sample R D = D.sample R ∧ RefDist.sample R D = D.sample R ∧
    Samples.next R D = (some <$> D.sample R) ∧ Standard.wrapping_sample R D = (Wrapping.mk <$> D.sample R) := by
  refine ⟨?_, ?_, ?_, ?_, ?_⟩ <;> simp [Random.next, Random.sample, RefDist.sample, Samples.next, Standard.wrapping_sample]

theorem float01_entry (F : Dist m σ (BitVec 64)) : Random.float01 R F = F.sample R := by simp [Random.float01]

theorem coin_flip_is_next (nx : m Bool) : Random.coin_flip R nx = nx := by simp [Random.coin_flip]

theorem map_sample (M : Glue.Map m σ T U) : Map.sample R M = (M.f <$> M.distr.sample R) := by simp [Map.sample]

/-- `Samples` never ends: `size_hint` is `(usize::MAX, None)` -/
theorem samples_size_hint (mx : BitVec 64) : Samples.size_hint mx = (mx, none) := rfl

/-- **`Random::fill`**: one `StandardUniform` sample per slot, in slice order, nothing else -/
theorem fill_is_one_sample_per_slot (buf : Slice T) : Random.fill R D buf = forEachSlot buf.len.toNat (D.sample R) := by
  simp [Random.fill]

end generic

/-- the tuple impls: arities 0 to 12, each `(sample::<A>(), sample::<B>(), ..)` in order (shape checked by the translator) -/
theorem tuple_arities : tupleArities = List.range 13 := by decide

/-! ### on the model (scripted words) -/
abbrev DrawM := StateT Words Option

def mockR : Rng DrawM Words :=
  ⟨Mock.u32, Mock.u64, Mock.f32, Mock.f64, fun _ _ => none, fun _ => none, fun ws => some (ws, ws)⟩

/-- `StandardUniform` for a primitive type of the model as a distribution -/
def primDist (checked : Bool) (p : Prim) : Dist DrawM Words Nat := ⟨fun _ => primSample checked p⟩

theorem forEachSlot_is_seqSample (checked : Bool) (p : Prim) : ∀ (n : Nat) (ws : Words),
    forEachSlot (m := DrawM) n (primSample checked p) ws = seqSample checked (List.replicate n p) ws := by
  intro n
  induction n with
  | zero => intro ws; rfl
  | succ n ih =>
    intro ws
    simp only [forEachSlot, List.replicate_succ, seqSample, bind, StateT.bind]
    cases h : primSample checked p ws with
    | none => rfl
    | some r =>
      obtain ⟨v, ws'⟩ := r
      simp only [Option.bind]
      rw [ih ws']
      cases seqSample checked (List.replicate n p) ws' <;> rfl

/-- **`Random::fill` over a primitive type as translated is the model's array sample** (`seqSample` of `len` components) -/
theorem fill_is_model (checked : Bool) (p : Prim) (buf : Slice Nat) (ws : Words) :
    Random.fill mockR (primDist checked p) buf ws = seqSample checked (List.replicate buf.len.toNat p) ws := by
  rw [fill_is_one_sample_per_slot]
  exact forEachSlot_is_seqSample checked p _ ws

/-- **arrays `[T; N]` as translated** (`array::from_fn` over one `StandardUniform` sample per element, in index order) are the model's `seqSample` of
`N` components -/
theorem array_is_model (checked : Bool) (p : Prim) (N : Nat) (ws : Words) :
    Standard.array_sample mockR (primDist checked p) N ws = seqSample checked (List.replicate N p) ws := by
  have h : Standard.array_sample mockR (primDist checked p) N = forEachSlot (m := DrawM) N (primSample checked p) := by
    simp [Standard.array_sample, primDist]
  rw [h]
  exact forEachSlot_is_seqSample checked p N ws

/-! ### the `NonZero*` loop -/

/-- `NonZero::new`: `None` for zero -/
def nzNew (v : Nat) : Option Nat := if v ≠ 0 then some v else none

theorem intSample_cons (bits : Nat) (h : bits ≤ 64) (w : BitVec 64) (ws : Words) : ∃ v, intSample bits (w :: ws) = some (v, ws) := by
  unfold intSample
  split
  · exact ⟨_, rfl⟩
  · exact ⟨_, rfl⟩

/-- **the `NonZero*` loop as translated is the model's `nzSample`** (types of at most 64 bits; `rand.next()` is the model's plain integer
sample): whenever the model returns, the loop returns the same value and leaves the same words, within `ws.length` trips -/
theorem nonzero_loop_is_model (bits : Nat) (h : bits ≤ 64) : ∀ (ws : Words) (v : Nat) (ws' : Words), nzSample bits ws = some (v, ws') →
    Standard.nonzero_sample mockR (intSample bits : DrawM Nat) nzNew ws.length ws = some (some v, ws') := by
  intro ws
  induction ws with
  | nil => intro v ws' hm; simp [nzSample] at hm
  | cons w ws ih =>
    intro v ws' hm
    obtain ⟨x, hx⟩ := intSample_cons bits h w ws
    rw [nzSample, hx] at hm
    simp only [Standard.nonzero_sample, List.length_cons, loopUntilSome, bind, StateT.bind, hx, Option.bind] at *
    by_cases hz : x ≠ 0
    · simp only [hz, if_true, ne_eq, not_false_eq_true] at hm
      simp only [nzNew, hz, if_true, ne_eq, not_false_eq_true]
      obtain ⟨rfl, rfl⟩ := by simpa using hm
      rfl
    · simp only [hz, if_false] at hm
      simp only [nzNew, hz, if_false]
      exact ih v ws' hm

example : Standard.nonzero_sample mockR (intSample 8 : DrawM Nat) nzNew 3 [0x100#64, 0x200#64, 0x7#64] = some (some 7, []) := by
  decide

end Urandom.C13R
