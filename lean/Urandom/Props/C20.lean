import Urandom.Generated.Traits
/-
C20 - Only real CSPRNGs carry the secure marker; ChaCha cannot be seeded from a PRNG.

The guarantee is enforced by rustc's trait checking, so the executable model is the finite *impl
table*, regenerated from the source text of /repo on every run by `tools/extract.py`
(`Urandom.Generated.Traits`).  The theorems are finite decisions over that table; the tie to the
compiler is the probe stream of the check (small programs compiled against the freshly built
crate: accept/reject must equal the table's prediction).  This is a thin use of the technique and
is labelled as such: the trusted part is rustc.
-/
namespace Urandom.C20
open Urandom.Generated

/-- the token `w` occurs in `s` as a whole identifier -/
def mentions (s w : String) : Bool :=
  let isId (c : Char) : Bool := c.isAlphanum || c == '_'
  let toks := (s.toList.splitBy (fun a b => isId a == isId b)).map String.ofList
  toks.contains w

def targets : List String := secureImpls.map (fun i => i.2.2.1)

/-- **Exactly the ChaCha generators and the system-entropy generator carry the marker**: the set of
`impl SecureRng for …` targets in the source is `{ChaCha<8>, ChaCha<12>, ChaCha<20>, System<N>}`;
none of the impls is a blanket impl over a type parameter and none has a where-clause that could
widen it. -/
theorem marker_exact :
    targets.length = 4 ∧ (∀ t ∈ ["ChaCha<8>", "ChaCha<12>", "ChaCha<20>", "System<N>"], t ∈ targets) ∧
    (∀ i ∈ secureImpls, i.2.2.2.2 = false ∧ i.2.2.2.1 = "") ∧
    (∀ i ∈ secureImpls, i.2.2.1 = "System<N>" → i.2.1 = "<const N: usize>") ∧
    (∀ i ∈ secureImpls, i.2.2.1 ≠ "System<N>" → i.2.1 = "") := by
  decide

/-- the statistical generators, `Mock` and `Read` are not among the targets -/
theorem prngs_unmarked :
    ∀ t ∈ targets, ¬ (mentions t "Xoshiro256" ∨ mentions t "SplitMix64" ∨ mentions t "Wyrand" ∨ mentions t "Mock" ∨ mentions t "Read") := by
  decide

/-- **Seeding a ChaCha generator from another generator requires the marker**: the type parameter
of `from_rng` that its argument uses is bounded by `SecureRng` -/
theorem fromRng_requires_marker :
    (mentions fromRngGenerics "SecureRng" ∨ mentions fromRngWhere "SecureRng") = true ∧
    mentions fromRngArgs "Random" = true ∧ mentions fromRngArgs "R" = true ∧ mentions fromRngGenerics "R" = true := by
  decide

/-- **every way of seeding a ChaCha generator from another generator requires the marker**: each
associated function of a ChaCha type that takes a generator (inherent or in a trait impl) bounds
that generator by `SecureRng` in its own generics or where-clause, and there is exactly one -/
theorem every_chacha_seeder_requires_marker :
    (∀ f ∈ chachaSeeders, (mentions f.2.2.2.1 "SecureRng" || mentions f.2.2.2.2.2 "SecureRng") = true) ∧
    chachaSeeders.map (·.2.2.1) = ["from_rng"] := by
  decide

/-- **`csprng()` promises a marked generator, `new()` and `seeded()` do not claim it** -/
theorem lib_return_types :
    (∀ r ∈ libReturns, r.1 = "csprng" → mentions r.2 "SecureRng" = true) ∧
    (∀ r ∈ libReturns, r.1 ≠ "csprng" → mentions r.2 "SecureRng" = false) ∧
    libReturns.map (·.1) = ["new", "seeded", "csprng"] := by
  decide

/-- the marker is a sub-trait of `Rng` (so a marked type is a generator at all) -/
theorem marker_is_subtrait : mentions markerDecl.2 "Rng" = true := by decide

end Urandom.C20
