import Urandom.Model.ReadMock
import Urandom.Lemmas.Fill
/-
C18 - Read / Mock generators pass source data through once, in order, and fail loudly.

Model: `Urandom.ReadGen` (the `Read` generator over a scripted reader with std's `read_exact`
loop) and `Urandom.MockGen`, tied to `src/rng/read.rs` / `src/rng/mock.rs` by the `read` and `mock`
correspondence streams (adversarial reader: 1-byte reads, interrupts before every chunk, errors and
end of data at every offset).
-/
namespace Urandom.C18
open Urandom Urandom.ReadGen

/-- one `read` call never invents data: it removes a prefix of the remaining data -/
theorem read_ok (r : Reader) (want n : Nat) (r' : Reader) (h : r.read want = (.ok n, r')) :
    n ≤ want ∧ n ≤ r.data.length ∧ r'.data = r.data.drop n := by
  unfold Reader.read at h
  split at h
  · simp only [Prod.mk.injEq, ReadResult.ok.injEq] at h
    obtain ⟨rfl, rfl⟩ := h
    exact ⟨Nat.min_le_left _ _, Nat.min_le_right _ _, rfl⟩
  · simp only [Prod.mk.injEq, ReadResult.ok.injEq] at h
    obtain ⟨rfl, rfl⟩ := h
    refine ⟨?_, Nat.min_le_right _ _, rfl⟩
    exact Nat.le_trans (Nat.min_le_left _ _) (Nat.min_le_right _ _)
  · simp at h
  · simp at h

theorem read_other (r : Reader) (want : Nat) (r' : Reader) (h : r.read want = (.interrupted, r') ∨ r.read want = (.error, r')) :
    r'.data = r.data := by
  unfold Reader.read at h
  split at h <;> simp at h <;> (try rcases h with ⟨_, rfl⟩) <;> rfl

/-- **Never fabricated data.** Whenever `read_exact` succeeds - whatever the reader's chunking,
interruptions and position - it delivers exactly the next `want` bytes of the underlying data, in
order, and the reader has advanced by exactly that many bytes (each byte used once). -/
theorem readExact_some : ∀ (fuel want : Nat) (r : Reader) (acc b : List Byte) (r' : Reader),
    readExact fuel want r acc = (some b, r') →
    b = acc ++ r.data.take want ∧ r'.data = r.data.drop want ∧ want ≤ r.data.length := by
  intro fuel
  induction fuel with
  | zero => intro want r acc b r' h; simp [readExact] at h
  | succ fuel ih =>
    intro want r acc b r' h
    cases want with
    | zero =>
      simp only [readExact, Prod.mk.injEq, Option.some.injEq] at h
      obtain ⟨rfl, rfl⟩ := h
      simp
    | succ want =>
      simp only [readExact] at h
      split at h
      · simp at h
      · rename_i n r1 hn0 hr
        obtain ⟨h1, h2, h3⟩ := read_ok r (want+1) n r1 hr
        have hpos : 0 < n := Nat.pos_of_ne_zero (by intro e; subst e; exact hn0 rfl)
        obtain ⟨e1, e2, e3⟩ := ih _ _ _ _ _ h
        rw [h3] at e1 e2 e3
        simp only [List.length_drop] at e3
        refine ⟨?_, ?_, by omega⟩
        · rw [e1, List.append_assoc]
          congr 1
          have : want + 1 = n + (want + 1 - n) := by omega
          conv => rhs; rw [this, List.take_add]
        · rw [e2, List.drop_drop]; congr 1; omega
      · rename_i r1 hr
        obtain ⟨e1, e2, e3⟩ := ih _ _ _ _ _ h
        have := read_other r (want+1) r1 (Or.inl hr)
        rw [this] at e1 e2 e3
        exact ⟨e1, e2, e3⟩
      · simp at h

theorem exact_some (r : Reader) (n : Nat) (b : List Byte) (r' : Reader) (h : r.exact n = (some b, r')) :
    b = r.data.take n ∧ r'.data = r.data.drop n := by
  obtain ⟨e1, e2, _⟩ := readExact_some _ n r [] b r' h
  exact ⟨by simpa using e1, e2⟩

/-- a script without errors -/
def NoErr (script : List Ev) : Prop := Ev.err ∉ script

/-- **Chunking and interruptions are irrelevant**: if the reader does not fail and holds at least
`want` more bytes, `read_exact` succeeds with the next `want` bytes - however the reader chunks
(short reads, 1-byte reads) and however often it reports `Interrupted`. -/
theorem readExact_succeeds : ∀ (fuel want : Nat) (r : Reader) (acc : List Byte), NoErr r.script →
    want ≤ r.data.length → r.script.length + want + 1 ≤ fuel →
    ∃ r', readExact fuel want r acc = (some (acc ++ r.data.take want), r') ∧ r'.data = r.data.drop want ∧ NoErr r'.script := by
  intro fuel
  induction fuel with
  | zero => intro want r acc _ _ hf; omega
  | succ fuel ih =>
    intro want r acc hne hlen hf
    cases want with
    | zero => exact ⟨r, by simp [readExact], by simp, hne⟩
    | succ want =>
      obtain ⟨data, script⟩ := r
      simp only at hne hlen hf
      cases script with
      | nil =>
        have hmin : min (want + 1) data.length = want + 1 := by omega
        have hr : (Reader.mk data []).read (want+1) = (.ok (want+1), ⟨data.drop (want+1), []⟩) := by
          simp [Reader.read, hmin]
        simp only [readExact, hr]
        obtain ⟨r', e1, e2, e3⟩ := ih 0 ⟨data.drop (want+1), []⟩ (acc ++ data.take (want+1)) hne (by simp) (by simp at hf ⊢; omega)
        refine ⟨r', ?_, ?_, e3⟩
        · simp only [Nat.sub_self]; rw [e1]; simp
        · rw [e2]; simp
      | cons ev rest =>
        have hne' : NoErr rest := fun h => hne (List.mem_cons_of_mem _ h)
        cases ev with
        | chunk k =>
          let n := min (min (max k 1) (want+1)) data.length
          have hn1 : 0 < n := by simp only [n]; omega
          have hn2 : n ≤ want + 1 := by simp only [n]; omega
          have hr : (Reader.mk data (Ev.chunk k :: rest)).read (want+1) = (.ok n, ⟨data.drop n, rest⟩) := by
            simp [Reader.read, n]
          simp only [readExact, hr]
          have hnz : n ≠ 0 := by omega
          obtain ⟨r', e1, e2, e3⟩ := ih (want + 1 - n) ⟨data.drop n, rest⟩ (acc ++ data.take n) hne'
            (by simp; omega) (by simp at hf ⊢; omega)
          split
          · rename_i heq; simp only [Prod.mk.injEq, ReadResult.ok.injEq] at heq; exact absurd heq.1 hnz
          · rename_i n' r1 _ heq
            simp only [Prod.mk.injEq, ReadResult.ok.injEq] at heq
            obtain ⟨rfl, rfl⟩ := heq
            refine ⟨r', ?_, ?_, e3⟩
            · rw [e1, List.append_assoc]
              congr 2
              have : want + 1 = n + (want + 1 - n) := by omega
              conv => rhs; rw [this, List.take_add]
            · rw [e2]; simp only [List.drop_drop]; congr 1; omega
          · rename_i heq; simp at heq
          · rename_i heq; simp at heq
        | intr =>
          have hr : (Reader.mk data (Ev.intr :: rest)).read (want+1) = (.interrupted, ⟨data, rest⟩) := by
            simp [Reader.read]
          simp only [readExact, hr]
          exact ih (want+1) ⟨data, rest⟩ acc hne' hlen (by simp at hf ⊢; omega)
        | err => exact absurd (List.mem_cons_self) hne

/-- end of data inside a request is a failure (panic), never a short or padded result -/
theorem exact_eof (r : Reader) (n : Nat) (h : r.data.length < n) : (r.exact n).1 = none := by
  cases hres : (r.exact n).1 with
  | none => rfl
  | some b =>
    have : r.exact n = (some b, (r.exact n).2) := by rw [← hres]
    have := (readExact_some _ n r [] b _ this).2.2
    omega

/-- **`Read`: words are the next 4 / 8 bytes assembled little-endian, fills are the next `n`
bytes; a failed or short read panics; `jump` does nothing.** -/
theorem step_u32 (r : Reader) :
    (∃ r', step r .u32 = (.val (leVal (r.data.take 4)), r') ∧ r'.data = r.data.drop 4) ∨ (step r .u32).1 = .panic := by
  simp only [step]
  cases h : r.exact 4 with
  | mk o r' => cases o with
    | none => right; rfl
    | some b => obtain ⟨e1, e2⟩ := exact_some r 4 b r' h; left; exact ⟨r', by rw [e1], e2⟩

theorem step_u64 (r : Reader) :
    (∃ r', step r .u64 = (.val (leVal (r.data.take 8)), r') ∧ r'.data = r.data.drop 8) ∨ (step r .u64).1 = .panic := by
  simp only [step]
  cases h : r.exact 8 with
  | mk o r' => cases o with
    | none => right; rfl
    | some b => obtain ⟨e1, e2⟩ := exact_some r 8 b r' h; left; exact ⟨r', by rw [e1], e2⟩

theorem step_fill (r : Reader) (n : Nat) :
    (∃ r', step r (.fill n) = (.bytes (r.data.take n), r') ∧ r'.data = r.data.drop n) ∨ (step r (.fill n)).1 = .panic := by
  simp only [step]
  cases h : r.exact n with
  | mk o r' => cases o with
    | none => right; rfl
    | some b => obtain ⟨e1, e2⟩ := exact_some r n b r' h; left; exact ⟨r', by rw [e1], e2⟩

theorem step_jump (r : Reader) : step r .jump = (.unit, r) := rfl

/-! ### Mock -/

/-- **`Mock` returns exactly the provided words in order**: `next_u64` is the next word, `next_u32`
its low half (one word consumed), exhaustion and `jump` panic -/
theorem mock_spec (w : BitVec 64) (ws : Words) :
    MockGen.step (w :: ws) .u64 = (.val w.toNat, ws) ∧
    MockGen.step (w :: ws) .u32 = (.val (w.toNat % 2 ^ 32), ws) ∧
    MockGen.step [] .u64 = (.panic, []) ∧ MockGen.step [] .u32 = (.panic, []) ∧
    (MockGen.step (w :: ws) .jump).1 = .panic := ⟨rfl, rfl, rfl, rfl, rfl⟩

/-- `Mock::fill_bytes` panics exactly when fewer than `⌈n/8⌉` words are left -/
theorem mock_fill_panics_iff (ws : Words) (n : Nat) :
    (MockGen.step ws (.fill n)).1 = .panic ↔ ws.length < (n + 7) / 8 := by
  simp only [MockGen.step]
  split <;> simp_all

example : (Reader.mk [1#8, 2#8, 3#8, 4#8, 5#8] [.chunk 1, .intr, .chunk 2]).exact 4 =
    (some [1#8, 2#8, 3#8, 4#8], ⟨[5#8], []⟩) := by rfl

end Urandom.C18
