import Mathlib.Algebra.Order.Field.Basic
import Mathlib.Order.Monotone.Basic
import Mathlib.Tactic.Linarith
import Mathlib.Tactic.Ring
import Urandom.Model.ZigData
import Urandom.Lemmas.ExpEnclosure
import Urandom.Lemmas.ZigguratLaw
import Urandom.Lemmas.TailLaw
import Urandom.Lemmas.BaseLayer
/-
C16 - Normal and exponential samplers really have the normal / exponential law.  **PARTIAL.**

What is decided here:
 (1) the table invariants, re-proved by the kernel on the tables translated from the source on every
     run (`Urandom.Generated.ZigTables`, exact decimal rationals): length 257, abscissae strictly
     decreasing to 0, ordinates strictly increasing to 1, the tail cut-off `R` equals `X[1]`, all 255
     upper layers and the base strip have equal area to within the tables' own accuracy, and for the
     exponential table `X[0] = R + 1` (its tail area);
 (3) the acceptance region of a ziggurat step is exactly the region under the density curve, for any
     antitone density and any exact table over an ordered field (rectangle fast path included), and
     the accepted value lies in the layer's rectangle.

 (4) **the law of the method**, for the idealised algorithm (exact real arithmetic, exactly uniform
     draws; `Lemmas/ZigguratLaw`, Mathlib measure theory): with pairwise disjoint layers of equal
     area covering the region under a measurable `f`, a uniform layer, a uniform point in it and
     rejection outside the region under the curve give an abscissa with density `f / ∫ f`
     (`ziggurat_law`). Together with (3) - the code's test IS membership in the region under the
     curve - and (1), (2) - the tables are such layers for `exp(-x²/2)` / `exp(-x)` to the stated
     accuracy - this is the correctness argument of the sampler.
What is NOT decided: the effect of floating point and of the 2^-28 / 2^-42 inexactness of the
tables' areas on the law (a goodness-of-fit search on the implementation covers it, not a proof),
and the assembly of the base layer from its rectangle and its tail (`ziggurat_law` assumes a uniform point
of `R 0`; (5) proves that the two TAIL samplers have the conditional laws that this needs).
 (5) **the tail samplers** (idealised; `Lemmas/TailLaw`): `R - ln U` is a unit exponential conditioned on
     exceeding `R`; Marsaglia's loop (`x = ln(U1)/R`, `y = ln(U2)` until `-2 y >= x^2`, result `R - x`)
     has the standard normal law conditioned on `[R, ∞)`.
 (6) **the base layer** (idealised; `Lemmas/BaseLayer`): `x = u X[0]`, returned if `x < R`, else the tail sampler - under the
     tail relation `(X[0] - R) f(R) = ∫_R^∞ f` this is the abscissa of a uniform point of the base layer; for the exponential
     table the relation is `X[0] = R + 1` (proved in (1)), for the normal table it is a hypothesis (needs erfc enclosures).
 (2) **every tabulated ordinate equals the density at the tabulated abscissa** (`Real.exp`, relative
     `10^-13`, all 2 x 257 entries of the tables as they are in the source now): integer-only
     enclosures of `Real.exp` (`Lemmas/ExpEnclosure`: degree-19 Taylor fraction, Mathlib's remainder
     bound, `exp (k x) = (exp x)^k`) evaluated by the kernel.
-/
namespace Urandom.C16
open Urandom.Generated

/-! ### (1) table invariants on the translated tables -/

/-- all entries of a table use the same power of ten -/
def sameScale (t : List (Nat × Nat)) (k : Nat) : Bool := t.all (·.2 == k)

def nums (t : List (Nat × Nat)) : List Nat := t.map (·.1)

def strictlyDecreasing : List Nat → Bool
  | a :: b :: rest => decide (b < a) && strictlyDecreasing (b :: rest)
  | _ => true

def strictlyIncreasing : List Nat → Bool
  | a :: b :: rest => decide (a < b) && strictlyIncreasing (b :: rest)
  | _ => true

/-- layer areas: `X[i]·(F[i+1] − F[i])` for `i = 1 … 255` against the base strip `X[0]·F[1]`
(all numerators over `10^36`); relative tolerance `2^-tolBits` -/
def areasEqual (xs fs : List Nat) (tolBits : Nat) : Bool :=
  match xs, fs with
  | x0 :: xr, _ :: f1 :: fr =>
    let v := x0 * f1
    let rec go : List Nat → List Nat → Nat → Bool
      | x :: xr', f' :: fr', fprev =>
        let a := x * (f' - fprev)
        decide ((if a ≥ v then a - v else v - a) * 2 ^ tolBits ≤ v) && go xr' fr' f'
      | _, _, _ => true
    go xr fr f1
  | _, _ => false

/-- **normal table** (as translated from the source now) -/
theorem norm_table_ok :
    ZIG_NORM_X.length = 257 ∧ ZIG_NORM_F.length = 257 ∧ ZIG_NORM_X_len = 257 ∧ ZIG_NORM_F_len = 257 ∧
    sameScale ZIG_NORM_X 18 = true ∧ sameScale ZIG_NORM_F 18 = true ∧
    strictlyDecreasing (nums ZIG_NORM_X) = true ∧ (nums ZIG_NORM_X).getLast? = some 0 ∧
    strictlyIncreasing (nums ZIG_NORM_F) = true ∧ (nums ZIG_NORM_F).getLast? = some (10 ^ 18) ∧
    (nums ZIG_NORM_X)[1]? = some ZIG_NORM_R.1 ∧ ZIG_NORM_R.2 = 18 ∧
    areasEqual (nums ZIG_NORM_X) (nums ZIG_NORM_F) 28 = true := by
  decide +kernel

/-- **exponential table**; its tail beyond `R` has area `F[1]·1`, so `X[0] = R + 1` (to `2^-48`) -/
theorem exp_table_ok :
    ZIG_EXP_X.length = 257 ∧ ZIG_EXP_F.length = 257 ∧ ZIG_EXP_X_len = 257 ∧ ZIG_EXP_F_len = 257 ∧
    sameScale ZIG_EXP_X 18 = true ∧ sameScale ZIG_EXP_F 18 = true ∧
    strictlyDecreasing (nums ZIG_EXP_X) = true ∧ (nums ZIG_EXP_X).getLast? = some 0 ∧
    strictlyIncreasing (nums ZIG_EXP_F) = true ∧ (nums ZIG_EXP_F).getLast? = some (10 ^ 18) ∧
    (nums ZIG_EXP_X)[1]? = some ZIG_EXP_R.1 ∧ ZIG_EXP_R.2 = 18 ∧
    areasEqual (nums ZIG_EXP_X) (nums ZIG_EXP_F) 42 = true ∧
    (let x0 := (nums ZIG_EXP_X).headD 0
     let r1 := ZIG_EXP_R.1 + 10 ^ 18
     (if x0 ≥ r1 then x0 - r1 else r1 - x0) * 2 ^ 48 ≤ r1) := by
  decide +kernel

/-- the bit patterns the model uses are the correctly rounded decimals (by definition of `decBits`);
anchors: `ZIG_NORM_R`, the first and the last abscissa -/
theorem table_bits_anchor :
    FD.tables.normR = 0x400D3BB48209AD33 ∧ FD.tables.normX.size = 257 ∧ FD.tables.expX.size = 257 ∧
    FD.tables.normX.getD 256 1 = 0 ∧ FD.tables.normF.getD 256 0 = 0x3FF0000000000000 := by
  decide +kernel

/-! ### (2) the ordinates are the density at the abscissae -/

def normEntries : List (ℕ × ℕ) := (nums ZIG_NORM_X).zip (nums ZIG_NORM_F)
def expEntries : List (ℕ × ℕ) := (nums ZIG_EXP_X).zip (nums ZIG_EXP_F)

/-- `exp (-x²/2)` at `x = N/10^18` is `exp (-(N²)/(2·10^36))`, reduced by `16` -/
def normOrdinatesOk : Bool := normEntries.all fun p => ExpEncl.entryOk (p.1 * p.1) (2 * 10 ^ 36) 16 p.2
/-- `exp (-x)` at `x = N/10^18`, reduced by `32` -/
def expOrdinatesOk : Bool := expEntries.all fun p => ExpEncl.entryOk p.1 (10 ^ 18) 32 p.2

theorem norm_ordinates_kernel : normOrdinatesOk = true := by decide +kernel
theorem exp_ordinates_kernel : expOrdinatesOk = true := by decide +kernel

/-- **normal table: every tabulated ordinate `F[i]` is the density `exp (-X[i]²/2)` at the tabulated
abscissa**, to a relative `10^-13` (the tables carry 18 decimals and were generated in double
precision), for all 257 entries of the table as it is in the source now -/
theorem norm_ordinates_are_density :
    normEntries.length = 257 ∧
    ∀ p ∈ normEntries, |Real.exp (-((p.1 : ℝ) / 10 ^ 18) ^ 2 / 2) - (p.2 : ℝ) / 10 ^ 18| ≤ (p.2 : ℝ) / 10 ^ 18 / 10 ^ 13 := by
  refine ⟨by decide +kernel, fun p hp => ?_⟩
  have h := List.all_eq_true.1 norm_ordinates_kernel p hp
  have hs := ExpEncl.entryOk_sound (p.1 * p.1) (2 * 10 ^ 36) 16 p.2 (by decide) h
  have e : -((p.1 : ℝ) / 10 ^ 18) ^ 2 / 2 = -(((p.1 * p.1 : ℕ) : ℝ)) / ((2 * 10 ^ 36 : ℕ) : ℝ) := by
    push_cast; ring
  rw [e]; exact hs

/-- **exponential table: every tabulated ordinate `F[i]` is the density `exp (-X[i])`**, likewise -/
theorem exp_ordinates_are_density :
    expEntries.length = 257 ∧
    ∀ p ∈ expEntries, |Real.exp (-((p.1 : ℝ) / 10 ^ 18)) - (p.2 : ℝ) / 10 ^ 18| ≤ (p.2 : ℝ) / 10 ^ 18 / 10 ^ 13 := by
  refine ⟨by decide +kernel, fun p hp => ?_⟩
  have h := List.all_eq_true.1 exp_ordinates_kernel p hp
  have hs := ExpEncl.entryOk_sound p.1 (10 ^ 18) 32 p.2 (by decide) h
  have e : -((p.1 : ℝ) / 10 ^ 18) = -((p.1 : ℝ)) / ((10 ^ 18 : ℕ) : ℝ) := by
    push_cast; ring
  rw [e]; exact hs

/-! ### (3) the acceptance region is the region under the curve -/

section acceptance
variable {K : Type} [Field K] [LinearOrder K] [IsStrictOrderedRing K]

/-- one iteration of the loop for layer `i ≥ 1`, abscissa factor `u`, wedge draw `t`:
`some x` = return `x`, `none` = reject and loop -/
def stepPos (x f : ℕ → K) (pdf : K → K) (i : ℕ) (u t : K) : Option K :=
  let X := u * x i
  if X < x (i + 1) then some X
  else if f (i + 1) + (f i - f (i + 1)) * t < pdf X then some X
  else none

/-- an exact table for an antitone density: abscissae strictly decreasing, non-negative, ordinates
equal to the density at the abscissae -/
structure ExactTable (x f : ℕ → K) (pdf : K → K) : Prop where
  x_anti : ∀ i, x (i + 1) < x i
  x_nonneg : ∀ i, 0 ≤ x i
  f_eq : ∀ i, f i = pdf (x i)
  pdf_anti : ∀ a b, 0 ≤ a → a ≤ b → pdf b ≤ pdf a

/-- the point sampled in layer `i`: abscissa `u·x_i`, ordinate between `f_i` and `f_{i+1}` -/
def ordinate (f : ℕ → K) (i : ℕ) (t : K) : K := f (i + 1) + (f i - f (i + 1)) * t

/-- **a ziggurat step accepts iff the sampled point lies strictly under the density curve**; the
rectangle fast path is exactly the case where that holds whatever the wedge draw is -/
theorem accept_iff_under (x f : ℕ → K) (pdf : K → K) (T : ExactTable x f pdf) (i : ℕ) (u t : K)
    (hu : 0 < u) (ht : 0 < t) (hstrict : f i < f (i + 1)) :
    (stepPos x f pdf i u t).isSome ↔ ordinate f i t < pdf (u * x i) := by
  unfold stepPos ordinate
  simp only
  split
  · rename_i h
    simp only [Option.isSome_some, true_iff]
    have hX0 : 0 ≤ u * x i := mul_nonneg hu.le (T.x_nonneg i)
    have h1 : pdf (x (i + 1)) ≤ pdf (u * x i) := T.pdf_anti _ _ hX0 h.le
    rw [← T.f_eq] at h1
    have h2 : (f i - f (i + 1)) * t < 0 := mul_neg_of_neg_of_pos (by linarith) ht
    linarith
  · split
    · rename_i h2; simp [h2]
    · rename_i h2; simp [h2]

/-- the returned value is the sampled abscissa, inside layer `i`'s rectangle -/
theorem accept_value (x f : ℕ → K) (pdf : K → K) (T : ExactTable x f pdf) (i : ℕ) (u t r : K)
    (hu : 0 < u) (hu1 : u < 1) (h : stepPos x f pdf i u t = some r) : r = u * x i ∧ 0 ≤ r ∧ r < x i := by
  have hr : r = u * x i := by
    unfold stepPos at h
    simp only at h
    split at h
    · exact (Option.some.inj h).symm
    · split at h
      · exact (Option.some.inj h).symm
      · exact absurd h (by simp)
  refine ⟨hr, ?_, ?_⟩
  · rw [hr]; exact mul_nonneg hu.le (T.x_nonneg i)
  · rw [hr]
    have hxi : 0 < x i := lt_of_le_of_lt (T.x_nonneg (i+1)) (T.x_anti i)
    calc u * x i < 1 * x i := by exact mul_lt_mul_of_pos_right hu1 hxi
      _ = x i := one_mul _

/-- the symmetric case returns `x` with `|x|` tested: sign handling preserves the magnitude test -/
theorem symmetric_test (x1 : K) (X : K) : (|X| < x1) ↔ (-x1 < X ∧ X < x1) := abs_lt

/-- the tails return values beyond the cut-off: `R − ln(U) ≥ R` and `±(R − ln(U₁)/R)` with magnitude
`≥ R`, whenever `ln U ≤ 0` (i.e. `U ≤ 1`) -/
theorem tail_beyond_cutoff (R l : K) (hR : 0 < R) (hl : l ≤ 0) : R ≤ R - l ∧ R ≤ R - l / R := by
  constructor
  · linarith
  · have : l / R ≤ 0 := div_nonpos_of_nonpos_of_nonneg hl hR.le
    linarith

end acceptance

/-
The full statement - the pushforward of the uniform measure on word streams under `stdNormal` /
`exp1` is N(0,1) / Exp(1) - is NOT proved and not stated as a Lean proposition: its
measure-theoretic formulation (rejection sampling, Marsaglia's tail method, `erfc` for the normal
tail area) is outside this task; see DESIGN.md 6.  C16 is claimed as partial.
-/

/-! ### (4) the law of the method -/

/-- **the ziggurat method samples the density `f / ∫ f`** (idealised algorithm: exact reals, exactly
uniform draws) - see `Lemmas/ZigguratLaw`. The hypotheses are what (1)-(3) establish for the code
and its tables: the layers are pairwise disjoint, of equal area, cover the region under the curve,
and a point is kept exactly when it lies under the curve. -/
theorem ziggurat_method_law {n : ℕ} (f : ℝ → ℝ) (hf : Measurable f)
    (R : Fin n → Set (ℝ × ℝ)) (hR : ∀ i, MeasurableSet (R i))
    (hd : Pairwise (Function.onFun Disjoint R)) (v : ENNReal) (hv : ∀ i, MeasureTheory.volume (R i) = v) (hvt : v ≠ ⊤)
    (hn : 0 < n) (hcover : ZigLaw.under f ⊆ ⋃ i, R i) :
    MeasureTheory.Measure.map Prod.fst
        (ProbabilityTheory.cond ((n : ENNReal)⁻¹ • ∑ i, ProbabilityTheory.cond (MeasureTheory.volume : MeasureTheory.Measure (ℝ × ℝ)) (R i)) (ZigLaw.under f)) =
      (∫⁻ x, ENNReal.ofReal (f x))⁻¹ • (MeasureTheory.volume : MeasureTheory.Measure ℝ).withDensity (fun x => ENNReal.ofReal (f x)) :=
  ZigLaw.ziggurat_law f hf R hR hd v hv hvt hn hcover

/-! ### (5) the tail samplers -/

/-- **`ZIG_EXP_R - float01().ln()`** (the `zero_case` of `exp.rs`), idealised: for a uniform `U` on `(0,1)` the
result is a unit exponential variable conditioned on exceeding `R` -/
theorem exp_tail_sampler_law {R : ℝ} (hR : 0 ≤ R) :
    MeasureTheory.Measure.map (fun u => R - Real.log u) TailLaw.unif =
      ProbabilityTheory.cond (ProbabilityTheory.expMeasure 1) (Set.Ioi R) :=
  TailLaw.exp_tail_sampler_law hR

/-- **the loop of `zero_case` in `normal.rs`** (Marsaglia's tail method), idealised: with independent uniform
`U1, U2` on `(0,1)`, `x = ln(U1)/R`, `y = ln(U2)`, repeated until `-2 y >= x^2` (conditioning), the result `R - x`
has the standard normal law conditioned on `[R, ∞)` -/
theorem normal_tail_sampler_law {R : ℝ} (hR : 0 < R) :
    MeasureTheory.Measure.map (fun u : ℝ × ℝ => R - Real.log u.1 / R)
        (ProbabilityTheory.cond (TailLaw.unif.prod TailLaw.unif) {u | (Real.log u.1 / R) ^ 2 ≤ -2 * Real.log u.2}) =
      ProbabilityTheory.cond (ProbabilityTheory.gaussianReal 0 1) (Set.Ici R) :=
  TailLaw.normal_tail_sampler_is_conditioned_normal hR

/-- the draws of the two theorems above are uniform on `(0,1)`, and `-ln` of one is a unit exponential -/
theorem neg_log_uniform_is_exponential :
    MeasureTheory.Measure.map (fun u => -Real.log u) ((MeasureTheory.volume : MeasureTheory.Measure ℝ).restrict (Set.Ioo 0 1)) =
      ProbabilityTheory.expMeasure 1 :=
  TailLaw.neg_log_uniform

/-! ### (6) the base layer: rectangle + tail -/

/-- **the `i == 0` branch**, idealised: `x = u * x0` with `u` uniform on `(0,1)`; `x < R` returns `x`, otherwise an independent
sample of the tail law (density `f` beyond `R`) is returned. Under the tail relation of the table, `(x0 - R) f(R) = ∫_R^∞ f`,
the result is the `x`-marginal of a uniform point of the base layer (`baseRegion`: the rectangle `(0,R) x [0, f R)` plus the region
under the curve beyond `R`) - which is what `ziggurat_method_law` assumes of layer 0. -/
theorem base_layer_law (f : ℝ → ℝ) (hf : Measurable f) {R x0 : ℝ} (hR : 0 < R) (hx0 : R < x0) (hfR : 0 < f R)
    (htail : BaseLayer.tail f R Set.univ = ENNReal.ofReal ((x0 - R) * f R)) :
    (MeasureTheory.Measure.map (fun u => u * x0) TailLaw.unif).restrict (Set.Iio R) +
        (MeasureTheory.Measure.map (fun u => u * x0) TailLaw.unif) (Set.Ici R) • ((BaseLayer.tail f R Set.univ)⁻¹ • BaseLayer.tail f R) =
      (ENNReal.ofReal (x0 * f R))⁻¹ •
        MeasureTheory.Measure.map Prod.fst ((MeasureTheory.volume : MeasureTheory.Measure (ℝ × ℝ)).restrict (BaseLayer.baseRegion f R)) := by
  rw [BaseLayer.map_fst_restrict_baseRegion f hf R]
  exact BaseLayer.base_layer_law f hf hR hx0 hfR htail

/-- for the exponential table the tail relation is `X[0] = R + 1` (`exp_table_ok` on the translated table): the base layer
of the exponential ziggurat is sampled uniformly -/
theorem exp_base_layer_law {R : ℝ} (hR : 0 < R) :
    (MeasureTheory.Measure.map (fun u => u * (R + 1)) TailLaw.unif).restrict (Set.Iio R) +
        (MeasureTheory.Measure.map (fun u => u * (R + 1)) TailLaw.unif) (Set.Ici R) •
          ((BaseLayer.tail (fun x => Real.exp (-x)) R Set.univ)⁻¹ • BaseLayer.tail (fun x => Real.exp (-x)) R) =
      (ENNReal.ofReal ((R + 1) * Real.exp (-R)))⁻¹ •
        MeasureTheory.Measure.map Prod.fst ((MeasureTheory.volume : MeasureTheory.Measure (ℝ × ℝ)).restrict (BaseLayer.baseRegion (fun x => Real.exp (-x)) R)) :=
  BaseLayer.exp_base_layer_law hR

end Urandom.C16
