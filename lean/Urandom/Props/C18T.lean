import Urandom.Model.ReadMock
import Urandom.Generated.ScalarReadMock
/-!
# C18: the shape of `Read` and `Mock` as read from the source

src/rng/read.rs and src/rng/mock.rs are glue around `io::Read::read_exact` and `Iterator::next`.  `tools/extract_scalar.py` checks their shape
against the source text on every run - each word method of `Read` is `let mut buf = [0u8; N]; if let Err(err) = self.reader.read_exact(&mut
buf) { read_failed(err); } uM::from_le_bytes(buf)`, `fill_bytes` reads exactly the destination, a failure goes to the diverging
`read_failed`, `jump` does nothing; `Mock` takes one word per draw (`as u32`: the low half), fills through `util::rng_fill_bytes`, does not
implement `jump` - and extracts N and M.  The model's `ReadGen.step` reads exactly these numbers of bytes and decodes exactly these widths.
(What `read_exact` itself does is std's documented loop, modelled in `Model/ReadMock.lean`.)
-/
namespace Urandom.C18
open Urandom Urandom.ReadGen Urandom.Generated

theorem read_words_translated (r : Reader) :
    Scalar.readmock.read_u32 = (4, 32) ∧ Scalar.readmock.read_u64 = (8, 64) ∧
    step r .u32 = (match r.exact Scalar.readmock.read_u32.1 with
                   | (some b, r') => (.val (leVal b), r')
                   | (none, r') => (.panic, r')) ∧
    step r .u64 = (match r.exact Scalar.readmock.read_u64.1 with
                   | (some b, r') => (.val (leVal b), r')
                   | (none, r') => (.panic, r')) ∧
    Scalar.readmock.mock_shape_checked = true := ⟨rfl, rfl, rfl, rfl, rfl⟩

end Urandom.C18
