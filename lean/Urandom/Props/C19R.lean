import Urandom.Generated.GlueSerde
/-!
# The hand-written serde of `ChaChaState` as read from the source (C19)

`ChaChaState<N>` (src/rng/chacha.rs) serialises itself as ONE sequence of u32 and reads itself back from one.  `tools/extract_glue.py` checks the
shape of both functions against the current source - `[self.<field>[i], ..].serialize(serializer)` and `let values = <[u32; K]>::deserialize(..)?;
Ok(ChaChaState { <field>: [values[i], ..], .. })` - and extracts the two index tables.  Proved here: deserialising what was serialised gives back
EVERY element of EVERY field (all 12 words: key, counter, stream id) - for every state, whatever the words are.
-/
namespace Urandom.C19R
open Urandom.Generated.Glue

variable {α : Type}

/-- a state: the element `i` of the field `f` -/
abbrev St (α : Type) := String → Nat → α

/-- what `serialize` writes -/
def ser (st : St α) : List α := chachaSerialize.map fun p => st p.1 p.2

/-- what `deserialize` makes of a sequence: element `j` of field `f` (`none`: the field is not assigned, or the position does not exist) -/
def de (vals : List α) (f : String) (j : Nat) : Option α :=
  match chachaDeserialize.lookup f with
  | none => none
  | some ix => match ix[j]? with
    | none => none
    | some pos => vals[pos]?

/-- the table fact everything rests on: each field of the struct is assigned by `deserialize`, from as many positions as it has elements, and
position `j` of field `f` is where `serialize` wrote element `j` of field `f`; the sequence has the length `deserialize` asks for -/
theorem tables_agree :
    chachaSerialize.length = chachaDeserializeLen ∧
    chachaFields.all (fun fl => match chachaDeserialize.lookup fl.1 with
      | none => false
      | some ix => ix.length == fl.2 && (List.range fl.2).all (fun j => chachaSerialize[ix[j]!]? == some (fl.1, j))) = true := by
  decide

/-- **round trip: every element of every field comes back**, for every state -/
theorem chacha_state_roundtrip (st : St α) : ∀ fl ∈ chachaFields, ∀ j < fl.2, de (ser st) fl.1 j = some (st fl.1 j) := by
  have h := tables_agree.2
  rw [List.all_eq_true] at h
  intro fl hfl j hj
  have hf := h fl hfl
  unfold de
  cases hl : chachaDeserialize.lookup fl.1 with
  | none => simp [hl] at hf
  | some ix =>
    simp only [hl, Bool.and_eq_true, beq_iff_eq, List.all_eq_true, List.mem_range] at hf
    have hlen := hf.1
    have hpos := hf.2 j hj
    have hjx : j < ix.length := by omega
    have hg : ix[j]! = ix[j] := by simp [hjx]
    rw [hg] at hpos
    have hpos' : chachaSerialize[ix[j]]? = some (fl.1, j) := by simpa using hpos
    show (match ix[j]? with | none => none | some pos => (ser st)[pos]?) = _
    rw [List.getElem?_eq_getElem hjx]
    show (ser st)[ix[j]]? = _
    unfold ser
    rw [List.getElem?_map, hpos']
    rfl

/-- non-vacuity: the struct has the three fields with 8 + 2 + 2 words -/
example : chachaFields = [("seed", 8), ("counter", 2), ("stream", 2)] := by decide

end Urandom.C19R
