import Urandom.Lemmas.EffectFill
/-!
# C10 / C01 for `util::rng_fill_bytes` as translated from the source

`tools/extract_effect.py` translates the CURRENT text of `rng_fill_bytes` (src/rng/util.rs: raw pointer, `while len >= 8`, the 4 / 2 / 1 byte
tail, the generator draws) into `Urandom.Generated.Effect.rng_fill_bytes`: a function of the destination length (a 64-bit `usize`) and an
abstract generator that returns the LOG of stores, the generator afterwards and whether a loop ran out of fuel (2^64 rounds).

The theorem below says that for EVERY length below 2^64 - not only those a test can allocate - and every generator this is exactly the
hand-written model `rngFillWrites` (Model/Word.lean) that `Props/C10.lean` (the stores tile the destination exactly once, nothing outside it is
written) and `Props/C01.lean` (the bytes are the little-endian serialisation of the successive `next_u64` outputs) are proved about.
-/
namespace Urandom.C10
open Urandom Urandom.Generated

variable {σ : Type}

/-- **`rng_fill_bytes` as translated is the model, for every length** (`L : BitVec 64` is `buf.len()`): no loop diverges, every store
stores a whole integer (`n` bytes of an `8 n`-bit value), the stores - offsets and bytes, in order - and the generator afterwards are
those of `rngFillWrites g s 0 L.toNat`. -/
theorem rng_fill_bytes_translated (g : WordGen σ) (s : σ) (L : BitVec 64) :
    (Effect.rng_fill_bytes g.u64 s L).2.2 = false ∧
    (∀ p ∈ (Effect.rng_fill_bytes g.u64 s L).1, p.n * 8 = p.width) ∧
    (Effect.rng_fill_bytes g.u64 s L).1.map toWrite = (rngFillWrites g s 0 L.toNat).1 ∧
    (Effect.rng_fill_bytes g.u64 s L).2.1 = (rngFillWrites g s 0 L.toNat).2 := by
  have hL : L.toNat < 2 ^ 64 := L.isLt
  have hfuel : L.toNat / 8 < 2 ^ 64 := by omega
  have hwrap : (0#64).toNat + 8 * (L.toNat / 8) < 2 ^ 64 := by simp; omega
  have hloop := loopW_toWrite g (L.toNat / 8) 0#64 s hwrap
  have hall : ∀ k ptr s', ∀ p ∈ loopW g k ptr s', p.n * 8 = p.width := by
    intro k
    induction k with
    | zero => intro _ _ p hp; simp [loopW] at hp
    | succ k ih =>
      intro ptr s' p hp
      simp only [loopW, List.mem_cons] at hp
      rcases hp with rfl | hp
      · rfl
      · exact ih _ _ p hp
  rw [model_closed g (L.toNat / 8) s 0 L.toNat rfl]
  unfold Effect.rng_fill_bytes
  simp only [while1_closed g _ _ _ _ _ _ hfuel, List.nil_append]
  have hoff : (0#64 + BitVec.ofNat 64 (8 * (L.toNat / 8))).toNat = 0 + 8 * (L.toNat / 8) := by
    simp only [BitVec.toNat_add, BitVec.toNat_ofNat]; simp; omega
  generalize hq : L.toNat / 8 = q at *
  have hr8 : L.toNat % 8 < 8 := Nat.mod_lt _ (by omega)
  generalize hr : L.toNat % 8 = r at *
  generalize hp : (0#64 + BitVec.ofNat 64 (8 * q)) = ptr at *
  have hp4 : (ptr + 4#64).toNat = ptr.toNat + 4 := by
    simp only [BitVec.toNat_add, BitVec.toNat_ofNat]; omega
  have hp2 : (ptr + 2#64).toNat = ptr.toNat + 2 := by
    simp only [BitVec.toNat_add, BitVec.toNat_ofNat]; omega
  have hp6 : (ptr + 4#64 + 2#64).toNat = ptr.toNat + 6 := by
    simp only [BitVec.toNat_add, BitVec.toNat_ofNat]; omega
  have t32 := fun v => leBytes_trunc v 32 4 (by omega) (by omega)
  have t16 := fun v => leBytes_trunc v 16 2 (by omega) (by omega)
  have t8 := fun v => leBytes_trunc v 8 1 (by omega) (by omega)
  have h07 : r = 0 ∨ r = 1 ∨ r = 2 ∨ r = 3 ∨ r = 4 ∨ r = 5 ∨ r = 6 ∨ r = 7 := by omega
  rcases h07 with rfl | rfl | rfl | rfl | rfl | rfl | rfl | rfl
  all_goals
    refine ⟨?_, ?_, ?_, ?_⟩
    · simp
    · simp (config := { decide := true })
      first
        | exact hall _ _ _
        | (intro p hp'
           rcases hp' with h | h
           · exact hall _ _ _ p h
           · first
               | (subst h; rfl)
               | (rcases h with rfl | rfl <;> rfl)
               | (rcases h with rfl | rfl | rfl <;> rfl))
    · simp (config := { decide := true }) [fillTail, toWrite, hloop, hoff, hp4, hp2, hp6, t32, t16, t8]
    · simp (config := { decide := true })
