import Urandom.Lemmas.UniformIntT
import Urandom.Generated.ScalarUniformInt
/-
C04 (second module) - the integer sampler AS TRANSLATED FROM THE SOURCE.

`tools/extract_scalar.py` expands every 64-bit-target invocation of `impl_uniform_int!` in `src/distr/uniform/int.rs`, takes the body of
`Distribution::sample` and translates it - the lets before the loop into `sample_init_<T>`, one trip round the `loop` into
`sample_iter_<T>` (a function of the fields of `self`, the loop variables and the ONE word drawn at the top of the trip; `break e` is
`.inl e`, going round again with new loop variables is `.inr`), with the widening multiplies `wmul32` / `wmul64` - into
`Urandom.Generated.Scalar.uniform_int` on every run.  Here each of the ten translations is proved to be the model's `iteration`
(`Model/UniformInt.lean`, the function all the exactness theorems of `Props/C04.lean` are about), for every stored range, every zone and
every drawn word: a changed threshold formula, comparison, cast or multiply in `sample` breaks these proofs.
-/
namespace Urandom.C04
open Urandom Urandom.Generated Urandom.UniformIntT

/-- the translated widening multiplies are the generic one -/
theorem wmul32_translated (a b : BitVec 32) : Scalar.uniform_int.wmul32 a b = wmul 32 a b := rfl
theorem wmul64_translated (a b : BitVec 64) : Scalar.uniform_int.wmul64 a b = wmul 64 a b := rfl

/-- `UniformInt<i8>::sample`: the loop starts with `range = self.range` (zero-extended to the word) and `zone = range`; one trip is the model's iteration -/
theorem sample_i8_translated (d : UniformInt) (hr : d.range < 2 ^ 8) (zone v : Nat) (hz : zone < 2 ^ 32) (hv : v < 2 ^ 32) :
    Scalar.uniform_int.sample_init_i8 (BitVec.ofNat 8 d.base) (BitVec.ofNat 8 d.range) = (BitVec.ofNat 32 d.range, BitVec.ofNat 32 d.range) ∧
    Scalar.uniform_int.sample_iter_i8 (BitVec.ofNat 8 d.base) (BitVec.ofNat 8 d.range) (BitVec.ofNat 32 d.range) (BitVec.ofNat 32 zone) (BitVec.ofNat 32 v)
      = liftR 8 32 (UniformInt.iteration IntTy.i8 d zone v) := by
  constructor
  · have e : (BitVec.ofNat 8 d.range).setWidth 32 = BitVec.ofNat 32 d.range := by
      apply BitVec.eq_of_toNat_eq
      rw [BitVec.toNat_setWidth, BitVec.toNat_ofNat, BitVec.toNat_ofNat, Nat.mod_eq_of_lt hr]
    show (_, _) = _
    rw [e]
  · exact iterBV_model IntTy.i8 (by decide) d hr zone v hz hv

/-- `UniformInt<u8>::sample`: the loop starts with `range = self.range` (zero-extended to the word) and `zone = range`; one trip is the model's iteration -/
theorem sample_u8_translated (d : UniformInt) (hr : d.range < 2 ^ 8) (zone v : Nat) (hz : zone < 2 ^ 32) (hv : v < 2 ^ 32) :
    Scalar.uniform_int.sample_init_u8 (BitVec.ofNat 8 d.base) (BitVec.ofNat 8 d.range) = (BitVec.ofNat 32 d.range, BitVec.ofNat 32 d.range) ∧
    Scalar.uniform_int.sample_iter_u8 (BitVec.ofNat 8 d.base) (BitVec.ofNat 8 d.range) (BitVec.ofNat 32 d.range) (BitVec.ofNat 32 zone) (BitVec.ofNat 32 v)
      = liftR 8 32 (UniformInt.iteration IntTy.u8 d zone v) := by
  constructor
  · have e : (BitVec.ofNat 8 d.range).setWidth 32 = BitVec.ofNat 32 d.range := by
      apply BitVec.eq_of_toNat_eq
      rw [BitVec.toNat_setWidth, BitVec.toNat_ofNat, BitVec.toNat_ofNat, Nat.mod_eq_of_lt hr]
    show (_, _) = _
    rw [e]
  · exact iterBV_model IntTy.u8 (by decide) d hr zone v hz hv

/-- `UniformInt<i16>::sample`: the loop starts with `range = self.range` (zero-extended to the word) and `zone = range`; one trip is the model's iteration -/
theorem sample_i16_translated (d : UniformInt) (hr : d.range < 2 ^ 16) (zone v : Nat) (hz : zone < 2 ^ 32) (hv : v < 2 ^ 32) :
    Scalar.uniform_int.sample_init_i16 (BitVec.ofNat 16 d.base) (BitVec.ofNat 16 d.range) = (BitVec.ofNat 32 d.range, BitVec.ofNat 32 d.range) ∧
    Scalar.uniform_int.sample_iter_i16 (BitVec.ofNat 16 d.base) (BitVec.ofNat 16 d.range) (BitVec.ofNat 32 d.range) (BitVec.ofNat 32 zone) (BitVec.ofNat 32 v)
      = liftR 16 32 (UniformInt.iteration IntTy.i16 d zone v) := by
  constructor
  · have e : (BitVec.ofNat 16 d.range).setWidth 32 = BitVec.ofNat 32 d.range := by
      apply BitVec.eq_of_toNat_eq
      rw [BitVec.toNat_setWidth, BitVec.toNat_ofNat, BitVec.toNat_ofNat, Nat.mod_eq_of_lt hr]
    show (_, _) = _
    rw [e]
  · exact iterBV_model IntTy.i16 (by decide) d hr zone v hz hv

/-- `UniformInt<u16>::sample`: the loop starts with `range = self.range` (zero-extended to the word) and `zone = range`; one trip is the model's iteration -/
theorem sample_u16_translated (d : UniformInt) (hr : d.range < 2 ^ 16) (zone v : Nat) (hz : zone < 2 ^ 32) (hv : v < 2 ^ 32) :
    Scalar.uniform_int.sample_init_u16 (BitVec.ofNat 16 d.base) (BitVec.ofNat 16 d.range) = (BitVec.ofNat 32 d.range, BitVec.ofNat 32 d.range) ∧
    Scalar.uniform_int.sample_iter_u16 (BitVec.ofNat 16 d.base) (BitVec.ofNat 16 d.range) (BitVec.ofNat 32 d.range) (BitVec.ofNat 32 zone) (BitVec.ofNat 32 v)
      = liftR 16 32 (UniformInt.iteration IntTy.u16 d zone v) := by
  constructor
  · have e : (BitVec.ofNat 16 d.range).setWidth 32 = BitVec.ofNat 32 d.range := by
      apply BitVec.eq_of_toNat_eq
      rw [BitVec.toNat_setWidth, BitVec.toNat_ofNat, BitVec.toNat_ofNat, Nat.mod_eq_of_lt hr]
    show (_, _) = _
    rw [e]
  · exact iterBV_model IntTy.u16 (by decide) d hr zone v hz hv

/-- `UniformInt<i32>::sample`: the loop starts with `range = self.range` (zero-extended to the word) and `zone = range`; one trip is the model's iteration -/
theorem sample_i32_translated (d : UniformInt) (hr : d.range < 2 ^ 32) (zone v : Nat) (hz : zone < 2 ^ 64) (hv : v < 2 ^ 64) :
    Scalar.uniform_int.sample_init_i32 (BitVec.ofNat 32 d.base) (BitVec.ofNat 32 d.range) = (BitVec.ofNat 64 d.range, BitVec.ofNat 64 d.range) ∧
    Scalar.uniform_int.sample_iter_i32 (BitVec.ofNat 32 d.base) (BitVec.ofNat 32 d.range) (BitVec.ofNat 64 d.range) (BitVec.ofNat 64 zone) (BitVec.ofNat 64 v)
      = liftR 32 64 (UniformInt.iteration IntTy.i32 d zone v) := by
  constructor
  · have e : (BitVec.ofNat 32 d.range).setWidth 64 = BitVec.ofNat 64 d.range := by
      apply BitVec.eq_of_toNat_eq
      rw [BitVec.toNat_setWidth, BitVec.toNat_ofNat, BitVec.toNat_ofNat, Nat.mod_eq_of_lt hr]
    show (_, _) = _
    rw [e]
  · exact iterBV_model IntTy.i32 (by decide) d hr zone v hz hv

/-- `UniformInt<u32>::sample`: the loop starts with `range = self.range` (zero-extended to the word) and `zone = range`; one trip is the model's iteration -/
theorem sample_u32_translated (d : UniformInt) (hr : d.range < 2 ^ 32) (zone v : Nat) (hz : zone < 2 ^ 64) (hv : v < 2 ^ 64) :
    Scalar.uniform_int.sample_init_u32 (BitVec.ofNat 32 d.base) (BitVec.ofNat 32 d.range) = (BitVec.ofNat 64 d.range, BitVec.ofNat 64 d.range) ∧
    Scalar.uniform_int.sample_iter_u32 (BitVec.ofNat 32 d.base) (BitVec.ofNat 32 d.range) (BitVec.ofNat 64 d.range) (BitVec.ofNat 64 zone) (BitVec.ofNat 64 v)
      = liftR 32 64 (UniformInt.iteration IntTy.u32 d zone v) := by
  constructor
  · have e : (BitVec.ofNat 32 d.range).setWidth 64 = BitVec.ofNat 64 d.range := by
      apply BitVec.eq_of_toNat_eq
      rw [BitVec.toNat_setWidth, BitVec.toNat_ofNat, BitVec.toNat_ofNat, Nat.mod_eq_of_lt hr]
    show (_, _) = _
    rw [e]
  · exact iterBV_model IntTy.u32 (by decide) d hr zone v hz hv

/-- `UniformInt<i64>::sample`: the loop starts with `range = self.range` (zero-extended to the word) and `zone = range`; one trip is the model's iteration -/
theorem sample_i64_translated (d : UniformInt) (hr : d.range < 2 ^ 64) (zone v : Nat) (hz : zone < 2 ^ 64) (hv : v < 2 ^ 64) :
    Scalar.uniform_int.sample_init_i64 (BitVec.ofNat 64 d.base) (BitVec.ofNat 64 d.range) = (BitVec.ofNat 64 d.range, BitVec.ofNat 64 d.range) ∧
    Scalar.uniform_int.sample_iter_i64 (BitVec.ofNat 64 d.base) (BitVec.ofNat 64 d.range) (BitVec.ofNat 64 d.range) (BitVec.ofNat 64 zone) (BitVec.ofNat 64 v)
      = liftR 64 64 (UniformInt.iteration IntTy.i64 d zone v) := by
  constructor
  · rfl
  · exact iterBV_model IntTy.i64 (by decide) d hr zone v hz hv

/-- `UniformInt<u64>::sample`: the loop starts with `range = self.range` (zero-extended to the word) and `zone = range`; one trip is the model's iteration -/
theorem sample_u64_translated (d : UniformInt) (hr : d.range < 2 ^ 64) (zone v : Nat) (hz : zone < 2 ^ 64) (hv : v < 2 ^ 64) :
    Scalar.uniform_int.sample_init_u64 (BitVec.ofNat 64 d.base) (BitVec.ofNat 64 d.range) = (BitVec.ofNat 64 d.range, BitVec.ofNat 64 d.range) ∧
    Scalar.uniform_int.sample_iter_u64 (BitVec.ofNat 64 d.base) (BitVec.ofNat 64 d.range) (BitVec.ofNat 64 d.range) (BitVec.ofNat 64 zone) (BitVec.ofNat 64 v)
      = liftR 64 64 (UniformInt.iteration IntTy.u64 d zone v) := by
  constructor
  · rfl
  · exact iterBV_model IntTy.u64 (by decide) d hr zone v hz hv

/-- `UniformInt<isize>::sample`: the loop starts with `range = self.range` (zero-extended to the word) and `zone = range`; one trip is the model's iteration -/
theorem sample_isize_translated (d : UniformInt) (hr : d.range < 2 ^ 64) (zone v : Nat) (hz : zone < 2 ^ 64) (hv : v < 2 ^ 64) :
    Scalar.uniform_int.sample_init_isize (BitVec.ofNat 64 d.base) (BitVec.ofNat 64 d.range) = (BitVec.ofNat 64 d.range, BitVec.ofNat 64 d.range) ∧
    Scalar.uniform_int.sample_iter_isize (BitVec.ofNat 64 d.base) (BitVec.ofNat 64 d.range) (BitVec.ofNat 64 d.range) (BitVec.ofNat 64 zone) (BitVec.ofNat 64 v)
      = liftR 64 64 (UniformInt.iteration IntTy.isize d zone v) := by
  constructor
  · rfl
  · exact iterBV_model IntTy.isize (by decide) d hr zone v hz hv

/-- `UniformInt<usize>::sample`: the loop starts with `range = self.range` (zero-extended to the word) and `zone = range`; one trip is the model's iteration -/
theorem sample_usize_translated (d : UniformInt) (hr : d.range < 2 ^ 64) (zone v : Nat) (hz : zone < 2 ^ 64) (hv : v < 2 ^ 64) :
    Scalar.uniform_int.sample_init_usize (BitVec.ofNat 64 d.base) (BitVec.ofNat 64 d.range) = (BitVec.ofNat 64 d.range, BitVec.ofNat 64 d.range) ∧
    Scalar.uniform_int.sample_iter_usize (BitVec.ofNat 64 d.base) (BitVec.ofNat 64 d.range) (BitVec.ofNat 64 d.range) (BitVec.ofNat 64 zone) (BitVec.ofNat 64 v)
      = liftR 64 64 (UniformInt.iteration IntTy.usize d zone v) := by
  constructor
  · rfl
  · exact iterBV_model IntTy.usize (by decide) d hr zone v hz hv

/-! ### the constructors `try_new` / `try_new_inclusive`, as translated

`some (base, range)` = `Ok(UniformInt { base, range })`, `none` = `Err(UniformError::EmptyRange)`; the ordering of `low` and `high` is the
type's own (signed types compare as two's-complement values).  The model's `tryNew` - whose results the exactness theorems of C04 start
from - is this, for every pair of bounds of every type. -/

/-- the model's result on the translated side -/
def liftC {w : Nat} : Option (BitVec w × BitVec w) → Except UniformError UniformInt
  | none => .error .EmptyRange
  | some (b, r) => .ok ⟨b.toNat, r.toNat⟩

/-- the shape every instantiation of the two constructors has (`signed`: the ordering used, `incl`: `+ 1`) -/
def ctorBV {w : Nat} (signed incl : Bool) (low high : BitVec w) : Option (BitVec w × BitVec w) :=
  if (if signed then (if incl then BitVec.slt high low else BitVec.sle high low) else (if incl then decide (low > high) else decide (low ≥ high)))
  then none else some (low, if incl then (high - low) + BitVec.ofNat w 1 else high - low)

theorem toInt_model (t : IntTy) {w : Nat} (hw : t.bits = w) (x : BitVec w) :
    t.toInt x.toNat = if t.signed then x.toInt else (x.toNat : Int) := by
  unfold IntTy.toInt IntTy.M
  rw [hw, BitVec.toInt_eq_toNat_cond]

theorem ctorBV_model (t : IntTy) {w : Nat} (hw : t.bits = w) (hw0 : 0 < w) (incl : Bool) (lo hi : BitVec w) :
    liftC (ctorBV t.signed incl lo hi) = UniformInt.tryNew t lo.toNat hi.toNat incl := by
  have hM : t.M = 2 ^ w := by unfold IntTy.M; rw [hw]
  have hlo := lo.isLt
  have hhi := hi.isLt
  have h1 : (1 : Nat) < 2 ^ w := Nat.one_lt_two_pow (by omega)
  have hsub : (hi - lo).toNat = wsub (2 ^ w) hi.toNat lo.toNat := by
    unfold wsub; rw [BitVec.toNat_sub]; congr 1; omega
  have hadd : ((hi - lo) + BitVec.ofNat w 1).toNat = wadd (2 ^ w) (wsub (2 ^ w) hi.toNat lo.toNat) 1 := by
    unfold wadd; rw [BitVec.toNat_add, hsub, BitVec.toNat_ofNat, Nat.mod_eq_of_lt h1]
  unfold UniformInt.tryNew ctorBV
  rw [toInt_model t hw lo, toInt_model t hw hi, hM]
  cases hs : t.signed
  · cases incl
    · simp only [Bool.false_eq_true, if_false]
      by_cases h : lo ≥ hi
      · have h' : (lo.toNat : Int) ≥ (hi.toNat : Int) := by rw [ge_iff_le, BitVec.le_def] at h; exact_mod_cast h
        simp only [h, decide_true, if_true, h', liftC]
      · have h' : ¬ ((lo.toNat : Int) ≥ (hi.toNat : Int)) := by rw [ge_iff_le, BitVec.le_def] at h; exact_mod_cast h
        simp only [h, decide_false, Bool.false_eq_true, if_false, h', liftC, hsub]
    · simp only [Bool.false_eq_true, if_false, if_true]
      by_cases h : lo > hi
      · have h' : (lo.toNat : Int) > (hi.toNat : Int) := by rw [gt_iff_lt, BitVec.lt_def] at h; exact_mod_cast h
        simp only [h, decide_true, if_true, h', liftC]
      · have h' : ¬ ((lo.toNat : Int) > (hi.toNat : Int)) := by rw [gt_iff_lt, BitVec.lt_def] at h; exact_mod_cast h
        simp only [h, decide_false, Bool.false_eq_true, if_false, h', liftC, hadd]
  · cases incl
    · simp only [Bool.false_eq_true, if_false, if_true, BitVec.sle]
      by_cases h : hi.toInt ≤ lo.toInt
      · simp only [h, decide_true, if_true, ge_iff_le, liftC]
      · simp only [h, decide_false, Bool.false_eq_true, if_false, ge_iff_le, liftC, hsub]
    · simp only [Bool.false_eq_true, if_false, if_true, BitVec.slt]
      by_cases h : hi.toInt < lo.toInt
      · simp only [h, decide_true, if_true, gt_iff_lt, liftC]
      · simp only [h, decide_false, Bool.false_eq_true, if_false, gt_iff_lt, liftC, hadd]

/-- `UniformInt<i8>::try_new` / `try_new_inclusive` are the model's `tryNew`, for every pair of bounds -/
theorem ctor_i8_translated (lo hi : BitVec 8) :
    liftC (Scalar.uniform_int.try_new_i8 lo hi) = UniformInt.tryNew IntTy.i8 lo.toNat hi.toNat false ∧
    liftC (Scalar.uniform_int.try_new_inclusive_i8 lo hi) = UniformInt.tryNew IntTy.i8 lo.toNat hi.toNat true :=
  ⟨ctorBV_model IntTy.i8 rfl (by decide) false lo hi, ctorBV_model IntTy.i8 rfl (by decide) true lo hi⟩

/-- `UniformInt<u8>::try_new` / `try_new_inclusive` are the model's `tryNew`, for every pair of bounds -/
theorem ctor_u8_translated (lo hi : BitVec 8) :
    liftC (Scalar.uniform_int.try_new_u8 lo hi) = UniformInt.tryNew IntTy.u8 lo.toNat hi.toNat false ∧
    liftC (Scalar.uniform_int.try_new_inclusive_u8 lo hi) = UniformInt.tryNew IntTy.u8 lo.toNat hi.toNat true :=
  ⟨ctorBV_model IntTy.u8 rfl (by decide) false lo hi, ctorBV_model IntTy.u8 rfl (by decide) true lo hi⟩

/-- `UniformInt<i16>::try_new` / `try_new_inclusive` are the model's `tryNew`, for every pair of bounds -/
theorem ctor_i16_translated (lo hi : BitVec 16) :
    liftC (Scalar.uniform_int.try_new_i16 lo hi) = UniformInt.tryNew IntTy.i16 lo.toNat hi.toNat false ∧
    liftC (Scalar.uniform_int.try_new_inclusive_i16 lo hi) = UniformInt.tryNew IntTy.i16 lo.toNat hi.toNat true :=
  ⟨ctorBV_model IntTy.i16 rfl (by decide) false lo hi, ctorBV_model IntTy.i16 rfl (by decide) true lo hi⟩

/-- `UniformInt<u16>::try_new` / `try_new_inclusive` are the model's `tryNew`, for every pair of bounds -/
theorem ctor_u16_translated (lo hi : BitVec 16) :
    liftC (Scalar.uniform_int.try_new_u16 lo hi) = UniformInt.tryNew IntTy.u16 lo.toNat hi.toNat false ∧
    liftC (Scalar.uniform_int.try_new_inclusive_u16 lo hi) = UniformInt.tryNew IntTy.u16 lo.toNat hi.toNat true :=
  ⟨ctorBV_model IntTy.u16 rfl (by decide) false lo hi, ctorBV_model IntTy.u16 rfl (by decide) true lo hi⟩

/-- `UniformInt<i32>::try_new` / `try_new_inclusive` are the model's `tryNew`, for every pair of bounds -/
theorem ctor_i32_translated (lo hi : BitVec 32) :
    liftC (Scalar.uniform_int.try_new_i32 lo hi) = UniformInt.tryNew IntTy.i32 lo.toNat hi.toNat false ∧
    liftC (Scalar.uniform_int.try_new_inclusive_i32 lo hi) = UniformInt.tryNew IntTy.i32 lo.toNat hi.toNat true :=
  ⟨ctorBV_model IntTy.i32 rfl (by decide) false lo hi, ctorBV_model IntTy.i32 rfl (by decide) true lo hi⟩

/-- `UniformInt<u32>::try_new` / `try_new_inclusive` are the model's `tryNew`, for every pair of bounds -/
theorem ctor_u32_translated (lo hi : BitVec 32) :
    liftC (Scalar.uniform_int.try_new_u32 lo hi) = UniformInt.tryNew IntTy.u32 lo.toNat hi.toNat false ∧
    liftC (Scalar.uniform_int.try_new_inclusive_u32 lo hi) = UniformInt.tryNew IntTy.u32 lo.toNat hi.toNat true :=
  ⟨ctorBV_model IntTy.u32 rfl (by decide) false lo hi, ctorBV_model IntTy.u32 rfl (by decide) true lo hi⟩

/-- `UniformInt<i64>::try_new` / `try_new_inclusive` are the model's `tryNew`, for every pair of bounds -/
theorem ctor_i64_translated (lo hi : BitVec 64) :
    liftC (Scalar.uniform_int.try_new_i64 lo hi) = UniformInt.tryNew IntTy.i64 lo.toNat hi.toNat false ∧
    liftC (Scalar.uniform_int.try_new_inclusive_i64 lo hi) = UniformInt.tryNew IntTy.i64 lo.toNat hi.toNat true :=
  ⟨ctorBV_model IntTy.i64 rfl (by decide) false lo hi, ctorBV_model IntTy.i64 rfl (by decide) true lo hi⟩

/-- `UniformInt<u64>::try_new` / `try_new_inclusive` are the model's `tryNew`, for every pair of bounds -/
theorem ctor_u64_translated (lo hi : BitVec 64) :
    liftC (Scalar.uniform_int.try_new_u64 lo hi) = UniformInt.tryNew IntTy.u64 lo.toNat hi.toNat false ∧
    liftC (Scalar.uniform_int.try_new_inclusive_u64 lo hi) = UniformInt.tryNew IntTy.u64 lo.toNat hi.toNat true :=
  ⟨ctorBV_model IntTy.u64 rfl (by decide) false lo hi, ctorBV_model IntTy.u64 rfl (by decide) true lo hi⟩

/-- `UniformInt<isize>::try_new` / `try_new_inclusive` are the model's `tryNew`, for every pair of bounds -/
theorem ctor_isize_translated (lo hi : BitVec 64) :
    liftC (Scalar.uniform_int.try_new_isize lo hi) = UniformInt.tryNew IntTy.isize lo.toNat hi.toNat false ∧
    liftC (Scalar.uniform_int.try_new_inclusive_isize lo hi) = UniformInt.tryNew IntTy.isize lo.toNat hi.toNat true :=
  ⟨ctorBV_model IntTy.isize rfl (by decide) false lo hi, ctorBV_model IntTy.isize rfl (by decide) true lo hi⟩

/-- `UniformInt<usize>::try_new` / `try_new_inclusive` are the model's `tryNew`, for every pair of bounds -/
theorem ctor_usize_translated (lo hi : BitVec 64) :
    liftC (Scalar.uniform_int.try_new_usize lo hi) = UniformInt.tryNew IntTy.usize lo.toNat hi.toNat false ∧
    liftC (Scalar.uniform_int.try_new_inclusive_usize lo hi) = UniformInt.tryNew IntTy.usize lo.toNat hi.toNat true :=
  ⟨ctorBV_model IntTy.usize rfl (by decide) false lo hi, ctorBV_model IntTy.usize rfl (by decide) true lo hi⟩

end Urandom.C04
