import Urandom.Lemmas.UniformIntT
import Urandom.Generated.ScalarUniformInt
/-
C04 (second module) - the integer sampler AS TRANSLATED FROM THE SOURCE.

`tools/extract_scalar.py` expands every 64-bit-target invocation of `impl_uniform_int!` in `src/distr/uniform/int.rs`, takes the body of
`Distribution::sample` and translates it - the lets before the loop into `sample_init_<T>`, one trip round the `loop` into
`sample_iter_<T>` (a function of the fields of `self`, the loop variables and the ONE word drawn at the top of the trip; `break e` is
`.inl e`, going round again with new loop variables is `.inr`), with the widening multiplies `wmul32` / `wmul64` - into
`Urandom.Generated.Scalar.uniform_int` on every run.  Here each of the ten translations is proved to be the model's `iteration`
(`Model/UniformInt.lean`, the function all the exactness theorems of `Props/C04.lean` are about), for every stored range, every zone and
every drawn word: a changed threshold formula, comparison, cast or multiply in `sample` breaks these proofs.
-/
namespace Urandom.C04
open Urandom Urandom.Generated Urandom.UniformIntT

/-- the translated widening multiplies are the generic one -/
theorem wmul32_translated (a b : BitVec 32) : Scalar.uniform_int.wmul32 a b = wmul 32 a b := rfl
theorem wmul64_translated (a b : BitVec 64) : Scalar.uniform_int.wmul64 a b = wmul 64 a b := rfl

/-- `UniformInt<i8>::sample`: the loop starts with `range = self.range` (zero-extended to the word) and `zone = range`; one trip is the model's iteration -/
theorem sample_i8_translated (d : UniformInt) (hr : d.range < 2 ^ 8) (zone v : Nat) (hz : zone < 2 ^ 32) (hv : v < 2 ^ 32) :
    Scalar.uniform_int.sample_init_i8 (BitVec.ofNat 8 d.base) (BitVec.ofNat 8 d.range) = (BitVec.ofNat 32 d.range, BitVec.ofNat 32 d.range) ∧
    Scalar.uniform_int.sample_iter_i8 (BitVec.ofNat 8 d.base) (BitVec.ofNat 8 d.range) (BitVec.ofNat 32 d.range) (BitVec.ofNat 32 zone) (BitVec.ofNat 32 v)
      = liftR 8 32 (UniformInt.iteration IntTy.i8 d zone v) := by
  constructor
  · have e : (BitVec.ofNat 8 d.range).setWidth 32 = BitVec.ofNat 32 d.range := by
      apply BitVec.eq_of_toNat_eq
      rw [BitVec.toNat_setWidth, BitVec.toNat_ofNat, BitVec.toNat_ofNat, Nat.mod_eq_of_lt hr]
    show (_, _) = _
    rw [e]
  · exact iterBV_model IntTy.i8 (by decide) d hr zone v hz hv

/-- `UniformInt<u8>::sample`: the loop starts with `range = self.range` (zero-extended to the word) and `zone = range`; one trip is the model's iteration -/
theorem sample_u8_translated (d : UniformInt) (hr : d.range < 2 ^ 8) (zone v : Nat) (hz : zone < 2 ^ 32) (hv : v < 2 ^ 32) :
    Scalar.uniform_int.sample_init_u8 (BitVec.ofNat 8 d.base) (BitVec.ofNat 8 d.range) = (BitVec.ofNat 32 d.range, BitVec.ofNat 32 d.range) ∧
    Scalar.uniform_int.sample_iter_u8 (BitVec.ofNat 8 d.base) (BitVec.ofNat 8 d.range) (BitVec.ofNat 32 d.range) (BitVec.ofNat 32 zone) (BitVec.ofNat 32 v)
      = liftR 8 32 (UniformInt.iteration IntTy.u8 d zone v) := by
  constructor
  · have e : (BitVec.ofNat 8 d.range).setWidth 32 = BitVec.ofNat 32 d.range := by
      apply BitVec.eq_of_toNat_eq
      rw [BitVec.toNat_setWidth, BitVec.toNat_ofNat, BitVec.toNat_ofNat, Nat.mod_eq_of_lt hr]
    show (_, _) = _
    rw [e]
  · exact iterBV_model IntTy.u8 (by decide) d hr zone v hz hv

/-- `UniformInt<i16>::sample`: the loop starts with `range = self.range` (zero-extended to the word) and `zone = range`; one trip is the model's iteration -/
theorem sample_i16_translated (d : UniformInt) (hr : d.range < 2 ^ 16) (zone v : Nat) (hz : zone < 2 ^ 32) (hv : v < 2 ^ 32) :
    Scalar.uniform_int.sample_init_i16 (BitVec.ofNat 16 d.base) (BitVec.ofNat 16 d.range) = (BitVec.ofNat 32 d.range, BitVec.ofNat 32 d.range) ∧
    Scalar.uniform_int.sample_iter_i16 (BitVec.ofNat 16 d.base) (BitVec.ofNat 16 d.range) (BitVec.ofNat 32 d.range) (BitVec.ofNat 32 zone) (BitVec.ofNat 32 v)
      = liftR 16 32 (UniformInt.iteration IntTy.i16 d zone v) := by
  constructor
  · have e : (BitVec.ofNat 16 d.range).setWidth 32 = BitVec.ofNat 32 d.range := by
      apply BitVec.eq_of_toNat_eq
      rw [BitVec.toNat_setWidth, BitVec.toNat_ofNat, BitVec.toNat_ofNat, Nat.mod_eq_of_lt hr]
    show (_, _) = _
    rw [e]
  · exact iterBV_model IntTy.i16 (by decide) d hr zone v hz hv

/-- `UniformInt<u16>::sample`: the loop starts with `range = self.range` (zero-extended to the word) and `zone = range`; one trip is the model's iteration -/
theorem sample_u16_translated (d : UniformInt) (hr : d.range < 2 ^ 16) (zone v : Nat) (hz : zone < 2 ^ 32) (hv : v < 2 ^ 32) :
    Scalar.uniform_int.sample_init_u16 (BitVec.ofNat 16 d.base) (BitVec.ofNat 16 d.range) = (BitVec.ofNat 32 d.range, BitVec.ofNat 32 d.range) ∧
    Scalar.uniform_int.sample_iter_u16 (BitVec.ofNat 16 d.base) (BitVec.ofNat 16 d.range) (BitVec.ofNat 32 d.range) (BitVec.ofNat 32 zone) (BitVec.ofNat 32 v)
      = liftR 16 32 (UniformInt.iteration IntTy.u16 d zone v) := by
  constructor
  · have e : (BitVec.ofNat 16 d.range).setWidth 32 = BitVec.ofNat 32 d.range := by
      apply BitVec.eq_of_toNat_eq
      rw [BitVec.toNat_setWidth, BitVec.toNat_ofNat, BitVec.toNat_ofNat, Nat.mod_eq_of_lt hr]
    show (_, _) = _
    rw [e]
  · exact iterBV_model IntTy.u16 (by decide) d hr zone v hz hv

/-- `UniformInt<i32>::sample`: the loop starts with `range = self.range` (zero-extended to the word) and `zone = range`; one trip is the model's iteration -/
theorem sample_i32_translated (d : UniformInt) (hr : d.range < 2 ^ 32) (zone v : Nat) (hz : zone < 2 ^ 64) (hv : v < 2 ^ 64) :
    Scalar.uniform_int.sample_init_i32 (BitVec.ofNat 32 d.base) (BitVec.ofNat 32 d.range) = (BitVec.ofNat 64 d.range, BitVec.ofNat 64 d.range) ∧
    Scalar.uniform_int.sample_iter_i32 (BitVec.ofNat 32 d.base) (BitVec.ofNat 32 d.range) (BitVec.ofNat 64 d.range) (BitVec.ofNat 64 zone) (BitVec.ofNat 64 v)
      = liftR 32 64 (UniformInt.iteration IntTy.i32 d zone v) := by
  constructor
  · have e : (BitVec.ofNat 32 d.range).setWidth 64 = BitVec.ofNat 64 d.range := by
      apply BitVec.eq_of_toNat_eq
      rw [BitVec.toNat_setWidth, BitVec.toNat_ofNat, BitVec.toNat_ofNat, Nat.mod_eq_of_lt hr]
    show (_, _) = _
    rw [e]
  · exact iterBV_model IntTy.i32 (by decide) d hr zone v hz hv

/-- `UniformInt<u32>::sample`: the loop starts with `range = self.range` (zero-extended to the word) and `zone = range`; one trip is the model's iteration -/
theorem sample_u32_translated (d : UniformInt) (hr : d.range < 2 ^ 32) (zone v : Nat) (hz : zone < 2 ^ 64) (hv : v < 2 ^ 64) :
    Scalar.uniform_int.sample_init_u32 (BitVec.ofNat 32 d.base) (BitVec.ofNat 32 d.range) = (BitVec.ofNat 64 d.range, BitVec.ofNat 64 d.range) ∧
    Scalar.uniform_int.sample_iter_u32 (BitVec.ofNat 32 d.base) (BitVec.ofNat 32 d.range) (BitVec.ofNat 64 d.range) (BitVec.ofNat 64 zone) (BitVec.ofNat 64 v)
      = liftR 32 64 (UniformInt.iteration IntTy.u32 d zone v) := by
  constructor
  · have e : (BitVec.ofNat 32 d.range).setWidth 64 = BitVec.ofNat 64 d.range := by
      apply BitVec.eq_of_toNat_eq
      rw [BitVec.toNat_setWidth, BitVec.toNat_ofNat, BitVec.toNat_ofNat, Nat.mod_eq_of_lt hr]
    show (_, _) = _
    rw [e]
  · exact iterBV_model IntTy.u32 (by decide) d hr zone v hz hv

/-- `UniformInt<i64>::sample`: the loop starts with `range = self.range` (zero-extended to the word) and `zone = range`; one trip is the model's iteration -/
theorem sample_i64_translated (d : UniformInt) (hr : d.range < 2 ^ 64) (zone v : Nat) (hz : zone < 2 ^ 64) (hv : v < 2 ^ 64) :
    Scalar.uniform_int.sample_init_i64 (BitVec.ofNat 64 d.base) (BitVec.ofNat 64 d.range) = (BitVec.ofNat 64 d.range, BitVec.ofNat 64 d.range) ∧
    Scalar.uniform_int.sample_iter_i64 (BitVec.ofNat 64 d.base) (BitVec.ofNat 64 d.range) (BitVec.ofNat 64 d.range) (BitVec.ofNat 64 zone) (BitVec.ofNat 64 v)
      = liftR 64 64 (UniformInt.iteration IntTy.i64 d zone v) := by
  constructor
  · rfl
  · exact iterBV_model IntTy.i64 (by decide) d hr zone v hz hv

/-- `UniformInt<u64>::sample`: the loop starts with `range = self.range` (zero-extended to the word) and `zone = range`; one trip is the model's iteration -/
theorem sample_u64_translated (d : UniformInt) (hr : d.range < 2 ^ 64) (zone v : Nat) (hz : zone < 2 ^ 64) (hv : v < 2 ^ 64) :
    Scalar.uniform_int.sample_init_u64 (BitVec.ofNat 64 d.base) (BitVec.ofNat 64 d.range) = (BitVec.ofNat 64 d.range, BitVec.ofNat 64 d.range) ∧
    Scalar.uniform_int.sample_iter_u64 (BitVec.ofNat 64 d.base) (BitVec.ofNat 64 d.range) (BitVec.ofNat 64 d.range) (BitVec.ofNat 64 zone) (BitVec.ofNat 64 v)
      = liftR 64 64 (UniformInt.iteration IntTy.u64 d zone v) := by
  constructor
  · rfl
  · exact iterBV_model IntTy.u64 (by decide) d hr zone v hz hv

/-- `UniformInt<isize>::sample`: the loop starts with `range = self.range` (zero-extended to the word) and `zone = range`; one trip is the model's iteration -/
theorem sample_isize_translated (d : UniformInt) (hr : d.range < 2 ^ 64) (zone v : Nat) (hz : zone < 2 ^ 64) (hv : v < 2 ^ 64) :
    Scalar.uniform_int.sample_init_isize (BitVec.ofNat 64 d.base) (BitVec.ofNat 64 d.range) = (BitVec.ofNat 64 d.range, BitVec.ofNat 64 d.range) ∧
    Scalar.uniform_int.sample_iter_isize (BitVec.ofNat 64 d.base) (BitVec.ofNat 64 d.range) (BitVec.ofNat 64 d.range) (BitVec.ofNat 64 zone) (BitVec.ofNat 64 v)
      = liftR 64 64 (UniformInt.iteration IntTy.isize d zone v) := by
  constructor
  · rfl
  · exact iterBV_model IntTy.isize (by decide) d hr zone v hz hv

/-- `UniformInt<usize>::sample`: the loop starts with `range = self.range` (zero-extended to the word) and `zone = range`; one trip is the model's iteration -/
theorem sample_usize_translated (d : UniformInt) (hr : d.range < 2 ^ 64) (zone v : Nat) (hz : zone < 2 ^ 64) (hv : v < 2 ^ 64) :
    Scalar.uniform_int.sample_init_usize (BitVec.ofNat 64 d.base) (BitVec.ofNat 64 d.range) = (BitVec.ofNat 64 d.range, BitVec.ofNat 64 d.range) ∧
    Scalar.uniform_int.sample_iter_usize (BitVec.ofNat 64 d.base) (BitVec.ofNat 64 d.range) (BitVec.ofNat 64 d.range) (BitVec.ofNat 64 zone) (BitVec.ofNat 64 v)
      = liftR 64 64 (UniformInt.iteration IntTy.usize d zone v) := by
  constructor
  · rfl
  · exact iterBV_model IntTy.usize (by decide) d hr zone v hz hv

end Urandom.C04
