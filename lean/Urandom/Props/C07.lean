import Urandom.Lemmas.Reservoir
import Urandom.Lemmas.Index
/-
C07 - multiple() draws a uniformly random k-subset of the collection.

Model: `Urandom.Seq.multiple` (tied to `Random::multiple` by the `multi` correspondence stream).
The model is the *repaired* code (`index(i + 1)`, fix D1); the pinned tree drew
`index(i + 1 + amount)` and is biased - see `pinned_code_is_biased` below, which is the replay of D1.
-/
namespace Urandom.C07
open Urandom Urandom.Seq

/-! ### Shape: count, size, untouched slots -/

/-- For every collection, buffer and word sequence: the buffer keeps its length, the returned
count is `min k n`, and slots at or beyond the returned count are untouched. -/
theorem multipleLoop_shape : ∀ (xs : List Nat) (i : Nat) (buf : Array Nat) (len : Nat) (ws ws' : Words)
    (buf' : Array Nat) (len' : Nat), len ≤ buf.size →
    multipleLoop xs i buf len ws = some ((buf', len'), ws') →
    buf'.size = buf.size ∧ len' = min buf.size (len + xs.length) ∧ ∀ p, len' ≤ p → buf'[p]? = buf[p]? := by
  intro xs
  induction xs with
  | nil =>
    intro i buf len ws ws' buf' len' hle h
    simp only [multipleLoop, Option.some.injEq, Prod.mk.injEq] at h
    obtain ⟨⟨rfl, rfl⟩, _⟩ := h
    exact ⟨rfl, by simp; omega, fun _ _ => rfl⟩
  | cons x xs ih =>
    intro i buf len ws ws' buf' len' hle h
    simp only [multipleLoop] at h
    by_cases hlt : len < buf.size
    · simp only [hlt, ↓reduceIte] at h
      obtain ⟨h1, h2, h3⟩ := ih (i+1) _ (len+1) ws ws' buf' len' (by simp; omega) h
      simp only [Array.size_setIfInBounds] at h1 h2
      refine ⟨h1, by simp only [List.length_cons]; omega, fun p hp => ?_⟩
      rw [h3 p hp, Array.getElem?_setIfInBounds]
      have : len ≠ p := by omega
      simp [this]
    · simp only [hlt, ↓reduceIte] at h
      split at h
      · simp at h
      · rename_i k ws1 hk
        obtain ⟨h1, h2, h3⟩ := ih (i+1) _ len ws1 ws' buf' len' (by simpa using hle) h
        simp only [Array.size_setIfInBounds] at h1 h2
        refine ⟨h1, by simp only [List.length_cons]; omega, fun p hp => ?_⟩
        rw [h3 p hp, Array.getElem?_setIfInBounds]
        by_cases hkp : k = p
        · subst hkp
          have : ¬ k < buf.size := by omega
          simp [this]
        · simp [hkp]

/-- **`multiple` returns `min(k, n)`**, keeps the buffer length and leaves the slots beyond the
returned count untouched - for all `n`, all `k` (`k < n`, `k = n`, `k > n`, `k = 0`), all words. -/
theorem multiple_shape (items : List Nat) (buf buf' : Array Nat) (cnt : Nat) (ws ws' : Words)
    (h : multiple items buf ws = some ((buf', cnt), ws')) :
    buf'.size = buf.size ∧ cnt = min buf.size items.length ∧ ∀ p, cnt ≤ p → buf'[p]? = buf[p]? := by
  have := multipleLoop_shape items 0 buf 0 ws ws' buf' cnt (Nat.zero_le _) h
  simpa using this

/-! ### The draws: link to the counting model -/

open Urandom.Mult

/-- slot ↦ content, for a buffer of exactly `k` slots -/
def toFun {k : ℕ} (buf : Array Nat) (h : buf.size = k) : Fin k → ℕ := fun j => buf[j.val]'(by rw [h]; exact j.2)

/-- the replace phase in explicit-draws form: item `k + t` arrives with draw `j` -/
def applyDraws {k : ℕ} : ℕ → List ℕ → (Fin k → ℕ) → (Fin k → ℕ)
  | _, [], B => B
  | t, j :: js, B => applyDraws (t+1) js (Mult.step (k + t) j B)

/-- valid draws: the draw for item `k + t` is an `index(k + t + 1)` result -/
def ValidDraws (k : ℕ) : ℕ → List ℕ → Prop
  | _, [] => True
  | t, j :: js => j < k + t + 1 ∧ ValidDraws k (t+1) js

theorem toFun_set {k : ℕ} (buf : Array Nat) (h : buf.size = k) (j x : ℕ) :
    toFun (buf.setIfInBounds j x) (by simpa using h) = Mult.step x j (toFun buf h) := by
  funext p
  unfold toFun Mult.step
  by_cases hj : j < k
  · simp only [hj, ↓reduceDIte]
    by_cases hp : j = p.val
    · have : p = ⟨j, hj⟩ := Fin.ext hp.symm
      subst this
      simp
    · have : p ≠ ⟨j, hj⟩ := fun e => hp (by rw [e])
      rw [Function.update_of_ne this, Array.getElem_setIfInBounds (by rw [h]; exact p.2)]
      simp [hp]
  · simp only [hj, ↓reduceDIte]
    have : j ≠ p.val := by have := p.2; omega
    rw [Array.getElem_setIfInBounds (by rw [h]; exact p.2)]
    simp [this]

/-- fill phase: the first `k` items go to slots `0 … k-1` in order, without any draw -/
theorem fill_phase : ∀ (m i : ℕ) (buf : Array Nat) (ws : Words), i + m ≤ buf.size →
    ∃ buf', multipleLoop (List.range' i m) i buf i ws = some ((buf', i + m), ws) ∧ buf'.size = buf.size ∧
      (∀ p (hp : p < buf'.size), i ≤ p → p < i + m → buf'[p] = p) ∧
      (∀ p (hp : p < buf'.size) (hp' : p < buf.size), p < i → buf'[p] = buf[p]) := by
  intro m
  induction m with
  | zero =>
    intro i buf ws _
    exact ⟨buf, by simp [multipleLoop], rfl, fun p _ h1 h2 => by omega, fun _ _ _ _ => rfl⟩
  | succ m ih =>
    intro i buf ws hle
    have hlt : i < buf.size := by omega
    obtain ⟨buf', e, hs, h1, h2⟩ := ih (i+1) (buf.setIfInBounds i i) ws (by simp; omega)
    refine ⟨buf', ?_, by simpa using hs, ?_, ?_⟩
    · simp only [List.range'_succ, multipleLoop, hlt, ↓reduceIte]
      rw [e]; congr 3; omega
    · intro p hp hip hpm
      by_cases hpi : p = i
      · subst hpi
        rw [h2 p hp (by simpa using hlt) (by omega)]
        simp
      · exact h1 p hp (by omega) (by omega)
    · intro p hp hp' hpi
      rw [h2 p hp (by simpa using hp') (by omega), Array.getElem_setIfInBounds hp']
      have : i ≠ p := by omega
      simp [this]

/-- replace phase: every further item draws `index(position + 1)` and overwrites that slot if it exists -/
theorem replace_phase {k : ℕ} : ∀ (m t : ℕ) (buf : Array Nat) (hk : buf.size = k) (ws ws' : Words) (buf' : Array Nat) (c : ℕ),
    k + t + m < IntTy.usize.M →
    multipleLoop (List.range' (k + t) m) (k + t) buf k ws = some ((buf', c), ws') →
    ∃ (hk' : buf'.size = k) (js : List ℕ), js.length = m ∧ ValidDraws k t js ∧
      toFun buf' hk' = applyDraws t js (toFun buf hk) := by
  intro m
  induction m with
  | zero =>
    intro t buf hk ws ws' buf' c _ h
    simp only [List.range'_zero, multipleLoop, Option.some.injEq, Prod.mk.injEq] at h
    obtain ⟨⟨rfl, _⟩, _⟩ := h
    exact ⟨hk, [], rfl, trivial, rfl⟩
  | succ m ih =>
    intro t buf hk ws ws' buf' c hbound h
    simp only [List.range'_succ, multipleLoop, hk, Nat.lt_irrefl, ↓reduceIte] at h
    split at h
    · simp at h
    · rename_i j ws1 hj
      have hjlt := index_lt (k + t + 1) (by omega) (by omega) ws ws1 j hj
      have := ih (t+1) (buf.setIfInBounds j (k + t)) (by simpa using hk) ws1 ws' buf' c (by omega)
        (by simpa [Nat.add_assoc] using h)
      obtain ⟨hk', js, hl, hv, e⟩ := this
      refine ⟨hk', j :: js, by simp [hl], ⟨hjlt, hv⟩, ?_⟩
      rw [e, toFun_set buf hk j (k + t)]
      rfl

theorem multipleLoop_append : ∀ (xs ys : List Nat) (i : Nat) (buf : Array Nat) (len : Nat) (ws : Words),
    multipleLoop (xs ++ ys) i buf len ws =
      match multipleLoop xs i buf len ws with
      | none => none
      | some ((buf', len'), ws') => multipleLoop ys (i + xs.length) buf' len' ws' := by
  intro xs
  induction xs with
  | nil => intro ys i buf len ws; simp [multipleLoop]
  | cons x xs ih =>
    intro ys i buf len ws
    simp only [List.cons_append, multipleLoop, List.length_cons]
    have e : i + (xs.length + 1) = i + 1 + xs.length := by omega
    split
    · rw [ih, e]
    · cases index (i + 1) ws with
      | none => rfl
      | some r => obtain ⟨k, w⟩ := r; simp only [ih, e]

/-- **The run of `multiple` is Algorithm R**: on a collection of `n ≥ k` items (identified with their
positions `0 … n-1`) the final buffer is obtained from the identity buffer `B₀` by the `n - k`
replacement steps with the valid draws `jₜ ≤ k + t` that `index` returned. -/
theorem multiple_is_algorithm_R {k : ℕ} (n : ℕ) (buf : Array Nat) (hk : buf.size = k) (hkn : k ≤ n)
    (hn : n < IntTy.usize.M) (ws ws' : Words) (buf' : Array Nat) (c : ℕ)
    (h : multiple (List.range n) buf ws = some ((buf', c), ws')) :
    ∃ (hk' : buf'.size = k) (js : List ℕ), js.length = n - k ∧ ValidDraws k 0 js ∧
      toFun buf' hk' = applyDraws 0 js (Mult.B₀ : Fin k → ℕ) := by
  have hsplit : List.range n = List.range' 0 k ++ List.range' k (n - k) := by
    rw [List.range_eq_range']
    have := List.range'_append_1 (s := 0) (m := k) (n := n - k)
    simp only [Nat.zero_add] at this
    rw [this]; congr 1; omega
  unfold multiple at h
  rw [hsplit, multipleLoop_append] at h
  obtain ⟨b1, e, hs, h1, _⟩ := fill_phase k 0 buf ws (by omega)
  rw [e] at h
  simp only [Nat.zero_add, List.length_range'] at h
  have hb1 : b1.size = k := by omega
  obtain ⟨hk', js, hl, hv, ef⟩ := replace_phase (n - k) 0 b1 hb1 ws ws' buf' c (by omega) (by simpa using h)
  refine ⟨hk', js, hl, hv, ?_⟩
  rw [ef]
  congr 1
  funext p
  simp only [toFun, Mult.B₀]
  exact h1 p.val (by rw [hb1]; exact p.2) (Nat.zero_le _) (by simp)

/-- valid draws keep the buffer "good": the slots hold pairwise distinct positions, all `< k + t` -/
theorem applyDraws_good {k : ℕ} : ∀ (js : List ℕ) (t : ℕ) (B : Fin k → ℕ), Good t B →
    Good (t + js.length) (applyDraws t js B) := by
  intro js
  induction js with
  | nil => intro t B h; simpa [applyDraws] using h
  | cons j js ih =>
    intro t B h
    have := ih (t+1) _ (good_step h j)
    simpa [applyDraws, Nat.add_assoc, Nat.add_comm 1] using this

/-- **The filled slots hold items from pairwise distinct positions of the collection.** -/
theorem multiple_distinct {k : ℕ} (n : ℕ) (buf : Array Nat) (hk : buf.size = k) (hkn : k ≤ n)
    (hn : n < IntTy.usize.M) (ws ws' : Words) (buf' : Array Nat) (c : ℕ)
    (h : multiple (List.range n) buf ws = some ((buf', c), ws')) :
    ∃ hk' : buf'.size = k, Function.Injective (toFun buf' hk') ∧ ∀ j, toFun buf' hk' j < n := by
  obtain ⟨hk', js, hl, _, e⟩ := multiple_is_algorithm_R n buf hk hkn hn ws ws' buf' c h
  have := applyDraws_good js 0 (Mult.B₀ : Fin k → ℕ) good_zero
  rw [← e] at this
  refine ⟨hk', this.1, fun j => ?_⟩
  have := this.2 j
  omega

/-! ### Exact uniformity -/

/-- **Every k-subset is equally likely.**  `N t w` is the sum of `w(final buffer)` over all draw
tuples `(j₀, …, j_{t-1})`, `jᵢ ≤ k + i`, of the `t = n - k` replacement steps (defined in
`Lemmas/Reservoir.lean` as the iterated sum over the draw space).  For every `k`-element subset `S`
of the positions `0 … k+t-1`, the number of draw tuples that leave exactly `S` in the buffer is
`t!` - the same for every subset; since there are `(k+1)(k+2)…(k+t)` tuples, each subset has
probability `t!·k!/(k+t)! = 1 / C(n, k)` and each item is included with probability `k/n`. -/
theorem multiple_uniform {k : ℕ} (t : ℕ) (S : Finset ℕ) (hS : S ⊆ Finset.range (k + t)) (hc : S.card = k) :
    Mult.N t (Mult.ind (k := k) S) = t.factorial :=
  Mult.main t S hS hc

/-- **D1 (replay).** The pinned code drew `index(i + 1 + k)`: for `k = 1`, `n = 2` that is a draw
`j ∈ {0,1,2}` of which only `j = 0` replaces - item 0 stays with probability 2/3 instead of 1/2.
With the repaired bound the two outcomes are equally likely. -/
theorem pinned_code_is_biased :
    -- pinned tree: 3 equally likely draws, 1 replaces
    ((List.range 3).filter (fun j => Mult.step (k := 1) 1 j Mult.B₀ ⟨0, by decide⟩ = 1)).length = 1 ∧
    ((List.range 3).filter (fun j => Mult.step (k := 1) 1 j Mult.B₀ ⟨0, by decide⟩ = 0)).length = 2 ∧
    -- repaired: 2 equally likely draws, 1 replaces
    ((List.range 2).filter (fun j => Mult.step (k := 1) 1 j Mult.B₀ ⟨0, by decide⟩ = 1)).length = 1 ∧
    ((List.range 2).filter (fun j => Mult.step (k := 1) 1 j Mult.B₀ ⟨0, by decide⟩ = 0)).length = 1 := by
  decide

/-! ### Non-vacuity -/
example : ({0, 2} : Finset ℕ) ⊆ Finset.range (2 + 1) ∧ ({0, 2} : Finset ℕ).card = 2 := by decide

end Urandom.C07
