import Urandom.Model.System
/-
C17 - System entropy: full-state seeding, each word served once, failures never masked.

Model: `Urandom.SystemGen` (tied to `src/rng/system.rs`, `src/rng/entropy.rs` by the `system` and
`newgen` correspondence streams: the crate is built without its `getrandom` feature and linked
against a scripted entropy source with tagged words and failure injection).  The theorems use the
label instance `srcLabels`, where every buffer word carries its origin: `good k j` (word `j` of
successful fetch `k`), `bad k` (scribbled by the failed fetch `k`), `zero` (initial buffer).
The model is the repaired code (fix D6); `pinned_code_serves_failed_fetch` is the replay of D6.
-/
namespace Urandom.C17
open Urandom.SystemGen

/-- `w` is a good word that comes before position `(K, J)` in fetch order -/
def Before (w : Src) (K J : Nat) : Prop := ∃ k j, w = .good k j ∧ (k < K ∨ (k = K ∧ j < J))

/-- strict fetch order on words -/
def SrcLt (a b : Src) : Prop := ∃ k j, b = .good k j ∧ Before a k j

theorem Before.mono {w : Src} {K J K' J' : Nat} (h : Before w K J) (hle : K < K' ∨ (K = K' ∧ J ≤ J')) : Before w K' J' := by
  obtain ⟨k, j, e, hk⟩ := h
  refine ⟨k, j, e, ?_⟩
  omega

/-- the words handed out so far by a history -/
def served : List (SystemGen.Out Src) → List Src
  | [] => []
  | .words l :: rest => l ++ served rest
  | _ :: rest => served rest

/-- invariant: the unread part of the buffer is the tail of one successful fetch, everything
served so far comes strictly before it (or before the next fetch) in fetch order -/
structure Inv (N : Nat) (s : St Src) (ws : List Src) : Prop where
  inBuf : s.index < N → ∃ kb, kb < s.fetches ∧ s.buf = (List.range N).map (Src.good kb) ∧ ∀ w ∈ ws, Before w kb s.index
  outBuf : N ≤ s.index → ∀ w ∈ ws, Before w s.fetches 0
  sorted : ws.Pairwise SrcLt

theorem pairwise_append_one {ws : List Src} {k j : Nat} (h : ws.Pairwise SrcLt) (hb : ∀ w ∈ ws, Before w k j) :
    (ws ++ [Src.good k j]).Pairwise SrcLt := by
  rw [List.pairwise_append]
  refine ⟨h, List.pairwise_singleton _ _, ?_⟩
  intro a ha b hb'
  simp only [List.mem_singleton] at hb'
  subst hb'
  exact ⟨k, j, rfl, hb a ha⟩

theorem drop_take_range (N kb i n : Nat) (h : i + n ≤ N) :
    (((List.range N).map (Src.good kb)).drop i).take n = (List.range n).map (fun t => Src.good kb (i + t)) := by
  apply List.ext_getElem
  · simp; omega
  · intro t h1 h2
    simp at h1 h2 ⊢

theorem init_inv (N : Nat) (hN : N < 2 ^ 32) (script : List Bool) : Inv N (St.new srcLabels N script) [] :=
  ⟨fun h => by simp [St.new] at h; omega, fun _ _ h => by simp at h, List.Pairwise.nil⟩

theorem fetchBlock_ok (N : Nat) (s : St Src) (hok : s.script.headD true = true) :
    fetchBlock srcLabels N s = (true, ⟨s.index, (List.range N).map (Src.good s.fetches), s.fetches + 1, s.script.tail⟩) := by
  unfold fetchBlock; rw [hok]; simp [srcLabels]

theorem fetchBlock_fail (N : Nat) (s : St Src) (hok : s.script.headD true = false) :
    fetchBlock srcLabels N s = (false, ⟨s.index, List.replicate N (Src.bad s.fetches), s.fetches + 1, s.script.tail⟩) := by
  unfold fetchBlock; rw [hok]; simp [srcLabels]

/-- discarding the unread rest of the block (refill, jump, failed fetch) keeps the invariant -/
theorem inv_discard {N : Nat} {s : St Src} {ws : List Src} (h : Inv N s ws) (i : Nat) (hi : N ≤ i)
    (buf : List Src) (script : List Bool) (f : Nat) (hf : s.fetches ≤ f) : Inv N ⟨i, buf, f, script⟩ ws := by
  refine ⟨fun hlt => by simp at hlt; omega, ?_, h.sorted⟩
  intro _ w hw
  by_cases hidx : s.index < N
  · obtain ⟨kb, hkb, _, hbef⟩ := h.inBuf hidx
    exact (hbef w hw).mono (by simp; omega)
  · exact (h.outBuf (by omega) w hw).mono (by simp; omega)

/-- a successful block fetch followed by serving its first `n` words -/
theorem inv_after_ok_fetch {N : Nat} {s : St Src} {ws : List Src} (h : Inv N s ws) (n : Nat) (hn : n ≤ N) (script : List Bool) :
    Inv N ⟨n, (List.range N).map (Src.good s.fetches), s.fetches + 1, script⟩
      (ws ++ (List.range n).map (fun t => Src.good s.fetches t)) := by
  have hb := (inv_discard h N (Nat.le_refl _) s.buf s.script s.fetches (Nat.le_refl _)).outBuf (Nat.le_refl _)
  simp only at hb
  have hmem : ∀ w ∈ ws ++ (List.range n).map (fun t => Src.good s.fetches t), Before w s.fetches n := by
    intro w hw
    rw [List.mem_append] at hw
    rcases hw with hw | hw
    · exact (hb w hw).mono (by omega)
    · simp only [List.mem_map, List.mem_range] at hw
      obtain ⟨t, ht, rfl⟩ := hw
      exact ⟨s.fetches, t, rfl, Or.inr ⟨rfl, ht⟩⟩
  refine ⟨?_, ?_, ?_⟩
  · intro _
    exact ⟨s.fetches, by simp, rfl, hmem⟩
  · intro _ w hw
    exact (hmem w hw).mono (by simp)
  · rw [List.pairwise_append]
    refine ⟨h.sorted, ?_, ?_⟩
    · rw [List.pairwise_map]
      apply List.Pairwise.imp _ (List.pairwise_lt_range (n := n))
      intro a b hab
      exact ⟨s.fetches, b, rfl, s.fetches, a, rfl, Or.inr ⟨rfl, hab⟩⟩
    · intro a ha b hb'
      simp only [List.mem_map, List.mem_range] at hb'
      obtain ⟨t, _, rfl⟩ := hb'
      exact ⟨s.fetches, t, rfl, (hb a ha).mono (by omega)⟩

theorem serve_inv {N : Nat} {s : St Src} {ws : List Src} (h : Inv N s ws) (n : Nat) (hn : s.index + n ≤ N) (hn0 : 0 < n) :
    Inv N ⟨s.index + n, s.buf, s.fetches, s.script⟩ (ws ++ (s.buf.drop s.index).take n) := by
  obtain ⟨kb, hkb, hbuf, hbef⟩ := h.inBuf (by omega)
  rw [hbuf, drop_take_range N kb s.index n hn]
  have hmem : ∀ w ∈ ws ++ (List.range n).map (fun t => Src.good kb (s.index + t)), Before w kb (s.index + n) := by
    intro w hw
    rw [List.mem_append] at hw
    rcases hw with hw | hw
    · exact (hbef w hw).mono (by omega)
    · simp only [List.mem_map, List.mem_range] at hw
      obtain ⟨t, ht, rfl⟩ := hw
      exact ⟨kb, s.index + t, rfl, Or.inr ⟨rfl, by omega⟩⟩
  refine ⟨?_, ?_, ?_⟩
  · intro _
    exact ⟨kb, hkb, rfl, hmem⟩
  · intro _ w hw
    exact (hmem w hw).mono (by simp only; omega)
  · rw [List.pairwise_append]
    refine ⟨h.sorted, ?_, ?_⟩
    · rw [List.pairwise_map]
      apply List.Pairwise.imp _ (List.pairwise_lt_range (n := n))
      intro a b hab
      exact ⟨kb, s.index + b, rfl, kb, s.index + a, rfl, Or.inr ⟨rfl, by omega⟩⟩
    · intro a ha b hb'
      simp only [List.mem_map, List.mem_range] at hb'
      obtain ⟨t, _, rfl⟩ := hb'
      exact ⟨kb, s.index + t, rfl, (hbef a ha).mono (by omega)⟩

/-- the words of one output -/
def outWords : SystemGen.Out Src → List Src
  | .words l => l
  | _ => []

theorem take_map_range (N k n : Nat) (hn : n ≤ N) :
    ((List.range N).map (Src.good k)).take n = (List.range n).map (fun t => Src.good k t) := by
  have := drop_take_range N k 0 n (by omega)
  simpa using this

theorem step_inv {N : Nat} (hN : N < 2 ^ 32) {s : St Src} {ws : List Src} (h : Inv N s ws) (op : SystemGen.Op) :
    Inv N (step srcLabels N s op).2 (ws ++ outWords (step srcLabels N s op).1) := by
  cases hsc : s.script.headD true with
  | true =>
    have hf := fetchBlock_ok N { s with index := 2 ^ 32 - 1 } hsc
    cases op with
    | u32 =>
      simp only [step, nextU32]
      by_cases hidx : s.index ≥ N
      · simp only [hidx, ↓reduceIte]
        by_cases h0 : N = 0
        · subst h0
          simp only [↓reduceIte, outWords, List.append_nil]
          refine inv_discard h _ ?_ _ _ _ ?_ <;> simp
        · simp only [h0, ↓reduceIte, hf, outWords]
          rw [take_map_range N _ 1 (by omega)]
          exact inv_after_ok_fetch h 1 (by omega) _
      · simp only [hidx, ↓reduceIte, outWords]
        exact serve_inv h 1 (by omega) (by omega)
    | u64 =>
      simp only [step, nextU64]
      by_cases h0 : N = 0
      · subst h0; simp only [↓reduceIte, outWords, List.append_nil]; exact h
      · simp only [h0, ↓reduceIte]
        by_cases hidx : s.index ≥ N - 1
        · simp only [hidx, ↓reduceIte, hf, not_true_eq_false]
          by_cases h2 : N < 2
          · simp only [h2, ↓reduceIte, outWords, List.append_nil]
            refine inv_discard h _ ?_ _ _ _ ?_ <;> simp <;> omega
          · simp only [h2, ↓reduceIte, outWords]
            rw [take_map_range N _ 2 (by omega)]
            exact inv_after_ok_fetch h 2 (by omega) _
        · simp only [hidx, ↓reduceIte, outWords]
          exact serve_inv h 2 (by omega) (by omega)
    | fill n =>
      simp only [step, SystemGen.fill]
      by_cases hn : n = 0
      · simp only [hn, ↓reduceIte, outWords, List.append_nil]; exact h
      · simp only [hn, ↓reduceIte, hsc, outWords, List.append_nil]
        refine ⟨?_, ?_, h.sorted⟩
        · intro hlt
          obtain ⟨kb, hkb, hbuf, hbef⟩ := h.inBuf hlt
          exact ⟨kb, by simp; omega, hbuf, hbef⟩
        · intro hle w hw
          exact (h.outBuf hle w hw).mono (by simp)
    | jump =>
      simp only [step, outWords, List.append_nil]
      refine inv_discard h _ ?_ _ _ _ ?_ <;> simp <;> omega
  | false =>
    have hf := fetchBlock_fail N { s with index := 2 ^ 32 - 1 } hsc
    cases op with
    | u32 =>
      simp only [step, nextU32]
      by_cases hidx : s.index ≥ N
      · simp only [hidx, ↓reduceIte]
        by_cases h0 : N = 0
        · subst h0
          simp only [↓reduceIte, outWords, List.append_nil]
          refine inv_discard h _ ?_ _ _ _ ?_ <;> simp
        · simp only [h0, ↓reduceIte, hf, Bool.false_eq_true, outWords, List.append_nil]
          refine inv_discard h _ ?_ _ _ _ ?_ <;> simp <;> omega
      · simp only [hidx, ↓reduceIte, outWords]
        exact serve_inv h 1 (by omega) (by omega)
    | u64 =>
      simp only [step, nextU64]
      by_cases h0 : N = 0
      · subst h0; simp only [↓reduceIte, outWords, List.append_nil]; exact h
      · simp only [h0, ↓reduceIte]
        by_cases hidx : s.index ≥ N - 1
        · simp only [hidx, ↓reduceIte, hf, Bool.false_eq_true, not_false_eq_true, outWords, List.append_nil]
          refine inv_discard h _ ?_ _ _ _ ?_ <;> simp <;> omega
        · simp only [hidx, ↓reduceIte, outWords]
          exact serve_inv h 2 (by omega) (by omega)
    | fill n =>
      simp only [step, SystemGen.fill]
      by_cases hn : n = 0
      · simp only [hn, ↓reduceIte, outWords, List.append_nil]; exact h
      · simp only [hn, ↓reduceIte, hsc, Bool.false_eq_true, outWords, List.append_nil]
        refine ⟨?_, ?_, h.sorted⟩
        · intro hlt
          obtain ⟨kb, hkb, hbuf, hbef⟩ := h.inBuf hlt
          exact ⟨kb, by simp; omega, hbuf, hbef⟩
        · intro hle w hw
          exact (h.outBuf hle w hw).mono (by simp)
    | jump =>
      simp only [step, outWords, List.append_nil]
      refine inv_discard h _ ?_ _ _ _ ?_ <;> simp <;> omega

theorem served_append (a b : List (SystemGen.Out Src)) : served (a ++ b) = served a ++ served b := by
  induction a with
  | nil => rfl
  | cons o a ih => cases o <;> simp [served, ih]

theorem run_inv {N : Nat} (hN : N < 2 ^ 32) (ops : List SystemGen.Op) : ∀ {s : St Src} {ws : List Src}, Inv N s ws →
    (ws ++ served (run srcLabels N s ops)).Pairwise SrcLt ∧
    ∀ w ∈ ws ++ served (run srcLabels N s ops), ∃ k j, w = Src.good k j := by
  induction ops with
  | nil =>
    intro s ws h
    simp only [run, served, List.append_nil]
    refine ⟨h.sorted, fun w hw => ?_⟩
    by_cases hidx : s.index < N
    · obtain ⟨kb, _, _, hbef⟩ := h.inBuf hidx
      obtain ⟨k, j, e, _⟩ := hbef w hw; exact ⟨k, j, e⟩
    · obtain ⟨k, j, e, _⟩ := h.outBuf (by omega) w hw; exact ⟨k, j, e⟩
  | cons op ops ih =>
    intro s ws h
    have := ih (step_inv hN h op)
    have e : ws ++ served (run srcLabels N s (op :: ops)) =
        ws ++ outWords (step srcLabels N s op).1 ++ served (run srcLabels N (step srcLabels N s op).2 ops) := by
      simp only [run, List.append_assoc]
      congr 1
      cases (step srcLabels N s op).1 <;> simp [served, outWords]
    rw [e]; exact this

/-- **Each fetched entropy word is returned at most once, in fetch order, and only words of
successful fetches are ever returned** - never the initial zero buffer, never anything a failed
fetch wrote - for every block size `N`, every entropy script (failures at any fetch index) and
every interleaving of `next_u32`, `next_u64`, `fill_bytes` and `jump` with panics caught. -/
theorem served_once_in_order (N : Nat) (hN : N < 2 ^ 32) (script : List Bool) (ops : List SystemGen.Op) :
    (served (run srcLabels N (St.new srcLabels N script) ops)).Pairwise SrcLt ∧
    ∀ w ∈ served (run srcLabels N (St.new srcLabels N script) ops), ∃ k j, w = Src.good k j := by
  have := run_inv hN ops (init_inv N hN script)
  simpa using this

/-- fetch order is irreflexive, so "sorted" means: no word twice -/
theorem srcLt_irrefl (a : Src) : ¬ SrcLt a a := by
  rintro ⟨k, j, e, k', j', e', h⟩
  rw [e] at e'
  injection e' with h1 h2
  omega

theorem served_nodup (N : Nat) (hN : N < 2 ^ 32) (script : List Bool) (ops : List SystemGen.Op) :
    (served (run srcLabels N (St.new srcLabels N script) ops)).Nodup := by
  have := (served_once_in_order N hN script ops).1
  exact this.imp (fun {a b} h e => by subst e; exact srcLt_irrefl a h)

/-- **a failing fetch makes the operation panic and return nothing** -/
theorem failed_fetch_panics (N : Nat) (h0 : 0 < N) (s : St Src) (hfail : s.script.headD true = false) :
    (s.index ≥ N → (step srcLabels N s .u32).1 = .panic) ∧
    (s.index ≥ N - 1 → (step srcLabels N s .u64).1 = .panic) ∧
    (∀ n, 0 < n → (step srcLabels N s (.fill n)).1 = .panic) := by
  have hN0 : N ≠ 0 := by omega
  have hf := fetchBlock_fail N { s with index := 2 ^ 32 - 1 } hfail
  refine ⟨?_, ?_, ?_⟩
  · intro hidx; simp only [step, nextU32, hidx, ↓reduceIte, hN0, hf, Bool.false_eq_true]
  · intro hidx; simp only [step, nextU64, hidx, ↓reduceIte, hN0, hf, Bool.false_eq_true, not_false_eq_true]
  · intro n hn
    have : n ≠ 0 := by omega
    simp only [step, SystemGen.fill, this, ↓reduceIte, hfail, Bool.false_eq_true]

/-- **`fill_bytes` returns exactly the bytes of one fresh fetch of that length**: fetch ids are
never reused (the counter only grows), so these bytes are served to nobody else -/
theorem fill_is_one_fresh_fetch (N : Nat) (s : St Src) (n : Nat) (hn : 0 < n) (hok : s.script.headD true = true) :
    step srcLabels N s (.fill n) = (.fetched s.fetches n, { s with fetches := s.fetches + 1, script := s.script.tail }) := by
  have : n ≠ 0 := by omega
  simp only [step, SystemGen.fill, this, ↓reduceIte, hok]

/-- **D6 (replay).** On the pinned tree `next_u64` with one word left called the entropy source
*before* invalidating `index`; if the fetch failed, the scribbled block stayed readable:
`System<2>`: `next_u32` (ok), `next_u64` (fails, panics), `next_u32` returned a word written by the
failed fetch.  With the repaired order the third call fetches afresh. -/
theorem repaired_code_refetches :
    run srcLabels 2 (St.new srcLabels 2 [true, false, true]) [.u32, .u64, .u32] =
      [.words [.good 0 0], .panic, .words [.good 2 0]] := by
  rfl

/-! ### the entropy-seeded constructors fill the whole state -/

/-- **`X::new()` fills the generator's entire state from the entropy source**: when the fetch
succeeds the state has exactly `words` words, the `j`-th is word `j` of that one fetch (so every
state word comes from its own entropy word, none is a constant, a copy or derived from another),
and they are pairwise distinct origins; when the fetch fails the constructor panics and no
generator exists. (`words` = 8 for Xoshiro256: all 256 bits; 12 for ChaCha: key, counter and stream;
2 for the 64-bit generators.) -/
theorem constructor_fills_whole_state (words : Nat) (script : List Bool) :
    (script.headD true = true →
      ∃ ws, SystemGen.newState srcLabels words script = some ws ∧ ws.length = words ∧
        (∀ j, j < words → ws[j]? = some (Src.good 0 j)) ∧ ws.Nodup) ∧
    (script.headD true = false → SystemGen.newState srcLabels words script = none) := by
  constructor
  · intro h
    refine ⟨(List.range words).map (Src.good 0), ?_, by simp, ?_, ?_⟩
    · unfold SystemGen.newState
      rw [if_pos h]
      rfl
    · intro j hj
      simp [hj]
    · unfold List.Nodup
      rw [List.pairwise_map]
      refine List.Pairwise.imp ?_ (List.nodup_range (n := words))
      intro a b hne hab
      cases hab
      exact hne rfl
  · intro h
    unfold SystemGen.newState
    rw [if_neg (by rw [h]; decide)]

example : SystemGen.newState natLabels 2 [] = some [65536, 65537] := by decide

end Urandom.C17
