import Urandom.Model.Seq
import Urandom.Generated.EffectShuffle
/-!
# C05 for `Random::shuffle` as translated from the source

`tools/extract_effect.py` translates the CURRENT text of `Random::shuffle` (src/random.rs) into a function of the slice length (a 64-bit
`usize`) and an abstract generator with `index : σ → BitVec 64 → BitVec 64 × σ`; it returns the log of `slice.swap(a, b)` calls, the generator
afterwards and whether the `while` ran out of fuel (2^64 rounds).  The theorem: whenever the hand-written model `Seq.shuffle` - the function
the uniformity theorems of `Props/C05.lean` are about - succeeds on an array of fewer than 2^64 elements, the translated function, given the
model's `index` as its generator, does not diverge, its swaps applied to the array give the model's result, and it leaves the model's words.
A draw from the wrong range (`len as u32`, `len - 1`), a swap with the wrong partner, a loop that stops early or late - for ANY length,
including those of 2^32 elements and more - breaks it.
-/
namespace Urandom.C05
open Urandom Urandom.Seq Urandom.Generated

/-- **`Random::index(len)` as translated**: `UniformInt::constant(0, len).sample(self)` - the stored pair is (0, len) itself, so the model's
`index n` is the usize sampler (translated and proved in `Props/C04T.lean`) on exactly the fields the code passes -/
theorem index_translated (n : Nat) (hn : n < 2 ^ 64) :
    index n = UniformInt.sample IntTy.usize
      ⟨(Effect.random.index_args (BitVec.ofNat 64 n)).1.toNat, (Effect.random.index_args (BitVec.ofNat 64 n)).2.toNat⟩ := by
  have : (BitVec.ofNat 64 n).toNat = n := by simp only [BitVec.toNat_ofNat]; omega
  simp only [Effect.random.index_args, this]
  rfl

/-- the model's `index` as a total generator function over the mock words (a panic of the model leaves the words; not reached below) -/
def idxT (ws : Words) (n : BitVec 64) : BitVec 64 × Words :=
  match index n.toNat ws with
  | some (k, ws') => (BitVec.ofNat 64 k, ws')
  | none => (0#64, ws)

/-- apply a log of swaps (`slice.swap` panics out of bounds) -/
def applySwaps : Array Nat → List (BitVec 64 × BitVec 64) → Option (Array Nat)
  | a, [] => some a
  | a, (i, j) :: rest => match swap? a i.toNat j.toNat with
    | some a' => applySwaps a' rest
    | none => none

theorem applySwaps_append (a : Array Nat) (l1 l2 : List (BitVec 64 × BitVec 64)) :
    applySwaps a (l1 ++ l2) = (applySwaps a l1).bind (fun a' => applySwaps a' l2) := by
  induction l1 generalizing a with
  | nil => simp [applySwaps]
  | cons p l1 ih =>
    obtain ⟨i, j⟩ := p
    simp only [List.cons_append, applySwaps]
    cases swap? a i.toNat j.toNat with
    | none => simp
    | some a' => simp [ih]

theorem swap?_size {a a' : Array Nat} {i j : Nat} (h : swap? a i j = some a') : a'.size = a.size ∧ i < a.size ∧ j < a.size := by
  unfold swap? at h
  split at h
  · rename_i hb
    cases h
    exact ⟨by simp, hb.1, hb.2⟩
  · cases h

theorem while1_shuffle : ∀ (len : Nat) (fuel : Nat) (a a' : Array Nat) (ws ws' : Words) (log : List (BitVec 64 × BitVec 64)) (d : Bool),
    len < fuel → len ≤ a.size → a.size < 2 ^ 64 → shuffleLoop len a ws = some (a', ws') →
    ∃ sw, Effect.random.shuffle_while1 idxT fuel (BitVec.ofNat 64 len, ws, log, d) = (BitVec.ofNat 64 (min len 1), ws', log ++ sw, d) ∧
      applySwaps a sw = some a' := by
  intro len
  induction len with
  | zero =>
    intro fuel a a' ws ws' log d hf _ _ hm
    obtain ⟨f, rfl⟩ : ∃ f, fuel = f + 1 := ⟨fuel - 1, by omega⟩
    simp only [shuffleLoop, Option.some.injEq, Prod.mk.injEq] at hm
    obtain ⟨rfl, rfl⟩ := hm
    refine ⟨[], ?_, rfl⟩
    rw [Effect.random.shuffle_while1]
    have n : ¬ (BitVec.ofNat 64 0 > 1#64) := by decide
    simp [n]
  | succ len ih =>
    intro fuel a a' ws ws' log d hf hle hsz hm
    obtain ⟨f, rfl⟩ : ∃ f, fuel = f + 1 := ⟨fuel - 1, by omega⟩
    cases len with
    | zero =>
      simp only [shuffleLoop, Option.some.injEq, Prod.mk.injEq] at hm
      obtain ⟨rfl, rfl⟩ := hm
      refine ⟨[], ?_, rfl⟩
      rw [Effect.random.shuffle_while1]
      have n : ¬ (BitVec.ofNat 64 (0 + 1) > 1#64) := by decide
      simp [n]
    | succ len =>
      have hN : (BitVec.ofNat 64 (len + 1 + 1)).toNat = len + 2 := by simp only [BitVec.toNat_ofNat]; omega
      have p : BitVec.ofNat 64 (len + 1 + 1) > 1#64 := by rw [gt_iff_lt, BitVec.lt_def, hN]; simp
      simp only [shuffleLoop] at hm
      cases hi : index (len + 2) ws with
      | none => rw [hi] at hm; cases hm
      | some kw =>
        obtain ⟨k, ws1⟩ := kw
        rw [hi] at hm
        simp only at hm
        cases hsw : swap? a k (len + 1) with
        | none => rw [hsw] at hm; cases hm
        | some a1 =>
          rw [hsw] at hm
          simp only at hm
          obtain ⟨hsz1, hk, _⟩ := swap?_size hsw
          obtain ⟨sw, h1, h2⟩ := ih f a1 a' ws1 ws' (log ++ [(BitVec.ofNat 64 k, BitVec.ofNat 64 (len + 1 + 1) - 1#64)]) d
            (by omega) (by omega) (by omega) hm
          have hidx : idxT ws (BitVec.ofNat 64 (len + 1 + 1)) = (BitVec.ofNat 64 k, ws1) := by
            unfold idxT; rw [hN, hi]
          have hsub : BitVec.ofNat 64 (len + 1 + 1) - 1#64 = BitVec.ofNat 64 (len + 1) := by
            apply BitVec.eq_of_toNat_eq
            rw [BitVec.toNat_sub_of_le (by rw [BitVec.le_def, hN]; simp)]
            simp only [hN, BitVec.toNat_ofNat]; simp; omega
          refine ⟨(BitVec.ofNat 64 k, BitVec.ofNat 64 (len + 1)) :: sw, ?_, ?_⟩
          · rw [Effect.random.shuffle_while1]
            simp only [p, if_true, hidx]
            rw [hsub] at h1 ⊢
            rw [h1]
            have hmin : min (len + 1) 1 = min (len + 1 + 1) 1 := by omega
            simp [hmin]
          · have hk' : (BitVec.ofNat 64 k).toNat = k := by simp only [BitVec.toNat_ofNat]; omega
            have hl' : (BitVec.ofNat 64 (len + 1)).toNat = len + 1 := by simp only [BitVec.toNat_ofNat]; omega
            simp only [applySwaps, hk', hl', hsw]
            exact h2

/-- **`Random::shuffle` as translated is the model's `shuffle`**, for every array of fewer than 2^64 elements on which the model succeeds -/
theorem shuffle_translated (a a' : Array Nat) (ws ws' : Words) (hsz : a.size < 2 ^ 64) (hm : Seq.shuffle a ws = some (a', ws')) :
    (Effect.random.shuffle idxT ws (BitVec.ofNat 64 a.size)).2.2 = false ∧
    applySwaps a (Effect.random.shuffle idxT ws (BitVec.ofNat 64 a.size)).1 = some a' ∧
    (Effect.random.shuffle idxT ws (BitVec.ofNat 64 a.size)).2.1 = ws' := by
  obtain ⟨sw, h1, h2⟩ := while1_shuffle a.size (2 ^ 64) a a' ws ws' [] false hsz (Nat.le_refl _) hsz hm
  unfold Effect.random.shuffle
  simp only [h1, List.nil_append]
  exact ⟨trivial, h2, trivial⟩

/-- the model's `range(lo..hi)` on usize as a total generator function -/
def rngT (ws : Words) (lo hi : BitVec 64) : BitVec 64 × Words :=
  match rangeUsize lo.toNat hi.toNat ws with
  | some (k, ws') => (BitVec.ofNat 64 k, ws')
  | none => (0#64, ws)

theorem for1_pshuf : ∀ (cnt i : Nat) (a a' : Array Nat) (ws ws' : Words) (log : List (BitVec 64 × BitVec 64)) (S : Nat),
    S = a.size → S < 2 ^ 64 → i + cnt ≤ S → pshufLoop cnt i a ws = some (a', ws') →
    ∃ sw, (List.range' i cnt).foldl (Effect.random.partial_shuffle_for1 rngT (BitVec.ofNat 64 S)) (ws, log) = (ws', log ++ sw) ∧
      applySwaps a sw = some a' := by
  intro cnt
  induction cnt with
  | zero =>
    intro i a a' ws ws' log S _ _ _ hm
    simp only [pshufLoop, Option.some.injEq, Prod.mk.injEq] at hm
    obtain ⟨rfl, rfl⟩ := hm
    exact ⟨[], by simp, rfl⟩
  | succ cnt ih =>
    intro i a a' ws ws' log S hS hlt hle hm
    subst hS
    simp only [pshufLoop] at hm
    cases hr : rangeUsize i a.size ws with
    | none => rw [hr] at hm; cases hm
    | some kw =>
      obtain ⟨k, ws1⟩ := kw
      rw [hr] at hm
      simp only at hm
      cases hsw : swap? a i k with
      | none => rw [hsw] at hm; cases hm
      | some a1 =>
        rw [hsw] at hm
        simp only at hm
        obtain ⟨hsz1, _, hk⟩ := swap?_size hsw
        have hiN : (BitVec.ofNat 64 i).toNat = i := by simp only [BitVec.toNat_ofNat]; omega
        have hSN : (BitVec.ofNat 64 a.size).toNat = a.size := by simp only [BitVec.toNat_ofNat]; omega
        have hkN : (BitVec.ofNat 64 k).toNat = k := by simp only [BitVec.toNat_ofNat]; omega
        obtain ⟨sw, h1, h2⟩ := ih (i + 1) a1 a' ws1 ws' (log ++ [(BitVec.ofNat 64 i, BitVec.ofNat 64 k)]) a.size
          (by omega) hlt (by omega) hm
        have hstep : Effect.random.partial_shuffle_for1 rngT (BitVec.ofNat 64 a.size) (ws, log) i =
            (ws1, log ++ [(BitVec.ofNat 64 i, BitVec.ofNat 64 k)]) := by
          unfold Effect.random.partial_shuffle_for1 rngT
          simp only [hiN, hSN, hr]
        refine ⟨(BitVec.ofNat 64 i, BitVec.ofNat 64 k) :: sw, ?_, ?_⟩
        · rw [List.range'_succ, List.foldl_cons, hstep, h1]
          simp
        · simp only [applySwaps, hiN, hkN, hsw]
          exact h2

/-- **`Random::partial_shuffle` as translated is the model's `partialShuffle`**, for every array of fewer than 2^64 elements and every `n`
on which the model succeeds -/
theorem partial_shuffle_translated (a a' : Array Nat) (n : Nat) (ws ws' : Words) (hsz : a.size < 2 ^ 64) (hn : n < 2 ^ 64)
    (hm : Seq.partialShuffle a n ws = some (a', ws')) :
    applySwaps a (Effect.random.partial_shuffle rngT ws (BitVec.ofNat 64 a.size) (BitVec.ofNat 64 n)).1 = some a' ∧
    (Effect.random.partial_shuffle rngT ws (BitVec.ofNat 64 a.size) (BitVec.ofNat 64 n)).2 = ws' := by
  have hSN : (BitVec.ofNat 64 a.size).toNat = a.size := by simp only [BitVec.toNat_ofNat]; omega
  have hnN : (BitVec.ofNat 64 n).toNat = n := by simp only [BitVec.toNat_ofNat]; omega
  unfold Seq.partialShuffle at hm
  unfold Effect.random.partial_shuffle
  by_cases h1 : a.size > 1
  · have p : BitVec.ofNat 64 a.size > 1#64 := by rw [gt_iff_lt, BitVec.lt_def, hSN]; simpa using h1
    have hsub : (BitVec.ofNat 64 a.size - 1#64).toNat = a.size - 1 := by
      rw [BitVec.toNat_sub_of_le (by rw [BitVec.le_def, hSN]; simp; omega), hSN]; rfl
    have hmin : (if BitVec.ofNat 64 n ≤ BitVec.ofNat 64 a.size - 1#64 then BitVec.ofNat 64 n else BitVec.ofNat 64 a.size - 1#64).toNat
        = min n (a.size - 1) := by
      split
      · rename_i hle; rw [BitVec.le_def, hnN, hsub] at hle; rw [hnN]; omega
      · rename_i hle; rw [BitVec.le_def, hnN, hsub] at hle; rw [hsub]; omega
    simp only [h1, if_true] at hm
    obtain ⟨sw, hf, ha⟩ := for1_pshuf (min n (a.size - 1)) 0 a a' ws ws' [] a.size rfl hsz (by omega) hm
    simp only [p, if_true, hmin, hf, List.nil_append]
    exact ⟨ha, trivial⟩
  · have p : ¬ (BitVec.ofNat 64 a.size > 1#64) := by rw [gt_iff_lt, BitVec.lt_def, hSN]; simpa using h1
    simp only [h1, if_false, Option.some.injEq, Prod.mk.injEq] at hm
    obtain ⟨rfl, rfl⟩ := hm
    simp only [p, if_false]
    exact ⟨rfl, trivial⟩

end Urandom.C05

namespace Urandom.C05
open Urandom Urandom.Seq
/-- the premise is satisfiable: the model shuffles a three-element array with two words -/
example : (Seq.shuffle #[10, 20, 30] [5#64, 0xffffffffffffffff#64]).isSome = true := by decide +kernel
example : (Seq.partialShuffle #[10, 20, 30, 40] 2 [5#64, 0xffffffffffffffff#64]).isSome = true := by decide +kernel
end Urandom.C05
