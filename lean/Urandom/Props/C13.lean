import Urandom.Lemmas.Index
import Urandom.Model.Standard
/-
C13 - Standard-distribution values are exactly equiprobable and always valid.

Model: `Urandom.Standard` / `Urandom.Alnum` (tied to `src/distr/standard.rs`,
`src/distr/alnum.rs` by the `std` / `alnum` correspondence streams, debug and release builds).
-/
namespace Urandom.C13
open Urandom Urandom.Standard UniformInt

/-! ### integers and bool: truncating casts with equally many preimages -/

/-- 8/16/32-bit integers are the truncation of one 32-bit draw; the 32-bit words that give the
value `v` are exactly `v + j·2^b`, `j < 2^(32-b)`: every value has `2^(32-b)` preimages. -/
theorem int_narrow_preimage (b v w : Nat) (hb : b ≤ 32) (hv : v < 2 ^ b) :
    (w < 2 ^ 32 ∧ w % 2 ^ b = v) ↔ ∃ j, j < 2 ^ (32 - b) ∧ w = v + j * 2 ^ b :=
  trunc_preimage 32 b v w hb hv

theorem intSample_narrow (b : Nat) (hb : b ≤ 32) (w : BitVec 64) (ws : Words) :
    intSample b (w :: ws) = some ((w.toNat % 2 ^ 32) % 2 ^ b, ws) := by
  simp [intSample, hb, Mock.u32]

/-- 64-bit integers (`i64`, `u64`, `isize`, `usize`) are one 64-bit draw, unchanged: a bijection -/
theorem intSample_64 (w : BitVec 64) (ws : Words) : intSample 64 (w :: ws) = some (w.toNat, ws) := by
  have : w.toNat % 2 ^ 64 = w.toNat := Nat.mod_eq_of_lt w.isLt
  simp [intSample, Mock.u64, this]

/-- 128-bit integers are `low | high << 64` of two consecutive draws, low word first - a bijection
between word pairs and 128-bit values -/
theorem intSample_128 (lo hi : BitVec 64) (ws : Words) :
    intSample 128 (lo :: hi :: ws) = some (lo.toNat + hi.toNat * 2 ^ 64, ws) ∧
      lo.toNat + hi.toNat * 2 ^ 64 < 2 ^ 128 ∧
      (lo.toNat + hi.toNat * 2 ^ 64) % 2 ^ 64 = lo.toNat ∧ (lo.toNat + hi.toNat * 2 ^ 64) / 2 ^ 64 = hi.toNat := by
  have h1 := lo.isLt
  have h2 := hi.isLt
  refine ⟨?_, by omega, by omega, by omega⟩
  simp only [intSample, show ¬ (128 ≤ 32) by decide, show ¬ (128 ≤ 64) by decide, ↓reduceIte]
  congr 2
  rw [Nat.shiftLeft_eq, Nat.mul_comm, Nat.or_comm, ← Nat.two_pow_add_eq_or_of_lt h1]
  omega

/-- `bool` is the top bit of a 32-bit draw: `2^31` words each -/
theorem bool_sample (checked : Bool) (w : BitVec 64) (ws : Words) :
    primSample checked .bool (w :: ws) = some ((if w.toNat % 2 ^ 32 ≥ 2 ^ 31 then 1 else 0), ws) := by
  simp [primSample, Mock.u32]

/-! ### char: a bijection from the uniform draw onto the Unicode scalar values -/

theorem charOf_scalar (n : Nat) (h1 : GAP_SIZE ≤ n) (h2 : n < 0x110000) : isScalar (charOf n) := by
  unfold charOf isScalar GAP_SIZE at *; split <;> omega

theorem charOf_injective (a b : Nat) (ha : GAP_SIZE ≤ a) (hb : GAP_SIZE ≤ b) (h : charOf a = charOf b) : a = b := by
  unfold charOf GAP_SIZE at *; split at h <;> split at h <;> omega

theorem charOf_surjective (c : Nat) (h : isScalar c) : ∃ n, GAP_SIZE ≤ n ∧ n < 0x110000 ∧ charOf n = c := by
  unfold isScalar at h
  rcases h with h | ⟨h1, h2⟩
  · exact ⟨c + 0x800, by unfold GAP_SIZE; omega, by omega, by unfold charOf GAP_SIZE; split <;> omega⟩
  · exact ⟨c, by unfold GAP_SIZE; omega, h2, by unfold charOf GAP_SIZE; split <;> omega⟩

theorem u32_valid : C04.Valid IntTy.u32 := ⟨by decide, by decide⟩

/-- **`char` samples are always valid Unicode scalar values** (never a surrogate, never above
`0x10FFFF`), whatever the words: the checked conversion of debug builds cannot panic and the
unchecked conversion of release builds is sound.  Both builds compute the same value. -/
theorem char_always_scalar (checked : Bool) (ws ws' : Words) (c : Nat)
    (h : charSample checked ws = some (c, ws')) : isScalar c := by
  unfold charSample at h
  split at h
  · simp at h
  · rename_i d hd
    split at h
    · simp at h
    · rename_i n ws1 hn
      have hM : IntTy.u32.M = 2 ^ 32 := rfl
      have := C04.sample_mem IntTy.u32 u32_valid GAP_SIZE 0x110000 false (by rw [hM]; decide) (by rw [hM]; decide)
        d hd ws ws1 n hn
      simp only [IntTy.toInt_unsigned IntTy.u32 rfl, Bool.false_eq_true, ↓reduceIte] at this
      have hs : isScalar (charOf n) := charOf_scalar n (by omega) (by omega)
      simp only [hs, not_true_eq_false, and_false, ↓reduceIte, Option.some.injEq, Prod.mk.injEq] at h
      rw [← h.1]; exact hs

/-- release and debug builds agree on every word sequence (the check never fires) -/
theorem char_checked_irrelevant (ws : Words) : charSample true ws = charSample false ws := by
  cases h : charSample false ws with
  | none =>
    unfold charSample at h ⊢
    split at h
    · rfl
    · split at h
      · simp_all
      · simp at h
  | some r =>
    obtain ⟨c, ws'⟩ := r
    have hs := char_always_scalar false ws ws' c h
    unfold charSample at h ⊢
    split at h
    · simp at h
    · split at h
      · simp at h
      · rename_i n ws1 hn
        simp only [hn]
        simp only [Bool.false_eq_true, false_and, ↓reduceIte, Option.some.injEq, Prod.mk.injEq] at h
        obtain ⟨h1, h2⟩ := h
        subst h1 h2
        simp [hs]

/-- the `char` range has `0x110000 - 0x800` values, each from the same number of words (C04), and
`charOf` maps them one-to-one onto the scalar values: every scalar value is reachable and equally
weighted -/
theorem char_range : tryNew IntTy.u32 GAP_SIZE 0x110000 false = .ok ⟨0x800, 0x10F800⟩ := by rfl

/-! ### NonZero: never zero -/

theorem nzSample_ne_zero (bits : Nat) : ∀ (ws ws' : Words) (v : Nat), nzSample bits ws = some (v, ws') → v ≠ 0 := by
  intro ws
  induction ws with
  | nil => intro ws' v h; simp [nzSample] at h
  | cons w ws ih =>
    intro ws' v h
    rw [nzSample] at h
    split at h
    · simp at h
    · rename_i v1 ws1 _
      split at h
      · rename_i hv; injection h with h; injection h with h1 h2; rw [← h1]; exact hv
      · exact ih ws' v h

theorem nzSample128_ne_zero : ∀ (n : Nat) (ws ws' : Words) (v : Nat), ws.length ≤ n →
    nzSample128 ws = some (v, ws') → v ≠ 0 := by
  intro n
  induction n with
  | zero =>
    intro ws ws' v hl h
    have : ws = [] := List.eq_nil_of_length_eq_zero (by omega)
    subst this; simp [nzSample128] at h
  | succ n ih =>
    intro ws ws' v hl h
    match ws, h with
    | [], h => simp [nzSample128] at h
    | [_], h => simp [nzSample128] at h
    | lo :: hi :: ws, h =>
      rw [nzSample128] at h
      split at h
      · rename_i hv; injection h with h; injection h with h1 h2; rw [← h1]; exact hv
      · exact ih ws ws' v (by simp at hl; omega) h

/-- **`NonZero*` samples are never zero**, for every width and every word sequence; the sampler
returns the first non-zero draw, so each non-zero value keeps the weight it has in the plain type. -/
theorem nonzero_never_zero (checked : Bool) (bits : Nat) (ws ws' : Words) (v : Nat)
    (h : primSample checked (.nz bits) ws = some (v, ws')) : v ≠ 0 := by
  simp only [primSample] at h
  by_cases hb : bits > 64
  · simp only [hb, ↓reduceIte] at h
    exact nzSample128_ne_zero ws.length ws ws' v (Nat.le_refl _) h
  · simp only [hb, ↓reduceIte] at h
    exact nzSample_ne_zero bits ws ws' v h

/-! ### tuples and arrays: left to right from consecutive draws -/

/-- **component `i+1` is drawn from the words immediately after component `i`** -/
theorem seqSample_cons (checked : Bool) (p : Prim) (ps : List Prim) (ws : Words) :
    seqSample checked (p :: ps) ws =
      match primSample checked p ws with
      | none => none
      | some (v, ws') =>
        match seqSample checked ps ws' with
        | none => none
        | some (vs, ws'') => some (v :: vs, ws'') := rfl

theorem seqSample_append (checked : Bool) : ∀ (ps qs : List Prim) (ws : Words),
    seqSample checked (ps ++ qs) ws =
      match seqSample checked ps ws with
      | none => none
      | some (vs, ws') =>
        match seqSample checked qs ws' with
        | none => none
        | some (us, ws'') => some (vs ++ us, ws'') := by
  intro ps
  induction ps with
  | nil => intro qs ws; simp only [List.nil_append, seqSample]; cases seqSample checked qs ws <;> rfl
  | cons p ps ih =>
    intro qs ws
    simp only [List.cons_append, seqSample]
    cases primSample checked p ws with
    | none => rfl
    | some r =>
      obtain ⟨v, ws1⟩ := r
      simp only [ih]
      cases seqSample checked ps ws1 with
      | none => rfl
      | some r2 =>
        obtain ⟨vs, ws2⟩ := r2
        simp only
        cases seqSample checked qs ws2 <;> rfl

/-! ### Alnum -/

/-- the table is exactly `[0-9A-Za-z]`: 62 pairwise distinct characters -/
theorem alnum_table : Alnum.table.length = 62 ∧ Alnum.table.Nodup ∧
    ∀ c ∈ Alnum.table, ('0' ≤ c ∧ c ≤ '9') ∨ ('A' ≤ c ∧ c ≤ 'Z') ∨ ('a' ≤ c ∧ c ≤ 'z') := by
  decide

/-- **Alnum yields only table characters**; the index is the top six bits of a 32-bit draw (each
index from exactly `2^26` words), accepted iff `< 62` -/
theorem alnum_mem : ∀ (ws ws' : Words) (c : Char), Alnum.sample ws = some (c, ws') → c ∈ Alnum.table := by
  intro ws
  induction ws with
  | nil => intro ws' c h; simp [Alnum.sample] at h
  | cons w ws ih =>
    intro ws' c h
    simp only [Alnum.sample] at h
    split at h
    · injection h with h; injection h with h1 h2; rw [← h1]; exact List.getElem_mem _
    · exact ih ws' c h

theorem alnum_index (w : BitVec 64) (ws : Words) (i : Nat) (hi : i < 62) :
    (w.setWidth 32).toNat >>> 26 = i → Alnum.sample (w :: ws) = some (Alnum.table[i]'(by rw [alnum_table.1]; exact hi), ws) := by
  intro h
  simp only [Alnum.sample, h]
  have : i < Alnum.table.length := by rw [alnum_table.1]; exact hi
  simp [this]

example : charSample true [0#64, 0xFFFFFFFFFFFFFFFF#64] = some (0x10FFFF, []) := by decide

end Urandom.C13
