import Urandom.Lemmas.Mix
import Urandom.Spec.Published
import Urandom.Props.C02
import Urandom.Props.C08
import Urandom.Lemmas.WyStream
/-
C09 - Every 64-bit seed gives a valid, distinct generator.

Model: the `fromSeed` functions of `Urandom.Model.Word` and `Urandom.ChaCha` (tied to
`X::from_seed` / `urandom::seeded` by the `word` and `chacha` correspondence streams, which read
the state back through serde).
-/
namespace Urandom.C09
open Urandom

/-- **`mix64` is a bijection of the 64-bit words** (explicit inverse), and `mix64 0 = 0` -/
theorem mix64_injective : Function.Injective SplitMix.mix64 := SplitMix.mix64_injective
theorem mix64_zero : SplitMix.mix64 0#64 = 0#64 := SplitMix.mix64_zero
theorem mix64_has_inverse (z : BitVec 64) : SplitMix.unmix64 (SplitMix.mix64 z) = z := SplitMix.unmix_mix z

/-- the four state words are `mix64(seed + k·γ)`, `k = 1..4` -/
theorem xoshiro_fromSeed_words (seed : BitVec 64) :
    Xoshiro.fromSeed seed =
      ⟨SplitMix.mix64 (seed + SplitMix.GAMMA), SplitMix.mix64 (seed + SplitMix.GAMMA + SplitMix.GAMMA),
       SplitMix.mix64 (seed + SplitMix.GAMMA + SplitMix.GAMMA + SplitMix.GAMMA),
       SplitMix.mix64 (seed + SplitMix.GAMMA + SplitMix.GAMMA + SplitMix.GAMMA + SplitMix.GAMMA)⟩ := rfl

/-- **For every one of the 2^64 seeds the Xoshiro256 state is not all-zero** (the fixed point that
would return zeros forever): the first two words cannot both vanish, because `mix64` is injective
with `mix64 0 = 0` and `γ ≠ 0`. -/
theorem xoshiro_fromSeed_ne_zero (seed : BitVec 64) : Xoshiro.fromSeed seed ≠ Xoshiro.zeroS := by
  rw [xoshiro_fromSeed_words]
  intro h
  simp only [Xoshiro.zeroS, Xoshiro.S.mk.injEq] at h
  have h1 := SplitMix.mix64_eq_zero _ h.1
  have h2 := SplitMix.mix64_eq_zero _ h.2.1
  rw [h1] at h2
  have : SplitMix.GAMMA ≠ 0#64 := by decide
  exact this (by simpa using h2)

/-- **Two different seeds never give the same Xoshiro256 state** (already the first word differs) -/
theorem xoshiro_fromSeed_injective : Function.Injective Xoshiro.fromSeed := by
  intro a b h
  rw [xoshiro_fromSeed_words, xoshiro_fromSeed_words] at h
  simp only [Xoshiro.S.mk.injEq] at h
  have := SplitMix.mix64_injective h.1
  exact (BitVec.add_left_inj _).1 this

/-- SplitMix64 and Wyrand are seeded with the seed itself -/
theorem splitmix_fromSeed_injective : Function.Injective SplitMix.fromSeed := fun _ _ h => h
theorem wyrand_fromSeed_injective : Function.Injective Wyrand.fromSeed := fun _ _ h => h

/-- SplitMix64: different seeds give different *output streams* - the first word already differs -/
theorem splitmix_first_output_injective :
    Function.Injective (fun seed => (SplitMix.next (SplitMix.fromSeed seed)).1) := by
  intro a b h
  have := SplitMix.mix64_injective h
  exact (BitVec.add_left_inj _).1 this

/-- **ChaCha: different seeds give different keys** (key words 0 and 1 are the two seed halves);
counter and stream are the documented constants 1 and 0 -/
theorem chacha_fromSeed_injective : Function.Injective ChaCha.fromSeed := by
  intro a b h
  rw [C02.fromSeed_layout, C02.fromSeed_layout] at h
  simp only [ChaCha.State.new, ChaCha.State.mk.injEq] at h
  have e := C02.join64_split a
  rw [h.1, h.2.1, C02.join64_split] at e
  exact e.symm

/-- state sequences of different seeds differ forever for the Weyl generators (the state map is a
bijection `x ↦ x + c`) -/
theorem weyl_states_differ (c a b : BitVec 64) (h : a ≠ b) (n : Nat) :
    Spec.iter (fun x => x + c) n a ≠ Spec.iter (fun x => x + c) n b := by
  induction n generalizing a b with
  | zero => exact h
  | succ n ih =>
    simp only [Spec.iter]
    exact ih _ _ (fun e => h ((BitVec.add_left_inj _).1 e))

/-! ### different seeds give different output STREAMS (Xoshiro256++) -/

/-- the outputs of `n` successive `next_u64` calls are the `++` scrambler along the state sequence -/
theorem xoshiro_run_u64 (n : Nat) (s : Xoshiro.S) :
    (Xoshiro.gen.run s (List.replicate n .u64)).1 =
      (List.range n).map (fun i => Out.w64 (Xoshiro.outPlusPlus (Xoshiro.advance^[i] s))) := by
  induction n generalizing s with
  | zero => rfl
  | succ n ih =>
    rw [List.replicate_succ, List.range_succ_eq_map, List.map_cons, List.map_map]
    show Out.w64 (Xoshiro.outPlusPlus s) :: (Xoshiro.gen.run (Xoshiro.advance s) (List.replicate n .u64)).1 = _
    rw [ih]
    rfl

/-- **Two different seeds never produce the same stream** of 64-bit outputs from the seeded
Xoshiro256 (`urandom::seeded`): their initial states differ and are non-zero (above), and two
different non-zero states of the one full-period cycle give different output sequences
(`C08.xoshiro_distinct_states_distinct_streams`: the output sequence of xoshiro256++ itself has
period `2^256 - 1`). -/
def DistinctStreamsFull : Prop :=
  ∀ a b : BitVec 64, a ≠ b → ∃ n, (Xoshiro.gen.run (Xoshiro.fromSeed a) (List.replicate n .u64)).1 ≠
    (Xoshiro.gen.run (Xoshiro.fromSeed b) (List.replicate n .u64)).1

theorem xoshiro_distinct_seeds_distinct_streams : DistinctStreamsFull := by
  intro a b hab
  have hs : Xoshiro.fromSeed a ≠ Xoshiro.fromSeed b := fun h => hab (xoshiro_fromSeed_injective h)
  obtain ⟨n, hn⟩ := C08.xoshiro_distinct_states_distinct_streams _ _ (xoshiro_fromSeed_ne_zero a) (xoshiro_fromSeed_ne_zero b) hs
  refine ⟨n + 1, ?_⟩
  rw [xoshiro_run_u64, xoshiro_run_u64]
  intro h
  have h1 := congrArg (fun l => l[n]?) h
  simp only [List.getElem?_map, List.getElem?_range (Nat.lt_succ_self n), Option.map_some] at h1
  injection h1 with h2
  injection h2 with h3
  exact hn h3

/-! ### different seeds give different output STREAMS (Wyrand) -/

/-- the outputs of `n` successive `next_u64` calls of Wyrand are the output map along the Weyl walk -/
theorem wyrand_run_u64 (n : Nat) (s : BitVec 64) :
    (Wyrand.gen.run s (List.replicate n .u64)).1 =
      (List.range n).map (fun i => Out.w64 (WyStream.f (s + BitVec.ofNat 64 (i + 1) * Wyrand.P0))) := by
  induction n generalizing s with
  | zero => rfl
  | succ n ih =>
    rw [List.replicate_succ, List.range_succ_eq_map, List.map_cons, List.map_map]
    show Out.w64 (WyStream.f (s + Wyrand.P0)) :: (Wyrand.gen.run (s + Wyrand.P0) (List.replicate n .u64)).1 = _
    rw [ih]
    have h0 : s + BitVec.ofNat 64 (0 + 1) * Wyrand.P0 = s + Wyrand.P0 := by
      have : BitVec.ofNat 64 (0 + 1) = 1#64 := rfl
      rw [this, BitVec.one_mul]
    rw [h0]
    refine congrArg (List.cons _) ?_
    apply List.map_congr_left
    intro i _
    have hstep : s + Wyrand.P0 + BitVec.ofNat 64 (i + 1) * Wyrand.P0 = s + BitVec.ofNat 64 (i + 1 + 1) * Wyrand.P0 := by
      have : BitVec.ofNat 64 (i + 1 + 1) = 1#64 + BitVec.ofNat 64 (i + 1) := by
        apply BitVec.eq_of_toNat_eq; simp [BitVec.toNat_add]; omega
      rw [this, BitVec.add_mul, BitVec.one_mul, BitVec.add_assoc]
    show Out.w64 (WyStream.f (s + Wyrand.P0 + BitVec.ofNat 64 (i + 1) * Wyrand.P0)) = _
    rw [hstep]
    rfl

/-- **Two different seeds never produce the same stream of 64-bit outputs from Wyrand**: the state
walks all of Z/2^64 in steps of the odd constant, so streams that agree forever would make the
output map periodic with the non-zero period `b - a`, hence with period `2^63` - and it is not
(`Lemmas/WyStream.lean`). -/
theorem wyrand_distinct_seeds_distinct_streams (a b : BitVec 64) (hab : a ≠ b) :
    ∃ n, (Wyrand.gen.run (Wyrand.fromSeed a) (List.replicate n .u64)).1 ≠
      (Wyrand.gen.run (Wyrand.fromSeed b) (List.replicate n .u64)).1 := by
  obtain ⟨n, hn⟩ := WyStream.outputs_differ a b hab
  refine ⟨n + 1, ?_⟩
  rw [wyrand_run_u64, wyrand_run_u64]
  intro h
  have h1 := congrArg (fun l => l[n]?) h
  simp only [List.getElem?_map, List.getElem?_range (Nat.lt_succ_self n), Option.map_some] at h1
  injection h1 with h2
  injection h2 with h3
  exact hn h3

/-- SplitMix64 at stream level (the first output already differs) -/
theorem splitmix_distinct_seeds_distinct_streams (a b : BitVec 64) (hab : a ≠ b) :
    ∃ n, (SplitMix.gen.run (SplitMix.fromSeed a) (List.replicate n .u64)).1 ≠
      (SplitMix.gen.run (SplitMix.fromSeed b) (List.replicate n .u64)).1 := by
  refine ⟨1, ?_⟩
  intro h
  have h1 : Out.w64 (SplitMix.next (SplitMix.fromSeed a)).1 = Out.w64 (SplitMix.next (SplitMix.fromSeed b)).1 := by
    have := congrArg (fun l => l[0]?) h
    simpa [WordGen.run, WordGen.step, SplitMix.gen] using this
  injection h1 with h2
  exact hab (splitmix_first_output_injective h2)

/-
What remains open of the stream clause: ChaCha (a statement about the cipher: that two keys never
give the same keystream is not known to be provable; the initial states - keys - of different seeds
differ, above, and the keystream is the published one, C02).
-/

example : Xoshiro.fromSeed 0#64 ≠ Xoshiro.zeroS := xoshiro_fromSeed_ne_zero _

end Urandom.C09
