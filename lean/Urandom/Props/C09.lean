import Urandom.Lemmas.Mix
import Urandom.Spec.Published
import Urandom.Props.C02
import Urandom.Props.C08
/-
C09 - Every 64-bit seed gives a valid, distinct generator.

Model: the `fromSeed` functions of `Urandom.Model.Word` and `Urandom.ChaCha` (tied to
`X::from_seed` / `urandom::seeded` by the `word` and `chacha` correspondence streams, which read
the state back through serde).
-/
namespace Urandom.C09
open Urandom

/-- **`mix64` is a bijection of the 64-bit words** (explicit inverse), and `mix64 0 = 0` -/
theorem mix64_injective : Function.Injective SplitMix.mix64 := SplitMix.mix64_injective
theorem mix64_zero : SplitMix.mix64 0#64 = 0#64 := SplitMix.mix64_zero
theorem mix64_has_inverse (z : BitVec 64) : SplitMix.unmix64 (SplitMix.mix64 z) = z := SplitMix.unmix_mix z

/-- the four state words are `mix64(seed + k·γ)`, `k = 1..4` -/
theorem xoshiro_fromSeed_words (seed : BitVec 64) :
    Xoshiro.fromSeed seed =
      ⟨SplitMix.mix64 (seed + SplitMix.GAMMA), SplitMix.mix64 (seed + SplitMix.GAMMA + SplitMix.GAMMA),
       SplitMix.mix64 (seed + SplitMix.GAMMA + SplitMix.GAMMA + SplitMix.GAMMA),
       SplitMix.mix64 (seed + SplitMix.GAMMA + SplitMix.GAMMA + SplitMix.GAMMA + SplitMix.GAMMA)⟩ := rfl

/-- **For every one of the 2^64 seeds the Xoshiro256 state is not all-zero** (the fixed point that
would return zeros forever): the first two words cannot both vanish, because `mix64` is injective
with `mix64 0 = 0` and `γ ≠ 0`. -/
theorem xoshiro_fromSeed_ne_zero (seed : BitVec 64) : Xoshiro.fromSeed seed ≠ Xoshiro.zeroS := by
  rw [xoshiro_fromSeed_words]
  intro h
  simp only [Xoshiro.zeroS, Xoshiro.S.mk.injEq] at h
  have h1 := SplitMix.mix64_eq_zero _ h.1
  have h2 := SplitMix.mix64_eq_zero _ h.2.1
  rw [h1] at h2
  have : SplitMix.GAMMA ≠ 0#64 := by decide
  exact this (by simpa using h2)

/-- **Two different seeds never give the same Xoshiro256 state** (already the first word differs) -/
theorem xoshiro_fromSeed_injective : Function.Injective Xoshiro.fromSeed := by
  intro a b h
  rw [xoshiro_fromSeed_words, xoshiro_fromSeed_words] at h
  simp only [Xoshiro.S.mk.injEq] at h
  have := SplitMix.mix64_injective h.1
  exact (BitVec.add_left_inj _).1 this

/-- SplitMix64 and Wyrand are seeded with the seed itself -/
theorem splitmix_fromSeed_injective : Function.Injective SplitMix.fromSeed := fun _ _ h => h
theorem wyrand_fromSeed_injective : Function.Injective Wyrand.fromSeed := fun _ _ h => h

/-- SplitMix64: different seeds give different *output streams* - the first word already differs -/
theorem splitmix_first_output_injective :
    Function.Injective (fun seed => (SplitMix.next (SplitMix.fromSeed seed)).1) := by
  intro a b h
  have := SplitMix.mix64_injective h
  exact (BitVec.add_left_inj _).1 this

/-- **ChaCha: different seeds give different keys** (key words 0 and 1 are the two seed halves);
counter and stream are the documented constants 1 and 0 -/
theorem chacha_fromSeed_injective : Function.Injective ChaCha.fromSeed := by
  intro a b h
  rw [C02.fromSeed_layout, C02.fromSeed_layout] at h
  simp only [ChaCha.State.new, ChaCha.State.mk.injEq] at h
  have e := C02.join64_split a
  rw [h.1, h.2.1, C02.join64_split] at e
  exact e.symm

/-- state sequences of different seeds differ forever for the Weyl generators (the state map is a
bijection `x ↦ x + c`) -/
theorem weyl_states_differ (c a b : BitVec 64) (h : a ≠ b) (n : Nat) :
    Spec.iter (fun x => x + c) n a ≠ Spec.iter (fun x => x + c) n b := by
  induction n generalizing a b with
  | zero => exact h
  | succ n ih =>
    simp only [Spec.iter]
    exact ih _ _ (fun e => h ((BitVec.add_left_inj _).1 e))

/-! ### different seeds give different output STREAMS (Xoshiro256++) -/

/-- the outputs of `n` successive `next_u64` calls are the `++` scrambler along the state sequence -/
theorem xoshiro_run_u64 (n : Nat) (s : Xoshiro.S) :
    (Xoshiro.gen.run s (List.replicate n .u64)).1 =
      (List.range n).map (fun i => Out.w64 (Xoshiro.outPlusPlus (Xoshiro.advance^[i] s))) := by
  induction n generalizing s with
  | zero => rfl
  | succ n ih =>
    rw [List.replicate_succ, List.range_succ_eq_map, List.map_cons, List.map_map]
    show Out.w64 (Xoshiro.outPlusPlus s) :: (Xoshiro.gen.run (Xoshiro.advance s) (List.replicate n .u64)).1 = _
    rw [ih]
    rfl

/-- **Two different seeds never produce the same stream** of 64-bit outputs from the seeded
Xoshiro256 (`urandom::seeded`): their initial states differ and are non-zero (above), and two
different non-zero states of the one full-period cycle give different output sequences
(`C08.xoshiro_distinct_states_distinct_streams`: the output sequence of xoshiro256++ itself has
period `2^256 - 1`). -/
def DistinctStreamsFull : Prop :=
  ∀ a b : BitVec 64, a ≠ b → ∃ n, (Xoshiro.gen.run (Xoshiro.fromSeed a) (List.replicate n .u64)).1 ≠
    (Xoshiro.gen.run (Xoshiro.fromSeed b) (List.replicate n .u64)).1

theorem xoshiro_distinct_seeds_distinct_streams : DistinctStreamsFull := by
  intro a b hab
  have hs : Xoshiro.fromSeed a ≠ Xoshiro.fromSeed b := fun h => hab (xoshiro_fromSeed_injective h)
  obtain ⟨n, hn⟩ := C08.xoshiro_distinct_states_distinct_streams _ _ (xoshiro_fromSeed_ne_zero a) (xoshiro_fromSeed_ne_zero b) hs
  refine ⟨n + 1, ?_⟩
  rw [xoshiro_run_u64, xoshiro_run_u64]
  intro h
  have h1 := congrArg (fun l => l[n]?) h
  simp only [List.getElem?_map, List.getElem?_range (Nat.lt_succ_self n), Option.map_some] at h1
  injection h1 with h2
  injection h2 with h3
  exact hn h3

/-
What remains open of the stream clause: Wyrand (its output map is not known to have fibres of a
size that forces the argument) and ChaCha (a statement about the cipher); for both the initial
states and, for the Weyl generators, all later states of different seeds differ (above).
-/

example : Xoshiro.fromSeed 0#64 ≠ Xoshiro.zeroS := xoshiro_fromSeed_ne_zero _

end Urandom.C09
