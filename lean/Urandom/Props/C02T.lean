import Urandom.Props.C02
import Urandom.Lemmas.SimdProof
/-
C02 (second module) - the three ChaCha back ends AS TRANSLATED FROM THE SOURCE.  Kept apart from `Props/C02.lean` (which
the theorems of C03, C08, C09 and C19 build on) so that a source file the translator cannot read breaks these obligations only.
-/
namespace Urandom.C02
open Urandom.ChaCha

/-! ### the three back ends AS TRANSLATED FROM THE SOURCE

`Simd.Gen.slp`, `Simd.Gen.sse2`, `Simd.Gen.avx2` are register-machine programs that `tools/extract_simd.py` regenerates from
`src/rng/chacha/{slp,sse2,avx2}.rs` on every run (`Generated/Simd.lean`); `Simd.Prog.block` runs one on a generator state.
The hand-written row-wise model `ChaCha.block` is what the rest of the framework (the buffered generator, C03, C08, C19)
is built on; these theorems tie it - and the specification - to the code text of all three back ends, including the
two-blocks-per-register packing and the final `permute2x128` of the AVX2 one. -/

/-- the portable back end (`slp.rs`), for every round count and every state -/
theorem slp_translated_is_model (N : Nat) (s : State) :
    Simd.Gen.slp.block N s = (Simd.batchWords (block N s).1, (block N s).2) :=
  Simd.block_eq _ Simd.slp_T rfl rfl rfl N s

/-- the SSE2 back end (`sse2.rs`) -/
theorem sse2_translated_is_model (N : Nat) (s : State) :
    Simd.Gen.sse2.block N s = (Simd.batchWords (block N s).1, (block N s).2) :=
  Simd.block_eq _ Simd.sse2_T rfl rfl rfl N s

/-- the AVX2 back end (`avx2.rs`) -/
theorem avx2_translated_is_model (N : Nat) (s : State) :
    Simd.Gen.avx2.block N s = (Simd.batchWords (block N s).1, (block N s).2) :=
  Simd.block_eq _ Simd.avx2_T rfl rfl rfl N s

/-- **every back end, as translated from its source text, writes the 64 words of the keystream blocks at counters
`c, c+1, c+2, c+3` (mod 2^64) of the generator's key and stream id, in order, and advances the counter by 4** -/
theorem translated_backends_are_keystream (N : Nat) (s : State) (p : Simd.Prog)
    (hp : p = Simd.Gen.slp ∨ p = Simd.Gen.sse2 ∨ p = Simd.Gen.avx2) :
    (p.block N s).1 = (specBlock N s s.getCounter s.getStream).words ++ (specBlock N s (s.getCounter + 1) s.getStream).words ++
        (specBlock N s (s.getCounter + 2) s.getStream).words ++ (specBlock N s (s.getCounter + 3) s.getStream).words ∧
    (p.block N s).2 = s.setCounter (s.getCounter + 4) := by
  have h : p.block N s = (Simd.batchWords (block N s).1, (block N s).2) := by
    rcases hp with rfl | rfl | rfl
    · exact slp_translated_is_model N s
    · exact sse2_translated_is_model N s
    · exact avx2_translated_is_model N s
  obtain ⟨h1, h2, h3, h4⟩ := batch_is_keystream N s
  rw [h]
  refine ⟨?_, (batch_advances N s).2.2⟩
  simp only [Simd.batchWords, h1, h2, h3, h4]

end Urandom.C02
