import Urandom.Model.Seq
import Urandom.Lemmas.Index
import Urandom.Generated.EffectMultiple
/-!
# C07 for `Random::multiple` as translated from the source

`tools/extract_effect.py` checks that `Random::multiple` (src/random.rs) is `let amount = buf.len(); let mut len = 0;
collection.into_iter().enumerate().for_each(|(i, elem)| { .. }); len` and translates the closure - one item - into a function of the running
count, an abstract generator with `index`, and the item's position: `buf[e] = elem` is the event `store e i`, `if let Some(slot) =
buf.get_mut(e) { *slot = elem; }` the event `storeIf e i`.  The theorem: whenever the hand-written model `Seq.multiple` - Algorithm R, the
function the exact-counting theorems of `Props/C07.lean` are about - succeeds on fewer than 2^64 items and a buffer of fewer than 2^64 slots,
the translated fold, given the model's `index` as its generator, ends with the model's count and words, and its stores applied to the buffer
(none of the indexing stores is out of bounds) give the model's buffer.  A replacement index drawn from another range (`i`, `i + 1` through
a narrower type), a store to another slot, a count that is not advanced - for any number of items - breaks it.
-/
namespace Urandom.C07
open Urandom Urandom.Seq Urandom.Generated

/-- the model's `index` as a total generator function over the mock words -/
def idxT (ws : Words) (n : BitVec 64) : BitVec 64 × Words :=
  match index n.toNat ws with
  | some (k, ws') => (BitVec.ofNat 64 k, ws')
  | none => (0#64, ws)

/-- apply the stores to a buffer; `items` are the collection's items by position -/
def applyMul (items : List Nat) : Array Nat → List MulEv → Option (Array Nat)
  | buf, [] => some buf
  | buf, .store idx it :: rest =>
    if idx.toNat < buf.size then applyMul items (buf.setIfInBounds idx.toNat (items.getD it.toNat 0)) rest else none
  | buf, .storeIf idx it :: rest => applyMul items (buf.setIfInBounds idx.toNat (items.getD it.toNat 0)) rest

theorem applyMul_append (items : List Nat) (buf : Array Nat) (l1 l2 : List MulEv) :
    applyMul items buf (l1 ++ l2) = (applyMul items buf l1).bind (fun b => applyMul items b l2) := by
  induction l1 generalizing buf with
  | nil => simp [applyMul]
  | cons e l1 ih =>
    cases e with
    | store idx it =>
      simp only [List.cons_append, applyMul]
      split
      · exact ih _
      · simp
    | storeIf idx it =>
      simp only [List.cons_append, applyMul]
      exact ih _

theorem fold_multiple : ∀ (xs pre : List Nat) (buf buf' : Array Nat) (len cnt : Nat) (ws ws' : Words) (log : List MulEv),
    (pre ++ xs).length < 2 ^ 64 → buf.size < 2 ^ 64 → len ≤ buf.size →
    multipleLoop xs pre.length buf len ws = some ((buf', cnt), ws') →
    ∃ evs, (List.range' pre.length xs.length).foldl (Effect.random.multiple_item idxT (BitVec.ofNat 64 buf.size)) (BitVec.ofNat 64 len, ws, log)
        = (BitVec.ofNat 64 cnt, ws', log ++ evs) ∧
      applyMul (pre ++ xs) buf evs = some buf' := by
  intro xs
  induction xs with
  | nil =>
    intro pre buf buf' len cnt ws ws' log _ _ _ hm
    simp only [multipleLoop, Option.some.injEq, Prod.mk.injEq] at hm
    obtain ⟨⟨rfl, rfl⟩, rfl⟩ := hm
    exact ⟨[], by simp, rfl⟩
  | cons x xs ih =>
    intro pre buf buf' len cnt ws ws' log hl hb hle hm
    have hpre : pre ++ x :: xs = (pre ++ [x]) ++ xs := by simp
    have hlen1 : (pre ++ [x]).length = pre.length + 1 := by simp
    have hsz : ∀ k v, (buf.setIfInBounds k v).size = buf.size := by intro k v; simp
    have hiN : (BitVec.ofNat 64 pre.length).toNat = pre.length := by
      simp only [BitVec.toNat_ofNat]; simp only [List.length_append, List.length_cons] at hl; omega
    have hbN : (BitVec.ofNat 64 buf.size).toNat = buf.size := by simp only [BitVec.toNat_ofNat]; omega
    have hlN : (BitVec.ofNat 64 len).toNat = len := by simp only [BitVec.toNat_ofNat]; omega
    have hget : (pre ++ x :: xs).getD pre.length 0 = x := by simp
    simp only [multipleLoop] at hm
    rw [List.length_cons, List.range'_succ, List.foldl_cons]
    by_cases hc : len < buf.size
    · simp only [hc, if_true] at hm
      have hcb : BitVec.ofNat 64 len < BitVec.ofNat 64 buf.size := by rw [BitVec.lt_def, hlN, hbN]; exact hc
      have hstep : Effect.random.multiple_item idxT (BitVec.ofNat 64 buf.size) (BitVec.ofNat 64 len, ws, log) pre.length =
          (BitVec.ofNat 64 (len + 1), ws, log ++ [MulEv.store (BitVec.ofNat 64 len) (BitVec.ofNat 64 pre.length)]) := by
        unfold Effect.random.multiple_item
        simp only [hcb, if_true]
        have : BitVec.ofNat 64 len + 1#64 = BitVec.ofNat 64 (len + 1) := by
          apply BitVec.eq_of_toNat_eq; simp only [BitVec.toNat_add, BitVec.toNat_ofNat]; omega
        rw [this]
      obtain ⟨evs, h1, h2⟩ := ih (pre ++ [x]) (buf.setIfInBounds len x) buf' (len + 1) cnt ws ws'
        (log ++ [MulEv.store (BitVec.ofNat 64 len) (BitVec.ofNat 64 pre.length)])
        (by rw [← hpre]; exact hl) (by rw [hsz]; exact hb) (by rw [hsz]; omega) (by rw [hlen1]; exact hm)
      rw [hlen1, hsz] at h1
      refine ⟨MulEv.store (BitVec.ofNat 64 len) (BitVec.ofNat 64 pre.length) :: evs, ?_, ?_⟩
      · rw [hstep, h1]; simp
      · simp only [applyMul, hlN, hiN, hc, if_true, hget]
        rw [hpre]; exact h2
    · simp only [hc, if_false] at hm
      have hcb : ¬ (BitVec.ofNat 64 len < BitVec.ofNat 64 buf.size) := by rw [BitVec.lt_def, hlN, hbN]; exact hc
      cases hi : index (pre.length + 1) ws with
      | none => rw [hi] at hm; cases hm
      | some kw =>
        obtain ⟨k, ws1⟩ := kw
        rw [hi] at hm
        simp only at hm
        have hi1 : (BitVec.ofNat 64 pre.length + 1#64).toNat = pre.length + 1 := by
          simp only [BitVec.toNat_add, BitVec.toNat_ofNat]; simp only [List.length_append, List.length_cons] at hl; omega
        have hidx : idxT ws (BitVec.ofNat 64 pre.length + 1#64) = (BitVec.ofNat 64 k, ws1) := by
          unfold idxT; rw [hi1, hi]
        have hstep : Effect.random.multiple_item idxT (BitVec.ofNat 64 buf.size) (BitVec.ofNat 64 len, ws, log) pre.length =
            (BitVec.ofNat 64 len, ws1, log ++ [MulEv.storeIf (BitVec.ofNat 64 k) (BitVec.ofNat 64 pre.length)]) := by
          unfold Effect.random.multiple_item
          simp only [hcb, if_false, hidx]
        obtain ⟨evs, h1, h2⟩ := ih (pre ++ [x]) (buf.setIfInBounds k x) buf' len cnt ws1 ws'
          (log ++ [MulEv.storeIf (BitVec.ofNat 64 k) (BitVec.ofNat 64 pre.length)])
          (by rw [← hpre]; exact hl) (by rw [hsz]; exact hb) (by rw [hsz]; omega) (by rw [hlen1]; exact hm)
        rw [hlen1, hsz] at h1
        refine ⟨MulEv.storeIf (BitVec.ofNat 64 k) (BitVec.ofNat 64 pre.length) :: evs, ?_, ?_⟩
        · rw [hstep, h1]; simp
        · have hk : k < pre.length + 1 := by
            have hM : IntTy.usize.M = 2 ^ 64 := rfl
            exact index_lt (pre.length + 1) (by omega) (by rw [hM]; simp only [List.length_append, List.length_cons] at hl; omega) ws ws1 k hi
          have hkN : (BitVec.ofNat 64 k).toNat = k := by
            simp only [BitVec.toNat_ofNat]; simp only [List.length_append, List.length_cons] at hl; omega
          simp only [applyMul, hkN, hiN, hget]
          rw [hpre]; exact h2

/-- **`Random::multiple` as translated is the model's `multiple`** (Algorithm R), for every collection of fewer than 2^64 items and every
buffer of fewer than 2^64 slots on which the model succeeds -/
theorem multiple_translated (items : List Nat) (buf buf' : Array Nat) (cnt : Nat) (ws ws' : Words)
    (hl : items.length < 2 ^ 64) (hb : buf.size < 2 ^ 64) (hm : Seq.multiple items buf ws = some ((buf', cnt), ws')) :
    ∃ evs, Effect.random.multiple idxT ws (BitVec.ofNat 64 buf.size) items.length = (BitVec.ofNat 64 cnt, ws', evs) ∧
      applyMul items buf evs = some buf' := by
  obtain ⟨evs, h1, h2⟩ := fold_multiple items [] buf buf' 0 cnt ws ws' [] (by simpa using hl) hb (Nat.zero_le _) hm
  refine ⟨evs, ?_, by simpa using h2⟩
  unfold Effect.random.multiple
  simp only [List.length_nil, List.nil_append] at h1
  exact h1

/-- the premise is satisfiable: five items into two slots -/
example : (Seq.multiple [10, 20, 30, 40, 50] #[0, 0] [5#64, 0xffffffffffffffff#64, 7#64]).isSome = true := by decide +kernel

end Urandom.C07
