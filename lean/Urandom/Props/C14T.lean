import Urandom.Generated.FloatBernoulli
/-!
# C14 for `Bernoulli` / `Random::chance` as translated from the source

`tools/extract_float.py` reads src/distr/bernoulli.rs and `Random::chance` in src/random.rs: `Bernoulli::new(p)` must store `p` as it is,
`chance(p)` must be `distr::Bernoulli::new(p).sample(self)`, and `sample` - ONE `Float01` draw as f64 compared with the stored `p` - is
translated into the IEEE model's vocabulary.  The model's `bernoulli` (what `Props/C14.lean` proves monotone and exact about) is this
comparison of the model's `Float01` draw (itself tied to the source in `Props/C11T.lean`).
-/
namespace Urandom.C14
open Urandom Urandom.IEEE Urandom.Generated

theorem bernoulli_translated (p : Nat) (ws : Words) :
    bernoulli p ws = (Float01.sample64 ws).map (fun (x, ws') => (FloatD.bernoulli_sample x p, ws')) := by
  unfold bernoulli FloatD.bernoulli_sample
  cases Float01.sample64 ws with
  | none => rfl
  | some r => rfl

end Urandom.C14
