import Mathlib.Dynamics.PeriodicPts.Defs
import Mathlib.Dynamics.PeriodicPts.Lemmas
import Mathlib.Tactic.Ring
import Mathlib.Tactic.NormNum
import Urandom.Generated.Primes
import Urandom.Lemmas.Period
import Urandom.Lemmas.XoshiroJump
import Urandom.Lemmas.Mix
import Urandom.Generated.CertN
import Urandom.Generated.Cert3
import Urandom.Generated.Cert5
import Urandom.Generated.Cert17
import Urandom.Generated.Cert257
import Urandom.Generated.Cert641
import Urandom.Generated.Cert65537
import Urandom.Generated.Cert274177
import Urandom.Generated.Cert6700417
import Urandom.Generated.Cert67280421310721
import Urandom.Generated.Cert59649589127497217
import Urandom.Generated.Cert5704689200685129054721
import Urandom.Props.C03
import Urandom.Lemmas.XoOutput
/-
C08 - jump/split yield non-overlapping streams: fixed stride, full period.

The theorems are about the model of `src/rng/xoshiro256.rs`, `splitmix64.rs`, `wyrand.rs`
(`Urandom.Model.Word`, tied to the code by the `word` correspondence stream, which includes jump
and split ops and the final state after every history), and, for ChaCha, about `ChaCha.State.jump`
and the buffered block generator `Urandom.Block` (tied to `src/rng/chacha.rs` / `block.rs` by the
`chacha` correspondence stream: jump/split-rich histories from stream ids at the 32-bit and 64-bit
carry boundaries; every output and the serde-visible key/counter/stream/index compared).
-/
namespace Urandom.C08
open Function Urandom Urandom.Xoshiro Urandom.XoLin Urandom.GF2
open Urandom.Spec (iter)

theorem iter_eq_iterate {α : Type} (f : α → α) : ∀ (n : ℕ) (s : α), iter f n s = f^[n] s := by
  intro n
  induction n with
  | zero => intro s; rfl
  | succ n ih => intro s; simp only [iter, Function.iterate_succ, Function.comp]; exact ih _

/-! ### Xoshiro256: jump = 2^128 steps, full period 2^256 - 1 -/

/-- **For every 256-bit state, `jump` leaves the generator exactly where 2^128 single steps
would.** (`jump` is the code-shaped nested loop over the four `JUMP` words; `advance` is one
state transition.) -/
theorem xoshiro_jump_eq_pow (s : S) : Xoshiro.jump s = advance^[2 ^ 128] s := by
  rw [← iter_eq_iterate]; exact XoLin.jump_eq_pow s

theorem Nper_factor : Nper = 3 * 5 * 17 * 257 * 641 * 65537 * 274177 * 6700417 * 67280421310721 * 59649589127497217 * 5704689200685129054721 := by norm_num [Nper]
theorem Nper_pos : 0 < Nper := by norm_num [Nper]

theorem prime_factor_cases (q : ℕ) (hq : q.Prime) (hd : q ∣ Nper) : q = 3 ∨ q = 5 ∨ q = 17 ∨ q = 257 ∨ q = 641 ∨ q = 65537 ∨ q = 274177 ∨ q = 6700417 ∨ q = 67280421310721 ∨ q = 59649589127497217 ∨ q = 5704689200685129054721 := by
  rw [Nper_factor] at hd
  rcases (Nat.Prime.dvd_mul hq).1 hd with h10 | h10
  · rcases (Nat.Prime.dvd_mul hq).1 h10 with h9 | h9
    · rcases (Nat.Prime.dvd_mul hq).1 h9 with h8 | h8
      · rcases (Nat.Prime.dvd_mul hq).1 h8 with h7 | h7
        · rcases (Nat.Prime.dvd_mul hq).1 h7 with h6 | h6
          · rcases (Nat.Prime.dvd_mul hq).1 h6 with h5 | h5
            · rcases (Nat.Prime.dvd_mul hq).1 h5 with h4 | h4
              · rcases (Nat.Prime.dvd_mul hq).1 h4 with h3 | h3
                · rcases (Nat.Prime.dvd_mul hq).1 h3 with h2 | h2
                  · rcases (Nat.Prime.dvd_mul hq).1 h2 with h1 | h1
                    · exact (Or.inl) ((Nat.prime_dvd_prime_iff_eq hq prime_3).1 h1)
                    · exact (Or.inr ∘ Or.inl) ((Nat.prime_dvd_prime_iff_eq hq prime_5).1 h1)
                  · exact (Or.inr ∘ Or.inr ∘ Or.inl) ((Nat.prime_dvd_prime_iff_eq hq prime_17).1 h2)
                · exact (Or.inr ∘ Or.inr ∘ Or.inr ∘ Or.inl) ((Nat.prime_dvd_prime_iff_eq hq prime_257).1 h3)
              · exact (Or.inr ∘ Or.inr ∘ Or.inr ∘ Or.inr ∘ Or.inl) ((Nat.prime_dvd_prime_iff_eq hq prime_641).1 h4)
            · exact (Or.inr ∘ Or.inr ∘ Or.inr ∘ Or.inr ∘ Or.inr ∘ Or.inl) ((Nat.prime_dvd_prime_iff_eq hq prime_65537).1 h5)
          · exact (Or.inr ∘ Or.inr ∘ Or.inr ∘ Or.inr ∘ Or.inr ∘ Or.inr ∘ Or.inl) ((Nat.prime_dvd_prime_iff_eq hq prime_274177).1 h6)
        · exact (Or.inr ∘ Or.inr ∘ Or.inr ∘ Or.inr ∘ Or.inr ∘ Or.inr ∘ Or.inr ∘ Or.inl) ((Nat.prime_dvd_prime_iff_eq hq prime_6700417).1 h7)
      · exact (Or.inr ∘ Or.inr ∘ Or.inr ∘ Or.inr ∘ Or.inr ∘ Or.inr ∘ Or.inr ∘ Or.inr ∘ Or.inl) ((Nat.prime_dvd_prime_iff_eq hq prime_67280421310721).1 h8)
    · exact (Or.inr ∘ Or.inr ∘ Or.inr ∘ Or.inr ∘ Or.inr ∘ Or.inr ∘ Or.inr ∘ Or.inr ∘ Or.inr ∘ Or.inl) ((Nat.prime_dvd_prime_iff_eq hq prime_59649589127497217).1 h9)
  · exact (Or.inr ∘ Or.inr ∘ Or.inr ∘ Or.inr ∘ Or.inr ∘ Or.inr ∘ Or.inr ∘ Or.inr ∘ Or.inr ∘ Or.inr) ((Nat.prime_dvd_prime_iff_eq hq prime_5704689200685129054721).1 h10)

theorem xoshiro_full_period_Nper (s : S) (hs : s ≠ zeroS) : minimalPeriod advance s = Nper := by
  have hs0 : s ≠ 0 := hs
  apply minimalPeriod_eq_of_prime_quotients advance s Nper Nper_pos
  · show advance^[Nper] s = s
    rw [← iter_eq_iterate]; exact period_of_certN certN s
  · intro q hq hd h
    have h : advance^[Nper / q] s = s := h
    rcases prime_factor_cases q hq hd with rfl | rfl | rfl | rfl | rfl | rfl | rfl | rfl | rfl | rfl | rfl
    · exact hs0 (cert3.no_period s (by rw [iter_eq_iterate]; exact h))
    · exact hs0 (cert5.no_period s (by rw [iter_eq_iterate]; exact h))
    · exact hs0 (cert17.no_period s (by rw [iter_eq_iterate]; exact h))
    · exact hs0 (cert257.no_period s (by rw [iter_eq_iterate]; exact h))
    · exact hs0 (cert641.no_period s (by rw [iter_eq_iterate]; exact h))
    · exact hs0 (cert65537.no_period s (by rw [iter_eq_iterate]; exact h))
    · exact hs0 (cert274177.no_period s (by rw [iter_eq_iterate]; exact h))
    · exact hs0 (cert6700417.no_period s (by rw [iter_eq_iterate]; exact h))
    · exact hs0 (cert67280421310721.no_period s (by rw [iter_eq_iterate]; exact h))
    · exact hs0 (cert59649589127497217.no_period s (by rw [iter_eq_iterate]; exact h))
    · exact hs0 (cert5704689200685129054721.no_period s (by rw [iter_eq_iterate]; exact h))

/-- **Full period.** Every non-zero state of xoshiro256 lies on the single cycle of length
`2^256 - 1`: the least `n > 0` with `advance^[n] s = s` is `2^256 - 1`. -/
theorem xoshiro_full_period (s : S) (hs : s ≠ zeroS) : minimalPeriod advance s = 2 ^ 256 - 1 := by
  rw [xoshiro_full_period_Nper s hs]; norm_num [Nper]

/-- the all-zero state is the (only excluded) fixed point -/
theorem xoshiro_zero_fixed : advance zeroS = zeroS := by decide

/-- a non-zero state never reaches the zero state -/
theorem xoshiro_never_zero (s : S) (hs : s ≠ zeroS) (n : ℕ) : advance^[n] s ≠ zeroS := by
  intro h
  have hper : advance^[Nper] s = s := by rw [← iter_eq_iterate]; exact period_of_certN certN s
  have : advance^[Nper] s = zeroS := by
    obtain ⟨k, hk⟩ : ∃ k, n + k = Nper * (n + 1) := ⟨Nper * (n + 1) - n, by
      have : n ≤ Nper * (n + 1) := by nlinarith [Nper_pos]
      omega⟩
    have h1 : advance^[Nper * (n + 1)] s = s := by
      have : IsPeriodicPt advance Nper s := hper
      exact this.mul_const (n + 1)
    have h2 : advance^[n + k] s = zeroS := by
      rw [Nat.add_comm, Function.iterate_add_apply, h]
      clear h hk h1
      induction k with
      | zero => rfl
      | succ k ih => rw [Function.iterate_succ_apply', ih, xoshiro_zero_fixed]
    rw [hk, h1] at h2
    exact absurd h2 hs
  rw [hper] at this
  exact hs this

theorem segments_lt (K i j a b : ℕ) (hij : i < j) (ha : a < K) : i * K + a < j * K + b := by
  have : (i + 1) * K ≤ j * K := Nat.mul_le_mul_right K hij
  rw [Nat.add_mul] at this
  omega

/-- **Successive splits are disjoint segments of one sequence.** The `i`-th and `j`-th generator
obtained by successive `split`s start `2^128·|i-j|` steps apart; values at distance `a`, `b < 2^128`
into their segments are different states, as long as all segments fit into the period. -/
theorem xoshiro_split_disjoint (s : S) (hs : s ≠ zeroS) (i j a b : ℕ) (hij : i < j)
    (hj : (j + 1) * 2 ^ 128 ≤ 2 ^ 256 - 1) (ha : a < 2 ^ 128) (hb : b < 2 ^ 128) :
    advance^[i * 2 ^ 128 + a] s ≠ advance^[j * 2 ^ 128 + b] s := by
  intro h
  have hp := xoshiro_full_period s hs
  generalize (2 : ℕ) ^ 128 = K at *
  generalize (2 : ℕ) ^ 256 - 1 = N at *
  have hlt := segments_lt K i j a b hij ha
  have h1 : j * K + b < minimalPeriod advance s := by rw [hp, Nat.add_mul] at *; omega
  have h0 : i * K + a < minimalPeriod advance s := by omega
  have := (iterate_eq_iterate_iff_of_lt_minimalPeriod h0 h1).1 h
  omega

/-- the state of the `i`-th split-off generator: `i` jumps from the start -/
theorem xoshiro_jump_iterate (s : S) (i : ℕ) : Xoshiro.jump^[i] s = advance^[i * 2 ^ 128] s := by
  induction i with
  | zero => simp
  | succ i ih =>
    rw [Function.iterate_succ_apply', ih, xoshiro_jump_eq_pow, ← Function.iterate_add_apply]
    congr 1; ring

/-! ### the OUTPUT sequence of xoshiro256++ has the full period too -/

theorem Nper_odd_primes (r : ℕ) (hr : r.Prime) (hd : r ∣ Nper) : r ≠ 2 := by
  rintro rfl
  have : ¬ (2 ∣ Nper) := by norm_num [Nper]
  exact this hd

/-- `2^256 - 1` is squarefree: a number divisible by each of its prime factors is divisible by it -/
theorem Nper_dvd_of_primes (m : ℕ) (h : ∀ r : ℕ, r.Prime → r ∣ Nper → r ∣ m) : Nper ∣ m := by
  have d (q : ℕ) (hq : q.Prime) (hd : q ∣ Nper) := h q hq hd
  have h3 := d 3 prime_3 (by norm_num [Nper])
  have h5 := d 5 prime_5 (by norm_num [Nper])
  have h17 := d 17 prime_17 (by norm_num [Nper])
  have h257 := d 257 prime_257 (by norm_num [Nper])
  have h641 := d 641 prime_641 (by norm_num [Nper])
  have h65537 := d 65537 prime_65537 (by norm_num [Nper])
  have h274177 := d 274177 prime_274177 (by norm_num [Nper])
  have h6700417 := d 6700417 prime_6700417 (by norm_num [Nper])
  have h9 := d 67280421310721 prime_67280421310721 (by norm_num [Nper])
  have h10 := d 59649589127497217 prime_59649589127497217 (by norm_num [Nper])
  have h11 := d 5704689200685129054721 prime_5704689200685129054721 (by norm_num [Nper])
  rw [Nper_factor]
  have c1 := Nat.Coprime.mul_dvd_of_dvd_of_dvd (by norm_num : Nat.Coprime 3 5) h3 h5
  have c2 := Nat.Coprime.mul_dvd_of_dvd_of_dvd (by norm_num : Nat.Coprime (3 * 5) 17) c1 h17
  have c3 := Nat.Coprime.mul_dvd_of_dvd_of_dvd (by norm_num : Nat.Coprime (3 * 5 * 17) 257) c2 h257
  have c4 := Nat.Coprime.mul_dvd_of_dvd_of_dvd (by norm_num : Nat.Coprime (3 * 5 * 17 * 257) 641) c3 h641
  have c5 := Nat.Coprime.mul_dvd_of_dvd_of_dvd (by norm_num : Nat.Coprime (3 * 5 * 17 * 257 * 641) 65537) c4 h65537
  have c6 := Nat.Coprime.mul_dvd_of_dvd_of_dvd (by norm_num : Nat.Coprime (3 * 5 * 17 * 257 * 641 * 65537) 274177) c5 h274177
  have c7 := Nat.Coprime.mul_dvd_of_dvd_of_dvd (by norm_num : Nat.Coprime (3 * 5 * 17 * 257 * 641 * 65537 * 274177) 6700417) c6 h6700417
  have c8 := Nat.Coprime.mul_dvd_of_dvd_of_dvd (by norm_num : Nat.Coprime (3 * 5 * 17 * 257 * 641 * 65537 * 274177 * 6700417) 67280421310721) c7 h9
  have c9 := Nat.Coprime.mul_dvd_of_dvd_of_dvd (by norm_num : Nat.Coprime (3 * 5 * 17 * 257 * 641 * 65537 * 274177 * 6700417 * 67280421310721) 59649589127497217) c8 h10
  exact Nat.Coprime.mul_dvd_of_dvd_of_dvd (by norm_num : Nat.Coprime (3 * 5 * 17 * 257 * 641 * 65537 * 274177 * 6700417 * 67280421310721 * 59649589127497217) 5704689200685129054721) c9 h11

/-- **The sequence of 64-bit outputs of xoshiro256++ has period exactly `2^256 - 1`**, from every
non-zero state: if the outputs repeat with period `m` then `2^256 - 1` divides `m`. (The state
sequence is one cycle through all non-zero states; every output value other than 0 is produced by
exactly `2^192` states, a power of two, while the period is odd and squarefree: a shorter output
period would make a power of the transition permute such a fibre without fixed points, with all
orbits of an odd prime size.) -/
theorem xoshiro_output_full_period (s : S) (hs : s ≠ zeroS) (m : ℕ)
    (hm : ∀ n, outPlusPlus (advance^[n + m] s) = outPlusPlus (advance^[n] s)) : (2 ^ 256 - 1) ∣ m := by
  have hN : (2 : ℕ) ^ 256 - 1 = Nper := by norm_num [Nper]
  rw [hN]
  refine XoOut.output_period advance zeroS xoshiro_zero_fixed Nper ?_ xoshiro_full_period_Nper xoshiro_never_zero ?_
    outPlusPlus 1#64 (by decide) 192 (fun {_} => XoOut.card_fibre 1#64) Nper_odd_primes Nper_dvd_of_primes s hs m hm
  · rw [XoOut.card_S]; norm_num [Nper]
  · intro x; rw [← iter_eq_iterate]; exact period_of_certN certN x

/-- hence two generators started in different non-zero states never produce the same stream of
64-bit outputs (they sit on the one cycle, less than a period apart) -/
theorem xoshiro_distinct_states_distinct_streams (s t : S) (hs : s ≠ zeroS) (ht : t ≠ zeroS) (hst : s ≠ t) :
    ∃ n, outPlusPlus (advance^[n] s) ≠ outPlusPlus (advance^[n] t) := by
  by_contra hall
  push_neg at hall
  -- `t` lies on the cycle of `s`, at a distance `d < 2^256 - 1`, `d ≠ 0`
  have hcard : Fintype.card S = Nper + 1 := by rw [XoOut.card_S]; norm_num [Nper]
  obtain ⟨d, hd⟩ := XoOut.single_cycle advance zeroS Nper hcard xoshiro_full_period_Nper xoshiro_never_zero s hs t ht
  -- reduce the distance below the period
  have hper := xoshiro_full_period_Nper s hs
  have hdm : advance^[d % Nper] s = t := by
    rw [← hd]
    have := Function.iterate_mod_minimalPeriod_eq (f := advance) (x := s) (n := d)
    rw [hper] at this
    exact this
  have hpos : d % Nper ≠ 0 := by
    intro h0
    rw [h0] at hdm
    exact hst hdm
  have hdiv : (2 ^ 256 - 1) ∣ d % Nper := by
    apply xoshiro_output_full_period s hs
    intro n
    rw [Function.iterate_add_apply, hdm]
    exact (hall n).symm
  have hN : (2 : ℕ) ^ 256 - 1 = Nper := by norm_num [Nper]
  rw [hN] at hdiv
  have hlt : d % Nper < Nper := Nat.mod_lt _ Nper_pos
  exact hpos (Nat.eq_zero_of_dvd_of_lt hdiv hlt)

/-- **The 32-bit words and the unit floats of Xoshiro256 (`xoshiro256+`: the top `64 - k` bits of
`s0 + s3`; `k = 32` for `next_u32`, `41` for `next_f32`, `12` for `next_f64`) have the full period
`2^256 - 1` as well**: every value `…0001` of the shifted sum has exactly `2^(192+k)` preimages. -/
theorem xoshiro_plus_output_full_period (k : ℕ) (hk : k < 64) (s : S) (hs : s ≠ zeroS) (m : ℕ)
    (hm : ∀ n, XoOut.outPlusShift k (advance^[n + m] s) = XoOut.outPlusShift k (advance^[n] s)) : (2 ^ 256 - 1) ∣ m := by
  have hN : (2 : ℕ) ^ 256 - 1 = Nper := by norm_num [Nper]
  rw [hN]
  refine XoOut.output_period advance zeroS xoshiro_zero_fixed Nper ?_ xoshiro_full_period_Nper xoshiro_never_zero ?_
    (XoOut.outPlusShift k) 1#64 ?_ (192 + k) (fun {_} => XoOut.card_plusFibre k hk) Nper_odd_primes Nper_dvd_of_primes s hs m hm
  · rw [XoOut.card_S]; norm_num [Nper]
  · intro x; rw [← iter_eq_iterate]; exact period_of_certN certN x
  · show (0#64 + 0#64) >>> k ≠ 1#64
    intro h
    have := congrArg BitVec.toNat h
    simp at this

/-- the model's `next_u32` / `next_f32` / `next_f64` outputs are injective functions of these shifted sums -/
theorem xoshiro_u32_is_shift (s : S) : ((Xoshiro.gen.u32 s).1).setWidth 64 = XoOut.outPlusShift 32 s := by
  show (((s.s0 + s.s3) >>> 32).setWidth 32).setWidth 64 = (s.s0 + s.s3) >>> 32
  apply BitVec.eq_of_toNat_eq
  simp only [BitVec.toNat_setWidth, BitVec.toNat_ushiftRight, Nat.shiftRight_eq_div_pow]
  have h1 : (s.s0 + s.s3).toNat / 2 ^ 32 < 2 ^ 32 := by
    have := (s.s0 + s.s3).isLt
    exact Nat.div_lt_of_lt_mul (by norm_num at this ⊢; omega)
  rw [Nat.mod_eq_of_lt h1, Nat.mod_eq_of_lt (lt_trans h1 (by norm_num))]

/-! ### SplitMix64 / Wyrand: jump = 2^40 steps, period exactly 2^64 -/

/-- a Weyl sequence `x ↦ x + c` with odd `c` on 64 bits -/
theorem weyl_iterate (c x : BitVec 64) (n : ℕ) : (fun x => x + c)^[n] x = x + BitVec.ofNat 64 n * c := by
  rw [← iter_eq_iterate]; exact iter_weyl c n x

theorem weyl_isPeriodicPt (c x : BitVec 64) (n : ℕ) :
    IsPeriodicPt (fun x => x + c) n x ↔ x + BitVec.ofNat 64 n * c = x := by
  unfold IsPeriodicPt IsFixedPt
  rw [weyl_iterate]

/-- `2^63` as a core literal (a literal power elaborates differently with Mathlib in scope) -/
def half : BitVec 64 := 0x8000000000000000#64

/-- a Weyl sequence with odd increment (`2^63·c = 2^63`) has minimal period exactly `2^64` -/
theorem weyl_period (c : BitVec 64) (hc : half * c = half) (x : BitVec 64) :
    minimalPeriod (fun x => x + c) x = 2 ^ 64 := by
  have : Fact (Nat.Prime 2) := ⟨Nat.prime_two⟩
  have key := minimalPeriod_eq_prime_pow (f := fun x => x + c) (x := x) (p := 2) (k := 63)
  rw [weyl_isPeriodicPt, weyl_isPeriodicPt] at key
  have e1 : BitVec.ofNat 64 (2 ^ 63) = half := by norm_num [half]
  have e2 : BitVec.ofNat 64 (2 ^ (63+1)) = 0#64 := by norm_num; rfl
  rw [e1, e2, hc] at key
  refine key ?_ (by simp)
  intro e
  rw [BitVec.add_right_eq_self] at e
  exact absurd e (by decide)

/-- **SplitMix64: `jump` = 2^40 steps** of the state map, for every state -/
theorem splitmix_jump_eq_pow (x : BitVec 64) :
    SplitMix.jump x = (fun x => (SplitMix.next x).2)^[2 ^ 40] x := by
  have : (fun x => (SplitMix.next x).2) = fun x => x + SplitMix.GAMMA := by funext x; rfl
  rw [this, weyl_iterate]
  show x + _ = x + _
  congr 1

/-- **SplitMix64: the state map has period exactly 2^64**, for every state -/
theorem splitmix_period (x : BitVec 64) : minimalPeriod (fun x => (SplitMix.next x).2) x = 2 ^ 64 := by
  have : (fun x => (SplitMix.next x).2) = fun x => x + SplitMix.GAMMA := by funext x; rfl
  rw [this]; exact weyl_period _ (by decide) x

/-- SplitMix64's *output* sequence has the same period: the finaliser is a bijection -/
theorem splitmix_output_period (x : BitVec 64) (m n : ℕ) (hm : m < 2 ^ 64) (hn : n < 2 ^ 64) :
    (SplitMix.next ((fun x => (SplitMix.next x).2)^[m] x)).1 = (SplitMix.next ((fun x => (SplitMix.next x).2)^[n] x)).1 ↔ m = n := by
  constructor
  · intro h
    have h' := SplitMix.mix64_injective h
    have h'' : (fun x => (SplitMix.next x).2)^[m + 1] x = (fun x => (SplitMix.next x).2)^[n + 1] x := by
      rw [Function.iterate_succ_apply', Function.iterate_succ_apply']; exact h'
    have hp := splitmix_period x
    by_cases hm' : m + 1 < 2 ^ 64 <;> by_cases hn' : n + 1 < 2 ^ 64
    · have := (iterate_eq_iterate_iff_of_lt_minimalPeriod (by rw [hp]; exact hm') (by rw [hp]; exact hn')).1 h''
      omega
    · -- n + 1 = 2^64: the state is back at x
      have hn2 : n + 1 = 2 ^ 64 := by omega
      have : (fun x => (SplitMix.next x).2)^[n + 1] x = (fun x => (SplitMix.next x).2)^[0] x := by
        rw [hn2, ← hp]; exact iterate_minimalPeriod
      rw [this] at h''
      have := (iterate_eq_iterate_iff_of_lt_minimalPeriod (by rw [hp]; exact hm') (by rw [hp]; norm_num)).1 h''
      omega
    · have hm2 : m + 1 = 2 ^ 64 := by omega
      have : (fun x => (SplitMix.next x).2)^[m + 1] x = (fun x => (SplitMix.next x).2)^[0] x := by
        rw [hm2, ← hp]; exact iterate_minimalPeriod
      rw [this] at h''
      have := (iterate_eq_iterate_iff_of_lt_minimalPeriod (by rw [hp]; norm_num) (by rw [hp]; exact hn')).1 h''
      omega
    · omega
  · rintro rfl; rfl

/-- **Wyrand: `jump` = 2^40 steps**, for every state -/
theorem wyrand_jump_eq_pow (x : BitVec 64) :
    Wyrand.jump x = (fun x => (Wyrand.next x).2)^[2 ^ 40] x := by
  have : (fun x => (Wyrand.next x).2) = fun x => x + Wyrand.P0 := by funext x; rfl
  rw [this, weyl_iterate]
  show x + _ = x + _
  congr 1

/-- **Wyrand: the state map has period exactly 2^64**, for every state -/
theorem wyrand_period (x : BitVec 64) : minimalPeriod (fun x => (Wyrand.next x).2) x = 2 ^ 64 := by
  have : (fun x => (Wyrand.next x).2) = fun x => x + Wyrand.P0 := by funext x; rfl
  rw [this]; exact weyl_period _ (by decide) x

/-- split segments of the Weyl generators do not overlap before 2^40 values are drawn and all
segments fit into the period -/
theorem weyl_split_disjoint (c : BitVec 64) (hc : half * c = half)
    (x : BitVec 64) (i j a b : ℕ) (hij : i < j) (hj : (j + 1) * 2 ^ 40 ≤ 2 ^ 64) (ha : a < 2 ^ 40) (hb : b < 2 ^ 40) :
    (fun x => x + c)^[i * 2 ^ 40 + a] x ≠ (fun x => x + c)^[j * 2 ^ 40 + b] x := by
  intro h
  have hp := weyl_period c hc x
  generalize (2 : ℕ) ^ 40 = K at *
  generalize (2 : ℕ) ^ 64 = N at *
  have hlt := segments_lt K i j a b hij ha
  have h1 : j * K + b < minimalPeriod (fun x => x + c) x := by rw [hp, Nat.add_mul] at *; omega
  have h0 : i * K + a < minimalPeriod (fun x => x + c) x := by omega
  have := (iterate_eq_iterate_iff_of_lt_minimalPeriod h0 h1).1 h
  omega

/-! ### ChaCha: jump = the next 64-bit stream id -/
section ChaChaJump
open Urandom.ChaCha Urandom.Block

/-- **`jump` moves a ChaCha state to the next stream id** (a full 64-bit increment: the carry from
the low into the high stream word is part of it), and leaves key and block counter alone; for
every key/counter/stream triple. -/
theorem chacha_jump_next_stream (s : State) :
    (State.jump s).getStream = s.getStream + 1 ∧ (State.jump s).getCounter = s.getCounter ∧
    ((State.jump s).k0, (State.jump s).k1, (State.jump s).k2, (State.jump s).k3,
     (State.jump s).k4, (State.jump s).k5, (State.jump s).k6, (State.jump s).k7) =
      (s.k0, s.k1, s.k2, s.k3, s.k4, s.k5, s.k6, s.k7) := by
  refine ⟨?_, rfl, rfl⟩
  simp [State.jump, State.getStream, State.setStream, C02.join64_split]

/-- `i` jumps: stream id + `i` (mod 2^64), same key and counter -/
theorem chacha_jump_iterate (s : State) (i : ℕ) :
    (State.jump^[i] s).getStream = s.getStream + BitVec.ofNat 64 i ∧
    (State.jump^[i] s).getCounter = s.getCounter := by
  induction i with
  | zero => simp
  | succ i ih =>
    rw [Function.iterate_succ_apply']
    obtain ⟨h1, h2, _⟩ := chacha_jump_next_stream (State.jump^[i] s)
    refine ⟨?_, by rw [h2, ih.2]⟩
    rw [h1, ih.1, BitVec.add_assoc]
    congr 1
    exact C03.ofNat_add i 1

/-- **the generators obtained by fewer than 2^64 successive jumps/splits sit on pairwise distinct
stream ids** -/
theorem chacha_jumps_distinct (s : State) (i j : ℕ) (hij : i < j) (hj : j < 2 ^ 64) :
    (State.jump^[i] s).getStream ≠ (State.jump^[j] s).getStream := by
  rw [(chacha_jump_iterate s i).1, (chacha_jump_iterate s j).1]
  intro h
  have h' := (BitVec.add_right_inj _).mp h
  have := congrArg BitVec.toNat h'
  simp only [BitVec.toNat_ofNat] at this
  rw [Nat.mod_eq_of_lt (by omega), Nat.mod_eq_of_lt hj] at this
  omega

/-- the buffered generator's `jump`: the core jumps and the buffer is invalidated (`index = !0`),
so nothing of the old stream is served afterwards (`C03.jump_next_stream`) -/
theorem chacha_block_jump (N : Nat) (b : BS State (BitVec 8)) :
    (Block.jump (chachaCore N) b).core = State.jump b.core ∧ (Block.jump (chachaCore N) b).index = 2 ^ 32 - 1 :=
  ⟨rfl, rfl⟩

/-- `split` on the block generator: the child is the generator as it was, the parent jumps -/
theorem chacha_split_semantics (N : Nat) (b : BS State (BitVec 8)) :
    Block.split (chachaCore N) b = (b, Block.jump (chachaCore N) b) := rfl

theorem run_append {κ β : Type} (C : Core κ β) : ∀ (a b : List Block.Op) (s : BS κ β),
    (run C s (a ++ b)).1 = (run C s a).1 ++ (run C (run C s a).2 b).1 := by
  intro a
  induction a with
  | nil => intro b s; simp [run]
  | cons x a ih => intro b s; simp [run, ih]

/-- **generators obtained by successive splits never return the same keystream position**: child
`I` is split off first, the parent goes on (draws, jumps, further splits: `between`), child `J`
is split off later; whatever both then draw (the earlier child not jumping itself), no position
of the ghost keystream coordinates is handed out by both. -/
theorem chacha_successive_children_disjoint (S C : ℕ) (buf : ℕ → Pos) (before between opsI opsJ : List Block.Op)
    (hI : Block.Op.jump ∉ opsI) :
    let p0 := (run posCore (Block.new (S, C) (buf 0)) before).2
    let childI := (Block.split posCore p0).1
    let p2 := (run posCore (Block.split posCore p0).2 between).2
    let childJ := (Block.split posCore p2).1
    ∀ p ∈ (run posCore childI opsI).1, ∀ q ∈ (run posCore childJ opsJ).1, p ≠ q := by
  intro p0 childI p2 childJ p hp q hq
  refine C03.split_disjoint S C buf before opsI (between ++ opsJ) hI p hp q ?_
  rw [run_append]
  exact List.mem_append_right _ hq

example : (State.jump (State.new 0 0 0 0 0 0 0 0 7#64 0xffffffff#64)).getStream = 0x100000000#64 := by decide

end ChaChaJump

/-! ### split -/

/-- **`split` returns the generator as it was and advances the original by one jump** (any word
generator): the child's first draw is the original's next output, the parent continues from
`jump` of the state. -/
theorem split_semantics {σ : Type} (g : WordGen σ) (s : σ) :
    g.step s .split = (.child (g.u64 s).1, g.jump s) := rfl

example : (⟨1#64, 0#64, 0#64, 0#64⟩ : S) ≠ zeroS := by decide

end Urandom.C08
