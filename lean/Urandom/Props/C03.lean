import Urandom.Lemmas.BlockSim
import Urandom.Lemmas.BlockWindow
import Urandom.Props.C02
/-
C03 - The CSPRNG never hands out the same keystream bytes twice.

Model: `Urandom.Block` (tied to `src/rng/block.rs` + `src/rng/chacha.rs` by the `chacha`
correspondence stream: random histories over u32/u64/f32/f64/fill/jump/clone/split, every output and
the serde-visible (counter, stream, index) compared).  The theorems use the *ghost* instance of the
same polymorphic model, whose batch elements are positions `(stream, block counter, byte offset)`
in unbounded logical coordinates, and transfer to the bytes by parametricity.
-/
namespace Urandom.C03
open Urandom Urandom.Block Urandom.ChaCha

/-! ### no position is issued twice -/

/-- a generator whose buffer is empty (`index ≥ 256`: freshly constructed, just deserialised without
buffer, or just jumped) satisfies the invariant with nothing issued -/
theorem empty_buffer_inv (S C idx : Nat) (hidx : 256 ≤ idx) (buf : Nat → Pos) : Inv ⟨(S, C), idx, buf⟩ [] :=
  ⟨fun h => by simp at h; omega, fun _ h => by simp at h, fun h => by simp at h; omega, List.nodup_nil⟩

/-- **No keystream position is ever used for two outputs of the same generator**: for every
interleaving of 32-bit, 64-bit, float and byte-fill requests of any length with jumps, from any
key/counter/stream, the issued positions are pairwise distinct. -/
theorem no_reuse (S C : Nat) (buf : Nat → Pos) (ops : List Op) :
    (run posCore (Block.new (S, C) (buf 0)) ops).1.Nodup := by
  have := (run_inv ops (init_inv S C (fun _ => buf 0))).nodup
  simpa [Block.new] using this

/-- the same from any state with an empty buffer, whatever stale content the buffer holds -/
theorem no_reuse_from_empty (S C idx : Nat) (hidx : 256 ≤ idx) (buf : Nat → Pos) (ops : List Op) :
    (run posCore ⟨(S, C), idx, buf⟩ ops).1.Nodup := by
  have := (run_inv ops (empty_buffer_inv S C idx hidx buf)).nodup
  simpa using this

/-- every issued position lies strictly in the past of the core (it can never be generated again) -/
theorem issued_in_past (S C : Nat) (buf : Nat → Pos) (ops : List Op) :
    ∀ p ∈ (run posCore (Block.new (S, C) (buf 0)) ops).1,
      Past (run posCore (Block.new (S, C) (buf 0)) ops).2.core.1 (run posCore (Block.new (S, C) (buf 0)) ops).2.core.2 p := by
  have := (run_inv ops (init_inv S C (fun _ => buf 0))).past
  simpa [Block.new] using this

/-! ### every returned byte is the keystream byte at its position -/

/-- the 64 bytes of a block -/
def stBytes (b : St W32) : List (BitVec 8) := b.words.flatMap wordBytes

/-- **the keystream**: byte `off` of Bernstein's block function at block counter `C mod 2^64` of
stream `S mod 2^64` under the key -/
def ks (N : Nat) (key : State) (p : Pos) : BitVec 8 :=
  (stBytes (specBlock N key (BitVec.ofNat 64 p.2.1) (BitVec.ofNat 64 p.1))).getD p.2.2 0#8

/-- the actual core state that corresponds to logical coordinates `(S, C)` -/
def atPos (key : State) (c : Nat × Nat) : State :=
  (key.setCounter (BitVec.ofNat 64 c.2)).setStream (BitVec.ofNat 64 c.1)

theorem stBytes_length (b : St W32) : (stBytes b).length = 64 := by
  simp [stBytes, St.words, wordBytes]

theorem batchBytes_eq (b : St W32 × St W32 × St W32 × St W32) :
    batchBytes b = stBytes b.1 ++ stBytes b.2.1 ++ stBytes b.2.2.1 ++ stBytes b.2.2.2 := by
  simp [batchBytes, stBytes, List.flatMap_append]

theorem getD_append4 (l0 l1 l2 l3 : List (BitVec 8)) (h0 : l0.length = 64) (h1 : l1.length = 64)
    (h2 : l2.length = 64) (h3 : l3.length = 64) (i : Nat) (hi : i < 256) :
    (l0 ++ l1 ++ l2 ++ l3).getD i 0#8 =
      (if i / 64 = 0 then l0 else if i / 64 = 1 then l1 else if i / 64 = 2 then l2 else l3).getD (i % 64) 0#8 := by
  simp only [List.getD_eq_getElem?_getD]
  by_cases c0 : i < 64
  · have : i / 64 = 0 := by omega
    have e : i % 64 = i := by omega
    simp only [this, ↓reduceIte, e]
    rw [List.getElem?_append_left (by simp; omega), List.getElem?_append_left (by simp; omega),
      List.getElem?_append_left (by omega)]
  · by_cases c1 : i < 128
    · have : i / 64 = 1 := by omega
      have e : i % 64 = i - 64 := by omega
      simp only [this, ↓reduceIte, e, show (1 : Nat) ≠ 0 by decide]
      rw [List.getElem?_append_left (by simp; omega), List.getElem?_append_left (by simp; omega),
        List.getElem?_append_right (by omega), h0]
    · by_cases c2 : i < 192
      · have : i / 64 = 2 := by omega
        have e : i % 64 = i - 128 := by omega
        simp only [this, ↓reduceIte, e, show (2 : Nat) ≠ 0 by decide, show (2 : Nat) ≠ 1 by decide]
        rw [List.getElem?_append_left (by simp; omega), List.getElem?_append_right (by simp; omega)]
        simp only [List.length_append, h0, h1]
      · have : i / 64 = 3 := by omega
        have e : i % 64 = i - 192 := by omega
        simp only [this, ↓reduceIte, e, show (3 : Nat) ≠ 0 by decide, show (3 : Nat) ≠ 1 by decide, show (3 : Nat) ≠ 2 by decide]
        rw [List.getElem?_append_right (by simp; omega)]
        simp only [List.length_append, h0, h1, h2]

theorem specBlock_atPos (N : Nat) (key : State) (c : Nat × Nat) (a b : BitVec 64) :
    specBlock N (atPos key c) a b = specBlock N key a b := by
  cases key; rfl

theorem ofNat_add (C k : Nat) : BitVec.ofNat 64 C + BitVec.ofNat 64 k = BitVec.ofNat 64 (C + k) := by
  rw [BitVec.ofNat_add]

theorem atPos_counter (key : State) (c : Nat × Nat) :
    (atPos key c).getCounter = BitVec.ofNat 64 c.2 ∧ (atPos key c).getStream = BitVec.ofNat 64 c.1 := by
  cases key
  simp [atPos, State.setCounter, State.setStream, State.getCounter, State.getStream, C02.join64_split]

/-- the byte instance simulates the ghost instance through the keystream map -/
theorem chacha_sim (N : Nat) (key : State) :
    Sim posCore (chachaCore N) (ks N key) (fun c st => st = atPos key c) where
  gen := by
    rintro ⟨S, C⟩ st rfl
    obtain ⟨hc, hs⟩ := atPos_counter key (S, C)
    obtain ⟨b0, b1, b2, b3⟩ := C02.batch_is_keystream N (atPos key (S, C))
    refine ⟨?_, ?_⟩
    · -- the core afterwards: counter + 4
      show (block N (atPos key (S, C))).2 = atPos key (S, C + 4)
      rw [(C02.batch_advances N _).2.2, hc]
      have : BitVec.ofNat 64 C + 4 = BitVec.ofNat 64 (C + 4) := ofNat_add C 4
      rw [this]
      cases key; rfl
    · intro i hi
      show ks N key (posBatch S C i) = ((batchBytes (block N (atPos key (S, C))).1).toArray).getD i 0#8
      rw [Array.getD_eq_getD_getElem?, List.getElem?_toArray, ← List.getD_eq_getElem?_getD, batchBytes_eq,
        getD_append4 _ _ _ _ (stBytes_length _) (stBytes_length _) (stBytes_length _) (stBytes_length _) i hi,
        b0, b1, b2, b3, hc, hs]
      simp only [specBlock_atPos, ks, posBatch]
      have h3 : i / 64 = 0 ∨ i / 64 = 1 ∨ i / 64 = 2 ∨ i / 64 = 3 := by omega
      rcases h3 with h | h | h | h <;> simp [h, ofNat_add]
  jmp := by
    rintro ⟨S, C⟩ st rfl
    obtain ⟨hc, hs⟩ := atPos_counter key (S, C)
    show State.jump (atPos key (S, C)) = atPos key (S + 1, C)
    unfold State.jump
    rw [hs]
    have : BitVec.ofNat 64 S + 1 = BitVec.ofNat 64 (S + 1) := ofNat_add S 1
    rw [this]
    cases key; simp [atPos, State.setStream, State.setCounter]

/-- **Every byte a ChaCha generator returns is the keystream byte of its ghost position** - never
stale, zero or default buffer content - for every history, from every key/counter/stream and
whatever the (unreachable) buffer holds while `index ≥ 256`. -/
theorem outputs_are_keystream (N : Nat) (key : State) (S C idx : Nat) (hidx : 256 ≤ idx)
    (stale : Nat → BitVec 8) (ops : List Op) :
    ∃ ghostBuf : Nat → Pos,
      (run (chachaCore N) ⟨atPos key (S, C), idx, stale⟩ ops).1 =
        (run posCore ⟨(S, C), idx, ghostBuf⟩ ops).1.map (ks N key) ∧
      (run posCore ⟨(S, C), idx, ghostBuf⟩ ops).1.Nodup := by
  refine ⟨fun _ => (0, 0, 0), ?_, no_reuse_from_empty S C idx hidx _ ops⟩
  have hrel : Rel (ks N key) (fun c st => st = atPos key c) (⟨(S, C), idx, fun _ => (0, 0, 0)⟩ : BS (Nat × Nat) Pos)
      (⟨atPos key (S, C), idx, stale⟩ : BS State (BitVec 8)) :=
    ⟨rfl, rfl, fun i h1 h2 => by simp at h1; omega⟩
  exact (run_rel (chacha_sim N key) ops hrel).1

/-- **`jump` moves a ChaCha generator to the next stream id and invalidates the buffer**: nothing
of the old stream is served afterwards (all later positions have the new stream id or a later one) -/
theorem jump_next_stream (S C idx : Nat) (buf : Nat → Pos) (ops : List Op) :
    (jump posCore ⟨(S, C), idx, buf⟩).core = (S + 1, C) ∧ (jump posCore ⟨(S, C), idx, buf⟩).index = 2 ^ 32 - 1 ∧
    ∀ p ∈ (run posCore (jump posCore ⟨(S, C), idx, buf⟩) ops).1, S + 1 ≤ p.1 := by
  refine ⟨rfl, rfl, ?_⟩
  have h0 : LowS (S + 1) (jump posCore ⟨(S, C), idx, buf⟩) [] :=
    ⟨by simp [jump, posCore], fun h => by simp [jump] at h, fun _ h => by simp at h⟩
  have := (lowS_run ops h0).issued
  simpa using this

/-- positions issued by a generator that never jumps stay on its stream id (or earlier ones still buffered) -/
theorem no_jump_stream_le : ∀ (ops : List Op), Op.jump ∉ ops → ∀ (s : BS (Nat × Nat) Pos),
    (run posCore s ops).2.core.1 = s.core.1 := by
  intro ops
  induction ops with
  | nil => intro _ s; rfl
  | cons op ops ih =>
    intro hj s
    have h1 : op ≠ Op.jump := fun e => hj (by simp [e])
    have h2 : Op.jump ∉ ops := fun e => hj (by simp [e])
    simp only [run]
    rw [ih h2]
    have direct_stream : ∀ (k : Nat) (c : Nat × Nat), (direct posCore k c).2.1 = c.1 := by
      intro k; induction k with
      | zero => intro c; rfl
      | succ k ih => intro c; simp only [direct]; rw [ih]; rfl
    cases op with
    | u32 => simp only [stepOp, nextN]; split <;> rfl
    | u64 => simp only [stepOp, nextN]; split <;> rfl
    | f32 => simp only [stepOp, nextN]; split <;> rfl
    | f64 => simp only [stepOp, nextN]; split <;> rfl
    | fill n =>
      simp only [stepOp, fill]
      split
      · exact direct_stream _ _
      · simp only [fillRem]
        split
        · exact direct_stream _ _
        · simp only [refill]; exact direct_stream _ _
    | jump => exact absurd rfl h1

/-- **After `split()` parent and child never return the same keystream position**: the child
continues the old stream (it holds the generator as it was), the parent moves to the next stream
id with an invalidated buffer; as long as the child does not itself jump, every position the child
issues has a stream id `≤ S` and every position the parent issues has a stream id `≥ S + 1`. -/
theorem split_disjoint (S C : Nat) (buf : Nat → Pos) (before opsChild opsParent : List Op)
    (hC : Op.jump ∉ opsChild) :
    let s := (run posCore (Block.new (S, C) (buf 0)) before).2
    let pc := Block.split posCore s
    ∀ p ∈ (run posCore pc.1 opsChild).1, ∀ q ∈ (run posCore pc.2 opsParent).1, p ≠ q := by
  intro s pc p hp q hq
  -- child: invariant `Inv` from the start of the history gives `Past` for everything it issues
  have hinv := run_inv before (init_inv S C (fun _ => buf 0))
  have hinvC := run_inv opsChild hinv
  have hpast := hinvC.past p (by simp only [List.mem_append]; exact Or.inr (by simpa [pc, Block.split, s, Block.new] using hp))
  have hstream : (run posCore pc.1 opsChild).2.core.1 = s.core.1 := no_jump_stream_le opsChild hC pc.1
  have hp_le : p.1 ≤ s.core.1 := by
    have hpast' : Past (run posCore pc.1 opsChild).2.core.1 (run posCore pc.1 opsChild).2.core.2 p := by
      simpa [pc, Block.split, s, Block.new] using hpast
    rw [hstream] at hpast'
    rcases hpast' with h | ⟨h, _⟩ <;> omega
  -- parent: everything after the jump has stream id ≥ S' + 1
  have hq_ge : s.core.1 + 1 ≤ q.1 := by
    have := (jump_next_stream s.core.1 s.core.2 s.index s.buf opsParent).2.2 q (by simpa [pc, Block.split] using hq)
    exact this
  intro e
  rw [e] at hp_le
  omega


/-! ### actual (mod 2^64) coordinates -/

/-- the coordinates the cipher actually sees: stream id and block counter reduced modulo 2^64 -/
def actual (p : Pos) : Nat × Nat × Nat := (p.1 % 2 ^ 64, p.2.1 % 2 ^ 64, p.2.2)

theorem mod_inj_of_window (a b lo : Nat) (ha : lo ≤ a) (hb : lo ≤ b) (ha' : a < lo + 2 ^ 64) (hb' : b < lo + 2 ^ 64)
    (h : a % 2 ^ 64 = b % 2 ^ 64) : a = b := by
  have e1 := Nat.div_add_mod a (2 ^ 64)
  have e2 := Nat.div_add_mod b (2 ^ 64)
  generalize a / 2 ^ 64 = qa at e1
  generalize b / 2 ^ 64 = qb at e2
  generalize (2 : Nat) ^ 64 = M at *
  -- a and b differ by a multiple of M and both lie in a window of width M
  have hq : qa = qb := by
    rcases Nat.lt_trichotomy qa qb with hl | hl | hl
    · have : M * (qa + 1) ≤ M * qb := Nat.mul_le_mul_left _ hl
      rw [Nat.mul_add] at this; omega
    · exact hl
    · have : M * (qb + 1) ≤ M * qa := Nat.mul_le_mul_left _ hl
      rw [Nat.mul_add] at this; omega
  subst hq
  omega

/-- **No keystream position of the real cipher is used twice** as long as the generator has made
fewer than `2^64` jumps and consumed at most `2^64` blocks since it was created: the actual
`(stream id, block counter, byte offset)` triples - reduced modulo 2^64, as the hardware sees them -
of all issued bytes are pairwise distinct.  (Beyond that bound the 64-bit counters wrap and positions
necessarily repeat: the hypothesis is exactly the capacity of the cipher's position space.) -/
theorem no_reuse_actual (S C : Nat) (buf : Nat → Pos) (ops : List Op)
    (hS : (run posCore (Block.new (S, C) (buf 0)) ops).2.core.1 < S + 2 ^ 64)
    (hC : (run posCore (Block.new (S, C) (buf 0)) ops).2.core.2 ≤ C + 2 ^ 64) :
    ((run posCore (Block.new (S, C) (buf 0)) ops).1.map actual).Nodup := by
  have hnd := no_reuse S C buf ops
  have hpast := issued_in_past S C buf ops
  have hbox0 : Box S C (Block.new (S, C) (buf 0)) [] :=
    ⟨⟨Nat.le_refl _, Nat.le_refl _⟩, fun h => by simp [Block.new] at h, fun _ h => by simp at h⟩
  have hbox := (box_run ops hbox0).issued
  simp only [List.nil_append] at hbox
  rw [List.Nodup, List.pairwise_map]
  refine List.Pairwise.imp_of_mem ?_ hnd
  intro p q hp hq hne he
  apply hne
  obtain ⟨p1, p2, p3⟩ := hbox p hp
  obtain ⟨q1, q2, q3⟩ := hbox q hq
  have pp := hpast p hp
  have pq := hpast q hq
  simp only [actual, Prod.mk.injEq] at he
  obtain ⟨e1, e2, e3⟩ := he
  have hs : p.1 = q.1 := mod_inj_of_window p.1 q.1 S p1 q1
    (by rcases pp with h | ⟨h, _⟩ <;> omega) (by rcases pq with h | ⟨h, _⟩ <;> omega) e1
  have hc : p.2.1 = q.2.1 := mod_inj_of_window p.2.1 q.2.1 C p2 q2 (by omega) (by omega) e2
  obtain ⟨a, b, c⟩ := p
  obtain ⟨a', b', c'⟩ := q
  simp only at hs hc e3
  rw [hs, hc, e3]

/-- the stronger reading ("the child may jump") is false by design: a child that jumps lands on
its parent's stream id -/
example : (jump posCore (Block.split posCore (Block.new ((5, 9) : Nat × Nat) ((0, 0, 0) : Pos))).1).core =
    (Block.split posCore (Block.new ((5, 9) : Nat × Nat) ((0, 0, 0) : Pos))).2.core := rfl

/-- non-vacuity: a concrete mixed history from a fresh generator -/
example : (run posCore (Block.new ((0, 1) : Nat × Nat) ((0, 0, 0) : Pos)) [.u32, .fill 250, .u64, .jump, .fill 300, .u32]).1.length = 566 := by
  decide +kernel

end Urandom.C03
