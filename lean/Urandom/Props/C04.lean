import Urandom.Lemmas.UniformInt
/-
C04 - Uniform integer ranges: always inside the range and exactly unbiased.

Model: `Urandom.Model.UniformInt` (tied to `src/distr/uniform/int.rs`, `Random::range`,
`Random::index`, `src/distr/dice.rs` by the `uint`/`index`/`dice` correspondence streams).
-/
namespace Urandom.C04
open Urandom UniformInt

/-- A legal instantiation of `impl_uniform_int!`: at least one value bit, and the drawn word is
at least as wide as the value. -/
structure Valid (t : IntTy) : Prop where
  pos : 0 < t.bits
  le : t.bits ≤ t.wbits

/-- all instantiations in the crate (64-bit and 32-bit targets) are legal -/
theorem all_types_valid :
    ∀ t ∈ [IntTy.i8, .u8, .i16, .u16, .i32, .u32, .i64, .u64, .isize, .usize, .isize32, .usize32], Valid t := by
  intro t ht
  simp only [List.mem_cons, List.mem_nil_iff, or_false] at ht
  rcases ht with rfl | rfl | rfl | rfl | rfl | rfl | rfl | rfl | rfl | rfl | rfl | rfl <;>
    exact ⟨by decide, by decide⟩

/-- the half range `H = 2^(b-1)`, `M = 2·H` -/
def H (t : IntTy) : Nat := 2 ^ (t.bits - 1)
theorem M_eq (t : IntTy) (hv : Valid t) : t.M = 2 * H t := by
  unfold IntTy.M H
  have : t.bits = (t.bits - 1) + 1 := by have := hv.pos; omega
  rw [this, Nat.pow_succ]; simp; omega
theorem M_pos (t : IntTy) : 0 < t.M := Nat.two_pow_pos _
theorem B_pos (t : IntTy) : 0 < t.B := Nat.two_pow_pos _
theorem M_le_B (t : IntTy) (hv : Valid t) : t.M ≤ t.B := Nat.pow_le_pow_right (by decide) hv.le

/-- every typed value lies in the type's interval -/
theorem toInt_bounds (t : IntTy) (hv : Valid t) (x : Nat) (hx : x < t.M) :
    (if t.signed then -(H t : Int) else 0) ≤ t.toInt x ∧ t.toInt x < (if t.signed then (H t : Int) else t.M) := by
  have hM := M_eq t hv
  cases hs : t.signed
  · simp [IntTy.toInt, hs]; omega
  · rw [IntTy.toInt_signed t hs]
    have := sInt_lt t.M (H t) x hM hx
    simp; omega

/-! ### Constructors: an error exactly for the empty range -/

/-- `try_new` / `try_new_inclusive` fail, with `EmptyRange`, **iff** the range is empty in the
type's own order; otherwise they succeed with `base = low`. (`Uniform::new`, `From<Range>` and
`Random::range` unwrap this result, so they panic exactly on an empty range.) -/
theorem tryNew_error_iff (t : IntTy) (lo hi : Nat) (incl : Bool) :
    (tryNew t lo hi incl = .error .EmptyRange ↔
      (if incl then t.toInt hi < t.toInt lo else t.toInt hi ≤ t.toInt lo)) ∧
    (tryNew t lo hi incl ≠ .error .NonFinite) := by
  unfold tryNew
  cases incl <;> simp only [Bool.false_eq_true, ↓reduceIte, ge_iff_le, gt_iff_lt] <;> split <;> simp_all

/-- the number of values of a non-empty range, as an integer -/
def card (t : IntTy) (lo hi : Nat) (incl : Bool) : Int := t.toInt hi - t.toInt lo + (if incl then 1 else 0)

/-- On success the stored range is the true number of values modulo `2^b` (so it is `0` exactly
for the full inclusive range), and the base is `low`. -/
theorem tryNew_ok (t : IntTy) (hv : Valid t) (lo hi : Nat) (incl : Bool) (hlo : lo < t.M) (hhi : hi < t.M)
    (d : UniformInt) (h : tryNew t lo hi incl = .ok d) :
    d.base = lo ∧ d.range < t.M ∧ 1 ≤ card t lo hi incl ∧ card t lo hi incl ≤ t.M ∧
      ((d.range : Int) = card t lo hi incl ∨ (d.range = 0 ∧ card t lo hi incl = t.M)) := by
  have hM := M_eq t hv
  have hMp := M_pos t
  have hHp : 0 < H t := Nat.two_pow_pos _
  obtain ⟨rfl, hne⟩ := tryNew_ok_eq t lo hi incl d h
  unfold card
  cases hs : t.signed
  · -- unsigned
    simp only [IntTy.toInt_unsigned t hs] at hne ⊢
    cases incl
    · simp only [Bool.false_eq_true, ↓reduceIte] at hne ⊢
      have hlt : lo < hi := by omega
      rw [range_unsigned t.M lo hi hhi hlt]
      exact ⟨trivial, by omega, by omega, by omega, Or.inl (by omega)⟩
    · simp only [↓reduceIte] at hne ⊢
      have hle : lo ≤ hi := by omega
      refine ⟨trivial, wadd_lt _ _ _ hMp, by omega, by omega, ?_⟩
      rcases range_unsigned_incl t.M lo hi hhi hle with e | ⟨e1, e2⟩
      · left; rw [e]; omega
      · right; exact ⟨e1, by omega⟩
  · -- signed
    simp only [IntTy.toInt_signed t hs] at hne ⊢
    have blo := sInt_lt t.M (H t) lo hM hlo
    have bhi := sInt_lt t.M (H t) hi hM hhi
    cases incl
    · simp only [Bool.false_eq_true, ↓reduceIte] at hne ⊢
      obtain ⟨e, p⟩ := range_signed t.M (H t) lo hi hM hlo hhi hne
      exact ⟨trivial, wsub_lt _ _ _ hMp, by omega, by omega, Or.inl (by omega)⟩
    · simp only [↓reduceIte] at hne ⊢
      refine ⟨trivial, wadd_lt _ _ _ hMp, by omega, by omega, ?_⟩
      rcases range_signed_incl t.M (H t) lo hi hM hHp hlo hhi hne with e | ⟨e1, e2⟩
      · left; omega
      · right; exact ⟨e1, by omega⟩

/-! ### Every sample lies inside the range -/

theorem firstAccepted_some (t : IntTy) (d : UniformInt) :
    ∀ (ws : Words) (x : Nat) (ws' : Words), firstAccepted t d ws = some (x, ws') →
      ∃ v, v < t.B ∧ Accepts t d.range v ∧ x = valueOf t d v := by
  intro ws
  induction ws with
  | nil => intro x ws' h; simp [firstAccepted] at h
  | cons w ws ih =>
    intro x ws' h
    simp only [firstAccepted] at h
    split at h
    · rename_i ha
      injection h with h; injection h with h1 h2
      exact ⟨wordValue t w, wordValue_lt t w, ha, h1.symm⟩
    · exact ih x ws' h

/-- the offset added to the base is below the range -/
theorem offset_lt (t : IntTy) (hv : Valid t) (d : UniformInt) (hr : 0 < d.range) (hrM : d.range < t.M)
    (v : Nat) (hvB : v < t.B) : v * d.range / t.B % t.M = v * d.range / t.B ∧ v * d.range / t.B < d.range := by
  have := msw_lt t.B d.range v (B_pos t) hvB
  have h2 : v * d.range / t.B < d.range := by omega
  exact ⟨Nat.mod_eq_of_lt (by omega), h2⟩

/-- adding an offset below the number of values stays inside the range (signed and unsigned) -/
theorem toInt_wadd (t : IntTy) (hv : Valid t) (lo hi : Nat) (incl : Bool) (hlo : lo < t.M) (hhi : hi < t.M)
    (m : Nat) (hm : (m : Int) < card t lo hi incl) :
    t.toInt (wadd t.M lo m) = t.toInt lo + m := by
  have hM := M_eq t hv
  unfold card at hm
  cases hs : t.signed
  · simp only [IntTy.toInt_unsigned t hs] at hm ⊢
    rw [wadd_unsigned t.M lo m (by split at hm <;> omega)]
    simp
  · simp only [IntTy.toInt_signed t hs] at hm ⊢
    have bhi := sInt_lt t.M (H t) hi hM hhi
    exact wadd_signed t.M (H t) lo m hM hlo (by split at hm <;> omega)

/-- **Range.** Every sample of a successfully constructed distribution lies inside the requested
range, for every scripted word sequence (any generator), including the full-type range. -/
theorem sample_mem (t : IntTy) (hv : Valid t) (lo hi : Nat) (incl : Bool) (hlo : lo < t.M) (hhi : hi < t.M)
    (d : UniformInt) (h : tryNew t lo hi incl = .ok d) (ws ws' : Words) (x : Nat)
    (hs : sample t d ws = some (x, ws')) :
    x < t.M ∧ t.toInt lo ≤ t.toInt x ∧ (if incl then t.toInt x ≤ t.toInt hi else t.toInt x < t.toInt hi) := by
  obtain ⟨hbase, hrM, hc1, hcM, hrange⟩ := tryNew_ok t hv lo hi incl hlo hhi d h
  have hM := M_eq t hv
  by_cases hr : d.range = 0
  · -- full type: nothing to check beyond `x < M`
    have hcard : card t lo hi incl = t.M := by
      rcases hrange with e | ⟨_, e⟩
      · rw [hr] at e; omega
      · exact e
    cases ws with
    | nil => simp [sample, sampleLoop] at hs
    | cons w ws =>
      rw [sample_full t d hr] at hs
      injection hs with hs; injection hs with h1 h2
      have hx : x < t.M := by rw [← h1]; exact Nat.mod_lt _ (M_pos t)
      have b1 := toInt_bounds t hv lo hlo
      have b2 := toInt_bounds t hv hi hhi
      have b3 := toInt_bounds t hv x hx
      unfold card at hcard
      refine ⟨hx, ?_, ?_⟩
      · cases hsg : t.signed <;> simp only [hsg] at b1 b2 b3 <;> cases incl <;> simp at hcard <;> simp at b1 b2 b3 <;> omega
      · cases hsg : t.signed <;> simp only [hsg] at b1 b2 b3 <;> cases incl <;> simp at hcard <;> simp at b1 b2 b3 ⊢ <;> omega
  · have hr' : 0 < d.range := Nat.pos_of_ne_zero hr
    rw [sample_eq t d hr' (by have := M_le_B t hv; omega)] at hs
    obtain ⟨v, hvB, _, hx⟩ := firstAccepted_some t d ws x ws' hs
    obtain ⟨e1, e2⟩ := offset_lt t hv d hr' hrM v hvB
    have hcard : (d.range : Int) = card t lo hi incl := by
      rcases hrange with e | ⟨e, _⟩
      · exact e
      · omega
    have hx' : x = wadd t.M lo (v * d.range / t.B) := by rw [hx, valueOf, e1, hbase]
    generalize v * d.range / t.B = mm at hx' e2
    have hlt : (mm : Int) < card t lo hi incl := by rw [← hcard]; exact_mod_cast e2
    have key := toInt_wadd t hv lo hi incl hlo hhi _ hlt
    rw [← hx'] at key
    refine ⟨by rw [hx']; exact wadd_lt _ _ _ (M_pos t), by omega, ?_⟩
    unfold card at hlt
    cases incl <;> simp at hlt ⊢ <;> omega

/-! ### Exact uniformity -/

/-- **Exact uniformity (Lemire).** For a range of `r > 0` values, and every offset `m < r`, the
word values `v < 2^L` on which one loop iteration returns `base + m` are exactly the `⌊2^L / r⌋`
consecutive words starting at `lemireStart`: every value of the range is produced by the same
number of words, whatever the loop rejected before. -/
theorem sample_uniform (t : IntTy) (hv : Valid t) (d : UniformInt) (hr : 0 < d.range) (hrM : d.range < t.M)
    (hb : d.base < t.M) (zone : Nat) (hz : zone = d.range ∨ zone = t.B % d.range) (m : Nat) (hm : m < d.range) :
    ∀ v, v < t.B →
      (iteration t d zone v = .inl (wadd t.M d.base m) ↔
        (lemireStart t.B d.range m ≤ v ∧ v < lemireStart t.B d.range m + t.B / d.range)) := by
  intro v hvB
  have hrB : d.range ≤ t.B := by have := M_le_B t hv; omega
  rw [iteration_eq t d zone v hr hrB hz, ← lemire_interval t.B d.range m (B_pos t) hr v]
  obtain ⟨e1, e2⟩ := offset_lt t hv d hr hrM v hvB
  unfold Accepts valueOf
  rw [e1]
  constructor
  · intro h
    by_cases ha : t.B % d.range ≤ v * d.range % t.B
    · simp only [ha, ↓reduceIte, Sum.inl.injEq] at h
      exact ⟨wadd_inj t.M d.base _ _ (by omega) (by omega) hb h, ha⟩
    · simp [ha] at h
  · rintro ⟨h1, h2⟩
    simp [h2, h1]

/-- the accepted intervals lie inside the word range and are pairwise disjoint, so the `r`
values of the range partition the accepted words into `r` blocks of equal size -/
theorem accepted_interval_in_words (t : IntTy) (d : UniformInt) (hr : 0 < d.range) (m : Nat) (hm : m < d.range)
    (v : Nat) (h : lemireStart t.B d.range m ≤ v ∧ v < lemireStart t.B d.range m + t.B / d.range) : v < t.B :=
  lemire_interval_lt t.B d.range m v (B_pos t) hr hm h

/-- full-type range (`range = 0`): the sample is the truncating cast of the word, and every
value has exactly `2^(L-b)` preimages `x + j·2^b` -/
theorem sample_uniform_full (t : IntTy) (hv : Valid t) (d : UniformInt) (hr : d.range = 0) (zone : Nat)
    (x : Nat) (hx : x < t.M) :
    ∀ v, ((v < t.B ∧ iteration t d zone v = .inl x) ↔ ∃ j, j < 2 ^ (t.wbits - t.bits) ∧ v = x + j * t.M) := by
  intro v
  have := trunc_preimage t.wbits t.bits x v hv.le hx
  simp only [iteration, hr, ↓reduceIte, Sum.inl.injEq]
  exact this

/-- **Rejection is rare**: strictly fewer than half of all words are rejected. -/
theorem rejected_lt_half (t : IntTy) (hv : Valid t) (d : UniformInt) (hr : 0 < d.range) (hrM : d.range < t.M) :
    2 * (t.B % d.range) < t.B :=
  reject_lt_half t.B d.range hr (by have := M_le_B t hv; omega)

/-- the loop returns at the first accepted word and consumes exactly the words before it -/
theorem sample_first_accepted (t : IntTy) (hv : Valid t) (d : UniformInt) (hr : 0 < d.range) (hrM : d.range < t.M)
    (ws : Words) : sample t d ws = firstAccepted t d ws :=
  sample_eq t d hr (by have := M_le_B t hv; omega) ws

/-! ### `Random::index` and `Dice` are such ranges -/

/-- `index(len)` is the range `0 .. len` on `usize` -/
theorem index_is_range (len : Nat) (h0 : 0 < len) (hl : len < IntTy.usize.M) :
    tryNew IntTy.usize 0 len false = .ok ⟨0, len⟩ ∧ index len = sample IntTy.usize ⟨0, len⟩ := by
  refine ⟨?_, rfl⟩
  have : ¬ (IntTy.usize.toInt 0 ≥ IntTy.usize.toInt len) := by
    rw [IntTy.toInt_unsigned _ rfl, IntTy.toInt_unsigned _ rfl]; omega
  have hw : wsub IntTy.usize.M len 0 = len := by
    have := range_unsigned IntTy.usize.M 0 len hl h0
    rw [this]; omega
  simp only [tryNew, Bool.false_eq_true, ↓reduceIte, this, hw]

/-- the built-in dice and `Dice::new(n)` are the inclusive ranges `1..=n` on `u8`; `Dice::new(0)` is an error -/
theorem dice_is_range (n : Nat) (h1 : 1 ≤ n) (hn : n < 256) :
    Dice.new n = .ok (Dice.const n) ∧ Dice.new 0 = .error .EmptyRange := by
  constructor
  · have : ¬ (IntTy.u8.toInt 1 > IntTy.u8.toInt n) := by
      rw [IntTy.toInt_unsigned _ rfl, IntTy.toInt_unsigned _ rfl]; omega
    simp only [Dice.new, tryNew, ↓reduceIte, this, Dice.const]
    congr 2
    have hM : IntTy.u8.M = 256 := by decide
    rw [hM]
    unfold wadd wsub
    omega
  · rfl

/-! ### Non-vacuity: concrete instances meet the hypotheses -/

example : Valid IntTy.i8 ∧ tryNew IntTy.i8 (IntTy.i8.ofInt (-100)) (IntTy.i8.ofInt 100) true = .ok ⟨156, 201⟩ := by
  refine ⟨⟨by decide, by decide⟩, by rfl⟩
/-- the unchanged code on a threshold word: range 201 over 32-bit words, first accepted word for offset 0 -/
example : iteration IntTy.i8 ⟨156, 201⟩ 201 (lemireStart (2^32) 201 0) = .inl 156 ∧
    iteration IntTy.i8 ⟨156, 201⟩ 201 (lemireStart (2^32) 201 0 - 1) = .inr (2^32 % 201) := by decide

end Urandom.C04
