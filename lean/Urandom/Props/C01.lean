import Urandom.Lemmas.Fill
import Urandom.Lemmas.Weyl
/-
C01 - Seeded PRNG streams equal the published algorithms for every seed and call order.

The model (`Urandom.Model.Word`, tied to the Rust code by the `word` correspondence stream) is
proved equal to the published reference algorithms (`Urandom.Spec.Published`) under the
*declarative* history semantics, for every state and every finite operation history.
-/
namespace Urandom.C01
open Urandom Urandom.Spec

/-- What it means for a modelled generator to implement a reference generator, call by call. -/
structure Implements {σ : Type} (g : WordGen σ) (r : Ref σ) : Prop where
  u64 : ∀ s, g.u64 s = (r.out64 s, r.T s)
  u32 : ∀ s, g.u32 s = (hi32 (r.outHi s), r.T s)
  f32 : ∀ s, g.f32 s = (0x3F800000#32 ||| (hi32 (r.outHi s) >>> 9), r.T s)
  f64 : ∀ s, g.f64 s = (0x3FF0000000000000#64 ||| (r.outHi s >>> 12), r.T s)
  jump : ∀ s, g.jump s = r.J s

section generic
variable {σ : Type} {g : WordGen σ} {r : Ref σ}

theorem words_eq (h : Implements g r) (k : Nat) (s : σ) : g.words k s = r.outputs k s := by
  induction k generalizing s with
  | zero => rfl
  | succ k ih => simp [WordGen.words, Ref.outputs, h.u64, ih]

theorem after_eq (h : Implements g r) (k : Nat) (s : σ) : g.after k s = iter r.T k s := by
  induction k generalizing s with
  | zero => rfl
  | succ k ih => simp [WordGen.after, iter, h.u64, ih]

theorem step_eq (h : Implements g r) (s : σ) (op : Op) : g.step s op = r.step s op := by
  cases op with
  | u32 => simp [WordGen.step, Ref.step, h.u32]
  | u64 => simp [WordGen.step, Ref.step, h.u64]
  | f32 => simp [WordGen.step, Ref.step, h.f32]
  | f64 => simp [WordGen.step, Ref.step, h.f64]
  | fill n =>
    simp only [WordGen.step, Ref.step, fillBytes_eq, WordGen.byteStream, Ref.byteStream, words_eq h, after_eq h]
  | jump => simp [WordGen.step, Ref.step, h.jump]
  | clone => simp [WordGen.step, Ref.step, h.u64]
  | split => simp [WordGen.step, Ref.step, h.u64, h.jump]

/-- **History refinement**: a generator that implements the reference call by call produces, for
every state and every finite interleaving of draws, fills, jumps, clones and splits, exactly the
outputs and the final state of the declarative reference semantics. -/
theorem run_eq (h : Implements g r) (s : σ) (ops : List Op) : g.run s ops = r.run s ops := by
  induction ops generalizing s with
  | nil => rfl
  | cons op ops ih => simp [WordGen.run, Ref.run, step_eq h, ih]

end generic

/-! ### The three generators implement their published algorithms -/

theorem rotl_eq (x : BitVec 64) (k : Nat) (hk : k < 64) : Spec.rotl x k = x.rotateLeft k := by
  simp [Spec.rotl, BitVec.rotateLeft, BitVec.rotateLeftAux, Nat.mod_eq_of_lt hk]

theorem xoshiro_advance_eq (s : Xoshiro.S) : Xoshiro.advance s = xoshiroT s := by
  simp [Xoshiro.advance, Xoshiro.advanceK, xoshiroT, rotl_eq]

theorem rngF32_eq (w : BitVec 32) : rngF32 w = 0x3F800000#32 ||| (w >>> 9) := by
  simp [rngF32]
theorem rngF64_eq (w : BitVec 64) : rngF64 w = 0x3FF0000000000000#64 ||| (w >>> 12) := by
  simp [rngF64]

/-- the code's nested bit loop is the reference `jump()` -/
theorem jumpWord_eq_foldl (w : BitVec 64) (n b : Nat) (st : Xoshiro.S × Xoshiro.S) :
    Xoshiro.jumpWord w n b st =
      (List.range' b n).foldl (fun (st : Xoshiro.S × Xoshiro.S) b =>
        (xoshiroT st.1, if w &&& (1#64 <<< b) != 0
          then (⟨st.2.s0 ^^^ st.1.s0, st.2.s1 ^^^ st.1.s1, st.2.s2 ^^^ st.1.s2, st.2.s3 ^^^ st.1.s3⟩ : Xoshiro.S)
          else st.2)) st := by
  induction n generalizing b st with
  | zero => rfl
  | succ n ih =>
    rw [Xoshiro.jumpWord, ih, List.range'_succ, List.foldl_cons]
    obtain ⟨cur, acc⟩ := st
    simp [Xoshiro.jumpBit, xoshiro_advance_eq, Xoshiro.xorS]

theorem xoshiro_jump_eq (s : Xoshiro.S) : Xoshiro.jump s = xoshiroJump s := by
  simp only [Xoshiro.jump, xoshiroJump, Xoshiro.JUMPW, jumpWord_eq_foldl, List.range_eq_range', Xoshiro.zeroS]

theorem xoshiro_implements : Implements Xoshiro.gen xoshiroRef :=
  ⟨fun s => by simp [Xoshiro.gen, xoshiroRef, Xoshiro.nextPlusPlus, Xoshiro.outPlusPlus, xoshiroPlusPlus, rotl_eq, xoshiro_advance_eq],
   fun s => by simp [Xoshiro.gen, xoshiroRef, Xoshiro.nextPlus, Xoshiro.outPlus, xoshiroPlus, hi32, xoshiro_advance_eq],
   fun s => by simp [Xoshiro.gen, xoshiroRef, Xoshiro.nextPlus, Xoshiro.outPlus, xoshiroPlus, hi32, xoshiro_advance_eq, rngF32],
   fun s => by simp [Xoshiro.gen, xoshiroRef, Xoshiro.nextPlus, Xoshiro.outPlus, xoshiroPlus, xoshiro_advance_eq, rngF64],
   fun s => by simp only [Xoshiro.gen, xoshiroRef]; exact xoshiro_jump_eq s⟩

theorem splitmix_next_eq (x : BitVec 64) : SplitMix.next x = splitmix64 x := by
  simp [SplitMix.next, splitmix64, SplitMix.mix64, SplitMix.xs, SplitMix.GAMMA]

theorem splitmix_jump_eq (x : BitVec 64) : SplitMix.jump x = iter (fun x => (splitmix64 x).2) (2 ^ 40) x := by
  have : (fun x => (splitmix64 x).2) = fun x => x + SplitMix.GAMMA := by
    funext x; simp [splitmix64, SplitMix.GAMMA]
  rw [this, iter_weyl]
  show x + _ = x + _
  congr 1

theorem splitmix_implements : Implements SplitMix.gen splitmixRef :=
  ⟨fun s => by simp [SplitMix.gen, splitmixRef, splitmix_next_eq],
   fun s => by simp [SplitMix.gen, splitmixRef, splitmix_next_eq, hi32],
   fun s => by simp [SplitMix.gen, splitmixRef, splitmix_next_eq, hi32, rngF32],
   fun s => by simp [SplitMix.gen, splitmixRef, splitmix_next_eq, rngF64],
   fun s => by simp only [SplitMix.gen, splitmixRef]; exact splitmix_jump_eq s⟩

theorem wyrand_next_eq (x : BitVec 64) : Wyrand.next x = wyrand x := by
  simp [Wyrand.next, wyrand, Wyrand.rapidMix, Wyrand.rapidMum, wymix, Wyrand.P0, Wyrand.P1, BitVec.mul_comm]

theorem wyrand_jump_eq (x : BitVec 64) : Wyrand.jump x = iter (fun x => (wyrand x).2) (2 ^ 40) x := by
  have : (fun x => (wyrand x).2) = fun x => x + Wyrand.P0 := by
    funext x; simp [wyrand, Wyrand.P0]
  rw [this, iter_weyl]
  show x + _ = x + _
  congr 1

theorem wyrand_implements : Implements Wyrand.gen wyrandRef :=
  ⟨fun s => by simp [Wyrand.gen, wyrandRef, wyrand_next_eq],
   fun s => by simp [Wyrand.gen, wyrandRef, wyrand_next_eq, hi32],
   fun s => by simp [Wyrand.gen, wyrandRef, wyrand_next_eq, hi32, rngF32],
   fun s => by simp [Wyrand.gen, wyrandRef, wyrand_next_eq, rngF64],
   fun s => by simp only [Wyrand.gen, wyrandRef]; exact wyrand_jump_eq s⟩

theorem xoshiro_fromSeed_eq (seed : BitVec 64) : Xoshiro.fromSeed seed = xoshiroSeed seed := by
  simp [Xoshiro.fromSeed, xoshiroSeed, splitmix_next_eq, SplitMix.fromSeed]

/-! ### The property -/

/-- **C01 (Xoshiro256, hence `urandom::seeded`)** - for every 64-bit seed and every injected
256-bit state, every finite history gives exactly the reference outputs: xoshiro256++ for 64-bit
words, the high bits of xoshiro256+ for 32-bit words and floats, the state expanded with
SplitMix64, `fill` as the little-endian word stream, `jump` as the reference `jump()`. -/
theorem xoshiro_equals_published (s : Xoshiro.S) (ops : List Op) :
    Xoshiro.gen.run s ops = xoshiroRef.run s ops := run_eq xoshiro_implements s ops

theorem xoshiro_seeded_equals_published (seed : BitVec 64) (ops : List Op) :
    Xoshiro.gen.run (Xoshiro.fromSeed seed) ops = xoshiroRef.run (xoshiroSeed seed) ops := by
  rw [xoshiro_fromSeed_eq]; exact run_eq xoshiro_implements _ ops

theorem splitmix_equals_published (seed : BitVec 64) (ops : List Op) :
    SplitMix.gen.run (SplitMix.fromSeed seed) ops = splitmixRef.run seed ops :=
  run_eq splitmix_implements seed ops

theorem wyrand_equals_published (seed : BitVec 64) (ops : List Op) :
    Wyrand.gen.run (Wyrand.fromSeed seed) ops = wyrandRef.run seed ops :=
  run_eq wyrand_implements seed ops

/-- A shorter fill is a prefix of a longer one from the same state (any word generator). -/
theorem fill_prefix {σ : Type} (g : WordGen σ) (s : σ) (m n : Nat) (h : m ≤ n) :
    (fillBytes g s m).1 = ((fillBytes g s n).1).take m := by
  have pre : ∀ (a b : Nat) (s : σ), a ≤ b → g.byteStream a s = (g.byteStream b s).take (8 * a) := by
    intro a
    induction a with
    | zero => intro b s _; simp [WordGen.byteStream, WordGen.words]
    | succ a ih =>
      intro b s hab
      obtain ⟨b, rfl⟩ : ∃ b', b = b' + 1 := ⟨b - 1, by omega⟩
      have ht : List.take (8 * (a + 1)) (leBytes (g.u64 s).1 8) = leBytes (g.u64 s).1 8 :=
        List.take_of_length_le (by simp; omega)
      rw [g.byteStream_succ, g.byteStream_succ, ih b _ (by omega), List.take_append, ht]
      simp only [leBytes_length]
      congr 2
  simp only [fillBytes_eq]
  rw [List.take_take, Nat.min_eq_left h, pre ((m + 7) / 8) ((n + 7) / 8) s (by omega), List.take_take]
  congr 1
  omega

/-- A clone continues with exactly the stream of its original: the two words reported for a
clone are the next two 64-bit outputs of the original, which is itself left untouched. -/
theorem clone_continues {σ : Type} (g : WordGen σ) (s : σ) (ops : List Op) :
    ∃ a b rest s', g.run s (.clone :: .u64 :: .u64 :: ops) = (.cloned a b :: .w64 a :: .w64 b :: rest, s') ∧
      g.run s (.u64 :: .u64 :: ops) = (.w64 a :: .w64 b :: rest, s') := by
  refine ⟨(g.u64 s).1, (g.u64 (g.u64 s).2).1, (g.run (g.u64 (g.u64 s).2).2 ops).1, (g.run (g.u64 (g.u64 s).2).2 ops).2, ?_, ?_⟩ <;>
    simp [WordGen.run, WordGen.step]

/-! ### Anchors (tests, labelled as such): published known-answer vectors -/

/-- xoshiro256++ from state `[1,2,3,4]` (reference test vector). -/
theorem kat_xoshiro256pp :
    (Xoshiro.gen.run ⟨1#64, 2#64, 3#64, 4#64⟩ [.u64, .u64, .u64, .u64]).1 =
      [.w64 41943041#64, .w64 58720359#64, .w64 3588806011781223#64, .w64 3591011842654386#64] := by
  decide +kernel

/-- SplitMix64 from 1234567 (reference test vector). -/
theorem kat_splitmix64 :
    (SplitMix.gen.run (SplitMix.fromSeed 1234567#64) [.u64, .u64, .u64]).1 =
      [.w64 6457827717110365317#64, .w64 3203168211198807973#64, .w64 9817491932198370423#64] := by
  decide +kernel

/-- The crate's doc-test values for seed 42. -/
theorem kat_doc_seed42 :
    (Xoshiro.gen.run (Xoshiro.fromSeed 42#64) [.u32]).1 = [.w32 368317477#32] ∧
    (SplitMix.gen.run (SplitMix.fromSeed 42#64) [.u32]).1 = [.w32 3184996902#32] ∧
    (Wyrand.gen.run (Wyrand.fromSeed 42#64) [.u32]).1 = [.w32 3396458620#32] := by
  decide +kernel

end Urandom.C01
