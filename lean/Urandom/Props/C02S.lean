import Urandom.Props.C02
import Urandom.Generated.ScalarChaCha
/-
C02 (third module) - `ChaChaState` AS TRANSLATED FROM THE SOURCE: the methods of the state struct of `src/rng/chacha.rs` (`new`, `get_state`,
`get_counter`, `set_counter`, `add_counter`, `get_stream`, `set_stream`, `BlockRng::jump`) and `ChaCha::from_seed`, regenerated into
`Urandom.Generated.Scalar.chacha` on every run (an object is its twelve 32-bit words: key, counter low/high, stream id low/high).  The model's
`ChaCha.State` operations - on which the batch theorems of C02, the no-reuse theorems of C03, the jump / split theorems of C08 and the seeding
theorem of C09 are built - are proved to be these translations: the 64-bit counter and stream id as two 32-bit words (carry included), the matrix
layout (constants, key, counter, stream), `jump` = stream id + 1 (mod 2^64), `from_seed` = the two seed halves repeated, counter 1, stream 0.
-/
namespace Urandom.C02
open Urandom.ChaCha Urandom.Generated

/-- the twelve words of a model state, as the translation passes them -/
def words12 (s : State) : W32 × W32 × W32 × W32 × W32 × W32 × W32 × W32 × W32 × W32 × W32 × W32 :=
  (s.k0, s.k1, s.k2, s.k3, s.k4, s.k5, s.k6, s.k7, s.c0, s.c1, s.s0, s.s1)

theorem state_new_translated (k0 k1 k2 k3 k4 k5 k6 k7 : W32) (counter stream : BitVec 64) :
    Scalar.chacha.new k0 k1 k2 k3 k4 k5 k6 k7 counter stream = words12 (State.new k0 k1 k2 k3 k4 k5 k6 k7 counter stream) := rfl

theorem get_counter_translated (s : State) :
    Scalar.chacha.get_counter s.k0 s.k1 s.k2 s.k3 s.k4 s.k5 s.k6 s.k7 s.c0 s.c1 s.s0 s.s1 = s.getCounter := rfl

theorem set_counter_translated (s : State) (c : BitVec 64) :
    Scalar.chacha.set_counter s.k0 s.k1 s.k2 s.k3 s.k4 s.k5 s.k6 s.k7 s.c0 s.c1 s.s0 s.s1 c = words12 (s.setCounter c) := rfl

/-- `add_counter`: the 64-bit counter plus `k`, modulo 2^64, written back as two 32-bit words - the carry between them included -/
theorem add_counter_translated (s : State) (k : BitVec 64) :
    Scalar.chacha.add_counter s.k0 s.k1 s.k2 s.k3 s.k4 s.k5 s.k6 s.k7 s.c0 s.c1 s.s0 s.s1 k = words12 (s.addCounter k) := rfl

theorem get_stream_translated (s : State) :
    Scalar.chacha.get_stream s.k0 s.k1 s.k2 s.k3 s.k4 s.k5 s.k6 s.k7 s.c0 s.c1 s.s0 s.s1 = s.getStream := rfl

theorem set_stream_translated (s : State) (c : BitVec 64) :
    Scalar.chacha.set_stream s.k0 s.k1 s.k2 s.k3 s.k4 s.k5 s.k6 s.k7 s.c0 s.c1 s.s0 s.s1 c = words12 (s.setStream c) := rfl

/-- **`jump` moves to the next 64-bit stream id** (carry from the low into the high word included) and touches nothing else -/
theorem state_jump_translated (s : State) :
    Scalar.chacha.jump s.k0 s.k1 s.k2 s.k3 s.k4 s.k5 s.k6 s.k7 s.c0 s.c1 s.s0 s.s1 = words12 s.jump := rfl

/-- the initial matrix: the four constants, the eight key words, counter low / high, stream id low / high -/
theorem get_state_translated (s : State) :
    Scalar.chacha.get_state s.k0 s.k1 s.k2 s.k3 s.k4 s.k5 s.k6 s.k7 s.c0 s.c1 s.s0 s.s1 =
      (s.getState.x0, s.getState.x1, s.getState.x2, s.getState.x3, s.getState.x4, s.getState.x5, s.getState.x6, s.getState.x7,
       s.getState.x8, s.getState.x9, s.getState.x10, s.getState.x11, s.getState.x12, s.getState.x13, s.getState.x14, s.getState.x15) := rfl

/-- **`ChaCha::from_seed`**: key = the two 32-bit halves of the seed repeated four times, counter 1, stream id 0 - for every seed, every variant -/
theorem chacha_from_seed_translated (seed : BitVec 64) :
    Scalar.chacha.from_seed seed = words12 (fromSeed seed) := rfl

end Urandom.C02
