import Urandom.Model.Block
import Urandom.Generated.EffectBlock
import Urandom.Lemmas.EffectBlockFill
/-!
# C03 for `BlockRngImpl::next_u32` / `next_u64` as translated from the source

`tools/extract_effect.py` translates the CURRENT text of the two word methods of `impl Rng for BlockRngImpl<T>` (src/rng/block.rs) into
functions of the `index` field (a `u32`) and the block size: the log of what happens to the block (`generate`, the load of the value from byte
offsets of the block) and the `index` field afterwards.  Here that log, run on a state of the hand-written model (`Model/Block.lean` - the
model every C03 theorem is about), is proved to be the model's `nextN`: for EVERY value of the index field (all 2^32 of them, including the
"empty" value `!0` and everything between 256 and 2^32) the refill decision, the offsets served and the new index are the model's.
-/
namespace Urandom.C03
open Urandom Urandom.Block Urandom.Generated

variable {κ β : Type}

/-- run an event log on a model state (core, buffer): `gen` replaces both, `load` outputs the elements at its offsets -/
def runEvents (C : Core κ β) : κ × (Nat → β) → List BlockEv → List β × (κ × (Nat → β))
  | st, [] => ([], st)
  | (c, _), .gen :: evs => runEvents C ((C.gen c).2, (C.gen c).1) evs
  | (c, buf), .load offs :: evs => (offs.map (fun o => buf o.toNat) ++ (runEvents C (c, buf) evs).1, (runEvents C (c, buf) evs).2)

theorem take_four (buf : Nat → β) (i : Nat) : take buf i 4 = [buf (i + 0), buf (i + 1), buf (i + 2), buf (i + 3)] := by
  simp [take, List.range, List.range.loop]

theorem take_eight (buf : Nat → β) (i : Nat) :
    take buf i 8 = [buf (i + 0), buf (i + 1), buf (i + 2), buf (i + 3), buf (i + 4), buf (i + 5), buf (i + 6), buf (i + 7)] := by
  simp [take, List.range, List.range.loop]

theorem off_toNat (x : BitVec 64) (k : Nat) (hx : x.toNat + k < 2 ^ 64) : (x + BitVec.ofNat 64 k).toNat = x.toNat + k := by
  simp only [BitVec.toNat_add, BitVec.toNat_ofNat]; omega

/-- **`next_u32` as translated is the model's `nextN 4`**, for every value of the index field -/
theorem next_u32_translated (C : Core κ β) (s : BS κ β) (h : s.index < 2 ^ 32) :
    runEvents C (s.core, s.buf) (Effect.block.next_u32 (BitVec.ofNat 32 s.index) 256#64).1
      = ((nextN C 4 s).1, ((nextN C 4 s).2.core, (nextN C 4 s).2.buf)) ∧
    (Effect.block.next_u32 (BitVec.ofNat 32 s.index) 256#64).2.toNat = (nextN C 4 s).2.index := by
  have hi : ((BitVec.ofNat 32 s.index).setWidth 64).toNat = s.index := by
    simp only [BitVec.toNat_setWidth, BitVec.toNat_ofNat]; omega
  have h252 : (256#64 - 4#64).toNat = 252 := by decide
  unfold Effect.block.next_u32 nextN
  generalize (BitVec.ofNat 32 s.index).setWidth 64 = x at hi
  by_cases hc : s.index > 256 - 4
  · have hb : x > 256#64 - 4#64 := by
      rw [gt_iff_lt, BitVec.lt_def, hi, h252]; omega
    simp only [hb, hc, if_true, List.nil_append, List.cons_append, runEvents, take_four, refill]
    refine ⟨?_, ?_⟩
    · simp
    · decide
  · have hb : ¬ x > 256#64 - 4#64 := by
      rw [gt_iff_lt, BitVec.lt_def, hi, h252]; omega
    have o := fun k (hk : k < 8) => off_toNat x k (by omega)
    simp only [hb, hc, if_false, List.nil_append, runEvents, take_four]
    refine ⟨?_, ?_⟩
    · have := o 0 (by omega); have := o 1 (by omega); have := o 2 (by omega); have := o 3 (by omega)
      simp_all
      repeat' constructor
      all_goals (congr 1; omega)
    · have := o 4 (by omega)
      simp only [BitVec.toNat_setWidth]
      simp_all
      omega

/-- **`next_u64` as translated is the model's `nextN 8`**, for every value of the index field -/
theorem next_u64_translated (C : Core κ β) (s : BS κ β) (h : s.index < 2 ^ 32) :
    runEvents C (s.core, s.buf) (Effect.block.next_u64 (BitVec.ofNat 32 s.index) 256#64).1
      = ((nextN C 8 s).1, ((nextN C 8 s).2.core, (nextN C 8 s).2.buf)) ∧
    (Effect.block.next_u64 (BitVec.ofNat 32 s.index) 256#64).2.toNat = (nextN C 8 s).2.index := by
  have hi : ((BitVec.ofNat 32 s.index).setWidth 64).toNat = s.index := by
    simp only [BitVec.toNat_setWidth, BitVec.toNat_ofNat]; omega
  have h248 : (256#64 - 8#64).toNat = 248 := by decide
  unfold Effect.block.next_u64 nextN
  generalize (BitVec.ofNat 32 s.index).setWidth 64 = x at hi
  by_cases hc : s.index > 256 - 8
  · have hb : x > 256#64 - 8#64 := by
      rw [gt_iff_lt, BitVec.lt_def, hi, h248]; omega
    simp only [hb, hc, if_true, List.nil_append, List.cons_append, runEvents, take_eight, refill]
    refine ⟨?_, ?_⟩
    · simp
    · decide
  · have hb : ¬ x > 256#64 - 8#64 := by
      rw [gt_iff_lt, BitVec.lt_def, hi, h248]; omega
    have o := fun k (hk : k < 9) => off_toNat x k (by omega)
    simp only [hb, hc, if_false, List.nil_append, runEvents, take_eight]
    refine ⟨?_, ?_⟩
    · have := o 0 (by omega); have := o 1 (by omega); have := o 2 (by omega); have := o 3 (by omega)
      have := o 4 (by omega); have := o 5 (by omega); have := o 6 (by omega); have := o 7 (by omega)
      simp_all
      repeat' constructor
      all_goals (congr 1; omega)
    · have := o 8 (by omega)
      simp only [BitVec.toNat_setWidth]
      simp_all
      omega

/-- **`BlockRngImpl::fill_bytes` as translated is the model's `fill`, for every length below 2^64 and every value of the index field**: no
slice operation is out of bounds, no loop diverges, the copies go to consecutive offsets of the destination starting at 0, and the elements
written, the core, the block and the index field afterwards are the model's. -/
theorem fill_bytes_translated (C : Core κ β) (s : BS κ β) (dflt : Nat → β) (L : BitVec 64) (h : s.index < 2 ^ 32) :
    (Effect.block.fill_bytes (BitVec.ofNat 32 s.index) 256#64 L).2.2.1 = false ∧
    (Effect.block.fill_bytes (BitVec.ofNat 32 s.index) 256#64 L).2.2.2 = false ∧
    (runFill C ⟨s.core, s.buf, dflt, [], true⟩ (Effect.block.fill_bytes (BitVec.ofNat 32 s.index) 256#64 L).1).contig = true ∧
    (runFill C ⟨s.core, s.buf, dflt, [], true⟩ (Effect.block.fill_bytes (BitVec.ofNat 32 s.index) 256#64 L).1).out = (fill C L.toNat s).1 ∧
    (runFill C ⟨s.core, s.buf, dflt, [], true⟩ (Effect.block.fill_bytes (BitVec.ofNat 32 s.index) 256#64 L).1).core = (fill C L.toNat s).2.core ∧
    (runFill C ⟨s.core, s.buf, dflt, [], true⟩ (Effect.block.fill_bytes (BitVec.ofNat 32 s.index) 256#64 L).1).buf = (fill C L.toNat s).2.buf ∧
    (Effect.block.fill_bytes (BitVec.ofNat 32 s.index) 256#64 L).2.1.toNat = (fill C L.toNat s).2.index := by
  have hL : L.toNat < 2 ^ 64 := L.isLt
  have hidx : (BitVec.ofNat 32 s.index).toNat = s.index := by simp only [BitVec.toNat_ofNat]; omega
  generalize hI : BitVec.ofNat 32 s.index = idx at *
  have hfuel : L.toNat / 256 < 2 ^ 64 := by omega
  obtain ⟨tmp', hw⟩ := runFill_wlog C (L.toNat / 256) 0#64 ⟨s.core, s.buf, dflt, [], true⟩ rfl (by simp) (by simp; omega)
  have hdl := direct_length C (L.toNat / 256) s.core
  unfold Effect.block.fill_bytes fill
  simp only [while1_closed _ _ _ _ _ _ hfuel, List.nil_append]
  generalize hq : L.toNat / 256 = q at *
  have hr256 : L.toNat % 256 < 256 := Nat.mod_lt _ (by omega)
  generalize hr : L.toNat % 256 = r at *
  have hremN : (BitVec.ofNat 64 r).toNat = r := by simp only [BitVec.toNat_ofNat]; omega
  have hoffN : (0#64 + BitVec.ofNat 64 (256 * q)).toNat = 256 * q := by
    simp only [BitVec.toNat_add, BitVec.toNat_ofNat]; simp; omega
  by_cases hr0 : r = 0
  · subst hr0
    have n0 : ¬ (BitVec.ofNat 64 0 > 0#64) := by decide
    simp only [n0, if_false, if_true, hw]
    simp [hidx]
  · have p0 : BitVec.ofNat 64 r > 0#64 := by rw [gt_iff_lt, BitVec.lt_def, hremN]; simp; omega
    have hrne : ¬ (r = 0) := hr0
    simp only [p0, if_true, hrne, if_false]
    have hsN := startOf_toNat idx
    have hs0N : (0#64 + startOf idx).toNat = min s.index 256 := by
      simp only [BitVec.toNat_add, BitVec.toNat_ofNat, hsN, hidx]; simp; omega
    by_cases hfit : r ≤ 256 - min s.index 256
    · have e1 : (2 : Nat) ^ 64 = (2 ^ 64 - 1) + 1 := by omega
      rw [e1, loop1_fits _ idx _ _ _ _ _ (by rw [hremN]; omega) (by rw [hremN, hidx]; exact hfit)]
      have hidxN : (idx + (BitVec.ofNat 64 r).setWidth 32).toNat = s.index + r := by
        simp only [BitVec.toNat_add, BitVec.toNat_setWidth, hremN, hidx]; omega
      simp only [runFill_append, hw]
      simp only [runFill, List.foldl_cons, List.foldl_nil, stepFill, fillRem, hs0N, hremN, hoffN, hdl, hidxN]
      simp [hfit, hdl]
    · have hspill : 256 - min s.index 256 < r := by omega
      have e2 : (2 : Nat) ^ 64 = (2 ^ 64 - 2) + 2 := by omega
      rw [e2, loop1_spills _ idx _ _ _ _ _ (by rw [hremN]; exact hr256) (by rw [hremN, hidx]; exact hspill)]
      have h256 : (256#64).toNat = 256 := rfl
      have hsl : (256#64 - startOf idx).toNat = 256 - min s.index 256 := by
        rw [BitVec.toNat_sub_of_le (by rw [BitVec.le_def, hsN, h256]; omega), hsN, h256, hidx]
      have hle : 256#64 - startOf idx ≤ BitVec.ofNat 64 r := by rw [BitVec.le_def, hsl, hremN]; omega
      have hrem2 : (BitVec.ofNat 64 r - (256#64 - startOf idx)).toNat = r - (256 - min s.index 256) := by
        rw [BitVec.toNat_sub_of_le hle, hsl, hremN]
      have hs00 : (0#64 + startOf 0#32).toNat = 0 := by decide
      have hoff2 : (0#64 + BitVec.ofNat 64 (256 * q) + (256#64 - startOf idx)).toNat = 256 * q + (256 - min s.index 256) := by
        rw [BitVec.toNat_add, hoffN, hsl]; omega
      have hidx2 : (0#32 + (BitVec.ofNat 64 r - (256#64 - startOf idx)).setWidth 32).toNat = r - (256 - min s.index 256) := by
        simp only [BitVec.toNat_add, BitVec.toNat_setWidth, hrem2]; simp; omega
      simp only [runFill_append, hw]
      simp only [runFill, List.foldl_cons, List.foldl_nil, stepFill, fillRem, refill, hs0N, hs00, hsl, hrem2, hoffN, hoff2, hidx2]
      simp [hfit, hdl, take]


/-- **the serde helpers as translated** (`skip_serializing_if = "is_index_oob::<T>"`, `default = "default_index::<T>"` on the field `index`; the
attributes themselves, `is_default` and `BlockRngImpl::new` are checked by the translator): the model's serialised form omits the index
exactly when the code's predicate says so, and the model's default index on reading is the code's -/
theorem serde_index_translated (s : BS κ (BitVec 8)) (h : s.index < 2 ^ 32) :
    ((ser s).index = none ↔ Effect.block.is_index_oob 256#64 (BitVec.ofNat 32 s.index) = true) ∧
    (∀ j : Ser κ, j.index = none → (de j).index = Effect.block.default_index.toNat) ∧
    (Block.new s.core (0#8)).index = Effect.block.default_index.toNat := by
  have hi : (BitVec.ofNat 32 s.index).toNat = s.index := by simp only [BitVec.toNat_ofNat]; omega
  have hd : Effect.block.default_index.toNat = 2 ^ 32 - 1 := by decide
  refine ⟨?_, ?_, by rw [hd]; rfl⟩
  · unfold ser Effect.block.is_index_oob
    have h256 : ((256#64).setWidth 32).toNat = 256 := by decide
    simp only [decide_eq_true_eq, ge_iff_le, BitVec.le_def, h256, hi]
    by_cases hc : s.index ≥ 256 <;> simp [hc] <;> omega
  · intro j hj
    unfold de
    rw [hj, hd]
    rfl

end Urandom.C03
