import Urandom.Model.Block
import Urandom.Generated.EffectBlock
/-!
# C03 for `BlockRngImpl::next_u32` / `next_u64` as translated from the source

`tools/extract_effect.py` translates the CURRENT text of the two word methods of `impl Rng for BlockRngImpl<T>` (src/rng/block.rs) into
functions of the `index` field (a `u32`) and the block size: the log of what happens to the block (`generate`, the load of the value from byte
offsets of the block) and the `index` field afterwards.  Here that log, run on a state of the hand-written model (`Model/Block.lean` - the
model every C03 theorem is about), is proved to be the model's `nextN`: for EVERY value of the index field (all 2^32 of them, including the
"empty" value `!0` and everything between 256 and 2^32) the refill decision, the offsets served and the new index are the model's.
-/
namespace Urandom.C03
open Urandom Urandom.Block Urandom.Generated

variable {κ β : Type}

/-- run an event log on a model state (core, buffer): `gen` replaces both, `load` outputs the elements at its offsets -/
def runEvents (C : Core κ β) : κ × (Nat → β) → List BlockEv → List β × (κ × (Nat → β))
  | st, [] => ([], st)
  | (c, _), .gen :: evs => runEvents C ((C.gen c).2, (C.gen c).1) evs
  | (c, buf), .load offs :: evs => (offs.map (fun o => buf o.toNat) ++ (runEvents C (c, buf) evs).1, (runEvents C (c, buf) evs).2)

theorem take_four (buf : Nat → β) (i : Nat) : take buf i 4 = [buf (i + 0), buf (i + 1), buf (i + 2), buf (i + 3)] := by
  simp [take, List.range, List.range.loop]

theorem take_eight (buf : Nat → β) (i : Nat) :
    take buf i 8 = [buf (i + 0), buf (i + 1), buf (i + 2), buf (i + 3), buf (i + 4), buf (i + 5), buf (i + 6), buf (i + 7)] := by
  simp [take, List.range, List.range.loop]

theorem off_toNat (x : BitVec 64) (k : Nat) (hx : x.toNat + k < 2 ^ 64) : (x + BitVec.ofNat 64 k).toNat = x.toNat + k := by
  simp only [BitVec.toNat_add, BitVec.toNat_ofNat]; omega

/-- **`next_u32` as translated is the model's `nextN 4`**, for every value of the index field -/
theorem next_u32_translated (C : Core κ β) (s : BS κ β) (h : s.index < 2 ^ 32) :
    runEvents C (s.core, s.buf) (Effect.block.next_u32 (BitVec.ofNat 32 s.index) 256#64).1
      = ((nextN C 4 s).1, ((nextN C 4 s).2.core, (nextN C 4 s).2.buf)) ∧
    (Effect.block.next_u32 (BitVec.ofNat 32 s.index) 256#64).2.toNat = (nextN C 4 s).2.index := by
  have hi : ((BitVec.ofNat 32 s.index).setWidth 64).toNat = s.index := by
    simp only [BitVec.toNat_setWidth, BitVec.toNat_ofNat]; omega
  have h252 : (256#64 - 4#64).toNat = 252 := by decide
  unfold Effect.block.next_u32 nextN
  generalize (BitVec.ofNat 32 s.index).setWidth 64 = x at hi
  by_cases hc : s.index > 256 - 4
  · have hb : x > 256#64 - 4#64 := by
      rw [gt_iff_lt, BitVec.lt_def, hi, h252]; omega
    simp only [hb, hc, if_true, List.nil_append, List.cons_append, runEvents, take_four, refill]
    refine ⟨?_, ?_⟩
    · simp
    · decide
  · have hb : ¬ x > 256#64 - 4#64 := by
      rw [gt_iff_lt, BitVec.lt_def, hi, h252]; omega
    have o := fun k (hk : k < 8) => off_toNat x k (by omega)
    simp only [hb, hc, if_false, List.nil_append, runEvents, take_four]
    refine ⟨?_, ?_⟩
    · have := o 0 (by omega); have := o 1 (by omega); have := o 2 (by omega); have := o 3 (by omega)
      simp_all
      repeat' constructor
      all_goals (congr 1; omega)
    · have := o 4 (by omega)
      simp only [BitVec.toNat_setWidth]
      simp_all
      omega

/-- **`next_u64` as translated is the model's `nextN 8`**, for every value of the index field -/
theorem next_u64_translated (C : Core κ β) (s : BS κ β) (h : s.index < 2 ^ 32) :
    runEvents C (s.core, s.buf) (Effect.block.next_u64 (BitVec.ofNat 32 s.index) 256#64).1
      = ((nextN C 8 s).1, ((nextN C 8 s).2.core, (nextN C 8 s).2.buf)) ∧
    (Effect.block.next_u64 (BitVec.ofNat 32 s.index) 256#64).2.toNat = (nextN C 8 s).2.index := by
  have hi : ((BitVec.ofNat 32 s.index).setWidth 64).toNat = s.index := by
    simp only [BitVec.toNat_setWidth, BitVec.toNat_ofNat]; omega
  have h248 : (256#64 - 8#64).toNat = 248 := by decide
  unfold Effect.block.next_u64 nextN
  generalize (BitVec.ofNat 32 s.index).setWidth 64 = x at hi
  by_cases hc : s.index > 256 - 8
  · have hb : x > 256#64 - 8#64 := by
      rw [gt_iff_lt, BitVec.lt_def, hi, h248]; omega
    simp only [hb, hc, if_true, List.nil_append, List.cons_append, runEvents, take_eight, refill]
    refine ⟨?_, ?_⟩
    · simp
    · decide
  · have hb : ¬ x > 256#64 - 8#64 := by
      rw [gt_iff_lt, BitVec.lt_def, hi, h248]; omega
    have o := fun k (hk : k < 9) => off_toNat x k (by omega)
    simp only [hb, hc, if_false, List.nil_append, runEvents, take_eight]
    refine ⟨?_, ?_⟩
    · have := o 0 (by omega); have := o 1 (by omega); have := o 2 (by omega); have := o 3 (by omega)
      have := o 4 (by omega); have := o 5 (by omega); have := o 6 (by omega); have := o 7 (by omega)
      simp_all
      repeat' constructor
      all_goals (congr 1; omega)
    · have := o 8 (by omega)
      simp only [BitVec.toNat_setWidth]
      simp_all
      omega

end Urandom.C03
