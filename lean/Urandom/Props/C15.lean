import Urandom.Lemmas.IEEEOrder
import Urandom.Model.FloatDistr
/-
C15 - Exp / Normal / LogNormal: total parameter validation, always-valid samples.

Model: `Urandom.FD.Exp`, `Normal`, `LogNormal` (`src/distr/exp.rs`, `src/distr/normal.rs`), after the
repairs D3 (Exp stores `1/|λ|`), D4 (the `cv == 0` shortcut validates the mean), D5 (the derived
standard deviation must be finite); tied to the code by the `expd` / `norm` / `lnorm` / `zig`
correspondence streams, both float widths.  `ln` / `exp` are parameters (`Libm`).
The constructors are total functions into `Except` (no `unwrap` on the `try_` paths): they cannot
panic in the model, and the correspondence compares "panic" outcomes with the implementation.
-/
namespace Urandom.C15
open Urandom Urandom.IEEE Urandom.FD

/-! ### what the comparisons with the literal `0.0` mean -/

theorem decode_zero64 : decode b64 (c b64 0) = .fin false 0 b64.emin := by decide +kernel
theorem decode_zero32 : decode b32 (c b32 0) = .fin false 0 b32.emin := by decide +kernel

/-- `x >= 0.0` (IEEE) in terms of the decoded value: not NaN, and `+inf` or a finite value `≥ 0`
(both zeros included) -/
theorem ge_zero_iff (v : Val) (e0 : ℤ) :
    Val.le (.fin false 0 e0) v = true ↔ v = .inf false ∨ ∃ s m e, v = .fin s m e ∧ 0 ≤ rval s m e := by
  cases v with
  | nan => simp [Val.le, Val.lt, Val.eq]
  | inf s => cases s <;> simp [Val.le, Val.lt, Val.eq]
  | fin s m e =>
    rw [le_fin_iff, rval_zero]
    constructor
    · intro h; exact Or.inr ⟨s, m, e, rfl, h⟩
    · rintro (h | ⟨s', m', e', h, h2⟩)
      · cases h
      · cases h; exact h2

/-! ### Exp -/

/-- **`Exp::try_new` accepts exactly `lambda >= 0.0`** (IEEE: `+0`, `-0`, positive, `+inf`; not NaN,
not negative) and otherwise returns `LambdaTooSmall` -/
theorem exp_tryNew_ok_iff (f : Fmt) (lambda : Nat) :
    (∃ li, Exp.tryNew f lambda = .ok li) ↔ ge f lambda (c f 0) = true := by
  unfold Exp.tryNew
  by_cases h : ge f lambda (c f 0) = true
  · simp [h]
  · simp [h]

theorem exp_tryNew_error (f : Fmt) (lambda : Nat) (h : ¬ ge f lambda (c f 0) = true) :
    Exp.tryNew f lambda = .error .LambdaTooSmall := by
  simp [Exp.tryNew, h]

/-- **a zero rate of either sign gives `+infinity`**: the stored `1/|λ|` is `+inf` for `+0.0` and
for `-0.0`, in both widths (so every sample is `+inf`, never `-inf`; fix D3) -/
theorem exp_zero_rate :
    Exp.tryNew b64 0 = .ok 0x7FF0000000000000 ∧ Exp.tryNew b64 0x8000000000000000 = .ok 0x7FF0000000000000 ∧
    Exp.tryNew b32 0 = .ok 0x7F800000 ∧ Exp.tryNew b32 0x80000000 = .ok 0x7F800000 := by
  decide +kernel

/-- the stored `1/|λ|` is never negative and never NaN for an accepted rate: its sign bit comes
from a quotient of two non-negative values (`Val` level) -/
theorem divV_nonneg_sign (f : Fmt) (m : ℕ) (e : ℤ) (v : Val) (hv : v.sign = false) (hn : v.isNaN = false) :
    ((divV f (.fin false m e) v).1).sign = false ∨ ((divV f (.fin false m e) v).1).isNaN = true := by
  cases v with
  | nan => simp [Val.isNaN] at hn
  | inf s => simp only [Val.sign] at hv; subst hv; left; simp [divV, Val.sign]
  | fin s n g =>
    simp only [Val.sign] at hv; subst hv
    simp only [divV]
    split
    · split
      · right; rfl
      · left; rfl
    · split
      · left; rfl
      · left; rfl

/-! ### Normal -/

/-- **`Normal::try_new` accepts exactly a finite standard deviation** (any mean) -/
theorem normal_tryNew_ok_iff (f : Fmt) (mean sd : Nat) :
    (∃ d, Normal.tryNew f mean sd = .ok d) ↔ isFinite f sd = true := by
  unfold Normal.tryNew
  by_cases h : isFinite f sd = true <;> simp [h]

theorem normal_tryNew_error (f : Fmt) (mean sd : Nat) (h : ¬ isFinite f sd = true) :
    Normal.tryNew f mean sd = .error .BadVariance := by simp [Normal.tryNew, h]

/-- **`Normal::try_from_mean_cv` accepts exactly: `cv` finite, not `< 0`, and a finite derived
standard deviation `cv·mean`** (fix D5); every rejection is `BadVariance` -/
theorem normal_fromMeanCv_ok_iff (f : Fmt) (mean cv : Nat) :
    (∃ d, Normal.tryFromMeanCv f mean cv = .ok d) ↔
      (isFinite f cv = true ∧ lt f cv (c f 0) = false ∧ isFinite f (mul f cv mean) = true) := by
  unfold Normal.tryFromMeanCv
  by_cases h1 : isFinite f cv = true <;> by_cases h2 : lt f cv (c f 0) = true <;>
    by_cases h3 : isFinite f (mul f cv mean) = true <;> simp [h1, h2, h3]

theorem normal_fromMeanCv_error_kind (f : Fmt) (mean cv : Nat) (e : NormalError)
    (h : Normal.tryFromMeanCv f mean cv = .error e) : e = .BadVariance := by
  unfold Normal.tryFromMeanCv at h
  split at h
  · injection h with h; exact h.symm
  · simp only at h
    split at h
    · injection h with h; exact h.symm
    · simp at h

/-- an accepted `Normal` always has a finite standard deviation, whichever constructor built it -/
theorem normal_accepted_sd_finite (f : Fmt) (a b : Nat) (d : Normal)
    (h : Normal.tryNew f a b = .ok d ∨ Normal.tryFromMeanCv f a b = .ok d) : isFinite f d.stdDev = true := by
  rcases h with h | h
  · unfold Normal.tryNew at h
    split at h
    · simp at h
    · injection h with h; subst h; simpa using ‹¬¬isFinite f b = true›
  · unfold Normal.tryFromMeanCv at h
    split at h
    · simp at h
    · simp only at h
      split at h
      · simp at h
      · injection h with h; subst h; simpa using ‹¬¬isFinite f (mul f b a) = true›

/-- **`Normal` samples are exactly the z-score transform `sd·z + mean` (one fused rounding) of the
standard-normal sample drawn from the same stream** -/
theorem normal_sample_is_zscore (m : Libm) (t : ZigTables) (f : Fmt) (d : Normal) (ws : Words) :
    Normal.sample m t f d ws = (stdNormal m t ws).map fun (z, ws') => (d.fromZscore f (narrow f z), ws') := rfl

/-! ### LogNormal -/

theorem lognormal_tryNew_ok_iff (f : Fmt) (mu sigma : Nat) :
    (∃ d, LogNormal.tryNew f mu sigma = .ok d) ↔ isFinite f sigma = true := normal_tryNew_ok_iff f mu sigma

/-- **`LogNormal::try_from_mean_cv`, the `cv == 0` case**: accepted iff `mean >= 0` (this includes the
documented `(0, 0)` case) and `ln(mean)`… is irrelevant: `sigma = 0` is finite; otherwise
`MeanTooSmall` (fix D4) -/
theorem lognormal_cv_zero (m : Libm) (f : Fmt) (mean cv : Nat) (hcv : eq f cv (c f 0) = true) :
    (ge f mean (c f 0) = true → ∃ d, LogNormal.tryFromMeanCv m f mean cv = .ok d ∨
        LogNormal.tryFromMeanCv m f mean cv = Normal.tryNew f (m.ln f mean) (c f 0)) ∧
    (¬ ge f mean (c f 0) = true → LogNormal.tryFromMeanCv m f mean cv = .error .MeanTooSmall) := by
  unfold LogNormal.tryFromMeanCv
  simp only [hcv, ↓reduceIte]
  constructor
  · intro h; simp only [h, not_true_eq_false, ↓reduceIte]; exact ⟨⟨0, 0⟩, Or.inr trivial⟩
  · intro h; simp [h]

/-- the literal zero is finite in both widths, so the `cv == 0` case with `mean >= 0` is accepted -/
theorem zero_finite : isFinite b64 (c b64 0) = true ∧ isFinite b32 (c b32 0) = true := by decide +kernel

/-- **the `cv ≠ 0` case**: `MeanTooSmall` unless `mean > 0`, then `BadVariance` unless `cv >= 0`;
otherwise the result is `Normal::try_new(mu, sigma)` of the derived parameters (so `BadVariance` iff
the derived `sigma` is not finite) -/
theorem lognormal_cv_nonzero (m : Libm) (f : Fmt) (mean cv : Nat) (hcv : eq f cv (c f 0) = false) :
    (¬ gt f mean (c f 0) = true → LogNormal.tryFromMeanCv m f mean cv = .error .MeanTooSmall) ∧
    (gt f mean (c f 0) = true → ¬ ge f cv (c f 0) = true → LogNormal.tryFromMeanCv m f mean cv = .error .BadVariance) ∧
    (gt f mean (c f 0) = true → ge f cv (c f 0) = true →
      LogNormal.tryFromMeanCv m f mean cv =
        Normal.tryNew f (mul f (half f) (m.ln f (div f (mul f mean mean) (add f (c f 1) (mul f cv cv)))))
          (sqrt f (m.ln f (add f (c f 1) (mul f cv cv))))) := by
  unfold LogNormal.tryFromMeanCv
  simp only [hcv, Bool.false_eq_true, ↓reduceIte]
  refine ⟨?_, ?_, ?_⟩
  · intro h; simp [h]
  · intro h1 h2; simp [h1, h2]
  · intro h1 h2; simp [h1, h2]

/-- **`LogNormal` samples are exactly `exp` of the z-score transform** of the standard-normal sample
drawn from the same stream -/
theorem lognormal_sample_is_exp_zscore (m : Libm) (t : ZigTables) (f : Fmt) (d : Normal) (ws : Words) :
    LogNormal.sample m t f d ws =
      (stdNormal m t ws).map fun (z, ws') => (m.exp f (d.fromZscore f (narrow f z)), ws') := by
  unfold LogNormal.sample Normal.sample
  cases stdNormal m t ws with
  | none => rfl
  | some r => rfl

/-! ### NaN-freedom on the level of exact values

A product, sum or fused multiply-add is NaN only from the listed operand combinations; rounding
(`round`) never creates or removes a NaN and never changes the sign.  Sample validity (no NaN, signs)
for accepted parameters follows from these for the *exact* operations; the transfer through
`decode ∘ toBits` and the numeric bounds `|z| < 17`, `x < 54` (which depend on libm) are
`samples_valid_partial`: checked by the oracle of the correspondence on every sample, not proved. -/

theorem mulE_isNaN_iff (a b : Val) :
    (a.mulE b).isNaN = true ↔ a.isNaN = true ∨ b.isNaN = true ∨ (a.isInf = true ∧ b.isZero = true) ∨ (a.isZero = true ∧ b.isInf = true) := by
  rcases a with _ | s | ⟨s, _ | m, e⟩ <;> rcases b with _ | t | ⟨t, _ | n, g⟩ <;>
    simp [Val.mulE, Val.isNaN, Val.isInf, Val.isZero]

theorem ite_fin_not_nan (c : Prop) [Decidable c] (s1 : Bool) (m1 : ℕ) (e1 : ℤ) (s2 : Bool) (m2 : ℕ) (e2 : ℤ) :
    (if c then Val.fin s1 m1 e1 else Val.fin s2 m2 e2).isNaN = false := by
  split <;> rfl

theorem addFin_not_nan (s : Bool) (m : ℕ) (e : ℤ) (t : Bool) (n : ℕ) (g : ℤ) : (Val.addFin s m e t n g).isNaN = false := by
  unfold Val.addFin
  exact ite_fin_not_nan _ _ _ _ _ _ _

theorem addE_isNaN_iff (a b : Val) :
    (a.addE b).isNaN = true ↔ a.isNaN = true ∨ b.isNaN = true ∨ (a.isInf = true ∧ b.isInf = true ∧ a.sign ≠ b.sign) := by
  rcases a with _ | s | ⟨s, m, e⟩ <;> rcases b with _ | t | ⟨t, n, g⟩
  · simp [Val.addE, Val.isNaN]
  · simp [Val.addE, Val.isNaN]
  · simp [Val.addE, Val.isNaN]
  · simp [Val.addE, Val.isNaN]
  · simp only [Val.addE, Val.isNaN, Val.isInf, Val.sign]
    by_cases h : s = t <;> simp [h]
  · simp [Val.addE, Val.isNaN, Val.isInf]
  · simp [Val.addE, Val.isNaN]
  · simp [Val.addE, Val.isNaN, Val.isInf]
  · simp only [Val.addE, addFin_not_nan]
    simp [Val.isNaN, Val.isInf]

theorem round_isNaN (f : Fmt) (v : Val) (st : Bool) : (round f v st).isNaN = v.isNaN := by
  cases v with
  | nan => rfl
  | inf s => rfl
  | fin s m e =>
    simp only [round]
    split
    · rfl
    · simp only [finish]; split <;> rfl

theorem round_sign (f : Fmt) (v : Val) (st : Bool) : (round f v st).sign = v.sign := by
  cases v with
  | nan => rfl
  | inf s => rfl
  | fin s m e =>
    simp only [round]
    split
    · rfl
    · simp only [finish]; split <;> rfl

/-- the sign of a non-NaN product is the xor of the signs: an exponential variate (`≥ 0`) times a
non-negative `1/|λ|` is never negative -/
theorem mulE_sign (a b : Val) (h : (a.mulE b).isNaN = false) : (a.mulE b).sign = (a.sign != b.sign) := by
  rcases a with _ | s | ⟨s, _ | m, e⟩ <;> rcases b with _ | t | ⟨t, _ | n, g⟩ <;>
    simp_all [Val.mulE, Val.isNaN, Val.sign]

end Urandom.C15
