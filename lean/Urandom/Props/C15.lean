import Urandom.Lemmas.IEEEOrder
import Urandom.Lemmas.IEEERoundTrip
import Urandom.Model.FloatDistr
/-
C15 - Exp / Normal / LogNormal: total parameter validation, always-valid samples.

Model: `Urandom.FD.Exp`, `Normal`, `LogNormal` (`src/distr/exp.rs`, `src/distr/normal.rs`), after the
repairs D3 (Exp stores `1/|λ|`), D4 (the `cv == 0` shortcut validates the mean), D5 (the derived
standard deviation must be finite); tied to the code by the `expd` / `norm` / `lnorm` / `zig`
correspondence streams, both float widths.  `ln` / `exp` are parameters (`Libm`).
The constructors are total functions into `Except` (no `unwrap` on the `try_` paths): they cannot
panic in the model, and the correspondence compares "panic" outcomes with the implementation.
-/
namespace Urandom.C15
open Urandom Urandom.IEEE Urandom.FD

/-! ### what the comparisons with the literal `0.0` mean -/

theorem decode_zero64 : decode b64 (c b64 0) = .fin false 0 b64.emin := by decide +kernel
theorem decode_zero32 : decode b32 (c b32 0) = .fin false 0 b32.emin := by decide +kernel

/-- `x >= 0.0` (IEEE) in terms of the decoded value: not NaN, and `+inf` or a finite value `≥ 0`
(both zeros included) -/
theorem ge_zero_iff (v : Val) (e0 : ℤ) :
    Val.le (.fin false 0 e0) v = true ↔ v = .inf false ∨ ∃ s m e, v = .fin s m e ∧ 0 ≤ rval s m e := by
  cases v with
  | nan => simp [Val.le, Val.lt, Val.eq]
  | inf s => cases s <;> simp [Val.le, Val.lt, Val.eq]
  | fin s m e =>
    rw [le_fin_iff, rval_zero]
    constructor
    · intro h; exact Or.inr ⟨s, m, e, rfl, h⟩
    · rintro (h | ⟨s', m', e', h, h2⟩)
      · cases h
      · cases h; exact h2

/-! ### Exp -/

/-- **`Exp::try_new` accepts exactly `lambda >= 0.0`** (IEEE: `+0`, `-0`, positive, `+inf`; not NaN,
not negative) and otherwise returns `LambdaTooSmall` -/
theorem exp_tryNew_ok_iff (f : Fmt) (lambda : Nat) :
    (∃ li, Exp.tryNew f lambda = .ok li) ↔ ge f lambda (c f 0) = true := by
  unfold Exp.tryNew
  by_cases h : ge f lambda (c f 0) = true
  · simp [h]
  · simp [h]

theorem exp_tryNew_error (f : Fmt) (lambda : Nat) (h : ¬ ge f lambda (c f 0) = true) :
    Exp.tryNew f lambda = .error .LambdaTooSmall := by
  simp [Exp.tryNew, h]

/-- **a zero rate of either sign gives `+infinity`**: the stored `1/|λ|` is `+inf` for `+0.0` and
for `-0.0`, in both widths (so every sample is `+inf`, never `-inf`; fix D3) -/
theorem exp_zero_rate :
    Exp.tryNew b64 0 = .ok 0x7FF0000000000000 ∧ Exp.tryNew b64 0x8000000000000000 = .ok 0x7FF0000000000000 ∧
    Exp.tryNew b32 0 = .ok 0x7F800000 ∧ Exp.tryNew b32 0x80000000 = .ok 0x7F800000 := by
  decide +kernel

/-- the stored `1/|λ|` is never negative and never NaN for an accepted rate: its sign bit comes
from a quotient of two non-negative values (`Val` level) -/
theorem divV_nonneg_sign (f : Fmt) (m : ℕ) (e : ℤ) (v : Val) (hv : v.sign = false) (hn : v.isNaN = false) :
    ((divV f (.fin false m e) v).1).sign = false ∨ ((divV f (.fin false m e) v).1).isNaN = true := by
  cases v with
  | nan => simp [Val.isNaN] at hn
  | inf s => simp only [Val.sign] at hv; subst hv; left; simp [divV, Val.sign]
  | fin s n g =>
    simp only [Val.sign] at hv; subst hv
    simp only [divV]
    split
    · split
      · right; rfl
      · left; rfl
    · split
      · left; rfl
      · left; rfl

/-! ### Normal -/

/-- **`Normal::try_new` accepts exactly a finite standard deviation** (any mean) -/
theorem normal_tryNew_ok_iff (f : Fmt) (mean sd : Nat) :
    (∃ d, Normal.tryNew f mean sd = .ok d) ↔ isFinite f sd = true := by
  unfold Normal.tryNew
  by_cases h : isFinite f sd = true <;> simp [h]

theorem normal_tryNew_error (f : Fmt) (mean sd : Nat) (h : ¬ isFinite f sd = true) :
    Normal.tryNew f mean sd = .error .BadVariance := by simp [Normal.tryNew, h]

/-- **`Normal::try_from_mean_cv` accepts exactly: `cv` finite, not `< 0`, and a finite derived
standard deviation `cv·mean`** (fix D5); every rejection is `BadVariance` -/
theorem normal_fromMeanCv_ok_iff (f : Fmt) (mean cv : Nat) :
    (∃ d, Normal.tryFromMeanCv f mean cv = .ok d) ↔
      (isFinite f cv = true ∧ lt f cv (c f 0) = false ∧ isFinite f (mul f cv mean) = true) := by
  unfold Normal.tryFromMeanCv
  by_cases h1 : isFinite f cv = true <;> by_cases h2 : lt f cv (c f 0) = true <;>
    by_cases h3 : isFinite f (mul f cv mean) = true <;> simp [h1, h2, h3]

theorem normal_fromMeanCv_error_kind (f : Fmt) (mean cv : Nat) (e : NormalError)
    (h : Normal.tryFromMeanCv f mean cv = .error e) : e = .BadVariance := by
  unfold Normal.tryFromMeanCv at h
  split at h
  · injection h with h; exact h.symm
  · simp only at h
    split at h
    · injection h with h; exact h.symm
    · simp at h

/-- an accepted `Normal` always has a finite standard deviation, whichever constructor built it -/
theorem normal_accepted_sd_finite (f : Fmt) (a b : Nat) (d : Normal)
    (h : Normal.tryNew f a b = .ok d ∨ Normal.tryFromMeanCv f a b = .ok d) : isFinite f d.stdDev = true := by
  rcases h with h | h
  · unfold Normal.tryNew at h
    split at h
    · simp at h
    · injection h with h; subst h; simpa using ‹¬¬isFinite f b = true›
  · unfold Normal.tryFromMeanCv at h
    split at h
    · simp at h
    · simp only at h
      split at h
      · simp at h
      · injection h with h; subst h; simpa using ‹¬¬isFinite f (mul f b a) = true›

/-- **`Normal` samples are exactly the z-score transform `sd·z + mean` (one fused rounding) of the
standard-normal sample drawn from the same stream** -/
theorem normal_sample_is_zscore (m : Libm) (t : ZigTables) (f : Fmt) (d : Normal) (ws : Words) :
    Normal.sample m t f d ws = (stdNormal m t ws).map fun (z, ws') => (d.fromZscore f (narrow f z), ws') := rfl

/-! ### LogNormal -/

theorem lognormal_tryNew_ok_iff (f : Fmt) (mu sigma : Nat) :
    (∃ d, LogNormal.tryNew f mu sigma = .ok d) ↔ isFinite f sigma = true := normal_tryNew_ok_iff f mu sigma

/-- **`LogNormal::try_from_mean_cv`, the `cv == 0` case**: accepted iff `mean >= 0` (this includes the
documented `(0, 0)` case) and `ln(mean)`… is irrelevant: `sigma = 0` is finite; otherwise
`MeanTooSmall` (fix D4) -/
theorem lognormal_cv_zero (m : Libm) (f : Fmt) (mean cv : Nat) (hcv : eq f cv (c f 0) = true) :
    (ge f mean (c f 0) = true → ∃ d, LogNormal.tryFromMeanCv m f mean cv = .ok d ∨
        LogNormal.tryFromMeanCv m f mean cv = Normal.tryNew f (m.ln f mean) (c f 0)) ∧
    (¬ ge f mean (c f 0) = true → LogNormal.tryFromMeanCv m f mean cv = .error .MeanTooSmall) := by
  unfold LogNormal.tryFromMeanCv
  simp only [hcv, ↓reduceIte]
  constructor
  · intro h; simp only [h, not_true_eq_false, ↓reduceIte]; exact ⟨⟨0, 0⟩, Or.inr trivial⟩
  · intro h; simp [h]

/-- the literal zero is finite in both widths, so the `cv == 0` case with `mean >= 0` is accepted -/
theorem zero_finite : isFinite b64 (c b64 0) = true ∧ isFinite b32 (c b32 0) = true := by decide +kernel

/-- **the `cv ≠ 0` case**: `MeanTooSmall` unless `mean > 0`, then `BadVariance` unless `cv >= 0`;
otherwise the result is `Normal::try_new(mu, sigma)` of the derived parameters (so `BadVariance` iff
the derived `sigma` is not finite) -/
theorem lognormal_cv_nonzero (m : Libm) (f : Fmt) (mean cv : Nat) (hcv : eq f cv (c f 0) = false) :
    (¬ gt f mean (c f 0) = true → LogNormal.tryFromMeanCv m f mean cv = .error .MeanTooSmall) ∧
    (gt f mean (c f 0) = true → ¬ ge f cv (c f 0) = true → LogNormal.tryFromMeanCv m f mean cv = .error .BadVariance) ∧
    (gt f mean (c f 0) = true → ge f cv (c f 0) = true →
      LogNormal.tryFromMeanCv m f mean cv =
        Normal.tryNew f (mul f (half f) (m.ln f (div f (mul f mean mean) (add f (c f 1) (mul f cv cv)))))
          (sqrt f (m.ln f (add f (c f 1) (mul f cv cv))))) := by
  unfold LogNormal.tryFromMeanCv
  simp only [hcv, Bool.false_eq_true, ↓reduceIte]
  refine ⟨?_, ?_, ?_⟩
  · intro h; simp [h]
  · intro h1 h2; simp [h1, h2]
  · intro h1 h2; simp [h1, h2]

/-- **`LogNormal` samples are exactly `exp` of the z-score transform** of the standard-normal sample
drawn from the same stream -/
theorem lognormal_sample_is_exp_zscore (m : Libm) (t : ZigTables) (f : Fmt) (d : Normal) (ws : Words) :
    LogNormal.sample m t f d ws =
      (stdNormal m t ws).map fun (z, ws') => (m.exp f (d.fromZscore f (narrow f z)), ws') := by
  unfold LogNormal.sample Normal.sample
  cases stdNormal m t ws with
  | none => rfl
  | some r => rfl

/-! ### NaN-freedom on the level of exact values

A product, sum or fused multiply-add is NaN only from the listed operand combinations; rounding
(`round`) never creates or removes a NaN and never changes the sign.  Sample validity (no NaN, signs)
for accepted parameters follows from these for the *exact* operations; the transfer through
`decode ∘ toBits` and the numeric bounds `|z| < 17`, `x < 54` (which depend on libm) are
`samples_valid_partial`: checked by the oracle of the correspondence on every sample, not proved. -/

theorem mulE_isNaN_iff (a b : Val) :
    (a.mulE b).isNaN = true ↔ a.isNaN = true ∨ b.isNaN = true ∨ (a.isInf = true ∧ b.isZero = true) ∨ (a.isZero = true ∧ b.isInf = true) := by
  rcases a with _ | s | ⟨s, _ | m, e⟩ <;> rcases b with _ | t | ⟨t, _ | n, g⟩ <;>
    simp [Val.mulE, Val.isNaN, Val.isInf, Val.isZero]

theorem ite_fin_not_nan (c : Prop) [Decidable c] (s1 : Bool) (m1 : ℕ) (e1 : ℤ) (s2 : Bool) (m2 : ℕ) (e2 : ℤ) :
    (if c then Val.fin s1 m1 e1 else Val.fin s2 m2 e2).isNaN = false := by
  split <;> rfl

theorem addFin_not_nan (s : Bool) (m : ℕ) (e : ℤ) (t : Bool) (n : ℕ) (g : ℤ) : (Val.addFin s m e t n g).isNaN = false := by
  unfold Val.addFin
  exact ite_fin_not_nan _ _ _ _ _ _ _

theorem addE_isNaN_iff (a b : Val) :
    (a.addE b).isNaN = true ↔ a.isNaN = true ∨ b.isNaN = true ∨ (a.isInf = true ∧ b.isInf = true ∧ a.sign ≠ b.sign) := by
  rcases a with _ | s | ⟨s, m, e⟩ <;> rcases b with _ | t | ⟨t, n, g⟩
  · simp [Val.addE, Val.isNaN]
  · simp [Val.addE, Val.isNaN]
  · simp [Val.addE, Val.isNaN]
  · simp [Val.addE, Val.isNaN]
  · simp only [Val.addE, Val.isNaN, Val.isInf, Val.sign]
    by_cases h : s = t <;> simp [h]
  · simp [Val.addE, Val.isNaN, Val.isInf]
  · simp [Val.addE, Val.isNaN]
  · simp [Val.addE, Val.isNaN, Val.isInf]
  · simp only [Val.addE, addFin_not_nan]
    simp [Val.isNaN, Val.isInf]

theorem round_isNaN (f : Fmt) (v : Val) (st : Bool) : (round f v st).isNaN = v.isNaN := by
  cases v with
  | nan => rfl
  | inf s => rfl
  | fin s m e =>
    simp only [round]
    split
    · rfl
    · simp only [finish]; split <;> rfl

theorem round_sign (f : Fmt) (v : Val) (st : Bool) : (round f v st).sign = v.sign := by
  cases v with
  | nan => rfl
  | inf s => rfl
  | fin s m e =>
    simp only [round]
    split
    · rfl
    · simp only [finish]; split <;> rfl

/-- the sign of a non-NaN product is the xor of the signs: an exponential variate (`≥ 0`) times a
non-negative `1/|λ|` is never negative -/
theorem mulE_sign (a b : Val) (h : (a.mulE b).isNaN = false) : (a.mulE b).sign = (a.sign != b.sign) := by
  rcases a with _ | s | ⟨s, _ | m, e⟩ <;> rcases b with _ | t | ⟨t, _ | n, g⟩ <;>
    simp_all [Val.mulE, Val.isNaN, Val.sign]

end Urandom.C15

/-! ### bit-level sample validity (transfer through `decode ∘ encode = round`)

`Lemmas/IEEERoundTrip` proves that the bit pattern an operation returns decodes to the rounded exact
value.  With `round_isNaN` / `round_sign` the class and sign statements above become statements about
the bit patterns the model (and, by the correspondence, the implementation) returns.  What remains
assumed is exactly what depends on libm and on the ziggurat's numeric range: that the standard
samples are finite (and the unit exponential positive), and that `exp` maps non-NaN to non-NaN,
non-negative results. -/
namespace Urandom.C15
open Urandom Urandom.IEEE Urandom.FD

theorem decode_encode_isNaN (f : Fmt) (hf : f.WF) (v : Val) (st : Bool) :
    (decode f (encode f v st)).isNaN = v.isNaN := by
  rw [decode_encode f hf, round_isNaN]

theorem decode_encode_sign (f : Fmt) (hf : f.WF) (v : Val) (st : Bool) :
    (decode f (encode f v st)).sign = v.sign := by
  rw [decode_encode f hf, round_sign]

/-- `x.abs()` on bit patterns is `abs` on values -/
theorem decode_abs (f : Fmt) (a : ℕ) : decode f (IEEE.abs f a) = (decode f a).abs := by
  have h1 : (a % 2 ^ (f.eb + f.mb)).testBit (f.eb + f.mb) = false := by
    rw [Nat.testBit_mod_two_pow]; simp
  have h2 : ((a % 2 ^ (f.eb + f.mb)) >>> f.mb) % 2 ^ f.eb = (a >>> f.mb) % 2 ^ f.eb := by
    rw [Nat.shiftRight_eq_div_pow, Nat.shiftRight_eq_div_pow, Nat.add_comm f.eb f.mb, pow_add,
      Nat.mod_mul_right_div_self, Nat.mod_mod]
  have h3 : (a % 2 ^ (f.eb + f.mb)) % 2 ^ f.mb = a % 2 ^ f.mb :=
    Nat.mod_mod_of_dvd _ (pow_dvd_pow 2 (Nat.le_add_left _ _))
  unfold IEEE.abs
  rw [decode_eq, decode_eq, h1, h2, h3]
  split
  · split <;> rfl
  · split <;> rfl

theorem le_nan_right (a : Val) : a.le .nan = false := by
  cases a <;> simp [Val.le, Val.lt, Val.eq]

/-- the decoded literal one: a positive finite value, in both widths -/
theorem decode_one : (decode b64 (c b64 1) = .fin false (2 ^ 52) (-52)) ∧ (decode b32 (c b32 1) = .fin false (2 ^ 23) (-23)) := by
  decide +kernel

/-- **the stored `1/|λ|` of an accepted `Exp` is neither NaN nor negative - as a bit pattern** -/
theorem exp_lambdaInv_valid (f : Fmt) (hf : f.WF) (m1 : ℕ) (e1 : ℤ) (h1 : decode f (c f 1) = .fin false m1 e1) (hm1 : m1 ≠ 0)
    (lambda li : ℕ) (h : Exp.tryNew f lambda = .ok li) :
    (decode f li).isNaN = false ∧ (decode f li).sign = false := by
  unfold Exp.tryNew at h
  split at h
  · cases h
  · rename_i hge
    simp only [Except.ok.injEq] at h
    subst h
    simp only [Decidable.not_not] at hge
    -- the accepted rate is not NaN
    have hn : (decode f lambda).isNaN = false := by
      unfold ge le at hge
      cases hl : decode f lambda with
      | nan => rw [hl, le_nan_right] at hge; cases hge
      | inf s => rfl
      | fin s m e => rfl
    have habs_n : ((decode f lambda).abs).isNaN = false := by
      cases hl : decode f lambda <;> simp_all [Val.abs, Val.isNaN]
    have habs_s : ((decode f lambda).abs).sign = false := by
      cases hl : decode f lambda <;> simp [Val.abs, Val.sign]
    unfold div
    simp only []
    rw [decode_encode_isNaN f hf, decode_encode_sign f hf, h1, decode_abs]
    -- the quotient 1 / |λ|: never NaN (the dividend is not zero), never negative
    generalize (decode f lambda).abs = v at habs_n habs_s
    cases v with
    | nan => simp [Val.isNaN] at habs_n
    | inf s => simp only [Val.sign] at habs_s; subst habs_s; simp [divV, Val.isNaN, Val.sign]
    | fin s n g =>
      simp only [Val.sign] at habs_s; subst habs_s
      simp only [divV]
      split
      · simp [hm1, Val.isNaN, Val.sign]
      · simp [hm1, Val.isNaN, Val.sign]

/-- **an `Exp` sample is never NaN and never negative - as a bit pattern** - whenever the unit
exponential variate it scales is finite and positive (`0 < x < 54`: the ziggurat's range, which
depends on libm's `ln`) -/
theorem exp_sample_valid_bits (f : Fmt) (hf : f.WF) (x li : ℕ)
    (hx : ∃ m e, decode f x = .fin false m e ∧ m ≠ 0)
    (hli : (decode f li).isNaN = false ∧ (decode f li).sign = false) :
    isNaN f (mul f x li) = false ∧ (decode f (mul f x li)).sign = false := by
  obtain ⟨m, e, hxd, hm⟩ := hx
  obtain ⟨hn, hs⟩ := hli
  unfold isNaN mul
  rw [decode_encode_isNaN f hf, decode_encode_sign f hf, hxd]
  cases hl : decode f li with
  | nan => rw [hl] at hn; simp [Val.isNaN] at hn
  | inf s => rw [hl] at hs; simp only [Val.sign] at hs; subst hs; simp [Val.mulE, hm, Val.isNaN, Val.sign]
  | fin s n g => rw [hl] at hs; simp only [Val.sign] at hs; subst hs; simp [Val.mulE, Val.isNaN, Val.sign]

/-- **a `Normal` sample is never NaN - as a bit pattern** - for an accepted distribution (finite
standard deviation) with a non-NaN mean, whenever the standard normal variate is finite -/
theorem normal_sample_not_nan_bits (f : Fmt) (hf : f.WF) (d : Normal) (z : ℕ)
    (hsd : isFinite f d.stdDev = true) (hz : isFinite f z = true) (hm : isNaN f d.mean = false) :
    isNaN f (d.fromZscore f z) = false := by
  unfold Normal.fromZscore fma isNaN
  rw [decode_encode_isNaN f hf]
  unfold isFinite at hsd hz
  unfold isNaN at hm
  cases hs : decode f d.stdDev with
  | nan => rw [hs] at hsd; simp [Val.isFinite] at hsd
  | inf s => rw [hs] at hsd; simp [Val.isFinite] at hsd
  | fin s a e =>
    cases hzz : decode f z with
    | nan => rw [hzz] at hz; simp [Val.isFinite] at hz
    | inf s => rw [hzz] at hz; simp [Val.isFinite] at hz
    | fin t b g =>
      cases hmm : decode f d.mean with
      | nan => rw [hmm] at hm; simp [Val.isNaN] at hm
      | inf u => simp [Val.mulE, Val.addE, Val.isNaN]
      | fin u c h => simp only [Val.mulE, Val.addE]; exact addFin_not_nan _ _ _ _ _ _

/-- **a `LogNormal` sample is never NaN and never negative - as a bit pattern** - under the same
conditions, given that libm's `exp` maps a non-NaN argument to a non-NaN, non-negative result
(the assumption about libm is explicit) -/
theorem lognormal_sample_valid_bits (m : Libm) (f : Fmt) (hf : f.WF) (d : Normal) (z : ℕ)
    (hexp : ∀ x, isNaN f x = false → isNaN f (m.exp f x) = false ∧ (decode f (m.exp f x)).sign = false)
    (hsd : isFinite f d.stdDev = true) (hz : isFinite f z = true) (hm : isNaN f d.mean = false) :
    isNaN f (LogNormal.fromZscore m f d z) = false ∧ (decode f (LogNormal.fromZscore m f d z)).sign = false :=
  hexp _ (normal_sample_not_nan_bits f hf d z hsd hz hm)

/-- non-vacuity: `Exp(2.5)` is accepted, its stored inverse rate is `0.4` -/
example : Exp.tryNew b64 0x4004000000000000 = .ok 0x3FD999999999999A := by decide +kernel

end Urandom.C15
