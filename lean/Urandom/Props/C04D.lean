import Urandom.Model.UniformInt
import Urandom.Generated.ScalarDice
/-!
# C04 for `Dice` as translated from the source

`tools/extract_scalar.py` checks the shape of src/distr/dice.rs - `Dice` wraps a `UniformInt<u8>`, `Dice::new(n)` is
`UniformInt::try_new_inclusive(<lo>, <hi>).unwrap()`, every constant is `UniformInt::constant(<base>, <range>)`, `sample` is
`self.0.sample(rand) as i32` - and extracts the arguments.  They are the model's: the inclusive range `1..=n`, and for the constant `Dk` the
stored pair (1, k), which is what `try_new_inclusive(1, k)` stores.
-/
namespace Urandom.C04
open Urandom Urandom.Generated

theorem dice_translated :
    (∀ n : BitVec 8, Dice.new n.toNat = UniformInt.tryNew IntTy.u8 (Scalar.dice.new_args n).1.toNat (Scalar.dice.new_args n).2.toNat true) ∧
    Scalar.dice.consts = [("D4", 1, 4), ("D6", 1, 6), ("D8", 1, 8), ("D10", 1, 10), ("D20", 1, 20)] ∧
    (∀ c ∈ Scalar.dice.consts, Dice.new c.2.2 = .ok (Dice.const c.2.2) ∧ Dice.const c.2.2 = ⟨c.2.1, c.2.2⟩) := by
  refine ⟨fun n => rfl, rfl, ?_⟩
  intro c hc
  simp only [Scalar.dice.consts, List.mem_cons, List.not_mem_nil, or_false] at hc
  rcases hc with rfl | rfl | rfl | rfl | rfl <;> exact ⟨rfl, rfl⟩

end Urandom.C04
