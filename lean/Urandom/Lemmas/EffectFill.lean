import Urandom.Lemmas.Fill
import Urandom.Generated.EffectFill
/-!
Lemmas for `Props/C10T.lean`: the `while len >= 8` loop of the translated `rng_fill_bytes` in closed form, the same for the model's
recursion, and the byte-level reading of a `PtrWrite` record.
-/
namespace Urandom.C10
open Urandom Urandom.Generated

variable {σ : Type}

/-- the store a record stands for: the first `n` little-endian bytes of its value at its offset -/
def toWrite (p : PtrWrite) : Write := ⟨p.off.toNat, leBytes p.value p.n⟩

/-- the records of `k` rounds of the loop -/
def loopW (g : WordGen σ) : Nat → BitVec 64 → σ → List PtrWrite
  | 0, _, _ => []
  | k+1, ptr, s => ⟨ptr, 8, 64, (g.u64 s).1⟩ :: loopW g k (ptr + 8#64) (g.u64 s).2

/-- the model's stores of `k` rounds -/
def loopM (g : WordGen σ) : Nat → Nat → σ → List Write
  | 0, _, _ => []
  | k+1, off, s => ⟨off, leBytes (g.u64 s).1 8⟩ :: loopM g k (off + 8) (g.u64 s).2

theorem after_succ' (g : WordGen σ) (k : Nat) (s : σ) : g.after (k + 1) s = g.after k (g.u64 s).2 := rfl

theorem while1_closed (g : WordGen σ) : ∀ (fuel : Nat) (ptr len : BitVec 64) (s : σ) (log : List PtrWrite) (d : Bool),
    len.toNat / 8 < fuel →
    Effect.rng_fill_bytes_while1 g.u64 fuel (ptr, len, s, log, d) =
      (ptr + BitVec.ofNat 64 (8 * (len.toNat / 8)), BitVec.ofNat 64 (len.toNat % 8), g.after (len.toNat / 8) s,
        log ++ loopW g (len.toNat / 8) ptr s, d) := by
  intro fuel
  induction fuel with
  | zero => intro _ _ _ _ _ h; omega
  | succ fuel ih =>
    intro ptr len s log d h
    rw [Effect.rng_fill_bytes_while1]
    by_cases hc : len ≥ 8#64
    · have h8 : 8 ≤ len.toNat := by simpa [BitVec.le_def] using hc
      have hsub : (len - 8#64).toNat = len.toNat - 8 := by
        rw [BitVec.toNat_sub_of_le hc]; rfl
      have hq : (len.toNat - 8) / 8 = len.toNat / 8 - 1 := by omega
      have hr : (len.toNat - 8) % 8 = len.toNat % 8 := by omega
      simp only [hc, if_true]
      rw [ih _ _ _ _ _ (by rw [hsub]; omega), hsub, hq, hr]
      obtain ⟨k, hk⟩ : ∃ k, len.toNat / 8 = k + 1 := ⟨len.toNat / 8 - 1, by omega⟩
      rw [hk]
      simp only [Nat.add_sub_cancel, loopW, after_succ', List.append_assoc, List.singleton_append]
      congr 1
      apply BitVec.eq_of_toNat_eq
      simp only [BitVec.toNat_add, BitVec.toNat_ofNat]
      omega
    · have h8 : len.toNat < 8 := by
        have : ¬ (8 ≤ len.toNat) := by simpa [BitVec.le_def] using hc
        omega
      have hq : len.toNat / 8 = 0 := by omega
      have hr : len.toNat % 8 = len.toNat := by omega
      simp only [hc, if_false, hq, hr, loopW, List.append_nil, WordGen.after, Nat.mul_zero]
      congr 1
      · simp
      · congr 1
        simp

/-- the model's recursion in the same closed form -/
theorem model_closed (g : WordGen σ) : ∀ (k : Nat) (s : σ) (off len : Nat), len / 8 = k →
    rngFillWrites g s off len =
      (loopM g k off s ++ (if len % 8 > 0 then fillTail (g.u64 (g.after k s)).1 (off + 8 * k) (len % 8) else []),
       if len % 8 > 0 then (g.u64 (g.after k s)).2 else g.after k s) := by
  intro k
  induction k with
  | zero =>
    intro s off len h
    have h8 : ¬ len ≥ 8 := by omega
    have hr : len % 8 = len := by omega
    rw [rngFillWrites]
    simp only [h8, dite_false, hr, loopM, List.nil_append, WordGen.after, Nat.mul_zero, Nat.add_zero]
    by_cases h0 : len > 0 <;> simp [h0]
  | succ k ih =>
    intro s off len h
    have h8 : len ≥ 8 := by omega
    rw [rngFillWrites]
    simp only [h8, dite_true]
    rw [ih (g.u64 s).2 (off + 8) (len - 8) (by omega)]
    have hr : (len - 8) % 8 = len % 8 := by omega
    simp only [hr, loopM, after_succ', List.cons_append]
    have ho : off + 8 + 8 * k = off + 8 * (k + 1) := by omega
    rw [ho]

/-- the records of the loop are the model's stores while the pointer does not wrap -/
theorem loopW_toWrite (g : WordGen σ) : ∀ (k : Nat) (ptr : BitVec 64) (s : σ), ptr.toNat + 8 * k < 2 ^ 64 →
    (loopW g k ptr s).map toWrite = loopM g k ptr.toNat s := by
  intro k
  induction k with
  | zero => intro _ _ _; rfl
  | succ k ih =>
    intro ptr s h
    have hp : (ptr + 8#64).toNat = ptr.toNat + 8 := by
      simp only [BitVec.toNat_add, BitVec.toNat_ofNat]; omega
    simp only [loopW, loopM, List.map_cons, toWrite]
    rw [ih _ _ (by rw [hp]; omega), hp]

/-- storing the little-endian bytes of `value as uW` (W = 8 n' bits, n ≤ n' bytes kept) stores the low bytes of `value` -/
theorem leBytes_trunc (v : BitVec 64) (w n : Nat) (hw : 8 * n ≤ w) (h64 : w ≤ 64) :
    leBytes ((v.setWidth w).setWidth 64) n = leBytes v n := by
  unfold leBytes
  apply List.map_congr_left
  intro i hi
  have hi' : i < n := by simpa using hi
  apply BitVec.eq_of_getLsbD_eq
  intro j hj
  simp only [BitVec.getLsbD_setWidth, BitVec.getLsbD_ushiftRight]
  have h1 : 8 * i + j < w := by omega
  have h2 : 8 * i + j < 64 := by omega
  simp [hj, h1, h2]

end Urandom.C10
