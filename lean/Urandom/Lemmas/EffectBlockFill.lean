import Urandom.Model.Block
import Urandom.Generated.EffectBlockFill
/-!
Lemmas for the translated `BlockRngImpl::fill_bytes` (`Props/C03T.lean`): the `while` loop in closed form, its events run on a model state,
the `loop` of the remainder (at most two rounds) in closed form.
-/
namespace Urandom.C03
open Urandom Urandom.Block Urandom.Generated

variable {κ β : Type}

/-- the state the events of a fill act on: the core, the block (`self.random`), the temporary block, the elements written to the destination
so far, and whether every copy so far went to the offset where the previous one ended (starting at 0) -/
structure FillSt (κ β : Type) where
  core : κ
  buf : Nat → β
  tmp : Nat → β
  out : List β
  contig : Bool

def stepFill (C : Core κ β) (st : FillSt κ β) : FillEv → FillSt κ β
  | .genTmp => { st with tmp := (C.gen st.core).1, core := (C.gen st.core).2 }
  | .genRandom => { st with buf := (C.gen st.core).1, core := (C.gen st.core).2 }
  | .copyTmp dst n => { st with out := st.out ++ take st.tmp 0 n.toNat, contig := st.contig && decide (dst.toNat = st.out.length) }
  | .copyRandom src dst n => { st with out := st.out ++ take st.buf src.toNat n.toNat, contig := st.contig && decide (dst.toNat = st.out.length) }

def runFill (C : Core κ β) (st : FillSt κ β) (evs : List FillEv) : FillSt κ β := evs.foldl (stepFill C) st

theorem runFill_append (C : Core κ β) (st : FillSt κ β) (a b : List FillEv) : runFill C st (a ++ b) = runFill C (runFill C st a) b := by
  simp [runFill, List.foldl_append]

/-- the events of `k` rounds of the `while` loop -/
def wlog : Nat → BitVec 64 → List FillEv
  | 0, _ => []
  | k+1, off => .genTmp :: .copyTmp off 256#64 :: wlog k (off + 256#64)

theorem while1_closed : ∀ (fuel : Nat) (off len : BitVec 64) (log : List FillEv) (oob d : Bool),
    len.toNat / 256 < fuel →
    Effect.block.fill_bytes_while1 256#64 fuel (off, len, log, oob, d) =
      (off + BitVec.ofNat 64 (256 * (len.toNat / 256)), BitVec.ofNat 64 (len.toNat % 256), log ++ wlog (len.toNat / 256) off, oob, d) := by
  intro fuel
  induction fuel with
  | zero => intro _ _ _ _ _ h; omega
  | succ fuel ih =>
    intro off len log oob d h
    rw [Effect.block.fill_bytes_while1]
    by_cases hc : len ≥ 256#64
    · have h8 : 256 ≤ len.toNat := by simpa [BitVec.le_def] using hc
      have hsub : (len - 256#64).toNat = len.toNat - 256 := by
        rw [BitVec.toNat_sub_of_le hc]; rfl
      have hq : (len.toNat - 256) / 256 = len.toNat / 256 - 1 := by omega
      have hr : (len.toNat - 256) % 256 = len.toNat % 256 := by omega
      have hno : ¬ (256#64 > len) := by
        rw [gt_iff_lt, BitVec.lt_def]; simp; omega
      simp only [hc, if_true, hno, decide_false, Bool.or_false]
      rw [ih _ _ _ _ _ (by rw [hsub]; omega), hsub, hq, hr]
      obtain ⟨k, hk⟩ : ∃ k, len.toNat / 256 = k + 1 := ⟨len.toNat / 256 - 1, by omega⟩
      rw [hk]
      have e : off + 256#64 + BitVec.ofNat 64 (256 * k) = off + BitVec.ofNat 64 (256 * (k + 1)) := by
        apply BitVec.eq_of_toNat_eq
        simp only [BitVec.toNat_add, BitVec.toNat_ofNat]
        omega
      simp only [Nat.add_sub_cancel, wlog, List.append_assoc, List.cons_append, List.nil_append, e]
    · have h8 : len.toNat < 256 := by
        have : ¬ (256 ≤ len.toNat) := by simpa [BitVec.le_def] using hc
        omega
      have hq : len.toNat / 256 = 0 := by omega
      have hr : len.toNat % 256 = len.toNat := by omega
      have e1 : off + BitVec.ofNat 64 0 = off := by simp
      have e2 : BitVec.ofNat 64 len.toNat = len := by simp
      simp only [hc, if_false, hq, hr, wlog, List.append_nil, Nat.mul_zero, e1, e2]

theorem direct_length (C : Core κ β) : ∀ (k : Nat) (c : κ), (direct C k c).1.length = 256 * k := by
  intro k
  induction k with
  | zero => intro c; simp [direct]
  | succ k ih => intro c; simp [direct, ih, take]; omega

/-- the events of the `while` loop run on a model state: `direct` -/
theorem runFill_wlog (C : Core κ β) : ∀ (k : Nat) (off : BitVec 64) (st : FillSt κ β),
    st.contig = true → off.toNat = st.out.length → off.toNat + 256 * k < 2 ^ 64 →
    ∃ tmp', runFill C st (wlog k off) = ⟨(direct C k st.core).2, st.buf, tmp', st.out ++ (direct C k st.core).1, true⟩ := by
  intro k
  induction k with
  | zero =>
    intro off st hc _ _
    refine ⟨st.tmp, ?_⟩
    cases st
    simp_all [wlog, runFill, direct]
  | succ k ih =>
    intro off st hc ho hw
    have hp : (off + 256#64).toNat = off.toNat + 256 := by
      simp only [BitVec.toNat_add, BitVec.toNat_ofNat]; omega
    have h256 : (256#64).toNat = 256 := rfl
    obtain ⟨tmp', ht⟩ := ih (off + 256#64)
      { core := (C.gen st.core).2, buf := st.buf, tmp := (C.gen st.core).1,
        out := st.out ++ take (C.gen st.core).1 0 256, contig := st.contig && decide (off.toNat = st.out.length) }
      (by simp [hc, ho]) (by simp [hp, ho, take]) (by rw [hp]; omega)
    refine ⟨tmp', ?_⟩
    simp only [wlog, runFill, List.foldl_cons, stepFill, h256] at ht ⊢
    rw [ht]
    simp [direct]

/-- `start = usize::min(self.index as usize, random.len())` -/
def startOf (idx : BitVec 32) : BitVec 64 := if idx.setWidth 64 ≤ 256#64 then idx.setWidth 64 else 256#64

theorem startOf_def (idx : BitVec 32) : (if idx.setWidth 64 ≤ 256#64 then idx.setWidth 64 else 256#64) = startOf idx := rfl

theorem startOf_toNat (idx : BitVec 32) : (startOf idx).toNat = min idx.toNat 256 := by
  unfold startOf
  have h : (idx.setWidth 64).toNat = idx.toNat := by
    simp only [BitVec.toNat_setWidth]; have := idx.isLt; omega
  by_cases hc : idx.setWidth 64 ≤ 256#64
  · have : idx.toNat ≤ 256 := by rw [BitVec.le_def, h] at hc; exact hc
    simp only [hc, if_true, h]; omega
  · have : ¬ idx.toNat ≤ 256 := by rw [BitVec.le_def, h] at hc; exact hc
    simp only [hc, if_false]
    have : (256#64).toNat = 256 := rfl
    omega

/-- the remainder fits into what is left of the block: one round -/
theorem loop1_fits (fuel : Nat) (idx : BitVec 32) (off rem : BitVec 64) (log : List FillEv) (oob d : Bool)
    (h0 : 0 < rem.toNat) (hA : rem.toNat ≤ 256 - min idx.toNat 256) :
    Effect.block.fill_bytes_loop1 256#64 (fuel + 1) (idx, off, rem, log, oob, d, false) =
      (idx + rem.setWidth 32, off + rem, 0#64, log ++ [.copyRandom (0#64 + startOf idx) off rem], oob, d, true) := by
  have hs0 := startOf_toNat idx
  rw [Effect.block.fill_bytes_loop1]
  unfold startOf at *
  generalize (if idx.setWidth 64 ≤ 256#64 then idx.setWidth 64 else 256#64) = st at *
  have h256 : (256#64).toNat = 256 := rfl
  have hsl : (256#64 - st).toNat = 256 - min idx.toNat 256 := by
    rw [BitVec.toNat_sub_of_le (by rw [BitVec.le_def, hs0, h256]; omega), hs0, h256]
  generalize hsrc : 256#64 - st = srclen at *
  have hlen : (if srclen ≤ rem then srclen else rem) = rem := by
    split
    · rename_i hle
      apply BitVec.eq_of_toNat_eq
      rw [BitVec.le_def, hsl] at hle
      rw [hsl]; omega
    · rfl
  have n1 : ¬ (st > 256#64) := by rw [gt_iff_lt, BitVec.lt_def, hs0, h256]; omega
  have n2 : ¬ (rem > srclen) := by rw [gt_iff_lt, BitVec.lt_def, hsl]; omega
  have n3 : ¬ (rem > rem) := by rw [gt_iff_lt, BitVec.lt_def]; omega
  have n4 : ¬ (rem - rem > 0#64) := by simp
  have n5 : ¬ (0#64 > 0#64) := by decide
  simp only [hlen, n1, n2, n3, n5, decide_false, Bool.or_false, if_false, if_true, BitVec.sub_self]

/-- the remainder is longer than what is left of the block: what is left, a refill, the rest from the start of the fresh block -/
theorem loop1_spills (fuel : Nat) (idx : BitVec 32) (off rem : BitVec 64) (log : List FillEv) (oob d : Bool)
    (h256 : rem.toNat < 256) (hB : 256 - min idx.toNat 256 < rem.toNat) :
    Effect.block.fill_bytes_loop1 256#64 (fuel + 2) (idx, off, rem, log, oob, d, false) =
      (0#32 + (rem - (256#64 - startOf idx)).setWidth 32, off + (256#64 - startOf idx) + (rem - (256#64 - startOf idx)), 0#64,
        log ++ [.copyRandom (0#64 + startOf idx) off (256#64 - startOf idx)] ++ [.genRandom] ++
          [.copyRandom (0#64 + startOf 0#32) (off + (256#64 - startOf idx)) (rem - (256#64 - startOf idx))], oob, d, true) := by
  have hs0 := startOf_toNat idx
  rw [Effect.block.fill_bytes_loop1]
  unfold startOf at hs0 ⊢
  generalize (if idx.setWidth 64 ≤ 256#64 then idx.setWidth 64 else 256#64) = st at *
  have h256' : (256#64).toNat = 256 := rfl
  have hsl : (256#64 - st).toNat = 256 - min idx.toNat 256 := by
    rw [BitVec.toNat_sub_of_le (by rw [BitVec.le_def, hs0, h256']; omega), hs0, h256']
  generalize hsrc : 256#64 - st = srclen at *
  have hle : srclen ≤ rem := by rw [BitVec.le_def, hsl]; omega
  have hlen : (if srclen ≤ rem then srclen else rem) = srclen := by simp only [hle, if_true]
  have n1 : ¬ (st > 256#64) := by rw [gt_iff_lt, BitVec.lt_def, hs0, h256']; omega
  have n2 : ¬ (srclen > srclen) := by rw [gt_iff_lt, BitVec.lt_def]; omega
  have n3 : ¬ (srclen > rem) := by rw [gt_iff_lt, BitVec.lt_def, hsl]; omega
  have hrem : (rem - srclen).toNat = rem.toNat - (256 - min idx.toNat 256) := by
    rw [BitVec.toNat_sub_of_le hle, hsl]
  have p1 : rem - srclen > 0#64 := by rw [gt_iff_lt, BitVec.lt_def, hrem]; simp; omega
  simp only [hlen, n1, n2, n3, p1, decide_false, Bool.or_false, if_true]
  have := loop1_fits fuel 0#32 (off + srclen) (rem - srclen) (log ++ [.copyRandom (0#64 + st) off srclen] ++ [.genRandom]) oob d
    (by rw [hrem]; omega) (by rw [hrem]; simp; omega)
  simp only [Bool.false_eq_true, if_false]
  rw [this]
  rfl

end Urandom.C03
