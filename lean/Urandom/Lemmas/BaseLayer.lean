import Mathlib.MeasureTheory.Measure.Lebesgue.Basic
import Mathlib.MeasureTheory.Measure.WithDensity
import Mathlib.MeasureTheory.Measure.Haar.OfBasis
import Urandom.Lemmas.TailLaw
/-
The base layer of the ziggurat (`i == 0`), idealised: `x = u * X[0]`; `x < R` returns `x`, otherwise the tail sampler
runs.  If the table satisfies the tail relation `(X[0] - R) f(R) = ∫_R^∞ f`, the result is the `x`-marginal of a uniform
point of the base layer (rectangle + region under the curve beyond `R`) - the hypothesis `ziggurat_law` makes about
layer 0.  For the exponential table the relation is `X[0] = R + 1` (proved on the translated table in C16).
-/

open MeasureTheory Set Real
open scoped ENNReal NNReal

namespace Urandom.BaseLayer

open Urandom.TailLaw (unif)

/-- `x = u * x0` for a uniform `u` is uniform on `(0, x0)` -/
theorem scaled_uniform {x0 : ℝ} (hx0 : 0 < x0) :
    Measure.map (fun u => u * x0) unif = (ENNReal.ofReal x0)⁻¹ • (volume : Measure ℝ).restrict (Ioo 0 x0) := by
  have hm : Measurable (fun u : ℝ => u * x0) := measurable_id.mul_const x0
  have hpre : (fun u : ℝ => u * x0) ⁻¹' Ioo 0 x0 = Ioo 0 1 := by
    ext u
    simp only [mem_preimage, mem_Ioo]
    constructor
    · rintro ⟨h1, h2⟩
      exact ⟨by nlinarith, by nlinarith⟩
    · rintro ⟨h1, h2⟩
      exact ⟨by positivity, by nlinarith⟩
  unfold TailLaw.unif
  rw [← hpre, ← Measure.restrict_map hm measurableSet_Ioo, Real.map_volume_mul_right hx0.ne', Measure.restrict_smul]
  congr 1
  rw [abs_of_pos (inv_pos.mpr hx0), ENNReal.ofReal_inv_of_pos hx0]


/-- unnormalised tail: density `f` on `[R, ∞)` -/
noncomputable def tail (f : ℝ → ℝ) (R : ℝ) : Measure ℝ :=
  ((volume : Measure ℝ).restrict (Ici R)).withDensity (fun t => ENNReal.ofReal (f t))

/-- the height of the base layer over `x > 0`: the rectangle's `f R` up to `R`, the curve beyond -/
noncomputable def height (f : ℝ → ℝ) (R : ℝ) (x : ℝ) : ℝ := if x < R then f R else f x

/-- the `x`-marginal of Lebesgue measure on the base layer (rectangle `(0,R) x [0, f R)` plus the region under the curve beyond `R`) -/
noncomputable def baseMarginal (f : ℝ → ℝ) (R : ℝ) : Measure ℝ :=
  ((volume : Measure ℝ).restrict (Ioi 0)).withDensity (fun x => ENNReal.ofReal (height f R x))

theorem baseMarginal_split (f : ℝ → ℝ) (_hf : Measurable f) {R : ℝ} (hR : 0 < R) :
    baseMarginal f R = ENNReal.ofReal (f R) • (volume : Measure ℝ).restrict (Ioo 0 R) + tail f R := by
  have hsplit : Ioi (0 : ℝ) = Ioo 0 R ∪ Ici R := by
    ext x; simp only [mem_Ioi, mem_union, mem_Ioo, mem_Ici]
    constructor
    · intro h; by_cases hx : x < R
      · exact Or.inl ⟨h, hx⟩
      · exact Or.inr (not_lt.mp hx)
    · rintro (⟨h, _⟩ | h)
      · exact h
      · linarith
  have hdisj : Disjoint (Ioo 0 R) (Ici R) := by
    rw [Set.disjoint_left]; intro x hx hx2; exact absurd hx.2 (not_lt.mpr hx2)
  unfold baseMarginal tail
  rw [hsplit, Measure.restrict_union hdisj measurableSet_Ici, withDensity_add_measure]
  congr 1
  · -- on the rectangle the height is the constant `f R`
    have : ((volume : Measure ℝ).restrict (Ioo 0 R)).withDensity (fun x => ENNReal.ofReal (height f R x)) =
        ((volume : Measure ℝ).restrict (Ioo 0 R)).withDensity (fun _ => ENNReal.ofReal (f R)) := by
      apply withDensity_congr_ae
      filter_upwards [ae_restrict_mem measurableSet_Ioo] with x hx
      simp only [height, if_pos hx.2]
    rw [this, withDensity_const]
  · apply withDensity_congr_ae
    filter_upwards [ae_restrict_mem measurableSet_Ici] with x hx
    have hx' : R ≤ x := hx
    simp only [height, if_neg (not_lt.mpr hx')]

/-- **the base-layer branch of the ziggurat** (`i == 0`), idealised: `x = u * x0` with `u` uniform; if `x < R` return `x`, otherwise
return an independent sample of the tail law (density `f` beyond `R`, normalised). If the table satisfies the tail relation
`(x0 - R) * f R = ∫_{R}^{∞} f` (equivalently `x0 * f R` = area of the base layer), the result is the `x`-marginal of a uniform point
of the base layer. -/
theorem base_layer_law (f : ℝ → ℝ) (hf : Measurable f) {R x0 : ℝ} (hR : 0 < R) (hx0 : R < x0) (hfR : 0 < f R)
    (htail : tail f R univ = ENNReal.ofReal ((x0 - R) * f R)) :
    (Measure.map (fun u => u * x0) unif).restrict (Iio R) +
        (Measure.map (fun u => u * x0) unif) (Ici R) • ((tail f R univ)⁻¹ • tail f R) =
      (ENNReal.ofReal (x0 * f R))⁻¹ • baseMarginal f R := by
  have hx0pos : 0 < x0 := lt_trans hR hx0
  rw [scaled_uniform hx0pos, baseMarginal_split f hf hR]
  -- the rectangle part
  have h1 : ((ENNReal.ofReal x0)⁻¹ • (volume : Measure ℝ).restrict (Ioo 0 x0)).restrict (Iio R) =
      (ENNReal.ofReal x0)⁻¹ • (volume : Measure ℝ).restrict (Ioo 0 R) := by
    rw [Measure.restrict_smul, Measure.restrict_restrict measurableSet_Iio]
    congr 2
    ext x; simp only [mem_inter_iff, mem_Iio, mem_Ioo]
    constructor
    · rintro ⟨h1, h2, _⟩; exact ⟨h2, h1⟩
    · rintro ⟨h1, h2⟩; exact ⟨h2, h1, by linarith⟩
  -- the probability of the tail branch
  have h2 : ((ENNReal.ofReal x0)⁻¹ • (volume : Measure ℝ).restrict (Ioo 0 x0)) (Ici R) = (ENNReal.ofReal x0)⁻¹ * ENNReal.ofReal (x0 - R) := by
    rw [Measure.smul_apply, smul_eq_mul, Measure.restrict_apply measurableSet_Ici]
    congr 1
    have : Ici R ∩ Ioo 0 x0 = Ico R x0 := by
      ext x; simp only [mem_inter_iff, mem_Ici, mem_Ioo, mem_Ico]
      constructor
      · rintro ⟨h1, _, h3⟩; exact ⟨h1, h3⟩
      · rintro ⟨h1, h2⟩; exact ⟨h1, by linarith, h2⟩
    rw [this, Real.volume_Ico]
  rw [h1, h2, htail]
  have hx0ne : ENNReal.ofReal x0 ≠ 0 := by rw [Ne, ENNReal.ofReal_eq_zero, not_le]; exact hx0pos
  have hfRne : ENNReal.ofReal (f R) ≠ 0 := by rw [Ne, ENNReal.ofReal_eq_zero, not_le]; exact hfR
  have hdne : ENNReal.ofReal (x0 - R) ≠ 0 := by rw [Ne, ENNReal.ofReal_eq_zero, not_le]; linarith
  rw [smul_add, smul_smul, smul_smul]
  congr 1
  · congr 1
    rw [ENNReal.ofReal_mul hx0pos.le, ENNReal.mul_inv (Or.inl hx0ne) (Or.inl ENNReal.ofReal_ne_top), mul_assoc,
      ENNReal.inv_mul_cancel hfRne ENNReal.ofReal_ne_top, mul_one]
  · congr 1
    rw [ENNReal.ofReal_mul (by linarith : 0 ≤ x0 - R), ENNReal.ofReal_mul hx0pos.le,
      ENNReal.mul_inv (Or.inl hdne) (Or.inl ENNReal.ofReal_ne_top), ENNReal.mul_inv (Or.inl hx0ne) (Or.inl ENNReal.ofReal_ne_top)]
    rw [mul_assoc, ← mul_assoc (ENNReal.ofReal (x0 - R)), ENNReal.mul_inv_cancel hdne ENNReal.ofReal_ne_top, one_mul]


/-- the base layer as a plane region: above the axis, under `height`, over `x > 0` -/
def baseRegion (f : ℝ → ℝ) (R : ℝ) : Set (ℝ × ℝ) := regionBetween 0 (height f R) (Ioi 0)

theorem measurable_height (f : ℝ → ℝ) (hf : Measurable f) (R : ℝ) : Measurable (height f R) :=
  Measurable.ite measurableSet_Iio measurable_const hf

/-- `baseMarginal` IS the `x`-marginal of Lebesgue measure on the base layer -/
theorem map_fst_restrict_baseRegion (f : ℝ → ℝ) (hf : Measurable f) (R : ℝ) :
    Measure.map Prod.fst ((volume : Measure (ℝ × ℝ)).restrict (baseRegion f R)) = baseMarginal f R := by
  ext s hs
  unfold baseMarginal
  rw [Measure.map_apply measurable_fst hs, Measure.restrict_apply (measurable_fst hs), withDensity_apply _ hs,
    Measure.restrict_restrict hs]
  have h1 : Prod.fst ⁻¹' s ∩ baseRegion f R = regionBetween 0 (height f R) (s ∩ Ioi 0) := by
    ext p
    simp only [baseRegion, regionBetween, mem_inter_iff, mem_preimage, mem_ofPred_eq]
    tauto
  rw [h1, Measure.volume_eq_prod, volume_regionBetween_eq_lintegral' measurable_zero (measurable_height f hf R) (hs.inter measurableSet_Ioi)]
  simp


/-! ### the exponential table: `X[0] = R + 1` -/

theorem exp_tail_mass {R : ℝ} (hR : 0 ≤ R) : tail (fun x => exp (-x)) R univ = ENNReal.ofReal (exp (-R)) := by
  have h1 : (0 : ℝ) < 1 := one_pos
  have := TailLaw.expMeasure_Ici h1 hR
  rw [one_mul] at this
  rw [← this]
  unfold tail
  rw [withDensity_apply _ MeasurableSet.univ, Measure.restrict_univ, TailLaw.expMeasure_eq,
    withDensity_apply _ measurableSet_Ici]
  apply setLIntegral_congr_fun measurableSet_Ici
  intro x hx
  have hx0 : 0 ≤ x := le_trans hR hx
  rw [ProbabilityTheory.exponentialPDF_of_nonneg hx0]
  simp

/-- **the base layer of the exponential ziggurat**: with `X[0] = R + 1` the branch `i == 0` returns the abscissa of a uniform point of
the base layer -/
theorem exp_base_layer_law {R : ℝ} (hR : 0 < R) :
    (Measure.map (fun u => u * (R + 1)) unif).restrict (Iio R) +
        (Measure.map (fun u => u * (R + 1)) unif) (Ici R) •
          ((tail (fun x => exp (-x)) R univ)⁻¹ • tail (fun x => exp (-x)) R) =
      (ENNReal.ofReal ((R + 1) * exp (-R)))⁻¹ • Measure.map Prod.fst ((volume : Measure (ℝ × ℝ)).restrict (baseRegion (fun x => exp (-x)) R)) := by
  have hm : Measurable (fun x : ℝ => exp (-x)) := measurable_neg.exp
  rw [map_fst_restrict_baseRegion _ hm]
  apply base_layer_law _ hm hR (by linarith) (exp_pos _)
  rw [exp_tail_mass hR.le]
  congr 1
  ring

end Urandom.BaseLayer
