import Urandom.Lemmas.XoshiroLinear
namespace Urandom.XoLin
open Urandom.Spec (iter)
open Urandom.GF2 Urandom.GF2.XSpace
open Urandom.Xoshiro
set_option exponentiation.threshold 300
/-- the period 2^256 - 1 as a core-Lean constant (so that proof files importing Mathlib see the same term) -/
def Nper : Nat := 2 ^ 256 - 1
theorem Nper_lt : Nper < 2 ^ 256 := Nat.sub_lt (Nat.two_pow_pos _) Nat.one_pos
theorem Nper_div_lt (q : Nat) : Nper / q < 2 ^ 256 := Nat.lt_of_le_of_lt (Nat.div_le_self _ _) Nper_lt
/-- one full-period certificate, as a proposition about core constants only -/
def CertQ (q u : Nat) : Prop := u < 2 ^ 256 ∧ mulmod P 256 u (powmod P 256 2 (Nper / q) 256 ^^^ 1) = 1
theorem CertQ.no_period {q u : Nat} (h : CertQ q u) (s : S) (hs : iter advance (Nper / q) s = s) : s = 0 :=
  no_period_of_cert advLin xo_ann (by omega) (Nper / q) 256 u (Nper_div_lt q) h.1 h.2 s hs
theorem period_of_certN (h : powmod P 256 2 Nper 256 = 1) (s : S) : iter advance Nper s = s := by
  have := powmod_two advLin xo_ann (by omega) Nper 256 Nper_lt s
  rw [h, ev_one] at this
  exact this.symm

end Urandom.XoLin
