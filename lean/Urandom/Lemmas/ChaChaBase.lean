import Urandom.Model.ChaCha
/-
Base lemmas about the ChaCha model (data movement of the row-wise double round, the 64-bit counter and stream id
as two 32-bit words).  Restated as property theorems in `Props/C02.lean`; used by `Lemmas/SimdProof.lean`.
-/
namespace Urandom.ChaChaBase
open Urandom.ChaCha

/-! ### data movement: row-wise double round = column round then diagonal round -/

/-- for **any** quarter round: quarter round on rows, rotate rows 1/2/3, quarter round, rotate back
(written `rotate_matrix!(a, d, c, b)` in the code) is the column round followed by the diagonal round -/
theorem rowDouble_eq_spec {W : Type} (qr : W → W → W → W → W × W × W × W) (s : St W) :
    (let r := toRows s; rowDouble qr r.1 r.2.1 r.2.2.1 r.2.2.2) = toRows (specDouble qr s) := rfl

theorem ofRows_toRows {W : Type} (s : St W) : ofRows (toRows s) = s := rfl

theorem iter_rowDouble {W : Type} (qr : W → W → W → W → W × W × W × W) (k : Nat) (s : St W) :
    iterN (fun (r : Row W × Row W × Row W × Row W) => rowDouble qr r.1 r.2.1 r.2.2.1 r.2.2.2) k (toRows s)
      = toRows (iterN (specDouble qr) k s) := by
  induction k generalizing s with
  | zero => rfl
  | succ k ih =>
    simp only [iterN]
    have := rowDouble_eq_spec qr s
    simp only at this
    rw [this, ih]

/-- **every block the back ends compute is Bernstein's block function** of its initial matrix,
for every round count -/
theorem rowBlock_eq_spec (N : Nat) (w : St W32) : rowBlock N w = specBlockOf N w := by
  simp only [rowBlock, specBlockOf, iter_rowDouble, ofRows_toRows]

/-! ### the 64-bit counter and stream id as two 32-bit words -/

theorem lo32_join64 (lo hi : W32) : lo32 (join64 lo hi) = lo := by
  unfold lo32 join64
  ext i hi'
  simp

theorem hi32_join64 (lo hi : W32) : hi32 (join64 lo hi) = hi := by
  unfold hi32 join64
  ext i hi'
  have h1 : 32 + i < 64 := by omega
  have h2 : ¬ (32 + i < 32) := by omega
  have h3 : i < 64 := by omega
  simp [h1, h2, h3, BitVec.getLsbD_eq_getElem hi']

theorem join64_split (x : BitVec 64) : join64 (lo32 x) (hi32 x) = x := by
  unfold join64 lo32 hi32
  ext i hi'
  simp
  by_cases h : i < 32
  · simp [h, BitVec.getLsbD_eq_getElem hi']
  · have h2 : i - 32 < 32 := by omega
    have h3 : 32 + (i - 32) = i := by omega
    simp [h, h2, h3, BitVec.getLsbD_eq_getElem hi']

theorem allOnes32 (i : Nat) (hi : i < 32) : (4294967295#32)[i] = true := by
  have : (4294967295#32) = BitVec.allOnes 32 := by decide
  simp only [this, BitVec.getElem_allOnes]

/-- `get_counter(set_counter(c)) = c` for every 64-bit value - in particular the carry out of the
low 32-bit word into the high word is right -/
theorem getCounter_setCounter (s : State) (c : BitVec 64) : (s.setCounter c).getCounter = c := by
  simp [State.getCounter, State.setCounter, join64_split]

theorem setStream_getStream (s : State) : s.setStream s.getStream = s := by
  cases s; simp [State.setStream, State.getStream, lo32_join64, hi32_join64]

theorem getStream_setCounter (s : State) (c : BitVec 64) : (s.setCounter c).getStream = s.getStream := rfl

end Urandom.ChaChaBase
