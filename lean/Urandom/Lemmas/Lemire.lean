/-
Lemire's lemma as an interval statement (core Lean only), and window/ceiling helpers.
For a word size `B`, a range `r` and a target value `m`, the words `w` that are accepted
(`B % r ≤ w·r % B`) and map to `m` (`w·r / B = m`) are exactly the `B / r` consecutive words
starting at `v₀ = ⌈(m·B + B % r) / r⌉`.
-/
namespace Urandom

theorem mul_ge_iff_ceil (A r w : Nat) (hr : 0 < r) : A ≤ w * r ↔ (A + r - 1) / r ≤ w := by
  rw [Nat.div_le_iff_le_mul_add_pred hr]
  have : r * w = w * r := Nat.mul_comm _ _
  constructor <;> intro h <;> omega

theorem div_mod_window (p B m t : Nat) (hB : 0 < B) :
    (p / B = m ∧ t ≤ p % B) ↔ (m * B + t ≤ p ∧ p < (m + 1) * B) := by
  have h1 := Nat.div_add_mod p B
  constructor
  · rintro ⟨rfl, ht⟩
    have := Nat.mod_lt p hB
    have e : B * (p / B) = p / B * B := Nat.mul_comm _ _
    rw [Nat.add_mul]
    omega
  · rintro ⟨h2, h3⟩
    have hm : p / B = m := by
      apply Nat.div_eq_of_lt_le
      · omega
      · exact h3
    subst hm
    refine ⟨rfl, ?_⟩
    have e : B * (p / B) = p / B * B := Nat.mul_comm _ _
    omega

/-- first accepted word for value `m` -/
def lemireStart (B r m : Nat) : Nat := (m * B + B % r + r - 1) / r

theorem lemire_interval (B r m : Nat) (hB : 0 < B) (hr : 0 < r) :
    ∀ w, (w * r / B = m ∧ B % r ≤ w * r % B) ↔
      (lemireStart B r m ≤ w ∧ w < lemireStart B r m + B / r) := by
  intro w
  unfold lemireStart
  rw [div_mod_window _ _ _ _ hB, mul_ge_iff_ceil _ _ _ hr]
  have hsplit : (m + 1) * B = (m * B + B % r) + (B / r) * r := by
    have := Nat.div_add_mod B r
    have e : r * (B / r) = B / r * r := Nat.mul_comm _ _
    rw [Nat.add_mul]; omega
  have hceil : ((m * B + B % r) + (B / r) * r + r - 1) / r = (m * B + B % r + r - 1) / r + B / r := by
    have : (m * B + B % r) + (B / r) * r + r - 1 = (m * B + B % r + r - 1) + (B / r) * r := by omega
    rw [this, Nat.add_mul_div_right _ _ hr]
  have key : w * r < (m + 1) * B ↔ w < (m * B + B % r + r - 1) / r + B / r := by
    rw [hsplit, ← hceil, ← Nat.not_le, ← Nat.not_le, mul_ge_iff_ceil _ _ _ hr]
  rw [key]

/-- every word of the accepted interval for `m < r` is a word (`< B`) -/
theorem lemire_interval_lt (B r m w : Nat) (hB : 0 < B) (hr : 0 < r) (hm : m < r)
    (h : lemireStart B r m ≤ w ∧ w < lemireStart B r m + B / r) : w < B := by
  have := (lemire_interval B r m hB hr w).2 h
  apply Nat.lt_of_not_le
  intro hle
  have h1 : B * r ≤ w * r := Nat.mul_le_mul_right r hle
  have h2 : r ≤ w * r / B := by
    rw [Nat.le_div_iff_mul_le hB, Nat.mul_comm]; exact h1
  omega

/-- the quotient is below the range for every word -/
theorem msw_lt (B r w : Nat) (hB : 0 < B) (hw : w < B) : w * r / B < r ∨ r = 0 := by
  by_cases hr : r = 0
  · exact Or.inr hr
  · left
    rw [Nat.div_lt_iff_lt_mul hB]
    have : 0 < r := Nat.pos_of_ne_zero hr
    calc w * r < B * r := Nat.mul_lt_mul_of_pos_right hw this
      _ = r * B := Nat.mul_comm _ _

/-- fewer than half of all words are rejected -/
theorem reject_lt_half (B r : Nat) (hr : 0 < r) (hrB : r < B) : 2 * (B % r) < B := by
  have h1 := Nat.mod_lt B hr
  have h2 : B % r ≤ B - r := by
    have : B % r = (B - r) % r := Nat.mod_eq_sub_mod (Nat.le_of_lt hrB)
    rw [this]; exact Nat.mod_le _ _
  omega

/-- truncating cast: the `L`-bit words truncating to `v` are `v + j·2^b`, `j < 2^(L-b)` -/
theorem trunc_preimage (L b v w : Nat) (hb : b ≤ L) (hv : v < 2 ^ b) :
    (w < 2 ^ L ∧ w % 2 ^ b = v) ↔ ∃ j, j < 2 ^ (L - b) ∧ w = v + j * 2 ^ b := by
  have hp : 0 < 2 ^ b := Nat.two_pow_pos b
  have hL : 2 ^ L = 2 ^ (L - b) * 2 ^ b := by rw [← Nat.pow_add]; congr 1; omega
  constructor
  · rintro ⟨hw, hmod⟩
    refine ⟨w / 2 ^ b, ?_, ?_⟩
    · rw [Nat.div_lt_iff_lt_mul hp, ← hL]; exact hw
    · have := Nat.div_add_mod w (2 ^ b)
      rw [hmod] at this
      rw [Nat.mul_comm] at this; omega
  · rintro ⟨j, hj, rfl⟩
    constructor
    · rw [hL]
      calc v + j * 2 ^ b < 2 ^ b + j * 2 ^ b := by omega
        _ = (j + 1) * 2 ^ b := by rw [Nat.add_mul]; omega
        _ ≤ 2 ^ (L - b) * 2 ^ b := Nat.mul_le_mul_right _ hj
    · rw [Nat.add_mul_mod_self_right]; exact Nat.mod_eq_of_lt hv

/-- `w >>> k = m` exactly on the interval `[m·2^k, (m+1)·2^k)` -/
theorem shr_preimage (k w m : Nat) : w >>> k = m ↔ m * 2 ^ k ≤ w ∧ w < (m + 1) * 2 ^ k := by
  rw [Nat.shiftRight_eq_div_pow]
  have h : 0 < 2 ^ k := Nat.two_pow_pos k
  constructor
  · rintro rfl
    exact ⟨Nat.div_mul_le_self _ _, by rw [Nat.add_mul, Nat.one_mul]; exact Nat.lt_div_mul_add h⟩
  · rintro ⟨h1, h2⟩
    apply Nat.div_eq_of_lt_le <;> first | exact h1 | exact h2

end Urandom
