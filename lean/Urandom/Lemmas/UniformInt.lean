import Urandom.Model.UniformInt
import Urandom.Lemmas.Lemire
/-
Lemmas about the `UniformInt` model: wrapping range arithmetic for signed and unsigned types,
and the characterisation of the sampling loop with its lazily computed `zone`.
-/
namespace Urandom

theorem mod_lt2 (a M : Nat) (h : a < 2 * M) : (a < M ∧ a % M = a) ∨ (M ≤ a ∧ a % M = a - M) := by
  by_cases h1 : a < M
  · exact Or.inl ⟨h1, Nat.mod_eq_of_lt h1⟩
  · right
    refine ⟨by omega, ?_⟩
    rw [Nat.mod_eq_sub_mod (by omega)]; exact Nat.mod_eq_of_lt (by omega)

/-- two's-complement value of the bit pattern `x < M` -/
def sInt (M x : Nat) : Int := if 2 * x < M then (x : Int) else (x : Int) - M

theorem sInt_cases (M x : Nat) : (2 * x < M ∧ sInt M x = x) ∨ (M ≤ 2 * x ∧ sInt M x = (x : Int) - M) := by
  unfold sInt; split
  · exact Or.inl ⟨‹_›, rfl⟩
  · exact Or.inr ⟨by omega, rfl⟩

theorem IntTy.toInt_signed (t : IntTy) (h : t.signed = true) (x : Nat) : t.toInt x = sInt t.M x := by
  simp [IntTy.toInt, h, sInt]
theorem IntTy.toInt_unsigned (t : IntTy) (h : t.signed = false) (x : Nat) : t.toInt x = (x : Int) := by
  simp [IntTy.toInt, h]

/-- signed: the stored range is the true difference, and non-zero -/
theorem range_signed (M H lo hi : Nat) (hM : M = 2 * H) (hlo : lo < M) (hhi : hi < M)
    (h : sInt M lo < sInt M hi) :
    ((wsub M hi lo : Nat) : Int) = sInt M hi - sInt M lo ∧ 0 < wsub M hi lo := by
  unfold wsub
  rcases sInt_cases M lo with ⟨a1, a2⟩ | ⟨a1, a2⟩ <;> rcases sInt_cases M hi with ⟨b1, b2⟩ | ⟨b1, b2⟩ <;>
    rcases mod_lt2 (hi + M - lo) M (by omega) with ⟨c1, c2⟩ | ⟨c1, c2⟩ <;>
    (rw [c2]; omega)

/-- signed: adding an offset `m ≤ hi - lo` (true difference) stays in `[lo, lo+m]` as integers -/
theorem wadd_signed (M H lo m : Nat) (hM : M = 2 * H) (hlo : lo < M)
    (hm : sInt M lo + m < H) :
    sInt M (wadd M lo m) = sInt M lo + m := by
  have hmM : m < M := by rcases sInt_cases M lo with ⟨a1, a2⟩ | ⟨a1, a2⟩ <;> omega
  generalize hw : wadd M lo m = w
  have hw' : w = (lo + m) % M := hw.symm
  rcases mod_lt2 (lo + m) M (by omega) with ⟨c1, c2⟩ | ⟨c1, c2⟩ <;> rw [c2] at hw' <;>
  rcases sInt_cases M w with ⟨d1, d2⟩ | ⟨d1, d2⟩ <;>
  rcases sInt_cases M lo with ⟨a1, a2⟩ | ⟨a1, a2⟩ <;>
    omega

theorem sInt_lt (M H x : Nat) (hM : M = 2 * H) (hx : x < M) : sInt M x < H ∧ -(H : Int) ≤ sInt M x := by
  rcases sInt_cases M x with ⟨a1, a2⟩ | ⟨a1, a2⟩ <;> omega

/-- unsigned: the stored range is the true difference -/
theorem range_unsigned (M lo hi : Nat) (hhi : hi < M) (h : lo < hi) :
    wsub M hi lo = hi - lo := by
  unfold wsub
  rcases mod_lt2 (hi + M - lo) M (by omega) with ⟨c1, c2⟩ | ⟨c1, c2⟩ <;> omega

theorem wadd_unsigned (M lo m : Nat) (h : lo + m < M) : wadd M lo m = lo + m :=
  Nat.mod_eq_of_lt h

theorem wsub_lt (M hi lo : Nat) (hM : 0 < M) : wsub M hi lo < M := Nat.mod_lt _ hM
theorem wadd_lt (M a b : Nat) (hM : 0 < M) : wadd M a b < M := Nat.mod_lt _ hM

/-- distinct offsets below `M` give distinct wrapped sums -/
theorem wadd_inj (M a m₁ m₂ : Nat) (h₁ : m₁ < M) (h₂ : m₂ < M) (ha : a < M)
    (h : wadd M a m₁ = wadd M a m₂) : m₁ = m₂ := by
  unfold wadd at h
  rcases mod_lt2 (a + m₁) M (by omega) with ⟨c1, c2⟩ | ⟨c1, c2⟩ <;>
    rcases mod_lt2 (a + m₂) M (by omega) with ⟨d1, d2⟩ | ⟨d1, d2⟩ <;>
    (rw [c2, d2] at h; omega)

/-- unsigned inclusive: `(hi - lo) + 1` wrapped is the number of values, or `0` for all `M` of them -/
theorem range_unsigned_incl (M lo hi : Nat) (hhi : hi < M) (h : lo ≤ hi) :
    wadd M (wsub M hi lo) 1 = hi - lo + 1 ∨ (wadd M (wsub M hi lo) 1 = 0 ∧ hi - lo + 1 = M) := by
  have hw : wsub M hi lo = hi - lo := by
    unfold wsub
    rcases mod_lt2 (hi + M - lo) M (by omega) with ⟨c1, c2⟩ | ⟨c1, c2⟩ <;> omega
  rw [hw]; unfold wadd
  rcases mod_lt2 (hi - lo + 1) M (by omega) with ⟨c1, c2⟩ | ⟨c1, c2⟩
  · left; omega
  · right; omega

/-- signed inclusive -/
theorem range_signed_incl (M H lo hi : Nat) (hM : M = 2 * H) (hH : 0 < H) (hlo : lo < M) (hhi : hi < M)
    (h : sInt M lo ≤ sInt M hi) :
    ((wadd M (wsub M hi lo) 1 : Nat) : Int) = sInt M hi - sInt M lo + 1 ∨
      (wadd M (wsub M hi lo) 1 = 0 ∧ sInt M hi - sInt M lo + 1 = M) := by
  have hw : ((wsub M hi lo : Nat) : Int) = sInt M hi - sInt M lo := by
    unfold wsub
    rcases sInt_cases M lo with ⟨a1, a2⟩ | ⟨a1, a2⟩ <;> rcases sInt_cases M hi with ⟨b1, b2⟩ | ⟨b1, b2⟩ <;>
      rcases mod_lt2 (hi + M - lo) M (by omega) with ⟨c1, c2⟩ | ⟨c1, c2⟩ <;>
      (rw [c2]; omega)
  have hwl : wsub M hi lo < M := Nat.mod_lt _ (by omega)
  unfold wadd
  rcases mod_lt2 (wsub M hi lo + 1) M (by omega) with ⟨c1, c2⟩ | ⟨c1, c2⟩
  · left; rw [c2]; omega
  · right; rw [c2]; omega

namespace UniformInt

/-- on success `try_new` returns exactly these fields -/
theorem tryNew_ok_eq (t : IntTy) (lo hi : Nat) (incl : Bool) (d : UniformInt) (h : tryNew t lo hi incl = .ok d) :
    d = ⟨lo, if incl then wadd t.M (wsub t.M hi lo) 1 else wsub t.M hi lo⟩ ∧
      (if incl then t.toInt lo ≤ t.toInt hi else t.toInt lo < t.toInt hi) := by
  unfold tryNew at h
  cases incl
  · simp only [Bool.false_eq_true, ↓reduceIte] at h ⊢
    split at h
    · simp at h
    · injection h with h; exact ⟨h.symm, by omega⟩
  · simp only [↓reduceIte] at h ⊢
    split at h
    · simp at h
    · injection h with h; exact ⟨h.symm, by omega⟩

/-- acceptance criterion of Lemire's method, independent of the loop's history -/
def Accepts (t : IntTy) (r v : Nat) : Prop := t.B % r ≤ v * r % t.B
instance (t : IntTy) (r v : Nat) : Decidable (Accepts t r v) := by unfold Accepts; infer_instance

/-- the bit pattern produced from an accepted word value -/
def valueOf (t : IntTy) (d : UniformInt) (v : Nat) : Nat := wadd t.M d.base (v * d.range / t.B % t.M)

/-- **History independence of the lazily computed zone.** Whatever the loop has seen before
(`zone` is still `range`, or already `2^L mod range`), an iteration accepts the word `v` iff
`(v·r) mod 2^L ≥ 2^L mod r`, and a rejection leaves `zone = 2^L mod r`. -/
theorem iteration_eq (t : IntTy) (d : UniformInt) (zone v : Nat) (hr : 0 < d.range) (hrB : d.range ≤ t.B)
    (hz : zone = d.range ∨ zone = t.B % d.range) :
    iteration t d zone v =
      if Accepts t d.range v then .inl (valueOf t d v) else .inr (t.B % d.range) := by
  have hmod : t.B % d.range < d.range := Nat.mod_lt _ hr
  have hz' : (t.B - d.range) % d.range = t.B % d.range := (Nat.mod_eq_sub_mod hrB).symm
  unfold iteration Accepts valueOf
  simp only [Nat.ne_of_gt hr, ↓reduceIte, hz', ge_iff_le]
  rcases hz with rfl | rfl
  · by_cases h1 : d.range ≤ v * d.range % t.B
    · have : t.B % d.range ≤ v * d.range % t.B := by omega
      simp [h1, this]
    · by_cases h2 : t.B % d.range ≤ v * d.range % t.B <;> simp [h1, h2]
  · by_cases h2 : t.B % d.range ≤ v * d.range % t.B
    · simp [h2]
    · have : t.B % d.range ≠ d.range := by omega
      simp [h2, this]

/-- the declarative reading of `sample`: the first accepted word decides -/
def firstAccepted (t : IntTy) (d : UniformInt) : Draw Nat
  | [] => none
  | w :: ws =>
    if Accepts t d.range (wordValue t w) then some (valueOf t d (wordValue t w), ws)
    else firstAccepted t d ws

theorem sampleLoop_eq (t : IntTy) (d : UniformInt) (hr : 0 < d.range) (hrB : d.range ≤ t.B) :
    ∀ (ws : Words) (zone : Nat), (zone = d.range ∨ zone = t.B % d.range) →
      sampleLoop t d zone ws = firstAccepted t d ws := by
  intro ws
  induction ws with
  | nil => intro _ _; rfl
  | cons w ws ih =>
    intro zone hz
    simp only [sampleLoop, firstAccepted, iteration_eq t d zone _ hr hrB hz]
    by_cases ha : Accepts t d.range (wordValue t w)
    · simp [ha]
    · simp only [ha, ↓reduceIte]
      exact ih _ (Or.inr rfl)

theorem sample_eq (t : IntTy) (d : UniformInt) (hr : 0 < d.range) (hrB : d.range ≤ t.B) (ws : Words) :
    sample t d ws = firstAccepted t d ws := sampleLoop_eq t d hr hrB ws _ (Or.inl rfl)

/-- full-type case: the sample is the truncated word, nothing is rejected -/
theorem sample_full (t : IntTy) (d : UniformInt) (hr : d.range = 0) (w : BitVec 64) (ws : Words) :
    sample t d (w :: ws) = some (wordValue t w % t.M, ws) := by
  simp [sample, sampleLoop, iteration, hr]

theorem wordValue_lt (t : IntTy) (w : BitVec 64) : wordValue t w < t.B :=
  Nat.mod_lt _ (Nat.two_pow_pos _)

end UniformInt
end Urandom
