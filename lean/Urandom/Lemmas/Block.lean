import Urandom.Model.Block
/-
The ghost semantics of the block generator: batches of *positions* `(stream, block counter, byte
offset)` over unbounded logical counters, and the invariant that proves that no position is ever
issued twice, over all operation histories (core Lean only).
-/
namespace Urandom.Block

variable {κ β : Type}

/-! ghost instance: positions (stream, block counter, byte offset) in unbounded logical coordinates -/
abbrev Pos := Nat × Nat × Nat
def posBatch (S C : Nat) : Nat → Pos := fun i => (S, C + i / 64, i % 64)
def posCore : Core (Nat × Nat) Pos where
  gen := fun (S, C) => (posBatch S C, (S, C + 4))
  jmp := fun (S, C) => (S + 1, C)

def Past (S C : Nat) (p : Pos) : Prop := p.1 < S ∨ (p.1 = S ∧ p.2.1 < C)

structure Inv (s : BS (Nat × Nat) Pos) (issued : List Pos) : Prop where
  bufOk : s.index < 256 → ∃ Cb, Cb + 4 ≤ s.core.2 ∧ ∀ i, s.index ≤ i → i < 256 → s.buf i = posBatch s.core.1 Cb i
  past : ∀ p ∈ issued, Past s.core.1 s.core.2 p
  fresh : s.index < 256 → ∀ i, s.index ≤ i → i < 256 → s.buf i ∉ issued
  nodup : issued.Nodup

theorem mem_take {buf : Nat → β} {start n : Nat} {x : β} : x ∈ take buf start n ↔ ∃ i, i < n ∧ buf (start + i) = x := by
  simp [take]

theorem posBatch_inj {S C i j : Nat} (hi : i < 256) (hj : j < 256) (h : posBatch S C i = posBatch S C j) : i = j := by
  simp only [posBatch, Prod.mk.injEq, true_and] at h
  omega

theorem nodup_take_posBatch (S C start n : Nat) (h : start + n ≤ 256) : (take (posBatch S C) start n).Nodup := by
  unfold take
  rw [List.Nodup, List.pairwise_map]
  apply List.Pairwise.imp_of_mem _ (List.pairwise_lt_range (n := n))
  intro a b ha hb hab heq
  simp only [List.mem_range] at ha hb
  have := posBatch_inj (by omega) (by omega) heq
  omega

/-- serving `n` buffered elements starting at `index` preserves the invariant -/
theorem serve_inv {s : BS (Nat × Nat) Pos} {issued : List Pos} (h : Inv s issued) (n : Nat) (hn : s.index + n ≤ 256) :
    Inv { s with index := s.index + n } (issued ++ take s.buf s.index n) := by
  by_cases hn0 : n = 0
  · subst hn0
    have : take s.buf s.index 0 = [] := by simp [take]
    simpa [this] using h
  have hidx : s.index < 256 := by omega
  obtain ⟨Cb, hCb, hbuf⟩ := h.bufOk hidx
  refine ⟨?_, ?_, ?_, ?_⟩
  · intro _
    exact ⟨Cb, hCb, fun i hi hi' => hbuf i (by simp at hi; omega) hi'⟩
  · intro p hp
    rw [List.mem_append] at hp
    rcases hp with hp | hp
    · exact h.past p hp
    · obtain ⟨i, hi, rfl⟩ := mem_take.1 hp
      rw [hbuf _ (by omega) (by omega)]
      right
      simp only [posBatch]
      exact ⟨trivial, by omega⟩
  · intro _ i hi hi' hmem
    simp only at hi
    rw [List.mem_append] at hmem
    rcases hmem with hm | hm
    · exact h.fresh hidx i (by omega) hi' hm
    · obtain ⟨j, hj, hjeq⟩ := mem_take.1 hm
      rw [hbuf _ (by omega) (by omega), hbuf i (by omega) hi'] at hjeq
      have := posBatch_inj (by omega) hi' hjeq
      omega
  · rw [List.nodup_append]
    refine ⟨h.nodup, ?_, ?_⟩
    · have : take s.buf s.index n = take (posBatch s.core.1 Cb) s.index n := by
        unfold take
        apply List.map_congr_left
        intro i hi
        simp only [List.mem_range] at hi
        exact hbuf _ (by omega) (by omega)
      rw [this]
      exact nodup_take_posBatch _ _ _ _ hn
    · intro a ha b hb hab
      subst hab
      obtain ⟨j, hj, rfl⟩ := mem_take.1 hb
      exact h.fresh hidx _ (by omega) (by omega) ha

/-- refilling the buffer preserves the invariant (nothing is issued) -/
theorem refill_inv {s : BS (Nat × Nat) Pos} {issued : List Pos} (h : Inv s issued) : Inv (refill posCore s) issued := by
  obtain ⟨core, index, buf⟩ := s
  obtain ⟨S, C⟩ := core
  refine ⟨?_, ?_, ?_, h.nodup⟩
  · intro _
    exact ⟨C, by simp [refill, posCore], fun i _ _ => by simp [refill, posCore]⟩
  · intro p hp
    have := h.past p hp
    simp only [refill, posCore, Past] at this ⊢
    rcases this with h1 | ⟨h1, h2⟩
    · exact Or.inl h1
    · exact Or.inr ⟨h1, by omega⟩
  · intro _ i _ hi hmem
    have := h.past _ hmem
    simp only [refill, posCore, posBatch, Past] at this
    rcases this with h1 | ⟨_, h2⟩
    · exact Nat.lt_irrefl _ h1
    · omega

theorem nextN_inv {s : BS (Nat × Nat) Pos} {issued : List Pos} (h : Inv s issued) (n : Nat) (hn : n ≤ 256) :
    Inv (nextN posCore n s).2 (issued ++ (nextN posCore n s).1) := by
  unfold nextN
  simp only
  split
  · have := refill_inv h
    exact serve_inv this n (by simp [refill]; omega)
  · exact serve_inv h n (by omega)

theorem jump_inv {s : BS (Nat × Nat) Pos} {issued : List Pos} (h : Inv s issued) : Inv (jump posCore s) issued := by
  refine ⟨?_, ?_, ?_, h.nodup⟩
  · intro hlt; simp [jump] at hlt
  · intro p hp
    have := h.past p hp
    simp only [jump, posCore, Past] at this ⊢
    rcases this with h1 | ⟨h1, _⟩
    · left; omega
    · left; omega
  · intro hlt; simp [jump] at hlt


/-- one whole batch written straight to the destination -/
theorem directOne_inv {s : BS (Nat × Nat) Pos} {issued : List Pos} (h : Inv s issued) :
    Inv { s with core := (posCore.gen s.core).2 } (issued ++ take (posCore.gen s.core).1 0 256) := by
  obtain ⟨core, index, buf⟩ := s
  obtain ⟨S, C⟩ := core
  simp only [posCore]
  refine ⟨?_, ?_, ?_, ?_⟩
  · intro hlt
    obtain ⟨Cb, hCb, hb⟩ := h.bufOk hlt
    exact ⟨Cb, by simp at hCb ⊢; omega, hb⟩
  · intro p hp
    rw [List.mem_append] at hp
    rcases hp with hp | hp
    · have := h.past p hp
      simp only [Past] at this ⊢
      rcases this with h1 | ⟨h1, h2⟩
      · exact Or.inl h1
      · exact Or.inr ⟨h1, by omega⟩
    · obtain ⟨i, hi, rfl⟩ := mem_take.1 hp
      right
      simp only [posBatch]
      exact ⟨trivial, by omega⟩
  · intro hlt i hi hi' hmem
    rw [List.mem_append] at hmem
    rcases hmem with hm | hm
    · exact h.fresh hlt i hi hi' hm
    · obtain ⟨Cb, hCb, hb⟩ := h.bufOk hlt
      obtain ⟨j, hj, hjeq⟩ := mem_take.1 hm
      have e := hb i hi hi'
      simp only at e hCb hjeq
      rw [e] at hjeq
      simp only [posBatch, Prod.mk.injEq, true_and] at hjeq
      omega
  · rw [List.nodup_append]
    refine ⟨h.nodup, nodup_take_posBatch _ _ _ _ (by omega), ?_⟩
    intro a ha b hb hab
    subst hab
    obtain ⟨j, hj, rfl⟩ := mem_take.1 hb
    have := h.past _ ha
    simp only [Past, posBatch] at this
    rcases this with h1 | ⟨_, h2⟩
    · exact Nat.lt_irrefl _ h1
    · omega

theorem direct_inv (k : Nat) : ∀ {s : BS (Nat × Nat) Pos} {issued : List Pos}, Inv s issued →
    Inv { s with core := (direct posCore k s.core).2 } (issued ++ (direct posCore k s.core).1) := by
  induction k with
  | zero => intro s issued h; simpa [direct] using h
  | succ k ih =>
    intro s issued h
    have h1 := directOne_inv h
    have h2 := ih h1
    simp only [direct]
    rw [← List.append_assoc]
    exact h2

theorem fillRem_inv {s : BS (Nat × Nat) Pos} {issued : List Pos} (h : Inv s issued) (len : Nat) (hl : len < 256) :
    Inv (fillRem posCore len s).2 (issued ++ (fillRem posCore len s).1) := by
  unfold fillRem
  simp only
  split
  · rename_i hle
    by_cases hidx : s.index < 256
    · have e : min s.index 256 = s.index := by omega
      rw [e] at hle ⊢
      exact serve_inv h len (by omega)
    · have hl0 : len = 0 := by omega
      subst hl0
      have : take s.buf (min s.index 256) 0 = [] := by simp [take]
      simpa [this] using h
  · rename_i hgt
    by_cases hidx : s.index < 256
    · have e : min s.index 256 = s.index := by omega
      rw [e] at hgt ⊢
      have h1 := serve_inv h (256 - s.index) (by omega)
      have h2 := refill_inv h1
      have h3 := serve_inv h2 (len - (256 - s.index)) (by simp [refill]; omega)
      simp only [refill] at h3 ⊢
      rw [← List.append_assoc]
      simpa using h3
    · have e : min s.index 256 = 256 := by omega
      rw [e]
      have h2 := refill_inv h
      have h3 := serve_inv h2 len (by simp [refill]; omega)
      have : take s.buf 256 (256 - 256) = [] := by simp [take]
      simp only [refill] at h3 ⊢
      simpa [this] using h3

theorem fill_inv {s : BS (Nat × Nat) Pos} {issued : List Pos} (h : Inv s issued) (len : Nat) :
    Inv (fill posCore len s).2 (issued ++ (fill posCore len s).1) := by
  unfold fill
  simp only
  have h1 := direct_inv (len / 256) h
  split
  · exact h1
  · have h2 := fillRem_inv h1 (len % 256) (Nat.mod_lt _ (by omega))
    rw [← List.append_assoc]
    exact h2

theorem stepOp_inv {s : BS (Nat × Nat) Pos} {issued : List Pos} (h : Inv s issued) (op : Op) :
    Inv (stepOp posCore s op).2 (issued ++ (stepOp posCore s op).1) := by
  cases op with
  | u32 => exact nextN_inv h 4 (by omega)
  | u64 => exact nextN_inv h 8 (by omega)
  | f32 => exact nextN_inv h 4 (by omega)
  | f64 => exact nextN_inv h 8 (by omega)
  | fill n => exact fill_inv h n
  | jump => simpa [stepOp] using jump_inv h

theorem run_inv (ops : List Op) : ∀ {s : BS (Nat × Nat) Pos} {issued : List Pos}, Inv s issued →
    Inv (run posCore s ops).2 (issued ++ (run posCore s ops).1) := by
  induction ops with
  | nil => intro s issued h; simpa [run] using h
  | cons op ops ih =>
    intro s issued h
    have := ih (stepOp_inv h op)
    simp only [run]
    rw [← List.append_assoc]
    exact this

/-- a freshly constructed generator (index = !0) satisfies the invariant with nothing issued -/
theorem init_inv (S C : Nat) (buf : Nat → Pos) : Inv ⟨(S, C), 2 ^ 32 - 1, buf⟩ [] :=
  ⟨fun h => by simp at h, fun _ h => by simp at h, fun h => by simp at h, List.nodup_nil⟩

/-- no keystream position is ever issued twice, for every operation history -/
theorem no_reuse (S C : Nat) (buf : Nat → Pos) (ops : List Op) :
    (run posCore ⟨(S, C), 2 ^ 32 - 1, buf⟩ ops).1.Nodup := by
  have := (run_inv ops (init_inv S C buf)).nodup
  simpa using this




end Urandom.Block
