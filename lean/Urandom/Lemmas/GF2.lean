import Urandom.Lemmas.Weyl
/-
GF(2) polynomial calculus over an abstract XOR space (core Lean only): evaluation `ev p s = ⊕_{i∈p} Tⁱ s`
of a polynomial (bit mask `p`) at an additive operator `T`, multiplication modulo an annihilating
polynomial (`mulmod`), repeated squaring (`sqIter`) and square-and-multiply (`powmod`), all structural
on fuel so that the kernel can run them (`decide +kernel`).  Used by C08.
-/
namespace Urandom.GF2
open Urandom.Spec (iter)
open Urandom (iter_add)

-- Scratch feasibility: polynomial-evaluation calculus over an abstract XOR space (core Lean only)

class XSpace (V : Type) extends Add V, Zero V where
  add_assoc' : ∀ a b c : V, a + b + c = a + (b + c)
  add_comm' : ∀ a b : V, a + b = b + a
  add_zero' : ∀ a : V, a + 0 = a
  add_self' : ∀ a : V, a + a = 0

namespace XSpace
variable {V : Type} [XSpace V]
instance : Std.Associative (α := V) (· + ·) := ⟨add_assoc'⟩
instance : Std.Commutative (α := V) (· + ·) := ⟨add_comm'⟩
theorem zero_add' (a : V) : 0 + a = a := by rw [add_comm', add_zero']
end XSpace
open XSpace

structure Lin (V : Type) [XSpace V] where
  f : V → V
  map_add : ∀ a b, f (a + b) = f a + f b

namespace Lin
variable {V : Type} [XSpace V] (T : Lin V)
theorem map_zero : T.f 0 = 0 := by
  have h := T.map_add 0 0
  rw [add_zero'] at h
  have : T.f 0 + T.f 0 = T.f 0 + 0 := by rw [← h, add_zero']
  calc T.f 0 = T.f 0 + (T.f 0 + T.f 0) := by rw [add_self', add_zero']
    _ = (T.f 0 + T.f 0) + T.f 0 := by ac_rfl
    _ = 0 + T.f 0 := by rw [add_self']
    _ = 0 := by rw [zero_add', ← add_zero' (T.f 0), ← this, add_self']
end Lin

variable {V : Type} [XSpace V]

def bit0 (p : Nat) (s : V) : V := if p % 2 = 1 then s else 0

/-- Horner evaluation of the GF(2) polynomial with bit mask `p` at the operator `T`, applied to `s`. -/
def ev (T : Lin V) (p : Nat) (s : V) : V :=
  if h : p = 0 then 0 else bit0 p s + T.f (ev T (p / 2) s)
decreasing_by omega

theorem ev_zero (T : Lin V) (s : V) : ev T 0 s = 0 := by rw [ev]; simp
theorem ev_pos (T : Lin V) (p : Nat) (s : V) : ev T p s = bit0 p s + T.f (ev T (p / 2) s) := by
  by_cases h : p = 0
  · subst h; rw [ev_zero]; simp [bit0, ev_zero, T.map_zero, add_zero']
  · rw [ev]; simp [h]

theorem bit0_add (p : Nat) (a b : V) : bit0 p (a + b) = bit0 p a + bit0 p b := by
  unfold bit0; split <;> simp [add_zero']

theorem ev_add (T : Lin V) (p : Nat) : ∀ a b : V, ev T p (a + b) = ev T p a + ev T p b := by
  induction p using Nat.strongRecOn with
  | _ p ih =>
    intro a b
    by_cases h : p = 0
    · subst h; simp [ev_zero, add_zero']
    · rw [ev_pos T p (a+b), ev_pos T p a, ev_pos T p b, ih (p/2) (by omega), T.map_add, bit0_add]
      ac_rfl

theorem bit0_xor (p q : Nat) (s : V) : bit0 (p ^^^ q) s = bit0 p s + bit0 q s := by
  unfold bit0
  have := @Nat.xor_mod_two_eq_one p q
  by_cases hp : p % 2 = 1 <;> by_cases hq : q % 2 = 1 <;> simp_all [add_zero', zero_add', add_self']

theorem ev_xor (T : Lin V) (p : Nat) : ∀ (q : Nat) (s : V), ev T (p ^^^ q) s = ev T p s + ev T q s := by
  induction p using Nat.strongRecOn with
  | _ p ih =>
    intro q s
    by_cases h : p = 0
    · subst h; simp [ev_zero, zero_add']
    · rw [ev_pos T (p ^^^ q), ev_pos T p, ev_pos T q, Nat.xor_div_two, ih (p/2) (by omega), T.map_add, bit0_xor]
      ac_rfl

theorem ev_double (T : Lin V) (p : Nat) (s : V) : ev T (2 * p) s = T.f (ev T p s) := by
  rw [ev_pos]
  have : (2 * p) / 2 = p := by omega
  have h2 : (2*p) % 2 ≠ 1 := by omega
  simp [this, bit0, h2, zero_add']

theorem ev_comm_T (T : Lin V) (p : Nat) : ∀ s : V, ev T p (T.f s) = T.f (ev T p s) := by
  induction p using Nat.strongRecOn with
  | _ p ih =>
    intro s
    by_cases h : p = 0
    · subst h; simp [ev_zero, T.map_zero]
    · rw [ev_pos T p (T.f s), ev_pos T p s, ih (p/2) (by omega), T.map_add]
      congr 1
      unfold bit0; split <;> simp [T.map_zero]

theorem ev_one (T : Lin V) (s : V) : ev T 1 s = s := by
  rw [ev_pos]; simp [bit0, ev_zero, T.map_zero, add_zero']

theorem ev_two (T : Lin V) (s : V) : ev T 2 s = T.f s := by
  have := ev_double T 1 s
  simpa [ev_one] using this


/-- multiply by x and reduce by the degree-`d` polynomial `P` -/
def mulx (P d a : Nat) : Nat :=
  let b := 2 * a
  if b.testBit d then b ^^^ P else b

def mulmodAux (P d a b : Nat) : Nat → Nat → Nat
  | 0, acc => acc
  | n+1, acc =>
    let acc := mulx P d acc
    let acc := if a.testBit n then acc ^^^ b else acc
    mulmodAux P d a b n acc

def mulmod (P d a b : Nat) : Nat := mulmodAux P d a b d 0

structure Annihilates (T : Lin V) (P d : Nat) : Prop where
  ann : ∀ s, ev T P s = 0
  top : P.testBit d = true
  lt : P < 2 ^ (d + 1)

theorem testBit_ge_of_lt {x n i : Nat} (h : x < 2 ^ n) (hi : n ≤ i) : x.testBit i = false := by
  apply Nat.testBit_lt_two_pow
  exact Nat.lt_of_lt_of_le h (Nat.pow_le_pow_right (by omega) hi)

theorem mulx_lt {P d a : Nat} (hP : P.testBit d = true) (hPl : P < 2 ^ (d+1)) (ha : a < 2 ^ d) :
    mulx P d a < 2 ^ d := by
  unfold mulx
  have hb : 2 * a < 2 ^ (d + 1) := by rw [Nat.pow_succ]; omega
  simp only
  split
  · rename_i hbit
    apply Nat.lt_pow_two_of_testBit
    intro i hi
    rw [Nat.testBit_xor]
    by_cases hid : i = d
    · subst hid; simp [hbit, hP]
    · have : d + 1 ≤ i := by omega
      simp [testBit_ge_of_lt hb this, testBit_ge_of_lt hPl this]
  · rename_i hbit
    apply Nat.lt_pow_two_of_testBit
    intro i hi
    by_cases hid : i = d
    · subst hid; simpa using hbit
    · exact testBit_ge_of_lt hb (by omega)

theorem ev_mulx (T : Lin V) {P d : Nat} (hA : Annihilates T P d) (a : Nat) (s : V) :
    ev T (mulx P d a) s = T.f (ev T a s) := by
  unfold mulx
  simp only
  split
  · rw [ev_xor, hA.ann, add_zero', ev_double]
  · rw [ev_double]

theorem shiftRight_split (a n : Nat) : a >>> n = 2 * (a >>> (n + 1)) + (if a.testBit n then 1 else 0) := by
  rw [Nat.shiftRight_succ]
  have h := Nat.div_add_mod (a >>> n) 2
  have : (a >>> n) % 2 = if a.testBit n then 1 else 0 := by
    have hb' : (a >>> n).testBit 0 = a.testBit n := by simp [Nat.testBit_shiftRight]
    rw [Nat.testBit_zero] at hb'
    have hlt := Nat.mod_lt (a >>> n) (by omega : 0 < 2)
    by_cases hb : a.testBit n
    · simp only [hb, decide_eq_true_eq] at hb'; simp [hb, hb']
    · simp only [hb, Bool.not_eq_true, decide_eq_false_iff_not] at hb'; simp [hb]; omega
  omega

theorem ev_shiftRight_step (T : Lin V) (a n : Nat) (s : V) :
    ev T (a >>> n) s = (if a.testBit n then s else 0) + T.f (ev T (a >>> (n + 1)) s) := by
  rw [ev_pos T (a >>> n)]
  have h := shiftRight_split a n
  have hd : (a >>> n) / 2 = a >>> (n + 1) := by rw [Nat.shiftRight_succ]
  rw [hd]
  congr 1
  unfold bit0
  by_cases hb : a.testBit n <;> simp [hb] at h ⊢ <;> omega

theorem mulmodAux_spec (T : Lin V) {P d : Nat} (hA : Annihilates T P d) (a b : Nat) (hb : b < 2 ^ d) :
    ∀ (n acc : Nat), acc < 2 ^ d → (∀ s, ev T acc s = ev T (a >>> n) (ev T b s)) →
      (mulmodAux P d a b n acc < 2 ^ d ∧ ∀ s, ev T (mulmodAux P d a b n acc) s = ev T a (ev T b s)) := by
  intro n
  induction n with
  | zero => intro acc hacc h; exact ⟨hacc, by simpa [mulmodAux] using h⟩
  | succ n ih =>
    intro acc hacc h
    unfold mulmodAux
    simp only
    have hm := mulx_lt hA.top hA.lt hacc
    apply ih
    · split
      · exact Nat.xor_lt_two_pow hm hb
      · exact hm
    · intro s
      rw [ev_shiftRight_step T a n]
      split
      · rw [ev_xor, ev_mulx T hA, h s]; ac_rfl
      · rw [ev_mulx T hA, h s, zero_add']

theorem mulmod_spec (T : Lin V) {P d : Nat} (hA : Annihilates T P d) (a b : Nat)
    (ha : a < 2 ^ d) (hb : b < 2 ^ d) :
    mulmod P d a b < 2 ^ d ∧ ∀ s, ev T (mulmod P d a b) s = ev T a (ev T b s) := by
  apply mulmodAux_spec T hA a b hb d 0 (Nat.two_pow_pos d)
  intro s
  have : a >>> d = 0 := by rw [Nat.shiftRight_eq_div_pow]; exact Nat.div_eq_of_lt ha
  rw [this, ev_zero, ev_zero]

def sqIter (P d : Nat) : Nat → Nat → Nat
  | 0, r => r
  | n+1, r => sqIter P d n (mulmod P d r r)

theorem sqIter_spec (T : Lin V) {P d : Nat} (hA : Annihilates T P d) :
    ∀ (n r k : Nat), r < 2 ^ d → (∀ s, ev T r s = iter T.f k s) →
      ∀ s, ev T (sqIter P d n r) s = iter T.f (k * 2 ^ n) s := by
  intro n
  induction n with
  | zero => intro r k _ h s; simpa [sqIter] using h s
  | succ n ih =>
    intro r k hr h s
    unfold sqIter
    have hm := mulmod_spec T hA r r hr hr
    rw [ih (mulmod P d r r) (k + k) hm.1]
    · congr 1; rw [Nat.pow_succ, Nat.add_mul, ← Nat.mul_assoc, Nat.mul_two]
    · intro s
      rw [hm.2 s, h, h, iter_add]

/-- x^(2^n) mod P, evaluated at T, is T iterated 2^n times (needs d ≥ 2 so that x itself is reduced) -/
theorem sqIter_two (T : Lin V) {P d : Nat} (hA : Annihilates T P d) (hd : 2 ≤ d) (n : Nat) (s : V) :
    ev T (sqIter P d n 2) s = iter T.f (2 ^ n) s := by
  have := sqIter_spec T hA n 2 1 (by
    calc 2 = 2 ^ 1 := rfl
      _ < 2 ^ d := Nat.pow_lt_pow_right (by omega) (by omega)) (by intro s; simp [ev_two, iter]) s
  simpa using this


/-- force the kernel to evaluate `x` before continuing -/
def forceNat (x : Nat) (k : Nat → Nat) : Nat :=
  match x with
  | 0 => k 0
  | n+1 => k (n+1)
theorem forceNat_eq (x : Nat) (k : Nat → Nat) : forceNat x k = k x := by cases x <;> rfl

/-- square-and-multiply, structural on fuel: processes bits n-1 .. 0 of e -/
def powmodAux (P d b e : Nat) : Nat → Nat → Nat
  | 0, acc => acc
  | n+1, acc =>
    forceNat (mulmod P d acc acc) fun acc =>
    forceNat (if e.testBit n then mulmod P d acc b else acc) fun acc =>
    powmodAux P d b e n acc
def powmod (P d b e bits : Nat) : Nat := powmodAux P d b e bits 1

theorem iter_comm_ev (T : Lin V) (b : Nat) (n : Nat) (s : V) :
    iter (ev T b) (n+1) s = ev T b (iter (ev T b) n s) := by
  induction n generalizing s with
  | zero => rfl
  | succ n ih => simp only [iter] at ih ⊢; rw [ih]

theorem powmodAux_spec (T : Lin V) {P d : Nat} (hA : Annihilates T P d) (b e : Nat) (hb : b < 2 ^ d) :
    ∀ (n acc : Nat), acc < 2 ^ d → (∀ s, ev T acc s = iter (ev T b) (e >>> n) s) →
      (powmodAux P d b e n acc < 2 ^ d ∧ ∀ s, ev T (powmodAux P d b e n acc) s = iter (ev T b) e s) := by
  intro n
  induction n with
  | zero => intro acc hacc h; exact ⟨hacc, by simpa [powmodAux] using h⟩
  | succ n ih =>
    intro acc hacc h
    unfold powmodAux
    simp only [forceNat_eq]
    have hsq := mulmod_spec T hA acc acc hacc hacc
    have hstep : e >>> n = 2 * (e >>> (n+1)) + (if e.testBit n then 1 else 0) := shiftRight_split e n
    apply ih
    · split
      · exact (mulmod_spec T hA _ b hsq.1 hb).1
      · exact hsq.1
    · intro s
      split
      · rename_i hbit
        rw [(mulmod_spec T hA _ b hsq.1 hb).2, hsq.2, h, h, hstep]
        simp only [hbit, if_true]
        rw [← iter_add, show e >>> (n+1) + e >>> (n+1) = 2 * (e >>> (n+1)) by omega,
          show 2 * (e >>> (n+1)) + 1 = 1 + 2 * (e >>> (n+1)) by omega, iter_add]
        rfl
      · rename_i hbit
        rw [hsq.2, h, h, hstep]
        simp only [hbit]
        rw [← iter_add]; congr 1; simp; omega

theorem powmod_spec (T : Lin V) {P d : Nat} (hA : Annihilates T P d) (hd : 1 ≤ d) (b e bits : Nat) (hb : b < 2 ^ d)
    (he : e < 2 ^ bits) :
    powmod P d b e bits < 2 ^ d ∧ ∀ s, ev T (powmod P d b e bits) s = iter (ev T b) e s := by
  apply powmodAux_spec T hA b e hb bits 1
  · calc 1 = 2 ^ 0 := rfl
      _ < 2 ^ d := Nat.pow_lt_pow_right (by omega) (by omega)
  · intro s
    have : e >>> bits = 0 := by rw [Nat.shiftRight_eq_div_pow]; exact Nat.div_eq_of_lt he
    rw [this, ev_one]; rfl

/-- powers of x: `ev (x^e mod P) = T^e` -/
theorem powmod_two (T : Lin V) {P d : Nat} (hA : Annihilates T P d) (hd : 2 ≤ d) (e bits : Nat) (he : e < 2 ^ bits) (s : V) :
    ev T (powmod P d 2 e bits) s = iter T.f e s := by
  have h2 : (2:Nat) < 2 ^ d := by
    calc 2 = 2 ^ 1 := rfl
      _ < 2 ^ d := Nat.pow_lt_pow_right (by omega) (by omega)
  rw [(powmod_spec T hA (by omega) 2 e bits h2 he).2]
  have : ev T 2 = T.f := by funext s; exact ev_two T s
  rw [this]

/-- inverse certificate: if `u * (x^e + 1) ≡ 1 (mod P)` then `T^e s = s` forces `s = 0` -/
theorem no_period_of_cert (T : Lin V) {P d : Nat} (hA : Annihilates T P d) (hd : 2 ≤ d) (e bits u : Nat)
    (he : e < 2 ^ bits) (hu : u < 2 ^ d)
    (hcert : mulmod P d u (powmod P d 2 e bits ^^^ 1) = 1) (s : V) (hs : iter T.f e s = s) : s = 0 := by
  have h2 : (2:Nat) < 2 ^ d := by
    calc 2 = 2 ^ 1 := rfl
      _ < 2 ^ d := Nat.pow_lt_pow_right (by omega) (by omega)
  have hp := powmod_spec T hA (by omega) 2 e bits h2 he
  have h1 : (1:Nat) < 2 ^ d := by omega
  have hc : powmod P d 2 e bits ^^^ 1 < 2 ^ d := Nat.xor_lt_two_pow hp.1 h1
  have hm := (mulmod_spec T hA u _ hu hc).2 s
  rw [hcert, ev_one, ev_xor, powmod_two T hA hd e bits he, hs, ev_one, add_self'] at hm
  -- ev u 0 = 0
  have hz : ev T u (0 : V) = 0 := by
    have := ev_add T u (0:V) 0
    rw [add_zero'] at this
    calc ev T u 0 = ev T u 0 + ev T u 0 := this
      _ = 0 := add_self' _
  rw [hm, hz]

end Urandom.GF2
