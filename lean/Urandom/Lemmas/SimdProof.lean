import Urandom.Generated.Simd
import Urandom.Lemmas.ChaChaBase
/-
The translated SIMD programs (`Generated/Simd.lean`, from `src/rng/chacha/{slp,sse2,avx2}.rs`) compute the four
ChaCha blocks of the row-wise model - and hence Bernstein's block function - for every state and every round count.

Proof by reflection.  The machine is generic in its lane type; it is run by the kernel (`decide +kernel`) on
SYMBOLIC lanes - terms over 128 variables, sixteen per block - which establishes, per program, three closed facts:
the code before the loop puts the rows of the input blocks where the layout table says, one trip round the loop is
one double round on all four blocks in that layout, the code after the loop adds the input blocks and stores the
64 words in order.  Every instruction commutes with every homomorphism of lanes (`exec_map`), evaluation of terms
under a valuation is one, so the three facts hold for all 32-bit contents; the loop is an induction over the trip
count.
-/
set_option linter.unusedSectionVars false
namespace Urandom.Simd
open Urandom Urandom.ChaCha

/-! ### the specification side, generic in the lane type -/
section generic
variable {α : Type} [LaneOps α]

/-- `rol!` as the code writes it: two shifts and an or -/
def rolS (x : α) (l r : Nat) : α := LaneOps.or (LaneOps.shl x l) (LaneOps.shr x r)

/-- the quarter round with the rotations written as shift pairs -/
def qrS (a b c d : α) : α × α × α × α :=
  let a := LaneOps.add a b; let d := rolS (LaneOps.xor d a) 16 16
  let c := LaneOps.add c d; let b := rolS (LaneOps.xor b c) 12 20
  let a := LaneOps.add a b; let d := rolS (LaneOps.xor d a) 8 24
  let c := LaneOps.add c d; let b := rolS (LaneOps.xor b c) 7 25
  (a, b, c, d)

def dbl (s : St α) : St α := specDouble qrS s

def addG (s t : St α) : St α :=
  ⟨LaneOps.add s.x0 t.x0, LaneOps.add s.x1 t.x1, LaneOps.add s.x2 t.x2, LaneOps.add s.x3 t.x3,
   LaneOps.add s.x4 t.x4, LaneOps.add s.x5 t.x5, LaneOps.add s.x6 t.x6, LaneOps.add s.x7 t.x7,
   LaneOps.add s.x8 t.x8, LaneOps.add s.x9 t.x9, LaneOps.add s.x10 t.x10, LaneOps.add s.x11 t.x11,
   LaneOps.add s.x12 t.x12, LaneOps.add s.x13 t.x13, LaneOps.add s.x14 t.x14, LaneOps.add s.x15 t.x15⟩

def zeroSt : St α :=
  ⟨LaneOps.zero, LaneOps.zero, LaneOps.zero, LaneOps.zero, LaneOps.zero, LaneOps.zero, LaneOps.zero, LaneOps.zero,
   LaneOps.zero, LaneOps.zero, LaneOps.zero, LaneOps.zero, LaneOps.zero, LaneOps.zero, LaneOps.zero, LaneOps.zero⟩

def rowOf (s : St α) (r : Nat) : Vec α := (s.words.drop (4 * r)).take 4

def packReg (S : List (St α)) (segs : List (Nat × Nat)) : Vec α :=
  segs.flatMap fun br => rowOf (S.getD br.1 zeroSt) br.2

/-- the register file when the loop is entered / left: live registers hold rows of the current matrices `S`,
the others rows of the input blocks `W`, as the translator's layout table says; loop-local registers are empty -/
def packRegs (p : Prog) (S W : List (St α)) : List (Vec α) :=
  (List.range p.nRegs).map fun i =>
    if p.loopLocal.contains i then [] else packReg (if p.live.contains i then S else W) (p.layout.getD i [])

def Wof (W : List (St α)) : List (List α) := W.map St.words

def out0 : List α := List.replicate 64 LaneOps.zero

def outOf (S W : List (St α)) : List α := (List.zipWith addG S W).flatMap St.words

end generic

/-! ### symbolic lanes -/

inductive Term where
  | var (i : Nat)
  | zero
  | add (x y : Term)
  | xor (x y : Term)
  | or (x y : Term)
  | shl (x : Term) (k : Nat)
  | shr (x : Term) (k : Nat)
deriving DecidableEq

instance : LaneOps Term := ⟨.zero, .add, .xor, .or, .shl, .shr⟩

def varSt (b : Nat) : St Term :=
  ⟨.var (16 * b), .var (16 * b + 1), .var (16 * b + 2), .var (16 * b + 3), .var (16 * b + 4), .var (16 * b + 5),
   .var (16 * b + 6), .var (16 * b + 7), .var (16 * b + 8), .var (16 * b + 9), .var (16 * b + 10), .var (16 * b + 11),
   .var (16 * b + 12), .var (16 * b + 13), .var (16 * b + 14), .var (16 * b + 15)⟩

def ST : List (St Term) := [varSt 0, varSt 1, varSt 2, varSt 3]
def WT : List (St Term) := [varSt 4, varSt 5, varSt 6, varSt 7]

/-- the three closed facts about a translated program, decided by kernel evaluation on symbolic lanes -/
structure CorrectT (p : Prog) : Prop where
  pre : clear p.loopLocal (execAll (Wof WT) ⟨List.replicate p.nRegs [], out0⟩ p.pre) = ⟨packRegs p WT WT, out0⟩
  body : p.iter (Wof WT) ⟨packRegs p ST WT, out0⟩ = ⟨packRegs p (ST.map dbl) WT, out0⟩
  post : (execAll (Wof WT) ⟨packRegs p ST WT, out0⟩ p.post).out = outOf ST WT

theorem slp_T : CorrectT Gen.slp := ⟨by decide +kernel, by decide +kernel, by decide +kernel⟩
theorem sse2_T : CorrectT Gen.sse2 := ⟨by decide +kernel, by decide +kernel, by decide +kernel⟩
theorem avx2_T : CorrectT Gen.avx2 := ⟨by decide +kernel, by decide +kernel, by decide +kernel⟩

/-! ### every instruction commutes with every homomorphism of lanes -/

structure Hom {α β : Type} [LaneOps α] [LaneOps β] (f : α → β) : Prop where
  zero : f LaneOps.zero = LaneOps.zero
  add : ∀ x y, f (LaneOps.add x y) = LaneOps.add (f x) (f y)
  xor : ∀ x y, f (LaneOps.xor x y) = LaneOps.xor (f x) (f y)
  or : ∀ x y, f (LaneOps.or x y) = LaneOps.or (f x) (f y)
  shl : ∀ x k, f (LaneOps.shl x k) = LaneOps.shl (f x) k
  shr : ∀ x k, f (LaneOps.shr x k) = LaneOps.shr (f x) k

section hom
variable {α β : Type} [LaneOps α] [LaneOps β] (f : α → β)

def M.map (m : M α) : M β := ⟨m.regs.map (List.map f), m.out.map f⟩

def stMap (s : St α) : St β :=
  ⟨f s.x0, f s.x1, f s.x2, f s.x3, f s.x4, f s.x5, f s.x6, f s.x7, f s.x8, f s.x9, f s.x10, f s.x11, f s.x12, f s.x13, f s.x14, f s.x15⟩

theorem getD_map_nil (l : List (List α)) (i : Nat) : (l.map (List.map f)).getD i [] = (l.getD i []).map f := by
  simp only [List.getD_eq_getElem?_getD, List.getElem?_map]
  cases l[i]? <;> simp

theorem getD_map_zero (hf : Hom f) (l : List α) (i : Nat) : (l.map f).getD i LaneOps.zero = f (l.getD i LaneOps.zero) := by
  simp only [List.getD_eq_getElem?_getD, List.getElem?_map]
  cases l[i]? <;> simp [hf.zero]

theorem sexp_map (hf : Hom f) (args : List (Vec α)) (e : SExp) :
    e.eval (args.map (List.map f)) = f (e.eval args) := by
  induction e with
  | arg v l => simp only [SExp.eval, getD_map_nil, getD_map_zero f hf]
  | add x y ihx ihy => simp only [SExp.eval, ihx, ihy, hf.add]
  | xor x y ihx ihy => simp only [SExp.eval, ihx, ihy, hf.xor]
  | or x y ihx ihy => simp only [SExp.eval, ihx, ihy, hf.or]
  | shl x k ih => simp only [SExp.eval, ih, hf.shl]
  | shr x k ih => simp only [SExp.eval, ih, hf.shr]

theorem shufVec_map (hf : Hom f) (v : Vec α) (imm : Nat) : shufVec (v.map f) imm = (shufVec v imm).map f := by
  simp only [shufVec, List.length_map, List.map_map]
  apply List.map_congr_left
  intro i _
  simp only [Function.comp, getD_map_zero f hf]

theorem permSel_map (hf : Hom f) (x y : Vec α) (c : Nat) : permSel (x.map f) (y.map f) c = (permSel x y c).map f := by
  unfold permSel
  split
  · simp [hf.zero]
  · split <;> simp [List.map_take, List.map_drop]

theorem storeAt_map (out : List α) (w : Nat) (v : Vec α) : storeAt (out.map f) w (v.map f) = (storeAt out w v).map f := by
  simp [storeAt, List.map_take, List.map_drop]

theorem set_map (l : List (Vec α)) (d : Nat) (v : Vec α) : (l.map (List.map f)).set d (v.map f) = (l.set d v).map (List.map f) := by
  rw [List.map_set]

theorem exec_map (hf : Hom f) (W : List (List α)) (m : M α) (i : Instr) :
    exec (W.map (List.map f)) (m.map f) i = (exec W m i).map f := by
  cases i with
  | load d blk row =>
    simp only [exec, M.map, getD_map_nil, ← List.map_drop, ← List.map_take, set_map]
  | mov d s => simp only [exec, M.map, getD_map_nil, set_map]
  | add d x y =>
    simp only [exec, M.map, getD_map_nil]
    rw [← set_map]; congr 2
    rw [List.zipWith_map, List.map_zipWith]; congr 1; funext a b; exact (hf.add a b).symm
  | xor d x y =>
    simp only [exec, M.map, getD_map_nil]
    rw [← set_map]; congr 2
    rw [List.zipWith_map, List.map_zipWith]; congr 1; funext a b; exact (hf.xor a b).symm
  | or d x y =>
    simp only [exec, M.map, getD_map_nil]
    rw [← set_map]; congr 2
    rw [List.zipWith_map, List.map_zipWith]; congr 1; funext a b; exact (hf.or a b).symm
  | slli d s k =>
    simp only [exec, M.map, getD_map_nil]
    rw [← set_map]; congr 2
    simp only [List.map_map]; congr 1; funext a; exact (hf.shl a k).symm
  | srli d s k =>
    simp only [exec, M.map, getD_map_nil]
    rw [← set_map]; congr 2
    simp only [List.map_map]; congr 1; funext a; exact (hf.shr a k).symm
  | shuf d s imm => simp only [exec, M.map, getD_map_nil, shufVec_map f hf, set_map]
  | setr d x y => simp only [exec, M.map, getD_map_nil, ← List.map_append, set_map]
  | perm128 d x y imm => simp only [exec, M.map, getD_map_nil, permSel_map f hf, ← List.map_append, set_map]
  | lanes d srcs es =>
    simp only [exec, M.map]
    rw [← set_map]; congr 2
    simp only [List.map_map]
    apply List.map_congr_left
    intro e _
    simp only [Function.comp]
    rw [← sexp_map f hf]
    congr 1
    simp only [List.map_map]
    apply List.map_congr_left
    intro r _
    simp only [Function.comp, getD_map_nil]
  | store w s => simp only [exec, M.map, getD_map_nil, storeAt_map]

theorem execAll_map (hf : Hom f) (W : List (List α)) (m : M α) (is : List Instr) :
    execAll (W.map (List.map f)) (m.map f) is = (execAll W m is).map f := by
  induction is generalizing m with
  | nil => rfl
  | cons i is ih =>
    simp only [execAll, List.foldl_cons] at ih ⊢
    rw [exec_map f hf, ih]

theorem clear_map (locals : List Nat) (m : M α) : clear locals (m.map f) = (clear locals m).map f := by
  simp only [clear, M.map]
  congr 1
  induction locals generalizing m with
  | nil => rfl
  | cons r rs ih =>
    simp only [List.foldl_cons]
    have := ih ⟨m.regs.set r [], m.out⟩
    simp only at this
    rw [← this, List.map_set]
    rfl

theorem iter_map (hf : Hom f) (p : Prog) (W : List (List α)) (m : M α) :
    p.iter (W.map (List.map f)) (m.map f) = (p.iter W m).map f := by
  simp only [Prog.iter, execAll_map f hf, clear_map]

/-! ### the layout commutes too -/

theorem words_map (s : St α) : (stMap f s).words = s.words.map f := rfl

theorem Wof_map (W : List (St α)) : Wof (W.map (stMap f)) = (Wof W).map (List.map f) := by
  simp only [Wof, List.map_map]
  apply List.map_congr_left
  intro s _
  rfl

theorem zeroSt_map (hf : Hom f) : stMap f (zeroSt : St α) = zeroSt := by
  simp only [stMap, zeroSt, hf.zero]

theorem packReg_map (hf : Hom f) (S : List (St α)) (segs : List (Nat × Nat)) :
    packReg (S.map (stMap f)) segs = (packReg S segs).map f := by
  simp only [packReg, List.map_flatMap]
  congr 1
  funext br
  have : (S.map (stMap f)).getD br.1 zeroSt = stMap f (S.getD br.1 zeroSt) := by
    simp only [List.getD_eq_getElem?_getD, List.getElem?_map]
    cases S[br.1]? <;> simp [zeroSt_map f hf]
  rw [this]
  simp only [rowOf, words_map, List.map_drop, List.map_take]

theorem packRegs_map (hf : Hom f) (p : Prog) (S W : List (St α)) :
    packRegs p (S.map (stMap f)) (W.map (stMap f)) = (packRegs p S W).map (List.map f) := by
  simp only [packRegs, List.map_map]
  apply List.map_congr_left
  intro i _
  simp only [Function.comp]
  split
  · rfl
  · split <;> exact packReg_map f hf _ _

theorem out0_map (hf : Hom f) : (out0 : List α).map f = out0 := by
  simp [out0, hf.zero]

theorem dbl_map (hf : Hom f) (s : St α) : stMap f (dbl s) = dbl (stMap f s) := by
  simp only [dbl, specDouble, qrS, rolS, stMap, hf.add, hf.xor, hf.or, hf.shl, hf.shr]

theorem addG_map (hf : Hom f) (s t : St α) : stMap f (addG s t) = addG (stMap f s) (stMap f t) := by
  simp only [addG, stMap, hf.add]

end hom

/-! ### from symbolic lanes to all 32-bit contents -/

def Term.eval (v : Nat → W32) : Term → W32
  | .var i => v i
  | .zero => 0
  | .add x y => x.eval v + y.eval v
  | .xor x y => x.eval v ^^^ y.eval v
  | .or x y => x.eval v ||| y.eval v
  | .shl x k => x.eval v <<< k
  | .shr x k => x.eval v >>> k

theorem eval_hom (v : Nat → W32) : Hom (Term.eval v) := ⟨rfl, fun _ _ => rfl, fun _ _ => rfl, fun _ _ => rfl, fun _ _ => rfl, fun _ _ => rfl⟩

/-- the valuation that reads variable `16 b + i` as word `i` of the `b`-th matrix of a list -/
def val (L : List (St W32)) : Nat → W32 :=
  fun k => ((L.getD (k / 16) zeroSt).words).getD (k % 16) 0

theorem stMap_varSt (L : List (St W32)) (b : Nat) : stMap (Term.eval (val L)) (varSt b) = L.getD b zeroSt := by
  have d : ∀ i, i < 16 → (16 * b + i) / 16 = b ∧ (16 * b + i) % 16 = i := by intro i hi; omega
  have d0 : (16 * b) / 16 = b ∧ (16 * b) % 16 = 0 := by omega
  simp only [stMap, varSt, Term.eval, val]
  rw [d0.1, d0.2, (d 1 (by decide)).1, (d 1 (by decide)).2, (d 2 (by decide)).1, (d 2 (by decide)).2, (d 3 (by decide)).1, (d 3 (by decide)).2,
    (d 4 (by decide)).1, (d 4 (by decide)).2, (d 5 (by decide)).1, (d 5 (by decide)).2, (d 6 (by decide)).1, (d 6 (by decide)).2,
    (d 7 (by decide)).1, (d 7 (by decide)).2, (d 8 (by decide)).1, (d 8 (by decide)).2, (d 9 (by decide)).1, (d 9 (by decide)).2,
    (d 10 (by decide)).1, (d 10 (by decide)).2, (d 11 (by decide)).1, (d 11 (by decide)).2, (d 12 (by decide)).1, (d 12 (by decide)).2,
    (d 13 (by decide)).1, (d 13 (by decide)).2, (d 14 (by decide)).1, (d 14 (by decide)).2, (d 15 (by decide)).1, (d 15 (by decide)).2]
  cases L.getD b zeroSt
  rfl

theorem ST_val (s1 s2 s3 s4 w1 w2 w3 w4 : St W32) :
    ST.map (stMap (Term.eval (val [s1, s2, s3, s4, w1, w2, w3, w4]))) = [s1, s2, s3, s4] := by
  simp only [ST, List.map_cons, List.map_nil, stMap_varSt]
  rfl

theorem WT_val (s1 s2 s3 s4 w1 w2 w3 w4 : St W32) :
    WT.map (stMap (Term.eval (val [s1, s2, s3, s4, w1, w2, w3, w4]))) = [w1, w2, w3, w4] := by
  simp only [WT, List.map_cons, List.map_nil, stMap_varSt]
  rfl

/-- the same three facts for arbitrary 32-bit contents -/
structure Correct (p : Prog) : Prop where
  pre : ∀ w1 w2 w3 w4 : St W32,
    clear p.loopLocal (execAll (Wof [w1, w2, w3, w4]) ⟨List.replicate p.nRegs [], out0⟩ p.pre)
      = ⟨packRegs p [w1, w2, w3, w4] [w1, w2, w3, w4], out0⟩
  body : ∀ s1 s2 s3 s4 w1 w2 w3 w4 : St W32,
    p.iter (Wof [w1, w2, w3, w4]) ⟨packRegs p [s1, s2, s3, s4] [w1, w2, w3, w4], out0⟩
      = ⟨packRegs p [dbl s1, dbl s2, dbl s3, dbl s4] [w1, w2, w3, w4], out0⟩
  post : ∀ s1 s2 s3 s4 w1 w2 w3 w4 : St W32,
    (execAll (Wof [w1, w2, w3, w4]) ⟨packRegs p [s1, s2, s3, s4] [w1, w2, w3, w4], out0⟩ p.post).out
      = outOf [s1, s2, s3, s4] [w1, w2, w3, w4]

theorem M_map_pack (f : Term → W32) (hf : Hom f) (p : Prog) (S W : List (St Term)) :
    (⟨packRegs p S W, out0⟩ : M Term).map f = ⟨packRegs p (S.map (stMap f)) (W.map (stMap f)), out0⟩ := by
  simp only [M.map, packRegs_map f hf, out0_map f hf]

theorem M_map_init (f : Term → W32) (hf : Hom f) (n : Nat) :
    (⟨List.replicate n [], out0⟩ : M Term).map f = ⟨List.replicate n [], out0⟩ := by
  simp only [M.map, out0_map f hf, List.map_replicate, List.map_nil]

theorem correct_of_T (p : Prog) (h : CorrectT p) : Correct p := by
  refine ⟨?_, ?_, ?_⟩
  · intro w1 w2 w3 w4
    have hf := eval_hom (val [w1, w2, w3, w4, w1, w2, w3, w4])
    have := congrArg (M.map (Term.eval (val [w1, w2, w3, w4, w1, w2, w3, w4]))) h.pre
    rw [← clear_map, ← execAll_map _ hf, M_map_init _ hf, M_map_pack _ hf, ← Wof_map, WT_val] at this
    exact this
  · intro s1 s2 s3 s4 w1 w2 w3 w4
    have hf := eval_hom (val [s1, s2, s3, s4, w1, w2, w3, w4])
    have := congrArg (M.map (Term.eval (val [s1, s2, s3, s4, w1, w2, w3, w4]))) h.body
    rw [← iter_map _ hf, M_map_pack _ hf, M_map_pack _ hf, ← Wof_map, WT_val, ST_val] at this
    have hS : List.map (stMap (Term.eval (val [s1, s2, s3, s4, w1, w2, w3, w4]))) (List.map dbl ST) = [dbl s1, dbl s2, dbl s3, dbl s4] := by
      have e : ∀ t, stMap (Term.eval (val [s1, s2, s3, s4, w1, w2, w3, w4])) (dbl t) = dbl (stMap (Term.eval (val [s1, s2, s3, s4, w1, w2, w3, w4])) t) :=
        fun t => dbl_map _ hf t
      simp only [ST, List.map_cons, List.map_nil, e, stMap_varSt]
      rfl
    rw [this, hS]
  · intro s1 s2 s3 s4 w1 w2 w3 w4
    have hf := eval_hom (val [s1, s2, s3, s4, w1, w2, w3, w4])
    have := congrArg (List.map (Term.eval (val [s1, s2, s3, s4, w1, w2, w3, w4]))) h.post
    have e1 : ∀ m : M Term, List.map (Term.eval (val [s1, s2, s3, s4, w1, w2, w3, w4])) m.out = (m.map (Term.eval (val [s1, s2, s3, s4, w1, w2, w3, w4]))).out := fun _ => rfl
    rw [e1, ← execAll_map _ hf, M_map_pack _ hf, ← Wof_map, WT_val, ST_val] at this
    rw [this]
    simp only [outOf, ST, WT, List.zipWith_cons_cons, List.zipWith_nil_right, List.flatMap_cons, List.flatMap_nil, List.map_append,
      ← words_map, addG_map _ hf]
    rfl

/-! ### the loop, and the whole function -/

theorem loop_eq (p : Prog) (h : Correct p) (n : Nat) (s1 s2 s3 s4 w1 w2 w3 w4 : St W32) :
    iterN (p.iter (Wof [w1, w2, w3, w4])) n ⟨packRegs p [s1, s2, s3, s4] [w1, w2, w3, w4], out0⟩
      = ⟨packRegs p [iterN dbl n s1, iterN dbl n s2, iterN dbl n s3, iterN dbl n s4] [w1, w2, w3, w4], out0⟩ := by
  induction n generalizing s1 s2 s3 s4 with
  | zero => rfl
  | succ n ih =>
    simp only [iterN]
    rw [h.body, ih]

theorem run_eq (p : Prog) (h : Correct p) (n : Nat) (w1 w2 w3 w4 : St W32) :
    p.run n (Wof [w1, w2, w3, w4])
      = outOf [iterN dbl n w1, iterN dbl n w2, iterN dbl n w3, iterN dbl n w4] [w1, w2, w3, w4] := by
  unfold Prog.run
  simp only []
  have hp := h.pre w1 w2 w3 w4
  unfold out0 at hp
  rw [hp]
  have hl := loop_eq p h n w1 w2 w3 w4 w1 w2 w3 w4
  unfold out0 at hl
  rw [hl]
  exact h.post _ _ _ _ _ _ _ _

/-- the shift-pair rotation is the rotation -/
theorem rolS_eq (x : W32) (l r : Nat) (hl : l < 32) (hr : r = 32 - l) : rolS x l r = x.rotateLeft l := by
  subst hr
  show (x <<< l) ||| (x >>> (32 - l)) = _
  rw [BitVec.rotateLeft_def, Nat.mod_eq_of_lt hl]

theorem qrS_eq : (qrS : W32 → W32 → W32 → W32 → W32 × W32 × W32 × W32) = qr32 := by
  funext a b c d
  simp only [qrS, qr32]
  rw [rolS_eq _ 16 16 (by decide) rfl, rolS_eq _ 12 20 (by decide) rfl, rolS_eq _ 8 24 (by decide) rfl, rolS_eq _ 7 25 (by decide) rfl]
  rfl

theorem dbl_eq : (dbl : St W32 → St W32) = specDouble qr32 := by
  funext s
  simp only [dbl, qrS_eq]

/-- the words of the four blocks of the row-wise model -/
def batchWords (b : St W32 × St W32 × St W32 × St W32) : List W32 :=
  b.1.words ++ b.2.1.words ++ b.2.2.1.words ++ b.2.2.2.words

theorem addCounter_zero (s : State) : s.addCounter 0#64 = s := by
  unfold State.addCounter
  rw [BitVec.add_zero]
  cases s
  simp only [State.setCounter, State.getCounter, ChaChaBase.lo32_join64, ChaChaBase.hi32_join64]

/-- **a translated program that passes the three kernel-decided facts, loops `N / 2` times over the input blocks at
counter offsets 0, 1, 2, 3 and then adds 4 to the counter IS the row-wise model `ChaCha.block`** -/
theorem block_eq (p : Prog) (h : CorrectT p) (hoff : p.ctrOffsets = [0, 1, 2, 3]) (hstep : p.ctrStep = 4) (hdiv : p.loopDiv = 2)
    (N : Nat) (s : State) :
    p.block N s = (batchWords (ChaCha.block N s).1, (ChaCha.block N s).2) := by
  have hc := correct_of_T p h
  unfold Prog.block
  simp only [hoff, hstep, hdiv, List.map_cons, List.map_nil]
  have e : [(s.addCounter (BitVec.ofNat 64 0)).getState.words, (s.addCounter (BitVec.ofNat 64 1)).getState.words,
            (s.addCounter (BitVec.ofNat 64 2)).getState.words, (s.addCounter (BitVec.ofNat 64 3)).getState.words]
        = Wof [s.getState, (s.addCounter 1).getState, (s.addCounter 2).getState, (s.addCounter 3).getState] := by
    have : s.addCounter (BitVec.ofNat 64 0) = s := addCounter_zero s
    rw [this]
    rfl
  rw [e, run_eq p hc]
  have hout : ∀ a b c d w1 w2 w3 w4 : St W32, outOf [a, b, c, d] [w1, w2, w3, w4]
      = (addSt a w1).words ++ (addSt b w2).words ++ (addSt c w3).words ++ (addSt d w4).words := by
    intro a b c d w1 w2 w3 w4
    simp only [outOf, List.zipWith_cons_cons, List.zipWith_nil_right, List.flatMap_cons, List.flatMap_nil, List.append_nil, List.append_assoc]
    rfl
  rw [hout]
  simp only [ChaCha.block, batchWords, ChaChaBase.rowBlock_eq_spec, specBlockOf, dbl_eq]
  congr 1

end Urandom.Simd
