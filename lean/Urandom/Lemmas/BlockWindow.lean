import Urandom.Lemmas.BlockSim
/-
Bounds on the positions a block generator issues, for the "actual coordinates" statement of C03:
every issued position has stream id `≥ S₀`, block counter `≥ C₀` (where the generator started) and
block counter `<` the core's current counter.  With the `Past` invariant this confines all issued
positions to a box on which reduction modulo 2^64 is injective as long as fewer than 2^64 jumps and
at most 2^64 blocks were consumed.
-/
namespace Urandom.Block

/-- stream id `≥ S₀`, counter in `[C₀, core counter)` -/
structure Box (S₀ C₀ : Nat) (s : BS (Nat × Nat) Pos) (issued : List Pos) : Prop where
  core : S₀ ≤ s.core.1 ∧ C₀ ≤ s.core.2
  buf : s.index < 256 → ∀ i, s.index ≤ i → i < 256 → S₀ ≤ (s.buf i).1 ∧ C₀ ≤ (s.buf i).2.1 ∧ (s.buf i).2.1 < s.core.2
  issued : ∀ p ∈ issued, S₀ ≤ p.1 ∧ C₀ ≤ p.2.1 ∧ p.2.1 < s.core.2

variable {S₀ C₀ : Nat}

theorem box_serve {s : BS (Nat × Nat) Pos} {issued : List Pos} (h : Box S₀ C₀ s issued) (n : Nat)
    (hn : s.index + n ≤ 256) : Box S₀ C₀ { s with index := s.index + n } (issued ++ take s.buf s.index n) := by
  refine ⟨h.core, ?_, ?_⟩
  · intro hlt i hi hi'
    simp only at hlt hi
    exact h.buf (by omega) i (by omega) hi'
  · intro p hp
    rw [List.mem_append] at hp
    rcases hp with hp | hp
    · exact h.issued p hp
    · obtain ⟨i, hi, rfl⟩ := mem_take.1 hp
      exact h.buf (by omega) _ (by omega) (by omega)

theorem box_refill {s : BS (Nat × Nat) Pos} {issued : List Pos} (h : Box S₀ C₀ s issued) :
    Box S₀ C₀ (refill posCore s) issued := by
  obtain ⟨core, index, buf⟩ := s
  obtain ⟨S, C⟩ := core
  have hc := h.core
  simp only at hc
  refine ⟨⟨hc.1, by simp [refill, posCore]; omega⟩, ?_, ?_⟩
  · intro _ i _ hi
    simp only [refill, posCore, posBatch]
    omega
  · intro p hp
    have := h.issued p hp
    simp only [refill, posCore] at this ⊢
    omega

theorem box_nextN {s : BS (Nat × Nat) Pos} {issued : List Pos} (h : Box S₀ C₀ s issued) (n : Nat) (hn : n ≤ 256) :
    Box S₀ C₀ (nextN posCore n s).2 (issued ++ (nextN posCore n s).1) := by
  unfold nextN
  simp only
  split
  · exact box_serve (box_refill h) n (by simp [refill]; omega)
  · exact box_serve h n (by omega)

theorem box_jump {s : BS (Nat × Nat) Pos} {issued : List Pos} (h : Box S₀ C₀ s issued) :
    Box S₀ C₀ (jump posCore s) issued := by
  refine ⟨?_, ?_, ?_⟩
  · have := h.core; simp only [jump, posCore]; omega
  · intro hlt; simp [jump] at hlt
  · intro p hp; have := h.issued p hp; simpa [jump, posCore] using this

theorem box_directOne {s : BS (Nat × Nat) Pos} {issued : List Pos} (h : Box S₀ C₀ s issued) :
    Box S₀ C₀ { s with core := (posCore.gen s.core).2 } (issued ++ take (posCore.gen s.core).1 0 256) := by
  obtain ⟨core, index, buf⟩ := s
  obtain ⟨S, C⟩ := core
  have hc := h.core
  simp only at hc
  refine ⟨⟨hc.1, by simp [posCore]; omega⟩, ?_, ?_⟩
  · intro hlt i hi hi'
    have := h.buf hlt i hi hi'
    simp only [posCore] at this ⊢
    omega
  · intro p hp
    rw [List.mem_append] at hp
    rcases hp with hp | hp
    · have := h.issued p hp
      simp only [posCore] at this ⊢
      omega
    · obtain ⟨i, hi, rfl⟩ := mem_take.1 hp
      simp only [posCore, posBatch]
      omega

theorem box_direct (k : Nat) : ∀ {s : BS (Nat × Nat) Pos} {issued : List Pos}, Box S₀ C₀ s issued →
    Box S₀ C₀ { s with core := (direct posCore k s.core).2 } (issued ++ (direct posCore k s.core).1) := by
  induction k with
  | zero => intro s issued h; simpa [direct] using h
  | succ k ih =>
    intro s issued h
    have h2 := ih (box_directOne h)
    simp only [direct]
    rw [← List.append_assoc]
    exact h2

theorem box_fillRem {s : BS (Nat × Nat) Pos} {issued : List Pos} (h : Box S₀ C₀ s issued) (len : Nat) (hl : len < 256) :
    Box S₀ C₀ (fillRem posCore len s).2 (issued ++ (fillRem posCore len s).1) := by
  unfold fillRem
  simp only
  split
  · rename_i hle
    by_cases hidx : s.index < 256
    · have e : min s.index 256 = s.index := by omega
      rw [e] at hle ⊢
      exact box_serve h len (by omega)
    · have hl0 : len = 0 := by omega
      subst hl0
      have : take s.buf (min s.index 256) 0 = [] := by simp [take]
      refine ⟨h.core, fun hlt => absurd hlt (by simpa using hidx), ?_⟩
      simpa [this] using h.issued
  · rename_i hgt
    by_cases hidx : s.index < 256
    · have e : min s.index 256 = s.index := by omega
      rw [e] at hgt ⊢
      have h1 := box_serve h (256 - s.index) (by omega)
      have h2 := box_refill h1
      have h3 := box_serve h2 (len - (256 - s.index)) (by simp [refill]; omega)
      simp only [refill] at h3 ⊢
      rw [← List.append_assoc]
      simpa using h3
    · have e : min s.index 256 = 256 := by omega
      rw [e]
      have h2 := box_refill h
      have h3 := box_serve h2 len (by simp [refill]; omega)
      have : take s.buf 256 (256 - 256) = [] := by simp [take]
      simp only [refill] at h3 ⊢
      simpa [this] using h3

theorem box_fill {s : BS (Nat × Nat) Pos} {issued : List Pos} (h : Box S₀ C₀ s issued) (len : Nat) :
    Box S₀ C₀ (fill posCore len s).2 (issued ++ (fill posCore len s).1) := by
  unfold fill
  simp only
  have h1 := box_direct (len / 256) h
  split
  · exact h1
  · have h2 := box_fillRem h1 (len % 256) (Nat.mod_lt _ (by omega))
    rw [← List.append_assoc]
    exact h2

theorem box_stepOp {s : BS (Nat × Nat) Pos} {issued : List Pos} (h : Box S₀ C₀ s issued) (op : Op) :
    Box S₀ C₀ (stepOp posCore s op).2 (issued ++ (stepOp posCore s op).1) := by
  cases op with
  | u32 => exact box_nextN h 4 (by omega)
  | u64 => exact box_nextN h 8 (by omega)
  | f32 => exact box_nextN h 4 (by omega)
  | f64 => exact box_nextN h 8 (by omega)
  | fill n => exact box_fill h n
  | jump => simpa [stepOp] using box_jump h

theorem box_run (ops : List Op) : ∀ {s : BS (Nat × Nat) Pos} {issued : List Pos}, Box S₀ C₀ s issued →
    Box S₀ C₀ (run posCore s ops).2 (issued ++ (run posCore s ops).1) := by
  induction ops with
  | nil => intro s issued h; simpa [run] using h
  | cons op ops ih =>
    intro s issued h
    have := ih (box_stepOp h op)
    simp only [run]
    rw [← List.append_assoc]
    exact this

end Urandom.Block
