import Urandom.Lemmas.IEEERoundTrip
/-
Exact cases of the IEEE model used by the properties: `x - x`, `x ± 0`, `u · 0`.
-/
namespace Urandom.IEEE

theorem shiftLeft_eq_zero_iff (m k : ℕ) : m <<< k = 0 ↔ m = 0 := by
  rw [Nat.shiftLeft_eq]
  constructor
  · intro h
    rcases Nat.mul_eq_zero.1 h with h | h
    · exact h
    · exact absurd h (by positivity)
  · intro h; simp [h]

/-- `x - x = +0` exactly (round to nearest) -/
theorem addFin_self_neg (s : Bool) (m : ℕ) (e : ℤ) : Val.addFin s m e (!s) m e = .fin false 0 e := by
  cases s <;> simp [Val.addFin]

/-- adding a zero on the right: the sum is the left operand, presented at the smaller exponent -/
theorem addFin_zero_right (s : Bool) (m : ℕ) (e : ℤ) (t : Bool) (z : ℤ) (hz : z ≤ e) :
    Val.addFin s m e t 0 z = if m = 0 then .fin (s && t) 0 z else .fin s (m <<< (e - z).toNat) z := by
  unfold Val.addFin
  have h1 : min e z = z := min_eq_right hz
  simp only [h1, sub_self, Int.toNat_zero, Nat.zero_shiftLeft, Nat.cast_zero, mul_zero, add_zero]
  by_cases hm : m = 0
  · subst hm; simp
  · have hne : m <<< (e - z).toNat ≠ 0 := fun h => hm ((shiftLeft_eq_zero_iff _ _).1 h)
    simp only [hm, if_false]
    generalize m <<< (e - z).toNat = N at *
    have hpos : (0 : ℤ) < (N : ℤ) := by omega
    cases s
    · have e1 : (if false = true then (-1 : ℤ) else 1) * (N : ℤ) = N := by simp
      have e2 : ¬ ((N : ℤ) = 0) := by omega
      have e3 : decide ((N : ℤ) < 0) = false := by simp
      rw [e1, if_neg e2, e3, Int.natAbs_natCast]
    · have e1 : (if true = true then (-1 : ℤ) else 1) * (N : ℤ) = -(N : ℤ) := by simp
      have e2 : ¬ (-(N : ℤ) = 0) := by omega
      have e3 : decide (-(N : ℤ) < 0) = true := by simp; omega
      rw [e1, if_neg e2, e3, Int.natAbs_neg, Int.natAbs_natCast]

/-- adding a zero on the left -/
theorem addFin_zero_left (t : Bool) (z : ℤ) (s : Bool) (m : ℕ) (e : ℤ) (hz : z ≤ e) :
    Val.addFin t 0 z s m e = if m = 0 then .fin (t && s) 0 z else .fin s (m <<< (e - z).toNat) z := by
  unfold Val.addFin
  have h1 : min z e = z := min_eq_left hz
  simp only [h1, sub_self, Int.toNat_zero, Nat.zero_shiftLeft, Nat.cast_zero, mul_zero, zero_add]
  by_cases hm : m = 0
  · subst hm; simp
  · have hne : m <<< (e - z).toNat ≠ 0 := fun h => hm ((shiftLeft_eq_zero_iff _ _).1 h)
    simp only [hm, if_false]
    generalize m <<< (e - z).toNat = N at *
    have hpos : (0 : ℤ) < (N : ℤ) := by omega
    cases s
    · have e1 : (if false = true then (-1 : ℤ) else 1) * (N : ℤ) = N := by simp
      have e2 : ¬ ((N : ℤ) = 0) := by omega
      have e3 : decide ((N : ℤ) < 0) = false := by simp
      rw [e1, if_neg e2, e3, Int.natAbs_natCast]
    · have e1 : (if true = true then (-1 : ℤ) else 1) * (N : ℤ) = -(N : ℤ) := by simp
      have e2 : ¬ (-(N : ℤ) = 0) := by omega
      have e3 : decide (-(N : ℤ) < 0) = true := by simp; omega
      rw [e1, if_neg e2, e3, Int.natAbs_neg, Int.natAbs_natCast]

/-- the exponent of a canonical finite value is at least `emin` -/
theorem canon_emin_le (f : Fmt) (s : Bool) (m : ℕ) (e : ℤ) (h : Canon f (.fin s m e)) : f.emin ≤ e := by
  rcases h with ⟨_, h⟩ | ⟨_, _, h, _⟩
  · omega
  · exact h

/-- rounding `x + 0` (or `0 + x`) in its exact presentation gives `x` back -/
theorem round_shift_back (f : Fmt) (s : Bool) (m : ℕ) (e : ℤ) (st : Bool) (hc : Canon f (.fin s m e)) :
    round f (.fin s (m <<< (e - f.emin).toNat) f.emin) st = .fin s m e := by
  have hle := canon_emin_le f s m e hc
  have h := round_exact f s m e (e - f.emin).toNat st hc
  rwa [show e - ((e - f.emin).toNat : ℤ) = f.emin by omega] at h

end Urandom.IEEE
