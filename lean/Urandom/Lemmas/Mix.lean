import Urandom.Model.Word
/- SplitMix64's finaliser `mix64` is a bijection of the 64-bit words with `mix64 0 = 0` (core Lean only):
explicit inverse from xorshift inverses and the modular inverses of the two odd multipliers. -/
namespace Urandom.SplitMix
theorem ushr_ushr (z : BitVec 64) (a b : Nat) : (z >>> a) >>> b = z >>> (a + b) := by
  rw [BitVec.shiftRight_add]

theorem ushr_ge (z : BitVec 64) (k : Nat) (h : 64 ≤ k) : z >>> k = 0 := by
  ext i hi
  rw [BitVec.getElem_ushiftRight, BitVec.getLsbD_of_ge _ _ (by omega)]
  simp

/-- inverse of `z ^^^ (z >>> k)` for 22 ≤ k (three terms suffice for 64 bits) -/
def xsInv (k : Nat) (y : BitVec 64) : BitVec 64 := y ^^^ (y >>> k) ^^^ (y >>> (2 * k))

theorem xsInv_xs (k : Nat) (hk : 22 ≤ k) (z : BitVec 64) : xsInv k (xs k z) = z := by
  unfold xsInv xs
  simp only [BitVec.ushiftRight_xor_distrib, ushr_ushr]
  have h3 : z >>> (k + 2 * k) = 0 := ushr_ge z _ (by omega)
  have e : k + k = 2 * k := by omega
  rw [e, h3]
  generalize z >>> k = a
  generalize z >>> (2 * k) = b
  calc z ^^^ a ^^^ (a ^^^ b) ^^^ (b ^^^ 0) = z ^^^ (a ^^^ a) ^^^ (b ^^^ b) ^^^ 0 := by ac_rfl
    _ = z := by simp

def m1inv : BitVec 64 := 0x96de1b173f119089#64
def m2inv : BitVec 64 := 0x319642b2d24d8ec3#64
theorem m1_inv : 0xbf58476d1ce4e5b9#64 * m1inv = 1 := by decide
theorem m2_inv : 0x94d049bb133111eb#64 * m2inv = 1 := by decide

def unmix64 (y : BitVec 64) : BitVec 64 :=
  let z := xsInv 31 y
  let z := xsInv 27 (z * m2inv)
  xsInv 30 (z * m1inv)

theorem unmix_mix (z : BitVec 64) : unmix64 (mix64 z) = z := by
  unfold unmix64 mix64
  simp only
  have e1 : ∀ x : BitVec 64, x * 0x94d049bb133111eb#64 * m2inv = x := fun x => by
    rw [BitVec.mul_assoc, m2_inv]; exact BitVec.mul_one x
  have e2 : ∀ x : BitVec 64, x * 0xbf58476d1ce4e5b9#64 * m1inv = x := fun x => by
    rw [BitVec.mul_assoc, m1_inv]; exact BitVec.mul_one x
  rw [xsInv_xs 31 (by omega), e1, xsInv_xs 27 (by omega), e2, xsInv_xs 30 (by omega)]

theorem mix64_injective : Function.Injective mix64 := fun a b h => by
  have := congrArg unmix64 h
  rwa [unmix_mix, unmix_mix] at this

theorem mix64_zero : mix64 0#64 = 0#64 := by
  have h : ∀ k, xs k 0#64 = 0#64 := fun k => by simp [xs]
  simp [mix64, h]
theorem mix64_eq_zero (z : BitVec 64) (h : mix64 z = 0#64) : z = 0#64 :=
  mix64_injective (h.trans mix64_zero.symm)


end Urandom.SplitMix
