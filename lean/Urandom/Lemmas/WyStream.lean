import Urandom.Model.Word
import Mathlib.Algebra.Order.Ring.Nat
import Mathlib.Algebra.Ring.Parity
import Mathlib.Data.Nat.Factorization.Basic
/-
Wyrand: two different seeds give different OUTPUT streams.

The state walks the whole of Z/2^64 in steps of the odd constant `P0`, so two streams that agree
forever make the output map `f x = rapidMix (x ^^^ P1) x` periodic with period `d = b - a ≠ 0`.
The periods of a map on Z/2^64 form a subgroup; every non-trivial subgroup of that cyclic 2-group
contains `2^63`; and `f 0 ≠ f 2^63` by evaluation.
-/
namespace Urandom.WyStream
open Urandom

/-- the output map of Wyrand as a function of the (already advanced) state -/
def f (x : BitVec 64) : BitVec 64 := Wyrand.rapidMix (x ^^^ Wyrand.P1) x

theorem next_eq (s : BitVec 64) : Wyrand.next s = (f (s + Wyrand.P0), s + Wyrand.P0) := rfl

def P0inv : BitVec 64 := 0x32e25c49d2beaf2d#64
theorem P0inv_mul : P0inv * Wyrand.P0 = 1#64 := by decide

/-- the state after `i` draws -/
theorem iterate_add (c s : BitVec 64) (i : Nat) : (fun x => x + c)^[i] s = s + BitVec.ofNat 64 i * c := by
  induction i generalizing s with
  | zero => simp
  | succ i ih =>
    rw [Function.iterate_succ_apply, ih]
    have : BitVec.ofNat 64 (i + 1) = BitVec.ofNat 64 i + 1#64 := by
      apply BitVec.eq_of_toNat_eq; simp [BitVec.toNat_add]
    rw [this, BitVec.add_mul, BitVec.one_mul, BitVec.add_assoc, BitVec.add_comm c]

/-- every state is reached: the walk `a + (n+1)·P0` is onto -/
theorem walk_onto (a y : BitVec 64) : ∃ n : Nat, a + BitVec.ofNat 64 (n + 1) * Wyrand.P0 = y := by
  refine ⟨((y - a) * P0inv).toNat + (2 ^ 64 - 1), ?_⟩
  have e : BitVec.ofNat 64 (((y - a) * P0inv).toNat + (2 ^ 64 - 1) + 1) = (y - a) * P0inv := by
    apply BitVec.eq_of_toNat_eq
    rw [BitVec.toNat_ofNat]
    have := ((y - a) * P0inv).isLt
    omega
  rw [e, BitVec.mul_assoc, P0inv_mul, BitVec.mul_one]
  rw [BitVec.add_comm, BitVec.sub_add_cancel]

/-- multiples of a period are periods -/
theorem period_mul (g : BitVec 64 → BitVec 64) (d : BitVec 64) (h : ∀ x, g x = g (x + d)) (k : Nat) :
    ∀ x, g x = g (x + BitVec.ofNat 64 k * d) := by
  induction k with
  | zero => intro x; simp
  | succ k ih =>
    intro x
    have : BitVec.ofNat 64 (k + 1) = BitVec.ofNat 64 k + 1#64 := by
      apply BitVec.eq_of_toNat_eq; simp [BitVec.toNat_add]
    rw [this, BitVec.add_mul, BitVec.one_mul, ← BitVec.add_assoc, ← h, ← ih]

/-- every non-zero element of Z/2^64 has a multiple equal to `2^63` -/
theorem multiple_eq_half (d : BitVec 64) (hd : d ≠ 0#64) : ∃ k : Nat, BitVec.ofNat 64 k * d = BitVec.ofNat 64 (2 ^ 63) := by
  have hn : d.toNat ≠ 0 := fun h => hd (BitVec.eq_of_toNat_eq (by simpa using h))
  obtain ⟨v, m, hm, hvm⟩ := Nat.exists_eq_two_pow_mul_odd hn
  have hlt := d.isLt
  have hv : v ≤ 63 := by
    by_contra hc
    have h64 : 64 ≤ v := by omega
    have : 2 ^ 64 ≤ 2 ^ v := Nat.pow_le_pow_right (by decide) h64
    have hm1 : 1 ≤ m := by rcases hm with ⟨t, rfl⟩; omega
    have : 2 ^ 64 ≤ 2 ^ v * m := le_trans this (Nat.le_mul_of_pos_right _ hm1)
    omega
  refine ⟨2 ^ (63 - v), ?_⟩
  apply BitVec.eq_of_toNat_eq
  rw [BitVec.toNat_mul, BitVec.toNat_ofNat, BitVec.toNat_ofNat, hvm]
  obtain ⟨t, rfl⟩ := hm
  have e : 2 ^ (63 - v) * 2 ^ v = 2 ^ 63 := by rw [← Nat.pow_add]; congr 1; omega
  have h1 : 2 ^ (63 - v) % 2 ^ 64 = 2 ^ (63 - v) := Nat.mod_eq_of_lt (Nat.pow_lt_pow_right (by decide) (by omega))
  rw [h1]
  have : 2 ^ (63 - v) * (2 ^ v * (2 * t + 1)) = 2 ^ 64 * t + 2 ^ 63 := by
    rw [← Nat.mul_assoc, e]; omega
  rw [this]
  omega

theorem f_not_half_periodic : f 0#64 ≠ f (0#64 + BitVec.ofNat 64 (2 ^ 63)) := by decide

/-- the output map has no non-zero period -/
theorem f_no_period (d : BitVec 64) (hd : d ≠ 0#64) : ∃ x, f x ≠ f (x + d) := by
  by_contra hc
  have hp : ∀ x, f x = f (x + d) := by
    intro x
    by_contra hx
    exact hc ⟨x, hx⟩
  obtain ⟨k, hk⟩ := multiple_eq_half d hd
  have := period_mul f d hp k 0#64
  rw [hk] at this
  exact f_not_half_periodic this

/-- **different seeds: some output differs** -/
theorem outputs_differ (a b : BitVec 64) (h : a ≠ b) :
    ∃ n : Nat, f (a + BitVec.ofNat 64 (n + 1) * Wyrand.P0) ≠ f (b + BitVec.ofNat 64 (n + 1) * Wyrand.P0) := by
  have hd : b - a ≠ 0#64 := by
    intro e
    apply h
    have := congrArg (· + a) e
    simp only [BitVec.sub_add_cancel, BitVec.zero_add] at this
    exact this.symm
  obtain ⟨x, hx⟩ := f_no_period (b - a) hd
  obtain ⟨n, hn⟩ := walk_onto a x
  refine ⟨n, ?_⟩
  rw [hn]
  have : b + BitVec.ofNat 64 (n + 1) * Wyrand.P0 = x + (b - a) := by
    rw [← hn]
    rw [BitVec.add_comm a, BitVec.add_assoc, BitVec.add_comm a, BitVec.sub_add_cancel, BitVec.add_comm]
  rw [this]
  exact hx

end Urandom.WyStream
