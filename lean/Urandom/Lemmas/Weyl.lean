import Urandom.Spec.Published
/- Weyl sequences `x ↦ x + c` on 64 bits: closed form of the iterate (SplitMix64 / Wyrand jumps). -/
namespace Urandom
open Urandom.Spec (iter)

theorem iter_succ' {α : Type} (f : α → α) (n : Nat) (a : α) : iter f (n + 1) a = f (iter f n a) := by
  induction n generalizing a with
  | zero => rfl
  | succ n ih => exact ih (f a)

theorem iter_add {α : Type} (f : α → α) (m n : Nat) (a : α) : iter f (m + n) a = iter f n (iter f m a) := by
  induction m generalizing a with
  | zero => simp [iter]
  | succ m ih => rw [Nat.succ_add]; exact ih (f a)

theorem iter_weyl (c : BitVec 64) (n : Nat) (x : BitVec 64) :
    iter (fun x => x + c) n x = x + BitVec.ofNat 64 n * c := by
  induction n generalizing x with
  | zero => simp [iter]
  | succ n ih =>
    show iter (fun x => x + c) n (x + c) = _
    rw [ih, BitVec.ofNat_add, BitVec.add_mul, BitVec.add_assoc]
    congr 1
    rw [BitVec.add_comm]
    congr 1
    simp

end Urandom
