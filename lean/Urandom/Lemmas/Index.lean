import Urandom.Props.C04
import Urandom.Model.Seq
/- `Random::index` and `Random::range` on `usize`, derived from the C04 theorems. -/
namespace Urandom
open UniformInt

theorem usize_valid : C04.Valid IntTy.usize := ⟨by decide, by decide⟩

theorem usize_toInt (x : Nat) : IntTy.usize.toInt x = (x : Int) := IntTy.toInt_unsigned IntTy.usize rfl x

/-- `index(len) < len` for every `len ≥ 1` and every scripted word sequence -/
theorem index_lt (len : Nat) (h0 : 0 < len) (hl : len < IntTy.usize.M) (ws ws' : Words) (k : Nat)
    (h : index len ws = some (k, ws')) : k < len := by
  obtain ⟨h1, h2⟩ := C04.index_is_range len h0 hl
  rw [h2] at h
  have := C04.sample_mem IntTy.usize usize_valid 0 len false (C04.M_pos _) hl ⟨0, len⟩ h1 ws ws' k h
  simp only [usize_toInt, Bool.false_eq_true, ↓reduceIte] at this
  omega

/-- `range(lo..hi)` on `usize` lies in `[lo, hi)` -/
theorem rangeUsize_mem (lo hi : Nat) (hhi : hi < IntTy.usize.M) (ws ws' : Words) (k : Nat)
    (h : Seq.rangeUsize lo hi ws = some (k, ws')) : lo ≤ k ∧ k < hi := by
  unfold Seq.rangeUsize at h
  split at h
  · simp at h
  · rename_i d hd
    have hne := (tryNew_ok_eq IntTy.usize lo hi false d hd).2
    simp only [usize_toInt, Bool.false_eq_true, ↓reduceIte] at hne
    have hlo : lo < IntTy.usize.M := by omega
    have := C04.sample_mem IntTy.usize usize_valid lo hi false hlo hhi d hd ws ws' k h
    simp only [usize_toInt, Bool.false_eq_true, ↓reduceIte] at this
    omega

end Urandom
