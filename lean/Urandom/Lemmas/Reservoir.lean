import Mathlib.Algebra.BigOperators.Group.Finset.Basic
import Mathlib.Algebra.BigOperators.Fin
import Mathlib.Algebra.BigOperators.Ring.Finset
import Mathlib.Data.Nat.Factorial.Basic
import Mathlib.Order.Interval.Finset.Nat
import Mathlib.Data.Finset.Card
import Mathlib.Algebra.Group.Action.Defs
/-
Algorithm R (reservoir sampling) as used by `Random::multiple`: exact counting of draw outcomes.
Buffers are functions `Fin k → ℕ` (slot ↦ position of the item it holds).
-/
open Finset

namespace Urandom.Mult
variable {k : ℕ}

/-- buffer after the first k items: slot i holds position i -/
def B₀ : Fin k → ℕ := fun i => i

/-- item `m` arrives, draw `j`: replace slot j if j < k (this is `buf.get_mut(j)`) -/
def step (m j : ℕ) (B : Fin k → ℕ) : Fin k → ℕ :=
  if h : j < k then Function.update B ⟨j, h⟩ m else B

/-- sum of `w(final buffer)` over all draw tuples for items k .. k+t-1 (last draw outermost) -/
def N : ℕ → ((Fin k → ℕ) → ℕ) → ℕ
  | 0, w => w B₀
  | t+1, w => ∑ j ∈ range (k + t + 1), N t (fun B => w (step (k + t) j B))

def Good (t : ℕ) (B : Fin k → ℕ) : Prop := Function.Injective B ∧ ∀ i, B i < k + t

def bset (B : Fin k → ℕ) : Finset ℕ := univ.image B

theorem good_zero : Good 0 (B₀ : Fin k → ℕ) :=
  ⟨fun a b h => Fin.ext h, fun i => by simp [B₀]⟩

theorem good_step {t : ℕ} {B : Fin k → ℕ} (hB : Good t B) (j : ℕ) : Good (t+1) (step (k+t) j B) := by
  unfold step
  split
  · rename_i h
    refine ⟨?_, ?_⟩
    · intro a b hab
      by_cases ha : a = ⟨j, h⟩ <;> by_cases hb : b = ⟨j, h⟩
      · rw [ha, hb]
      · exfalso; rw [ha] at hab; simp [Function.update_of_ne hb] at hab
        have := hB.2 b; omega
      · exfalso; rw [hb] at hab; simp [Function.update_of_ne ha] at hab
        have := hB.2 a; omega
      · simp [Function.update_of_ne ha, Function.update_of_ne hb] at hab
        exact hB.1 hab
    · intro i
      by_cases hi : i = ⟨j, h⟩
      · rw [hi]; simp
      · simp [Function.update_of_ne hi]; have := hB.2 i; omega
  · exact ⟨hB.1, fun i => by have := hB.2 i; omega⟩

theorem N_congr : ∀ (t : ℕ) (w w' : (Fin k → ℕ) → ℕ), (∀ B, Good t B → w B = w' B) → N t w = N t w' := by
  intro t
  induction t with
  | zero => intro w w' h; exact h _ good_zero
  | succ t ih =>
    intro w w' h
    simp only [N]
    apply Finset.sum_congr rfl
    intro j _
    apply ih
    intro B hB
    exact h _ (good_step hB j)

theorem N_sum {ι : Type} (s : Finset ι) : ∀ (t : ℕ) (w : ι → (Fin k → ℕ) → ℕ),
    N t (fun B => ∑ x ∈ s, w x B) = ∑ x ∈ s, N t (w x) := by
  intro t
  induction t with
  | zero => intro w; rfl
  | succ t ih =>
    intro w
    simp only [N]
    rw [Finset.sum_comm]
    apply Finset.sum_congr rfl
    intro j _
    exact ih _

theorem N_zero (t : ℕ) : N t (fun _ : Fin k → ℕ => 0) = 0 := by
  induction t with
  | zero => rfl
  | succ t ih => simp only [N]; simp [ih]

def ind (S : Finset ℕ) (B : Fin k → ℕ) : ℕ := if bset B = S then 1 else 0

theorem bset_B₀ : bset (B₀ : Fin k → ℕ) = range k := by
  ext x
  simp only [bset, B₀, mem_image, mem_univ, true_and, mem_range]
  constructor
  · rintro ⟨i, rfl⟩; exact i.2
  · intro h; exact ⟨⟨x, h⟩, rfl⟩

theorem bset_card {t} {B : Fin k → ℕ} (hB : Good t B) : (bset B).card = k := by
  simp [bset, Finset.card_image_of_injective _ hB.1]

theorem bset_lt {t} {B : Fin k → ℕ} (hB : Good t B) : ∀ x ∈ bset B, x < k + t := by
  intro x hx
  simp only [bset, mem_image, mem_univ, true_and] at hx
  obtain ⟨i, rfl⟩ := hx
  exact hB.2 i

theorem bset_update {t} {B : Fin k → ℕ} (hB : Good t B) (j : Fin k) (m : ℕ) :
    bset (Function.update B j m) = insert m ((bset B).erase (B j)) := by
  ext x
  simp only [bset, mem_image, mem_univ, true_and, mem_insert, mem_erase]
  constructor
  · rintro ⟨i, rfl⟩
    by_cases hi : i = j
    · subst hi; simp
    · right
      rw [Function.update_of_ne hi]
      exact ⟨fun h => hi (hB.1 h), i, rfl⟩
  · rintro (rfl | ⟨hne, i, rfl⟩)
    · exact ⟨j, by simp⟩
    · refine ⟨i, ?_⟩
      have : i ≠ j := fun h => hne (by rw [h])
      rw [Function.update_of_ne this]


/-- for a good buffer and a (k-1)-set S' ⊆ [0,n): slots whose removal leaves S'  ↔  elements x ∉ S' with bset B = S' ∪ {x} -/
theorem reindex {t} {B : Fin k → ℕ} (hB : Good t B) (S' : Finset ℕ) :
    (∑ j : Fin k, if (B j ∉ S' ∧ bset B = insert (B j) S') then 1 else 0) =
    ∑ x ∈ range (k + t) \ S', if bset B = insert x S' then 1 else 0 := by
  -- both sides equal the sum over x ∈ bset B \ S'
  have hL : (∑ j : Fin k, if (B j ∉ S' ∧ bset B = insert (B j) S') then 1 else 0) =
      ∑ x ∈ bset B, if (x ∉ S' ∧ bset B = insert x S') then 1 else 0 := by
    unfold bset
    rw [Finset.sum_image (fun a _ b _ h => hB.1 h)]
  rw [hL]
  have h1 : (∑ x ∈ bset B, if (x ∉ S' ∧ bset B = insert x S') then 1 else 0) =
      ∑ x ∈ bset B \ S', if bset B = insert x S' then 1 else 0 := by
    rw [← Finset.sum_filter_add_sum_filter_not (bset B) (fun x => x ∉ S')]
    have : (∑ x ∈ (bset B).filter (fun x => ¬ (x ∉ S')), if (x ∉ S' ∧ bset B = insert x S') then 1 else 0) = 0 := by
      apply Finset.sum_eq_zero
      intro x hx
      simp only [mem_filter, not_not] at hx
      simp [hx.2]
    rw [this, add_zero]
    have e : (bset B).filter (fun x => x ∉ S') = bset B \ S' := by
      ext x; simp [mem_sdiff]
    rw [e]
    apply Finset.sum_congr rfl
    intro x hx
    simp only [mem_sdiff] at hx
    simp [hx.2]
  rw [h1]
  apply Finset.sum_subset
  · intro x hx
    simp only [mem_sdiff, mem_range] at hx ⊢
    exact ⟨bset_lt hB x hx.1, hx.2⟩
  · intro x hx hnx
    simp only [mem_sdiff, mem_range] at hx hnx
    have hxB : x ∉ bset B := fun h => hnx ⟨h, hx.2⟩
    have : bset B ≠ insert x S' := fun h => hxB (by rw [h]; exact mem_insert_self _ _)
    simp [this]

theorem main : ∀ (t : ℕ) (S : Finset ℕ), S ⊆ range (k + t) → S.card = k → N t (ind (k := k) S) = t.factorial := by
  intro t
  induction t with
  | zero =>
    intro S hS hc
    have : S = range k := Finset.eq_of_subset_of_card_le (by simpa using hS) (by simp [hc])
    simp [N, ind, bset_B₀, this]
  | succ t ih =>
    intro S hS hc
    simp only [N]
    by_cases hn : k + t ∈ S
    · -- the new item is in S
      set S' := S.erase (k + t) with hS'
      have hS'c : S'.card = k - 1 := by rw [hS', Finset.card_erase_of_mem hn, hc]
      have hkpos : 0 < k := by
        rw [← hc]; exact Finset.card_pos.mpr ⟨_, hn⟩
      have hS'sub : S' ⊆ range (k + t) := by
        intro x hx
        rw [hS', mem_erase] at hx
        have := hS hx.2
        simp only [mem_range] at this ⊢
        omega
      -- pointwise weight for good buffers
      have hw : ∀ j, j ∈ range (k + t + 1) → N t (fun B : Fin k → ℕ => ind S (step (k + t) j B)) =
          N t (fun B => if h : j < k then (if (B ⟨j, h⟩ ∉ S' ∧ bset B = insert (B ⟨j, h⟩) S') then 1 else 0) else 0) := by
        intro j _
        apply N_congr
        intro B hB
        unfold step ind
        split
        · rename_i h
          rw [bset_update hB]
          have hnB : k + t ∉ bset B := fun hx => by have := bset_lt hB _ hx; omega
          congr 1
          apply propext
          constructor
          · intro e
            have hBj : B ⟨j, h⟩ ∈ bset B := by simp [bset]
            have hBjn : B ⟨j, h⟩ ≠ k + t := fun e' => hnB (e' ▸ hBj)
            have e2 : (bset B).erase (B ⟨j, h⟩) = S' := by
              rw [hS', ← e, Finset.erase_insert]
              simp [mem_erase, hnB]
            refine ⟨?_, ?_⟩
            · rw [← e2]; simp
            · rw [← e2, Finset.insert_erase hBj]
          · rintro ⟨h1, h2⟩
            rw [h2, Finset.erase_insert h1, hS', Finset.insert_erase hn]
        · have hnB : k + t ∉ bset B := fun hx => by have := bset_lt hB _ hx; omega
          have : bset B ≠ S := fun e => hnB (e ▸ hn)
          simp [this]
      rw [Finset.sum_congr rfl hw]
      -- split the range of j into j < k and the rest
      have hsplit : ∑ j ∈ range (k + t + 1), N t (fun B => if h : j < k then (if (B ⟨j, h⟩ ∉ S' ∧ bset B = insert (B ⟨j, h⟩) S') then 1 else 0) else 0)
          = ∑ j : Fin k, N t (fun B => if (B j ∉ S' ∧ bset B = insert (B j) S') then 1 else 0) := by
        rw [← Finset.sum_filter_add_sum_filter_not (range (k + t + 1)) (fun j => j < k)]
        have z : ∑ j ∈ (range (k + t + 1)).filter (fun j => ¬ j < k), N t (fun B => if h : j < k then (if (B ⟨j, h⟩ ∉ S' ∧ bset B = insert (B ⟨j, h⟩) S') then 1 else 0) else 0) = 0 := by
          apply Finset.sum_eq_zero
          intro j hj
          simp only [mem_filter] at hj
          simp [hj.2, N_zero]
        rw [z, add_zero]
        have e : (range (k + t + 1)).filter (fun j => j < k) = range k := by
          ext j; simp only [mem_filter, mem_range]; omega
        rw [e, ← Fin.sum_univ_eq_sum_range (fun j => N t (fun B => if h : j < k then (if (B ⟨j, h⟩ ∉ S' ∧ bset B = insert (B ⟨j, h⟩) S') then 1 else 0) else 0)) k]
        apply Finset.sum_congr rfl
        intro j _
        simp [j.2]
      rw [hsplit, ← N_sum]
      rw [N_congr t _ _ (fun B hB => reindex hB S'), N_sum]
      have : ∀ x ∈ range (k + t) \ S', N t (fun B : Fin k → ℕ => if bset B = insert x S' then 1 else 0) = t.factorial := by
        intro x hx
        simp only [mem_sdiff, mem_range] at hx
        apply ih (insert x S')
        · intro y hy
          rw [mem_insert] at hy
          rcases hy with rfl | hy
          · simpa using hx.1
          · exact hS'sub hy
        · rw [Finset.card_insert_of_notMem hx.2, hS'c]; omega
      rw [Finset.sum_congr rfl this, Finset.sum_const, Finset.card_sdiff_of_subset hS'sub, hS'c, card_range]
      rw [Nat.factorial_succ, smul_eq_mul]
      congr 1; omega
    · -- the new item is not in S
      have hSsub : S ⊆ range (k + t) := by
        intro x hx
        have h1 := hS hx
        simp only [mem_range] at h1 ⊢
        have : x ≠ k + t := fun e => hn (e ▸ hx)
        omega
      have hw : ∀ j, j ∈ range (k + t + 1) → N t (fun B : Fin k → ℕ => ind S (step (k + t) j B)) =
          N t (fun B : Fin k → ℕ => if j < k then 0 else ind S B) := by
        intro j _
        apply N_congr
        intro B hB
        unfold step
        split
        · rename_i h
          unfold ind
          rw [bset_update hB]
          have : insert (k + t) ((bset B).erase (B ⟨j, h⟩)) ≠ S := fun e => hn (e ▸ mem_insert_self _ _)
          simp [this]
        · rfl
      rw [Finset.sum_congr rfl hw, ← Finset.sum_filter_add_sum_filter_not (range (k + t + 1)) (fun j => j < k)]
      have z : ∑ j ∈ (range (k + t + 1)).filter (fun j => j < k), N t (fun B : Fin k → ℕ => if j < k then 0 else ind S B) = 0 := by
        apply Finset.sum_eq_zero
        intro j hj
        simp only [mem_filter] at hj
        simp [hj.2, N_zero]
      have nz : ∑ j ∈ (range (k + t + 1)).filter (fun j => ¬ j < k), N t (fun B : Fin k → ℕ => if j < k then 0 else ind S B) =
          ∑ j ∈ (range (k + t + 1)).filter (fun j => ¬ j < k), t.factorial := by
        apply Finset.sum_congr rfl
        intro j hj
        simp only [mem_filter] at hj
        simp only [hj.2, if_false]
        exact ih S hSsub hc
      rw [z, nz, zero_add, Finset.sum_const, smul_eq_mul, Nat.factorial_succ]
      congr 1
      have e : (range (k + t + 1)).filter (fun j => ¬ j < k) = Finset.Ico k (k + t + 1) := by
        ext j; simp only [mem_filter, mem_range, mem_Ico]; omega
      rw [e, Nat.card_Ico]; omega


end Urandom.Mult
