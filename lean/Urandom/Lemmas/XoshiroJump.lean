import Urandom.Lemmas.XoshiroLinear
/- The code-shaped `Xoshiro.jump` (nested loops over the four `JUMP` words) is `ev JUMP`, hence 2^128 steps. -/
namespace Urandom.XoLin
open Urandom.Spec (iter)
open Urandom.GF2 Urandom.GF2.XSpace
open Urandom.Xoshiro

theorem jump_unfold (s : S) : jump s =
    (jumpWord 0x39abdc4529b1661c#64 64 0 (jumpWord 0xa9582618e03fc9aa#64 64 0 (jumpWord 0xd5a61266f0c9392c#64 64 0
      (jumpWord 0x180ec6d33cfd0aba#64 64 0 (s, zeroS))))).2 := by
  simp only [jump, JUMPW, List.foldl]

theorem jump_eq_ev (s : S) : jump s = ev advLin JUMP s := by
  rw [← evLH_eq_ev advLin JUMP 256 JUMP_lt s, jump_unfold]
  show _ = evLH advance JUMP 256 0 s zeroS
  have h0 := jumpWord_eq JUMP _ 0 (wordBitsOk_spec _ _ _ 64 w0) 64 0 s zeroS (by omega) 0 192
  simp only [Nat.add_zero, Nat.zero_add] at h0
  rw [show (64 + 192 : Nat) = 256 from rfl] at h0
  rw [h0]
  generalize jumpWord 0x180ec6d33cfd0aba#64 64 0 (s, zeroS) = p0
  obtain ⟨c0, a0⟩ := p0
  have h1 := jumpWord_eq JUMP _ 64 (wordBitsOk_spec _ _ _ 64 w1) 64 0 c0 a0 (by omega) 0 128
  simp only [Nat.add_zero] at h1
  rw [show (64 + 128 : Nat) = 192 from rfl] at h1
  rw [h1]
  generalize jumpWord 0xd5a61266f0c9392c#64 64 0 (c0, a0) = p1
  obtain ⟨c1, a1⟩ := p1
  have h2 := jumpWord_eq JUMP _ 128 (wordBitsOk_spec _ _ _ 64 w2) 64 0 c1 a1 (by omega) 0 64
  simp only [Nat.add_zero] at h2
  rw [show (64 + 64 : Nat) = 128 from rfl] at h2
  rw [h2]
  generalize jumpWord 0xa9582618e03fc9aa#64 64 0 (c1, a1) = p2
  obtain ⟨c2, a2⟩ := p2
  have h3 := jumpWord_eq JUMP _ 192 (wordBitsOk_spec _ _ _ 64 w3) 64 0 c2 a2 (by omega) 0 0
  simp only [Nat.add_zero] at h3
  rw [h3]
  simp only [evLH]

/-- the code's jump is exactly 2^128 single steps, for every state -/
theorem jump_eq_pow (s : S) : jump s = iter advance (2 ^ 128) s := by
  rw [jump_eq_ev, ev_JUMP]

end Urandom.XoLin
