import Urandom.Lemmas.Block
/-
Parametricity / simulation for the polymorphic block generator: if two cores are related
(`R` on core states, `f` on batch elements, pointwise on the 256 elements of every batch), then
every history issues `f`-related elements.  Transfers statements about ghost positions to the
bytes actually returned.  Also: the stream-id lower-bound invariant used for `split`.
-/
namespace Urandom.Block

variable {κ κ' β γ : Type}

theorem take_map_of_lt (f : β → γ) (buf : Nat → β) (buf' : Nat → γ) (start n : Nat) (hb : start + n ≤ 256)
    (h : ∀ i, start ≤ i → i < 256 → f (buf i) = buf' i) : take buf' start n = (take buf start n).map f := by
  unfold take
  rw [List.map_map]
  apply List.map_congr_left
  intro i hi
  simp only [List.mem_range] at hi
  simp only [Function.comp]
  exact (h _ (by omega) (by omega)).symm

/-- a simulation between two cores -/
structure Sim (C : Core κ β) (C' : Core κ' γ) (f : β → γ) (R : κ → κ' → Prop) : Prop where
  gen : ∀ c c', R c c' → R (C.gen c).2 (C'.gen c').2 ∧ ∀ i, i < 256 → f ((C.gen c).1 i) = (C'.gen c').1 i
  jmp : ∀ c c', R c c' → R (C.jmp c) (C'.jmp c')

/-- related buffered states: related cores, equal index, `f`-related *unread* buffer contents
(what lies before `index`, and the whole buffer when `index ≥ 256`, is never read again) -/
structure Rel (f : β → γ) (R : κ → κ' → Prop) (s : BS κ β) (s' : BS κ' γ) : Prop where
  core : R s.core s'.core
  index : s.index = s'.index
  buf : ∀ i, s.index ≤ i → i < 256 → f (s.buf i) = s'.buf i

variable {C : Core κ β} {C' : Core κ' γ} {f : β → γ} {R : κ → κ' → Prop}

theorem refill_rel (hS : Sim C C' f R) {s : BS κ β} {s' : BS κ' γ} (h : Rel f R s s') :
    Rel f R (refill C s) (refill C' s') :=
  ⟨(hS.gen _ _ h.core).1, rfl, fun i _ hi => (hS.gen _ _ h.core).2 i hi⟩

theorem nextN_rel (hS : Sim C C' f R) {s : BS κ β} {s' : BS κ' γ} (h : Rel f R s s') (n : Nat) (hn : n ≤ 256) :
    (nextN C' n s').1 = (nextN C n s).1.map f ∧ Rel f R (nextN C n s).2 (nextN C' n s').2 := by
  unfold nextN
  simp only [← h.index]
  by_cases hi : s.index > 256 - n
  · simp only [hi, ↓reduceIte]
    have hr := refill_rel hS h
    refine ⟨?_, ⟨hr.core, by simp [refill], fun i h1 h2 => hr.buf i (by simp [refill]) h2⟩⟩
    exact take_map_of_lt f _ _ _ _ (by simp [refill]; omega) (fun i _ h2 => hr.buf i (by simp [refill]) h2)
  · simp only [hi, ↓reduceIte]
    refine ⟨?_, ⟨h.core, by simp [h.index], fun i h1 h2 => h.buf i (by simp at h1; omega) h2⟩⟩
    rw [← h.index]
    exact take_map_of_lt f _ _ _ _ (by omega) h.buf

theorem direct_rel (hS : Sim C C' f R) : ∀ (k : Nat) (c : κ) (c' : κ'), R c c' →
    (direct C' k c').1 = (direct C k c).1.map f ∧ R (direct C k c).2 (direct C' k c').2 := by
  intro k
  induction k with
  | zero => intro c c' h; exact ⟨rfl, h⟩
  | succ k ih =>
    intro c c' h
    obtain ⟨h1, h2⟩ := hS.gen c c' h
    obtain ⟨e, r⟩ := ih _ _ h1
    simp only [direct, List.map_append]
    exact ⟨by rw [e, take_map_of_lt f _ _ 0 256 (by omega) (fun i _ hi => h2 i hi)], r⟩

theorem fillRem_rel (hS : Sim C C' f R) {s : BS κ β} {s' : BS κ' γ} (h : Rel f R s s') (len : Nat) (hl : len < 256) :
    (fillRem C' len s').1 = (fillRem C len s).1.map f ∧ Rel f R (fillRem C len s).2 (fillRem C' len s').2 := by
  unfold fillRem
  simp only [← h.index]
  by_cases hle : len ≤ 256 - min s.index 256
  · simp only [hle, ↓reduceIte]
    refine ⟨take_map_of_lt f _ _ _ _ (by omega) (fun i h1 h2 => h.buf i (by omega) h2),
      ⟨h.core, by simp [h.index], fun i h1 h2 => h.buf i (by simp at h1; omega) h2⟩⟩
  · simp only [hle, ↓reduceIte]
    have hr := refill_rel hS h
    refine ⟨?_, ⟨hr.core, rfl, fun i _ h2 => hr.buf i (by simp [refill]) h2⟩⟩
    rw [List.map_append, take_map_of_lt f _ _ _ _ (by omega) (fun i h1 h2 => h.buf i (by omega) h2),
      take_map_of_lt f _ _ 0 _ (by omega) (fun i _ h2 => hr.buf i (by simp [refill]) h2)]

theorem fill_rel (hS : Sim C C' f R) {s : BS κ β} {s' : BS κ' γ} (h : Rel f R s s') (len : Nat) :
    (fill C' len s').1 = (fill C len s).1.map f ∧ Rel f R (fill C len s).2 (fill C' len s').2 := by
  unfold fill
  simp only
  obtain ⟨e, r⟩ := direct_rel hS (len / 256) s.core s'.core h.core
  have h1 : Rel f R { s with core := (direct C (len / 256) s.core).2 } { s' with core := (direct C' (len / 256) s'.core).2 } :=
    ⟨r, h.index, h.buf⟩
  by_cases hz : len % 256 = 0
  · simp only [hz, ↓reduceIte]; exact ⟨e, h1⟩
  · simp only [hz, ↓reduceIte]
    obtain ⟨e2, r2⟩ := fillRem_rel hS h1 (len % 256) (Nat.mod_lt _ (by omega))
    exact ⟨by rw [List.map_append, e, e2], r2⟩

theorem jump_rel (hS : Sim C C' f R) {s : BS κ β} {s' : BS κ' γ} (h : Rel f R s s') :
    Rel f R (jump C s) (jump C' s') :=
  ⟨hS.jmp _ _ h.core, rfl, fun i h1 h2 => by simp [jump] at h1; omega⟩

theorem stepOp_rel (hS : Sim C C' f R) {s : BS κ β} {s' : BS κ' γ} (h : Rel f R s s') (op : Op) :
    (stepOp C' s' op).1 = (stepOp C s op).1.map f ∧ Rel f R (stepOp C s op).2 (stepOp C' s' op).2 := by
  cases op with
  | u32 => exact nextN_rel hS h 4 (by omega)
  | u64 => exact nextN_rel hS h 8 (by omega)
  | f32 => exact nextN_rel hS h 4 (by omega)
  | f64 => exact nextN_rel hS h 8 (by omega)
  | fill n => exact fill_rel hS h n
  | jump => exact ⟨rfl, jump_rel hS h⟩

/-- **Parametricity**: related generators issue `f`-related elements under every history. -/
theorem run_rel (hS : Sim C C' f R) (ops : List Op) : ∀ {s : BS κ β} {s' : BS κ' γ}, Rel f R s s' →
    (run C' s' ops).1 = (run C s ops).1.map f ∧ Rel f R (run C s ops).2 (run C' s' ops).2 := by
  induction ops with
  | nil => intro s s' h; exact ⟨rfl, h⟩
  | cons op ops ih =>
    intro s s' h
    obtain ⟨e1, r1⟩ := stepOp_rel hS h op
    obtain ⟨e2, r2⟩ := ih r1
    simp only [run, List.map_append]
    exact ⟨by rw [e1, e2], r2⟩

/-! ### lower bound on stream ids (for `split`) -/

/-- everything issued so far, everything still buffered and the core itself have stream id `≥ S₀` -/
structure LowS (S₀ : Nat) (s : BS (Nat × Nat) Pos) (issued : List Pos) : Prop where
  core : S₀ ≤ s.core.1
  buf : s.index < 256 → ∀ i, s.index ≤ i → i < 256 → S₀ ≤ (s.buf i).1
  issued : ∀ p ∈ issued, S₀ ≤ p.1

theorem lowS_serve {S₀ : Nat} {s : BS (Nat × Nat) Pos} {issued : List Pos} (h : LowS S₀ s issued) (n : Nat)
    (hn : s.index + n ≤ 256) : LowS S₀ { s with index := s.index + n } (issued ++ take s.buf s.index n) := by
  refine ⟨h.core, ?_, ?_⟩
  · intro hlt i hi hi'
    simp only at hlt hi
    exact h.buf (by omega) i (by omega) hi'
  · intro p hp
    rw [List.mem_append] at hp
    rcases hp with hp | hp
    · exact h.issued p hp
    · obtain ⟨i, hi, rfl⟩ := mem_take.1 hp
      exact h.buf (by omega) _ (by omega) (by omega)

theorem lowS_refill {S₀ : Nat} {s : BS (Nat × Nat) Pos} {issued : List Pos} (h : LowS S₀ s issued) :
    LowS S₀ (refill posCore s) issued := by
  obtain ⟨core, index, buf⟩ := s
  obtain ⟨S, C⟩ := core
  exact ⟨h.core, fun _ i _ _ => by simpa [refill, posCore, posBatch] using h.core, h.issued⟩

theorem lowS_nextN {S₀ : Nat} {s : BS (Nat × Nat) Pos} {issued : List Pos} (h : LowS S₀ s issued) (n : Nat) (hn : n ≤ 256) :
    LowS S₀ (nextN posCore n s).2 (issued ++ (nextN posCore n s).1) := by
  unfold nextN
  simp only
  split
  · exact lowS_serve (lowS_refill h) n (by simp [refill]; omega)
  · exact lowS_serve h n (by omega)

theorem lowS_jump {S₀ : Nat} {s : BS (Nat × Nat) Pos} {issued : List Pos} (h : LowS S₀ s issued) :
    LowS S₀ (jump posCore s) issued := by
  refine ⟨?_, ?_, h.issued⟩
  · have := h.core; simp only [jump, posCore]; omega
  · intro hlt; simp [jump] at hlt

theorem lowS_directOne {S₀ : Nat} {s : BS (Nat × Nat) Pos} {issued : List Pos} (h : LowS S₀ s issued) :
    LowS S₀ { s with core := (posCore.gen s.core).2 } (issued ++ take (posCore.gen s.core).1 0 256) := by
  obtain ⟨core, index, buf⟩ := s
  obtain ⟨S, C⟩ := core
  refine ⟨h.core, h.buf, ?_⟩
  intro p hp
  rw [List.mem_append] at hp
  rcases hp with hp | hp
  · exact h.issued p hp
  · obtain ⟨i, _, rfl⟩ := mem_take.1 hp
    simpa [posCore, posBatch] using h.core

theorem lowS_direct {S₀ : Nat} (k : Nat) : ∀ {s : BS (Nat × Nat) Pos} {issued : List Pos}, LowS S₀ s issued →
    LowS S₀ { s with core := (direct posCore k s.core).2 } (issued ++ (direct posCore k s.core).1) := by
  induction k with
  | zero => intro s issued h; simpa [direct] using h
  | succ k ih =>
    intro s issued h
    have h2 := ih (lowS_directOne h)
    simp only [direct]
    rw [← List.append_assoc]
    exact h2

theorem lowS_fillRem {S₀ : Nat} {s : BS (Nat × Nat) Pos} {issued : List Pos} (h : LowS S₀ s issued) (len : Nat) (hl : len < 256) :
    LowS S₀ (fillRem posCore len s).2 (issued ++ (fillRem posCore len s).1) := by
  unfold fillRem
  simp only
  split
  · rename_i hle
    by_cases hidx : s.index < 256
    · have e : min s.index 256 = s.index := by omega
      rw [e] at hle ⊢
      exact lowS_serve h len (by omega)
    · have hl0 : len = 0 := by omega
      subst hl0
      have : take s.buf (min s.index 256) 0 = [] := by simp [take]
      refine ⟨h.core, fun hlt => absurd hlt (by simpa using hidx), ?_⟩
      simpa [this] using h.issued
  · rename_i hgt
    by_cases hidx : s.index < 256
    · have e : min s.index 256 = s.index := by omega
      rw [e] at hgt ⊢
      have h1 := lowS_serve h (256 - s.index) (by omega)
      have h2 := lowS_refill h1
      have h3 := lowS_serve h2 (len - (256 - s.index)) (by simp [refill]; omega)
      simp only [refill] at h3 ⊢
      rw [← List.append_assoc]
      simpa using h3
    · have e : min s.index 256 = 256 := by omega
      rw [e]
      have h2 := lowS_refill h
      have h3 := lowS_serve h2 len (by simp [refill]; omega)
      have : take s.buf 256 (256 - 256) = [] := by simp [take]
      simp only [refill] at h3 ⊢
      simpa [this] using h3

theorem lowS_fill {S₀ : Nat} {s : BS (Nat × Nat) Pos} {issued : List Pos} (h : LowS S₀ s issued) (len : Nat) :
    LowS S₀ (fill posCore len s).2 (issued ++ (fill posCore len s).1) := by
  unfold fill
  simp only
  have h1 := lowS_direct (len / 256) h
  split
  · exact h1
  · have h2 := lowS_fillRem h1 (len % 256) (Nat.mod_lt _ (by omega))
    rw [← List.append_assoc]
    exact h2

theorem lowS_stepOp {S₀ : Nat} {s : BS (Nat × Nat) Pos} {issued : List Pos} (h : LowS S₀ s issued) (op : Op) :
    LowS S₀ (stepOp posCore s op).2 (issued ++ (stepOp posCore s op).1) := by
  cases op with
  | u32 => exact lowS_nextN h 4 (by omega)
  | u64 => exact lowS_nextN h 8 (by omega)
  | f32 => exact lowS_nextN h 4 (by omega)
  | f64 => exact lowS_nextN h 8 (by omega)
  | fill n => exact lowS_fill h n
  | jump => simpa [stepOp] using lowS_jump h

theorem lowS_run {S₀ : Nat} (ops : List Op) : ∀ {s : BS (Nat × Nat) Pos} {issued : List Pos}, LowS S₀ s issued →
    LowS S₀ (run posCore s ops).2 (issued ++ (run posCore s ops).1) := by
  induction ops with
  | nil => intro s issued h; simpa [run] using h
  | cons op ops ih =>
    intro s issued h
    have := ih (lowS_stepOp h op)
    simp only [run]
    rw [← List.append_assoc]
    exact this

end Urandom.Block
