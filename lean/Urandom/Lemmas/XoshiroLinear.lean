import Urandom.Lemmas.GF2
/-
xoshiro256 as a linear map over GF(2): the state transition is additive, its characteristic
polynomial `P` annihilates it (checked by the kernel on the 256 unit states and lifted by
linearity), and the code's jump loop evaluates the polynomial `JUMP ≡ x^(2^128) (mod P)`.
-/
namespace Urandom.XoLin
open Urandom.Spec (iter)
open Urandom (iter_add)
open Urandom.GF2 Urandom.GF2.XSpace
open Urandom.Xoshiro

variable {V : Type} [XSpace V]


instance : XSpace S where
  add a b := xorS a b
  zero := zeroS
  add_assoc' a b c := by cases a; cases b; cases c; simp only [HAdd.hAdd, Add.add, xorS, BitVec.xor_assoc]
  add_comm' a b := by
    cases a; cases b; simp only [HAdd.hAdd, Add.add, xorS]
    congr 1 <;> exact BitVec.xor_comm _ _
  add_zero' a := by
    cases a; simp only [HAdd.hAdd, Add.add, OfNat.ofNat, Zero.zero, xorS, zeroS]; simp
  add_self' a := by
    cases a; simp only [HAdd.hAdd, Add.add, OfNat.ofNat, Zero.zero, xorS, zeroS]; simp

theorem S.add_def (a b : S) : a + b = ⟨a.s0 ^^^ b.s0, a.s1 ^^^ b.s1, a.s2 ^^^ b.s2, a.s3 ^^^ b.s3⟩ := rfl
theorem S.zero_def : (0 : S) = ⟨0, 0, 0, 0⟩ := rfl

theorem rotl_xor (a b : BitVec 64) (k : Nat) : (a ^^^ b).rotateLeft k = a.rotateLeft k ^^^ b.rotateLeft k := by
  ext i hi
  simp [BitVec.getElem_rotateLeft]
  split <;> simp

theorem advanceK_add (k r : Nat) (a b : S) : advanceK k r (a + b) = advanceK k r a + advanceK k r b := by
  obtain ⟨a0,a1,a2,a3⟩ := a
  obtain ⟨b0,b1,b2,b3⟩ := b
  simp only [S.add_def, advanceK, BitVec.shiftLeft_xor_distrib, rotl_xor, S.mk.injEq]
  refine ⟨?_, ?_, ?_, ?_⟩ <;> ac_rfl

def advLin : Lin S := ⟨advance, advanceK_add 17 45⟩



/-- kernel-friendly low-to-high evaluation loop (this is also the shape of the code's `jump`) -/
def evLH (f : V → V) (p : Nat) : Nat → Nat → V → V → V
  | 0, _, _, acc => acc
  | n+1, i, cur, acc => evLH f p n (i+1) (f cur) (if p.testBit i then acc + cur else acc)

theorem evLH_spec (T : Lin V) (p : Nat) : ∀ (n i : Nat) (cur acc : V), p >>> i < 2 ^ n →
    evLH T.f p n i cur acc = acc + ev T (p >>> i) cur := by
  intro n
  induction n with
  | zero =>
    intro i cur acc h
    have : p >>> i = 0 := by simpa using h
    simp [evLH, this, ev_zero, add_zero']
  | succ n ih =>
    intro i cur acc h
    unfold evLH
    have h' : p >>> (i + 1) < 2 ^ n := by
      rw [Nat.shiftRight_succ]; rw [Nat.pow_succ] at h; omega
    rw [ih (i+1) _ _ h', ev_comm_T, ev_shiftRight_step T p i cur]
    split
    · ac_rfl
    · rw [zero_add']

theorem evLH_eq_ev (T : Lin V) (p n : Nat) (hp : p < 2 ^ n) (s : V) : evLH T.f p n 0 s 0 = ev T p s := by
  rw [evLH_spec T p n 0 s 0 (by simpa using hp)]; simp [zero_add']

/-! lifting "zero on unit vectors" to "zero everywhere" for additive maps out of BitVec -/

def lowMask (k : Nat) : BitVec 64 := BitVec.allOnes 64 >>> (64 - k)

theorem getElem_lowMask (k i : Nat) (hk : k ≤ 64) (hi : i < 64) : (lowMask k)[i] = decide (i < k) := by
  simp only [lowMask, BitVec.getElem_ushiftRight, BitVec.getLsbD_allOnes]
  by_cases h : i < k <;> simp [h] <;> omega

theorem and_lowMask_succ (x : BitVec 64) (k : Nat) (hk : k < 64) :
    x &&& lowMask (k+1) = (x &&& lowMask k) ^^^ (if x[k] then BitVec.twoPow 64 k else 0) := by
  ext i hi
  simp only [BitVec.getElem_and, BitVec.getElem_xor, getElem_lowMask _ _ (by omega : k+1 ≤ 64) hi,
    getElem_lowMask _ _ (by omega : k ≤ 64) hi]
  by_cases hx : x[k]
  · simp only [hx, if_true, BitVec.getElem_twoPow]
    by_cases hik : i = k
    · subst hik; simp [hx]
    · have : (i < k + 1) = (i < k) := by simp; omega
      simp [this, hik]
  · simp only [hx, Bool.false_eq_true, if_false, BitVec.getElem_zero, Bool.xor_false]
    by_cases hik : i = k
    · subst hik; simp [hx]
    · have : (i < k + 1) = (i < k) := by simp; omega
      simp [this]

theorem additive_zero (g : BitVec 64 → V) (hadd : ∀ a b, g (a ^^^ b) = g a + g b) : g 0 = 0 := by
  have h : g 0 = g 0 + g 0 := by
    have := hadd 0 0
    rwa [BitVec.xor_self] at this
  calc g 0 = g 0 + g 0 := h
    _ = 0 := add_self' _

theorem bv_lift (g : BitVec 64 → V) (hadd : ∀ a b, g (a ^^^ b) = g a + g b)
    (h0 : ∀ j, j < 64 → g (BitVec.twoPow 64 j) = 0) (x : BitVec 64) : g x = 0 := by
  have key : ∀ k, k ≤ 64 → g (x &&& lowMask k) = 0 := by
    intro k
    induction k with
    | zero =>
      intro _
      have : x &&& lowMask 0 = 0 := by
        ext i hi; simp [getElem_lowMask 0 i (by omega) hi]
      rw [this, additive_zero g hadd]
    | succ k ih =>
      intro hk
      rw [and_lowMask_succ x k (by omega), hadd, ih (by omega)]
      split
      · rw [h0 k (by omega), add_zero']
      · rw [additive_zero g hadd, add_zero']
  have : x &&& lowMask 64 = x := by
    ext i hi; simp [getElem_lowMask 64 i (by omega) hi, hi]
  rw [← this]; exact key 64 (by omega)


def P : Nat := 0x10003c03c3f3ecb1904b4edcf26259f850280002bcefd1a5e9d116f2bb0f0f001
def JUMP : Nat := 0x39abdc4529b1661ca9582618e03fc9aad5a61266f0c9392c180ec6d33cfd0aba

def e0 (x : BitVec 64) : S := ⟨x, 0, 0, 0⟩
def e1 (x : BitVec 64) : S := ⟨0, x, 0, 0⟩
def e2 (x : BitVec 64) : S := ⟨0, 0, x, 0⟩
def e3 (x : BitVec 64) : S := ⟨0, 0, 0, x⟩

theorem S.decomp (s : S) : s = e0 s.s0 + e1 s.s1 + e2 s.s2 + e3 s.s3 := by
  cases s; simp [e0, e1, e2, e3, S.add_def]

theorem e0_add (a b : BitVec 64) : e0 (a ^^^ b) = e0 a + e0 b := by simp [e0, S.add_def]
theorem e1_add (a b : BitVec 64) : e1 (a ^^^ b) = e1 a + e1 b := by simp [e1, S.add_def]
theorem e2_add (a b : BitVec 64) : e2 (a ^^^ b) = e2 a + e2 b := by simp [e2, S.add_def]
theorem e3_add (a b : BitVec 64) : e3 (a ^^^ b) = e3 a + e3 b := by simp [e3, S.add_def]

/-- Boolean check run by the kernel: P(T) kills the 4*64 unit states -/
def basisCheck : Nat → Bool
  | 0 => true
  | j+1 =>
    (evLH advance P 257 0 (e0 (BitVec.twoPow 64 j)) 0 == 0) &&
    (evLH advance P 257 0 (e1 (BitVec.twoPow 64 j)) 0 == 0) &&
    (evLH advance P 257 0 (e2 (BitVec.twoPow 64 j)) 0 == 0) &&
    (evLH advance P 257 0 (e3 (BitVec.twoPow 64 j)) 0 == 0) && basisCheck j

theorem basisCheck_ok : basisCheck 64 = true := by decide +kernel

theorem basisCheck_spec : ∀ n, basisCheck n = true → ∀ j, j < n →
    evLH advance P 257 0 (e0 (BitVec.twoPow 64 j)) 0 = 0 ∧
    evLH advance P 257 0 (e1 (BitVec.twoPow 64 j)) 0 = 0 ∧
    evLH advance P 257 0 (e2 (BitVec.twoPow 64 j)) 0 = 0 ∧
    evLH advance P 257 0 (e3 (BitVec.twoPow 64 j)) 0 = 0 := by
  intro n
  induction n with
  | zero => intro _ j hj; omega
  | succ n ih =>
    intro h j hj
    simp only [basisCheck, Bool.and_eq_true, beq_iff_eq] at h
    by_cases hjn : j = n
    · subst hjn; exact ⟨h.1.1.1.1, h.1.1.1.2, h.1.1.2, h.1.2⟩
    · exact ih h.2 j (by omega)

theorem P_lt : P < 2 ^ 257 := by decide
theorem P_top : P.testBit 256 = true := by decide

theorem P_annihilates_all (s : S) : ev advLin P s = 0 := by
  have hb := basisCheck_spec 64 basisCheck_ok
  have conv : ∀ v : S, evLH advance P 257 0 v 0 = ev advLin P v := fun v => evLH_eq_ev advLin P 257 P_lt v
  have h0 : ∀ x, ev advLin P (e0 x) = 0 :=
    bv_lift (fun x => ev advLin P (e0 x)) (fun a b => by simp only [e0_add, ev_add]) (fun j hj => by rw [← conv]; exact (hb j hj).1)
  have h1 : ∀ x, ev advLin P (e1 x) = 0 :=
    bv_lift (fun x => ev advLin P (e1 x)) (fun a b => by simp only [e1_add, ev_add]) (fun j hj => by rw [← conv]; exact (hb j hj).2.1)
  have h2 : ∀ x, ev advLin P (e2 x) = 0 :=
    bv_lift (fun x => ev advLin P (e2 x)) (fun a b => by simp only [e2_add, ev_add]) (fun j hj => by rw [← conv]; exact (hb j hj).2.2.1)
  have h3 : ∀ x, ev advLin P (e3 x) = 0 :=
    bv_lift (fun x => ev advLin P (e3 x)) (fun a b => by simp only [e3_add, ev_add]) (fun j hj => by rw [← conv]; exact (hb j hj).2.2.2)
  rw [S.decomp s, ev_add, ev_add, ev_add, h0, h1, h2, h3]
  simp [add_zero']

theorem xo_ann : Annihilates advLin P 256 := ⟨P_annihilates_all, P_top, P_lt⟩

theorem jump_poly : sqIter P 256 128 2 = JUMP := by decide +kernel

/-- the jump polynomial, evaluated at the state transition, is 2^128 steps — for every state -/
theorem ev_JUMP (s : S) : ev advLin JUMP s = iter advance (2 ^ 128) s := by
  rw [← jump_poly]; exact sqIter_two advLin xo_ann (by omega) 128 s


/-- generic: the inner loop is `evLH` restricted to one 64-bit window of a mask `p` -/
theorem jumpWord_eq (p : Nat) (w : BitVec 64) (off : Nat)
    (hw : ∀ b, b < 64 → ((w &&& (1#64 <<< b)) != 0) = p.testBit (off + b)) :
    ∀ (n b : Nat) (cur acc : S), b + n ≤ 64 → ∀ (m : Nat) (rest : Nat),
      evLH advance p (n + rest) (off + b) cur acc =
        evLH advance p rest (off + b + n) (jumpWord w n b (cur, acc)).1 (jumpWord w n b (cur, acc)).2 := by
  intro n
  induction n with
  | zero => intro b cur acc _ _ rest; simp [jumpWord]
  | succ n ih =>
    intro b cur acc hb m rest
    have hbit := hw b (by omega)
    rw [show n + 1 + rest = (n + rest) + 1 by omega]
    simp only [evLH, jumpWord, jumpBit]
    rw [← hbit]
    have := ih (b+1) (advance cur) (if (w &&& (1#64 <<< b)) != 0 then acc + cur else acc) (by omega) m rest
    rw [show off + (b + 1) = off + b + 1 by omega, show off + b + 1 + n = off + b + (n + 1) by omega] at this
    exact this

def wordBitsOk (p : Nat) (w : BitVec 64) (off : Nat) : Nat → Bool
  | 0 => true
  | b+1 => (((w &&& (1#64 <<< b)) != 0) == p.testBit (off + b)) && wordBitsOk p w off b

theorem wordBitsOk_spec (p w off) : ∀ n, wordBitsOk p w off n = true → ∀ b, b < n →
    ((w &&& (1#64 <<< b)) != 0) = p.testBit (off + b) := by
  intro n
  induction n with
  | zero => intro _ b hb; omega
  | succ n ih =>
    intro h b hb
    simp only [wordBitsOk, Bool.and_eq_true, beq_iff_eq] at h
    by_cases hbn : b = n
    · subst hbn; exact h.1
    · exact ih h.2 b (by omega)

theorem w0 : wordBitsOk JUMP 0x180ec6d33cfd0aba#64 0 64 = true := by decide +kernel
theorem w1 : wordBitsOk JUMP 0xd5a61266f0c9392c#64 64 64 = true := by decide +kernel
theorem w2 : wordBitsOk JUMP 0xa9582618e03fc9aa#64 128 64 = true := by decide +kernel
theorem w3 : wordBitsOk JUMP 0x39abdc4529b1661c#64 192 64 = true := by decide +kernel

theorem JUMP_lt : JUMP < 2 ^ 256 := by decide

end Urandom.XoLin
