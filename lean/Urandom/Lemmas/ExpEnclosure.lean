import Mathlib.Analysis.Complex.Exponential
import Mathlib.Tactic.Ring
import Mathlib.Tactic.Linarith
import Mathlib.Tactic.NormNum
import Mathlib.Tactic.FieldSimp
import Mathlib.Tactic.Positivity
/-
Machine-checkable enclosures of `Real.exp` at negative rationals, by integer arithmetic only:
the Taylor polynomial of degree `n - 1` at `x = -a/b` (with `|x| ≤ 1/2`) as one fraction over a
common denominator (`tay`), Mathlib's remainder bound `Real.exp_bound`, and `exp (k·x) = (exp x)^k`
for the argument reduction.  `entryOk` is the Boolean the kernel evaluates for one table entry;
`entryOk_sound` says what it means.
-/
namespace Urandom.ExpEncl
open Finset

/-- one step of the forward Taylor recursion at `x = -a/b`: state `(s, t, d)` with
`s/d = ∑_{j<m} x^j/j!` and `t/d = x^m/m!` -/
def tstep (a b m : ℕ) (st : ℤ × ℤ × ℤ) : ℤ × ℤ × ℤ :=
  ((st.1 + st.2.1) * b * (m + 1), -(a : ℤ) * st.2.1, st.2.2 * b * (m + 1))

def tay (a b : ℕ) : ℕ → ℤ × ℤ × ℤ
  | 0 => (0, 1, 1)
  | m + 1 => tstep a b m (tay a b m)

theorem tay_spec (a b : ℕ) (hb : 0 < b) (m : ℕ) :
    (0 : ℝ) < ((tay a b m).2.2 : ℝ) ∧
    ((tay a b m).1 : ℝ) / (tay a b m).2.2 = ∑ j ∈ range m, (-(a : ℝ) / b) ^ j / j.factorial ∧
    ((tay a b m).2.1 : ℝ) / (tay a b m).2.2 = (-(a : ℝ) / b) ^ m / m.factorial := by
  have hbR : (0 : ℝ) < b := by exact_mod_cast hb
  induction m with
  | zero => simp [tay]
  | succ m ih =>
    obtain ⟨hd, hs, ht⟩ := ih
    have hm1 : (0 : ℝ) < (m : ℝ) + 1 := by positivity
    simp only [tay, tstep]
    refine ⟨?_, ?_, ?_⟩
    · push_cast; positivity
    · rw [sum_range_succ, ← hs, ← ht]
      push_cast
      field_simp
    · have hf : (0 : ℝ) < (m.factorial : ℝ) := by exact_mod_cast m.factorial_pos
      have ht' : ((tay a b m).2.1 : ℝ) = (-(a : ℝ) / b) ^ m / m.factorial * (tay a b m).2.2 := by
        rw [← ht]; field_simp
      rw [pow_succ, Nat.factorial_succ]
      push_cast
      rw [ht']
      field_simp

/-- the remainder of the degree-19 polynomial for `|x| ≤ 1/2` -/
theorem rem20 : ((1 : ℝ) / 2) ^ 20 * (((20 : ℕ).succ : ℝ) / (((20 : ℕ).factorial : ℝ) * (20 : ℕ))) ≤ 1 / 10 ^ 24 := by
  norm_num [Nat.factorial]

/-- **enclosure of `exp (-a/b)`** for `2a ≤ b`: within `10^-24` of the degree-19 Taylor fraction -/
theorem exp_encl (a b : ℕ) (hb : 0 < b) (hab : 2 * a ≤ b) :
    |Real.exp (-(a : ℝ) / b) - ((tay a b 20).1 : ℝ) / (tay a b 20).2.2| ≤ 1 / 10 ^ 24 := by
  have hbR : (0 : ℝ) < b := by exact_mod_cast hb
  have habR : 2 * (a : ℝ) ≤ b := by exact_mod_cast hab
  have hx : |(-(a : ℝ) / b)| ≤ 1 / 2 := by
    rw [neg_div, abs_neg, abs_of_nonneg (by positivity)]
    rw [div_le_iff₀ hbR]; linarith
  have hx1 : |(-(a : ℝ) / b)| ≤ 1 := le_trans hx (by norm_num)
  have h := Real.exp_bound hx1 (n := 20) (by decide)
  rw [(tay_spec a b hb 20).2.1]
  refine le_trans h (le_trans ?_ rem20)
  apply mul_le_mul_of_nonneg_right
  · exact pow_le_pow_left₀ (abs_nonneg _) hx 20
  · positivity

/-- the Boolean the kernel evaluates for one table entry: the ordinate `Fn / 10^18` against
`exp (-A/B)`, computed as `(exp (-A/(B·k)))^k`, relative tolerance `10^-13` -/
def entryOk (A B k Fn : ℕ) : Bool :=
  let st := tay A (B * k) 20
  let L : ℤ := st.1 * 10 ^ 24 - st.2.2
  let U : ℤ := st.1 * 10 ^ 24 + st.2.2
  let W : ℤ := st.2.2 * 10 ^ 24
  decide (0 < B * k) && decide (2 * A ≤ B * k) && decide (0 ≤ L) &&
    decide ((Fn : ℤ) * (10 ^ 13 - 1) * W ^ k ≤ L ^ k * 10 ^ 31) &&
    decide (U ^ k * 10 ^ 31 ≤ (Fn : ℤ) * (10 ^ 13 + 1) * W ^ k)

/-- **what `entryOk` means**: the tabulated ordinate is the exponential at the tabulated point, to a
relative `10^-13` -/
theorem entryOk_sound (A B k Fn : ℕ) (hk : 0 < k) (h : entryOk A B k Fn = true) :
    |Real.exp (-(A : ℝ) / B) - (Fn : ℝ) / 10 ^ 18| ≤ (Fn : ℝ) / 10 ^ 18 / 10 ^ 13 := by
  unfold entryOk at h
  simp only [Bool.and_eq_true, decide_eq_true_eq] at h
  obtain ⟨⟨⟨⟨hb, hab⟩, hL⟩, hlo⟩, hhi⟩ := h
  obtain ⟨hd, -, -⟩ := tay_spec A (B * k) hb 20
  have he := exp_encl A (B * k) hb hab
  set s : ℤ := (tay A (B * k) 20).1 with hs
  set d : ℤ := (tay A (B * k) 20).2.2 with hdd
  -- the enclosure as fractions over W = d·10^24
  have hW : (0 : ℝ) < (d : ℝ) * 10 ^ 24 := by positivity
  have e1 : ((s : ℝ) * 10 ^ 24 - d) / ((d : ℝ) * 10 ^ 24) = (s : ℝ) / d - 1 / 10 ^ 24 := by
    field_simp
  have e2 : ((s : ℝ) * 10 ^ 24 + d) / ((d : ℝ) * 10 ^ 24) = (s : ℝ) / d + 1 / 10 ^ 24 := by
    field_simp
  obtain ⟨h1, h2⟩ := abs_sub_le_iff.1 he
  set x : ℝ := Real.exp (-(A : ℝ) / ((B * k : ℕ) : ℝ)) with hx
  have hlox : ((s : ℝ) * 10 ^ 24 - d) / ((d : ℝ) * 10 ^ 24) ≤ x := by rw [e1]; linarith
  have hhix : x ≤ ((s : ℝ) * 10 ^ 24 + d) / ((d : ℝ) * 10 ^ 24) := by rw [e2]; linarith
  have hL0 : (0 : ℝ) ≤ ((s : ℝ) * 10 ^ 24 - d) / ((d : ℝ) * 10 ^ 24) := by
    apply div_nonneg _ hW.le
    have : ((0 : ℤ) : ℝ) ≤ ((s * 10 ^ 24 - d : ℤ) : ℝ) := by exact_mod_cast hL
    push_cast at this; linarith
  -- exp(-A/B) = x^k
  have hy : Real.exp (-(A : ℝ) / B) = x ^ k := by
    rw [hx, ← Real.exp_nat_mul]
    congr 1
    have hkR : (k : ℝ) ≠ 0 := by exact_mod_cast hk.ne'
    have hBR : (B : ℝ) ≠ 0 := by
      have : 0 < B := Nat.pos_of_mul_pos_right hb
      exact_mod_cast this.ne'
    push_cast
    field_simp
  have hxk_lo := pow_le_pow_left₀ hL0 hlox k
  have hxk_hi := pow_le_pow_left₀ (le_trans hL0 hlox) hhix k
  rw [div_pow] at hxk_lo hxk_hi
  have hWk : (0 : ℝ) < ((d : ℝ) * 10 ^ 24) ^ k := by positivity
  -- the two integer inequalities, cast to the reals
  have hloR : (Fn : ℝ) * (10 ^ 13 - 1) * ((d : ℝ) * 10 ^ 24) ^ k ≤ ((s : ℝ) * 10 ^ 24 - d) ^ k * 10 ^ 31 := by
    exact_mod_cast hlo
  have hhiR : ((s : ℝ) * 10 ^ 24 + d) ^ k * 10 ^ 31 ≤ (Fn : ℝ) * (10 ^ 13 + 1) * ((d : ℝ) * 10 ^ 24) ^ k := by
    exact_mod_cast hhi
  have hlow : (Fn : ℝ) * (10 ^ 13 - 1) / 10 ^ 31 ≤ x ^ k := by
    refine le_trans ?_ hxk_lo
    rw [div_le_div_iff₀ (by positivity) hWk]
    linarith
  have hupp : x ^ k ≤ (Fn : ℝ) * (10 ^ 13 + 1) / 10 ^ 31 := by
    refine le_trans hxk_hi ?_
    rw [div_le_div_iff₀ hWk (by positivity)]
    linarith
  rw [hy, abs_sub_le_iff]
  constructor
  · have : (Fn : ℝ) * (10 ^ 13 + 1) / 10 ^ 31 = (Fn : ℝ) / 10 ^ 18 + (Fn : ℝ) / 10 ^ 18 / 10 ^ 13 := by
      field_simp
    linarith
  · have : (Fn : ℝ) * (10 ^ 13 - 1) / 10 ^ 31 = (Fn : ℝ) / 10 ^ 18 - (Fn : ℝ) / 10 ^ 18 / 10 ^ 13 := by
      field_simp
    linarith

end Urandom.ExpEncl
