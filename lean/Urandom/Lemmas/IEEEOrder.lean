import Mathlib.Algebra.Order.Field.Power
import Mathlib.Tactic.Linarith
import Mathlib.Tactic.Positivity
import Mathlib.Tactic.Ring
import Mathlib.Tactic.NormNum
import Mathlib.Tactic.FieldSimp
import Mathlib.Data.Rat.Cast.Order
import Urandom.Model.IEEE
/-
The order of the IEEE model in terms of exact rational values: `finLt` / `finEq` (comparison of
aligned integers) are `<` / `=` of the rationals `±m·2^e`.
-/
namespace Urandom.IEEE

/-- the exact value of a finite `Val` -/
def rval (s : Bool) (m : ℕ) (e : ℤ) : ℚ := (if s then -1 else 1) * (m : ℚ) * (2 : ℚ) ^ e

theorem shiftLeft_cast (m k : ℕ) : ((m <<< k : ℕ) : ℚ) = (m : ℚ) * 2 ^ k := by
  rw [Nat.shiftLeft_eq]; push_cast; ring

/-- the aligned integer used by `finLt` / `finEq`, as a rational: `value · 2^(-e0)` -/
theorem aligned_eq (s : Bool) (m : ℕ) (e e0 : ℤ) (h : e0 ≤ e) :
    (((if s then -1 else 1 : ℤ) * ((m <<< (e - e0).toNat : ℕ) : ℤ) : ℤ) : ℚ) = rval s m e * (2 : ℚ) ^ (-e0) := by
  have h2 : (0 : ℚ) < 2 := by norm_num
  have hk : ((e - e0).toNat : ℤ) = e - e0 := Int.toNat_of_nonneg (by omega)
  have e1 : (2 : ℚ) ^ (e - e0).toNat = (2 : ℚ) ^ e * (2 : ℚ) ^ (-e0) := by
    rw [← zpow_natCast, hk, sub_eq_add_neg, zpow_add₀ (by norm_num)]
  have hs : (((m <<< (e - e0).toNat : ℕ) : ℤ) : ℚ) = (m : ℚ) * (2 : ℚ) ^ (e - e0).toNat := by
    rw [Int.cast_natCast, shiftLeft_cast]
  unfold rval
  rw [Int.cast_mul, hs, e1]
  cases s <;> simp <;> ring

theorem finLt_iff (s : Bool) (m : ℕ) (e : ℤ) (t : Bool) (n : ℕ) (g : ℤ) :
    Val.finLt s m e t n g = true ↔ rval s m e < rval t n g := by
  unfold Val.finLt
  simp only [decide_eq_true_eq]
  have hp : (0 : ℚ) < (2 : ℚ) ^ (-(min e g)) := by positivity
  rw [← Int.cast_lt (R := ℚ), aligned_eq s m e (min e g) (min_le_left _ _), aligned_eq t n g (min e g) (min_le_right _ _)]
  constructor
  · intro h
    by_contra hc
    push_neg at hc
    have := mul_le_mul_of_nonneg_right hc hp.le
    linarith
  · intro h
    exact mul_lt_mul_of_pos_right h hp

theorem finEq_iff (s : Bool) (m : ℕ) (e : ℤ) (t : Bool) (n : ℕ) (g : ℤ) :
    Val.finEq s m e t n g = true ↔ rval s m e = rval t n g := by
  unfold Val.finEq
  simp only [decide_eq_true_eq]
  have hp : (2 : ℚ) ^ (-(min e g)) ≠ 0 := by positivity
  rw [← Int.cast_inj (α := ℚ), aligned_eq s m e (min e g) (min_le_left _ _), aligned_eq t n g (min e g) (min_le_right _ _)]
  exact mul_left_inj' hp

/-- extended-real style value: NaN has none -/
def Val.toRat? : Val → Option ℚ
  | .fin s m e => some (rval s m e)
  | _ => none

theorem le_fin_iff (s : Bool) (m : ℕ) (e : ℤ) (t : Bool) (n : ℕ) (g : ℤ) :
    Val.le (.fin s m e) (.fin t n g) = true ↔ rval s m e ≤ rval t n g := by
  simp only [Val.le, Val.lt, Val.eq, Bool.or_eq_true, finLt_iff, finEq_iff]
  exact le_iff_lt_or_eq.symm

theorem rval_pos (m : ℕ) (e : ℤ) (h : 0 < m) : 0 < rval false m e := by
  unfold rval; simp; positivity

theorem rval_neg_le (m : ℕ) (e : ℤ) : rval true m e ≤ 0 := by
  unfold rval
  have : (0 : ℚ) ≤ (m : ℚ) * (2 : ℚ) ^ e := by positivity
  simp; linarith

theorem rval_zero (s : Bool) (e : ℤ) : rval s 0 e = 0 := by unfold rval; simp

end Urandom.IEEE
