import Urandom.Model.Word
import Urandom.Generated.Scalar
/-
Helper lemmas for `Props/C01T.lean`: the translated `jump` of xoshiro256 (two nested counted loops over the 4 x 64 bits of the
jump polynomial, `Generated/Scalar.lean`) is the model's `Xoshiro.jump`.  The loop bodies are definitions of their own in the
generated file; `phi` reads the eight loop variables (accumulator s0..s3, running state s[0..3]) as the model's pair of states.
-/
namespace Urandom.ScalarProof
open Urandom Urandom.Generated

abbrev T8 := BitVec 64 × BitVec 64 × BitVec 64 × BitVec 64 × BitVec 64 × BitVec 64 × BitVec 64 × BitVec 64

def phi (t : T8) : Xoshiro.S × Xoshiro.S :=
  (⟨t.2.2.2.2.1, t.2.2.2.2.2.1, t.2.2.2.2.2.2.1, t.2.2.2.2.2.2.2⟩, ⟨t.1, t.2.1, t.2.2.1, t.2.2.2.1⟩)

theorem foldl_hom {α β γ : Type} (φ : α → β) (f : α → γ → α) (g : β → γ → β) (h : ∀ a c, φ (f a c) = g (φ a) c)
    (l : List γ) (a : α) : φ (l.foldl f a) = l.foldl g (φ a) := by
  induction l generalizing a with
  | nil => rfl
  | cons c l ih => simp only [List.foldl_cons]; rw [ih, h]

theorem jumpWord_range (w : BitVec 64) (n b : Nat) (st : Xoshiro.S × Xoshiro.S) :
    (List.range' b n).foldl (fun st b => Xoshiro.jumpBit w b st) st = Xoshiro.jumpWord w n b st := by
  induction n generalizing b st with
  | zero => rfl
  | succ n ih =>
    rw [List.range'_succ, List.foldl_cons, ih]
    rfl

def JW (i : Nat) : BitVec 64 := Xoshiro.JUMPW.getD i 0#64

theorem inner_step (i : Nat) (st : T8) (b : Nat) :
    phi (Scalar.xoshiro.jump_loop1 i st b) = Xoshiro.jumpBit (JW i) b (phi st) := by
  obtain ⟨a0, a1, a2, a3, c0, c1, c2, c3⟩ := st
  simp only [Scalar.xoshiro.jump_loop1, phi, Xoshiro.jumpBit, JW, Xoshiro.JUMPW]
  by_cases h : ([1733541517147835066#64, 15395012609548302636#64, 12202545078643706282#64, 4155657270789760540#64].getD i 0#64 &&& 1#64 <<< b != 0#64) = true
  · have h2 : ([1733541517147835066#64, 15395012609548302636#64, 12202545078643706282#64, 4155657270789760540#64].getD i 0#64 &&& 1#64 <<< b != 0) = true := h
    simp only [h, h2, if_true]
    rfl
  · have h2 : ¬ ([1733541517147835066#64, 15395012609548302636#64, 12202545078643706282#64, 4155657270789760540#64].getD i 0#64 &&& 1#64 <<< b != 0) = true := h
    simp only [h, h2]
    rfl

theorem outer_step (st : T8) (i : Nat) :
    phi (Scalar.xoshiro.jump_loop2 st i) = Xoshiro.jumpWord (JW i) 64 0 (phi st) := by
  obtain ⟨a0, a1, a2, a3, c0, c1, c2, c3⟩ := st
  rw [← jumpWord_range]
  have := foldl_hom phi (Scalar.xoshiro.jump_loop1 i) (fun st b => Xoshiro.jumpBit (JW i) b st) (inner_step i)
    (List.range' 0 64) (a0, a1, a2, a3, c0, c1, c2, c3)
  rw [← this]
  rfl

theorem xjump_tr (s : Xoshiro.S) :
    Scalar.xoshiro.jump s.s0 s.s1 s.s2 s.s3 =
      ((Xoshiro.jump s).s0, (Xoshiro.jump s).s1, (Xoshiro.jump s).s2, (Xoshiro.jump s).s3) := by
  have h := foldl_hom phi Scalar.xoshiro.jump_loop2 (fun st i => Xoshiro.jumpWord (JW i) 64 0 st) outer_step
    (List.range' 0 4) (0#64, 0#64, 0#64, 0#64, s.s0, s.s1, s.s2, s.s3)
  have hr : List.range' 0 4 = [0, 1, 2, 3] := by decide
  have hm : ∀ x : Xoshiro.S × Xoshiro.S, (List.range' 0 4).foldl (fun st i => Xoshiro.jumpWord (JW i) 64 0 st) x =
      Xoshiro.JUMPW.foldl (fun st w => Xoshiro.jumpWord w 64 0 st) x := by
    intro x
    rw [hr]
    simp only [List.foldl_cons, List.foldl_nil, Xoshiro.JUMPW]
    have e0 : JW 0 = 0x180ec6d33cfd0aba#64 := rfl
    have e1 : JW 1 = 0xd5a61266f0c9392c#64 := rfl
    have e2 : JW 2 = 0xa9582618e03fc9aa#64 := rfl
    have e3 : JW 3 = 0x39abdc4529b1661c#64 := rfl
    rw [e0, e1, e2, e3]
  have hphi : phi (0#64, 0#64, 0#64, 0#64, s.s0, s.s1, s.s2, s.s3) = (s, Xoshiro.zeroS) := rfl
  have hj : Xoshiro.jump s = (phi ((List.range' 0 4).foldl Scalar.xoshiro.jump_loop2 (0#64, 0#64, 0#64, 0#64, s.s0, s.s1, s.s2, s.s3))).2 := by
    rw [h, hm, hphi]
    rfl
  rw [hj]
  unfold Scalar.xoshiro.jump
  simp only [Nat.sub_zero]
  generalize List.foldl Scalar.xoshiro.jump_loop2 _ (List.range' 0 4) = R
  obtain ⟨a0, a1, a2, a3, c0, c1, c2, c3⟩ := R
  rfl

end Urandom.ScalarProof
