import Mathlib.Tactic.Ring
import Mathlib.Tactic.Linarith
import Urandom.Model.IEEE
/-
Round trip of the IEEE model: every value produced by `round` is *canonical* for the format, and
decoding the bit pattern of a canonical value gives the value back.  Hence

    decode f (encode f v sticky) = round f v sticky        (v not NaN)

so that class (NaN / infinite / finite), sign and magnitude statements proved about exact values
(`Val`) transfer to the bit patterns the operations return.
-/
namespace Urandom.IEEE

/-- the two real formats satisfy this; the lemmas need at least one mantissa and one exponent bit -/
structure Fmt.WF (f : Fmt) : Prop where
  eb : 1 ≤ f.eb
  mb : 1 ≤ f.mb

theorem b64_wf : b64.WF := ⟨by decide, by decide⟩
theorem b32_wf : b32.WF := ⟨by decide, by decide⟩

/-- canonical finite values: subnormals (and zeros) at `emin`, normals with an in-range exponent -/
def Canon (f : Fmt) : Val → Prop
  | .nan => True
  | .inf _ => True
  | .fin _ q e => (q < 2 ^ f.mb ∧ e = f.emin) ∨
      (2 ^ f.mb ≤ q ∧ q < 2 ^ (f.mb + 1) ∧ f.emin ≤ e ∧ e + f.mb + f.bias < f.emaxField)

/-! ### the three fields of a packed word -/

theorem fields (eb mb σ E r : ℕ) (hσ : σ ≤ 1) (hE : E < 2 ^ eb) (hr : r < 2 ^ mb) :
    (σ * 2 ^ (eb + mb) + E * 2 ^ mb + r).testBit (eb + mb) = decide (σ = 1) ∧
    ((σ * 2 ^ (eb + mb) + E * 2 ^ mb + r) >>> mb) % 2 ^ eb = E ∧
    (σ * 2 ^ (eb + mb) + E * 2 ^ mb + r) % 2 ^ mb = r := by
  have hA : 0 < 2 ^ mb := Nat.pos_of_ne_zero (by positivity)
  have hB : 0 < 2 ^ eb := Nat.pos_of_ne_zero (by positivity)
  have hAB : 2 ^ (eb + mb) = 2 ^ eb * 2 ^ mb := by rw [pow_add]
  have hx : σ * 2 ^ (eb + mb) + E * 2 ^ mb + r = r + (σ * 2 ^ eb + E) * 2 ^ mb := by rw [hAB]; ring
  have hlow : E * 2 ^ mb + r < 2 ^ (eb + mb) := by
    rw [hAB]
    calc E * 2 ^ mb + r < E * 2 ^ mb + 2 ^ mb := by omega
      _ = (E + 1) * 2 ^ mb := by ring
      _ ≤ 2 ^ eb * 2 ^ mb := Nat.mul_le_mul_right _ hE
  refine ⟨?_, ?_, ?_⟩
  · rw [Nat.testBit_eq_decide_div_mod_eq]
    have : (σ * 2 ^ (eb + mb) + E * 2 ^ mb + r) / 2 ^ (eb + mb) = σ := by
      have h1 : σ * 2 ^ (eb + mb) + E * 2 ^ mb + r = (E * 2 ^ mb + r) + σ * 2 ^ (eb + mb) := by ring
      rw [h1, Nat.add_mul_div_right _ _ (Nat.pos_of_ne_zero (by positivity)), Nat.div_eq_of_lt hlow, Nat.zero_add]
    rw [this]
    have : σ = 0 ∨ σ = 1 := by omega
    rcases this with rfl | rfl <;> simp
  · rw [Nat.shiftRight_eq_div_pow, hx, Nat.add_mul_div_right _ _ hA, Nat.div_eq_of_lt hr, Nat.zero_add,
      Nat.add_comm, Nat.add_mul_mod_self_right, Nat.mod_eq_of_lt hE]
  · rw [hx, Nat.add_mul_mod_self_right, Nat.mod_eq_of_lt hr]

theorem signBit_eq (f : Fmt) (s : Bool) : signBit f s = (if s then 1 else 0) * 2 ^ (f.eb + f.mb) := by
  cases s <;> simp [signBit]

/-- a packed word as a sum: sign, exponent field, mantissa field occupy disjoint bit ranges -/
theorem pack_eq (f : Fmt) (s : Bool) (E r : ℕ) (hE : E < 2 ^ f.eb) (hr : r < 2 ^ f.mb) :
    signBit f s ||| (E <<< f.mb) ||| r = (if s then 1 else 0) * 2 ^ (f.eb + f.mb) + E * 2 ^ f.mb + r := by
  have hAB : 2 ^ (f.eb + f.mb) = 2 ^ f.eb * 2 ^ f.mb := by rw [pow_add]
  have hlow : E * 2 ^ f.mb + r < 2 ^ (f.eb + f.mb) := by
    rw [hAB]
    calc E * 2 ^ f.mb + r < E * 2 ^ f.mb + 2 ^ f.mb := by omega
      _ = (E + 1) * 2 ^ f.mb := by ring
      _ ≤ 2 ^ f.eb * 2 ^ f.mb := Nat.mul_le_mul_right _ hE
  rw [Nat.or_assoc, ← Nat.shiftLeft_add_eq_or_of_lt hr, Nat.shiftLeft_eq]
  cases s
  · simp [signBit]
  · have := Nat.two_pow_add_eq_or_of_lt hlow 1
    simp only [Nat.mul_one] at this
    simp only [signBit, if_true, Nat.one_mul]
    rw [← this, Nat.add_assoc]

/-! ### decode ∘ toBits on canonical values -/

theorem toBits_fin (f : Fmt) (s : Bool) (q : ℕ) (e : ℤ) :
    toBits f (.fin s q e) = if q < 2 ^ f.mb then signBit f s ||| q
      else signBit f s ||| ((e + f.mb + f.bias).toNat <<< f.mb) ||| (q - 2 ^ f.mb) := rfl

theorem decode_eq (f : Fmt) (bits : ℕ) :
    decode f bits =
      if (bits >>> f.mb) % 2 ^ f.eb = f.emaxField then
        (if bits % 2 ^ f.mb = 0 then .inf (bits.testBit (f.eb + f.mb)) else .nan)
      else if (bits >>> f.mb) % 2 ^ f.eb = 0 then .fin (bits.testBit (f.eb + f.mb)) (bits % 2 ^ f.mb) f.emin
      else .fin (bits.testBit (f.eb + f.mb)) (2 ^ f.mb + bits % 2 ^ f.mb) ((((bits >>> f.mb) % 2 ^ f.eb : ℕ) : ℤ) - f.bias - f.mb) := rfl

theorem emaxField_pos (f : Fmt) (h : f.WF) : 1 ≤ f.emaxField := by
  unfold Fmt.emaxField
  have : 2 ^ 1 ≤ 2 ^ f.eb := Nat.pow_le_pow_right (by decide) h.eb
  omega

theorem emaxField_lt (f : Fmt) : f.emaxField < 2 ^ f.eb := by
  unfold Fmt.emaxField
  have : 0 < 2 ^ f.eb := Nat.pos_of_ne_zero (by positivity)
  omega

theorem decode_toBits_fin (f : Fmt) (h : f.WF) (s : Bool) (q : ℕ) (e : ℤ) (hc : Canon f (.fin s q e)) :
    decode f (toBits f (.fin s q e)) = .fin s q e := by
  have hmax := emaxField_pos f h
  have hmaxlt := emaxField_lt f
  have hB : 0 < 2 ^ f.eb := Nat.pos_of_ne_zero (by positivity)
  rcases hc with ⟨hq, he⟩ | ⟨hq1, hq2, he1, he2⟩
  · -- subnormal / zero
    have hp := pack_eq f s 0 q hB hq
    simp only [Nat.zero_shiftLeft, Nat.or_zero, Nat.zero_mul, Nat.add_zero] at hp
    obtain ⟨f1, f2, f3⟩ := fields f.eb f.mb (if s then 1 else 0) 0 q (by cases s <;> simp) hB hq
    simp only [Nat.zero_mul, Nat.add_zero] at f1 f2 f3
    rw [toBits_fin, if_pos hq, hp, decode_eq]
    simp only [f1, f2, f3]
    have h0 : ¬ (0 : ℕ) = f.emaxField := by omega
    subst he
    cases s <;> simp [h0]
  · -- normal
    have hEnn : 0 ≤ e + f.mb + f.bias := by unfold Fmt.emin at he1; omega
    obtain ⟨E, hEeq⟩ : ∃ E : ℕ, (E : ℤ) = e + f.mb + f.bias := ⟨(e + f.mb + f.bias).toNat, Int.toNat_of_nonneg hEnn⟩
    have hE1 : 1 ≤ E := by unfold Fmt.emin at he1; omega
    have hE2 : E < f.emaxField := by omega
    have hElt : E < 2 ^ f.eb := by omega
    have hr : q - 2 ^ f.mb < 2 ^ f.mb := by rw [pow_succ] at hq2; omega
    have hp := pack_eq f s E (q - 2 ^ f.mb) hElt hr
    obtain ⟨f1, f2, f3⟩ := fields f.eb f.mb (if s then 1 else 0) E (q - 2 ^ f.mb) (by cases s <;> simp) hElt hr
    have hnq : ¬ q < 2 ^ f.mb := by omega
    have htn : (e + f.mb + f.bias).toNat = E := by omega
    rw [toBits_fin, if_neg hnq, htn, hp, decode_eq]
    simp only [f1, f2, f3]
    have h1 : ¬ E = f.emaxField := by omega
    have h2 : ¬ E = 0 := by omega
    have h3 : 2 ^ f.mb + (q - 2 ^ f.mb) = q := by omega
    have h4 : (E : ℤ) - f.bias - f.mb = e := by omega
    cases s <;> simp [h1, h2, h3, h4]

theorem decode_infBits (f : Fmt) (_h : f.WF) (s : Bool) : decode f (infBits f s) = .inf s := by
  have hmaxlt := emaxField_lt f
  have hA : 0 < 2 ^ f.mb := Nat.pos_of_ne_zero (by positivity)
  have hp := pack_eq f s f.emaxField 0 hmaxlt hA
  obtain ⟨f1, f2, f3⟩ := fields f.eb f.mb (if s then 1 else 0) f.emaxField 0 (by cases s <;> simp) hmaxlt hA
  simp only [Nat.or_zero, Nat.add_zero] at hp f1 f2 f3
  unfold infBits
  rw [hp, decode_eq]
  simp only [f1, f2, f3]
  cases s <;> simp

theorem decode_qnan (f : Fmt) (h : f.WF) : decode f (qnan f) = .nan := by
  have hmaxlt := emaxField_lt f
  have hr : 2 ^ (f.mb - 1) < 2 ^ f.mb := Nat.pow_lt_pow_right (by decide) (by have := h.mb; omega)
  have hp := pack_eq f false f.emaxField (2 ^ (f.mb - 1)) hmaxlt hr
  obtain ⟨_, f2, f3⟩ := fields f.eb f.mb 0 f.emaxField (2 ^ (f.mb - 1)) (by decide) hmaxlt hr
  simp only [signBit, Bool.false_eq_true, if_false, Nat.zero_or, Nat.zero_mul, Nat.zero_add] at hp f2 f3
  unfold qnan
  rw [hp, decode_eq]
  simp only [f2, f3]
  have : 2 ^ (f.mb - 1) ≠ 0 := by positivity
  simp [this]

/-- **decoding the encoding of a canonical value gives the value back** -/
theorem decode_toBits (f : Fmt) (h : f.WF) (v : Val) (hc : Canon f v) : decode f (toBits f v) = v := by
  cases v with
  | nan => exact decode_qnan f h
  | inf s => exact decode_infBits f h s
  | fin s q e => exact decode_toBits_fin f h s q e hc

end Urandom.IEEE

namespace Urandom.IEEE

/-! ### `round` produces canonical values -/

/-- the arithmetic heart of `roundCore`: whatever the rounding decision `u` is (it can only be "up"
when bits were actually shifted out), the significand/exponent pair is canonical -/
theorem core_canon (mb : ℕ) (emin : ℤ) (m : ℕ) (hm : m ≠ 0) (e e' : ℤ)
    (h1 : e + ((m.log2 + 1 : ℕ) : ℤ) - ((mb : ℤ) + 1) ≤ e') (h2 : emin ≤ e')
    (h3 : e' = e + ((m.log2 + 1 : ℕ) : ℤ) - ((mb : ℤ) + 1) ∨ e' = emin)
    (q0 : ℕ) (hq0 : q0 = if e' - e ≤ 0 then m <<< (e' - e).natAbs else m >>> (e' - e).toNat)
    (u : Bool) (hu : e' - e ≤ 0 → u = false) (q : ℕ) (hq : q = if u then q0 + 1 else q0) :
    ((if q ≥ 2 ^ (mb + 1) then (q / 2, e' + 1) else (q, e')).1 < 2 ^ mb ∧
      (if q ≥ 2 ^ (mb + 1) then (q / 2, e' + 1) else (q, e')).2 = emin) ∨
    (2 ^ mb ≤ (if q ≥ 2 ^ (mb + 1) then (q / 2, e' + 1) else (q, e')).1 ∧
      (if q ≥ 2 ^ (mb + 1) then (q / 2, e' + 1) else (q, e')).1 < 2 ^ (mb + 1) ∧
      emin ≤ (if q ≥ 2 ^ (mb + 1) then (q / 2, e' + 1) else (q, e')).2) := by
  have hlo : 2 ^ m.log2 ≤ m := Nat.log2_self_le hm
  have hhi : m < 2 ^ (m.log2 + 1) := Nat.lt_log2_self
  generalize hnb : m.log2 + 1 = nb at *
  have hlog : m.log2 = nb - 1 := by omega
  rw [hlog] at hlo
  have hnb1 : 1 ≤ nb := by omega
  by_cases hsh : e' - e ≤ 0
  · -- nothing is shifted out
    obtain ⟨k, hk⟩ : ∃ k : ℕ, (k : ℤ) = e - e' := ⟨(e - e').toNat, Int.toNat_of_nonneg (by omega)⟩
    have hka : (e' - e).natAbs = k := by omega
    rw [if_pos hsh, hka, Nat.shiftLeft_eq] at hq0
    have hkn : k + nb ≤ mb + 1 := by omega
    have hu' := hu hsh
    subst hu'
    simp only [Bool.false_eq_true, if_false] at hq
    rw [hq]
    clear hq
    have hlt : q0 < 2 ^ (mb + 1) := by
      rw [hq0]
      calc m * 2 ^ k < 2 ^ nb * 2 ^ k := Nat.mul_lt_mul_of_pos_right hhi (Nat.pos_of_ne_zero (by positivity))
        _ = 2 ^ (nb + k) := (pow_add 2 nb k).symm
        _ ≤ 2 ^ (mb + 1) := Nat.pow_le_pow_right (by decide) (by omega)
    have hn : ¬ q0 ≥ 2 ^ (mb + 1) := by omega
    rw [if_neg hn]
    rcases h3 with h3 | h3
    · by_cases hem : e' = emin
      · by_cases hq : q0 < 2 ^ mb
        · exact Or.inl ⟨hq, hem⟩
        · exact Or.inr ⟨by omega, hlt, h2⟩
      · right
        refine ⟨?_, hlt, h2⟩
        have hkn' : k + nb = mb + 1 := by omega
        rw [hq0]
        calc 2 ^ mb = 2 ^ (nb - 1 + k) := by congr 1; omega
          _ = 2 ^ (nb - 1) * 2 ^ k := pow_add 2 _ _
          _ ≤ m * 2 ^ k := Nat.mul_le_mul_right _ hlo
    · by_cases hq : q0 < 2 ^ mb
      · exact Or.inl ⟨hq, h3⟩
      · exact Or.inr ⟨by omega, hlt, h2⟩
  · -- `k ≥ 1` bits are shifted out
    obtain ⟨k, hk⟩ : ∃ k : ℕ, (k : ℤ) = e' - e := ⟨(e' - e).toNat, Int.toNat_of_nonneg (by omega)⟩
    have hkt : (e' - e).toNat = k := by omega
    rw [if_neg hsh, hkt, Nat.shiftRight_eq_div_pow] at hq0
    have hkn : nb ≤ mb + 1 + k := by omega
    have hpk : 0 < 2 ^ k := Nat.pos_of_ne_zero (by positivity)
    have hlt0 : q0 < 2 ^ (mb + 1) := by
      rw [hq0, Nat.div_lt_iff_lt_mul hpk]
      calc m < 2 ^ nb := hhi
        _ ≤ 2 ^ (mb + 1 + k) := Nat.pow_le_pow_right (by decide) hkn
        _ = 2 ^ (mb + 1) * 2 ^ k := pow_add 2 _ _
    have hqle : q0 ≤ q ∧ q ≤ q0 + 1 := by cases u <;> simp at hq <;> omega
    by_cases hc : q ≥ 2 ^ (mb + 1)
    · rw [if_pos hc]
      have hqe : q = 2 ^ (mb + 1) := by omega
      have hhalf : q / 2 = 2 ^ mb := by rw [hqe, pow_succ]; exact Nat.mul_div_cancel _ (by decide)
      right
      refine ⟨by simp only [hhalf]; exact le_refl _, ?_, by simp only []; omega⟩
      simp only [hhalf]
      exact Nat.pow_lt_pow_right (by decide) (by omega)
    · rw [if_neg hc]
      have hlt : q < 2 ^ (mb + 1) := by omega
      rcases h3 with h3 | h3
      · by_cases hem : e' = emin
        · by_cases hq' : q < 2 ^ mb
          · exact Or.inl ⟨hq', hem⟩
          · exact Or.inr ⟨by omega, hlt, h2⟩
        · right
          refine ⟨?_, hlt, h2⟩
          have hkn' : nb = mb + 1 + k := by omega
          have : 2 ^ mb ≤ q0 := by
            rw [hq0, Nat.le_div_iff_mul_le hpk]
            calc 2 ^ mb * 2 ^ k = 2 ^ (mb + k) := (pow_add 2 _ _).symm
              _ = 2 ^ (nb - 1) := by congr 1; omega
              _ ≤ m := hlo
          omega
      · by_cases hq' : q < 2 ^ mb
        · exact Or.inl ⟨hq', h3⟩
        · exact Or.inr ⟨by omega, hlt, h2⟩

/-- `roundCore` in the shape of `core_canon` -/
theorem roundCore_canon (f : Fmt) (m : ℕ) (hm : m ≠ 0) (e : ℤ) (st : Bool) :
    ((roundCore f m e st).1 < 2 ^ f.mb ∧ (roundCore f m e st).2 = f.emin) ∨
    (2 ^ f.mb ≤ (roundCore f m e st).1 ∧ (roundCore f m e st).1 < 2 ^ (f.mb + 1) ∧ f.emin ≤ (roundCore f m e st).2) := by
  unfold roundCore
  simp only []
  refine core_canon f.mb f.emin m hm e _ ?_ ?_ ?_ _ rfl _ ?_ _ rfl
  · push_cast; omega
  · omega
  · push_cast; omega
  · intro h; rw [if_pos h]

/-- **every value `round` returns is canonical for the format** -/
theorem round_canon (f : Fmt) (v : Val) (st : Bool) : Canon f (round f v st) := by
  cases v with
  | nan => trivial
  | inf s => trivial
  | fin s m e =>
    unfold round
    simp only []
    split
    · exact Or.inl ⟨Nat.pos_of_ne_zero (by positivity), rfl⟩
    · rename_i hm
      unfold finish
      split
      · trivial
      · rename_i hfin
        rcases roundCore_canon f m hm e st with ⟨a, b⟩ | ⟨a, b, c⟩
        · exact Or.inl ⟨a, b⟩
        · exact Or.inr ⟨a, b, c, by omega⟩

/-- **the bits an operation returns decode to the rounded exact value** -/
theorem decode_encode (f : Fmt) (h : f.WF) (v : Val) (st : Bool) : decode f (encode f v st) = round f v st :=
  decode_toBits f h _ (round_canon f v st)

end Urandom.IEEE

namespace Urandom.IEEE

/-! ### rounding is exact on representable values -/

theorem log2_shiftLeft (q k : ℕ) (hq : q ≠ 0) : (q <<< k).log2 = q.log2 + k := by
  have h0 : q <<< k ≠ 0 := by rw [Nat.shiftLeft_eq]; positivity
  rw [Nat.log2_eq_iff h0, Nat.shiftLeft_eq]
  have h1 : 2 ^ q.log2 ≤ q := Nat.log2_self_le hq
  have h2 : q < 2 ^ (q.log2 + 1) := Nat.lt_log2_self
  constructor
  · rw [pow_add]; exact Nat.mul_le_mul_right _ h1
  · have : q.log2 + k + 1 = (q.log2 + 1) + k := by omega
    rw [this, pow_add]; exact Nat.mul_lt_mul_of_pos_right h2 (by positivity)

/-- every decoded value is canonical -/
theorem decode_canon (f : Fmt) (bits : ℕ) : Canon f (decode f bits) := by
  rw [decode_eq]
  have hA : 0 < 2 ^ f.mb := Nat.pos_of_ne_zero (by positivity)
  have hB : 0 < 2 ^ f.eb := Nat.pos_of_ne_zero (by positivity)
  split
  · split <;> trivial
  · rename_i h1
    split
    · exact Or.inl ⟨Nat.mod_lt _ hA, rfl⟩
    · rename_i h2
      right
      have hlt : bits >>> f.mb % 2 ^ f.eb < 2 ^ f.eb := Nat.mod_lt _ hB
      have hm : bits % 2 ^ f.mb < 2 ^ f.mb := Nat.mod_lt _ hA
      generalize bits >>> f.mb % 2 ^ f.eb = E at *
      refine ⟨by omega, by rw [pow_succ]; omega, ?_, ?_⟩
      · unfold Fmt.emin; omega
      · unfold Fmt.emaxField at *; omega

/-- **`round` returns a representable value unchanged**, however it is presented (`q·2^k` at exponent
`e - k`) -/
theorem round_exact (f : Fmt) (s : Bool) (q : ℕ) (e : ℤ) (k : ℕ) (st : Bool) (hc : Canon f (.fin s q e)) :
    round f (.fin s (q <<< k) (e - k)) st = .fin s q e := by
  by_cases hq : q = 0
  · subst hq
    rcases hc with ⟨_, he⟩ | ⟨h, _⟩
    · simp [round, he]
    · exact absurd h (by have : 0 < 2 ^ f.mb := Nat.pos_of_ne_zero (by positivity); omega)
  · have h0 : q <<< k ≠ 0 := by rw [Nat.shiftLeft_eq]; positivity
    unfold round
    simp only [h0, if_false]
    have hlo : 2 ^ q.log2 ≤ q := Nat.log2_self_le hq
    have hhi : q < 2 ^ (q.log2 + 1) := Nat.lt_log2_self
    -- the exponent `roundCore` settles on is `e`
    have he' : max (e - k + (((q <<< k).log2 + 1 : ℕ) : ℤ) - ((f.mb : ℤ) + 1)) f.emin = e := by
      rw [log2_shiftLeft q k hq]
      rcases hc with ⟨hsub, hee⟩ | ⟨hn1, hn2, hn3, _⟩
      · have : q.log2 < f.mb := (Nat.log2_lt hq).2 hsub
        push_cast; omega
      · have h1 : f.mb ≤ q.log2 := (Nat.le_log2 hq).2 hn1
        have h2 : q.log2 < f.mb + 1 := (Nat.log2_lt hq).2 hn2
        push_cast; omega
    have hcore : roundCore f (q <<< k) (e - k) st = (q, e) := by
      unfold roundCore
      simp only []
      rw [he']
      have hsh : e - (e - (k : ℤ)) = k := by omega
      rw [hsh]
      have hqlt : q < 2 ^ (f.mb + 1) := by
        rcases hc with ⟨hsub, _⟩ | ⟨_, hn2, _, _⟩
        · exact lt_trans hsub (Nat.pow_lt_pow_right (by decide) (by omega))
        · exact hn2
      by_cases hk : k = 0
      · subst hk
        simp [hqlt.not_ge]
      · have hkpos : ¬ ((k : ℤ) ≤ 0) := by omega
        have hq0 : (q <<< k) >>> k = q := by
          rw [Nat.shiftLeft_eq, Nat.shiftRight_eq_div_pow]
          exact Nat.mul_div_cancel _ (Nat.pos_of_ne_zero (by positivity))
        have hrem : (q <<< k) % 2 ^ k = 0 := by rw [Nat.shiftLeft_eq]; exact Nat.mul_mod_left _ _
        have hhalf : 2 ^ (k - 1) ≠ 0 := by positivity
        simp only [hkpos, if_false, Int.toNat_natCast, hq0, hrem]
        have hne : ¬ ((0 : ℕ) = 2 ^ (k - 1)) := fun h => hhalf h.symm
        simp [hne, hqlt.not_ge]
    rw [hcore]
    unfold finish
    rcases hc with ⟨hsub, _⟩ | ⟨_, _, _, hn4⟩
    · have : ¬ (q ≥ 2 ^ f.mb ∧ e + f.mb + f.bias ≥ (f.emaxField : ℤ)) := by omega
      simp [this]
    · have : ¬ (q ≥ 2 ^ f.mb ∧ e + f.mb + f.bias ≥ (f.emaxField : ℤ)) := by omega
      simp [this]

end Urandom.IEEE
