import Mathlib.Dynamics.PeriodicPts.Defs
import Mathlib.Data.Nat.Prime.Basic
import Mathlib.Tactic.Ring

open Function

/-- glue lemma: full period from "N is a period" + "no N/q is a period (q prime)". -/
theorem minimalPeriod_eq_of_prime_quotients {α : Type} (f : α → α) (x : α) (N : ℕ) (hN : 0 < N)
    (hper : IsPeriodicPt f N x)
    (hq : ∀ q : ℕ, q.Prime → q ∣ N → ¬ IsPeriodicPt f (N / q) x) :
    minimalPeriod f x = N := by
  have hdvd : minimalPeriod f x ∣ N := hper.minimalPeriod_dvd
  obtain ⟨m, hm⟩ := hdvd
  by_cases h1 : m = 1
  · subst h1; simpa using hm.symm
  · exfalso
    have hm0 : m ≠ 0 := by rintro rfl; simp at hm; omega
    obtain ⟨q, hqp, hqm⟩ := Nat.exists_prime_and_dvd h1
    obtain ⟨m', rfl⟩ := hqm
    have hqN : q ∣ N := ⟨minimalPeriod f x * m', by rw [hm]; ring⟩
    apply hq q hqp hqN
    have : N / q = minimalPeriod f x * m' := by
      rw [hm]
      have : minimalPeriod f x * (q * m') = q * (minimalPeriod f x * m') := by ring
      rw [this, Nat.mul_div_cancel_left _ hqp.pos]
    rw [this]
    exact (isPeriodicPt_minimalPeriod f x).mul_const m'
